(* Ledger/CrashProofs2.v — C06, general form: restart at ANY crash point, the node on ANY other
   well-formed chain (longer, shorter, forked at any depth), the fast-forward branch of Start
   over a stale fork included.
   The fast-forward over a stale fork (no wallet ready, the node more than [ff] blocks long, the
   stored tip abandoned by the node) writes sync records of the node's chain ON TOP of the
   records of the abandoned fork: the stored sync records are then no longer those of one chain,
   and the invariant of CrashProofs.v ([PInv]: the ledger is [L] of a well-formed chain) is lost.
   The invariant used here ([GW]) allows such "junk" below a level: the credits are those of a
   well-formed chain c = lo ++ hi, the sync records are those of lo' ++ hi where lo' has the
   heights of lo and consists, like lo, of blocks of a set [Old] that pay no address of any
   wallet (the blocks known when the last fast-forward happened: no wallet existed then, and an
   address is issued before any block pays it).  A reorganisation that finds its fork point in
   the junk rolls back to an empty ledger and re-connects blocks that pay nobody: the result is
   again of that form.  Reports depend on the credits and on the tip only, so they are those of
   [L] of the node's chain once the wallet is on the node's tip. *)
From Coq Require Import List ZArith NArith Bool Lia.
Import ListNotations.
Open Scope Z_scope.
Require Import MW.Ledger.Model MW.Ledger.Spec MW.Ledger.Run MW.Ledger.WF.
Require Import MW.Ledger.Proofs MW.Ledger.Proofs2 MW.Ledger.Proofs3 MW.Ledger.Proofs4 MW.Ledger.Proofs6.
Require Import MW.Ledger.Crash MW.Ledger.Crash2 MW.Ledger.CrashProofs.

(* ---------------------------------------------------------------- heights without hash links *)

Fixpoint hlinked (h : Z) (c : list block) : Prop :=
  match c with
  | [] => True
  | b :: r => b_height b = h /\ hlinked (h + 1) r
  end.

Lemma linked_hlinked : forall c pv h, linked pv h c -> hlinked h c.
Proof.
  induction c as [|b r IH]; intros pv h H; [exact I|].
  cbn [linked] in H. destruct H as [_ [Hh Hr]]. split; [exact Hh|apply (IH _ _ Hr)].
Qed.

Lemma hlinked_app : forall a b h, hlinked h (a ++ b) <-> hlinked h a /\ hlinked (h + Z.of_nat (length a)) b.
Proof.
  induction a as [|x a IH]; intros b h.
  - cbn [app length Z.of_nat hlinked]. rewrite Z.add_0_r. tauto.
  - cbn [app hlinked length]. rewrite (IH b (h + 1)).
    replace (h + 1 + Z.of_nat (length a)) with (h + Z.of_nat (S (length a))) by lia. tauto.
Qed.

Lemma hlinked_height : forall a x r h, hlinked h (a ++ x :: r) -> b_height x = h + Z.of_nat (length a).
Proof.
  intros a x r h H. apply hlinked_app in H. destruct H as [_ H]. cbn [hlinked] in H. tauto.
Qed.

Lemma hlinked_heights_split : forall c1 c2,
  hlinked 0 (c1 ++ c2) ->
  (forall b, In b c1 -> b_height b < Z.of_nat (length c1)) /\
  (forall b, In b c2 -> Z.of_nat (length c1) <= b_height b).
Proof.
  intros c1 c2 Hl. split; intros b Hb.
  - apply in_split in Hb. destruct Hb as [a [r Hc1]]. subst c1. rewrite <- app_assoc in Hl. cbn [app] in Hl.
    rewrite (hlinked_height _ _ _ _ Hl). rewrite app_length. cbn [length]. lia.
  - apply in_split in Hb. destruct Hb as [a [r Hc2]]. subst c2. rewrite app_assoc in Hl.
    rewrite (hlinked_height _ _ _ _ Hl). rewrite app_length. lia.
Qed.

Lemma synced_at_hl : forall p own c y h0,
  hlinked h0 c -> In y c -> synced_at (L p own c) (b_height y) = Some (b_id y).
Proof.
  intros p own c y h0 Hl Hy. apply in_split in Hy. destruct Hy as [a [r Hc]]. subst c.
  unfold synced_at, L. cbn [synced]. unfold synced_of.
  rewrite map_app. cbn [map]. rewrite rev_app_distr. cbn [rev]. rewrite <- app_assoc. cbn [app].
  rewrite find_app_none.
  - cbn [find fst]. rewrite Z.eqb_refl. reflexivity.
  - intros e He. apply in_rev in He. apply in_map_iff in He. destruct He as [z [He Hz]]. subst e.
    cbn [fst]. apply in_split in Hz. destruct Hz as [r1 [r2 Hr]]. subst r.
    pose proof (hlinked_height a y _ h0 Hl) as Hy.
    assert (Hl' : hlinked h0 ((a ++ y :: r1) ++ z :: r2)).
    { rewrite <- app_assoc. exact Hl. }
    pose proof (hlinked_height _ z _ h0 Hl') as Hz. rewrite app_length in Hz. cbn [length] in Hz.
    apply Z.eqb_neq. lia.
Qed.

Lemma rollback_at_hl : forall p own c c1 y c2,
  hlinked 0 c -> c = c1 ++ y :: c2 -> rollback_to (L p own c) (b_height y + 1) = L p own (c1 ++ [y]).
Proof.
  intros p own c c1 y c2 Hl Hc.
  assert (Hc' : c = (c1 ++ [y]) ++ c2). { rewrite Hc, <- app_assoc. reflexivity. }
  rewrite Hc' in Hl. destruct (hlinked_heights_split _ _ Hl) as [H1 H2].
  assert (Hh : b_height y + 1 = Z.of_nat (length (c1 ++ [y]))).
  { rewrite <- app_assoc in Hl. cbn [app] in Hl. rewrite (hlinked_height _ _ _ _ Hl).
    rewrite app_length. cbn [length]. lia. }
  rewrite Hc'. apply rollback_L; rewrite Hh; assumption.
Qed.

(* ---------------------------------------------------------------- ledger and sync records taken apart *)

Definition mix (a b : wstate) : wstate := {| credits := credits a; synced := synced b |}.

Lemma mix_self : forall st, mix st st = st.
Proof. intros [cs sy]. reflexivity. Qed.

Lemma mix_ext : forall a a' b b', credits a = credits a' -> synced b = synced b' -> mix a b = mix a' b'.
Proof. intros a a' b b' H1 H2. unfold mix. rewrite H1, H2. reflexivity. Qed.

Lemma rollback_mix : forall a b h, rollback_to (mix a b) h = mix (rollback_to a h) (rollback_to b h).
Proof. reflexivity. Qed.

Lemma matched_mix : forall a b x, matched (mix a b) x = matched b x.
Proof. reflexivity. Qed.

Lemma collect_mix : forall n a b fuel x acc, collect n (mix a b) fuel x acc = collect n b fuel x acc.
Proof.
  intros n a b fuel. induction fuel as [|f IH]; intros x acc; [reflexivity|].
  cbn [collect]. fold (matched (mix a b) x). fold (matched b x). rewrite matched_mix.
  destruct (matched b x); [reflexivity|].
  destruct (node_block n (b_prev x)) as [pb|]; [apply IH|reflexivity].
Qed.

Definition push (b : wstate) (bs : list block) : wstate :=
  {| credits := credits b; synced := rev (map (fun x => (b_height x, b_id x)) bs) ++ synced b |}.

Lemma push_L : forall p own P bs, synced (push (L p own P) bs) = synced_of (P ++ bs).
Proof. intros p own P bs. cbn [push synced L]. unfold synced_of. rewrite map_app, rev_app_distr. reflexivity. Qed.

Lemma connect_block_mix : forall p own cm cm' lk a b x a',
  connect_block p true own cm lk a x = Ok a' ->
  connect_block p true own cm' lk (mix a b) x = Ok (mix a' (push b [x])).
Proof.
  intros p own cm cm' lk a b x a' H. unfold connect_block in *. cbn [mix credits synced] in *.
  destruct (filter_block_txs own (credits a) lk [] (b_txs x)) as [recs|]; [|discriminate].
  destruct (apply_recs p (credits a) (b_height x) (b_id x) recs) as [cs|]; [|discriminate].
  inversion H. reflexivity.
Qed.

Lemma push_push : forall b x bs, push (push b [x]) bs = push b (x :: bs).
Proof.
  intros b x bs. unfold push. cbn [credits synced map rev app]. f_equal.
  rewrite <- app_assoc. reflexivity.
Qed.

Lemma connect_all_mix : forall p own n bs cm cm' a b a',
  connect_all p true own cm n a bs = Ok a' ->
  connect_all p true own cm' n (mix a b) bs = Ok (mix a' (push b bs)).
Proof.
  intros p own n bs. induction bs as [|x bs IH]; intros cm cm' a b a' H.
  - cbn [connect_all] in *. inversion H. subst a'. unfold push. cbn [map rev app]. destruct b. reflexivity.
  - cbn [connect_all] in *. destruct (node_at n (b_height x)) as [nb|]; [|discriminate].
    destruct (negb (b_id nb =? b_id x)%N); [discriminate|].
    destruct (connect_block p true own cm (node_tx n) a x) as [a1|] eqn:Hcb; [|discriminate].
    rewrite (connect_block_mix p own cm cm' (node_tx n) a b x a1 Hcb).
    rewrite (IH cm cm' a1 (push b [x]) a' H). rewrite push_push. reflexivity.
Qed.

(* a report depends on the credits and on the tip only *)
Lemma model_report_ext : forall a b w, credits a = credits b -> tip a = tip b -> model_report a w = model_report b w.
Proof.
  intros a b w Hc Ht.
  unfold model_report, gross_balance, bal_spendable, bal_wstaking, bal_wbinding, listed_unspent, wallet_unspent,
    row_of_credit, mature, confs.
  rewrite Hc, Ht. reflexivity.
Qed.

(* collect stops at a block whose sync record matches, whatever the ledger *)
Lemma collect_spec_st : forall st n pvn g0 n',
  linked pvn 0 n -> NoDup (map b_id n) -> n = g0 :: n' -> matched st g0 = true ->
  forall fuel n1 x acc r,
  n = n1 ++ x :: acc ++ r -> (length n1 < fuel)%nat ->
  exists m1 y m2, n1 ++ x :: acc = m1 ++ y :: m2 /\ matched st y = true /\
                  collect n st fuel x acc = Some (b_height y, m2).
Proof.
  intros st n pvn g0 n' Hln Hnd Hgen Hg. induction fuel as [|f IH]; intros n1 x acc r Hn Hfuel.
  - lia.
  - cbn [collect]. fold (matched st x).
    destruct (matched st x) eqn:Hm.
    + exists n1, x, acc. split; [reflexivity|split; [exact Hm|reflexivity]].
    + destruct n1 as [|z n1'] eqn:Hn1.
      { exfalso. rewrite Hn in Hgen. cbn [app] in Hgen. inversion Hgen. subst x. rewrite Hg in Hm. discriminate. }
      assert (Hne : z :: n1' <> []) by discriminate.
      destruct (exists_last Hne) as [n1'' [x' Hlast]]. rewrite Hlast in *. clear Hne.
      assert (Hn2 : n = n1'' ++ x' :: (x :: acc) ++ r).
      { rewrite Hn. rewrite <- app_assoc. reflexivity. }
      assert (Hprev : b_prev x = b_id x').
      { rewrite Hn2 in Hln. cbn [app] in Hln. apply (linked_prev _ _ _ _ _ _ Hln). }
      rewrite Hprev. rewrite node_block_found; [|assumption|].
      2:{ rewrite Hn2. apply in_or_app. right. left. reflexivity. }
      destruct (IH n1'' x' (x :: acc) r Hn2) as [m1 [y [m2 [Hsplit [Hy Hcol]]]]].
      { rewrite app_length in Hfuel. cbn [length] in Hfuel. lia. }
      exists m1, y, m2. split; [|split; assumption].
      rewrite <- Hsplit. rewrite <- app_assoc. reflexivity.
Qed.

(* ---------------------------------------------------------------- blocks that pay nobody *)

Definition inert (own : owner_fn) (Old : list block) : Prop :=
  forall b t o, In b Old -> In t (b_txs b) -> In o (t_outs t) -> own (o_sh o) = None.

Lemma inert_L : forall p own Old l, inert own Old -> incl l Old -> credits (L p own l) = [].
Proof.
  intros p own Old l Hin Hl. rewrite (L_own_ext p own (own_of []) l).
  - cbn [L credits]. apply E_none.
  - intros b t o Hb Ht Ho. rewrite (Hin b t o (Hl b Hb) Ht Ho). reflexivity.
Qed.

Lemma inert_nil : forall Old, inert (own_of []) Old.
Proof. intros Old b t o _ _ _. reflexivity. Qed.

(* ---------------------------------------------------------------- the generalised ledger invariant *)

Section General.
Variable p : params.
Variable g : block.
Variable B : list block.
Hypothesis B_ids : forall b1 b2, In b1 B -> In b2 B -> b_id b1 = b_id b2 -> b1 = b2.

(* every block of the set is the tip of a well-formed chain from g made of blocks of the set *)
Definition reach (Old : list block) (b : block) : Prop :=
  exists m, wf_chain (m ++ [b]) /\ from_g g (m ++ [b]) /\ incl (m ++ [b]) Old.
Definition closed (Old : list block) : Prop := forall b, In b Old -> reach Old b.

Lemma reach_mono : forall A A' b, incl A A' -> reach A b -> reach A' b.
Proof.
  intros A A' b HA [m [H1 [H2 H3]]]. exists m. split; [exact H1|split; [exact H2|]].
  intros z Hz. apply HA. apply H3. exact Hz.
Qed.

(* two well-formed chains from g over B that contain the same block agree below it *)
Lemma chains_agree_below : forall c n c1 y c2 n1 n2,
  wf_chain c -> wf_chain n -> incl c B -> incl n B ->
  c = c1 ++ y :: c2 -> n = n1 ++ y :: n2 -> c1 = n1.
Proof.
  intros c n c1 y c2 n1 n2 Hwfc Hwfn HcB HnB Hc Hn.
  destruct (wf_linked _ Hwfc) as [pvc Hlc]. destruct (wf_linked _ Hwfn) as [pvn Hln].
  apply (common_prefix c n pvc pvn 0 Hlc Hln (ids_agree_B B B_ids c n HcB HnB) c1 y c2 n1 n2 Hc Hn).
Qed.

Lemma closed_prefix : forall Old n n1 y n2,
  closed Old -> incl Old B -> wf_chain n -> incl n B ->
  n = n1 ++ y :: n2 -> In y Old -> incl (n1 ++ [y]) Old.
Proof.
  intros Old n n1 y n2 Hcl HOB Hwfn HnB Hn Hy.
  destruct (Hcl y Hy) as [m [Hwfm [_ Hm]]].
  assert (Hmn : m = n1).
  { apply (chains_agree_below (m ++ [y]) n m y [] n1 n2 Hwfm Hwfn); try assumption; [|reflexivity].
    intros z Hz. apply HOB. apply Hm. exact Hz. }
  subst m. exact Hm.
Qed.

(* [GW own Old st c]: the credits of st are those of the well-formed chain c = lo ++ hi; its sync
   records are those of lo' ++ hi, where lo' has the heights of lo, starts with g, ends like lo
   when hi is empty, and lo, lo' consist of blocks of Old *)
Record GW (own : owner_fn) (Old : list block) (st : wstate) (c : list block) : Prop := {
  gw_wf : wf_chain c;
  gw_g : from_g g c;
  gw_rep : exists lo lo' hi,
     c = lo ++ hi /\ credits st = E p own (ptxs c) /\ synced st = synced_of (lo' ++ hi) /\
     length lo' = length lo /\ hlinked 0 lo' /\ incl lo Old /\ incl lo' Old /\ from_g g lo' /\
     last (lo' ++ hi) g = last c g
}.

Lemma GW_mix : forall own own' st c lo' hi,
  credits st = E p own (ptxs c) -> synced st = synced_of (lo' ++ hi) ->
  st = mix (L p own c) (L p own' (lo' ++ hi)).
Proof. intros own own' st c lo' hi H1 H2. destruct st as [cs sy]. cbn in *. subst. reflexivity. Qed.

Lemma GW_L : forall own Old c, wf_chain c -> from_g g c -> In g Old -> GW own Old (L p own c) c.
Proof.
  intros own Old c Hwf [c' Hc] HgO. constructor; [exact Hwf|exists c'; exact Hc|].
  exists [g], [g], c'. subst c. cbn [app].
  split; [reflexivity|split; [reflexivity|split; [reflexivity|split; [reflexivity|]]]].
  destruct (wf_genesis _ Hwf) as [g' [rest [Heq [Hh _]]]]. inversion Heq. subst g' rest.
  split; [split; [exact Hh|exact I]|].
  split; [intros z [Hz|[]]; subst z; exact HgO|].
  split; [intros z [Hz|[]]; subst z; exact HgO|].
  split; [exists []; reflexivity|reflexivity].
Qed.

Lemma hl_pseudo : forall c lo lo' hi,
  wf_chain c -> c = lo ++ hi -> length lo' = length lo -> hlinked 0 lo' -> hlinked 0 (lo' ++ hi).
Proof.
  intros c lo lo' hi Hwf Hc Hlen Hl. apply hlinked_app. split; [exact Hl|].
  destruct (wf_linked _ Hwf) as [pv Hlc]. apply linked_hlinked in Hlc. rewrite Hc in Hlc.
  apply hlinked_app in Hlc. rewrite Hlen. tauto.
Qed.

Lemma last_snoc_tip : forall own P' z, tip (L p own (P' ++ [z])) = (b_height z, b_id z).
Proof. intros. apply tip_L_snoc. Qed.

(* the stored tip is the tip of c *)
Lemma GW_tip : forall own Old st c, GW own Old st c -> tip st = (b_height (last c g), b_id (last c g)).
Proof.
  intros own Old st c [Hwf Hg [lo [lo' [hi [Hc [Hcr [Hsy [Hlen [Hl [Hlo [Hlo' [Hg' Hlast]]]]]]]]]]]].
  assert (Hne : lo' ++ hi <> []). { destruct Hg' as [t Ht]. rewrite Ht. discriminate. }
  destruct (exists_last Hne) as [P' [z HP]].
  unfold tip. rewrite Hsy, HP, synced_of_snoc. cbn [hd].
  rewrite <- Hlast, HP, last_last. reflexivity.
Qed.

Lemma GW_matched_g : forall own Old st c, GW own Old st c -> matched st g = true.
Proof.
  intros own Old st c [Hwf Hg [lo [lo' [hi [Hc [Hcr [Hsy [Hlen [Hl [Hlo [Hlo' [Hg' Hlast]]]]]]]]]]]].
  rewrite (GW_mix own own st c lo' hi Hcr Hsy), matched_mix. unfold matched.
  rewrite (synced_at_hl p own (lo' ++ hi) g 0).
  - apply N.eqb_refl.
  - apply (hl_pseudo c lo lo' hi Hwf Hc Hlen Hl).
  - destruct Hg' as [t Ht]. rewrite Ht. left. reflexivity.
Qed.

Lemma firstn_in : forall (A : Type) k (l : list A) x, In x (firstn k l) -> In x l.
Proof.
  intros A k. induction k as [|k IH]; intros l x H; [destruct H|].
  destruct l as [|a l]; [destruct H|]. cbn [firstn] in H. destruct H as [H|H]; [left; exact H|right; apply IH; exact H].
Qed.

Lemma firstn_app_le : forall (A : Type) (a b : list A) k, (k <= length a)%nat -> firstn k (a ++ b) = firstn k a.
Proof.
  intros A a b k Hk. rewrite firstn_app. replace (k - length a)%nat with O by lia.
  cbn [firstn]. apply app_nil_r.
Qed.

(* rolling back to a block whose sync record matches *)
Lemma GW_rollback : forall own Old st c y,
  GW own Old st c -> incl c B -> incl Old B -> closed Old -> inert own Old ->
  In y B -> matched st y = true ->
  exists cy cy', cy = cy' ++ [y] /\ GW own Old (rollback_to st (b_height y + 1)) cy /\ (incl cy c \/ incl cy Old).
Proof.
  intros own Old st c y [Hwf Hg [lo [lo' [hi [Hc [Hcr [Hsy [Hlen [Hl [Hlo [Hlo' [Hg' Hlast]]]]]]]]]]]]
         HcB HOB Hcl Hin HyB Hm.
  pose proof (hl_pseudo c lo lo' hi Hwf Hc Hlen Hl) as HlP.
  pose proof (GW_mix own own st c lo' hi Hcr Hsy) as Hst.
  assert (HyP : In y (lo' ++ hi)).
  { rewrite Hst, matched_mix in Hm. unfold matched in Hm.
    destruct (synced_at (L p own (lo' ++ hi)) (b_height y)) as [bid|] eqn:Hs; [|discriminate].
    apply N.eqb_eq in Hm. subst bid. apply synced_at_some in Hs. destruct Hs as [z [Hz [_ Hid]]].
    assert (HzB : In z B).
    { apply in_app_or in Hz. destruct Hz as [Hz|Hz]; [apply HOB; apply Hlo'; exact Hz|].
      apply HcB. rewrite Hc. apply in_or_app. right. exact Hz. }
    rewrite <- (B_ids z y HzB HyB Hid). exact Hz. }
  destruct (wf_linked _ Hwf) as [pv Hlc].
  rewrite Hst, rollback_mix.
  apply in_app_or in HyP. destruct HyP as [HyP|HyP].
  - (* the fork point lies in the junk: everything left pays nobody *)
    apply in_split in HyP. destruct HyP as [l1 [l2 Hlo'eq]].
    assert (HyO : In y Old). { apply Hlo'. rewrite Hlo'eq. apply in_or_app. right. left. reflexivity. }
    destruct (Hcl y HyO) as [m [Hwfm [Hgm Hm']]].
    assert (Hhy : b_height y = Z.of_nat (length l1)).
    { rewrite Hlo'eq in Hl. rewrite (hlinked_height _ _ _ _ Hl). lia. }
    assert (Hhy' : b_height y = Z.of_nat (length m)).
    { destruct (wf_linked _ Hwfm) as [pvm Hlm]. rewrite (linked_height _ _ _ _ _ Hlm). lia. }
    set (k := S (length l1)).
    assert (Hk : (k <= length lo)%nat).
    { rewrite <- Hlen, Hlo'eq, app_length. cbn [length]. unfold k. lia. }
    exists (m ++ [y]), m. split; [reflexivity|]. split; [|right; exact Hm'].
    constructor; [exact Hwfm|exact Hgm|].
    exists (m ++ [y]), (l1 ++ [y]), []. rewrite !app_nil_r.
    split; [reflexivity|]. cbn [mix credits synced].
    split; [|split; [|split; [|split; [|split; [|split; [|split]]]]]].
    + (* credits *)
      change (E p own (ptxs (m ++ [y]))) with (credits (L p own (m ++ [y]))).
      rewrite (inert_L p own Old (m ++ [y]) Hin Hm').
      assert (Hsplit : c = firstn k c ++ skipn k c). { symmetry. apply firstn_skipn. }
      assert (Hflen : length (firstn k c) = k).
      { apply firstn_length_le. rewrite Hc, app_length. lia. }
      rewrite Hsplit in Hlc. destruct (linked_heights_split _ _ _ Hlc) as [H1 H2]. rewrite Hflen in H1, H2.
      rewrite Hsplit at 1. rewrite (rollback_L p own (firstn k c) (skipn k c)).
      * apply (inert_L p own Old). exact Hin. rewrite Hc, (firstn_app_le _ lo hi k Hk).
        intros z Hz. apply Hlo. apply (firstn_in _ _ _ _ Hz).
      * intros b Hb. specialize (H1 b Hb). unfold k in *. lia.
      * intros b Hb. specialize (H2 b Hb). unfold k in *. lia.
    + (* sync records *)
      assert (HP : lo' ++ hi = l1 ++ y :: (l2 ++ hi)). { rewrite Hlo'eq, <- app_assoc. reflexivity. }
      rewrite (rollback_at_hl p own (lo' ++ hi) l1 y (l2 ++ hi) HlP HP). reflexivity.
    + rewrite !app_length. cbn [length]. lia.
    + rewrite Hlo'eq in Hl. change (y :: l2) with ([y] ++ l2) in Hl. rewrite app_assoc in Hl.
      apply hlinked_app in Hl. tauto.
    + exact Hm'.
    + intros z Hz. apply Hlo'. rewrite Hlo'eq. apply in_app_or in Hz. destruct Hz as [Hz|[Hz|[]]].
      * apply in_or_app. left. exact Hz.
      * subst z. apply in_or_app. right. left. reflexivity.
    + destruct Hg' as [t Ht]. rewrite Hlo'eq in Ht. destruct l1 as [|z l1'].
      * cbn [app] in Ht. inversion Ht. exists []. reflexivity.
      * cbn [app] in Ht. inversion Ht. exists (l1' ++ [y]). reflexivity.
    + rewrite !last_last. reflexivity.
  - (* the fork point lies on the wallet's chain above the junk *)
    apply in_split in HyP. destruct HyP as [h1 [h2 Hhi]].
    assert (Hc2 : c = (lo ++ h1) ++ y :: h2). { rewrite Hc, Hhi, <- app_assoc. reflexivity. }
    assert (HP2 : lo' ++ hi = (lo' ++ h1) ++ y :: h2). { rewrite Hhi, <- app_assoc. reflexivity. }
    assert (Hc3 : c = ((lo ++ h1) ++ [y]) ++ h2). { rewrite Hc2, <- (app_assoc (lo ++ h1) [y] h2). reflexivity. }
    exists ((lo ++ h1) ++ [y]), (lo ++ h1). split; [reflexivity|]. split.
    + constructor.
      * rewrite Hc3 in Hwf. apply (wf_chain_prefix _ _ Hwf). destruct (lo ++ h1); discriminate.
      * destruct Hg as [t Ht]. rewrite Hc3 in Ht. destruct ((lo ++ h1) ++ [y]) as [|z r] eqn:Hz.
        -- destruct (lo ++ h1); discriminate.
        -- cbn [app] in Ht. inversion Ht. exists r. reflexivity.
      * exists lo, lo', (h1 ++ [y]). rewrite !app_assoc.
        split; [reflexivity|]. cbn [mix credits synced].
        rewrite (rollback_at p own c (lo ++ h1) y h2 pv Hlc Hc2).
        rewrite (rollback_at_hl p own (lo' ++ hi) (lo' ++ h1) y h2 HlP HP2).
        split; [reflexivity|split; [reflexivity|split; [exact Hlen|split; [exact Hl|split; [exact Hlo|split; [exact Hlo'|split; [exact Hg'|]]]]]]].
        rewrite !last_last. reflexivity.
    + left. intros z Hz. rewrite Hc3. apply in_or_app. left. exact Hz.
Qed.

(* connecting blocks of the node on top *)
Lemma GW_connect : forall own Old st c n bs r cm,
  GW own Old st c -> wf_chain n -> n = c ++ bs ++ r ->
  exists st', connect_all p true own cm n st bs = Ok st' /\ GW own Old st' (c ++ bs).
Proof.
  intros own Old st c n bs r cm [Hwf Hg [lo [lo' [hi [Hc [Hcr [Hsy [Hlen [Hl [Hlo [Hlo' [Hg' Hlast]]]]]]]]]]]] Hwfn Hn.
  pose proof (GW_mix own own st c lo' hi Hcr Hsy) as Hst.
  assert (Hcne : c <> []). { destruct Hg as [t Ht]. rewrite Ht. discriminate. }
  pose proof (connect_all_L p own cm n bs c r Hwfn Hn Hcne) as Hconn.
  exists (mix (L p own (c ++ bs)) (push (L p own (lo' ++ hi)) bs)). split.
  - rewrite Hst. apply (connect_all_mix p own n bs cm cm _ _ _ Hconn).
  - constructor.
    + assert (Hn' : n = (c ++ bs) ++ r). { rewrite Hn, <- app_assoc. reflexivity. }
      rewrite Hn' in Hwfn. apply (wf_chain_prefix _ _ Hwfn). destruct c; [contradiction|discriminate].
    + destruct Hg as [t Ht]. exists (t ++ bs). rewrite Ht. reflexivity.
    + exists lo, lo', (hi ++ bs). rewrite Hc, <- app_assoc.
      split; [reflexivity|]. cbn [mix credits synced]. split; [reflexivity|].
      split; [rewrite (app_assoc lo' hi bs); apply push_L|].
      split; [exact Hlen|split; [exact Hl|split; [exact Hlo|split; [exact Hlo'|split; [exact Hg'|]]]]].
      destruct bs as [|x bs'] using rev_ind.
      * rewrite !app_nil_r. rewrite <- Hc. exact Hlast.
      * rewrite !app_assoc, !last_last. reflexivity.
Qed.

(* the announcement of a block of the node's chain *)
Lemma GW_process_node : forall own Old st c n b n1 n2,
  GW own Old st c -> incl c B -> incl Old B -> closed Old -> inert own Old ->
  wf_chain n -> from_g g n -> incl n B -> n = n1 ++ b :: n2 -> n1 <> [] ->
  exists st', process p true own n st b = Ok st' /\ GW own Old st' (n1 ++ [b]).
Proof.
  intros own Old st c n b n1 n2 HGW HcB HOB Hcl Hin Hwfn Hgn HnB Hn Hne.
  destruct (wf_linked _ Hwfn) as [pvn Hln].
  pose proof (GW_tip own Old st c HGW) as Htip.
  unfold process. destruct (snd (tip st) =? b_prev b)%N eqn:Ht.
  - (* extends the stored tip: the wallet's chain is the node's chain below b *)
    pose proof (gw_wf _ _ _ _ HGW) as Hwfc.
    destruct (exists_last (wf_nonempty _ Hwfc)) as [cpre [y Hc]].
    destruct (exists_last Hne) as [n1' [x' Hn1]].
    rewrite Htip, Hc, last_last in Ht. cbn [snd] in Ht. apply N.eqb_eq in Ht.
    assert (Hn' : n = n1' ++ x' :: b :: n2). { rewrite Hn, Hn1, <- app_assoc. reflexivity. }
    assert (Hyx : y = x').
    { apply B_ids.
      - apply HcB. rewrite Hc. apply in_or_app. right. left. reflexivity.
      - apply HnB. rewrite Hn'. apply in_or_app. right. left. reflexivity.
      - rewrite Ht. rewrite Hn' in Hln. apply (linked_prev _ _ _ _ _ _ Hln). }
    subst x'.
    assert (Hpre : cpre = n1').
    { apply (chains_agree_below c n cpre y [] n1' (b :: n2) Hwfc Hwfn HcB HnB Hc Hn'). }
    assert (Hcn : c = n1). { rewrite Hc, Hn1, Hpre. reflexivity. }
    rewrite <- Hcn. apply (GW_connect own Old st c n [b] n2 _ HGW Hwfn). rewrite Hcn, Hn. reflexivity.
  - (* reorganisation *)
    assert (Hfuel : (length n1 < S (Z.to_nat (b_height b)))%nat).
    { rewrite Hn in Hln. rewrite (linked_height _ _ _ _ _ Hln). lia. }
    destruct Hgn as [n' Hgn].
    destruct (collect_spec_st st n pvn g n' Hln (wf_bids _ Hwfn) Hgn (GW_matched_g own Old st c HGW)
                _ n1 b [] n2 Hn Hfuel) as [m1 [y [m2 [Hsplit [Hy Hcol]]]]].
    rewrite Hcol.
    assert (Hn' : n = m1 ++ y :: m2 ++ n2).
    { rewrite Hn. change (b :: n2) with ([b] ++ n2). rewrite app_assoc, Hsplit, <- app_assoc. reflexivity. }
    assert (HyB : In y B). { apply HnB. rewrite Hn'. apply in_or_app. right. left. reflexivity. }
    destruct (GW_rollback own Old st c y HGW HcB HOB Hcl Hin HyB Hy) as [cy [cy' [Hcy [HGW' Hincl]]]].
    assert (HcyB : incl cy B).
    { destruct Hincl as [H|H]; intros z Hz; [apply HcB|apply HOB]; apply H; exact Hz. }
    assert (Hcy' : cy' = m1).
    { apply (chains_agree_below cy n cy' y [] m1 (m2 ++ n2) (gw_wf _ _ _ _ HGW') Hwfn HcyB HnB Hcy Hn'). }
    subst cy'.
    assert (Hn'' : n = cy ++ m2 ++ n2). { rewrite Hn', Hcy, <- app_assoc. reflexivity. }
    destruct (GW_connect own Old _ cy n m2 n2 (credits st) HGW' Hwfn Hn'') as [st' [Hconn HGW'']].
    exists st'. split; [exact Hconn|].
    rewrite Hcy, <- app_assoc in HGW''. cbn [app] in HGW''. rewrite <- Hsplit in HGW''. exact HGW''.
Qed.

(* a successful announcement of any block *)
Lemma GW_process_ok : forall own Old st c n b st',
  GW own Old st c -> incl c B -> incl Old B -> closed Old -> inert own Old ->
  wf_chain n -> from_g g n -> incl n B -> In b B -> b <> g ->
  process p true own n st b = Ok st' ->
  exists c' c'', c' = c'' ++ [b] /\ GW own Old st' c' /\ (incl c' n \/ incl c' c \/ incl c' Old).
Proof.
  intros own Old st c n b st' HGW HcB HOB Hcl Hin Hwfn Hgn HnB HbB Hbg Hproc.
  assert (Hon_node : forall nb, In nb n -> b_id nb = b_id b -> In b n).
  { intros nb Hin' Hid. rewrite <- (B_ids nb b (HnB _ Hin') HbB Hid). assumption. }
  assert (Hcases : In b n \/ (matched st b = true /\ st' = rollback_to st (b_height b + 1))).
  { pose proof Hproc as Hproc'. unfold process in Hproc'.
    destruct (snd (tip st) =? b_prev b)%N.
    - left. destruct (connect_all_ok_in _ _ _ _ _ _ _ _ Hproc' b (or_introl eq_refl)) as [nb [Hin' Hid]].
      apply (Hon_node nb Hin' Hid).
    - destruct (collect n st (S (Z.to_nat (b_height b))) b []) as [[f bs]|] eqn:Hcol; [|discriminate].
      destruct (collect_cases _ _ _ _ _ _ _ Hcol) as [[Hm [Hf Hbs]]|Hin'].
      + right. subst f bs. cbn [connect_all] in Hproc'. inversion Hproc' as [Hst]. split; [exact Hm|reflexivity].
      + left. destruct (connect_all_ok_in _ _ _ _ _ _ _ _ Hproc' b Hin') as [nb [Hin'' Hid]].
        apply (Hon_node nb Hin'' Hid). }
  destruct Hcases as [Hbn|[Hm Hst]].
  - apply in_split in Hbn. destruct Hbn as [n1 [n2 Hn]].
    assert (Hne : n1 <> []).
    { intros Hnil. subst n1. destruct Hgn as [n' Hn']. rewrite Hn in Hn'. cbn [app] in Hn'.
      inversion Hn'. contradiction. }
    destruct (GW_process_node own Old st c n b n1 n2 HGW HcB HOB Hcl Hin Hwfn Hgn HnB Hn Hne) as [st1 [Hp1 HGW1]].
    rewrite Hp1 in Hproc. inversion Hproc. subst st1.
    exists (n1 ++ [b]), n1. split; [reflexivity|split; [exact HGW1|]].
    left. intros z Hz. rewrite Hn. apply in_app_or in Hz. destruct Hz as [Hz|[Hz|[]]].
    + apply in_or_app. left. exact Hz.
    + subst z. apply in_or_app. right. left. reflexivity.
  - destruct (GW_rollback own Old st c b HGW HcB HOB Hcl Hin HbB Hm) as [cy [cy' [Hcy [HGW' Hincl]]]].
    exists cy, cy'. subst st'. split; [exact Hcy|split; [exact HGW'|]].
    destruct Hincl as [H|H]; [right; left; exact H|right; right; exact H].
Qed.

End General.

(* ---------------------------------------------------------------- more on heights *)

Lemma hlinked_ge : forall m h x, hlinked h m -> In x m -> h <= b_height x.
Proof.
  intros m h x Hl Hin. apply in_split in Hin. destruct Hin as [a [b Hm]]. subst m.
  rewrite (hlinked_height _ _ _ _ Hl). lia.
Qed.

Lemma hl_filter_split : forall m h t, hlinked h m ->
  m = filter (fun b => b_height b <? t) m ++ filter (fun b => negb (b_height b <? t)) m.
Proof.
  induction m as [|b r IH]; intros h t Hl; [reflexivity|].
  cbn [hlinked] in Hl. destruct Hl as [Hh Hr]. cbn [filter].
  destruct (b_height b <? t) eqn:Hlt; cbn [negb app].
  - f_equal. apply (IH _ _ Hr).
  - apply Z.ltb_ge in Hlt.
    rewrite (filter_all_false _ (fun b0 => b_height b0 <? t) r).
    + cbn [app]. f_equal. symmetry. apply filter_all_true. intros x Hx.
      pose proof (hlinked_ge _ _ _ Hr Hx). apply negb_true_iff. apply Z.ltb_ge. lia.
    + intros x Hx. pose proof (hlinked_ge _ _ _ Hr Hx). apply Z.ltb_ge. lia.
Qed.

Lemma above_hlinked : forall n pv h hs, linked pv h n -> h - 1 <= hs -> hlinked (hs + 1) (above n hs).
Proof.
  induction n as [|b r IH]; intros pv h hs Hl Hhs; [exact I|].
  pose proof Hl as Hl0. cbn [linked] in Hl. destruct Hl as [_ [Hh Hr]].
  unfold above. cbn [filter]. destruct (hs <? b_height b) eqn:Hlt.
  - apply Z.ltb_lt in Hlt. assert (Heq : hs + 1 = h) by lia. rewrite Heq.
    rewrite (filter_all_true _ _ r).
    + apply (linked_hlinked _ _ _ Hl0).
    + intros x Hx. pose proof (linked_ge _ _ _ _ Hr Hx). apply Z.ltb_lt. lia.
  - apply Z.ltb_ge in Hlt. apply (IH _ _ hs Hr). lia.
Qed.

Lemma wf_last_in : forall n g, wf_chain n -> In (last n g) n.
Proof.
  intros n g Hwf. pose proof (wf_nonempty _ Hwf) as Hne. rewrite (app_removelast_last g Hne) at 2.
  apply in_or_app. right. left. reflexivity.
Qed.

Lemma wf_last_height : forall n g, wf_chain n -> b_height (last n g) = chain_height n.
Proof.
  intros n g Hwf. pose proof (wf_nonempty _ Hwf) as Hnn.
  destruct (wf_linked _ Hwf) as [pv Hl]. rewrite (app_removelast_last g Hnn) in Hl.
  rewrite (linked_height _ _ _ _ _ Hl). unfold chain_height.
  rewrite (app_removelast_last g Hnn) at 2. rewrite app_length. cbn [length]. lia.
Qed.

Lemma above_last : forall n g hs, wf_chain n -> hs < chain_height n ->
  above n hs <> [] /\ last (above n hs) g = last n g.
Proof.
  intros n g hs Hwf Hlt.
  pose proof (wf_nonempty _ Hwf) as Hnn. pose proof (wf_last_height n g Hwf) as Hh.
  destruct (exists_last Hnn) as [n' [x Hn]]. subst n. rewrite last_last in *.
  unfold above. rewrite filter_app. cbn [filter].
  assert (Hb : hs <? b_height x = true). { apply Z.ltb_lt. lia. }
  rewrite Hb. split; [destruct (filter _ n'); discriminate|apply last_last].
Qed.

Lemma last_app_ne : forall (A : Type) (a b : list A) d, b <> [] -> last (a ++ b) d = last b d.
Proof.
  intros A a b d Hb. destruct (exists_last Hb) as [b' [x Hx]]. rewrite Hx, app_assoc, !last_last. reflexivity.
Qed.

(* ---------------------------------------------------------------- the process invariant, generalised *)

Section Proc.
Variable p : params.
Variable g : block.
Variable B : list block.
Hypothesis B_ids : forall b1 b2, In b1 B -> In b2 B -> b_id b1 = b_id b2 -> b1 = b2.

Definition GI (A : list block) (s : sim) (c : list block) : Prop :=
  wf_chain (s_node s) /\ from_g g (s_node s) /\ incl (s_node s) A /\ closed g A /\
  exists Old, incl Old A /\ closed g Old /\ inert (own_of (s_own s)) Old /\ incl c A /\
              GW p g (own_of (s_own s)) Old (s_wallet s) c.

Definition GP (A : list block) (pr : proc) : Prop := coherent pr /\ exists c, GI A (pr_sim pr) c.

Lemma GP_node : forall A pr, GP A pr -> wf_chain (s_node (pr_sim pr)) /\ from_g g (s_node (pr_sim pr)) /\ incl (s_node (pr_sim pr)) A.
Proof. intros A pr [_ [c [H1 [H2 [H3 _]]]]]. tauto. Qed.

Lemma PInv_GP : forall A pr, PInv p g A pr -> closed g A -> In g A -> GP A pr.
Proof.
  intros A pr [Hco [Hwfn [Hgn [HnA [c [Hwfc [Hgc [HcA Hst]]]]]]]] Hcl HgA.
  split; [exact Hco|]. exists c. split; [exact Hwfn|split; [exact Hgn|split; [exact HnA|split; [exact Hcl|]]]].
  exists [g]. split; [intros z [Hz|[]]; subst z; exact HgA|]. split.
  - intros z [Hz|[]]. subst z. exists []. cbn [app].
    assert (Hwfg : wf_chain [g]).
    { destruct Hgc as [c' Hc']. rewrite Hc' in Hwfc. change (g :: c') with ([g] ++ c') in Hwfc.
      apply (wf_chain_prefix _ _ Hwfc). discriminate. }
    split; [exact Hwfg|split; [exists []; reflexivity|apply incl_refl]].
  - split.
    + intros b t o [Hb|[]] Ht Ho. subst b.
      destruct (wf_genesis _ Hwfc) as [g' [rest [Heq [_ [Htx _]]]]]. destruct Hgc as [c' Hc']. rewrite Hc' in Heq.
      inversion Heq. subst g'. rewrite Htx in Ht. destruct Ht.
    + split; [exact HcA|]. rewrite Hst. apply GW_L; [exact Hwfc|exact Hgc|left; reflexivity].
Qed.

(* a successful announcement keeps the invariant *)
Lemma GP_announce : forall A pr b st',
  GP A pr -> incl A B -> In b B -> b <> g ->
  process_best p (own_live pr) (s_node (pr_sim pr)) (pr_best pr) (s_wallet (pr_sim pr)) b = Ok st' ->
  GP A {| pr_sim := with_wallet (pr_sim pr) st'; pr_best := (b_height b, b_id b); pr_cache := pr_cache pr |}.
Proof.
  intros A pr b st' [[Hb Hc] [c [Hwfn [Hgn [HnA [HclA [Old [HOA [Hcl [Hin [HcA HGW]]]]]]]]]]] HAB HbB Hbg Hproc.
  unfold own_live in Hproc. rewrite Hb, Hc, process_best_tip in Hproc.
  assert (HcB : incl c B). { intros z Hz. apply HAB. apply HcA. exact Hz. }
  assert (HOB : incl Old B). { intros z Hz. apply HAB. apply HOA. exact Hz. }
  assert (HnB : incl (s_node (pr_sim pr)) B). { intros z Hz. apply HAB. apply HnA. exact Hz. }
  destruct (GW_process_ok p g B B_ids _ Old _ c _ b st' HGW HcB HOB Hcl Hin Hwfn Hgn HnB HbB Hbg Hproc)
    as [c' [c'' [Hc' [HGW' Hincl]]]].
  split.
  - split; cbn [pr_best pr_cache pr_sim with_wallet s_wallet s_own]; [|exact Hc].
    rewrite (GW_tip p g _ Old st' c' HGW'), Hc', last_last. reflexivity.
  - exists c'. unfold GI. cbn [pr_sim with_wallet s_node s_wallet s_own].
    split; [exact Hwfn|split; [exact Hgn|split; [exact HnA|split; [exact HclA|]]]].
    exists Old. split; [exact HOA|split; [exact Hcl|split; [exact Hin|split; [|exact HGW']]]].
    destruct Hincl as [H|[H|H]]; intros z Hz; [apply HnA|apply HcA|apply HOA]; apply H; exact Hz.
Qed.

(* the announcement of a block of the node's chain succeeds *)
Lemma GP_announce_node : forall A pr b,
  GP A pr -> incl A B -> In b (s_node (pr_sim pr)) -> b <> g ->
  exists st', process_best p (own_live pr) (s_node (pr_sim pr)) (pr_best pr) (s_wallet (pr_sim pr)) b = Ok st'.
Proof.
  intros A pr b [[Hb Hc] [c [Hwfn [Hgn [HnA [HclA [Old [HOA [Hcl [Hin [HcA HGW]]]]]]]]]]] HAB Hbn Hbg.
  unfold own_live. rewrite Hb, Hc, process_best_tip.
  assert (HcB : incl c B). { intros z Hz. apply HAB. apply HcA. exact Hz. }
  assert (HOB : incl Old B). { intros z Hz. apply HAB. apply HOA. exact Hz. }
  assert (HnB : incl (s_node (pr_sim pr)) B). { intros z Hz. apply HAB. apply HnA. exact Hz. }
  apply in_split in Hbn. destruct Hbn as [n1 [n2 Hn]].
  assert (Hne : n1 <> []).
  { intros Hnil. subst n1. destruct Hgn as [n' Hn']. rewrite Hn in Hn'. cbn [app] in Hn'. inversion Hn'. contradiction. }
  destruct (GW_process_node p g B B_ids _ Old _ c _ b n1 n2 HGW HcB HOB Hcl Hin Hwfn Hgn HnB Hn Hne) as [st' [Hp _]].
  exists st'. exact Hp.
Qed.

Lemma closed_attach : forall A n b, closed g A -> incl n A -> wf_chain (n ++ [b]) -> from_g g n -> closed g (A ++ [b]).
Proof.
  intros A n b Hcl HnA Hwf [n' Hn] z Hz. apply in_app_or in Hz. destruct Hz as [Hz|[Hz|[]]].
  - apply (reach_mono g A); [apply incl_appl; apply incl_refl|apply Hcl; exact Hz].
  - subst z. exists n. split; [exact Hwf|split; [exists (n' ++ [b]); rewrite Hn; reflexivity|]].
    apply incl_app; [apply incl_appl; exact HnA|apply incl_appr; apply incl_refl].
Qed.

Lemma GP_step : forall A pr e,
  GP A pr -> incl A B ->
  wf_chain (s_node (step p true (pr_sim pr) e)) -> okev g B e -> fresh_ok A [e] ->
  GP (A ++ attached [e]) (pstep p pr e).
Proof.
  intros A pr e HGP HAB Hwf' [HeB Hng] Hfresh.
  pose proof HGP as [[Hb Hc] [c [Hwfn [Hgn [HnA [HclA [Old [HOA [Hcl [Hin [HcA HGW]]]]]]]]]]].
  destruct e as [sh w|b| |b|w].
  - (* a new address, not paid by any block attached so far *)
    cbn [attached flat_map app]. rewrite app_nil_r. cbn [fresh_ok] in Hfresh. destruct Hfresh as [Hnew _].
    assert (Hext : forall b t o, In b A -> In t (b_txs b) -> In o (t_outs t) ->
                     own_of (s_own (pr_sim pr)) (o_sh o) = own_of ((sh, w) :: s_own (pr_sim pr)) (o_sh o)).
    { intros b t o HbA Ht Ho. unfold own_of. cbn [find fst]. destruct (sh =? o_sh o)%N eqn:Heq; [|reflexivity].
      exfalso. apply N.eqb_eq in Heq. apply (Hnew b HbA). exists t, o. split; [exact Ht|split; [exact Ho|]].
      symmetry. exact Heq. }
    split.
    + split; cbn [pstep pr_best pr_cache pr_sim step s_wallet s_own]; [exact Hb|rewrite Hc; reflexivity].
    + exists c. unfold GI. cbn [pstep pr_sim step s_node s_wallet s_own].
      split; [exact Hwfn|split; [exact Hgn|split; [exact HnA|split; [exact HclA|]]]].
      exists Old. split; [exact HOA|split; [exact Hcl|split; [|split; [exact HcA|]]]].
      * intros b t o HbO Ht Ho. rewrite <- (Hext b t o (HOA b HbO) Ht Ho). apply (Hin b t o HbO Ht Ho).
      * destruct HGW as [Hwfc Hgc [lo [lo' [hi [Hceq [Hcr Hrest]]]]]].
        constructor; [exact Hwfc|exact Hgc|]. exists lo, lo', hi. split; [exact Hceq|split; [|exact Hrest]].
        rewrite Hcr. change (credits (L p (own_of (s_own (pr_sim pr))) c) = credits (L p (own_of ((sh, w) :: s_own (pr_sim pr))) c)).
        f_equal. apply L_own_ext. intros b t o HbC Ht Ho. apply (Hext b t o (HcA b HbC) Ht Ho).
  - (* attach *)
    cbn [attached flat_map app]. cbn [step s_node] in Hwf'.
    split; [split; assumption|]. exists c. unfold GI. cbn [pstep pr_sim step s_node s_wallet s_own].
    split; [exact Hwf'|split; [|split; [|split]]].
    + destruct Hgn as [n' Hn]. exists (n' ++ [b]). rewrite Hn. reflexivity.
    + apply incl_app; [apply incl_appl; exact HnA|apply incl_appr; apply incl_refl].
    + apply (closed_attach A (s_node (pr_sim pr)) b HclA HnA Hwf' Hgn).
    + exists Old. split; [apply incl_appl; exact HOA|split; [exact Hcl|split; [exact Hin|split; [apply incl_appl; exact HcA|exact HGW]]]].
  - (* detach *)
    cbn [attached flat_map app]. rewrite app_nil_r. cbn [step s_node] in Hwf'.
    split; [split; assumption|]. exists c. unfold GI. cbn [pstep pr_sim step s_node s_wallet s_own].
    split; [exact Hwf'|split; [|split; [|split; [exact HclA|]]]].
    + destruct Hgn as [n' Hn]. rewrite Hn in *. destruct n' as [|z n'].
      * exfalso. cbn in Hwf'. apply (wf_nonempty _ Hwf'). reflexivity.
      * exists (removelast (z :: n')). reflexivity.
    + intros z Hz. apply HnA. apply removelast_in. exact Hz.
    + exists Old. tauto.
  - (* process *)
    cbn [attached flat_map app]. rewrite app_nil_r. cbn [pstep].
    destruct (process_best p (own_live pr) (s_node (pr_sim pr)) (pr_best pr) (s_wallet (pr_sim pr)) b) as [st'|err] eqn:Hproc.
    + apply (GP_announce A pr b st' HGP HAB); [apply HeB; right; reflexivity| |exact Hproc].
      intros Heq. apply Hng. rewrite Heq. reflexivity.
    + exact HGP.
  - (* query *)
    cbn [attached flat_map app]. rewrite app_nil_r.
    split; [split; assumption|]. exists c. unfold GI. cbn [pstep pr_sim step s_node s_wallet s_own].
    split; [exact Hwfn|split; [exact Hgn|split; [exact HnA|split; [exact HclA|]]]]. exists Old. tauto.
Qed.

Lemma GP_coh : forall A pr, GP A pr -> coherent pr.
Proof. intros A pr [H _]. exact H. Qed.

Lemma GP_run : forall post A pr,
  GP A pr -> incl A B ->
  (forall s', In s' (sims p true (pr_sim pr) post) -> wf_chain (s_node s')) ->
  (forall e, In e post -> okev g B e) -> fresh_ok A post ->
  incl (A ++ attached post) B ->
  GP (A ++ attached post) (prun p pr post) /\
  pr_sim (prun p pr post) = fold_left (step p true) post (pr_sim pr).
Proof.
  induction post as [|e post IH]; intros A pr Hinv HAB Hsims Hok Hfresh HAB'.
  - cbn [attached flat_map prun fold_left]. rewrite app_nil_r. split; [exact Hinv|reflexivity].
  - destruct (fresh_ok_cons _ _ _ Hfresh) as [Hf1 Hf2].
    pose proof (GP_coh A pr Hinv) as Hco.
    assert (Hstep : GP (A ++ attached [e]) (pstep p pr e)).
    { apply GP_step; try assumption.
      - apply Hsims. cbn [sims]. right. apply sims_head.
      - apply Hok. left. reflexivity. }
    rewrite attached_cons, app_assoc. cbn [prun fold_left]. rewrite <- (pstep_sim p pr e Hco). apply IH.
    + exact Hstep.
    + intros z Hz. apply HAB'. rewrite attached_cons, app_assoc. apply in_or_app. left. exact Hz.
    + intros s' Hs'. apply Hsims. cbn [sims]. right.
      rewrite <- (pstep_sim p pr e Hco). exact Hs'.
    + intros e' He'. apply Hok. right. exact He'.
    + exact Hf2.
    + rewrite <- app_assoc, <- attached_cons. exact HAB'.
Qed.

End Proc.

(* ---------------------------------------------------------------- Start, generalised *)

Section Start2.
Variable p : params.
Variable g : block.
Variable B : list block.
Hypothesis B_ids : forall b1 b2, In b1 B -> In b2 B -> b_id b1 = b_id b2 -> b1 = b2.
Hypothesis B_gpf : genesis_prev_free g B.

Lemma catch_up_best : forall bs pr pr', catch_up p pr bs = Some pr' -> bs <> [] ->
  pr_best pr' = (b_height (last bs g), b_id (last bs g)).
Proof.
  induction bs as [|b r IH]; intros pr pr' H Hne; [contradiction|].
  cbn [catch_up] in H.
  destruct (process_best p (own_live pr) (s_node (pr_sim pr)) (pr_best pr) (s_wallet (pr_sim pr)) b) as [st'|]; [|discriminate].
  destruct r as [|b2 r'].
  - cbn [catch_up] in H. inversion H. reflexivity.
  - change (last (b :: b2 :: r') g) with (last (b2 :: r') g). apply (IH _ _ H). discriminate.
Qed.

Lemma catch_up_G : forall bs A pr,
  GP p g A pr -> incl A B ->
  (forall b, In b bs -> In b (s_node (pr_sim pr)) /\ b <> g) ->
  exists pr', catch_up p pr bs = Some pr' /\ GP p g A pr' /\
    s_node (pr_sim pr') = s_node (pr_sim pr) /\ s_own (pr_sim pr') = s_own (pr_sim pr).
Proof.
  induction bs as [|b r IH]; intros A pr Hinv HAB Hbs.
  - exists pr. split; [reflexivity|split; [exact Hinv|split; reflexivity]].
  - destruct (Hbs b (or_introl eq_refl)) as [Hin Hbg].
    destruct (GP_announce_node p g B B_ids A pr b Hinv HAB Hin Hbg) as [st' Hproc].
    assert (HbB : In b B). { apply HAB. apply (GP_node p g A pr Hinv). exact Hin. }
    pose proof (GP_announce p g B B_ids A pr b st' Hinv HAB HbB Hbg Hproc) as Hinv'.
    set (pr1 := {| pr_sim := with_wallet (pr_sim pr) st'; pr_best := (b_height b, b_id b); pr_cache := pr_cache pr |}) in *.
    destruct (IH A pr1 Hinv' HAB) as [pr' [Hcu [Hinv'' [Hnode Hown]]]].
    { intros b' Hb'. apply Hbs. right. exact Hb'. }
    exists pr'. cbn [catch_up]. rewrite Hproc. fold pr1.
    split; [exact Hcu|split; [exact Hinv''|split; [exact Hnode|exact Hown]]].
Qed.

(* one fast-forward step: no wallet exists, so every block known so far pays nobody *)
Lemma ff_step_G : forall A pr b,
  GP p g A pr -> incl A B -> s_own (pr_sim pr) = [] ->
  In b (s_node (pr_sim pr)) -> b_height b = fst (pr_best pr) + 1 ->
  GP p g A (ff_step pr b).
Proof.
  intros A pr b [[Hb Hc] [c [Hwfn [Hgn [HnA [HclA [Old [HOA [Hcl [Hin [HcA HGW]]]]]]]]]]] HAB Hown Hbn Hhb.
  pose proof (GW_tip p g _ Old _ c HGW) as Htip.
  destruct HGW as [Hwfc Hgc [lo [lo' [hi [Hceq [Hcr [Hsy [Hlen [Hl [Hlo [Hlo' [Hg' Hlast]]]]]]]]]]]].
  apply in_split in Hbn. destruct Hbn as [n1 [n2 Hn]].
  destruct (wf_linked _ Hwfn) as [pvn Hln].
  assert (Hhb' : b_height b = Z.of_nat (length n1)). { rewrite Hn in Hln. rewrite (linked_height _ _ _ _ _ Hln). lia. }
  assert (Hhc : fst (pr_best pr) = Z.of_nat (length c) - 1).
  { rewrite Hb, Htip. cbn [fst]. apply (wf_last_height c g Hwfc). }
  assert (Hn' : s_node (pr_sim pr) = (n1 ++ [b]) ++ n2). { rewrite Hn, <- app_assoc. reflexivity. }
  split.
  - split; cbn [ff_step pr_best pr_cache pr_sim with_wallet s_wallet s_own]; [reflexivity|exact Hc].
  - exists (n1 ++ [b]). unfold GI. cbn [ff_step pr_sim with_wallet s_node s_wallet s_own].
    split; [exact Hwfn|split; [exact Hgn|split; [exact HnA|split; [exact HclA|]]]].
    exists A. split; [apply incl_refl|split; [exact HclA|]]. rewrite Hown.
    split; [apply inert_nil|]. split.
    + intros z Hz. apply HnA. rewrite Hn'. apply in_or_app. left. exact Hz.
    + constructor.
      * rewrite Hn' in Hwfn. apply (wf_chain_prefix _ _ Hwfn). destruct n1; discriminate.
      * destruct Hgn as [n' Hgn]. rewrite Hn in Hgn. destruct n1 as [|z n1'].
        -- exfalso. cbn [app] in Hgn. inversion Hgn. subst b.
           rewrite (genesis_height g _ Hwfc Hgc) in Hhb. cbn [length Z.of_nat] in Hhb'.
           rewrite Hhc in Hhb. pose proof (wf_nonempty _ Hwfc). destruct c; [contradiction|cbn [length] in Hhb; lia].
        -- cbn [app] in Hgn. inversion Hgn. exists (n1' ++ [b]). reflexivity.
      * exists (n1 ++ [b]), ((lo' ++ hi) ++ [b]), []. rewrite !app_nil_r.
        split; [reflexivity|]. cbn [credits synced].
        split; [rewrite Hcr, Hown, !E_none; reflexivity|].
        split; [rewrite Hsy, synced_of_snoc; reflexivity|].
        assert (HlenP : length (lo' ++ hi) = length c). { rewrite Hceq, !app_length, Hlen. reflexivity. }
        split; [rewrite (app_length (lo' ++ hi) [b]), (app_length n1 [b]), HlenP; cbn [length]; lia|].
        split.
        { apply hlinked_app. split; [apply (hl_pseudo c lo lo' hi Hwfc Hceq Hlen Hl)|].
          cbn [hlinked]. split; [rewrite HlenP; lia|exact I]. }
        split; [intros z Hz; apply HnA; rewrite Hn'; apply in_or_app; left; exact Hz|].
        split.
        { intros z Hz. apply in_app_or in Hz. destruct Hz as [Hz|[Hz|[]]].
          - apply in_app_or in Hz. destruct Hz as [Hz|Hz]; [apply HOA; apply Hlo'; exact Hz|].
            apply HcA. rewrite Hceq. apply in_or_app. right. exact Hz.
          - subst z. apply HnA. rewrite Hn. apply in_or_app. right. left. reflexivity. }
        split; [destruct Hg' as [t Ht]; exists ((t ++ hi) ++ [b]); rewrite Ht; reflexivity|].
        rewrite !last_last. reflexivity.
Qed.

Lemma ff_fold_G : forall skip A pr,
  GP p g A pr -> incl A B -> s_own (pr_sim pr) = [] ->
  incl skip (s_node (pr_sim pr)) -> hlinked (fst (pr_best pr) + 1) skip ->
  GP p g A (fold_left ff_step skip pr) /\
  s_node (pr_sim (fold_left ff_step skip pr)) = s_node (pr_sim pr) /\
  s_own (pr_sim (fold_left ff_step skip pr)) = s_own (pr_sim pr) /\
  (skip <> [] -> pr_best (fold_left ff_step skip pr) = (b_height (last skip g), b_id (last skip g))).
Proof.
  induction skip as [|b r IH]; intros A pr Hinv HAB Hown Hincl Hl.
  - cbn [fold_left]. split; [exact Hinv|split; [reflexivity|split; [reflexivity|intros H; contradiction]]].
  - cbn [fold_left]. cbn [hlinked] in Hl. destruct Hl as [Hhb Hlr].
    assert (Hbn : In b (s_node (pr_sim pr))). { apply Hincl. left. reflexivity. }
    pose proof (ff_step_G A pr b Hinv HAB Hown Hbn Hhb) as Hinv'.
    destruct (IH A (ff_step pr b) Hinv' HAB) as [H1 [H2 [H3 H4]]].
    + exact Hown.
    + intros z Hz. apply Hincl. right. exact Hz.
    + cbn [ff_step pr_best fst]. rewrite Hhb. exact Hlr.
    + split; [exact H1|split; [exact H2|split; [exact H3|]]]. intros _.
      destruct r as [|b2 r'].
      * reflexivity.
      * change (last (b :: b2 :: r') g) with (last (b2 :: r') g). apply H4. discriminate.
Qed.

(* the first half of Start: fast-forward and catch-up by height *)
Definition caught (ff : Z) (pr : proc) : option proc :=
  let n := s_node (pr_sim pr) in
  let hs := fst (tip (s_wallet (pr_sim pr))) in
  let hi := chain_height n in
  let todo := above n hs in
  if no_ready_wallet pr && (ff <? hi) then
    let skip := filter (fun b => b_height b <? hi - ff) todo in
    let rest := filter (fun b => negb (b_height b <? hi - ff)) todo in
    catch_up p (fold_left ff_step skip pr) rest
  else catch_up p pr todo.

Lemma start_caught : forall tipfix ff pr,
  start p tipfix ff g pr =
  match caught ff pr with
  | None => None
  | Some pr1 => if tipfix && (chain_height (s_node (pr_sim pr)) <=? fst (tip (s_wallet (pr_sim pr))))
                then tip_check p g pr1 else Some pr1
  end.
Proof. reflexivity. Qed.

Lemma GP_tip_nonneg : forall A pr, GP p g A pr -> 0 <= fst (tip (s_wallet (pr_sim pr))).
Proof.
  intros A pr [_ [c [_ [_ [_ [_ [Old [_ [_ [_ [_ HGW]]]]]]]]]]].
  rewrite (GW_tip p g _ Old _ c HGW). cbn [fst]. pose proof (gw_wf _ _ _ _ _ _ HGW) as Hwfc.
  rewrite (wf_last_height c g Hwfc). unfold chain_height.
  pose proof (wf_nonempty _ Hwfc). destruct c; [contradiction|cbn [length]; lia].
Qed.

Lemma caught_G : forall ff A pr,
  GP p g A pr -> incl A B ->
  exists pr1, caught ff pr = Some pr1 /\ GP p g A pr1 /\
    s_node (pr_sim pr1) = s_node (pr_sim pr) /\ s_own (pr_sim pr1) = s_own (pr_sim pr) /\
    (fst (tip (s_wallet (pr_sim pr))) < chain_height (s_node (pr_sim pr)) ->
     pr_best pr1 = (b_height (last (s_node (pr_sim pr)) g), b_id (last (s_node (pr_sim pr)) g))).
Proof.
  intros ff A pr Hinv HAB. unfold caught.
  set (n := s_node (pr_sim pr)). set (hs := fst (tip (s_wallet (pr_sim pr)))). set (hi := chain_height n).
  destruct (GP_node p g A pr Hinv) as [Hwfn [Hgn HnA]]. fold n in Hwfn, Hgn, HnA.
  pose proof (GP_tip_nonneg A pr Hinv) as Hhs0. fold hs in Hhs0.
  assert (Htodo : forall b, In b (above n hs) -> In b n /\ b <> g).
  { intros b Hb. destruct (above_in _ _ _ Hb) as [Hin Hh]. split; [exact Hin|].
    intros Heq. subst b. rewrite (genesis_height g n Hwfn Hgn) in Hh. lia. }
  destruct (no_ready_wallet pr && (ff <? hi)) eqn:Hcond.
  - (* fast-forward *)
    apply andb_true_iff in Hcond. destruct Hcond as [Hnr _].
    assert (Hown : s_own (pr_sim pr) = []).
    { unfold no_ready_wallet in Hnr. destruct (s_own (pr_sim pr)); [reflexivity|discriminate]. }
    destruct (wf_linked _ Hwfn) as [pv Hl].
    assert (Hhl : hlinked (hs + 1) (above n hs)). { apply (above_hlinked n pv 0 hs Hl). lia. }
    pose proof (hl_filter_split (above n hs) (hs + 1) (hi - ff) Hhl) as Hsplit.
    set (skip := filter (fun b => b_height b <? hi - ff) (above n hs)) in *.
    set (rest := filter (fun b => negb (b_height b <? hi - ff)) (above n hs)) in *.
    rewrite Hsplit in Hhl. apply hlinked_app in Hhl. destruct Hhl as [Hhl1 _].
    assert (Hbt : pr_best pr = tip (s_wallet (pr_sim pr))). { destruct Hinv as [[H _] _]. exact H. }
    destruct (ff_fold_G skip A pr Hinv HAB Hown) as [Hinv1 [Hn1 [Ho1 Hb1]]].
    { intros z Hz. apply (Htodo z). rewrite Hsplit. apply in_or_app. left. exact Hz. }
    { rewrite Hbt. exact Hhl1. }
    destruct (catch_up_G rest A _ Hinv1 HAB) as [pr1 [Hcu [Hinv2 [Hn2 Ho2]]]].
    { intros b Hb. rewrite Hn1. apply Htodo. rewrite Hsplit. apply in_or_app. right. exact Hb. }
    exists pr1. split; [exact Hcu|split; [exact Hinv2|split; [rewrite Hn2; exact Hn1|split; [rewrite Ho2; exact Ho1|]]]].
    intros Hlt. destruct (above_last n g hs Hwfn Hlt) as [Hne Hlast].
    rewrite <- Hlast, Hsplit. destruct rest as [|r0 rest'] eqn:Hrest.
    + rewrite app_nil_r in *. cbn [catch_up] in Hcu. inversion Hcu. subst pr1.
      apply Hb1. rewrite <- Hsplit. exact Hne.
    + rewrite last_app_ne by discriminate. apply (catch_up_best _ _ _ Hcu). discriminate.
  - destruct (catch_up_G (above n hs) A pr Hinv HAB Htodo) as [pr1 [Hcu [Hinv1 [Hn1 Ho1]]]].
    exists pr1. split; [exact Hcu|split; [exact Hinv1|split; [exact Hn1|split; [exact Ho1|]]]].
    intros Hlt. destruct (above_last n g hs Hwfn Hlt) as [Hne Hlast].
    rewrite <- Hlast. apply (catch_up_best _ _ _ Hcu Hne).
Qed.

(* the node was reorganised back to its bare genesis while the wallet was ahead *)
Lemma GP_announce_genesis : forall A pr,
  GP p g A pr -> incl A B -> snd (pr_best pr) <> b_id g ->
  exists st', process_best p (own_live pr) (s_node (pr_sim pr)) (pr_best pr) (s_wallet (pr_sim pr)) g = Ok st' /\
    GP p g A {| pr_sim := with_wallet (pr_sim pr) st'; pr_best := (b_height g, b_id g); pr_cache := pr_cache pr |}.
Proof.
  intros A pr [[Hb Hc] [c [Hwfn [Hgn [HnA [HclA [Old [HOA [Hcl [Hin [HcA HGW]]]]]]]]]]] HAB Hne.
  assert (HcB : incl c B). { intros z Hz. apply HAB. apply HcA. exact Hz. }
  assert (HOB : incl Old B). { intros z Hz. apply HAB. apply HOA. exact Hz. }
  assert (HgB : In g B). { apply HAB. apply HnA. destruct Hgn as [n' Hn']. rewrite Hn'. left. reflexivity. }
  pose proof (GW_tip p g _ Old _ c HGW) as Htip.
  pose proof (GW_matched_g p g _ Old _ c HGW) as Hmg.
  unfold process_best. rewrite Hb, Htip. cbn [snd].
  destruct (b_id (last c g) =? b_prev g)%N eqn:Hpg.
  - exfalso. apply N.eqb_eq in Hpg. apply Hne. rewrite Hb, Htip. cbn [snd].
    assert (HlB : In (last c g) B). { apply HcB. apply wf_last_in. apply (gw_wf _ _ _ _ _ _ HGW). }
    rewrite (B_gpf _ HlB Hpg). reflexivity.
  - cbn [collect]. fold (matched (s_wallet (pr_sim pr)) g). rewrite Hmg. cbn [connect_all].
    destruct (GW_rollback p g B B_ids _ Old _ c g HGW HcB HOB Hcl Hin HgB Hmg) as [cy [cy' [Hcy [HGW' Hincl]]]].
    eexists. split; [reflexivity|]. split.
    + split; cbn [pr_best pr_cache pr_sim with_wallet s_wallet s_own]; [|exact Hc].
      rewrite (GW_tip p g _ Old _ cy HGW'), Hcy, last_last. reflexivity.
    + exists cy. unfold GI. cbn [pr_sim with_wallet s_node s_wallet s_own].
      split; [exact Hwfn|split; [exact Hgn|split; [exact HnA|split; [exact HclA|]]]].
      exists Old. split; [exact HOA|split; [exact Hcl|split; [exact Hin|split; [|exact HGW']]]].
      destruct Hincl as [H|H]; intros z Hz; [apply HcA|apply HOA]; apply H; exact Hz.
Qed.

Lemma tip_check_G : forall A pr,
  GP p g A pr -> incl A B ->
  exists pr2, tip_check p g pr = Some pr2 /\ GP p g A pr2 /\
    s_node (pr_sim pr2) = s_node (pr_sim pr) /\ s_own (pr_sim pr2) = s_own (pr_sim pr) /\
    snd (pr_best pr2) = b_id (last (s_node (pr_sim pr)) g).
Proof.
  intros A pr Hinv HAB. unfold tip_check.
  destruct (GP_node p g A pr Hinv) as [Hwfn [Hgn HnA]].
  set (n := s_node (pr_sim pr)) in *.
  destruct (snd (pr_best pr) =? b_id (last n g))%N eqn:Hid.
  - exists pr. split; [reflexivity|split; [exact Hinv|split; [reflexivity|split; [reflexivity|]]]].
    apply N.eqb_eq. exact Hid.
  - apply N.eqb_neq in Hid. cbn [catch_up]. fold n.
    assert (Hdec : last n g = g \/ last n g <> g).
    { destruct (N.eq_dec (b_id (last n g)) (b_id g)) as [He|He].
      - left. apply B_ids; [apply HAB; apply HnA; apply wf_last_in; exact Hwfn| |exact He].
        apply HAB. apply HnA. destruct Hgn as [n' Hn']. rewrite Hn'. left. reflexivity.
      - right. intros Heq. apply He. rewrite Heq. reflexivity. }
    destruct Hdec as [Hg|Hg].
    + rewrite Hg in *. destruct (GP_announce_genesis A pr Hinv HAB Hid) as [st' [Hp Hinv']].
      fold n in Hp. rewrite Hp. eexists. split; [reflexivity|split; [exact Hinv'|split; [reflexivity|split; reflexivity]]].
    + assert (Hin : In (last n g) n). { apply wf_last_in. exact Hwfn. }
      destruct (GP_announce_node p g B B_ids A pr (last n g) Hinv HAB Hin Hg) as [st' Hp].
      assert (HbB : In (last n g) B). { apply HAB. apply HnA. exact Hin. }
      pose proof (GP_announce p g B B_ids A pr _ st' Hinv HAB HbB Hg Hp) as Hinv'.
      fold n in Hp. rewrite Hp. eexists. split; [reflexivity|split; [exact Hinv'|split; [reflexivity|split; reflexivity]]].
Qed.

(* NtfnsHandler.Start at ANY point of a history, whatever chain the node is on: it succeeds, keeps
   the invariant and, as repaired, ends on the node's tip *)
Lemma start_G : forall tipfix ff A pr,
  GP p g A pr -> incl A B ->
  exists pr', start p tipfix ff g pr = Some pr' /\ GP p g A pr' /\
    s_node (pr_sim pr') = s_node (pr_sim pr) /\ s_own (pr_sim pr') = s_own (pr_sim pr) /\
    (tipfix = true -> snd (pr_best pr') = b_id (last (s_node (pr_sim pr)) g)).
Proof.
  intros tipfix ff A pr Hinv HAB. rewrite start_caught.
  destruct (caught_G ff A pr Hinv HAB) as [pr1 [Hc [Hinv1 [Hn1 [Ho1 Hb1]]]]]. rewrite Hc.
  destruct (chain_height (s_node (pr_sim pr)) <=? fst (tip (s_wallet (pr_sim pr)))) eqn:Hle.
  - destruct tipfix; cbn [andb].
    + destruct (tip_check_G A pr1 Hinv1 HAB) as [pr2 [Ht [Hinv2 [Hn2 [Ho2 Hb2]]]]].
      exists pr2. split; [exact Ht|split; [exact Hinv2|split; [rewrite Hn2; exact Hn1|split; [rewrite Ho2; exact Ho1|]]]].
      intros _. rewrite Hb2, Hn1. reflexivity.
    + exists pr1. split; [reflexivity|split; [exact Hinv1|split; [exact Hn1|split; [exact Ho1|]]]]. intros H. discriminate.
  - rewrite andb_false_r. apply Z.leb_gt in Hle.
    exists pr1. split; [reflexivity|split; [exact Hinv1|split; [exact Hn1|split; [exact Ho1|]]]].
    intros _. rewrite (Hb1 Hle). reflexivity.
Qed.

(* on the node's tip the reports are those of the node's chain *)
Lemma GP_report : forall A pr,
  GP p g A pr -> incl A B -> snd (pr_best pr) = b_id (last (s_node (pr_sim pr)) g) ->
  forall w, observe pr w = spec_report p (own_of (s_own (pr_sim pr))) (s_node (pr_sim pr)) w.
Proof.
  intros A pr [[Hb Hc] [c [Hwfn [Hgn [HnA [HclA [Old [HOA [Hcl [Hin [HcA HGW]]]]]]]]]]] HAB Hbest w.
  pose proof (GW_tip p g _ Old _ c HGW) as Htip.
  pose proof (gw_wf _ _ _ _ _ _ HGW) as Hwfc.
  set (n := s_node (pr_sim pr)) in *.
  assert (Hlast : last c g = last n g).
  { apply B_ids.
    - apply HAB. apply HcA. apply wf_last_in. exact Hwfc.
    - apply HAB. apply HnA. apply wf_last_in. exact Hwfn.
    - rewrite <- Hbest, Hb, Htip. reflexivity. }
  assert (Hcn : c = n).
  { destruct (exists_last (wf_nonempty _ Hwfc)) as [c' [y Hc']]. destruct (exists_last (wf_nonempty _ Hwfn)) as [n' [y' Hn']].
    rewrite Hc', Hn', !last_last in Hlast. subst y'.
    assert (Hpre : c' = n').
    { apply (chains_agree_below B B_ids c n c' y [] n' [] Hwfc Hwfn); try assumption.
      - intros z Hz. apply HAB. apply HcA. exact Hz.
      - intros z Hz. apply HAB. apply HnA. exact Hz. }
    rewrite Hc', Hn', Hpre. reflexivity. }
  unfold observe. rewrite <- (report_L p _ n w Hwfn). apply model_report_ext.
  - destruct HGW as [_ _ [lo [lo' [hi [_ [Hcr _]]]]]]. rewrite Hcr, Hcn. reflexivity.
  - rewrite Htip, Hcn. destruct (exists_last (wf_nonempty _ Hwfn)) as [n' [y' Hn']].
    rewrite Hn', last_last, tip_L_snoc. reflexivity.
Qed.

(* "after catching up with the node": the announcement of the node's tip is processed *)
Lemma finish_G : forall A pr,
  GP p g A pr -> incl A B -> last (s_node (pr_sim pr)) g <> g ->
  GP p g A (finish p g pr) /\ s_node (pr_sim (finish p g pr)) = s_node (pr_sim pr) /\
  s_own (pr_sim (finish p g pr)) = s_own (pr_sim pr) /\
  snd (pr_best (finish p g pr)) = b_id (last (s_node (pr_sim pr)) g).
Proof.
  intros A pr Hinv HAB Hbg. unfold finish.
  destruct (GP_node p g A pr Hinv) as [Hwfn [Hgn HnA]].
  set (n := s_node (pr_sim pr)) in *.
  assert (Hin : In (last n g) n). { apply wf_last_in. exact Hwfn. }
  destruct (GP_announce_node p g B B_ids A pr (last n g) Hinv HAB Hin Hbg) as [st' Hp].
  assert (HbB : In (last n g) B). { apply HAB. apply HnA. exact Hin. }
  pose proof (GP_announce p g B B_ids A pr _ st' Hinv HAB HbB Hbg Hp) as Hinv'.
  subst n. cbn [pstep]. rewrite Hp.
  split; [exact Hinv'|split; [reflexivity|split; reflexivity]].
Qed.

(* runs with crashes: no premise on the crash points *)
Lemma crashes_G : forall tipfix ff ks A pr post,
  GP p g A pr -> incl A B ->
  (forall s', In s' (sims p true (pr_sim pr) post) -> wf_chain (s_node s')) ->
  (forall e, In e post -> okev g B e) -> fresh_ok A post -> incl (A ++ attached post) B ->
  exists pr', crashes p tipfix ff g ks pr post = Some pr' /\ GP p g (A ++ attached post) pr' /\
    s_node (pr_sim pr') = s_node (pr_sim (prun p pr post)) /\
    s_own (pr_sim pr') = s_own (pr_sim (prun p pr post)).
Proof.
  intros tipfix ff. induction ks as [|k ks IH]; intros A pr post Hinv HAB Hsims Hok Hfresh HAB'.
  - exists (prun p pr post). cbn [crashes].
    destruct (GP_run p g B B_ids post A pr Hinv HAB Hsims Hok Hfresh HAB') as [H1 _].
    split; [reflexivity|split; [exact H1|split; reflexivity]].
  - cbn [crashes].
    destruct (cut p k pr post) as [[pr1 pre] post'] eqn:Hcut.
    destruct (cut_spec p _ _ _ _ _ _ Hcut) as [Hpost Hpr1].
    destruct (fresh_ok_app pre A post' ltac:(rewrite <- Hpost; exact Hfresh)) as [Hf1 Hf2].
    assert (HA1 : incl (A ++ attached pre) B).
    { intros z Hz. apply HAB'. rewrite Hpost, attached_app, app_assoc. apply in_or_app. left. exact Hz. }
    destruct (GP_run p g B B_ids pre A pr Hinv HAB) as [Hinv1 Hsim1]; try assumption.
    { intros s' Hs'. apply Hsims. rewrite Hpost. apply sims_prefix_in. exact Hs'. }
    { intros e He. apply Hok. rewrite Hpost. apply in_or_app. left. exact He. }
    rewrite <- Hpr1 in Hinv1, Hsim1.
    unfold restart. rewrite (reopen_coherent pr1 (GP_coh p g _ pr1 Hinv1)).
    destruct (start_G tipfix ff (A ++ attached pre) pr1 Hinv1 HA1) as [pr2 [Hstart [Hinv2 [Hn2 [Ho2 _]]]]].
    rewrite Hstart.
    destruct (IH (A ++ attached pre) pr2 post' Hinv2 HA1) as [pr' [Hcr [Hinv' [Hn' Ho']]]]; try assumption.
    { apply (sims_wf_transfer p true post' (pr_sim pr1) (pr_sim pr2)); [symmetry; exact Hn2|].
      intros x Hx. apply Hsims. rewrite Hpost. apply sims_app_in. rewrite <- Hsim1. exact Hx. }
    { intros e He. apply Hok. rewrite Hpost. apply in_or_app. right. exact He. }
    { rewrite <- app_assoc, <- attached_app, <- Hpost. exact HAB'. }
    exists pr'. split; [exact Hcr|split; [|split]].
    + rewrite Hpost, attached_app, app_assoc. exact Hinv'.
    + rewrite Hn', !prun_node, Hn2, Hpr1, prun_node, Hpost, fold_left_app. reflexivity.
    + rewrite Ho', !prun_own, Ho2, Hpr1, prun_own, Hpost, fold_left_app. reflexivity.
Qed.

Lemma crashes_at_G : forall tipfix ff js A pr post,
  GP p g A pr -> incl A B ->
  (forall s', In s' (sims p true (pr_sim pr) post) -> wf_chain (s_node s')) ->
  (forall e, In e post -> okev g B e) -> fresh_ok A post -> incl (A ++ attached post) B ->
  exists pr', crashes_at p tipfix ff g js pr post = Some pr' /\ GP p g (A ++ attached post) pr' /\
    s_node (pr_sim pr') = s_node (pr_sim (prun p pr post)) /\
    s_own (pr_sim pr') = s_own (pr_sim (prun p pr post)).
Proof.
  intros tipfix ff. induction js as [|j js IH]; intros A pr post Hinv HAB Hsims Hok Hfresh HAB'.
  - exists (prun p pr post). cbn [crashes_at].
    destruct (GP_run p g B B_ids post A pr Hinv HAB Hsims Hok Hfresh HAB') as [H1 _].
    split; [reflexivity|split; [exact H1|split; reflexivity]].
  - cbn [crashes_at].
    set (pre := firstn j post). set (post' := skipn j post).
    assert (Hpost : post = pre ++ post'). { symmetry. apply firstn_skipn. }
    destruct (fresh_ok_app pre A post' ltac:(rewrite <- Hpost; exact Hfresh)) as [Hf1 Hf2].
    assert (HA1 : incl (A ++ attached pre) B).
    { intros z Hz. apply HAB'. rewrite Hpost, attached_app, app_assoc. apply in_or_app. left. exact Hz. }
    destruct (GP_run p g B B_ids pre A pr Hinv HAB) as [Hinv1 Hsim1]; try assumption.
    { intros s' Hs'. apply Hsims. rewrite Hpost. apply sims_prefix_in. exact Hs'. }
    { intros e He. apply Hok. rewrite Hpost. apply in_or_app. left. exact He. }
    set (pr1 := prun p pr pre) in *.
    unfold restart. rewrite (reopen_coherent pr1 (GP_coh p g _ pr1 Hinv1)).
    destruct (start_G tipfix ff (A ++ attached pre) pr1 Hinv1 HA1) as [pr2 [Hstart [Hinv2 [Hn2 [Ho2 _]]]]].
    rewrite Hstart.
    destruct (IH (A ++ attached pre) pr2 post' Hinv2 HA1) as [pr' [Hcr [Hinv' [Hn' Ho']]]]; try assumption.
    { apply (sims_wf_transfer p true post' (pr_sim pr1) (pr_sim pr2)); [symmetry; exact Hn2|].
      intros x Hx. apply Hsims. rewrite Hpost. apply sims_app_in. rewrite <- Hsim1. exact Hx. }
    { intros e He. apply Hok. rewrite Hpost. apply in_or_app. right. exact He. }
    { rewrite <- app_assoc, <- attached_app, <- Hpost. exact HAB'. }
    exists pr'. split; [exact Hcr|split; [|split]].
    + rewrite Hpost, attached_app, app_assoc. exact Hinv'.
    + rewrite Hn', !prun_node, Hn2. unfold pr1. rewrite prun_node, Hpost, fold_left_app. reflexivity.
    + rewrite Ho', !prun_own, Ho2. unfold pr1. rewrite prun_own, Hpost, fold_left_app. reflexivity.
Qed.

End Start2.

(* ---------------------------------------------------------------- C06, general form *)

Lemma init_GP : forall p g, wf_chain [g] -> GP p g [g] (init_proc g).
Proof.
  intros p g Hwfg. apply PInv_GP; [apply init_PInv; exact Hwfg| |left; reflexivity].
  intros z [Hz|[]]. subst z. exists []. split; [exact Hwfg|split; [exists []; reflexivity|apply incl_refl]].
Qed.

(* every list of crash points — no premise on them: each restart succeeds, and once the node's
   tip announcement is processed every wallet reports what the run that never stopped reports,
   which is what the node's best chain pays to its addresses and has not spent *)
Theorem crash_equiv_general : forall p tipfix ff g h bt ks,
  wf_history_gen p true g (h ++ [EvProcess bt]) ->
  last (s_node (run p true g h)) g = bt ->
  genesis_prev_free g (g :: blocks_of_history (h ++ [EvProcess bt])) ->
  exists pr', crashes p tipfix ff g ks (init_proc g) h = Some pr' /\
    forall w, observe (finish p g pr') w = observe (finish p g (prun p (init_proc g) h)) w /\
              observe (finish p g pr') w =
              spec_report p (own_of (s_own (run p true g h))) (s_node (run p true g h)) w.
Proof.
  intros p tipfix ff g h bt ks Hwf Hlast Hgpf.
  destruct (history_setup p g h bt Hwf) as [Hids [Hwfg [Hsims [Hok [Hfresh [HAB Hbg]]]]]].
  set (B := g :: blocks_of_history (h ++ [EvProcess bt])) in *.
  assert (HgB : incl [g] B). { intros z [Hz|[]]. subst z. left. reflexivity. }
  pose proof (init_GP p g Hwfg) as Hinv0.
  destruct (crashes_G p g B Hids Hgpf tipfix ff ks [g] (init_proc g) h Hinv0 HgB Hsims Hok Hfresh HAB)
    as [pr' [Hcr [Hinv' [Hn' Ho']]]].
  destruct (GP_run p g B Hids h [g] (init_proc g) Hinv0 HgB Hsims Hok Hfresh HAB) as [Hinv1 Hsim1].
  change (fold_left (step p true) h (pr_sim (init_proc g))) with (run p true g h) in Hsim1.
  rewrite Hsim1 in Hn', Ho'.
  assert (Hl' : last (s_node (pr_sim pr')) g <> g). { rewrite Hn', Hlast. exact Hbg. }
  assert (Hl1 : last (s_node (pr_sim (prun p (init_proc g) h))) g <> g). { rewrite Hsim1, Hlast. exact Hbg. }
  destruct (finish_G p g B Hids _ pr' Hinv' HAB Hl') as [Hf' [Hfn' [Hfo' Hfb']]].
  destruct (finish_G p g B Hids _ _ Hinv1 HAB Hl1) as [Hf1 [Hfn1 [Hfo1 Hfb1]]].
  exists pr'. split; [exact Hcr|]. intros w.
  rewrite (GP_report p g B Hids _ _ Hf' HAB) by (rewrite Hfn'; exact Hfb').
  rewrite (GP_report p g B Hids _ _ Hf1 HAB) by (rewrite Hfn1; exact Hfb1).
  rewrite Hfn', Hfo', Hfn1, Hfo1, Hn', Ho', Hsim1. split; reflexivity.
Qed.

(* the same for crashes at arbitrary instants (the node may move between the wallet's last commit
   and the restart, and the history goes on afterwards) *)
Theorem crash_equiv_at : forall p tipfix ff g h bt js,
  wf_history_gen p true g (h ++ [EvProcess bt]) ->
  last (s_node (run p true g h)) g = bt ->
  genesis_prev_free g (g :: blocks_of_history (h ++ [EvProcess bt])) ->
  exists pr', crashes_at p tipfix ff g js (init_proc g) h = Some pr' /\
    forall w, observe (finish p g pr') w = observe (finish p g (prun p (init_proc g) h)) w /\
              observe (finish p g pr') w =
              spec_report p (own_of (s_own (run p true g h))) (s_node (run p true g h)) w.
Proof.
  intros p tipfix ff g h bt js Hwf Hlast Hgpf.
  destruct (history_setup p g h bt Hwf) as [Hids [Hwfg [Hsims [Hok [Hfresh [HAB Hbg]]]]]].
  set (B := g :: blocks_of_history (h ++ [EvProcess bt])) in *.
  assert (HgB : incl [g] B). { intros z [Hz|[]]. subst z. left. reflexivity. }
  pose proof (init_GP p g Hwfg) as Hinv0.
  destruct (crashes_at_G p g B Hids Hgpf tipfix ff js [g] (init_proc g) h Hinv0 HgB Hsims Hok Hfresh HAB)
    as [pr' [Hcr [Hinv' [Hn' Ho']]]].
  destruct (GP_run p g B Hids h [g] (init_proc g) Hinv0 HgB Hsims Hok Hfresh HAB) as [Hinv1 Hsim1].
  change (fold_left (step p true) h (pr_sim (init_proc g))) with (run p true g h) in Hsim1.
  rewrite Hsim1 in Hn', Ho'.
  assert (Hl' : last (s_node (pr_sim pr')) g <> g). { rewrite Hn', Hlast. exact Hbg. }
  assert (Hl1 : last (s_node (pr_sim (prun p (init_proc g) h))) g <> g). { rewrite Hsim1, Hlast. exact Hbg. }
  destruct (finish_G p g B Hids _ pr' Hinv' HAB Hl') as [Hf' [Hfn' [Hfo' Hfb']]].
  destruct (finish_G p g B Hids _ _ Hinv1 HAB Hl1) as [Hf1 [Hfn1 [Hfo1 Hfb1]]].
  exists pr'. split; [exact Hcr|]. intros w.
  rewrite (GP_report p g B Hids _ _ Hf' HAB) by (rewrite Hfn'; exact Hfb').
  rewrite (GP_report p g B Hids _ _ Hf1 HAB) by (rewrite Hfn1; exact Hfb1).
  rewrite Hfn', Hfo', Hfn1, Hfo1, Hn', Ho', Hsim1. split; reflexivity.
Qed.

(* restart at ANY point of a history (after any earlier crashes): whatever chain the node is on —
   longer, shorter, forked at any depth below the stored tip, with or without the fast-forward —
   Start succeeds and, as repaired, leaves every wallet's report equal to the specification of
   the node's chain *)
Theorem restart_any_chain : forall p tipfix ff g h bt ks pre post pr1,
  wf_history_gen p true g (h ++ [EvProcess bt]) ->
  genesis_prev_free g (g :: blocks_of_history (h ++ [EvProcess bt])) ->
  h = pre ++ post ->
  crashes p tipfix ff g ks (init_proc g) pre = Some pr1 ->
  s_node (pr_sim pr1) = s_node (run p true g pre) /\ s_own (pr_sim pr1) = s_own (run p true g pre) /\
  exists pr2, restart p true ff g pr1 = Some pr2 /\
    s_node (pr_sim pr2) = s_node (pr_sim pr1) /\ s_own (pr_sim pr2) = s_own (pr_sim pr1) /\
    snd (tip (s_wallet (pr_sim pr2))) = b_id (last (s_node (pr_sim pr1)) g) /\
    forall w, observe pr2 w = spec_report p (own_of (s_own (pr_sim pr1))) (s_node (pr_sim pr1)) w.
Proof.
  intros p tipfix ff g h bt ks pre post pr1 Hwf Hgpf Hh Hcr.
  destruct (history_setup p g h bt Hwf) as [Hids [Hwfg [Hsims [Hok [Hfresh [HAB Hbg]]]]]].
  set (B := g :: blocks_of_history (h ++ [EvProcess bt])) in *.
  assert (HgB : incl [g] B). { intros z [Hz|[]]. subst z. left. reflexivity. }
  pose proof (init_GP p g Hwfg) as Hinv0.
  destruct (fresh_ok_app pre [g] post ltac:(rewrite <- Hh; exact Hfresh)) as [Hf1 _].
  assert (HA1 : incl ([g] ++ attached pre) B).
  { intros z Hz. apply HAB. rewrite Hh, attached_app, app_assoc. apply in_or_app. left. exact Hz. }
  assert (Hsims1 : forall s', In s' (sims p true (pr_sim (init_proc g)) pre) -> wf_chain (s_node s')).
  { intros s' Hs'. apply Hsims. rewrite Hh. apply sims_prefix_in. exact Hs'. }
  assert (Hok1 : forall e, In e pre -> okev g B e).
  { intros e He. apply Hok. rewrite Hh. apply in_or_app. left. exact He. }
  destruct (crashes_G p g B Hids Hgpf tipfix ff ks [g] (init_proc g) pre Hinv0 HgB Hsims1 Hok1 Hf1 HA1)
    as [pr' [Hcr' [Hinv' [Hn' Ho']]]].
  rewrite Hcr in Hcr'. inversion Hcr'. subst pr'. clear Hcr'.
  destruct (GP_run p g B Hids pre [g] (init_proc g) Hinv0 HgB Hsims1 Hok1 Hf1 HA1) as [_ Hsim1].
  change (fold_left (step p true) pre (pr_sim (init_proc g))) with (run p true g pre) in Hsim1.
  rewrite Hsim1 in Hn', Ho'.
  split; [exact Hn'|split; [exact Ho'|]].
  unfold restart. rewrite (reopen_coherent pr1 (GP_coh p g _ pr1 Hinv')).
  destruct (start_G p g B Hids Hgpf true ff _ pr1 Hinv' HA1) as [pr2 [Hstart [Hinv2 [Hn2 [Ho2 Hb2]]]]].
  exists pr2. split; [exact Hstart|split; [exact Hn2|split; [exact Ho2|]]].
  specialize (Hb2 eq_refl).
  split.
  - destruct (GP_coh p g _ pr2 Hinv2) as [Hbt _]. rewrite <- Hbt. exact Hb2.
  - intros w. rewrite (GP_report p g B Hids _ _ Hinv2 HA1) by (rewrite Hn2; exact Hb2).
    rewrite Hn2, Ho2. reflexivity.
Qed.

(* boolean checker for [genesis_prev_free] *)
Definition genesis_prev_free_b (g : block) (bs : list block) : bool :=
  forallb (fun b => negb (b_id b =? b_prev g)%N || (b_id b =? b_id g)%N) bs.

Lemma genesis_prev_free_b_sound : forall g bs,
  (forall b1 b2, In b1 bs -> In b2 bs -> b_id b1 = b_id b2 -> b1 = b2) -> In g bs ->
  genesis_prev_free_b g bs = true -> genesis_prev_free g bs.
Proof.
  intros g bs Hids Hg H b Hb Hid. unfold genesis_prev_free_b in H. rewrite forallb_forall in H.
  specialize (H b Hb). apply orb_true_iff in H. destruct H as [H|H].
  - apply negb_true_iff in H. apply N.eqb_neq in H. contradiction.
  - apply N.eqb_eq in H. apply (Hids b g Hb Hg H).
Qed.
