(* Ledger/FaultReload.v — C18: NewAddress when the reload of the keystore can fail PARTIALLY.
   Definitions only (proofs: FaultReloadProofs.v).

   Ledger/Fault.v models the repair of a failed NewAddress ("the keystore is reloaded from its
   bucket") as all-or-nothing.  The code is finer than that.  keystore.loadAddrManager
   (manager.go) rebuilds an AddrManager from the keystore bucket by a series of reads; every read
   error makes the load fail — EXCEPT the two reads of fetchChildNum (keys exChildNum / inChildNum):

       internalChildNum, externalChildNum, err := fetchChildNum(amBucket)     // err never looked at
       branchInfo := &branchInfo{ ..., nextInternalIndex: internalChildNum, nextExternalIndex: externalChildNum }

   so a keystore loaded while exactly that read fails is a good keystore whose in-memory MIRROR of
   the next child numbers says 0 while the store keeps the true numbers.  loadAddrManager runs in
   the repair of a failed NewAddress (wallet.go: RemoveCachedKeystore + UpdateManagedKeystores in a
   View whose error is dropped), in ImportWallet / ImportWalletWithMnemonic (the import reports
   success), and at start-up.

   Whether the stale mirror matters depends on where AddrManager.nextAddresses takes the next child
   index from.  [from_store = true] is the code as it is: getChildNum reads the number from the
   store INSIDE the open transaction, the mirror is informational (updateManagedAddress refreshes
   it from the transaction's view after every derivation).  [from_store = false] is the variant
   "avoid the redundant read, use the mirror": every single site still looks right — the mirror is
   loaded with the keystore, refreshed inside the transaction, and the whole keystore is reloaded
   after every failure — and it re-issues child 0 after a fault followed by a partially failing
   reload (FaultReloadProofs.new_address_mirror_refuted).

   [mem_undo] is a second switch: true = the code as it stands (96d76da, the repair proposed with this
   model: ForgetAddresses takes the addresses NextAddresses had added out of the table again, no
   database access, cannot fail; the same switch as Import.f_keystore_undo in Ledger/FaultOps.v);
   false = the code before (f6a5978: a failed NewAddress dropped the cached keystore and reloaded it
   from the store — a reload that can fail, partially or altogether).  Since 96d76da loadAddrManager
   runs only in ImportWallet / ImportWalletWithMnemonic and at start-up ([ELoad]), where its partial
   failure is still possible: the theorems about [from_store = true] hold for both values.

   One wallet (keystore buckets of different wallets are disjoint); [derive i] is address number i
   of its external branch (BIP-32 child i, hashed: C04/C14), arbitrary here. *)
From Coq Require Import List Arith Bool NArith.
Import ListNotations.

Section Reload.
Variable derive : nat -> N.

(* the wallet's entry of KeystoreManager.managedKeystores *)
Record cached := {
  c_addrs  : list N;     (* AddrManager.addrs / index, newest first *)
  c_mirror : nat         (* branchInfo.nextExternalIndex *)
}.

Record kst := {
  s_next  : nat;                (* exChildNum in the keystore bucket *)
  s_rows  : list (nat * N);     (* the rows keyed by child index: encrypted public key (pub bucket) and address row *)
  s_cache : option cached       (* None: the keystore is not in the in-memory table *)
}.

(* putEncryptedPubKey / PutNewAddress: a Put under the key of child i replaces what was there *)
Definition set_row (i : nat) (a : N) (rows : list (nat * N)) : list (nat * N) :=
  (i, a) :: filter (fun r => negb (fst r =? i)) rows.

(* how a run of loadAddrManager ends *)
Inductive reload :=
| LoadOk          (* every read works *)
| LoadPartial     (* a read of fetchChildNum fails: the error is dropped, the mirror is 0 *)
| LoadFails.      (* BeginReadTx or another read fails: no keystore enters the table
                     (UpdateManagedKeystores then logs at FATAL level; a failing BeginReadTx is dropped silently) *)

Definition load (l : reload) (s : kst) : option cached :=
  match l with
  | LoadOk      => Some {| c_addrs := map snd (s_rows s); c_mirror := s_next s |}
  | LoadPartial => Some {| c_addrs := map snd (s_rows s); c_mirror := 0 |}
  | LoadFails   => None
  end.

(* one call of NewAddress: no fault, or a fault at any call of the transaction (BeginTx, a read, a
   put, the Commit — the store is unchanged whichever it is: batch atomicity) followed by the
   repairing reload, which ends in one of the three ways *)
Inductive nfault := NNone | NFail (l : reload).

Definition new_address (from_store mem_undo : bool) (f : nfault) (s : kst) : kst * option N :=
  match s_cache s with
  | None => (s, None)                       (* "no wallet in use" / "account not found" *)
  | Some c =>
      let i := if from_store then s_next s else c_mirror c in
      let a := derive i in
      match f with
      | NNone =>
          ({| s_next := S i;                                      (* updateChildNum *)
              s_rows := set_row i a (s_rows s);
              s_cache := Some {| c_addrs := a :: c_addrs c;
                                 c_mirror := S i |} |},            (* updateManagedAddress: fetchChildNum in the transaction *)
           Some a)
      | NFail l =>
          if mem_undo then (s, None)
          else ({| s_next := s_next s; s_rows := s_rows s; s_cache := load l s |}, None)
      end
  end.

(* what happens to the keystore of the wallet: NewAddress calls, and loads of the keystore from the
   store that are not part of a NewAddress (restart, ImportWallet of a keystore with addresses) *)
Inductive event := ENew (f : nfault) | ELoad (l : reload).

Definition step (from_store mem_undo : bool) (e : event) (s : kst) : kst * option N :=
  match e with
  | ENew f => new_address from_store mem_undo f s
  | ELoad l => ({| s_next := s_next s; s_rows := s_rows s; s_cache := load l s |}, None)
  end.

(* a history of events; the addresses handed out, in order *)
Fixpoint run (from_store mem_undo : bool) (evs : list event) (s : kst) : kst * list N :=
  match evs with
  | [] => (s, [])
  | e :: r =>
      let '(s1, res) := step from_store mem_undo e s in
      let '(s2, l) := run from_store mem_undo r s1 in
      (s2, match res with Some a => a :: l | None => l end)
  end.

(* the store records exactly the children 0 .. s_next-1, each with its own address *)
Definition rows_ok (s : kst) : Prop :=
  forall i a, In (i, a) (s_rows s) <-> (i < s_next s /\ a = derive i).

(* two states that differ in the mirror only *)
Definition same_but_mirror (s1 s2 : kst) : Prop :=
  s_next s1 = s_next s2 /\ s_rows s1 = s_rows s2 /\
  match s_cache s1, s_cache s2 with
  | Some c1, Some c2 => c_addrs c1 = c_addrs c2
  | None, None => True
  | _, _ => False
  end.

Definition no_load_fails (evs : list event) : Prop :=
  Forall (fun e => match e with ENew (NFail LoadFails) | ELoad LoadFails => False | _ => True end) evs.

(* no load OUTSIDE a NewAddress (restart, import) loses the keystore *)
Definition no_lost_load (evs : list event) : Prop :=
  Forall (fun e => match e with ELoad LoadFails => False | _ => True end) evs.

Definition clean_calls (evs : list event) : nat :=
  length (filter (fun e => match e with ENew NNone => true | _ => false end) evs).

End Reload.
