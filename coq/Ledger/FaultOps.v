(* Ledger/FaultOps.v — C18: the wallet's write operations as programs of the uniform fault model
   (Ledger/FaultGen.v).  Definitions only; FaultOpsProofs.v shows that the run without fault of each
   program IS the operation of the existing models (Model.process / Crash.process_best,
   Pending.pprocess, Pending.receive_tx, Import.xprocess, Import.import_batch, Import.import_start,
   Import.new_address, Remove.remove_request, Remove.remove_phase1, Remove.remove_round) and
   instantiates the generic theorem.

   Where the numbered calls are.  One [Call] stands for the database calls of one step of the
   model: connecting ONE block (filterBlock: the ExistCreditFromTx reads, the AddRelevantTx puts,
   SetSyncedTo), the whole disconnect walk of a reorganisation, one block of an import batch, the
   credit walk of a removal round, ...  A fault at any of the calls inside such a step is a fault
   "at that step": the working copy is discarded as a whole, and between two database calls of a
   step the Go code touches no in-memory state (that is what was checked on the source for every
   operation; the places where it does are explicit [Mem] nodes below).

   Where the in-memory state is.
     - bestBlock, mempool, expiredMempool (ntfnshandler.go): written only after mwdb.Update has
       returned nil (processConnectedBlock, asyncImport, filterTx for an unmined transaction,
       asyncRemove's RemoveMempoolTx): [post];
     - the keystore manager's table (managedKeystores / AddrManager.addrs): written INSIDE the
       closure by ImportKeystore*, NewKeystore (added), NextAddresses -> updateManagedAddress
       (address added), DeleteKeystore (dropped): [Mem] nodes, with the repairs of wallet.go
       (RemoveCachedKeystore) and of wallet.go NewAddress / ntfnshandler.go asyncRemove as [undo].
       The last two have a switch, Import.f_keystore_undo: true = the code as it stands (96d76da):
       ForgetAddresses takes the addresses NextAddresses had added out of the table again,
       RestoreCachedKeystore puts the keystore DeleteKeystore had dropped back — no database access,
       nothing that can fail; false = the code before (f6a5978 / 33294fa): RemoveCachedKeystore and
       UpdateManagedKeystores inside a View, a READ of the store that can fail itself (the flag of
       [undo]), leaving the keystore out of the table;
     - the two volatile fields of Import.xstate (x_p1: the removal task is past phase 1, x_dead: import
       tasks dropped, as found only) change only together with a successful commit and stay inside
       the store component here. *)
From Coq Require Import List ZArith NArith Bool.
Import ListNotations.
Open Scope Z_scope.
Require Import MW.Ledger.Model MW.Ledger.Spec MW.Ledger.Run MW.Ledger.FaultGen.
Require MW.Ledger.Crash MW.Ledger.Pending.
Require Import MW.Ledger.Import MW.Ledger.Remove.

(* ================================================================ 1. block and reorganisation processing *)

(* store: the ledger; memory: NtfnsHandler.bestBlock (Crash.process_best decides on it); the
   answer of the reorg walk: fork height and blocks to connect *)
Section Process.
Variables (p : params) (own : owner_fn) (n : node).

Definition pX := option (Z * list block).
Notation pprog := (prog wstate (Z * N) pX unit perr).

(* filterBlock for one block *)
Definition connect_step (b : block) (t : wstate) : perr + (wstate * pX) :=
  match node_at n (b_height b) with
  | None => inl EOther
  | Some nb =>
      if negb (b_id nb =? b_id b)%N then inl EMaybeChainRevoked
      else match connect_block p true own (credits t) (node_tx n) t b with
           | Err e => inl e
           | Ok t' => inr (t', None)
           end
  end.

Fixpoint connect_prog (bs : list block) : pprog :=
  match bs with
  | [] => Ret tt
  | b :: rest => Call EOther (connect_step b) (fun _ => connect_prog rest)
  end.

(* processConnectedBlock *)
Definition process_prog (b : block) : pprog :=
  Look (fun best =>
    if (snd best =? b_prev b)%N then connect_prog [b]
    else Read EOther (fun t => inr (collect n t (S (Z.to_nat (b_height b))) b []))
           (fun a => match a with
                     | None => Raise EMaybeChainRevoked
                     | Some (fork, bs) =>
                         Write EOther (fun t => inr (rollback_to t (fork + 1))) None (connect_prog bs)
                     end)).

Definition process_op (b : block) : oper wstate (Z * N) pX unit perr :=
  {| body := process_prog b;
     post := fun _ _ => (b_height b, b_id b);        (* h.bestBlock = newBlock *)
     undo := fun _ _ m => m |}.

End Process.

(* ================================================================ 2. the ledger with its pending set *)

Section PendingOps.
Variables (p : params) (a3fix : bool) (own : owner_fn) (n : node).

(* memory: h.mempool, h.expiredMempool *)
Definition hmem := (list N * list (Z * list N))%type.

(* answers: the synced tip, the committed unmined bucket, the reorg walk; the hashes added by a block *)
Definition qX := (((Z * N) * list (N * Pending.uval)) * option (Z * list block) * list N)%type.
Definition qX0 : qX := ((0, 0%N), [], None, []).
Definition qR := (list Z * list (Z * list N))%type.
Notation qprog := (prog Pending.pstate hmem qX qR Pending.perr2).
Definition qfault : Pending.perr2 := Pending.PE EOther.

Definition pconnect_step (cum : list (N * Pending.uval)) (b : block) (t : Pending.pstate)
  : Pending.perr2 + (Pending.pstate * qX) :=
  match node_at n (b_height b) with
  | None => inl (Pending.PE EOther)
  | Some nb =>
      if negb (b_id nb =? b_id b)%N then inl (Pending.PE EMaybeChainRevoked)
      else match Pending.p_connect_block p own n cum t b with
           | Pending.PErr e => inl e
           | Pending.POk (t', ids) => inr (t', ((0, 0%N), [], None, ids))
           end
  end.

Fixpoint pconnect_prog (cum : list (N * Pending.uval)) (rolled : list Z) (acc : list (Z * list N)) (bs : list block)
  : qprog :=
  match bs with
  | [] => Ret (rolled, acc)
  | b :: rest => Call qfault (pconnect_step cum b)
                   (fun a => pconnect_prog cum rolled (acc ++ [(b_height b, snd a)]) rest)
  end.

Definition pprocess_prog (b : block) : qprog :=
  Read qfault (fun t => inr (tip (Pending.ps_w t), Pending.ps_unmined t,
                             collect n (Pending.ps_w t) (S (Z.to_nat (b_height b))) b [], []))
    (fun a =>
       let tp := fst (fst (fst a)) in
       let cum := snd (fst (fst a)) in
       if (snd tp =? b_prev b)%N then pconnect_prog cum [] [] [b]
       else match snd (fst a) with
            | None => Raise (Pending.PE EMaybeChainRevoked)
            | Some (fork, bs) =>
                Write qfault (fun t => match Pending.p_rollback_to a3fix own t (fork + 1) with
                                       | Pending.PErr e => inl e
                                       | Pending.POk t' => inr t'
                                       end) qX0
                  (pconnect_prog cum (Pending.heights_down (fst tp) (fork + 1)) [] bs)
            end).

(* the in-memory update of processConnectedBlock after the commit *)
Definition vol_update (r : qR) (m : hmem) : hmem :=
  let hs := Pending.update_volatile
              {| Pending.h_store := Pending.init_pstate 0; Pending.h_mempool := fst m; Pending.h_expired := snd m |}
              (Pending.init_pstate 0) (fst r) (snd r) in
  (Pending.h_mempool hs, Pending.h_expired hs).

Definition pprocess_op (b : block) : oper Pending.pstate hmem qX qR Pending.perr2 :=
  {| body := pprocess_prog b; post := vol_update; undo := fun _ _ m => m |}.

(* receiving an unconfirmed transaction: proccessReceivedTx -> filterTx(nil) -> onRelevantTx, then
   h.mempool[hash] = {} *)
Definition receive_prog (t : tx) : prog Pending.pstate hmem bool Pending.rres Pending.perr2 :=
  Look (fun m =>
    if Pending.mem_n (t_id t) (fst m) then Ret Pending.RNot
    else Call qfault (fun s => match Pending.receive_store p own n s t with
                               | Pending.PErr e => inl e
                               | Pending.POk None => inr (s, false)
                               | Pending.POk (Some s') => inr (s', true)
                               end)
           (fun stored => Ret (if stored then Pending.RRelevant else Pending.RNot))).

Definition receive_op (t : tx) : oper Pending.pstate hmem bool Pending.rres Pending.perr2 :=
  {| body := receive_prog t;
     post := fun r m => match r with Pending.RRelevant => (t_id t :: fst m, snd m) | _ => m end;
     undo := fun _ _ m => m |}.

End PendingOps.

(* ================================================================ 3. the multi-wallet layer *)

(* memory: the keystore manager's table script hash -> wallet of the cached keystores; coherent
   when it is the store's table *)
Definition kcache := list (N * N).
Definition coherent (s : xstate) (m : kcache) : Prop := m = x_keys s.

Definition pair_eqb (a b : N * N) : bool := (fst a =? fst b)%N && (snd a =? snd b)%N.
Definition pair_mem (e : N * N) (l : list (N * N)) : bool := existsb (pair_eqb e) l.

(* RemoveCachedKeystore *)
Definition drop_wallet (w : N) (m : kcache) : kcache := filter (fun e => negb (snd e =? w)%N) m.
(* UpdateManagedKeystores(w): the keystore of w is (re)loaded from its bucket when it is not cached,
   dropped when the bucket is gone; the entries of the other keystores stay.  As a list: the
   entries of the store's table that belong to w or are cached (when w is cached nothing happens) *)
Definition reload_wallet (s : xstate) (w : N) (m : kcache) : kcache :=
  if existsb (fun e => (snd e =? w)%N) m then m
  else filter (fun e => (snd e =? w)%N || pair_mem e m) (x_keys s).

Inductive xerr := XE | XP.          (* an error / a panic of the handler goroutine *)

Section WalletOps.
Variables (fx : fixes) (p : params) (n : node).

(* ---- 3a. processConnectedBlock on the multi-wallet store *)
Definition xX := (bool * pX)%type.
Notation xprog := (prog xstate kcache xX unit xerr).

Definition xconnect_step (b : block) (t : xstate) : xerr + (xstate * xX) :=
  match xconnect_block p n t b with
  | XOk t' => inr (t', (false, None))
  | XErr => inl XE
  | XPanic => inl XP
  end.

Fixpoint xconnect_prog (bs : list block) : xprog :=
  match bs with
  | [] => Ret tt
  | b :: rest => Call XE (xconnect_step b) (fun _ => xconnect_prog rest)
  end.

Definition xprocess_prog (b : block) : xprog :=
  Read XE (fun t => inr ((snd (tip (x_w t)) =? b_prev b)%N, collect n (x_w t) (S (Z.to_nat (b_height b))) b []))
    (fun a =>
       if fst a then xconnect_prog [b]
       else match snd a with
            | None => Raise XE
            | Some (fork, bs) =>
                Write XE (fun t => match xrollback fx t (fork + 1) with
                                   | XOk t' => inr t'
                                   | XErr => inl XE
                                   | XPanic => inl XP
                                   end) (false, None) (xconnect_prog bs)
            end).

Definition xprocess_op (b : block) : oper xstate kcache xX unit xerr :=
  {| body := xprocess_prog b; post := fun _ m => m; undo := fun _ _ m => m |}.

(* ---- 3b. one batch of a background import (asyncImport) *)
Definition iX := (option wst * bool * Z)%type.     (* the status record, "task dropped", the handler's tip *)
Definition iX0 : iX := (None, false, 0).
Notation iprog := (prog xstate kcache iX iout iout).

Definition import_step (w : N) (k stop : Z) (b : block) (t : xstate) : iout + xstate :=
  if (k <? b_height b) && (b_height b <=? stop) then
    match import_txs p (own_w t w) n (b_height b) (b_id b) (credits (x_w t), x_brecs t)
                     (filter (touches (own_w t w) n (b_height b)) (b_txs b)) with
    | inl (cs, brs) => inr (with_brecs (with_w t {| credits := cs; synced := synced (x_w t) |}) brs)
    | inr IAbandon => inl (if f_import_retry fx then IRetry else IAbandon)
    | inr e => inl e
    end
  else inr t.

Fixpoint import_blocks_prog (w : N) (k stop : Z) (fin : iprog) (bs : list block) : iprog :=
  match bs with
  | [] => fin
  | b :: rest => Write IRetry (import_step w k stop b) iX0 (import_blocks_prog w k stop fin rest)
  end.

Definition import_prog (B : Z) (w : N) : iprog :=
  Read IRetry (fun t => inr (status_of t w, memN w (x_dead t), fst (tip (x_w t))))
    (fun a =>
       match fst (fst a) with
       | Some (WImporting k) =>
           if snd (fst a) then Ret IOk
           else
             let best := snd a in
             let stop := Z.min (k + B) best in
             import_blocks_prog w k stop
               (Write IRetry (fun t => if f_import_tipcheck fx && negb (node_on_synced n (x_w t) stop) then inl IRetry else
                                       inr (with_status t (setN (x_status t) w
                                              (if stop =? best then WReady else WImporting stop)))) iX0
                  (Ret IOk)) n
       | _ => Ret IOk
       end).

Definition import_op (B : Z) (w : N) : oper xstate kcache iX iout iout :=
  {| body := import_prog B w; post := fun _ m => m; undo := fun _ _ m => m |}.

(* ---- 3c. ImportWallet / ImportWalletWithMnemonic / CreateWallet (shs = []) *)
Notation uprog := (prog xstate kcache unit unit unit).

Definition import_start_prog (w pass : N) (shs : list N) : uprog :=
  (* ImportKeystore / NewKeystore: "check for repeated seed", then the keystore bucket *)
  Call tt (fun t => if wallet_known t w then inl tt
                    else inr ({| x_w := x_w t; x_keys := x_keys t ++ map (fun sh => (sh, w)) shs;
                                 x_pass := x_pass t ++ [(w, pass)]; x_status := x_status t; x_brecs := x_brecs t;
                                 x_balrow := x_balrow t; x_ugame := x_ugame t; x_dead := x_dead t; x_p1 := x_p1 t |}, tt))
    (fun _ =>
       (* km.managedKeystores[name] = addrManager *)
       Mem (fun m => m ++ map (fun sh => (sh, w)) shs)
         (* InitNewWallet *)
         (Write tt (fun t => inr {| x_w := x_w t; x_keys := x_keys t; x_pass := x_pass t; x_status := x_status t;
                                    x_brecs := x_brecs t; x_balrow := x_balrow t ++ [w]; x_ugame := x_ugame t;
                                    x_dead := x_dead t; x_p1 := x_p1 t |}) tt
            (* PutWalletStatus (and the PutNewAddress rows, views of the keystore table here) *)
            (Write tt (fun t => inr {| x_w := x_w t; x_keys := x_keys t; x_pass := x_pass t;
                                       x_status := x_status t ++ [(w, match shs with [] => WReady | _ => WImporting 0 end)];
                                       x_brecs := x_brecs t; x_balrow := x_balrow t; x_ugame := x_ugame t;
                                       x_dead := remN w (x_dead t); x_p1 := x_p1 t |}) tt
               (Ret tt)))).

(* the repair: RemoveCachedKeystore(am.Name()) when the keystore got as far as being built (am != nil;
   a wallet that is already there never gets that far) — no database call in it *)
Definition import_start_op (w pass : N) (shs : list N) : oper xstate kcache unit unit unit :=
  {| body := import_start_prog w pass shs;
     post := fun _ m => m;
     undo := fun _ s m => if wallet_known s w then m else drop_wallet w m |}.

(* ---- 3d. NewAddress *)
Definition new_address_prog (sh w : N) : uprog :=
  (* nextAddresses: getChildNum, derive, the keystore bucket's rows *)
  Read tt (fun t => inr tt)
    (fun _ =>
       Write tt (fun t => inr (Import.new_address t sh w)) tt
         (* updateManagedAddress *)
         (Mem (fun m => m ++ [(sh, w)])
            (* utxoStore.PutNewAddress *)
            (Write tt (fun t => inr t) tt (Ret tt)))).

(* ForgetAddresses(issued): the addresses NextAddresses has added are taken out of the table again.  The Go
   variable [issued] is set exactly when NextAddresses has returned, i.e. when the [Mem] node above has
   run; the repair of the model sees only the memory the attempt leaves, so "issued is set" is read off
   it: the table is longer than the committed store's table (which a failed attempt has not changed and
   which was the table before the attempt).  The comparison is a device of the model: the code touches
   no database here *)
Definition forget_last (s : xstate) (m : kcache) : kcache :=
  if (length (x_keys s) <? length m)%nat then removelast m else m.

(* the repair.  As the code stands (96d76da, f_keystore_undo = true): ForgetAddresses, whatever the
   storage does (the flag is not looked at).  Before (f6a5978): RemoveCachedKeystore, then
   UpdateManagedKeystores inside a read transaction whose failure is not looked at *)
Definition new_address_op (sh w : N) : oper xstate kcache unit unit unit :=
  {| body := new_address_prog sh w;
     post := fun _ m => m;
     undo := fun u s m => if f_keystore_undo fx then forget_last s m
                          else if u then drop_wallet w m else reload_wallet s w (drop_wallet w m) |}.

(* ---- 3e. RemoveWallet -> OnRemoveWallet *)
Definition rX := (option N * option wst)%type.
Definition remove_request_prog (w pass : N) : prog xstate kcache rX unit rres :=
  Read RErr (fun t => inr (lookupN (x_pass t) w, status_of t w))
    (fun a =>
       match fst a with
       | None => Raise RErr
       | Some pw =>
           if negb (pw =? pass)%N then Raise RBadPass
           else match snd a with
                | None => Raise RErr
                | Some (WImporting _) => Raise RUnready
                | Some _ => Write RErr (fun t => inr (with_status t (setN (x_status t) w WRemoving))) (None, None) (Ret tt)
                end
       end).

Definition remove_request_op (w pass : N) : oper xstate kcache rX unit rres :=
  {| body := remove_request_prog w pass; post := fun _ m => m; undo := fun _ _ m => m |}.

(* ---- 3f. asyncRemove, phase 1: RemoveUnspentByWalletId, RemoveAddressByWalletId,
        RemoveGameHistoryByWalletId, RemoveMinedBalance *)
Definition phase1_prog (w : N) : prog xstate kcache bool unit unit :=
  Read tt (fun t => inr (match status_of t w with
                         | Some WRemoving => is_some (lookupN (x_pass t) w)
                         | _ => false
                         end))
    (fun go =>
       if go then
         Write tt (fun t => inr t) false                               (* unspent rows: views of the credits *)
           (Write tt (fun t => inr t) false                            (* address rows: views of the keystore table *)
              (Write tt (fun t => inr {| x_w := x_w t; x_keys := x_keys t; x_pass := x_pass t; x_status := x_status t;
                                         x_brecs := x_brecs t; x_balrow := x_balrow t;
                                         x_ugame := filter (fun e => negb (fst (fst e) =? w)%N) (x_ugame t);
                                         x_dead := x_dead t; x_p1 := x_p1 t |}) false
                 (Write tt (fun t => inr {| x_w := x_w t; x_keys := x_keys t; x_pass := x_pass t; x_status := x_status t;
                                            x_brecs := x_brecs t; x_balrow := remN w (x_balrow t);
                                            x_ugame := x_ugame t;
                                            x_dead := x_dead t; x_p1 := x_p1 t ++ [w] |}) false
                    (Ret tt))))
       else Ret tt).

Definition phase1_op (w : N) : oper xstate kcache bool unit unit :=
  {| body := phase1_prog w; post := fun _ m => m; undo := fun _ _ m => m |}.

(* ---- 3g. asyncRemove, one round of phase 2 (any cap) *)
Definition dX := (bool * (list (N * Z) * bool))%type.     (* go on? / heightOfTx, finish *)
Definition dX0 : dX := (false, ([], false)).

Definition round_prog (cap : Z) (lookup : N -> option tx) (w : N) : prog xstate kcache dX bool unit :=
  Read tt (fun t => inr (match status_of t w with Some WRemoving => memN w (x_p1 t) | _ => false end, ([], false)))
    (fun a =>
       if fst a then
         (* RemoveRelevantTx: the walk over the credits bucket ... *)
         Call tt (fun t =>
                    let shs := sh_of_wallet t w in
                    let '(kept, hot, fin) := match shs with
                                             | [] => (credits (x_w t), [], true)
                                             | _ => rm_credits shs cap (credits (x_w t)) 0 []
                                             end in
                    inr (with_w t {| credits := kept; synced := synced (x_w t) |}, (true, (hot, fin))))
           (fun b =>
              let hot := fst (snd b) in
              let fin := snd (snd b) in
              (* ... the tx and block records *)
              Write tt (fun t => inr (with_brecs t (repair fx t (sh_of_wallet t w) n lookup (x_brecs t) hot))) dX0
                (if fin then
                   (* DeleteWalletStatus *)
                   Write tt (fun t => inr (with_status t (delN (x_status t) w))) dX0
                     (* DeleteKeystore: the buckets ... *)
                     (Write tt (fun t => inr {| x_w := x_w t;
                                                x_keys := filter (fun e => negb (snd e =? w)%N) (x_keys t);
                                                x_pass := delN (x_pass t) w; x_status := x_status t;
                                                x_brecs := x_brecs t; x_balrow := x_balrow t; x_ugame := x_ugame t;
                                                x_dead := x_dead t; x_p1 := remN w (x_p1 t) |}) dX0
                        (* ... then delete(km.managedKeystores, accountID) *)
                        (Mem (drop_wallet w) (Ret true)))
                 else Ret false))
       else Ret false).

(* the repair.  As the code stands (96d76da, f_keystore_undo = true): RestoreCachedKeystore(am) puts the
   AddrManager the worker holds back into the table when DeleteKeystore has dropped it — the entries of w
   as they were before the attempt (= the committed store's, which [reload_wallet] reads them from: again a
   device of the model, no database access in the code), whatever the storage does.  Before (33294fa):
   UpdateManagedKeystores inside a read transaction whose failure is not looked at *)
Definition round_op (cap : Z) (lookup : N -> option tx) (w : N) : oper xstate kcache dX bool unit :=
  {| body := round_prog cap lookup w;
     post := fun _ m => m;
     undo := fun u s m => if f_keystore_undo fx then reload_wallet s w m
                          else if u then m else reload_wallet s w m |}.

End WalletOps.

(* ================================================================ 4. histories of the multi-wallet layer with faults *)

(* Remove.xstep with the faults of the failed attempts of the event's operation: the state is the
   simulation state of Remove.v and the keystore manager's table; the steps of the environment
   (the node's chain moves, the process is restarted — the table is then rebuilt from the store)
   take no faults *)
Definition xstep_f (fx : fixes) (p : params) (B cap : Z) (sm : xsim * kcache) (ev : xevent * list fault)
  : xsim * kcache :=
  let s := fst sm in
  let m := snd sm in
  let st := xs_st s in
  let nd := xs_node s in
  let fs := snd ev in
  match fst ev with
  | XAttach _ | XDetach => (xstep fx p B cap s (fst ev), m)
  | XRestart => (xstep fx p B cap s XRestart, x_keys (xs_st (xstep fx p B cap s XRestart)))
  | XProcess b =>
      if xs_crashed s then (s, m)
      else
        let '(st', m', r) := retry XE (xprocess_op fx p nd b) fs st m in
        (match r with
         | inl XP => {| xs_node := xs_node s; xs_st := xs_st s; xs_all := xs_all s; xs_crashed := true |}
         | _ => with_st s st'
         end, m')
  | XNewWallet w pass =>
      let '(st', m', _) := retry tt (import_start_op w pass []) fs st m in (with_st s st', m')
  | XNewAddr sh w =>
      let '(st', m', _) := retry tt (new_address_op fx sh w) fs st m in (with_st s st', m')
  | XImportStart w pass shs =>
      let '(st', m', _) := retry tt (import_start_op w pass shs) fs st m in (with_st s st', m')
  | XBatch w =>
      let '(st', m', _) := retry IRetry (import_op fx p nd B w) fs st m in (with_st s st', m')
  | XRemoveReq w pass =>
      let '(st', m', _) := retry RErr (remove_request_op w pass) fs st m in (with_st s st', m')
  | XPhase1 w =>
      let '(st', m', _) := retry tt (phase1_op w) fs st m in (with_st s st', m')
  | XRound w =>
      let '(st', m', _) := retry tt (round_op fx nd cap (find_tx (xs_all s)) w) fs st m in (with_st s st', m')
  end.

Definition xrun_f (fx : fixes) (p : params) (B cap : Z) (n : node) (h : list (xevent * list fault)) : xsim * kcache :=
  fold_left (xstep_f fx p B cap) h (xinit_sim n, x_keys (xinit n)).

(* (the code before 96d76da, f_keystore_undo = false) no reload of the keystore table fails itself: the two
   operations whose repair read the store (NewAddress, a removal round) have no fault with the flag; the
   faults of the others are arbitrary *)
Definition reload_works (ev : xevent * list fault) : Prop :=
  match fst ev with
  | XNewAddr _ _ | XRound _ => Forall (fun f => fundo f = false) (snd ev)
  | _ => True
  end.
Definition reloads_work (h : list (xevent * list fault)) : Prop := Forall reload_works h.
