(* Ledger/Pending.v — the pending (unconfirmed) side of the wallet ledger and the staking/binding
   deposit history, wrapped around the frozen mined-side model Ledger/Model.v.  Definitions only.

   Code modelled (read line by line):
     masswallet/ntfnshandler.go   filterTx with blockMeta == nil, onRelevantTx, processConnectedBlock
                                  (the volatile mempool / expiredMempool bookkeeping), reorg/disconnectBlock
     masswallet/txmgr/txstore.go  insertMemPoolTx, insertMinedTx (settle part), removeDoubleSpends, removeConflict,
                                  Rollback ("move back to unmined", coinbase purge), ExistUnminedTx, updateMinedBalance
                                  (withdrawGame)
     masswallet/txmgr/utxostore.go addUnminedCredits, insertUnminedInputs, deleteUnminedInputs, deleteUnminedCredits,
                                  createGameHistory, removeUnminedGameHistory, Get(Unmined)StakingHistoryDetail,
                                  Get(Unmined)BindingHistoryDetail, ScriptAddressUnspents (SpentByUnmined)
     masswallet/txmgr/utxostore_db.go putRawUnminedInput (append), deleteRawUnminedInput (whole key),
                                  keyGameHistory / keyUnminedGameHistory, withdrawGame / unwithdrawGame
     masswallet/tx.go             getUtxosExcludeBindingAndStaking (eligibility), constructTxIn
     masswallet/common.go         addTxIn (sequence assignment)
   Buckets are association lists; iteration order of a bucket is never observable (the harness sorts). *)
From Coq Require Import List ZArith NArith Bool.
Import ListNotations.
Open Scope Z_scope.
Require Import MW.Ledger.Model MW.Ledger.Spec MW.Ledger.Run.

Definition outp := (N * N)%type.

(* value of bucket "m" (unmined): the serialized transaction; [ULoc] is what the unrepaired Rollback
   stored there (the 28-byte block/tx location of the tx record), which cannot be read back *)
Inductive uval := USer (t : tx) | ULoc.

(* bucket "mc": outpoint -> amount / class flags / maturity / script hash *)
Record ucredit := { uc_op : outp; uc_amount : Z; uc_sh : N; uc_class : oclass; uc_maturity : Z }.
(* bucket "lg": wallet / type / withdrawn / txid / height / vout *)
Record grow := { g_wallet : N; g_binding : bool; g_withdrawn : bool; g_tx : N; g_height : Z; g_vout : N }.
(* bucket "LG": wallet / type / txid / vout *)
Record ugrow := { ug_wallet : N; ug_binding : bool; ug_tx : N; ug_vout : N }.
(* bucket "b" + tx records: height -> block id and the relevant transactions in insertion order
   (the record stores locations; FetchTxByFileLoc returns the transaction itself) *)
Record brec := { br_height : Z; br_bid : N; br_txs : list tx }.

Record pstate := {
  ps_w : wstate;                         (* credits / unspent / balances / sync: the frozen model *)
  ps_blocks : list brec;
  ps_unmined : list (N * uval);
  ps_uinputs : list (outp * list N);     (* bucket "mi": outpoint -> hashes of pending spenders (append) *)
  ps_ucredits : list ucredit;
  ps_game : list grow;
  ps_ugame : list ugrow
}.

(* the handler's volatile state next to the store *)
Record hstate := {
  h_store : pstate;
  h_mempool : list N;
  h_expired : list (Z * list N)
}.

Inductive perr2 :=
| PE (e : perr) | EOutOfFuel | EGameRow | EUnreadable | EDupUnminedCredit | EExpiredUnminedCredit | ECoinbaseUnmined.
Inductive pres (A : Type) := POk (a : A) | PErr (e : perr2).
Arguments POk {A} a. Arguments PErr {A} e.

Definition set_w (s : pstate) (w : wstate) : pstate :=
  {| ps_w := w; ps_blocks := ps_blocks s; ps_unmined := ps_unmined s; ps_uinputs := ps_uinputs s;
     ps_ucredits := ps_ucredits s; ps_game := ps_game s; ps_ugame := ps_ugame s |}.
Definition set_blocks (s : pstate) (b : list brec) : pstate :=
  {| ps_w := ps_w s; ps_blocks := b; ps_unmined := ps_unmined s; ps_uinputs := ps_uinputs s;
     ps_ucredits := ps_ucredits s; ps_game := ps_game s; ps_ugame := ps_ugame s |}.
Definition set_unmined (s : pstate) (u : list (N * uval)) : pstate :=
  {| ps_w := ps_w s; ps_blocks := ps_blocks s; ps_unmined := u; ps_uinputs := ps_uinputs s;
     ps_ucredits := ps_ucredits s; ps_game := ps_game s; ps_ugame := ps_ugame s |}.
Definition set_uinputs (s : pstate) (u : list (outp * list N)) : pstate :=
  {| ps_w := ps_w s; ps_blocks := ps_blocks s; ps_unmined := ps_unmined s; ps_uinputs := u;
     ps_ucredits := ps_ucredits s; ps_game := ps_game s; ps_ugame := ps_ugame s |}.
Definition set_ucredits (s : pstate) (u : list ucredit) : pstate :=
  {| ps_w := ps_w s; ps_blocks := ps_blocks s; ps_unmined := ps_unmined s; ps_uinputs := ps_uinputs s;
     ps_ucredits := u; ps_game := ps_game s; ps_ugame := ps_ugame s |}.
Definition set_game (s : pstate) (g : list grow) : pstate :=
  {| ps_w := ps_w s; ps_blocks := ps_blocks s; ps_unmined := ps_unmined s; ps_uinputs := ps_uinputs s;
     ps_ucredits := ps_ucredits s; ps_game := g; ps_ugame := ps_ugame s |}.
Definition set_ugame (s : pstate) (g : list ugrow) : pstate :=
  {| ps_w := ps_w s; ps_blocks := ps_blocks s; ps_unmined := ps_unmined s; ps_uinputs := ps_uinputs s;
     ps_ucredits := ps_ucredits s; ps_game := ps_game s; ps_ugame := g |}.
Definition set_credits (s : pstate) (cs : list credit) : pstate :=
  set_w s {| credits := cs; synced := synced (ps_w s) |}.

(* ---------------------------------------------------------------- bucket operations *)

Definition um_get (l : list (N * uval)) (h : N) : option uval :=
  match find (fun e => (fst e =? h)%N) l with Some e => Some (snd e) | None => None end.
Definition um_del (l : list (N * uval)) (h : N) : list (N * uval) := filter (fun e => negb (fst e =? h)%N) l.
Definition um_put (l : list (N * uval)) (h : N) (v : uval) : list (N * uval) := (h, v) :: um_del l h.

(* fetchUnminedInputSpendTxHashes / existsRawUnminedInput *)
Definition ui_get (l : list (outp * list N)) (o : outp) : list N :=
  match find (fun e => op_eqb (fst e) o) l with Some e => snd e | None => [] end.
(* deleteRawUnminedInput: the whole key *)
Definition ui_del (l : list (outp * list N)) (o : outp) : list (outp * list N) :=
  filter (fun e => negb (op_eqb (fst e) o)) l.
(* putRawUnminedInput: append the spender's hash to the value *)
Definition ui_append (l : list (outp * list N)) (o : outp) (h : N) : list (outp * list N) :=
  (o, ui_get l o ++ [h]) :: ui_del l o.

Definition uc_get (l : list ucredit) (o : outp) : option ucredit := find (fun c => op_eqb (uc_op c) o) l.
Definition uc_del (l : list ucredit) (o : outp) : list ucredit := filter (fun c => negb (op_eqb (uc_op c) o)) l.
Definition uc_put (l : list ucredit) (c : ucredit) : list ucredit := c :: uc_del l (uc_op c).

Definition grow_eqb (a b : grow) : bool :=
  (g_wallet a =? g_wallet b)%N && Bool.eqb (g_binding a) (g_binding b) && Bool.eqb (g_withdrawn a) (g_withdrawn b) &&
  (g_tx a =? g_tx b)%N && (g_height a =? g_height b) && (g_vout a =? g_vout b)%N.
Definition g_mem (r : grow) (l : list grow) : bool := existsb (grow_eqb r) l.
Definition g_del (l : list grow) (r : grow) : list grow := filter (fun x => negb (grow_eqb r x)) l.
Definition g_put (l : list grow) (r : grow) : list grow := r :: g_del l r.

Definition ugrow_eqb (a b : ugrow) : bool :=
  (ug_wallet a =? ug_wallet b)%N && Bool.eqb (ug_binding a) (ug_binding b) &&
  (ug_tx a =? ug_tx b)%N && (ug_vout a =? ug_vout b)%N.
Definition ug_del (l : list ugrow) (r : ugrow) : list ugrow := filter (fun x => negb (ugrow_eqb r x)) l.
Definition ug_put (l : list ugrow) (r : ugrow) : list ugrow := r :: ug_del l r.

(* staking -> Some false, binding -> Some true (PkScript.IsStaking / IsBinding) *)
Definition game_kind (c : oclass) : option bool :=
  match c with CStaking _ => Some false | CBindingOld | CBindingNew => Some true | _ => None end.

Definition out_indexes (t : tx) : list N := map N.of_nat (seq 0 (length (t_outs t))).

(* ---------------------------------------------------------------- receiving an unconfirmed transaction *)

(* FetchTxBySha on the node, then ExistUnminedTx on the committed store *)
Definition lookup_pending (n : node) (um : list (N * uval)) (h : N) : option tx :=
  match node_tx n h with
  | Some t => Some t
  | None => match um_get um h with Some (USer t) => Some t | _ => None end
  end.

(* filterTx, input half, blockMeta == nil: every previous transaction is looked up (no
   ExistCreditFromTx short cut, no in-block siblings); a miss rejects the transaction *)
Fixpoint filter_ins_unmined (own : owner_fn) (lookup : N -> option tx) (ins : list (N * N)) (i : N)
  : res (list rel_in) :=
  match ins with
  | [] => Ok []
  | (ph, pv) :: rest =>
      match lookup ph with
      | None => Err EInvalidTx
      | Some pt =>
          match nth_error (t_outs pt) (N.to_nat pv) with
          | None => Err EInvalidTx
          | Some o =>
              let continue_ := filter_ins_unmined own lookup rest (i + 1)%N in
              match o_class o with
              | CUnsupported => continue_
              | _ =>
                  match own (o_sh o) with
                  | None => continue_
                  | Some w =>
                      match continue_ with
                      | Ok l => Ok ({| ri_index := i; ri_prev := (ph, pv); ri_wallet := w |} :: l)
                      | Err e => Err e
                      end
                  end
              end
          end
      end
  end.

Definition has_unspent (cs : list credit) (w : N) (o : outp) : bool :=
  existsb (fun c => op_eqb (credit_op c) o && (c_wallet c =? w)%N && is_unspent c) cs.

(* addUnminedCredits, first loop *)
Fixpoint add_ucredits (p : params) (cs : list credit) (ucs : list ucredit) (tid : N) (outs : list rel_out)
  : pres (list ucredit) :=
  match outs with
  | [] => POk ucs
  | ro :: rest =>
      let k := (tid, ro_index ro) in
      match uc_get ucs k with
      | Some _ => PErr EDupUnminedCredit
      | None =>
          if has_unspent cs (ro_wallet ro) k then PErr EExpiredUnminedCredit
          else add_ucredits p cs
                 (uc_put ucs {| uc_op := k; uc_amount := o_val (ro_out ro); uc_sh := o_sh (ro_out ro);
                                uc_class := o_class (ro_out ro);
                                uc_maturity := maturity_of p false (o_class (ro_out ro)) |})
                 tid rest
      end
  end.

(* createGameHistory(rec, 0) + putUnminedGameHistory *)
Definition add_ugame (ug : list ugrow) (tid : N) (outs : list rel_out) : list ugrow :=
  fold_left (fun acc ro => match game_kind (o_class (ro_out ro)) with
                           | Some b => ug_put acc {| ug_wallet := ro_wallet ro; ug_binding := b; ug_tx := tid; ug_vout := ro_index ro |}
                           | None => acc
                           end) outs ug.

(* a tx record exists for the hash (GetByPrefix on the tx-records bucket) *)
Definition tx_recorded (s : pstate) (tid : N) : bool :=
  existsb (fun r => existsb (fun t => (t_id t =? tid)%N) (br_txs r)) (ps_blocks s).

(* filterTx(tx, nil) up to and including onRelevantTx (one database transaction):
   POk None = not relevant, POk (Some s') = stored *)
Definition receive_store_gen (d3fix : bool) (p : params) (own : owner_fn) (n : node) (s : pstate) (t : tx) : pres (option pstate) :=
  match (if t_cb t then Ok [] else filter_ins_unmined own (lookup_pending n (ps_unmined s)) (t_ins t) 0%N) with
  | Err e => PErr (PE e)
  | Ok ins =>
      let outs := filter_outs own (t_outs t) 0%N in
      match ins, outs with
      | [], [] => POk None
      | _, _ =>
          if t_cb t then PErr ECoinbaseUnmined
          else
            (* insertMemPoolTx: a transaction that is already recorded as mined is not stored (repair
               0bc4560): AddRelevantTx returns at once, filterTx still reports it relevant *)
            if (match um_get (ps_unmined s) (t_id t) with Some _ => false | None => d3fix && tx_recorded s (t_id t) end)
            then POk (Some s)
            else
            let s1 := match um_get (ps_unmined s) (t_id t) with
                      | Some _ => s
                      | None =>
                          let s0 := set_unmined s (um_put (ps_unmined s) (t_id t) (USer t)) in
                          set_uinputs s0 (fold_left (fun ui ri => ui_append ui (ri_prev ri) (t_id t)) ins (ps_uinputs s0))
                      end in
            (* AddCredits(block = nil) -> addUnminedCredits *)
            match outs with
            | [] => POk (Some s1)
            | _ =>
                match add_ucredits p (credits (ps_w s1)) (ps_ucredits s1) (t_id t) outs with
                | PErr e => PErr e
                | POk ucs => POk (Some (set_ugame (set_ucredits s1 ucs) (add_ugame (ps_ugame s1) (t_id t) outs)))
                end
            end
      end
  end.

(* the code in force; [receive_store_gen false] is the code as first found, which stored a transaction
   already recorded as mined as pending again (finding pending-while-mined, repaired in 0bc4560) *)
Definition receive_store := receive_store_gen true.

Inductive rres := RRelevant | RNot | RError.

Definition mem_n (x : N) (l : list N) : bool := existsb (N.eqb x) l.

Definition receive_tx (p : params) (own : owner_fn) (n : node) (hs : hstate) (t : tx) : hstate * rres :=
  if mem_n (t_id t) (h_mempool hs) then (hs, RNot)
  else match receive_store p own n (h_store hs) t with
       | PErr _ => (hs, RError)
       | POk None => (hs, RNot)
       | POk (Some s') =>
           ({| h_store := s'; h_mempool := t_id t :: h_mempool hs; h_expired := h_expired hs |}, RRelevant)
       end.

(* ---------------------------------------------------------------- conflicts *)

(* removeUnminedGameHistory: the key is built without the output index (vout stays 0) *)
Definition rm_ugame_rows (own : owner_fn) (ug : list ugrow) (h : N) (t : tx) : list ugrow :=
  fold_left (fun acc o => match game_kind (o_class o), own (o_sh o) with
                          | Some b, Some w => ug_del acc {| ug_wallet := w; ug_binding := b; ug_tx := h; ug_vout := 0%N |}
                          | _, _ => acc
                          end) (t_outs t) ug.

(* deleteUnminedInputs (after the repair 626fe73): for every input of the transaction, its own hash is
   taken out of the list of spenders; the key is deleted when the list becomes empty, rewritten when it
   became shorter, left alone otherwise *)
Definition ui_remove (l : list (outp * list N)) (o : outp) (h : N) : list (outp * list N) :=
  match ui_get l o with
  | [] => l
  | sps =>
      let rest := filter (fun x => negb (x =? h)%N) sps in
      match rest with
      | [] => ui_del l o
      | _ => if (length rest =? length sps)%nat then l else (o, rest) :: ui_del l o
      end
  end.

Definition del_inputs_of (ui : list (outp * list N)) (t : tx) (h : N) : list (outp * list N) :=
  fold_left (fun acc o => ui_remove acc o h) (t_ins t) ui.

(* the code as first found deleted the whole key of every input (finding flag-lost:shared-input-key) *)
Definition del_inputs_of_found (ui : list (outp * list N)) (t : tx) : list (outp * list N) :=
  fold_left (fun acc o => ui_del acc o) (t_ins t) ui.

(* removeConflict (recursive in the code; fuel bounds the depth, see PendingProofs.remove_conflict_fuel) *)
Fixpoint remove_conflict (fuel : nat) (own : owner_fn) (s : pstate) (h : N) (t : tx) : pres pstate :=
  match fuel with
  | O => PErr EOutOfFuel
  | S f =>
      let per_out (acc : pres pstate) (i : N) : pres pstate :=
        match acc with
        | PErr e => PErr e
        | POk s1 =>
            let k := (h, i) in
            match fold_left (fun (acc2 : pres pstate) (sp : N) =>
                               match acc2 with
                               | PErr e => PErr e
                               | POk s2 =>
                                   match um_get (ps_unmined s2) sp with
                                   | None => POk s2
                                   | Some ULoc => PErr EUnreadable
                                   | Some (USer st) => remove_conflict f own s2 sp st
                                   end
                               end)
                            (ui_get (ps_uinputs s1) k) (POk s1) with
            | PErr e => PErr e
            | POk s3 => POk (set_ucredits s3 (uc_del (ps_ucredits s3) k))
            end
        end in
      match fold_left per_out (out_indexes t) (POk s) with
      | PErr e => PErr e
      | POk s4 =>
          let s5 := set_uinputs s4 (del_inputs_of (ps_uinputs s4) t h) in
          let s6 := set_ugame s5 (rm_ugame_rows own (ps_ugame s5) h t) in
          POk (set_unmined s6 (um_del (ps_unmined s6) h))
      end
  end.

Definition conflict_fuel (s : pstate) : nat := S (length (ps_unmined s)).

(* the spenders registered under one outpoint are removed one after the other *)
Definition remove_spenders (own : owner_fn) (s : pstate) (k : outp) : pres pstate :=
  fold_left (fun (acc : pres pstate) (sp : N) =>
               match acc with
               | PErr e => PErr e
               | POk s2 =>
                   match um_get (ps_unmined s2) sp with
                   | None => POk s2
                   | Some ULoc => PErr EUnreadable
                   | Some (USer st) => remove_conflict (conflict_fuel s2) own s2 sp st
                   end
               end)
            (ui_get (ps_uinputs s) k) (POk s).

(* removeDoubleSpends *)
Definition remove_double_spends (own : owner_fn) (s : pstate) (r : relrec) : pres pstate :=
  match fold_left (fun (acc : pres pstate) (ri : rel_in) =>
                     match acc with PErr e => PErr e | POk s1 => remove_spenders own s1 (ri_prev ri) end)
                  (rr_ins r) (POk s) with
  | PErr e => PErr e
  | POk s2 => POk (set_uinputs s2 (del_inputs_of (ps_uinputs s2) (rr_tx r) (t_id (rr_tx r))))
  end.

(* ---------------------------------------------------------------- connecting a block *)

Definition find_unspent (cs : list credit) (w : N) (o : outp) : option credit :=
  find (fun c => op_eqb (credit_op c) o && (c_wallet c =? w)%N && is_unspent c) cs.

Definition mk_grow (w : N) (b wd : bool) (tid : N) (h : Z) (v : N) : grow :=
  {| g_wallet := w; g_binding := b; g_withdrawn := wd; g_tx := tid; g_height := h; g_vout := v |}.

(* updateMinedBalance: spend the credits (exactly Model.apply_ins) and flip the deposit rows *)
Fixpoint withdraw_ins (cs : list credit) (g : list grow) (t : tx) (h : Z) (ins : list rel_in)
  : pres (list credit * list grow) :=
  match ins with
  | [] => POk (cs, g)
  | ri :: rest =>
      match find_unspent cs (ri_wallet ri) (ri_prev ri),
            spend_credit cs (ri_wallet ri) (ri_prev ri) (t_id t, ri_index ri, h) with
      | Some c, Some cs' =>
          match game_kind (c_class c) with
          | Some b =>
              let r := mk_grow (ri_wallet ri) b false (fst (ri_prev ri)) (c_height c) (snd (ri_prev ri)) in
              if g_mem r g
              then withdraw_ins cs' (g_put (g_del g r) (mk_grow (ri_wallet ri) b true (fst (ri_prev ri)) (c_height c) (snd (ri_prev ri)))) t h rest
              else PErr EGameRow
          | None => withdraw_ins cs' g t h rest
          end
      | _, _ => PErr (PE ECreditNotFound)
      end
  end.

(* insertMinedTx: a transaction that was pending leaves the unmined bucket together with its unmined credits *)
Definition settle (s : pstate) (t : tx) : pstate :=
  match um_get (ps_unmined s) (t_id t) with
  | None => s
  | Some _ =>
      let s1 := set_ucredits s (fold_left (fun acc i => uc_del acc (t_id t, i)) (out_indexes t) (ps_ucredits s)) in
      set_unmined s1 (um_del (ps_unmined s1) (t_id t))
  end.

(* AddCredits (mined): deposit rows leave the unmined history and enter the mined one *)
Definition add_game (s : pstate) (tid : N) (h : Z) (outs : list rel_out) : pstate :=
  fold_left (fun acc ro =>
               match game_kind (o_class (ro_out ro)) with
               | Some b =>
                   set_game (set_ugame acc (ug_del (ps_ugame acc) {| ug_wallet := ro_wallet ro; ug_binding := b; ug_tx := tid; ug_vout := ro_index ro |}))
                            (g_put (ps_game acc) (mk_grow (ro_wallet ro) b false tid h (ro_index ro)))
               | None => acc
               end) outs s.

Fixpoint br_add (l : list brec) (h : Z) (bid : N) (t : tx) : list brec :=
  match l with
  | [] => [ {| br_height := h; br_bid := bid; br_txs := [t] |} ]
  | r :: rest =>
      if br_height r =? h then {| br_height := br_height r; br_bid := br_bid r; br_txs := br_txs r ++ [t] |} :: rest
      else r :: br_add rest h bid t
  end.

(* AddRelevantTx(tx, balances, rec, block) *)
Definition p_apply_rec (p : params) (own : owner_fn) (h : Z) (bid : N) (s : pstate) (r : relrec) : pres pstate :=
  let t := rr_tx r in
  let s0 := set_blocks s (br_add (ps_blocks s) h bid t) in
  match withdraw_ins (credits (ps_w s0)) (ps_game s0) t h (rr_ins r) with
  | PErr e => PErr e
  | POk (cs1, g1) =>
      let s1 := settle (set_game (set_credits s0 cs1) g1) t in
      match remove_double_spends own s1 r with
      | PErr e => PErr e
      | POk s2 =>
          match apply_outs p (credits (ps_w s2)) t h bid (rr_outs r) with
          | Err e => PErr (PE e)
          | Ok cs2 => POk (add_game (set_credits s2 cs2) (t_id t) h (rr_outs r))
          end
      end
  end.

Fixpoint p_apply_recs (p : params) (own : owner_fn) (h : Z) (bid : N) (s : pstate) (recs : list relrec) : pres pstate :=
  match recs with
  | [] => POk s
  | r :: rest =>
      match p_apply_rec p own h bid s r with
      | PErr e => PErr e
      | POk s' => p_apply_recs p own h bid s' rest
      end
  end.

(* filterBlock; [cum] is the committed unmined bucket (existsUnminedTx opens its own read transaction) *)
Definition p_connect_block (p : params) (own : owner_fn) (n : node) (cum : list (N * uval)) (s : pstate) (b : block)
  : pres (pstate * list N) :=
  match filter_block_txs own (credits (ps_w s)) (lookup_pending n cum) [] (b_txs b) with
  | Err e => PErr (PE e)
  | Ok recs =>
      match p_apply_recs p own (b_height b) (b_id b) s recs with
      | PErr e => PErr e
      | POk s' =>
          POk (set_w s' {| credits := credits (ps_w s'); synced := (b_height b, b_id b) :: synced (ps_w s') |},
               map (fun r => t_id (rr_tx r)) recs)
      end
  end.

Fixpoint p_connect_all (p : params) (own : owner_fn) (n : node) (cum : list (N * uval)) (s : pstate) (bs : list block)
  : pres (pstate * list (Z * list N)) :=
  match bs with
  | [] => POk (s, [])
  | b :: rest =>
      match node_at n (b_height b) with
      | None => PErr (PE EOther)
      | Some nb =>
          if negb (b_id nb =? b_id b)%N then PErr (PE EMaybeChainRevoked)
          else match p_connect_block p own n cum s b with
               | PErr e => PErr e
               | POk (s', ids) =>
                   match p_connect_all p own n cum s' rest with
                   | PErr e => PErr e
                   | POk (s'', added) => POk (s'', (b_height b, ids) :: added)
                   end
               end
      end
  end.

(* ---------------------------------------------------------------- rollback *)

Definition credits_at (cs : list credit) (tid : N) (h : Z) (bid : N) : list credit :=
  filter (fun c => (c_tx c =? tid)%N && (c_height c =? h) && (c_bid c =? bid)%N) cs.

(* the credit input [i] of transaction [tid] (mined at height h) spent, i.e. its debit *)
Definition debit_of (cs : list credit) (tid : N) (i : N) (h : Z) : option credit :=
  find (fun c => match c_spent c with
                 | Some (st, si, sh) => (st =? tid)%N && (si =? i)%N && (sh =? h)
                 | None => false
                 end) cs.

(* unwithdrawGame for every input of t that is a debit of a staking/binding credit *)
Fixpoint unwithdraw_ins (cs : list credit) (g : list grow) (tid : N) (h : Z) (idx : list N) : pres (list grow) :=
  match idx with
  | [] => POk g
  | i :: rest =>
      match debit_of cs tid i h with
      | None => unwithdraw_ins cs g tid h rest
      | Some c =>
          match game_kind (c_class c) with
          | None => unwithdraw_ins cs g tid h rest
          | Some b =>
              let r := mk_grow (c_wallet c) b true (c_tx c) (c_height c) (c_vout c) in
              if g_mem r g
              then unwithdraw_ins cs (g_put (g_del g r) (mk_grow (c_wallet c) b false (c_tx c) (c_height c) (c_vout c))) tid h rest
              else PErr EGameRow
          end
      end
  end.

(* the value Rollback stores in the unmined bucket: the serialized transaction; [a3fix = false] is the
   code as first found (the 28-byte location) *)
Definition pending_value_of_rolled_back (a3fix : bool) (t : tx) : uval := if a3fix then USer t else ULoc.

(* one transaction of the block record being rolled back; [cs] are the credits before the rollback *)
Definition rollback_tx (a3fix : bool) (cs : list credit) (h : Z) (bid : N) (acc : pres (pstate * list outp)) (t : tx)
  : pres (pstate * list outp) :=
  match acc with
  | PErr e => PErr e
  | POk (s, cbops) =>
      let mine := credits_at cs (t_id t) h bid in
      if t_cb t then POk (s, cbops ++ map credit_op mine)
      else
        let s1 := set_unmined s (um_put (ps_unmined s) (t_id t) (pending_value_of_rolled_back a3fix t)) in
        let s2 := set_uinputs s1 (fold_left (fun ui o => ui_append ui o (t_id t)) (t_ins t) (ps_uinputs s1)) in
        match unwithdraw_ins cs (ps_game s2) (t_id t) h (map N.of_nat (seq 0 (length (t_ins t)))) with
        | PErr e => PErr e
        | POk g =>
            let s3 := set_game s2 g in
            let s4 := fold_left (fun acc c =>
                        let a1 := set_ucredits acc (uc_put (ps_ucredits acc)
                                    {| uc_op := credit_op c; uc_amount := c_amount c; uc_sh := c_sh c;
                                       uc_class := c_class c; uc_maturity := c_maturity c |}) in
                        match game_kind (c_class c) with
                        | Some b =>
                            set_ugame (set_game a1 (g_del (ps_game a1) (mk_grow (c_wallet c) b false (c_tx c) h (c_vout c))))
                                      (ug_put (ps_ugame a1) {| ug_wallet := c_wallet c; ug_binding := b; ug_tx := c_tx c; ug_vout := c_vout c |})
                        | None => a1
                        end) mine s3 in
            POk (s4, cbops)
        end
  end.

(* the "move back" loop of Rollback for one block record (transactions in reverse order) *)
Definition rollback_move (a3fix : bool) (cs : list credit) (s : pstate) (r : brec) : pres (pstate * list outp) :=
  fold_left (rollback_tx a3fix cs (br_height r) (br_bid r)) (rev (br_txs r)) (POk (s, [])).

(* pending spenders of removed coinbase credits are conflicts *)
Definition purge_coinbase (own : owner_fn) (s : pstate) (ops : list outp) : pres pstate :=
  fold_left (fun (acc : pres pstate) (o : outp) =>
               match acc with PErr e => PErr e | POk s1 => remove_spenders own s1 o end) ops (POk s).

(* TxStore.Rollback(h) as disconnectBlock calls it: h is the current tip *)
Definition p_rollback_one (a3fix : bool) (own : owner_fn) (cs : list credit) (s : pstate) (h : Z) : pres pstate :=
  match find (fun r => br_height r =? h) (ps_blocks s) with
  | None => POk s
  | Some r =>
      match rollback_move a3fix cs s r with
      | PErr e => PErr e
      | POk (s1, cbops) =>
          purge_coinbase own (set_blocks s1 (filter (fun x => negb (br_height x =? h)) (ps_blocks s1))) cbops
      end
  end.

Definition heights_down (top low : Z) : list Z :=
  map (fun k => top - Z.of_nat k) (seq 0 (Z.to_nat (top - low + 1))).

(* disconnectBlock for every height above the fork point, tip first; the mined side is Model.rollback_to *)
Definition p_rollback_to (a3fix : bool) (own : owner_fn) (s : pstate) (h : Z) : pres pstate :=
  let cs := credits (ps_w s) in
  match fold_left (fun (acc : pres pstate) (k : Z) =>
                     match acc with PErr e => PErr e | POk s1 => p_rollback_one a3fix own cs s1 k end)
                  (heights_down (fst (tip (ps_w s))) h) (POk s) with
  | PErr e => PErr e
  | POk s' => POk (set_w s' (rollback_to (ps_w s) h))
  end.

(* ---------------------------------------------------------------- processConnectedBlock *)

Definition ex_get (l : list (Z * list N)) (h : Z) : list N :=
  match find (fun e => fst e =? h) l with Some e => snd e | None => [] end.
Definition ex_del (l : list (Z * list N)) (h : Z) : list (Z * list N) := filter (fun e => negb (fst e =? h)) l.

(* after a successful commit: transactions of rolled-back blocks re-enter the volatile set, the
   relevant transactions of every connected block are remembered under its height *)
Definition update_volatile (hs : hstate) (s' : pstate) (rolled : list Z) (added : list (Z * list N)) : hstate :=
  let mp := fold_left (fun acc h => ex_get (h_expired hs) h ++ acc) rolled (h_mempool hs) in
  let ex := fold_left (fun acc h => ex_del acc h) rolled (h_expired hs) in
  let ex' := fold_left (fun acc e => e :: ex_del acc (fst e)) added ex in
  {| h_store := s'; h_mempool := mp; h_expired := ex' |}.

Definition pprocess (p : params) (a3fix : bool) (own : owner_fn) (n : node) (hs : hstate) (b : block) : pres hstate :=
  let s := h_store hs in
  let st := ps_w s in
  if (snd (tip st) =? b_prev b)%N then
    match p_connect_all p own n (ps_unmined s) s [b] with
    | PErr e => PErr e
    | POk (s', added) => POk (update_volatile hs s' [] added)
    end
  else
    match collect n st (S (Z.to_nat (b_height b))) b [] with
    | None => PErr (PE EMaybeChainRevoked)
    | Some (fork, bs) =>
        match p_rollback_to a3fix own s (fork + 1) with
        | PErr e => PErr e
        | POk s1 =>
            match p_connect_all p own n (ps_unmined s) s1 bs with
            | PErr e => PErr e
            | POk (s', added) => POk (update_volatile hs s' (heights_down (fst (tip st)) (fork + 1)) added)
            end
        end
    end.

Definition pprocess_or_keep (p : params) (a3fix : bool) (own : owner_fn) (n : node) (hs : hstate) (b : block) : hstate :=
  match pprocess p a3fix own n hs b with POk hs' => hs' | PErr _ => hs end.

Definition init_pstate (genesis_id : N) : pstate :=
  {| ps_w := init_state genesis_id; ps_blocks := []; ps_unmined := []; ps_uinputs := []; ps_ucredits := [];
     ps_game := []; ps_ugame := [] |}.
Definition init_hstate (genesis_id : N) : hstate :=
  {| h_store := init_pstate genesis_id; h_mempool := []; h_expired := [] |}.

(* ---------------------------------------------------------------- histories *)

Inductive pevent :=
| PvOwner (sh w : N)
| PvAttach (b : block)
| PvDetach
| PvProcess (b : block)
| PvReceive (t : tx)
| PvRestart.                    (* the process is restarted: the handler's volatile state is lost *)

Record psim := { q_node : node; q_h : hstate; q_own : list (N * N) }.

Definition pstep (p : params) (a3fix : bool) (s : psim) (e : pevent) : psim :=
  match e with
  | PvOwner sh w => {| q_node := q_node s; q_h := q_h s; q_own := (sh, w) :: q_own s |}
  | PvAttach b => {| q_node := q_node s ++ [b]; q_h := q_h s; q_own := q_own s |}
  | PvDetach => {| q_node := removelast (q_node s); q_h := q_h s; q_own := q_own s |}
  | PvProcess b => {| q_node := q_node s; q_h := pprocess_or_keep p a3fix (own_of (q_own s)) (q_node s) (q_h s) b; q_own := q_own s |}
  | PvReceive t => {| q_node := q_node s; q_h := fst (receive_tx p (own_of (q_own s)) (q_node s) (q_h s) t); q_own := q_own s |}
  | PvRestart => {| q_node := q_node s; q_h := {| h_store := h_store (q_h s); h_mempool := []; h_expired := [] |}; q_own := q_own s |}
  end.

Definition init_psim (genesis : block) : psim :=
  {| q_node := [genesis]; q_h := init_hstate (b_id genesis); q_own := [] |}.

Definition prun (p : params) (a3fix : bool) (genesis : block) (h : list pevent) : psim :=
  fold_left (pstep p a3fix) h (init_psim genesis).

(* ---------------------------------------------------------------- queries *)

(* ScriptAddressUnspents / ExistsUtxo: SpentByUnmined = the outpoint has an entry in bucket "mi" *)
Definition spent_by_unmined (s : pstate) (o : outp) : bool :=
  match ui_get (ps_uinputs s) o with [] => false | _ => true end.

(* getUtxosExcludeBindingAndStaking (node mempool empty, reservation cache empty) *)
Definition eligible (s : pstate) (c : credit) : bool :=
  mature (ps_w s) c && negb (spent_by_unmined s (credit_op c)) && is_unspent c && is_std c.

Definition eligible_list (s : pstate) (w : N) : list credit := filter (eligible s) (listed_unspent (ps_w s) w).

Definition flag_rows (s : pstate) (w : N) : list (outp * bool) :=
  map (fun c => (credit_op c, spent_by_unmined s (credit_op c))) (listed_unspent (ps_w s) w).

(* ExistUnminedTx *)
Inductive rdres := RdOk (t : tx) | RdNone | RdBad.
Definition read_unmined (s : pstate) (h : N) : rdres :=
  match um_get (ps_unmined s) h with
  | None => RdNone
  | Some (USer t) => RdOk t
  | Some ULoc => RdBad
  end.

Record hrow := { hr_tx : N; hr_vout : N; hr_amount : Z; hr_sh : N; hr_frozen : Z; hr_height : Z;
                 hr_spent : bool; hr_sbu : bool; hr_pending : bool }.

(* GetUnminedStakingHistoryDetail / GetUnminedBindingHistoryDetail *)
Definition unmined_history (s : pstate) (w : N) (binding : bool) : list hrow :=
  flat_map (fun r =>
    if (ug_wallet r =? w)%N && Bool.eqb (ug_binding r) binding then
      match uc_get (ps_ucredits s) (ug_tx r, ug_vout r) with
      | None => []
      | Some uc =>
          if binding then
            match um_get (ps_unmined s) (ug_tx r) with
            | Some (USer t) =>
                match nth_error (t_outs t) (N.to_nat (ug_vout r)) with
                | Some o => [ {| hr_tx := ug_tx r; hr_vout := ug_vout r; hr_amount := o_val o; hr_sh := o_sh o;
                                 hr_frozen := 0; hr_height := 0; hr_spent := false; hr_sbu := false; hr_pending := true |} ]
                | None => []
                end
            | _ => []
            end
          else [ {| hr_tx := ug_tx r; hr_vout := ug_vout r; hr_amount := uc_amount uc; hr_sh := uc_sh uc;
                    hr_frozen := uc_maturity uc - 1; hr_height := 0; hr_spent := false; hr_sbu := false; hr_pending := true |} ]
      end
    else []) (ps_ugame s).

(* getCreditsByTxHashHeight + index *)
Definition credit_by_height (cs : list credit) (tid : N) (h : Z) (v : N) : option credit :=
  find (fun c => (c_tx c =? tid)%N && (c_height c =? h) && (c_vout c =? v)%N) cs.

(* GetBindingHistoryDetail reads the transaction through its tx record and FetchTxByLoc(height, loc),
   i.e. from the block the NODE has at that height now: the row is produced when that is the block
   of the wallet's block record (otherwise the bytes at that location are not this transaction) *)
Definition binding_tx_readable (n : node) (s : pstate) (tid : N) (h : Z) : bool :=
  existsb (fun b => (br_height b =? h) && existsb (fun t => (t_id t =? tid)%N) (br_txs b) &&
                    match node_at n h with Some nb => (b_id nb =? br_bid b)%N | None => false end) (ps_blocks s).

(* GetStakingHistoryDetail / GetBindingHistoryDetail *)
Definition mined_history (n : node) (s : pstate) (w : N) (binding : bool) (exclude_withdrawn : bool) : list hrow :=
  flat_map (fun r =>
    if (g_wallet r =? w)%N && Bool.eqb (g_binding r) binding && negb (exclude_withdrawn && g_withdrawn r)
       && negb (g_height r =? 0) then
      match credit_by_height (credits (ps_w s)) (g_tx r) (g_height r) (g_vout r) with
      | None => []
      | Some c =>
          if binding && negb (binding_tx_readable n s (g_tx r) (g_height r))
          then []
          else [ {| hr_tx := g_tx r; hr_vout := g_vout r; hr_amount := c_amount c; hr_sh := c_sh c;
                    hr_frozen := (if binding then 0 else c_maturity c - 1); hr_height := g_height r;
                    hr_spent := negb (is_unspent c);
                    hr_sbu := (if is_unspent c then spent_by_unmined s (g_tx r, g_vout r) else false);
                    hr_pending := false |} ]
      end
    else []) (ps_game s).

(* WalletManager.GetStakingHistory / GetBindingHistory *)
Definition game_history (n : node) (s : pstate) (w : N) (binding : bool) (exclude_withdrawn : bool) : list hrow :=
  unmined_history s w binding ++ mined_history n s w binding exclude_withdrawn.

(* ---------------------------------------------------------------- specification side *)

(* what the pending set should be, written over the wallet's processed chain [c] and the transactions
   the wallet has been shown ([known], in creation order: parents before children):
   a known non-coinbase transaction is pending iff it is not on the chain, none of its inputs is spent on
   the chain, and every input is an output of the chain or of a pending transaction *)
Definition tx_on_chain (c : list block) (id : N) : bool := existsb (fun t => (t_id t =? id)%N) (chain_txs c).
Definition creates (t : tx) (o : outp) : bool := (fst o =? t_id t)%N && (N.to_nat (snd o) <? length (t_outs t))%nat.
Definition created_on (c : list block) (o : outp) : bool := existsb (fun t => creates t o) (chain_txs c).

Fixpoint ideal_pending (c : list block) (known : list tx) (acc : list tx) : list tx :=
  match known with
  | [] => acc
  | t :: rest =>
      let ok := negb (t_cb t) && negb (tx_on_chain c (t_id t)) && negb (existsb (fun q => (t_id q =? t_id t)%N) acc) &&
                forallb (fun o => negb (spent_in c o) && (created_on c o || existsb (fun q => creates q o) acc)) (t_ins t) in
      ideal_pending c rest (if ok then acc ++ [t] else acc)
  end.

(* a listed coin must be flagged iff an ideally pending transaction spends it *)
Definition spec_flag (pend : list tx) (o : outp) : bool := existsb (fun t => existsb (op_eqb o) (t_ins t)) pend.

(* deposits of the chain: one row per staking/binding output paying the wallet; withdrawn iff spent on the chain *)
Definition spec_mined_history (own : owner_fn) (c : list block) (pend : list tx) (w : N) (binding : bool) : list hrow :=
  flat_map (fun k =>
    match game_kind (k_class k) with
    | Some b =>
        if (k_wallet k =? w)%N && Bool.eqb b binding then
          [ {| hr_tx := k_tx k; hr_vout := k_vout k; hr_amount := k_amount k; hr_sh := k_sh k;
               hr_frozen := (match k_class k with CStaking f => f | _ => 0 end); hr_height := k_height k;
               hr_spent := spent_in c (k_tx k, k_vout k);
               hr_sbu := (if spent_in c (k_tx k, k_vout k) then false else spec_flag pend (k_tx k, k_vout k));
               hr_pending := false |} ]
        else []
    | None => []
    end) (coins_of_chain own c).

Definition spec_unmined_history (own : owner_fn) (pend : list tx) (w : N) (binding : bool) : list hrow :=
  flat_map (fun t =>
    flat_map (fun ro =>
      match game_kind (o_class (ro_out ro)) with
      | Some b =>
          if (ro_wallet ro =? w)%N && Bool.eqb b binding then
            [ {| hr_tx := t_id t; hr_vout := ro_index ro; hr_amount := o_val (ro_out ro); hr_sh := o_sh (ro_out ro);
                 hr_frozen := (match o_class (ro_out ro) with CStaking f => f | _ => 0 end); hr_height := 0;
                 hr_spent := false; hr_sbu := false; hr_pending := true |} ]
          else []
      | None => []
      end) (filter_outs own (t_outs t) 0%N)) pend.

(* ---------------------------------------------------------------- consensus side of C10 *)

(* lock consensus puts on an output: coinbase maturity and the CHECKSEQUENCEVERIFY operand of the
   witness program (staking: frozen period + 1; binding created at or after the MASSIP0002 warm-up
   height: the binding locked period) both apply *)
Record bparams := { bp_warmup : Z; bp_bindlock : Z }.

Definition seq_disabled_bit : Z := 2 ^ 63.
Definition seq_mask : Z := 2 ^ 32 - 1.
Definition max_sequence : Z := 2 ^ 64 - 1.

(* operand the script engine pushes before OP_CHECKSEQUENCEVERIFY, if any *)
Definition csv_operand (bp : bparams) (cls : oclass) (deposit_height : Z) : option Z :=
  match cls with
  | CStaking f => Some (f + 1)
  | CBindingOld | CBindingNew => if bp_warmup bp <=? deposit_height then Some (bp_bindlock bp) else None
  | _ => None
  end.

(* opcodeCheckSequenceVerify for block-height operands below 2^32 *)
Definition csv_ok (operand : option Z) (sequence : Z) : bool :=
  match operand with
  | None => true
  | Some v => (sequence <? seq_disabled_bit) && (v <=? sequence mod (2 ^ 39)) && (sequence mod (2 ^ 39) <? 2 ^ 38)
  end.

(* calcSequenceLock (height part) and SequenceLockActive: may a transaction whose input of height [h]
   carries [sequence] be included in the block at height [next]? *)
Definition sequence_lock_height (h : Z) (sequence : Z) : Z :=
  if seq_disabled_bit <=? sequence then 0 else h + (sequence mod (2 ^ 32)) - 1.
Definition sequence_lock_active (h sequence next : Z) : bool := sequence_lock_height h sequence <? next.

(* constructTxIn / addTxIn *)
Definition built_sequence (bp : bparams) (locktime : Z) (cls : oclass) (deposit_height : Z) : Z :=
  let default := if locktime =? 0 then max_sequence else max_sequence - 1 in
  match cls with
  | CStaking f => f + 1
  | CBindingOld | CBindingNew => if bp_warmup bp <=? deposit_height then bp_bindlock bp else default
  | _ => default
  end.

(* the least sequence number the engine accepts for the lock, i.e. the earliest possible withdrawal *)
Definition required_sequence (bp : bparams) (cls : oclass) (deposit_height : Z) : option Z := csv_operand bp cls deposit_height.

(* height from which consensus lets the deposit be spent (non-coinbase outputs) *)
Definition consensus_unlock_height (bp : bparams) (cls : oclass) (h : Z) : option Z :=
  match csv_operand bp cls h with
  | Some v => Some (h + v)
  | None => None
  end.

(* a transaction concerns the wallet when it pays one of its script hashes or spends an output that
   does; [universe] looks a transaction up among all transactions ever defined *)
Definition spec_relevant (own : owner_fn) (universe : N -> option tx) (t : tx) : bool :=
  match filter_outs own (t_outs t) 0%N with
  | _ :: _ => true
  | [] =>
      negb (t_cb t) &&
      existsb (fun o => match universe (fst o) with
                        | Some pt => match nth_error (t_outs pt) (N.to_nat (snd o)) with
                                     | Some out => match o_class out, own (o_sh out) with
                                                   | CUnsupported, _ => false
                                                   | _, Some _ => true
                                                   | _, None => false
                                                   end
                                     | None => false
                                     end
                        | None => false
                        end) (t_ins t)
  end.

(* [ideal_pending] is the largest set that may be pending.  Two valid unconfirmed transactions that
   spend the same output cannot both confirm, and which of them a wallet (or a node's mempool) still
   holds depends on the order of events; such a transaction and its descendants are left undetermined.
   [settled_pending upper upper []] is the part of [upper] that must be pending. *)
Definition conflicts (a b : tx) : bool :=
  negb (t_id a =? t_id b)%N && existsb (fun o => existsb (op_eqb o) (t_ins b)) (t_ins a).

Fixpoint settled_pending (upper : list tx) (cands : list tx) (acc : list tx) : list tx :=
  match cands with
  | [] => acc
  | t :: rest =>
      let ok := negb (existsb (conflicts t) upper) &&
                forallb (fun o => negb (existsb (fun q => creates q o) upper) || existsb (fun q => creates q o) acc) (t_ins t) in
      settled_pending upper rest (if ok then acc ++ [t] else acc)
  end.

(* AddCredits as first found stored the coinbase maturity for every coinbase output, whatever its script
   (finding coinbase-deposit-maturity, repaired in 91b07dd; Model.maturity_of is the repaired rule) *)
Definition maturity_as_found (p : params) (cb : bool) (c : oclass) : Z :=
  if cb then p_cbmat p else script_maturity p c.

(* what consensus makes of a deposit: the coinbase maturity and the sequence lock both apply *)
Definition consensus_lock (p : params) (bp : bparams) (k : coin) : Z :=
  Z.max (if k_cb k then p_cbmat p else 0)
        (match csv_operand bp (k_class k) (k_height k) with Some v => v | None => 0 end).

(* the block at height [next] may contain a transaction spending the coin *)
Definition consensus_withdrawable (p : params) (bp : bparams) (next : Z) (k : coin) : bool :=
  consensus_lock p bp k <=? next - k_height k.

(* withdrawable staking / binding funds of wallet w according to consensus *)
Definition spec_withdrawable (p : params) (bp : bparams) (own : owner_fn) (c : list block) (w : N) (binding : bool) : Z :=
  spec_sum (fun k => consensus_withdrawable p bp (chain_height c + 1) k &&
                     match game_kind (k_class k) with Some b => Bool.eqb b binding | None => false end)
           (filter (fun k => negb (k_amount k =? 0)) (utxo_of_chain own c w)).
