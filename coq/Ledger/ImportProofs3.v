(* Ledger/ImportProofs3.v — C07 with OTHER wallets in the same database.

   ImportProofs.v / ImportProofs2.v prove "import = live" for a store in which the restored wallet w is
   the only wallet (credits = E p kown ...).  Here the store also holds any number of other READY wallets
   with their own history, and transactions SHARED between w and one of them (the transaction record and
   the block record exist already when the rescan reaches the block).

   The store is looked at through two projections: [kept isw] (the credits of w) and [kept notw] (the
   credits of everybody else) — the machinery of C08 (RemoveProofs2.v: kept / junk).
   Part A  owner functions restricted to a set of wallets; AddRelevantTx on a store = on its two projections
   Part B  the rescan (import_tx / import_txs / import_blocks) on a mixed store = on the projection of w,
           the rest untouched
   Part C  a batch on a node chain whose block records belong to another (the handler's) chain
   Part D  the invariant [minv] and its preservation by every event
   Part E  histories; what the invariant gives (import = live for ALL wallets; frame) *)
From Coq Require Import List ZArith NArith Bool Lia Permutation.
Import ListNotations.
Open Scope Z_scope.
Require Import MW.Ledger.Model MW.Ledger.Spec MW.Ledger.Run MW.Ledger.WF MW.Ledger.Import MW.Ledger.Remove.
Require Import MW.Ledger.Proofs MW.Ledger.Proofs2 MW.Ledger.Proofs3 MW.Ledger.Proofs4 MW.Ledger.Proofs5 MW.Ledger.Proofs6.
Require Import MW.Ledger.RemoveProofs MW.Ledger.RemoveProofs2 MW.Ledger.RemoveProofs5 MW.Ledger.ImportProofs MW.Ledger.ImportProofs2.

(* ================================================================ Part A: projections *)

Lemma E_ext_all : forall p own1 own2 l, (forall sh, own1 sh = own2 sh) -> E p own1 l = E p own2 l.
Proof. intros p own1 own2 l H. unfold E. rewrite (coins_l_ext_all own1 own2 l H). reflexivity. Qed.

Lemma kept_rollback : forall keepw cs h, kept keepw (rollback_credits cs h) = rollback_credits (kept keepw cs) h.
Proof.
  intros keepw cs h. unfold kept, rollback_credits. induction cs as [|c r IH]; [reflexivity|].
  cbn [filter]. destruct (c_height c <? h) eqn:Eh.
  - cbn [map filter].
    assert (Hk : keepc keepw (match c_spent c with
                              | Some (_, _, sh) => if h <=? sh then set_spent c None else c
                              | None => c end) = keepc keepw c).
    { destruct (c_spent c) as [[[a b] sh]|]; [destruct (h <=? sh)|]; reflexivity. }
    rewrite Hk. destruct (keepc keepw c); cbn [filter map]; rewrite ?Eh; cbn [map]; rewrite IH; reflexivity.
  - destruct (keepc keepw c); cbn [filter]; rewrite ?Eh; exact IH.
Qed.

Lemma kept_in : forall keepw cs c, In c (kept keepw cs) <-> In c cs /\ keepw (c_wallet c) = true.
Proof. intros. unfold kept. rewrite filter_In. reflexivity. Qed.

Lemma kept_or_junk : forall keepw cs c, In c cs -> In c (kept keepw cs) \/ In c (junk keepw cs).
Proof.
  intros keepw cs c H. unfold kept, junk. destruct (keepc keepw c) eqn:E.
  - left. apply filter_In. tauto.
  - right. apply filter_In. rewrite E. tauto.
Qed.

Section Sel.
Variable keepw : N -> bool.

Definition own_sel (own : owner_fn) : owner_fn :=
  fun sh => match own sh with Some v => if keepw v then Some v else None | None => None end.

Lemma own_sel_ext : forall own1 own2, (forall sh, own1 sh = own2 sh) -> forall sh, own_sel own1 sh = own_sel own2 sh.
Proof. intros own1 own2 H sh. unfold own_sel. rewrite H. reflexivity. Qed.

Lemma out_owner_sel : forall own o,
  out_owner (own_sel own) o = match out_owner own o with Some v => if keepw v then Some v else None | None => None end.
Proof. intros own o. unfold out_owner, own_sel. destruct (o_class o); reflexivity. Qed.

Lemma coins_of_outs_sel : forall own t h bid outs i,
  coins_of_outs (own_sel own) t h bid outs i =
  filter (fun k => keepw (k_wallet k)) (coins_of_outs own t h bid outs i).
Proof.
  intros own t h bid outs. induction outs as [|o rest IH]; intros i; [reflexivity|].
  rewrite !coins_of_outs_cons, out_owner_sel.
  destruct (out_owner own o) as [v|]; [|apply IH].
  cbn [filter k_wallet]. destruct (keepw v); [f_equal|]; apply IH.
Qed.

Lemma coins_l_sel : forall own l,
  coins_l (own_sel own) l = filter (fun k => keepw (k_wallet k)) (coins_l own l).
Proof.
  intros own l. induction l as [|x l IH]; [reflexivity|].
  change (coins_l (own_sel own) (x :: l)) with (coins_pt (own_sel own) x ++ coins_l (own_sel own) l).
  change (coins_l own (x :: l)) with (coins_pt own x ++ coins_l own l).
  rewrite filter_app, IH. f_equal. apply coins_of_outs_sel.
Qed.

(* the ledger of a chain for the owner function restricted to some wallets is the ledger filtered *)
Lemma E_sel : forall p own l, kept keepw (E p own l) = E p (own_sel own) l.
Proof.
  intros p own l. unfold kept, E.
  change (keepc keepw) with (fun c => keepw (c_wallet c)).
  rewrite mkE_filter, coins_l_sel. reflexivity.
Qed.

Lemma filter_outs_sel : forall own outs i,
  filter_outs (own_sel own) outs i = filter (fun ro => keepw (ro_wallet ro)) (filter_outs own outs i).
Proof.
  intros own outs. induction outs as [|o rest IH]; intros i; [reflexivity|].
  rewrite !filter_outs_cons, out_owner_sel.
  destruct (out_owner own o) as [v|]; [|apply IH].
  cbn [filter ro_wallet]. destruct (keepw v); [f_equal|]; apply IH.
Qed.

Lemma owned_out_sel : forall own all op,
  owned_out (own_sel own) all op =
  match owned_out own all op with Some v => if keepw v then Some v else None | None => None end.
Proof.
  intros own all op. unfold owned_out. destruct (find_tx all (fst op)) as [t|]; [|reflexivity].
  destruct (nth_error (t_outs t) (N.to_nat (snd op))) as [o|]; [|reflexivity].
  unfold own_sel. destruct (o_class o); reflexivity.
Qed.

Lemma rel_ins_of_sel : forall own all ins i,
  rel_ins_of (own_sel own) all ins i = filter (fun ri => keepw (ri_wallet ri)) (rel_ins_of own all ins i).
Proof.
  intros own all ins. induction ins as [|op r IH]; intros i; [reflexivity|].
  cbn [rel_ins_of]. rewrite owned_out_sel. destruct (owned_out own all op) as [v|]; [|apply IH].
  cbn [filter ri_wallet]. destruct (keepw v); [f_equal|]; apply IH.
Qed.

(* a relevant record restricted to the wallets kept *)
Definition prj (r : relrec) : relrec :=
  {| rr_tx := rr_tx r;
     rr_ins := filter (fun ri => keepw (ri_wallet ri)) (rr_ins r);
     rr_outs := filter (fun ro => keepw (ro_wallet ro)) (rr_outs r) |}.

Lemma rec_of_sel : forall own all t, rec_of (own_sel own) all t = prj (rec_of own all t).
Proof.
  intros own all t. unfold rec_of, prj. cbn [rr_tx rr_ins rr_outs]. f_equal.
  - destruct (t_cb t); [reflexivity|apply rel_ins_of_sel].
  - apply filter_outs_sel.
Qed.

End Sel.

Definition notk (keepw : N -> bool) : N -> bool := fun v => negb (keepw v).

Lemma kept_notk : forall keepw cs, kept (notk keepw) cs = junk keepw cs.
Proof. reflexivity. Qed.

Lemma junk_notk : forall keepw cs, junk (notk keepw) cs = kept keepw cs.
Proof.
  intros keepw cs. unfold junk, kept. apply filter_ext. intros c. unfold keepc, notk. apply negb_involutive.
Qed.

(* ---------------------------------------------------------------- updateMinedBalance on both projections *)

Lemma spend_credit_map_tx : forall cs w op by_ cs', spend_credit cs w op by_ = Some cs' -> map c_tx cs' = map c_tx cs.
Proof.
  induction cs as [|c r IH]; intros w op by_ cs' H; [discriminate|].
  cbn [spend_credit] in H. destruct (op_eqb (credit_op c) op && (c_wallet c =? w)%N && is_unspent c).
  - inversion H. reflexivity.
  - destruct (spend_credit r w op by_) as [r'|] eqn:Hr; [|discriminate]. inversion H. cbn [map].
    rewrite (IH _ _ _ _ Hr). reflexivity.
Qed.

Lemma apply_ins_map_tx : forall t h ins cs cs', apply_ins cs t h ins = Ok cs' -> map c_tx cs' = map c_tx cs.
Proof.
  intros t h ins. induction ins as [|ri r IH]; intros cs cs' H.
  - inversion H. reflexivity.
  - cbn [apply_ins] in H. destruct (spend_credit cs (ri_wallet ri) (ri_prev ri) (t_id t, ri_index ri, h)) as [cs1|] eqn:Hs; [|discriminate].
    rewrite (IH _ _ H). apply (spend_credit_map_tx _ _ _ _ _ Hs).
Qed.

Lemma apply_ins_split : forall keepw t h ins cs A B,
  apply_ins (kept keepw cs) t h (filter (fun ri => keepw (ri_wallet ri)) ins) = Ok A ->
  apply_ins (junk keepw cs) t h (filter (fun ri => notk keepw (ri_wallet ri)) ins) = Ok B ->
  exists cs', apply_ins cs t h ins = Ok cs' /\ kept keepw cs' = A /\ junk keepw cs' = B.
Proof.
  intros keepw t h ins. induction ins as [|ri r IH]; intros cs A B HA HB.
  - cbn in *. inversion HA. inversion HB. exists cs. repeat split.
  - cbn [filter] in HA, HB. unfold notk in HB at 1. destruct (keepw (ri_wallet ri)) eqn:Hk; cbn [negb] in HB.
    + cbn [apply_ins] in HA. rewrite (spend_credit_kept keepw cs _ _ _ Hk) in HA.
      cbn [apply_ins].
      destruct (spend_credit cs (ri_wallet ri) (ri_prev ri) (t_id t, ri_index ri, h)) as [cs1|] eqn:Hs; [|discriminate].
      cbn [option_map] in HA.
      rewrite <- (spend_credit_junk keepw _ _ _ _ _ Hk Hs) in HB.
      apply (IH cs1 A B HA HB).
    + cbn [apply_ins] in HB. rewrite <- kept_notk in HB.
      assert (Hk' : notk keepw (ri_wallet ri) = true) by (unfold notk; rewrite Hk; reflexivity).
      rewrite (spend_credit_kept (notk keepw) cs _ _ _ Hk') in HB.
      cbn [apply_ins].
      destruct (spend_credit cs (ri_wallet ri) (ri_prev ri) (t_id t, ri_index ri, h)) as [cs1|] eqn:Hs; [|discriminate].
      cbn [option_map] in HB. rewrite kept_notk in HB.
      pose proof (spend_credit_junk (notk keepw) _ _ _ _ _ Hk' Hs) as Hj. rewrite !junk_notk in Hj.
      rewrite <- Hj in HA.
      apply (IH cs1 A B HA HB).
Qed.

(* ---------------------------------------------------------------- AddCredits for a transaction new to the store *)

Definition out_credit (p : params) (t : tx) (h : Z) (bid : N) (ro : rel_out) : credit :=
  {| c_tx := t_id t; c_vout := ro_index ro; c_height := h; c_bid := bid;
     c_amount := o_val (ro_out ro); c_sh := o_sh (ro_out ro); c_wallet := ro_wallet ro;
     c_class := o_class (ro_out ro);
     c_maturity := maturity_of p (t_cb t) (o_class (ro_out ro));
     c_spent := None |}.

Lemma apply_outs_shape : forall p t h bid outs cs cs',
  apply_outs p cs t h bid outs = Ok cs' -> cs' = cs ++ map (out_credit p t h bid) outs.
Proof.
  intros p t h bid outs. induction outs as [|ro r IH]; intros cs cs' H.
  - inversion H. rewrite app_nil_r. reflexivity.
  - cbn [apply_outs] in H. destruct (exists_credit_at cs (t_id t, ro_index ro) h bid); [discriminate|].
    rewrite (IH _ _ H). rewrite <- app_assoc. reflexivity.
Qed.

Lemma exists_credit_at_fresh : forall cs t i h bid, ~ In t (map c_tx cs) -> exists_credit_at cs (t, i) h bid = false.
Proof.
  intros cs t i h bid H. unfold exists_credit_at. apply not_true_is_false. intros Hex.
  apply existsb_exists in Hex. destruct Hex as [c [Hc Hb]].
  apply andb_true_iff in Hb. destruct Hb as [Hb _]. apply andb_true_iff in Hb. destruct Hb as [Hb _].
  apply op_eqb_eq in Hb. unfold credit_op in Hb. inversion Hb. apply H. apply in_map_iff. exists c. split; assumption.
Qed.

Lemma apply_outs_fresh_gen : forall p t h bid outs cs,
  (forall ro', In ro' outs -> forall c, In c cs -> c_tx c = t_id t -> c_vout c <> ro_index ro') ->
  NoDup (map ro_index outs) ->
  apply_outs p cs t h bid outs = Ok (cs ++ map (out_credit p t h bid) outs).
Proof.
  intros p t h bid outs. induction outs as [|ro r IH]; intros cs Hf Hnd.
  - cbn. rewrite app_nil_r. reflexivity.
  - cbn [apply_outs map] in *. inversion Hnd as [|? ? Hni Hnd']. subst.
    assert (Hex : exists_credit_at cs (t_id t, ro_index ro) h bid = false).
    { unfold exists_credit_at. apply not_true_is_false. intros Hex.
      apply existsb_exists in Hex. destruct Hex as [c [Hc Hb]].
      apply andb_true_iff in Hb. destruct Hb as [Hb _]. apply andb_true_iff in Hb. destruct Hb as [Hb _].
      apply op_eqb_eq in Hb. unfold credit_op in Hb. inversion Hb.
      apply (Hf ro (or_introl eq_refl) c Hc); assumption. }
    rewrite Hex. fold (out_credit p t h bid ro). rewrite IH; [rewrite <- app_assoc; reflexivity| |assumption].
    intros ro' Hro' c Hc Htx. apply in_app_or in Hc. destruct Hc as [Hc|[Hc|[]]].
    + apply (Hf ro' (or_intror Hro') c Hc Htx).
    + subst c. cbn [c_vout out_credit]. intros Heq. apply Hni. rewrite Heq. apply in_map. assumption.
Qed.

Lemma apply_outs_fresh : forall p t h bid outs cs,
  ~ In (t_id t) (map c_tx cs) -> NoDup (map ro_index outs) ->
  apply_outs p cs t h bid outs = Ok (cs ++ map (out_credit p t h bid) outs).
Proof.
  intros p t h bid outs cs Hf Hnd. apply apply_outs_fresh_gen; [|assumption].
  intros ro' _ c Hc Htx. exfalso. apply Hf. apply in_map_iff. exists c. split; assumption.
Qed.

Lemma kept_out_credits : forall keepw p t h bid outs,
  kept keepw (map (out_credit p t h bid) outs) = map (out_credit p t h bid) (filter (fun ro => keepw (ro_wallet ro)) outs).
Proof.
  intros keepw p t h bid outs. unfold kept. induction outs as [|ro r IH]; [reflexivity|].
  cbn [map filter]. change (keepc keepw (out_credit p t h bid ro)) with (keepw (ro_wallet ro)).
  destruct (keepw (ro_wallet ro)); cbn [map]; rewrite IH; reflexivity.
Qed.

Lemma junk_out_credits : forall keepw p t h bid outs,
  junk keepw (map (out_credit p t h bid) outs) = map (out_credit p t h bid) (filter (fun ro => notk keepw (ro_wallet ro)) outs).
Proof. intros. rewrite <- kept_notk. apply kept_out_credits. Qed.

(* AddRelevantTx for the transactions of a block that is new to the store: the store afterwards is, on each
   projection, what AddRelevantTx makes of that projection with the records restricted to its wallets *)
Lemma apply_recs_split : forall keepw p h bid recs cs A B,
  NoDup (map (fun r => t_id (rr_tx r)) recs) ->
  (forall r, In r recs -> ~ In (t_id (rr_tx r)) (map c_tx cs)) ->
  (forall r, In r recs -> NoDup (map ro_index (rr_outs r))) ->
  apply_recs p (kept keepw cs) h bid (map (prj keepw) recs) = Ok A ->
  apply_recs p (junk keepw cs) h bid (map (prj (notk keepw)) recs) = Ok B ->
  exists cs', apply_recs p cs h bid recs = Ok cs' /\ kept keepw cs' = A /\ junk keepw cs' = B.
Proof.
  intros keepw p h bid recs. induction recs as [|r rest IH]; intros cs A B Hnd Hf Hro HA HB.
  - cbn in *. inversion HA. inversion HB. exists cs. repeat split.
  - cbn [map apply_recs prj rr_tx rr_ins rr_outs] in HA, HB.
    destruct (apply_ins (kept keepw cs) (rr_tx r) h (filter (fun ri => keepw (ri_wallet ri)) (rr_ins r))) as [a1|] eqn:Ha1; [|discriminate].
    destruct (apply_outs p a1 (rr_tx r) h bid (filter (fun ro => keepw (ro_wallet ro)) (rr_outs r))) as [a2|] eqn:Ha2; [|discriminate].
    destruct (apply_ins (junk keepw cs) (rr_tx r) h (filter (fun ri => notk keepw (ri_wallet ri)) (rr_ins r))) as [b1|] eqn:Hb1; [|discriminate].
    destruct (apply_outs p b1 (rr_tx r) h bid (filter (fun ro => notk keepw (ro_wallet ro)) (rr_outs r))) as [b2|] eqn:Hb2; [|discriminate].
    destruct (apply_ins_split keepw _ _ _ _ _ _ Ha1 Hb1) as [cs1 [Hi [Hk1 Hj1]]].
    cbn [apply_recs]. rewrite Hi.
    assert (Hfr : ~ In (t_id (rr_tx r)) (map c_tx cs1)).
    { rewrite (apply_ins_map_tx _ _ _ _ _ Hi). apply Hf. left. reflexivity. }
    rewrite (apply_outs_fresh p _ h bid (rr_outs r) cs1 Hfr (Hro r (or_introl eq_refl))).
    apply apply_outs_shape in Ha2, Hb2. subst a2 b2.
    cbn [map] in Hnd. inversion Hnd as [|? ? Hni Hnd']. subst.
    apply (IH _ A B Hnd').
    + intros r' Hr' Hin. rewrite map_app in Hin. apply in_app_or in Hin. destruct Hin as [Hin|Hin].
      * rewrite (apply_ins_map_tx _ _ _ _ _ Hi) in Hin. apply (Hf r' (or_intror Hr') Hin).
      * rewrite map_map in Hin. cbn [out_credit c_tx] in Hin. apply in_map_iff in Hin. destruct Hin as [ro [Heq _]].
        apply Hni. rewrite Heq. apply (in_map (fun r0 => t_id (rr_tx r0))). assumption.
    + intros r' Hr'. apply Hro. right. assumption.
    + rewrite kept_app, kept_out_credits. exact HA.
    + rewrite junk_app, junk_out_credits. exact HB.
Qed.

(* ================================================================ Part B: the rescan on a mixed store *)

Lemma import_ins_wallet : forall own n h ins i l, import_ins own n h ins i = Some l ->
  forall ri, In ri l -> exists sh, own sh = Some (ri_wallet ri).
Proof.
  intros own n h ins. induction ins as [|[ph pv] r IH]; intros i l H ri Hri.
  - inversion H. subst. destruct Hri.
  - cbn [import_ins] in H. destruct (node_tx_upto n h ph) as [pt|]; [|discriminate].
    destruct (nth_error (t_outs pt) (N.to_nat pv)) as [o|]; [|discriminate].
    destruct (import_ins own n h r (i + 1)%N) as [l0|] eqn:Hr; [|discriminate].
    assert (Hrest : In ri l0 -> exists sh, own sh = Some (ri_wallet ri)) by (apply (IH _ _ Hr)).
    destruct (o_class o); try (inversion H; subst; apply Hrest; assumption);
      (destruct (own (o_sh o)) as [v|] eqn:Ho; inversion H; subst; [|apply Hrest; assumption];
       destruct Hri as [Hri|Hri]; [subst ri; exists (o_sh o); assumption|apply Hrest; assumption]).
Qed.

Section ImportProj.
Variable keepw : N -> bool.
Variable p : params.
Variable own : owner_fn.
Hypothesis own_kept : forall sh v, own sh = Some v -> keepw v = true.

(* the rescan of one transaction on a store that also holds other wallets' credits: what it does to the
   credits of the wallets it works for is what it does on a store holding only those; the other credits
   are untouched; the block records come out the same.  Premise: none of the other credits sits at an
   output of this transaction that pays the rescanned wallet (it cannot: one script hash, one wallet). *)
Lemma import_tx_proj : forall n h bid cs brs t A brs',
  import_tx p own n h bid (kept keepw cs, brs) t = inl (A, brs') ->
  (forall ro, In ro (filter_outs own (t_outs t) 0%N) -> exists_credit_at (junk keepw cs) (t_id t, ro_index ro) h bid = false) ->
  exists cs', import_tx p own n h bid (cs, brs) t = inl (cs', brs') /\ kept keepw cs' = A /\ junk keepw cs' = junk keepw cs.
Proof.
  intros n h bid cs brs t A brs' H Hfresh. rewrite import_tx_unfold in *.
  destruct (if t_cb t then Some [] else import_ins own n h (t_ins t) 0%N) as [ins|] eqn:Hins; [|discriminate].
  assert (Hiw : forall ri, In ri ins -> keepw (ri_wallet ri) = true).
  { intros ri Hri. destruct (t_cb t).
    - inversion Hins. subst. destruct Hri.
    - destruct (import_ins_wallet _ _ _ _ _ _ Hins ri Hri) as [sh Hsh]. apply (own_kept sh). assumption. }
  assert (How : forall ro, In ro (filter_outs own (t_outs t) 0%N) -> keepw (ro_wallet ro) = true).
  { intros ro Hro. apply filter_outs_in in Hro. destruct Hro as [j [_ [_ Ho]]]. apply out_owner_some in Ho.
    apply (own_kept (o_sh (ro_out ro))). tauto. }
  assert (Hbody : import_body p h bid (kept keepw cs) brs t ins (filter_outs own (t_outs t) 0%N) = inl (A, brs') ->
                  exists cs', import_body p h bid cs brs t ins (filter_outs own (t_outs t) 0%N) = inl (cs', brs') /\
                              kept keepw cs' = A /\ junk keepw cs' = junk keepw cs).
  { unfold import_body. destruct (negb _); [discriminate|].
    rewrite (apply_ins_kept keepw t h ins cs Hiw).
    destruct (apply_ins cs t h ins) as [cs1|e] eqn:Hi; cbn [res_map]; [|discriminate].
    pose proof (apply_ins_junk keepw _ _ _ _ _ Hiw Hi) as Hj1.
    destruct (apply_outs_kept keepw p t h bid (filter_outs own (t_outs t) 0%N) cs1 How) as [Ho1 Ho2].
    { intros ro Hro. rewrite Hj1. apply Hfresh. assumption. }
    rewrite Ho1. destruct (apply_outs p cs1 t h bid (filter_outs own (t_outs t) 0%N)) as [cs2|e] eqn:Ho; cbn [res_map]; [|discriminate].
    intros Heq. remember (add_ids brs h bid [t_id t]) as X. inversion Heq. subst.
    exists cs2. split; [reflexivity|split; [reflexivity|]]. rewrite (Ho2 cs2 eq_refl). exact Hj1. }
  destruct ins as [|i0 ir]; destruct (filter_outs own (t_outs t) 0%N) as [|o0 orr] eqn:Hfo; try (apply Hbody; assumption).
  inversion H. subst. exists cs. repeat split.
Qed.

Lemma import_txs_proj : forall n h bid ts cs brs A brs',
  import_txs p own n h bid (kept keepw cs, brs) ts = inl (A, brs') ->
  (forall t ro, In t ts -> In ro (filter_outs own (t_outs t) 0%N) ->
     exists_credit_at (junk keepw cs) (t_id t, ro_index ro) h bid = false) ->
  exists cs', import_txs p own n h bid (cs, brs) ts = inl (cs', brs') /\ kept keepw cs' = A /\ junk keepw cs' = junk keepw cs.
Proof.
  intros n h bid ts. induction ts as [|t r IH]; intros cs brs A brs' H Hfresh.
  - cbn in *. inversion H. subst. exists cs. repeat split.
  - cbn [import_txs] in *.
    destruct (import_tx p own n h bid (kept keepw cs, brs) t) as [[a1 brs1]|e] eqn:Ht; [|discriminate].
    destruct (import_tx_proj n h bid cs brs t a1 brs1 Ht) as [cs1 [Ht' [Hk1 Hj1]]].
    { intros ro Hro. apply (Hfresh t ro); [left; reflexivity|assumption]. }
    rewrite Ht'. rewrite <- Hk1 in H.
    destruct (IH cs1 brs1 A brs' H) as [cs' [Hr [Hk Hj]]].
    { intros t' ro Ht0 Hro. rewrite Hj1. apply (Hfresh t' ro); [right; assumption|assumption]. }
    exists cs'. split; [assumption|split; [assumption|congruence]].
Qed.

Lemma import_blocks_proj : forall n k stop bs cs brs A brs',
  import_blocks p own n k stop (kept keepw cs, brs) bs = inl (A, brs') ->
  (forall b t ro, In b bs -> k < b_height b <= stop -> In t (b_txs b) -> In ro (filter_outs own (t_outs t) 0%N) ->
     exists_credit_at (junk keepw cs) (t_id t, ro_index ro) (b_height b) (b_id b) = false) ->
  exists cs', import_blocks p own n k stop (cs, brs) bs = inl (cs', brs') /\ kept keepw cs' = A /\ junk keepw cs' = junk keepw cs.
Proof.
  intros n k stop bs. induction bs as [|b r IH]; intros cs brs A brs' H Hfresh.
  - cbn in *. inversion H. subst. exists cs. repeat split.
  - cbn [import_blocks] in *. destruct ((k <? b_height b) && (b_height b <=? stop)) eqn:Hr.
    + apply andb_true_iff in Hr. destruct Hr as [Hk Hs]. apply Z.ltb_lt in Hk. apply Z.leb_le in Hs.
      destruct (import_txs p own n (b_height b) (b_id b) (kept keepw cs, brs) (filter (touches own n (b_height b)) (b_txs b)))
        as [[a1 brs1]|e] eqn:Ht; [|discriminate].
      destruct (import_txs_proj n _ _ _ cs brs a1 brs1 Ht) as [cs1 [Ht' [Hk1 Hj1]]].
      { intros t ro Hin Hro. apply filter_In in Hin. destruct Hin as [Hin _].
        apply (Hfresh b t ro); [left; reflexivity|lia|assumption|assumption]. }
      rewrite Ht'. rewrite <- Hk1 in H.
      destruct (IH cs1 brs1 A brs' H) as [cs' [Hr' [Hk' Hj']]].
      { intros b' t ro Hb' Hrg Hin Hro. rewrite Hj1. apply (Hfresh b' t ro); [right; assumption|assumption|assumption|assumption]. }
      exists cs'. split; [assumption|split; [assumption|congruence]].
    + apply (IH cs brs A brs' H). intros b' t ro Hb'. apply Hfresh. right. assumption.
Qed.

End ImportProj.

(* ================================================================ Part C: node chain and record chain apart *)

(* [import_blocks_mid] of ImportProofs.v when the block records in the store are those of ANOTHER chain c
   (the handler's; it holds the records of the other wallets, also above the batch) which shares the
   blocks read with the node's chain *)
Lemma import_blocks_mid2 : forall p own n c k stop mid done post brs,
  wf_chain n -> n = done ++ mid ++ post ->
  (forall b, In b mid -> k < b_height b <= stop) ->
  incl mid c -> uniq_heights c -> brs_ok c brs ->
  exists brs',
    import_blocks p own n k stop (E p own (ptxs done), brs) mid = inl (E p own (ptxs (done ++ mid)), brs') /\
    brs_ok c brs'.
Proof.
  intros p own n c k stop mid. induction mid as [|b r IH]; intros done post brs Hwf Hc Hrange Hmc Hu Hok.
  - cbn. rewrite app_nil_r. exists brs. split; [reflexivity|assumption].
  - destruct (wf_linked _ Hwf) as [pv Hl].
    assert (Hb : In b c). { apply Hmc. left. reflexivity. }
    assert (Hc1 : n = (done ++ [b]) ++ (r ++ post)). { rewrite Hc. rewrite <- app_assoc. reflexivity. }
    assert (Hh : b_height b = Z.of_nat (length (done ++ [b])) - 1).
    { pose proof Hl as Hl'. rewrite Hc in Hl'. apply linked_height in Hl'. rewrite app_length. cbn. lia. }
    pose proof (wf_chain_txs _ Hwf) as Hwft.
    assert (Hwf1 : wf_txs (txs_of (ptxs done) ++ b_txs b)).
    { rewrite txs_of_ptxs. rewrite Hc1 in Hwft. rewrite chain_txs_app in Hwft.
      apply wf_txs_prefix in Hwft. rewrite chain_txs_app in Hwft. cbn in Hwft. rewrite app_nil_r in Hwft. exact Hwft. }
    assert (Hsub : incl (chain_txs (done ++ [b])) (chain_txs n)).
    { intros y Hy. rewrite Hc1. rewrite (chain_txs_app (done ++ [b])). apply in_or_app. left. assumption. }
    assert (Hl1 : incl (txs_of (ptxs done) ++ b_txs b) (chain_txs (done ++ [b]))).
    { rewrite txs_of_ptxs. rewrite chain_txs_app. cbn. rewrite app_nil_r. apply incl_refl. }
    assert (Hlook : forall id, node_tx_upto n (b_height b) id = find_tx (chain_txs (done ++ [b])) id).
    { intros id. rewrite Hc1 at 1. rewrite Hc1 in Hl. apply (node_tx_upto_prefix _ _ pv); assumption. }
    cbn [import_blocks].
    assert (Hin : (k <? b_height b) && (b_height b <=? stop) = true).
    { destruct (Hrange b (or_introl eq_refl)) as [H1 H2]. apply andb_true_iff. split; [apply Z.ltb_lt|apply Z.leb_le]; assumption. }
    rewrite Hin.
    destruct (import_txs_block p own n c b (chain_txs n) (chain_txs (done ++ [b])) (b_txs b) (ptxs done) brs
                Hwf1 (wt_ids _ Hwft) Hl1 Hsub Hlook Hok Hu Hb) as [brs1 [Hstep Hok1]].
    rewrite Hstep.
    assert (Hp : ptxs done ++ map (fun t => (t, b_height b, b_id b)) (b_txs b) = ptxs (done ++ [b])).
    { rewrite ptxs_app. cbn. rewrite app_nil_r. reflexivity. }
    rewrite Hp.
    destruct (IH (done ++ [b]) post brs1 Hwf) as [brs' [Hr Hok']]; auto.
    + intros x Hx. apply Hrange. right. assumption.
    + intros x Hx. apply Hmc. right. assumption.
    + exists brs'. split; [|assumption]. rewrite Hr. rewrite <- app_assoc. reflexivity.
Qed.

Lemma import_blocks_exact2 : forall p own n c k stop brs,
  wf_chain n -> 0 <= k <= stop -> stop <= chain_height n ->
  incl (upto stop n) c -> uniq_heights c -> brs_ok c brs ->
  exists brs',
    import_blocks p own n k stop (E p own (ptxs (upto k n)), brs) n
      = inl (E p own (ptxs (upto stop n)), brs') /\ brs_ok c brs'.
Proof.
  intros p own n c k stop brs Hwf Hk Hsn Hinc Hu Hbr.
  destruct (wf_linked _ Hwf) as [pv Hl].
  set (a := (Z.to_nat k + 1)%nat). set (b := (Z.to_nat stop + 1)%nat).
  assert (Hab : (a <= b)%nat) by (unfold a, b; lia).
  assert (Hlen : Z.of_nat (length n) = chain_height n + 1) by (unfold chain_height; lia).
  assert (Hbl : (b <= length n)%nat) by (unfold b; lia).
  pose proof (chain_split3 n a b Hab) as Hsplit.
  set (pre := firstn a n) in *. set (mid := firstn (b - a) (skipn a n)) in *. set (post := skipn b n) in *.
  assert (Hprelen : length pre = a). { unfold pre. apply firstn_length_le. lia. }
  assert (Hpm : pre ++ mid = firstn b n). { unfold pre, mid. apply firstn_firstn_skipn. assumption. }
  assert (Hpmlen : length (pre ++ mid) = b). { rewrite Hpm. apply firstn_length_le. assumption. }
  assert (Hpre_h : forall x, In x pre -> b_height x <= k).
  { intros x Hx. rewrite Hsplit in Hl. destruct (linked_heights_split _ _ _ Hl) as [H1 _].
    specialize (H1 x Hx). rewrite Hprelen in H1. unfold a in H1. lia. }
  assert (Hmid_h : forall x, In x mid -> k < b_height x <= stop).
  { intros x Hx. split.
    - rewrite Hsplit in Hl. destruct (linked_heights_split _ _ _ Hl) as [_ H2].
      specialize (H2 x (in_or_app _ _ _ (or_introl Hx))). rewrite Hprelen in H2. unfold a in H2. lia.
    - rewrite Hsplit in Hl. rewrite app_assoc in Hl. destruct (linked_heights_split _ _ _ Hl) as [H1 _].
      specialize (H1 x (in_or_app _ _ _ (or_intror Hx))). rewrite Hpmlen in H1. unfold b in H1. lia. }
  assert (Hpost_h : forall x, In x post -> stop < b_height x).
  { intros x Hx. rewrite Hsplit in Hl. rewrite app_assoc in Hl. destruct (linked_heights_split _ _ _ Hl) as [_ H2].
    specialize (H2 x Hx). rewrite Hpmlen in H2. unfold b in H2. lia. }
  assert (Hmc : incl mid c).
  { intros x Hx. apply Hinc. unfold upto. fold b. rewrite <- Hpm. apply in_or_app. right. assumption. }
  destruct (import_blocks_mid2 p own n c k stop mid pre post brs Hwf Hsplit Hmid_h Hmc Hu Hbr) as [brs' [Hmid Hok']].
  exists brs'. split; [|assumption].
  rewrite Hsplit at 3. rewrite import_blocks_app.
  rewrite (import_blocks_skip p own n k stop pre) by (intros x Hx; left; apply Hpre_h; assumption).
  rewrite import_blocks_app. unfold upto. fold a. fold pre. rewrite Hmid.
  fold b. rewrite <- Hpm.
  apply import_blocks_skip. intros x Hx. right. apply Hpost_h. assumption.
Qed.

(* ================================================================ Part D: the invariant with other wallets *)

Lemma E_credit_tx_in : forall p own l cr, In cr (E p own l) -> In (c_tx cr) (map t_id (txs_of l)).
Proof.
  intros p own l cr H. unfold E, mkE in H. apply in_map_iff in H. destruct H as [k [Hk Hin]]. subst cr.
  cbn [mk_credit c_tx]. apply (coins_l_tx_in own l k Hin).
Qed.

Lemma filter_outs_index_nodup : forall own outs i, NoDup (map ro_index (filter_outs own outs i)).
Proof.
  intros own outs. induction outs as [|o rest IH]; intros i; [constructor|].
  rewrite filter_outs_cons. destruct (out_owner own o) as [v|]; [|apply IH].
  cbn [map ro_index]. constructor; [|apply IH].
  intros Hin. apply in_map_iff in Hin. destruct Hin as [ro [Heq Hro]].
  apply filter_outs_in in Hro. destruct Hro as [j [Hj _]]. lia.
Qed.

Lemma new_block_txs_fresh : forall c b t, wf_txs (chain_txs (c ++ [b])) -> In t (b_txs b) ->
  ~ In (t_id t) (map t_id (chain_txs c)).
Proof.
  intros c b t Hwf Ht Hin. pose proof (wt_ids _ Hwf) as Hnd.
  rewrite chain_txs_app, map_app in Hnd. apply NoDup_app_inv in Hnd. destruct Hnd as [_ [_ Hd]].
  apply (Hd _ Hin). cbn. rewrite app_nil_r. apply in_map. assumption.
Qed.

(* filterBlock + AddRelevantTx computed: the block is connected *)
Lemma xconnect_block_eq : forall p n st b recs cs',
  node_at n (b_height b) = Some b ->
  filter_block_txs (ready_own st) (credits (x_w st)) (node_tx n) [] (b_txs b) = Ok recs ->
  apply_recs p (credits (x_w st)) (b_height b) (b_id b) recs = Ok cs' ->
  covered (x_brecs st) (credits (x_w st)) ->
  let st' := with_brecs (with_w st {| credits := cs'; synced := (b_height b, b_id b) :: synced (x_w st) |})
                        (add_ids (x_brecs st) (b_height b) (b_id b) (rec_ids recs)) in
  xconnect_block p n st b = XOk st' /\ covered (x_brecs st') cs'.
Proof.
  intros p n st b recs cs' Hat Hf Ha Hcov st'. split.
  - unfold xconnect_block. rewrite Hat, N.eqb_refl. cbn [negb]. rewrite Hf.
    unfold connect_block. rewrite Hf, Ha. reflexivity.
  - unfold st'. cbn [with_brecs x_brecs].
    set (brs' := add_ids (x_brecs st) (b_height b) (b_id b) (rec_ids recs)).
    intros x Hx. refine (apply_recs_cov (lst brs') p _ _ recs _ _ _ _ Ha x Hx).
    + intros c0 Hc0. destruct (Hcov c0 Hc0) as [H1 H2]. split.
      * apply lst_add_ids_mono. assumption.
      * intros t i sh Hs. apply lst_add_ids_mono. apply (H2 t i sh Hs).
    + intros r0 Hr0. apply lst_add_ids_new. unfold rec_ids. apply in_map_iff. exists r0. split; [reflexivity|assumption].
Qed.

Section Multi.
Variable p : params.
Variable g : block.
Variable U : list block.
Hypothesis U_ids : forall b1 b2, In b1 U -> In b2 U -> b_id b1 = b_id b2 -> b1 = b2.
Variable w : N.
Variable keysA : list (N * N).       (* the whole keystore table: the other wallets' keys and w's *)

Definition isw : N -> bool := fun v => (v =? w)%N.
Definition notw : N -> bool := notk isw.
Definition ownA : owner_fn := lookupN keysA.                 (* every keystore *)
Definition ownW : owner_fn := kown w keysA.                   (* = [own_w st w]: the addresses of w *)
Definition own0 : owner_fn := own_sel notw ownA.             (* the addresses of everybody else *)

Lemma ownA_isw : forall sh, own_sel isw ownA sh = ownW sh.
Proof.
  intros sh. unfold own_sel, ownA, ownW, kown, isw. destruct (lookupN keysA sh) as [v|]; [|reflexivity].
  destruct (v =? w)%N eqn:E; [|reflexivity]. apply N.eqb_eq in E. subst. reflexivity.
Qed.

Lemma ownW_own0_disjoint : forall sh v, own0 sh = Some v -> ownW sh = None.
Proof.
  intros sh v H. unfold own0, own_sel, ownA, notw, notk, isw, ownW, kown in *.
  destruct (lookupN keysA sh) as [v'|]; [|reflexivity]. destruct (v' =? w)%N; [discriminate|reflexivity].
Qed.

(* [top]: how far w's history is in the store: the rescan cursor while importing, the handler's height once
   ready — or when w is not there at all (no keys, no status: the run WITHOUT the import, for the frame) *)
Definition top_is_m (c : list block) (st : xstate) (top : Z) : Prop :=
  status_of st w = Some (WImporting top) \/
  (top = chain_height c /\ (status_of st w = Some WReady \/ (status_of st w = None /\ forall sh, ownW sh = None))).

Record minv (c : list block) (st : xstate) : Prop := {
  mi_wf : wf_chain c;
  mi_g : from_g g c;
  mi_U : incl c U;
  mi_synced : synced (x_w st) = synced_of c;
  mi_keys : x_keys st = keysA;
  mi_dead : x_dead st = [];
  mi_cov : covered (x_brecs st) (credits (x_w st));
  mi_others : forall sh v, lookupN keysA sh = Some v -> v <> w -> status_of st v = Some WReady;
  mi_state : exists top, top_is_m c st top /\ 0 <= top <= chain_height c /\
     kept isw (credits (x_w st)) = E p ownW (ptxs (upto top c)) /\      (* w: up to the cursor *)
     kept notw (credits (x_w st)) = E p own0 (ptxs c) /\                (* the others: the whole chain *)
     brs_ok c (x_brecs st) /\ brs_le (chain_height c) (x_brecs st)
}.

Lemma ready_own_importing_m : forall st k, x_keys st = keysA ->
  (forall sh v, lookupN keysA sh = Some v -> v <> w -> status_of st v = Some WReady) ->
  status_of st w = Some (WImporting k) -> forall sh, ready_own st sh = own0 sh.
Proof.
  intros st k Hk Hoth Hs sh. unfold ready_own, key_owner, own0, own_sel, ownA, notw, notk, isw. rewrite Hk.
  destruct (lookupN keysA sh) as [v|] eqn:Hl; [|reflexivity].
  destruct (v =? w)%N eqn:E.
  - apply N.eqb_eq in E. subst v. unfold is_ready. rewrite Hs. reflexivity.
  - apply N.eqb_neq in E. unfold is_ready. rewrite (Hoth sh v Hl E). reflexivity.
Qed.

Lemma ready_own_ready_m : forall st, x_keys st = keysA ->
  (forall sh v, lookupN keysA sh = Some v -> v <> w -> status_of st v = Some WReady) ->
  (status_of st w = Some WReady \/ (status_of st w = None /\ forall sh, ownW sh = None)) ->
  forall sh, ready_own st sh = ownA sh.
Proof.
  intros st Hk Hoth Hs sh. unfold ready_own, key_owner, ownA. rewrite Hk.
  destruct (lookupN keysA sh) as [v|] eqn:Hl; [|reflexivity].
  destruct (v =? w)%N eqn:E.
  - apply N.eqb_eq in E. subst v. destruct Hs as [Hs|[_ Hn]].
    + unfold is_ready. rewrite Hs. reflexivity.
    + specialize (Hn sh). unfold ownW, kown in Hn. rewrite Hl, N.eqb_refl in Hn. discriminate.
  - apply N.eqb_neq in E. unfold is_ready. rewrite (Hoth sh v Hl E). reflexivity.
Qed.

Lemma own_w_ownW : forall st, x_keys st = keysA -> own_w st w = ownW.
Proof. intros st H. apply own_w_kown. assumption. Qed.

Lemma agree_U_m : forall c n, incl c U -> incl n U -> ids_agree c n.
Proof. intros c n Hc Hn b1 b2 H1 H2 Hid. apply U_ids; [apply Hc|apply Hn|]; assumption. Qed.

Lemma minv_in_step : forall c n st, ninv g U n -> minv c st ->
  snd (tip (x_w st)) = b_id (last n g) -> c = n.
Proof.
  intros c n st [Hwfn [Hgn HnU]] Hinv Htip. destruct Hinv as [Hwfc Hgc HcU Hsy _ _ _ _ _].
  destruct (wf_linked _ Hwfn) as [pvn Hln]. destruct (wf_linked _ Hwfc) as [pvc Hlc].
  destruct (exists_last (wf_nonempty _ Hwfc)) as [cpre [z Hc]].
  pose proof (wf_nonempty _ Hwfn) as Hnne.
  pose proof (app_removelast_last g Hnne) as Hn.
  rewrite (xw_eta st), Hsy, Hc, tip_synced_of in Htip. cbn [snd] in Htip.
  assert (Hz : z = last n g).
  { apply U_ids; [| |assumption].
    - apply HcU. rewrite Hc. apply in_or_app. right. left. reflexivity.
    - apply HnU. rewrite Hn at 2. apply in_or_app. right. left. reflexivity. }
  assert (Hpre : cpre = removelast n).
  { apply (common_prefix c n pvc pvn 0 Hlc Hln (agree_U_m _ _ HcU HnU) cpre z [] (removelast n) []).
    - assumption.
    - rewrite Hz. assumption. }
  rewrite Hc, Hn, Hpre, Hz. reflexivity.
Qed.

(* every credit of the store was created by a transaction of the handler's chain *)
Lemma minv_store_txs : forall c top cs,
  0 <= top ->
  kept isw cs = E p ownW (ptxs (upto top c)) -> kept notw cs = E p own0 (ptxs c) ->
  forall cr, In cr cs -> In (c_tx cr) (map t_id (chain_txs c)).
Proof.
  intros c top cs Htop Hw Ho cr Hcr. destruct (kept_or_junk isw cs cr Hcr) as [H|H].
  - rewrite Hw in H. apply E_credit_tx_in in H. rewrite txs_of_ptxs in H.
    apply in_map_iff in H. destruct H as [t [Hid Ht]]. apply in_map_iff. exists t. split; [assumption|].
    unfold chain_txs in *. apply in_flat_map in Ht. destruct Ht as [b [Hb Ht]]. apply in_flat_map. exists b.
    split; [apply (upto_incl top c); assumption|assumption].
  - rewrite <- kept_notk in H. fold notw in H. rewrite Ho in H. apply E_credit_tx_in in H. rewrite txs_of_ptxs in H. assumption.
Qed.

(* ---------------------------------------------------------------- Rollback on the handler's own chain *)

Lemma mrollback_own : forall c st c1 y c2,
  minv c st -> c = c1 ++ y :: c2 ->
  exists st1, xrollback repaired st (b_height y + 1) = XOk st1 /\ minv (c1 ++ [y]) st1.
Proof.
  intros c st c1 y c2 [Hwf Hg HU Hsy Hkeys Hdead Hcov Hoth [top [Htop [Hrange [Hcw [Hco [Hbok Hble]]]]]]] Hc.
  destruct (wf_linked _ Hwf) as [pv Hl].
  set (hy := b_height y). set (c' := c1 ++ [y]).
  assert (Hc' : c = c' ++ c2) by (unfold c'; rewrite Hc, <- app_assoc; reflexivity).
  assert (Hy : hy = Z.of_nat (length c1)). { unfold hy. rewrite Hc in Hl. rewrite (linked_height _ _ _ _ _ Hl). lia. }
  assert (Hlen' : length c' = (Z.to_nat hy + 1)%nat). { unfold c'. rewrite app_length. cbn [length]. lia. }
  assert (Hch' : chain_height c' = hy). { unfold chain_height. lia. }
  assert (Hhyc : 0 <= hy <= chain_height c). { unfold chain_height. rewrite Hc, app_length. cbn [length]. lia. }
  assert (Hup : forall m, m <= hy -> upto m c = upto m c').
  { intros m Hm. rewrite Hc'. apply upto_app_l. lia. }
  assert (Hupy : upto hy c = c'). { rewrite Hc'. apply upto_exact. lia. }
  assert (Hwf' : wf_chain c'). { rewrite Hc' in Hwf. apply (wf_chain_prefix _ _ Hwf). unfold c'. destruct c1; discriminate. }
  assert (Hin' : forall b, In b c -> b_height b <= hy -> In b c').
  { intros b Hb Hh. apply (in_prefix_by_height c c1 y c2 pv b Hl Hc Hb Hh). }
  destruct (xrollback_fields st (b_height y + 1) Hcov) as [st1 [Hrb1 [Fcr [Fsy [Fk [Fd Fb]]]]]].
  exists st1. split; [assumption|].
  constructor; rewrite ?Fcr, ?Fsy, ?Fk, ?Fd, ?Fb; try assumption.
  - destruct Hg as [r Hr]. rewrite Hc in Hr. unfold c'. destruct c1 as [|z c1'].
    + cbn [app] in Hr. inversion Hr. exists []. reflexivity.
    + cbn [app] in Hr. inversion Hr. exists (c1' ++ [y]). reflexivity.
  - intros z Hz. apply HU. rewrite Hc'. apply in_or_app. left. assumption.
  - pose proof (f_equal synced (rollback_at p ownW c c1 y c2 pv Hl Hc)) as Hs.
    cbn [rollback_to synced L] in Hs. rewrite Hsy. exact Hs.
  - apply covered_rollback. assumption.
  - intros sh v Hl0 Hne. destruct (rollback_keeps_other_status repaired st (b_height y + 1) _ v Hrb1) as [Hr _].
    apply Hr. apply (Hoth sh v Hl0 Hne).
  - exists (Z.min top hy). split; [|split; [lia|]].
    + destruct Htop as [Hs|[Ht Hs]].
      * left. unfold hy. rewrite (rollback_pulls_cursor_back repaired st (b_height y + 1) _ w top Hrb1 Hs).
        do 2 f_equal. lia.
      * right. split; [lia|].
        destruct (rollback_keeps_other_status repaired st (b_height y + 1) _ w Hrb1) as [Hr [_ Hn]].
        destruct Hs as [Hs|[Hs Hnk]]; [left; apply Hr; assumption|right; split; [apply Hn; assumption|assumption]].
    + split; [|split; [|split]].
      * rewrite kept_rollback, Hcw. fold hy. rewrite (rollback_E_upto p ownW c top hy Hwf) by lia.
        rewrite Hup by lia. reflexivity.
      * rewrite kept_rollback, Hco. fold hy. rewrite <- (upto_all c) at 1.
        rewrite (rollback_E_upto p own0 c (chain_height c) hy Hwf) by lia.
        rewrite Z.min_r by lia. rewrite Hupy. reflexivity.
      * intros br Hbr. apply filter_In in Hbr. destruct Hbr as [Hbr Hh]. apply Z.ltb_lt in Hh. fold hy in Hh.
        destruct (Hbok br Hbr) as [b [Hb [Hbh Hbid]]]. exists b. split; [|split; assumption].
        apply Hin'; [assumption|lia].
      * intros br Hbr. apply filter_In in Hbr. destruct Hbr as [Hbr Hh]. apply Z.ltb_lt in Hh. fold hy in Hh. lia.
Qed.

(* ---------------------------------------------------------------- connecting the node's next block *)

Lemma mconnect_block_inv : forall c n st b r,
  ninv g U n -> minv c st -> n = c ++ b :: r ->
  exists st', xconnect_block p n st b = XOk st' /\ minv (c ++ [b]) st'.
Proof.
  intros c n st b r [Hwfn [Hgn HnU]] Hinv Hn.
  destruct Hinv as [Hwf Hg HU Hsy Hkeys Hdead Hcov Hoth [top [Htop [Hrange [Hcw [Hco [Hbok Hble]]]]]]].
  pose proof (wf_nonempty _ Hwf) as Hne.
  destruct (chain_prefix_facts n c b r Hwfn Hn Hne) as [Hwfp [Hwft Hlook]].
  destruct (wf_linked _ Hwfn) as [pvn Hln].
  assert (Hhb : b_height b = chain_height c + 1).
  { rewrite Hn in Hln. rewrite (linked_height _ _ _ _ _ Hln). unfold chain_height. lia. }
  assert (Hg' : from_g g (c ++ [b])). { destruct Hg as [c0 Hc0]. rewrite Hc0. exists (c0 ++ [b]). reflexivity. }
  assert (HU' : incl (c ++ [b]) U).
  { intros z Hz. apply HnU. rewrite Hn. apply in_app_or in Hz. apply in_or_app. destruct Hz as [Hz|[Hz|[]]]; [left; assumption|].
    right. left. assumption. }
  assert (Hlen : (Z.to_nat top + 1 <= length c)%nat) by (unfold chain_height in Hrange; lia).
  assert (Hat : node_at n (b_height b) = Some b) by (apply (node_at_on_chain n c b r Hwfn Hn)).
  set (cs := credits (x_w st)) in *.
  assert (Hstx : forall cr, In cr cs -> In (c_tx cr) (map t_id (chain_txs c))).
  { apply (minv_store_txs c top cs); [lia|assumption|assumption]. }
  assert (Hfresh : forall t, In t (b_txs b) -> ~ In (t_id t) (map c_tx cs)).
  { intros t Ht Hin. apply in_map_iff in Hin. destruct Hin as [cr [Heq Hcr]].
    apply (new_block_txs_fresh c b t Hwft Ht). rewrite <- Heq. apply Hstx. assumption. }
  (* what is left once the credits and the records are computed *)
  assert (Hfinish : forall recs cs' top',
            filter_block_txs (ready_own st) cs (node_tx n) [] (b_txs b) = Ok recs ->
            apply_recs p cs (b_height b) (b_id b) recs = Ok cs' ->
            top_is_m (c ++ [b]) st top' -> 0 <= top' <= chain_height (c ++ [b]) ->
            kept isw cs' = E p ownW (ptxs (upto top' (c ++ [b]))) ->
            kept notw cs' = E p own0 (ptxs (c ++ [b])) ->
            exists st', xconnect_block p n st b = XOk st' /\ minv (c ++ [b]) st').
  { intros recs cs' top' Hf Ha Htop' Hr' Hw' Ho'.
    destruct (xconnect_block_eq p n st b recs cs' Hat Hf Ha Hcov) as [Hx Hcov'].
    eexists. split; [exact Hx|].
    constructor; cbn [with_brecs with_w x_w x_brecs x_keys x_status x_dead credits synced]; try assumption.
    - rewrite synced_of_snoc, Hsy. reflexivity.
    - exists top'. split; [exact Htop'|]. split; [assumption|]. split; [assumption|split; [assumption|split]].
      + apply add_ids_ok; [|apply in_or_app; right; left; reflexivity].
        apply (brs_ok_mono c); [apply incl_appl; apply incl_refl|assumption].
      + rewrite chain_height_app1. apply add_ids_le; [|lia]. intros br Hbr. specialize (Hble br Hbr). lia. }
  destruct Htop as [Hs|[Ht Hs]].
  - (* w importing: the block is filtered for the others; w's partial history is junk to it *)
    pose proof (ready_own_importing_m st top Hkeys Hoth Hs) as Hown.
    destruct (connect_kept p (ready_own st) notw cs (node_tx n) c b) as [Hf [cs' [Ha [Hk' Hj']]]]; try assumption.
    + intros sh v Hv. rewrite Hown in Hv. unfold own0, own_sel in Hv. destruct (ownA sh) as [v'|]; [|discriminate].
      destruct (notw v') eqn:E; inversion Hv. subst. assumption.
    + rewrite Hco. apply E_ext_all. intros sh. symmetry. apply Hown.
    + intros t ro Ht Hro. apply exists_credit_at_fresh. intros Hin. apply (Hfresh t Ht).
      apply in_map_iff in Hin. destruct Hin as [cr [Heq Hcr]]. apply in_map_iff. exists cr. split; [assumption|].
      unfold junk in Hcr. apply filter_In in Hcr. tauto.
    + apply (Hfinish _ cs' top Hf Ha).
      * left. assumption.
      * rewrite chain_height_app1. lia.
      * unfold notw in Hj'. rewrite !junk_notk in Hj'. rewrite Hj', Hcw. rewrite upto_app_l by assumption. reflexivity.
      * rewrite Hk'. apply E_ext_all. assumption.
  - (* everybody ready: the records are mixed; each projection gets its share *)
    pose proof (ready_own_ready_m st Hkeys Hoth Hs) as Hown.
    set (ownR := ready_own st) in *.
    assert (HselW : forall sh, own_sel isw ownR sh = ownW sh).
    { intros sh. rewrite <- ownA_isw. apply own_sel_ext. assumption. }
    assert (HselO : forall sh, own_sel notw ownR sh = own0 sh).
    { intros sh. unfold own0. apply own_sel_ext. assumption. }
    set (all := chain_txs (c ++ [b])) in *.
    assert (Hct : all = txs_of (ptxs c) ++ [] ++ b_txs b).
    { unfold all. rewrite chain_txs_app, txs_of_ptxs. cbn. rewrite app_nil_r. reflexivity. }
    assert (Hcw' : kept isw cs = E p (own_sel isw ownR) (ptxs c)).
    { rewrite Hcw, Ht, upto_all. apply E_ext_all. intros sh. symmetry. apply HselW. }
    assert (Hco' : kept notw cs = E p (own_sel notw ownR) (ptxs c)).
    { rewrite Hco. apply E_ext_all. intros sh. symmetry. apply HselO. }
    set (R := map (rec_of ownR all) (b_txs b)).
    assert (Hf : filter_block_txs ownR cs (node_tx n) [] (b_txs b) = Ok (filter rec_keep R)).
    { apply (filter_block_txs_view p ownR (node_tx n) (ptxs c) all (b_txs b) [] cs Hct Hwft).
      - rewrite txs_of_ptxs. assumption.
      - intros h Hex. unfold exist_credit_from_tx in *. apply existsb_exists in Hex. destruct Hex as [cr [Hcr Hh]].
        apply existsb_exists. exists cr. split; [|assumption].
        destruct (kept_or_junk isw _ cr Hcr) as [H|H].
        + rewrite E_sel, <- Hcw' in H. apply kept_in in H. tauto.
        + rewrite <- kept_notk in H. fold notw in H. rewrite E_sel, <- Hco' in H. apply kept_in in H. tauto. }
    assert (HwfR : wf_txs (txs_of (ptxs c) ++ b_txs b)) by (rewrite Hct in Hwft; exact Hwft).
    assert (HinclR : incl (txs_of (ptxs c) ++ b_txs b) all) by (rewrite Hct; apply incl_refl).
    assert (Hnew : ptxs c ++ map (fun t => (t, b_height b, b_id b)) (b_txs b) = ptxs (c ++ [b])).
    { rewrite ptxs_app. cbn [ptxs flat_map]. rewrite app_nil_r. reflexivity. }
    destruct (apply_recs_split isw p (b_height b) (b_id b) R cs
                (E p (own_sel isw ownR) (ptxs (c ++ [b]))) (E p (own_sel notw ownR) (ptxs (c ++ [b])))) as [cs' [Ha [Hk' Hj']]].
    + unfold R. rewrite map_map. cbn [rec_of rr_tx].
      pose proof (wt_ids _ Hwft) as Hnd. unfold all in Hnd. rewrite chain_txs_app, map_app in Hnd.
      apply NoDup_app_inv in Hnd. destruct Hnd as [_ [Hnd _]]. cbn in Hnd. rewrite app_nil_r in Hnd. exact Hnd.
    + intros r0 Hr0. unfold R in Hr0. apply in_map_iff in Hr0. destruct Hr0 as [t [Heq Ht0]]. subst r0.
      cbn [rec_of rr_tx]. apply Hfresh. assumption.
    + intros r0 Hr0. unfold R in Hr0. apply in_map_iff in Hr0. destruct Hr0 as [t [Heq Ht0]]. subst r0.
      cbn [rec_of rr_outs]. apply filter_outs_index_nodup.
    + unfold R. rewrite map_map. rewrite (map_ext _ (rec_of (own_sel isw ownR) all)) by (intros t; symmetry; apply rec_of_sel).
      rewrite Hcw'. rewrite (apply_recs_spec p (own_sel isw ownR) (b_height b) (b_id b) all (b_txs b) (ptxs c) HwfR (wt_ids _ Hwft) HinclR).
      rewrite Hnew. reflexivity.
    + unfold R. rewrite map_map. rewrite (map_ext _ (rec_of (own_sel notw ownR) all)) by (intros t; symmetry; apply (rec_of_sel notw)).
      change (junk isw cs) with (kept notw cs).
      rewrite Hco'. rewrite (apply_recs_spec p (own_sel notw ownR) (b_height b) (b_id b) all (b_txs b) (ptxs c) HwfR (wt_ids _ Hwft) HinclR).
      rewrite Hnew. reflexivity.
    + rewrite <- apply_recs_filter in Ha.
      apply (Hfinish _ cs' (chain_height (c ++ [b])) Hf Ha).
      * right. split; [reflexivity|assumption].
      * rewrite chain_height_app1. lia.
      * rewrite Hk', upto_all. apply E_ext_all. assumption.
      * change (kept notw cs') with (junk isw cs'). rewrite Hj'. apply E_ext_all. assumption.
Qed.

Lemma mconnect_all_inv : forall bs c n st r,
  ninv g U n -> minv c st -> n = c ++ bs ++ r ->
  exists st', xconnect_all p n st bs = XOk st' /\ minv (c ++ bs) st'.
Proof.
  induction bs as [|b bs IH]; intros c n st r Hn Hinv Heq.
  - exists st. split; [reflexivity|]. rewrite app_nil_r. assumption.
  - cbn [xconnect_all].
    destruct (mconnect_block_inv c n st b (bs ++ r) Hn Hinv Heq) as [st1 [Hx Hinv1]].
    rewrite Hx.
    destruct (IH (c ++ [b]) n st1 r Hn Hinv1) as [st' [Hx' Hinv']].
    { rewrite Heq, <- app_assoc. reflexivity. }
    exists st'. split; [assumption|]. rewrite <- app_assoc in Hinv'. exact Hinv'.
Qed.

(* ---------------------------------------------------------------- announcing a block *)

Lemma mprocess_on_node : forall c n st b n1 n2,
  ninv g U n -> minv c st -> n = n1 ++ b :: n2 -> n1 <> [] ->
  exists st', xprocess repaired p n st b = XOk st' /\ minv (n1 ++ [b]) st'.
Proof.
  intros c n st b n1 n2 Hninv Hinv Hn Hne. pose proof Hninv as [Hwfn [Hgn HnU]].
  pose proof Hinv as [Hwfc Hgc HcU Hsy _ _ _ _ _].
  destruct (wf_linked _ Hwfn) as [pvn Hln]. destruct (wf_linked _ Hwfc) as [pvc Hlc].
  pose proof (agree_U_m _ _ HcU HnU) as Hids.
  unfold xprocess. destruct (snd (tip (x_w st)) =? b_prev b)%N eqn:Htip.
  - destruct (exists_last (wf_nonempty _ Hwfc)) as [cpre [y Hc]].
    destruct (exists_last Hne) as [n1' [x' Hn1]].
    rewrite (xw_eta st), Hsy, Hc, tip_synced_of in Htip. cbn [snd] in Htip. apply N.eqb_eq in Htip.
    assert (Hn' : n = n1' ++ x' :: b :: n2). { rewrite Hn, Hn1, <- app_assoc. reflexivity. }
    assert (Hyx : y = x').
    { apply Hids.
      - rewrite Hc. apply in_or_app. right. left. reflexivity.
      - rewrite Hn'. apply in_or_app. right. left. reflexivity.
      - rewrite Htip. rewrite Hn' in Hln. apply (linked_prev _ _ _ _ _ _ Hln). }
    subst x'.
    assert (Hpre : cpre = n1').
    { apply (common_prefix c n pvc pvn 0 Hlc Hln Hids cpre y [] n1' (b :: n2)); assumption. }
    assert (Hcn : c = n1). { rewrite Hc, Hn1, Hpre. reflexivity. }
    cbn [xconnect_all]. rewrite <- Hcn in *.
    destruct (mconnect_block_inv c n st b n2 Hninv Hinv Hn) as [st' [Hx Hinv']].
    rewrite Hx. exists st'. split; [reflexivity|assumption].
  - assert (Hfuel : (length n1 < S (Z.to_nat (b_height b)))%nat).
    { rewrite Hn in Hln. rewrite (linked_height _ _ _ _ _ Hln). lia. }
    assert (Hgen : same_genesis c n). { apply (same_genesis_from_g g); assumption. }
    destruct (collect_spec p ownW c n pvc pvn Hlc Hln (wf_bids _ Hwfn) Hgen Hids
                _ n1 b [] n2 Hn Hfuel) as [m1 [y [m2 [Hsplit [Hy Hcol]]]]].
    rewrite (collect_synced_ext n (x_w st) (L p ownW c)) by (rewrite Hsy; reflexivity).
    rewrite Hcol.
    apply in_split in Hy. destruct Hy as [c1 [c2 Hc]].
    assert (Hn' : n = m1 ++ y :: m2 ++ n2).
    { rewrite Hn. change (b :: n2) with ([b] ++ n2). rewrite app_assoc, Hsplit, <- app_assoc. reflexivity. }
    assert (Hc1 : c1 = m1).
    { apply (common_prefix c n pvc pvn 0 Hlc Hln Hids c1 y c2 m1 (m2 ++ n2)); assumption. }
    subst c1.
    destruct (mrollback_own c st m1 y c2 Hinv Hc) as [st1 [Hrb Hinv1]].
    rewrite Hrb.
    destruct (mconnect_all_inv m2 (m1 ++ [y]) n st1 n2 Hninv Hinv1) as [st' [Hx Hinv']].
    { rewrite Hn', <- app_assoc. reflexivity. }
    exists st'. split; [assumption|].
    rewrite <- app_assoc in Hinv'. cbn [app] in Hinv'. rewrite <- Hsplit in Hinv'. exact Hinv'.
Qed.

(* what an announcement does depends on the handler's chain c, the node's chain n and the block only — not
   on which wallets the store holds.  [next_chain c n b c']: the handler follows c' afterwards. *)
Inductive announced (c n : list block) (b : block) : option (list block) -> Prop :=
| An_node : forall n1 n2, n = n1 ++ b :: n2 -> announced c n b (Some (n1 ++ [b]))
| An_old : forall c1 c2, ~ In b n -> c = c1 ++ b :: c2 -> announced c n b (Some (c1 ++ [b]))
| An_refused : ~ In b n -> announced c n b None.

Lemma mprocess_cases : forall c n st b,
  ninv g U n -> minv c st -> In b U -> b <> g ->
  (exists st' c', xprocess repaired p n st b = XOk st' /\ minv c' st' /\ announced c n b (Some c') /\ incl c' (c ++ n)) \/
  (xprocess repaired p n st b = XErr /\ ~ In b n /\
   forall st2, synced (x_w st2) = synced (x_w st) -> xprocess repaired p n st2 b <> XPanic ->
               (forall st2' , xprocess repaired p n st2 b = XOk st2' -> False)).
Proof.
  intros c n st b Hninv Hinv HbU Hbg. pose proof Hninv as [Hwfn [Hgn HnU]].
  pose proof Hinv as [Hwfc Hgc HcU Hsy _ _ Hcov _ _].
  assert (Hbyid : forall nb, In nb n -> b_id nb = b_id b -> In b n).
  { intros nb Hin Hid. rewrite <- (U_ids nb b (HnU _ Hin) HbU Hid). assumption. }
  destruct (in_dec block_eq_dec b n) as [Hbn|Hbn].
  - left. apply in_split in Hbn. destruct Hbn as [n1 [n2 Hn]].
    assert (Hne : n1 <> []).
    { intros Hnil. subst n1. destruct Hgn as [n' Hn']. rewrite Hn in Hn'. cbn [app] in Hn'. inversion Hn'. contradiction. }
    destruct (mprocess_on_node c n st b n1 n2 Hninv Hinv Hn Hne) as [st' [Hx Hinv']].
    exists st', (n1 ++ [b]). split; [assumption|split; [assumption|split; [apply (An_node c n b n1 n2 Hn)|]]].
    apply incl_appr. rewrite Hn. intros z Hz. apply in_app_or in Hz. apply in_or_app.
    destruct Hz as [Hz|[Hz|[]]]; [left; assumption|right; left; assumption].
  - (* not a block of the node: an old block of the handler's chain (rolled back to), or refused *)
    assert (Hfail : forall st2 st2', synced (x_w st2) = synced (x_w st) ->
               xprocess repaired p n st2 b = XOk st2' ->
               exists c1 c2, c = c1 ++ b :: c2 /\ collect n (x_w st) (S (Z.to_nat (b_height b))) b [] = Some (b_height b, []) /\
                             (snd (tip (x_w st)) =? b_prev b)%N = false).
    { intros st2 st2' Hsy2 H'. unfold xprocess in H'.
      assert (Htip2 : tip (x_w st2) = tip (x_w st)) by (unfold tip; rewrite Hsy2; reflexivity).
      rewrite Htip2 in H'.
      destruct (snd (tip (x_w st)) =? b_prev b)%N.
      - exfalso. destruct (xconnect_all_ok_in p _ _ _ _ H' b (or_introl eq_refl)) as [nb [Hin Hid]].
        apply Hbn. apply (Hbyid nb Hin Hid).
      - rewrite (collect_synced_ext n (x_w st2) (x_w st) _ b [] Hsy2) in H'.
        destruct (collect n (x_w st) (S (Z.to_nat (b_height b))) b []) as [[fork bs]|] eqn:Hcol; [|discriminate].
        destruct (xrollback repaired st2 (fork + 1)) as [st1| |] eqn:Hrb; try discriminate.
        destruct (collect_cases _ _ _ _ _ _ _ Hcol) as [[Hm [Hf Hbs]]|Hin].
        + subst fork bs.
          assert (Hbc : In b c).
          { apply (matched_in p ownW c [b] b).
            - apply agree_U_m; [assumption|]. intros z [Hz|[]]. subst z. assumption.
            - left. reflexivity.
            - rewrite <- Hm. apply matched_synced_ext. rewrite Hsy. reflexivity. }
          apply in_split in Hbc. destruct Hbc as [c1 [c2 Hc]]. exists c1, c2. repeat split; assumption.
        + exfalso. destruct (xconnect_all_ok_in p _ _ _ _ H' b Hin) as [nb [Hin' Hid]].
          apply Hbn. apply (Hbyid nb Hin' Hid). }
    destruct (xprocess repaired p n st b) as [st'| |] eqn:Hx.
    + left. destruct (Hfail st st' eq_refl Hx) as [c1 [c2 [Hc [Hcol Htip]]]].
      destruct (mrollback_own c st c1 b c2 Hinv Hc) as [st1 [Hrb Hinv1]].
      assert (Hst' : st' = st1).
      { unfold xprocess in Hx. rewrite Htip, Hcol, Hrb in Hx. cbn [xconnect_all] in Hx. inversion Hx. reflexivity. }
      subst st'. exists st1, (c1 ++ [b]). split; [reflexivity|split; [assumption|split; [apply (An_old c n b c1 c2 Hbn Hc)|]]].
      apply incl_appl. rewrite Hc. intros z Hz.
      apply in_app_or in Hz. apply in_or_app. destruct Hz as [Hz|[Hz|[]]]; [left; assumption|right; left; assumption].
    + right. split; [reflexivity|split; [assumption|]]. intros st2 Hsy2 _ st2' H2.
      destruct (Hfail st2 st2' Hsy2 H2) as [c1 [c2 [Hc [Hcol Htip]]]].
      destruct (mrollback_own c st c1 b c2 Hinv Hc) as [st1 [Hrb Hinv1]].
      unfold xprocess in Hx. rewrite Htip, Hcol, Hrb in Hx. cbn [xconnect_all] in Hx. discriminate.
    + exfalso. apply (xprocess_repaired_no_panic p _ _ _ Hx).
Qed.

Lemma mprocess_inv : forall c n st b st',
  ninv g U n -> minv c st -> In b U -> b <> g ->
  xprocess repaired p n st b = XOk st' ->
  exists c', minv c' st' /\ incl c' (c ++ n).
Proof.
  intros c n st b st' Hninv Hinv HbU Hbg H.
  destruct (mprocess_cases c n st b Hninv Hinv HbU Hbg) as [[st1 [c' [Hx [Hinv' [_ Hincl]]]]]|[Hx _]].
  - rewrite Hx in H. inversion H. subst. exists c'. split; assumption.
  - rewrite Hx in H. discriminate.
Qed.

(* ---------------------------------------------------------------- a rescan batch, whatever the node's chain *)

(* one script hash, one wallet: no credit of another wallet sits at an output that pays w *)
Lemma others_never_at_w_outputs : forall c t ro h bid,
  NoDup (map t_id (chain_txs c)) -> In t (chain_txs c) -> In ro (filter_outs ownW (t_outs t) 0%N) ->
  exists_credit_at (E p own0 (ptxs c)) (t_id t, ro_index ro) h bid = false.
Proof.
  intros c t ro h bid Hnd Ht Hro. unfold exists_credit_at. apply not_true_is_false. intros Hex.
  apply existsb_exists in Hex. destruct Hex as [cr [Hcr Hb]].
  apply andb_true_iff in Hb. destruct Hb as [Hb _]. apply andb_true_iff in Hb. destruct Hb as [Hb _].
  apply op_eqb_eq in Hb. unfold credit_op in Hb. inversion Hb as [[Htx Hvout]]. clear Hb.
  unfold E, mkE in Hcr. apply in_map_iff in Hcr. destruct Hcr as [k [Hk Hin]]. subst cr. cbn [mk_credit c_tx c_vout] in *.
  destruct (coins_l_in_full _ _ _ Hin) as [x [o [Hx [Hktx [_ [_ [Hnth [Hown [_ _]]]]]]]]].
  assert (Hxt : In (pt_tx x) (chain_txs c)). { rewrite <- txs_of_ptxs. unfold txs_of. apply in_map. assumption. }
  assert (Heq : pt_tx x = t). { apply (NoDup_map_inj_in _ _ t_id (chain_txs c)); try assumption. congruence. }
  subst t. apply filter_outs_in in Hro. destruct Hro as [j [Hj [Hnj Ho]]].
  rewrite Hvout, Hj, N.add_0_l, Nat2N.id in Hnth. rewrite Hnj in Hnth. inversion Hnth. subst o.
  apply out_owner_some in Ho. destruct Ho as [Ho _].
  rewrite (ownW_own0_disjoint _ _ Hown) in Ho. discriminate.
Qed.

Lemma node_on_synced_upto_m : forall c n st h, ninv g U n -> minv c st ->
  node_on_synced n (x_w st) h = true ->
  0 <= h <= chain_height c /\ h <= chain_height n /\ upto h c = upto h n.
Proof.
  intros c n st h [Hwfn [Hgn HnU]] [Hwf Hg HU Hsy _ _ _ _ _] Hchk.
  destruct (wf_linked _ Hwf) as [pvc Hlc]. destruct (wf_linked _ Hwfn) as [pvn Hln].
  pose proof (agree_U_m _ _ HU HnU) as Hids.
  apply node_on_synced_iff in Hchk. destruct Hchk as [nb [Hat Hm]].
  unfold node_at in Hat. apply find_some in Hat. destruct Hat as [Hnbn Hh]. apply Z.eqb_eq in Hh.
  assert (Hnbc : In nb c).
  { apply (matched_in p ownW c n nb Hids Hnbn). rewrite <- Hm. apply matched_synced_ext. rewrite Hsy. reflexivity. }
  apply in_split in Hnbc. destruct Hnbc as [c1 [c2 Hc]].
  apply in_split in Hnbn. destruct Hnbn as [n1 [n2 Hn]].
  assert (Hc1 : c1 = n1). { apply (common_prefix c n pvc pvn 0 Hlc Hln Hids c1 nb c2 n1 n2); assumption. }
  subst n1.
  assert (Hlen : h = Z.of_nat (length c1)). { rewrite Hc in Hlc. rewrite (linked_height _ _ _ _ _ Hlc) in Hh. lia. }
  assert (Hc' : c = (c1 ++ [nb]) ++ c2) by (rewrite Hc, <- app_assoc; reflexivity).
  assert (Hn' : n = (c1 ++ [nb]) ++ n2) by (rewrite Hn, <- app_assoc; reflexivity).
  assert (Hl1 : (Z.to_nat h + 1 = length (c1 ++ [nb]))%nat). { rewrite app_length. cbn [length]. lia. }
  split; [|split].
  - unfold chain_height. rewrite Hc, app_length. cbn [length]. lia.
  - unfold chain_height. rewrite Hn, app_length. cbn [length]. lia.
  - rewrite Hc' at 1. rewrite Hn' at 1. rewrite !upto_exact by assumption. reflexivity.
Qed.

Lemma ownW_isw : forall sh v, ownW sh = Some v -> isw v = true.
Proof.
  intros sh v H. unfold ownW, kown in H. destruct (lookupN keysA sh) as [v'|]; [|discriminate].
  destruct (v' =? w)%N; inversion H. subst v. unfold isw. apply N.eqb_refl.
Qed.

(* T: a batch — committed, retried or refused — keeps the invariant, whatever well-formed chain the node has:
   it adds w's credits and spent marks of the blocks it read to the store and leaves every other credit alone *)
Lemma mbatch_inv : forall B c n st, ninv g U n -> 0 < B -> minv c st ->
  minv c (fst (import_batch repaired p B n st w)).
Proof.
  intros B c n st Hninv HB Hinv. pose proof Hninv as [Hwfn [Hgn HnU]].
  pose proof Hinv as [Hwf Hg HU Hsy Hkeys Hdead Hcov Hoth [top [Htop [Hrange [Hcw [Hco [Hbok Hble]]]]]]].
  destruct (wf_linked _ Hwf) as [pvc Hlc]. destruct (wf_linked _ Hwfn) as [pvn Hln].
  unfold import_batch. destruct Htop as [Hs|[Ht [Hs|[Hs _]]]].
  2:{ rewrite Hs. exact Hinv. }
  2:{ rewrite Hs. exact Hinv. }
  rewrite Hs, Hdead. cbn [memN existsb].
  assert (Hbest : fst (tip (x_w st)) = chain_height c).
  { rewrite (xw_eta st), Hsy. apply tip_of_synced. assumption. }
  rewrite Hbest. rewrite (own_w_ownW st Hkeys).
  set (stop := Z.min (top + B) (chain_height c)).
  assert (Hstop : top <= stop <= chain_height c) by (unfold stop; lia).
  set (cs := credits (x_w st)) in *.
  destruct (import_blocks p ownW n top stop (cs, x_brecs st) n) as [[cs' brs']|e] eqn:Hb.
  2:{ destruct e; cbn; exact Hinv. }
  cbn [repaired f_import_tipcheck andb].
  destruct (node_on_synced n (x_w st) stop) eqn:Hchk; cbn [negb fst]; [|exact Hinv].
  destruct (node_on_synced_upto_m c n st stop Hninv Hinv Hchk) as [_ [Hsn Hups]].
  destruct (import_blocks_above _ _ _ _ _ _ _ _ _ _ Hb) as [G1 [G2 [G3 G4]]].
  assert (Hupt : upto top c = upto top n).
  { rewrite <- (upto_upto top stop c), <- (upto_upto top stop n) by lia. rewrite Hups. reflexivity. }
  destruct (import_blocks_exact2 p ownW n c top stop (x_brecs st) Hwfn ltac:(lia) Hsn) as [brs'' [Hex Hbok']].
  { rewrite <- Hups. apply upto_incl. }
  { apply (linked_uniq_heights _ _ Hlc). }
  { assumption. }
  rewrite <- Hupt, <- Hcw in Hex.
  destruct (import_blocks_proj isw p ownW ownW_isw n top stop n cs (x_brecs st) _ brs'' Hex) as [cs1 [Hb1 [Hk1 Hj1]]].
  { intros b0 t ro Hb0 Hrg Ht0 Hro. change (junk isw cs) with (kept notw cs). rewrite Hco.
    apply others_never_at_w_outputs; [apply (wf_txids _ Hwf)| |assumption].
    unfold chain_txs. apply in_flat_map. exists b0. split; [|assumption].
    apply (upto_incl stop c). rewrite Hups. apply (in_upto n pvn b0 stop Hln Hb0). lia. }
  rewrite Hb1 in Hb. inversion Hb. subst cs1 brs''. clear Hb.
  constructor; cbn [with_status with_brecs with_w x_w x_brecs x_keys x_dead x_status credits synced]; try assumption.
  - apply G2. assumption.
  - intros sh v Hl0 Hne. unfold status_of. cbn [with_status x_status]. rewrite lookupN_setN_other by assumption.
    apply (Hoth sh v Hl0 Hne).
  - exists stop. split; [|split; [lia|]].
    + unfold top_is_m, status_of. cbn [with_status x_status]. rewrite lookupN_setN_same.
      destruct (stop =? chain_height c) eqn:Es; [right; split; [apply Z.eqb_eq; assumption|left; reflexivity]|left; reflexivity].
    + split; [|split; [|split]].
      * rewrite Hk1, Hups. reflexivity.
      * change (kept notw cs') with (junk isw cs'). rewrite Hj1. exact Hco.
      * assumption.
      * apply G4; [assumption|lia].
Qed.

(* ---------------------------------------------------------------- what the invariant gives *)

Lemma kept_kept_sub : forall (f h : N -> bool) cs, (forall x, f x = true -> h x = true) -> kept f (kept h cs) = kept f cs.
Proof.
  intros f h cs H. unfold kept. induction cs as [|c r IH]; [reflexivity|].
  cbn [filter]. destruct (keepc h c) eqn:Eh; cbn [filter].
  - destruct (keepc f c); rewrite IH; reflexivity.
  - destruct (keepc f c) eqn:Ef; [|exact IH]. unfold keepc in *. rewrite (H _ Ef) in Eh. discriminate.
Qed.

Lemma proj_as_kept : forall v cs, proj v cs = kept (fun x => (x =? v)%N) cs.
Proof. reflexivity. Qed.

(* FRAME, at every point of every history (in step or not, w importing, ready or absent): every OTHER
   wallet's credits — spent marks included — are exactly those of the ledger a live follower of the
   handler's chain has, and so is its report: the rescan of w has not touched them *)
Lemma minv_frame : forall c st v, minv c st -> v <> w ->
  proj v (credits (x_w st)) = proj v (credits (L p ownA c)) /\
  xreport st v = spec_report p ownA c v.
Proof.
  intros c st v [Hwf _ _ Hsy _ _ _ _ [top [_ [_ [_ [Hco _]]]]]] Hv.
  assert (Hsub : forall x, (x =? v)%N = true -> notw x = true).
  { intros x Hx. apply N.eqb_eq in Hx. subst x. unfold notw, notk, isw. apply N.eqb_neq in Hv. rewrite Hv. reflexivity. }
  assert (Hp : proj v (credits (x_w st)) = proj v (credits (L p ownA c))).
  { rewrite !proj_as_kept. rewrite <- (kept_kept_sub _ notw _ Hsub). rewrite Hco. unfold own0. rewrite <- E_sel.
    rewrite (kept_kept_sub _ notw _ Hsub). reflexivity. }
  split; [assumption|]. unfold xreport. rewrite <- (report_L p ownA c v Hwf).
  apply report_depends_on_proj; [assumption|]. rewrite Hsy. reflexivity.
Qed.

(* IMPORT = LIVE for the whole database: the handler follows chain c and w is ready (or absent): every wallet's
   credits, in order, with their spent marks, are those of the ledger of ALL wallets' keys over c *)
Lemma minv_ready_all : forall c st, minv c st -> status_of st w <> None ->
  (forall k, status_of st w <> Some (WImporting k)) ->
  forall v, proj v (credits (x_w st)) = proj v (credits (L p ownA c)) /\
            xreport st v = spec_report p ownA c v.
Proof.
  intros c st Hinv Hnn Hni v. destruct (N.eq_dec v w) as [->|Hv]; [|apply minv_frame; assumption].
  destruct Hinv as [Hwf _ _ Hsy _ _ _ _ [top [Htop [_ [Hcw _]]]]].
  assert (Ht : top = chain_height c).
  { destruct Htop as [Hs|[Ht _]]; [exfalso; apply (Hni top); assumption|assumption]. }
  assert (Hp : proj w (credits (x_w st)) = proj w (credits (L p ownA c))).
  { rewrite !proj_as_kept. change (fun x => (x =? w)%N) with isw. rewrite Hcw, Ht, upto_all.
    cbn [L credits]. rewrite E_sel. apply E_ext_all. intros sh. symmetry. apply ownA_isw. }
  split; [assumption|]. unfold xreport. rewrite <- (report_L p ownA c w Hwf).
  apply report_depends_on_proj; [assumption|]. rewrite Hsy. reflexivity.
Qed.

Lemma minv_unready : forall c st, minv c st -> status_of st w <> Some WReady -> status_of st w <> None ->
  use_wallet st w = UUnready.
Proof.
  intros c st [_ _ _ _ _ _ _ _ [top [Htop _]]] Hs Hn. destruct Htop as [Hs'|[_ [Hs'|[Hs' _]]]]; try contradiction.
  unfold use_wallet. rewrite Hs'. reflexivity.
Qed.

Lemma minv_cursor_range : forall c st k, minv c st -> status_of st w = Some (WImporting k) -> 0 <= k <= chain_height c.
Proof.
  intros c st k [_ _ _ _ _ _ _ _ [top [Htop [Hr _]]]] Hs. destruct Htop as [Hs'|[_ [Hs'|[Hs' _]]]]; congruence.
Qed.

(* in step, a batch commits: the cursor advances by B or the wallet is handed over *)
Lemma mbatch_progress : forall B n st k, ninv g U n -> 0 < B -> minv n st -> status_of st w = Some (WImporting k) ->
  let stop := Z.min (k + B) (chain_height n) in
  status_of (fst (import_batch repaired p B n st w)) w = Some (if stop =? chain_height n then WReady else WImporting stop).
Proof.
  intros B n st k Hninv HB Hinv Hs stop. pose proof Hninv as [Hwfn [Hgn HnU]].
  pose proof Hinv as [Hwf Hg HU Hsy Hkeys Hdead Hcov Hoth [top [Htop [Hrange [Hcw [Hco [Hbok Hble]]]]]]].
  destruct (wf_linked _ Hwf) as [pvc Hlc].
  assert (Hk : top = k). { destruct Htop as [Hs'|[_ [Hs'|[Hs' _]]]]; congruence. }
  subst top.
  unfold import_batch. rewrite Hs, Hdead. cbn [memN existsb].
  assert (Hbest : fst (tip (x_w st)) = chain_height n).
  { rewrite (xw_eta st), Hsy. apply tip_of_synced. assumption. }
  rewrite Hbest. rewrite (own_w_ownW st Hkeys). fold stop.
  assert (Hstop : k <= stop <= chain_height n) by (unfold stop; lia).
  destruct (import_blocks_exact2 p ownW n n k stop (x_brecs st) Hwf ltac:(lia) ltac:(lia)) as [brs'' [Hex Hbok']].
  { apply upto_incl. }
  { apply (linked_uniq_heights _ _ Hlc). }
  { assumption. }
  rewrite <- Hcw in Hex.
  destruct (import_blocks_proj isw p ownW ownW_isw n k stop n (credits (x_w st)) (x_brecs st) _ brs'' Hex) as [cs1 [Hb1 _]].
  { intros b0 t ro Hb0 Hrg Ht0 Hro. change (junk isw (credits (x_w st))) with (kept notw (credits (x_w st))). rewrite Hco.
    apply others_never_at_w_outputs; [apply (wf_txids _ Hwf)| |assumption].
    unfold chain_txs. apply in_flat_map. exists b0. split; assumption. }
  rewrite Hb1. rewrite (node_on_synced_self n (x_w st) stop Hwf Hsy) by lia.
  cbn [repaired f_import_tipcheck andb negb fst]. unfold status_of. cbn [with_status x_status].
  apply lookupN_setN_same.
Qed.

Lemma mbatches_inv : forall B n m c st, ninv g U n -> 0 < B -> minv c st -> minv c (batches repaired p B n st w m).
Proof.
  intros B n m. induction m as [|m IH]; intros c st Hn HB Hinv; [assumption|].
  cbn [batches]. apply IH; try assumption. apply mbatch_inv; assumption.
Qed.

Lemma mbatches_live : forall B n m st k, ninv g U n -> 0 < B -> minv n st ->
  status_of st w = Some (WImporting k) -> chain_height n < k + Z.of_nat m * B ->
  status_of (batches repaired p B n st w m) w = Some WReady.
Proof.
  intros B n m. induction m as [|m IH]; intros st k Hn HB Hinv Hs Hm.
  - pose proof (minv_cursor_range n st k Hinv Hs). lia.
  - cbn [batches]. pose proof (mbatch_progress B n st k Hn HB Hinv Hs) as Hst. cbv zeta in Hst.
    pose proof (mbatch_inv B n n st Hn HB Hinv) as Hinv1.
    destruct (Z.min (k + B) (chain_height n) =? chain_height n) eqn:Es.
    + rewrite batches_ready; assumption.
    + apply Z.eqb_neq in Es. apply (IH _ (Z.min (k + B) (chain_height n)) Hn HB Hinv1 Hst). lia.
Qed.

End Multi.

(* ================================================================ Part E: the start, histories, theorems *)

Lemma E_none_fn : forall p own l, (forall sh, own sh = None) -> E p own l = [].
Proof.
  intros p own l H. unfold E. assert (Hc : coins_l own l = []).
  { induction l as [|x l IH]; [reflexivity|].
    change (coins_l own (x :: l)) with (coins_pt own x ++ coins_l own l). rewrite IH, app_nil_r.
    unfold coins_pt. generalize 0%N. induction (t_outs (pt_tx x)) as [|o r IHo]; intros i; [reflexivity|].
    rewrite coins_of_outs_cons. unfold out_owner. rewrite H. destruct (o_class o); apply IHo. }
  rewrite Hc. reflexivity.
Qed.

Lemma own_sel_keys_app : forall (f : N -> bool) w keys0 shs, f w = false ->
  forall sh, own_sel f (lookupN (keys0 ++ keys_of w shs)) sh = own_sel f (lookupN keys0) sh.
Proof.
  intros f w keys0 shs Hf sh. unfold own_sel. destruct (lookupN keys0 sh) as [v|] eqn:Hl.
  - rewrite (lookupN_app_some _ _ _ _ _ Hl). reflexivity.
  - rewrite (lookupN_app_none _ _ _ _ Hl). destruct (lookupN (keys_of w shs) sh) as [v|] eqn:Hk; [|reflexivity].
    rewrite (keys_of_w _ _ _ _ Hk). rewrite Hf. reflexivity.
Qed.

Lemma upto0_E : forall p own c, wf_chain c -> E p own (ptxs (upto 0 c)) = [].
Proof.
  intros p own c Hwf. destruct (wf_genesis _ Hwf) as [g0 [rest [Hc [Hh [Htx Hl]]]]].
  unfold upto. cbn. subst c. cbn. unfold ptxs. cbn. unfold ptxs_of_block. rewrite Htx. reflexivity.
Qed.

(* the state the theorems start from, described directly: some READY wallets (keys [keys0], none of them w)
   have followed chain c live from genesis: the store is their ledger of c, with the block records *)
Lemma minv_live_start : forall p g U w keys0 c st0,
  wf_chain c -> from_g g c -> incl c U ->
  x_w st0 = L p (lookupN keys0) c -> x_keys st0 = keys0 -> x_dead st0 = [] ->
  covered (x_brecs st0) (credits (x_w st0)) ->
  (forall sh v, lookupN keys0 sh = Some v -> v <> w /\ status_of st0 v = Some WReady) ->
  status_of st0 w = None ->
  brs_ok c (x_brecs st0) -> brs_le (chain_height c) (x_brecs st0) ->
  minv p g U w keys0 c st0 /\ (forall sh, ownW w keys0 sh = None).
Proof.
  intros p g U w keys0 c st0 Hwf Hg HU Hxw Hk Hd Hcov Hkeys Hs Hbok Hble.
  assert (Hnone : forall sh, ownW w keys0 sh = None).
  { intros sh. unfold ownW, kown. destruct (lookupN keys0 sh) as [v|] eqn:Hl; [|reflexivity].
    destruct (Hkeys sh v Hl) as [Hne _]. apply N.eqb_neq in Hne. rewrite Hne. reflexivity. }
  split; [|assumption].
  constructor; try assumption.
  - rewrite Hxw. reflexivity.
  - intros sh v Hl _. apply (Hkeys sh v Hl).
  - exists (chain_height c). split; [right; split; [reflexivity|right; split; assumption]|].
    pose proof (wf_nonempty _ Hwf) as Hne.
    split; [unfold chain_height; destruct c; [contradiction|cbn [length]; lia]|].
    rewrite Hxw. cbn [L credits]. split; [|split; [|split; assumption]].
    + rewrite E_sel, upto_all. apply E_ext_all. apply ownA_isw.
    + rewrite E_sel. reflexivity.
Qed.

(* ImportWallet(WithMnemonic) of w into such a database *)
Lemma minv_import_start : forall p g U w keys0 c st0 pass sh shs st1,
  minv p g U w keys0 c st0 -> status_of st0 w = None -> (forall s, ownW w keys0 s = None) ->
  import_start st0 w pass (sh :: shs) = Some st1 ->
  minv p g U w (keys0 ++ keys_of w (sh :: shs)) c st1.
Proof.
  intros p g U w keys0 c st0 pass sh shs st1 Hinv Hs Hnone H.
  destruct Hinv as [Hwf Hg HU Hsy Hkeys Hdead Hcov Hoth [top [Htop [Hrange [Hcw [Hco [Hbok Hble]]]]]]].
  unfold import_start in H. destruct (wallet_known st0 w); [discriminate|]. inversion H. subst st1. clear H.
  constructor; cbn [x_w x_keys x_dead x_brecs x_status]; try assumption.
  - rewrite Hkeys. reflexivity.
  - rewrite Hdead. reflexivity.
  - intros s v Hl Hne. unfold status_of. cbn [x_status].
    destruct (lookupN keys0 s) as [v'|] eqn:Hl0.
    + rewrite (lookupN_app_some _ _ _ _ _ Hl0) in Hl. inversion Hl. subst v'.
      apply lookupN_app_some. apply (Hoth s v Hl0 Hne).
    + rewrite (lookupN_app_none _ _ _ _ Hl0) in Hl. apply keys_of_w in Hl. contradiction.
  - exists 0. split; [|split; [|split; [|split; [|split; assumption]]]].
    + left. unfold status_of in *. cbn [x_status]. rewrite (lookupN_app_none _ _ _ _ Hs). cbn. rewrite N.eqb_refl. reflexivity.
    + lia.
    + rewrite Hcw. rewrite (E_none_fn p _ _ Hnone). symmetry. apply upto0_E. assumption.
    + rewrite Hco. apply E_ext_all. intros s. unfold own0, ownA. symmetry. apply own_sel_keys_app.
      unfold notw, notk, isw. rewrite N.eqb_refl. reflexivity.
Qed.

Lemma split_unique : forall (A : Type) (l a a' b b' : list A) x, NoDup l ->
  l = a ++ x :: b -> l = a' ++ x :: b' -> a = a'.
Proof.
  intros A l a. revert l. induction a as [|y a IH]; intros l a' b b' x Hnd H1 H2.
  - destruct a' as [|y' a']; [reflexivity|]. exfalso. subst l. cbn [app] in *. inversion H2 as [[Hx Hb]]. subst y'.
    inversion Hnd as [|? ? Hni _]. apply Hni. rewrite Hb. apply in_or_app. right. left. reflexivity.
  - destruct a' as [|y' a'].
    + exfalso. subst l. cbn [app] in *. inversion H2 as [[Hx Hb]]. subst y.
      inversion Hnd as [|? ? Hni _]. apply Hni. apply in_or_app. right. left. reflexivity.
    + subst l. cbn [app] in *. inversion H2 as [[Hx Hb]]. subst y'. f_equal.
      inversion Hnd as [|? ? _ Hnd']. apply (IH _ a' b b' x Hnd' eq_refl). assumption.
Qed.

Lemma announced_det : forall c n b c1 c2, NoDup n -> NoDup c ->
  announced c n b (Some c1) -> announced c n b (Some c2) -> c1 = c2.
Proof.
  intros c n b c1 c2 Hn Hc H1 H2. inversion H1 as [n1 n2 Hn1|d1 d2 Hnb1 Hd1|]; inversion H2 as [m1 m2 Hm1|e1 e2 Hnb2 He1|]; subst.
  - rewrite (split_unique _ _ _ _ _ _ _ Hn eq_refl Hm1). reflexivity.
  - exfalso. apply Hnb2. apply in_or_app. right. left. reflexivity.
  - exfalso. apply Hnb1. apply in_or_app. right. left. reflexivity.
  - rewrite (split_unique _ _ _ _ _ _ _ Hc eq_refl He1). reflexivity.
Qed.

Lemma perm_kept_junk : forall f cs, Permutation cs (kept f cs ++ junk f cs).
Proof.
  intros f cs. unfold kept, junk. induction cs as [|c r IH]; [constructor|].
  cbn [filter]. destruct (keepc f c); cbn [negb app].
  - constructor. assumption.
  - apply Permutation_cons_app. assumption.
Qed.

Section MultiHistory.
Variable p : params.
Variable g : block.
Variable U : list block.
Hypothesis U_ids : forall b1 b2, In b1 U -> In b2 U -> b_id b1 = b_id b2 -> b1 = b2.
Variable w : N.
Variable B cap : Z.
Hypothesis B_pos : 0 < B.

Definition sinv_m (keysA : list (N * N)) (s : xsim) : Prop :=
  xs_crashed s = false /\ ninv g U (xs_node s) /\ exists c, minv p g U w keysA c (xs_st s).

Lemma minv_step : forall keysA s e c,
  xs_crashed s = false -> ninv g U (xs_node s) -> minv p g U w keysA c (xs_st s) -> ev_ok g U w s e ->
  let s' := xstep repaired p B cap s e in
  xs_crashed s' = false /\ ninv g U (xs_node s') /\ exists c', minv p g U w keysA c' (xs_st s').
Proof.
  intros keysA s e c Hcr Hninv Hinv Hok. pose proof Hninv as [Hwfn [Hgn HnU]].
  destruct e as [b| |b|w0 ps|sh w0|w0 ps shs|v|w0 ps|w0|w0|]; cbn [ev_ok] in Hok; try contradiction.
  - destruct Hok as [HbU Hwf']. cbn [xstep]. split; [assumption|]. cbn [xs_node xs_st]. split.
    + split; [assumption|split].
      * destruct Hgn as [n' Hn']. rewrite Hn'. exists (n' ++ [b]). reflexivity.
      * intros z Hz. apply in_app_or in Hz. destruct Hz as [Hz|[Hz|[]]]; [apply HnU; assumption|subst z; assumption].
    + exists c. assumption.
  - cbn [xstep]. split; [assumption|]. cbn [xs_node xs_st]. split.
    + split; [assumption|split].
      * apply from_g_removelast; [assumption|]. apply wf_nonempty. assumption.
      * intros z Hz. apply HnU. apply removelast_in. assumption.
    + exists c. assumption.
  - destruct Hok as [HbU Hbg]. cbn [xstep]. rewrite Hcr.
    destruct (xprocess repaired p (xs_node s) (xs_st s) b) as [st'| |] eqn:Hx.
    + destruct (mprocess_inv p g U U_ids w keysA c _ _ b st' Hninv Hinv HbU Hbg Hx) as [c' [Hinv' _]].
      split; [assumption|]. cbn [with_st xs_node xs_st]. split; [assumption|]. exists c'. assumption.
    + split; [assumption|]. split; [assumption|]. exists c. assumption.
    + exfalso. apply (xprocess_repaired_no_panic p _ _ _ Hx).
  - subst v. cbn [xstep]. split; [assumption|]. cbn [with_st xs_node xs_st]. split; [assumption|].
    exists c. apply (mbatch_inv p g U U_ids w keysA B c _ _ Hninv B_pos Hinv).
Qed.

Lemma sinv_m_run : forall keysA h s, sinv_m keysA s -> xwf p g U w B cap s h ->
  sinv_m keysA (fold_left (xstep repaired p B cap) h s).
Proof.
  intros keysA. induction h as [|e r IH]; intros s Hs Hwf; [assumption|].
  cbn [fold_left]. destruct Hwf as [Hok Hr]. apply IH; [|assumption].
  destruct Hs as [Hcr [Hninv [c Hinv]]]. apply (minv_step keysA s e c Hcr Hninv Hinv Hok).
Qed.

Lemma sinv_m_in_step : forall keysA s, sinv_m keysA s -> in_step g s -> minv p g U w keysA (xs_node s) (xs_st s).
Proof.
  intros keysA s [_ [Hninv [c Hinv]]] Hstep.
  rewrite <- (minv_in_step p g U U_ids w keysA c _ _ Hninv Hinv Hstep). assumption.
Qed.

(* the conclusion of "import = live" for the whole database *)
Definition equals_live_all (st : xstate) (n : list block) : Prop :=
  exists live, ledger_of_chain p true (key_owner st) n = Ok live /\
    synced (x_w st) = synced live /\
    Permutation (credits (x_w st)) (credits live) /\
    forall v, proj v (credits (x_w st)) = proj v (credits live) /\
              xreport st v = spec_report p (key_owner st) n v.

Lemma sinv_m_correct : forall keysA s, sinv_m keysA s -> in_step g s -> status_of (xs_st s) w = Some WReady ->
  equals_live_all (xs_st s) (xs_node s).
Proof.
  intros keysA s Hs Hstep Hr. pose proof (sinv_m_in_step keysA s Hs Hstep) as Hinv.
  destruct Hs as [_ [[Hwfn _] _]].
  assert (Hko : key_owner (xs_st s) = ownA keysA). { unfold key_owner, ownA. rewrite (mi_keys _ _ _ _ _ _ _ Hinv). reflexivity. }
  unfold equals_live_all. rewrite Hko. exists (L p (ownA keysA) (xs_node s)).
  assert (Hall : forall v, proj v (credits (x_w (xs_st s))) = proj v (credits (L p (ownA keysA) (xs_node s))) /\
                           xreport (xs_st s) v = spec_report p (ownA keysA) (xs_node s) v).
  { apply (minv_ready_all p g U w keysA _ _ Hinv); congruence. }
  split; [apply ledger_of_chain_L; assumption|]. split; [rewrite (mi_synced _ _ _ _ _ _ _ Hinv); reflexivity|].
  split; [|assumption].
  eapply Permutation_trans; [apply (perm_kept_junk (isw w))|].
  eapply Permutation_trans; [|apply Permutation_sym; apply (perm_kept_junk (isw w))].
  destruct (Hall w) as [Hw _]. rewrite !proj_as_kept in Hw. change (fun x => (x =? w)%N) with (isw w) in Hw. rewrite Hw.
  apply Permutation_app_head.
  destruct (mi_state _ _ _ _ _ _ _ Hinv) as [top [_ [_ [_ [Hco _]]]]].
  change (junk (isw w) (credits (x_w (xs_st s)))) with (kept (notw w) (credits (x_w (xs_st s)))). rewrite Hco.
  change (junk (isw w) (credits (L p (ownA keysA) (xs_node s)))) with (kept (notw w) (E p (ownA keysA) (ptxs (xs_node s)))).
  rewrite E_sel. apply Permutation_refl.
Qed.

(* FRAME along the pair of runs: the same events applied to the database WITH the restored wallet (keys
   keys0 ++ w's) and to the database WITHOUT it (keys keys0; a batch of w is a no-op there) *)
Definition pinv (keys0 keysA : list (N * N)) (s s2 : xsim) : Prop :=
  xs_node s = xs_node s2 /\ xs_crashed s = false /\ xs_crashed s2 = false /\ ninv g U (xs_node s) /\
  exists c, minv p g U w keysA c (xs_st s) /\ minv p g U w keys0 c (xs_st s2).

Lemma pinv_step : forall keys0 keysA s s2 e, pinv keys0 keysA s s2 -> ev_ok g U w s e ->
  pinv keys0 keysA (xstep repaired p B cap s e) (xstep repaired p B cap s2 e).
Proof.
  intros keys0 keysA s s2 e [Hnode [Hcr [Hcr2 [Hninv [c [Hinv Hinv2]]]]]] Hok. pose proof Hninv as [Hwfn [Hgn HnU]].
  destruct e as [b| |b|w0 ps|sh w0|w0 ps shs|v|w0 ps|w0|w0|]; cbn [ev_ok] in Hok; try contradiction.
  - destruct Hok as [HbU Hwf']. cbn [xstep]. unfold pinv. cbn [xs_node xs_st xs_crashed]. rewrite <- Hnode.
    split; [reflexivity|split; [assumption|split; [assumption|split]]].
    + split; [assumption|split].
      * destruct Hgn as [n' Hn']. rewrite Hn'. exists (n' ++ [b]). reflexivity.
      * intros z Hz. apply in_app_or in Hz. destruct Hz as [Hz|[Hz|[]]]; [apply HnU; assumption|subst z; assumption].
    + exists c. split; assumption.
  - cbn [xstep]. unfold pinv. cbn [xs_node xs_st xs_crashed]. rewrite <- Hnode.
    split; [reflexivity|split; [assumption|split; [assumption|split]]].
    + split; [assumption|split].
      * apply from_g_removelast; [assumption|]. apply wf_nonempty. assumption.
      * intros z Hz. apply HnU. apply removelast_in. assumption.
    + exists c. split; assumption.
  - destruct Hok as [HbU Hbg]. cbn [xstep]. rewrite Hcr, Hcr2, <- Hnode.
    assert (Hsy : synced (x_w (xs_st s2)) = synced (x_w (xs_st s))).
    { rewrite (mi_synced _ _ _ _ _ _ _ Hinv), (mi_synced _ _ _ _ _ _ _ Hinv2). reflexivity. }
    pose proof (mi_wf _ _ _ _ _ _ _ Hinv) as Hwfc.
    assert (Hndn : NoDup (xs_node s)) by (apply (NoDup_map_inv b_id); apply (wf_bids _ Hwfn)).
    assert (Hndc : NoDup c) by (apply (NoDup_map_inv b_id); apply (wf_bids _ Hwfc)).
    destruct (mprocess_cases p g U U_ids w keysA c _ _ b Hninv Hinv HbU Hbg) as [[st' [c' [Hx [Hinv' [Han _]]]]]|[Hx [_ Hno]]];
    destruct (mprocess_cases p g U U_ids w keys0 c _ _ b Hninv Hinv2 HbU Hbg) as [[st2' [c2' [Hx2 [Hinv2' [Han2 _]]]]]|[Hx2 [_ Hno2]]].
    + rewrite Hx, Hx2. rewrite (announced_det _ _ _ _ _ Hndn Hndc Han2 Han) in Hinv2'.
      unfold pinv. cbn [with_st xs_node xs_st xs_crashed].
      split; [assumption|split; [assumption|split; [assumption|split; [assumption|]]]]. exists c'. split; assumption.
    + exfalso. apply (Hno2 (xs_st s) (eq_sym Hsy) ltac:(rewrite Hx; discriminate) st' Hx).
    + exfalso. apply (Hno (xs_st s2) Hsy ltac:(rewrite Hx2; discriminate) st2' Hx2).
    + rewrite Hx, Hx2. unfold pinv. split; [assumption|split; [assumption|split; [assumption|split; [assumption|]]]].
      exists c. split; assumption.
  - subst v. cbn [xstep]. unfold pinv. cbn [with_st xs_node xs_st xs_crashed]. rewrite <- Hnode.
    split; [reflexivity|split; [assumption|split; [assumption|split; [assumption|]]]].
    exists c. split; apply mbatch_inv; assumption.
Qed.

Lemma pinv_run : forall keys0 keysA h s s2, pinv keys0 keysA s s2 -> xwf p g U w B cap s h ->
  pinv keys0 keysA (fold_left (xstep repaired p B cap) h s) (fold_left (xstep repaired p B cap) h s2).
Proof.
  intros keys0 keysA. induction h as [|e r IH]; intros s s2 Hp Hwf; [assumption|].
  cbn [fold_left]. destruct Hwf as [Hok Hr]. apply IH; [apply pinv_step; assumption|assumption].
Qed.

End MultiHistory.

(* ---------------------------------------------------------------- packaged *)

Lemma proj_L_keys_app : forall p w keys0 shs c v, v <> w ->
  proj v (credits (L p (lookupN (keys0 ++ keys_of w shs)) c)) = proj v (credits (L p (lookupN keys0) c)).
Proof.
  intros p w keys0 shs c v Hv. rewrite !proj_as_kept. cbn [L credits]. rewrite !E_sel. apply E_ext_all.
  apply own_sel_keys_app. apply N.eqb_neq. congruence.
Qed.

Section Packaged.
Variable p : params.
Variable g : block.
Variable U : list block.
Hypothesis U_ids : forall b1 b2, In b1 U -> In b2 U -> b_id b1 = b_id b2 -> b1 = b2.
Variable w : N.
Variable keys0 : list (N * N).
Variable B cap : Z.
Hypothesis B_pos : 0 < B.
Variables (pass sh : N) (shs : list N).
Variables (c0 n0 : list block) (all0 : list tx) (st0 st1 : xstate).
Hypothesis node0 : ninv g U n0.
Hypothesis start0 : minv p g U w keys0 c0 st0.
Hypothesis absent0 : status_of st0 w = None.
Hypothesis nokeys0 : forall s, ownW w keys0 s = None.
Hypothesis disjoint0 : forall s, In s (sh :: shs) -> lookupN keys0 s = None.
Hypothesis import0 : import_start st0 w pass (sh :: shs) = Some st1.

Let keysA := keys0 ++ keys_of w (sh :: shs).
Let s0 := {| xs_node := n0; xs_st := st1; xs_all := all0; xs_crashed := false |}.

Lemma start_sinv_m : sinv_m p g U w keysA s0.
Proof.
  split; [reflexivity|]. split; [exact node0|]. exists c0. cbn [s0 xs_st].
  apply (minv_import_start p g U w keys0 c0 st0 pass sh shs st1 start0 absent0 nokeys0 import0).
Qed.

Lemma ownW_head : ownW w keysA sh = Some w.
Proof.
  unfold ownW, kown, keysA. rewrite (lookupN_app_none _ _ _ _ (disjoint0 sh (or_introl eq_refl))).
  cbn. rewrite !N.eqb_refl. reflexivity.
Qed.

Lemma never_absent : forall c st, minv p g U w keysA c st -> status_of st w <> None.
Proof.
  intros c st Hinv Hn. destruct (mi_state _ _ _ _ _ _ _ Hinv) as [top [[Hs|[_ [Hs|[_ Hk]]]] _]]; try congruence.
  specialize (Hk sh). rewrite ownW_head in Hk. discriminate.
Qed.

(* T (a): import = live, other wallets in the database, the chain moving *)
Theorem import_equals_live_multi : forall h, xwf p g U w B cap s0 h ->
  let s := fold_left (xstep repaired p B cap) h s0 in
  sinv_m p g U w keysA s /\
  (in_step g s -> status_of (xs_st s) w = Some WReady -> equals_live_all p (xs_st s) (xs_node s)) /\
  (status_of (xs_st s) w <> Some WReady -> use_wallet (xs_st s) w = UUnready) /\
  x_dead (xs_st s) = [] /\ xs_crashed s = false.
Proof.
  intros h Hwf s. pose proof (sinv_m_run p g U U_ids w B cap B_pos keysA h s0 start_sinv_m Hwf) as Hs. fold s in Hs.
  split; [assumption|]. split; [|split; [|split]].
  - intros Hstep Hr. apply (sinv_m_correct p g U U_ids w keysA s Hs Hstep Hr).
  - intros Hnr. destruct Hs as [_ [_ [c Hinv]]]. apply (minv_unready p g U w keysA c _ Hinv Hnr). apply (never_absent c _ Hinv).
  - destruct Hs as [_ [_ [c Hinv]]]. apply (mi_dead _ _ _ _ _ _ _ Hinv).
  - destruct Hs as [Hc _]. assumption.
Qed.

(* T (b) FRAME, absolute form: at EVERY point of the history the other wallets hold exactly the ledger of THEIR
   keys over the chain the handler follows *)
Theorem import_frame_multi : forall h, xwf p g U w B cap s0 h ->
  let s := fold_left (xstep repaired p B cap) h s0 in
  exists c, wf_chain c /\ synced (x_w (xs_st s)) = synced_of c /\
    forall v, v <> w ->
      proj v (credits (x_w (xs_st s))) = proj v (credits (L p (lookupN keys0) c)) /\
      xreport (xs_st s) v = spec_report p (lookupN keys0) c v.
Proof.
  intros h Hwf s. pose proof (sinv_m_run p g U U_ids w B cap B_pos keysA h s0 start_sinv_m Hwf) as Hs. fold s in Hs.
  destruct Hs as [_ [_ [c Hinv]]]. exists c. split; [apply (mi_wf _ _ _ _ _ _ _ Hinv)|]. split; [apply (mi_synced _ _ _ _ _ _ _ Hinv)|].
  intros v Hv. destruct (minv_frame p g U w keysA c _ v Hinv Hv) as [Hp _].
  unfold ownA, keysA in Hp. rewrite (proj_L_keys_app p w keys0 (sh :: shs) c v Hv) in Hp.
  split; [assumption|]. unfold xreport. rewrite <- (report_L p (lookupN keys0) c v (mi_wf _ _ _ _ _ _ _ Hinv)).
  apply report_depends_on_proj; [assumption|]. rewrite (mi_synced _ _ _ _ _ _ _ Hinv). reflexivity.
Qed.

(* T (b) FRAME, relative form: the same events applied to the database in which w was never restored *)
Theorem import_frame_vs_no_import : forall all0' h, xwf p g U w B cap s0 h ->
  let s := fold_left (xstep repaired p B cap) h s0 in
  let s2 := fold_left (xstep repaired p B cap) h {| xs_node := n0; xs_st := st0; xs_all := all0'; xs_crashed := false |} in
  xs_node s = xs_node s2 /\ synced (x_w (xs_st s)) = synced (x_w (xs_st s2)) /\
  forall v, v <> w ->
    proj v (credits (x_w (xs_st s))) = proj v (credits (x_w (xs_st s2))) /\
    xreport (xs_st s) v = xreport (xs_st s2) v.
Proof.
  intros all0' h Hwf s s2.
  assert (Hp0 : pinv p g U w keys0 keysA s0 {| xs_node := n0; xs_st := st0; xs_all := all0'; xs_crashed := false |}).
  { split; [reflexivity|]. split; [reflexivity|]. split; [reflexivity|]. split; [exact node0|].
    exists c0. split; [|exact start0]. cbn [s0 xs_st].
    apply (minv_import_start p g U w keys0 c0 st0 pass sh shs st1 start0 absent0 nokeys0 import0). }
  pose proof (pinv_run p g U U_ids w B cap B_pos keys0 keysA h _ _ Hp0 Hwf) as [Hnode [_ [_ [_ [c [Hinv Hinv2]]]]]].
  fold s in Hnode, Hinv. fold s2 in Hnode, Hinv2.
  assert (Hsy : synced (x_w (xs_st s)) = synced (x_w (xs_st s2))).
  { rewrite (mi_synced _ _ _ _ _ _ _ Hinv), (mi_synced _ _ _ _ _ _ _ Hinv2). reflexivity. }
  split; [assumption|]. split; [assumption|]. intros v Hv.
  destruct (minv_frame p g U w keysA c _ v Hinv Hv) as [Hp _].
  destruct (minv_frame p g U w keys0 c _ v Hinv2 Hv) as [Hp2 _].
  unfold ownA, keysA in Hp. rewrite (proj_L_keys_app p w keys0 (sh :: shs) c v Hv) in Hp. unfold ownA in Hp2.
  assert (Hpp : proj v (credits (x_w (xs_st s))) = proj v (credits (x_w (xs_st s2)))) by congruence.
  split; [assumption|]. apply report_depends_on_proj; assumption.
Qed.

(* T (c) liveness: from any reachable point where the handler is in step, m further batches with a static chain
   make w ready as soon as cursor + m * B exceeds the chain height; the database is then the live ledger of all *)
Theorem import_live_multi : forall h m, xwf p g U w B cap s0 h ->
  let s := fold_left (xstep repaired p B cap) h s0 in
  in_step g s ->
  (forall k, status_of (xs_st s) w = Some (WImporting k) -> chain_height (xs_node s) < k + Z.of_nat m * B) ->
  let s' := fold_left (xstep repaired p B cap) (h ++ repeat (XBatch w) m) s0 in
  xs_node s' = xs_node s /\ in_step g s' /\ status_of (xs_st s') w = Some WReady /\
  equals_live_all p (xs_st s') (xs_node s').
Proof.
  intros h m Hwf s Hstep Hm s'.
  pose proof (sinv_m_run p g U U_ids w B cap B_pos keysA h s0 start_sinv_m Hwf) as Hs. fold s in Hs.
  pose proof (sinv_m_in_step p g U U_ids w keysA s Hs Hstep) as Hinv.
  pose proof Hs as [Hcr [Hninv _]].
  assert (Hs'eq : s' = with_st s (batches repaired p B (xs_node s) (xs_st s) w m)).
  { unfold s'. rewrite fold_left_app. fold s. apply fold_batches. }
  pose proof (mbatches_inv p g U U_ids w keysA B (xs_node s) m _ _ Hninv B_pos Hinv) as Hinv'.
  assert (Hr : status_of (batches repaired p B (xs_node s) (xs_st s) w m) w = Some WReady).
  { destruct (mi_state _ _ _ _ _ _ _ Hinv) as [top [[Hsi|[_ [Hsr|[Hsn _]]]] _]].
    - apply (mbatches_live p g U U_ids w keysA B _ m _ top Hninv B_pos Hinv Hsi). apply Hm. assumption.
    - rewrite batches_ready; assumption.
    - exfalso. apply (never_absent _ _ Hinv Hsn). }
  assert (Hstep' : in_step g s').
  { rewrite Hs'eq. unfold in_step in *. cbn [with_st xs_node xs_st]. unfold tip in *. rewrite batches_keep_synced. assumption. }
  assert (Hsinv' : sinv_m p g U w keysA s').
  { rewrite Hs'eq. split; [assumption|]. split; [assumption|]. eexists. exact Hinv'. }
  split; [rewrite Hs'eq; reflexivity|]. split; [assumption|].
  assert (Hr' : status_of (xs_st s') w = Some WReady) by (rewrite Hs'eq; exact Hr).
  split; [assumption|]. apply (sinv_m_correct p g U U_ids w keysA s' Hsinv' Hstep' Hr').
Qed.

End Packaged.

(* ---------------------------------------------------------------- shared transactions *)

(* whatever transaction spends a coin — also one whose record and block record were already in the database
   because it pays ANOTHER wallet — the spent mark in the store is the chain's: for EVERY credit of the store
   (of w or not), spent by = the first transaction of the chain that spends its outpoint, and unspent iff none does *)
Lemma equals_live_spent_marks : forall p st n, equals_live_all p st n -> wf_chain n ->
  forall cr, In cr (credits (x_w st)) -> c_spent cr = spender_l (ptxs n) (c_tx cr, c_vout cr).
Proof.
  intros p st n [live [Hl [_ [Hperm _]]]] Hwf cr Hcr.
  rewrite (ledger_of_chain_L p (key_owner st) n Hwf) in Hl. inversion Hl. subst live.
  apply (Permutation_in _ Hperm) in Hcr. cbn [L credits] in Hcr. unfold E, mkE in Hcr.
  apply in_map_iff in Hcr. destruct Hcr as [k [Hk _]]. subst cr. reflexivity.
Qed.

(* ... and every coin the chain pays a wallet of the database is in the store, once *)
Lemma equals_live_all_coins : forall p st n, equals_live_all p st n -> wf_chain n ->
  Permutation (credits (x_w st)) (E p (key_owner st) (ptxs n)).
Proof.
  intros p st n [live [Hl [_ [Hperm _]]]] Hwf.
  rewrite (ledger_of_chain_L p (key_owner st) n Hwf) in Hl. inversion Hl. subst live. exact Hperm.
Qed.

(* ---------------------------------------------------------------- the mutation: skip a transaction already recorded *)

(* a variant of the rescan in which insertMinedTxForImporting returns early when the transaction record
   already exists (the transaction is listed in the block record of that height — because it pays or is
   spent by ANOTHER wallet): the restored wallet's debit and credits of that transaction are skipped *)
Definition import_tx_skip (p : params) (own : owner_fn) (n : node) (h : Z) (bid : N)
           (acc : list credit * list brec) (t : tx) : (list credit * list brec) + iout :=
  if listed_at (snd acc) h (t_id t) then inl acc else import_tx p own n h bid acc t.

Fixpoint import_txs_skip (p : params) (own : owner_fn) (n : node) (h : Z) (bid : N)
         (acc : list credit * list brec) (ts : list tx) : (list credit * list brec) + iout :=
  match ts with
  | [] => inl acc
  | t :: rest =>
      match import_tx_skip p own n h bid acc t with
      | inl acc' => import_txs_skip p own n h bid acc' rest
      | inr e => inr e
      end
  end.

Fixpoint import_blocks_skipv (p : params) (own : owner_fn) (n : node) (k stop : Z)
         (acc : list credit * list brec) (bs : list block) : (list credit * list brec) + iout :=
  match bs with
  | [] => inl acc
  | b :: rest =>
      if (k <? b_height b) && (b_height b <=? stop) then
        match import_txs_skip p own n (b_height b) (b_id b) acc (filter (touches own n (b_height b)) (b_txs b)) with
        | inl acc' => import_blocks_skipv p own n k stop acc' rest
        | inr e => inr e
        end
      else import_blocks_skipv p own n k stop acc rest
  end.

Definition import_batch_skip (fx : fixes) (p : params) (B : Z) (n : node) (st : xstate) (w : N) : xstate * iout :=
  match status_of st w with
  | Some (WImporting k) =>
      if memN w (x_dead st) then (st, IOk)
      else
        let best := fst (tip (x_w st)) in
        let stop := Z.min (k + B) best in
        match import_blocks_skipv p (own_w st w) n k stop (credits (x_w st), x_brecs st) n with
        | inr IAbandon => if f_import_retry fx then (st, IRetry) else (with_dead st (x_dead st ++ [w]), IAbandon)
        | inr e => (st, e)
        | inl (cs, brs) =>
            if f_import_tipcheck fx && negb (node_on_synced n (x_w st) stop) then (st, IRetry) else
            (with_status (with_brecs (with_w st {| credits := cs; synced := synced (x_w st) |}) brs)
                         (setN (x_status st) w (if stop =? best then WReady else WImporting stop)), IOk)
        end
  | _ => (st, IOk)
  end.

(* decidable pieces for closed examples of the starting state *)
Definition covered_b (brs : list brec) (cs : list credit) : bool :=
  forallb (fun c => listed_at brs (c_height c) (c_tx c) &&
                    match c_spent c with Some (t, _, sh) => listed_at brs sh t | None => true end) cs.

Lemma covered_b_sound : forall brs cs, covered_b brs cs = true -> covered brs cs.
Proof.
  intros brs cs H c Hc. unfold covered_b in H. rewrite forallb_forall in H. specialize (H c Hc).
  apply andb_true_iff in H. destruct H as [H1 H2]. split; [exact H1|].
  intros t i sh Hs. rewrite Hs in H2. exact H2.
Qed.

Definition brs_ok_b (c : list block) (brs : list brec) : bool :=
  forallb (fun br => existsb (fun b => (b_height b =? br_h br) && (b_id b =? br_bid br)%N) c) brs.

Lemma brs_ok_b_sound : forall c brs, brs_ok_b c brs = true -> brs_ok c brs.
Proof.
  intros c brs H br Hbr. unfold brs_ok_b in H. rewrite forallb_forall in H. specialize (H br Hbr).
  apply existsb_exists in H. destruct H as [b [Hb Hc]]. apply andb_true_iff in Hc. destruct Hc as [H1 H2].
  exists b. split; [assumption|]. split; [apply Z.eqb_eq|apply N.eqb_eq]; assumption.
Qed.

Definition brs_le_b (m : Z) (brs : list brec) : bool := forallb (fun br => br_h br <=? m) brs.

Lemma brs_le_b_sound : forall m brs, brs_le_b m brs = true -> brs_le m brs.
Proof.
  intros m brs H br Hbr. unfold brs_le_b in H. rewrite forallb_forall in H. apply Z.leb_le. apply (H br Hbr).
Qed.

Definition keys_ready_b (w : N) (st : xstate) : bool :=
  forallb (fun e => negb (snd e =? w)%N && is_ready st (snd e)) (x_keys st).

Lemma keys_ready_b_sound : forall w st, keys_ready_b w st = true ->
  forall sh v, lookupN (x_keys st) sh = Some v -> v <> w /\ status_of st v = Some WReady.
Proof.
  intros w st H sh v Hl. apply lookupN_in in Hl. unfold keys_ready_b in H. rewrite forallb_forall in H.
  specialize (H _ Hl). cbn [snd] in H. apply andb_true_iff in H. destruct H as [H1 H2].
  split; [apply N.eqb_neq; apply negb_true_iff; assumption|].
  unfold is_ready in H2. destruct (status_of st v) as [[| |]|]; try discriminate. reflexivity.
Qed.
