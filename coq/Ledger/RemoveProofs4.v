(* Ledger/RemoveProofs4.v — C08, part 4: block processing on a multi-wallet store that holds
   credits of wallets being removed.  [StInv]: the store invariants removal relies on (credits keyed
   by the keystore, one owner per script hash, every credit names an output of a transaction the node
   has stored, nobody is importing, a wallet whose removal has done phase 1 has no balance / pending
   game row).  [XRep]: the ready wallets' credits represent the synced chain ([Rep]).
   Results: connecting a block, Rollback and processConnectedBlock keep both; announcing a block of
   the node's best chain succeeds and makes the ready wallets' ledger that of the node's chain up to
   that block. *)
From Coq Require Import List ZArith NArith Bool Lia.
Import ListNotations.
Open Scope Z_scope.
Require Import MW.Ledger.Model MW.Ledger.Spec MW.Ledger.Run MW.Ledger.WF MW.Ledger.Import MW.Ledger.Remove.
Require Import MW.Ledger.Proofs MW.Ledger.Proofs2 MW.Ledger.Proofs3 MW.Ledger.Proofs4 MW.Ledger.Proofs6.
Require Import MW.Ledger.RemoveProofs MW.Ledger.RemoveProofs2 MW.Ledger.RemoveProofs3.

(* ---------------------------------------------------------------- owner functions of a store *)

Lemma ready_own_eq : forall st st', x_keys st' = x_keys st -> x_status st' = x_status st -> ready_own st' = ready_own st.
Proof. intros st st' Hk Hs. unfold ready_own, key_owner, is_ready, status_of. rewrite Hk, Hs. reflexivity. Qed.

Lemma is_ready_eq : forall st st', x_status st' = x_status st -> is_ready st' = is_ready st.
Proof. intros st st' Hs. unfold is_ready, status_of. rewrite Hs. reflexivity. Qed.

Lemma ready_own_some : forall st sh v, ready_own st sh = Some v -> key_owner st sh = Some v /\ is_ready st v = true.
Proof.
  intros st sh v H. unfold ready_own in H. destruct (key_owner st sh) as [u|]; [|discriminate].
  destruct (is_ready st u) eqn:Hr; [|discriminate]. inversion H. subst u. split; [reflexivity|assumption].
Qed.

Lemma ready_own_intro : forall st sh v, key_owner st sh = Some v -> is_ready st v = true -> ready_own st sh = Some v.
Proof. intros st sh v Hk Hr. unfold ready_own. rewrite Hk, Hr. reflexivity. Qed.

(* ---------------------------------------------------------------- the store invariants *)

(* a transaction id names one transaction among all the blocks the node ever stored *)
Definition GU (U : list block) : Prop :=
  forall t t', In t (chain_txs U) -> In t' (chain_txs U) -> t_id t = t_id t' -> t = t'.

Definition credit_sound (U : list block) (cr : credit) : Prop :=
  exists t o, In t (chain_txs U) /\ t_id t = c_tx cr /\
              nth_error (t_outs t) (N.to_nat (c_vout cr)) = Some o /\
              o_sh o = c_sh cr /\ o_class o <> CUnsupported.

Definition no_importing (st : xstate) : Prop := forall w k, ~ In (w, WImporting k) (x_status st).

Record StInv (U : list block) (S : list N) (st : xstate) : Prop := {
  si_keyed : credits_keyed st;
  si_fun : keys_functional st;
  si_sound : forall cr, In cr (credits (x_w st)) -> credit_sound U cr;
  si_noimp : no_importing st;
  si_p1 : forall w, memN w (x_p1 st) = true -> status_of st w = Some WRemoving /\ no_residue st w;
  si_issued : incl (map fst (x_keys st)) S
}.

Lemma credit_sound_set_spent : forall U c s, credit_sound U c -> credit_sound U (set_spent c s).
Proof. intros U c s H. exact H. Qed.

Lemma credit_sound_mono : forall U U' c, incl U U' -> credit_sound U c -> credit_sound U' c.
Proof.
  intros U U' c HU [t [o [Ht H]]]. exists t, o. split; [|assumption].
  apply in_chain_txs in Ht. destruct Ht as [b [Hb Ht]]. apply in_chain_txs. exists b. split; [apply HU|]; assumption.
Qed.

Lemma status_map_noimp : forall st h, no_importing st ->
  map (fun e => (fst e, pull_back h (snd e))) (x_status st) = x_status st.
Proof.
  intros st h H. unfold no_importing in H. induction (x_status st) as [|[w s] r IH]; [reflexivity|].
  cbn [map fst snd]. f_equal.
  - destruct s as [|k|]; try reflexivity. exfalso. apply (H w k). left. reflexivity.
  - apply IH. intros w' k' Hin. apply (H w' k'). right. assumption.
Qed.

(* ---------------------------------------------------------------- the representation of a store *)

Definition XRep (p : params) (st : xstate) (c1 c2 : list block) (f : N * N -> option (N * N * Z)) : Prop :=
  synced (x_w st) = synced_of (c1 ++ c2) /\
  Rep p (ready_own st) (is_ready st) (credits (x_w st)) (x_brecs st) c1 c2 f.

Lemma in_kept_or_junk : forall keepw cs c, In c cs -> In c (kept keepw cs) \/ In c (junk keepw cs).
Proof.
  intros keepw cs c Hin. unfold kept, junk. destruct (keepc keepw c) eqn:Hk.
  - left. apply filter_In. split; assumption.
  - right. apply filter_In. split; [assumption|]. rewrite Hk. reflexivity.
Qed.

Lemma in_junk : forall keepw cs c, In c (junk keepw cs) -> In c cs /\ keepw (c_wallet c) = false.
Proof.
  intros keepw cs c H. unfold junk in H. apply filter_In in H. destruct H as [H1 H2].
  split; [assumption|]. unfold keepc in H2. apply negb_true_iff in H2. assumption.
Qed.

(* a kept credit of a represented store is a coin of the chain *)
Lemma kept_credit_coin : forall p own keepw cs brs c1 c2 f cr,
  Rep p own keepw cs brs c1 c2 f -> In cr (kept keepw cs) ->
  exists k, In k (coins_l own (ptxs (c1 ++ c2))) /\ cr = mk_credit p k (f (coin_op k)).
Proof.
  intros p own keepw cs brs c1 c2 f cr HR Hin. rewrite (rp_credits _ _ _ _ _ _ _ _ HR) in Hin.
  unfold mkE in Hin. apply in_map_iff in Hin. destruct Hin as [k [Hk Hin]]. exists k. split; [assumption|symmetry; assumption].
Qed.

Section Processing.
Variable fx : fixes.
Hypothesis Hfx_rb : f_rollback fx = true.
Hypothesis Hfx_ro : f_rollback_order fx = true.
Variable p : params.
Variable g : block.
Variable U : list block.
Variable S : list N.
Hypothesis U_ids : forall b1 b2, In b1 U -> In b2 U -> b_id b1 = b_id b2 -> b1 = b2.
Hypothesis U_txs : GU U.

Lemma coin_sound : forall own c k, incl c U -> In k (coins_l own (ptxs c)) ->
  forall s, credit_sound U (mk_credit p k s) /\ own (k_sh k) = Some (k_wallet k).
Proof.
  intros own c k HcU Hk s. destruct (coins_l_in_full _ _ _ Hk) as [x [o [Hx [Htx [_ [_ [Hn [Ho [Hc [Hsh _]]]]]]]]]].
  destruct (in_ptxs _ _ Hx) as [b [Hb [Ht _]]]. split.
  - exists (pt_tx x), o. cbn [mk_credit c_tx c_vout c_sh].
    split; [apply in_chain_txs; exists b; split; [apply HcU|]; assumption|].
    split; [symmetry; assumption|split; [assumption|split; [symmetry; assumption|assumption]]].
  - rewrite Hsh. assumption.
Qed.

(* ------------------------------------------------------------ one block *)

Lemma xconnect_block_ok : forall n st c b r f,
  StInv U S st -> wf_chain n -> incl n U -> n = c ++ b :: r -> c <> [] ->
  XRep p st c [] f ->
  exists st', xconnect_block p n st b = XOk st' /\
              XRep p st' (c ++ [b]) [] (spender_l (ptxs (c ++ [b]))) /\ StInv U S st' /\
              x_keys st' = x_keys st /\ x_status st' = x_status st /\ x_p1 st' = x_p1 st.
Proof.
  intros n st c b r f HS Hwfn HnU Hn Hne [Hsy HR].
  destruct (wf_linked _ Hwfn) as [pv Hl].
  assert (Hn2 : n = (c ++ [b]) ++ r). { rewrite Hn, <- app_assoc. reflexivity. }
  assert (Hwfp : wf_chain (c ++ [b])).
  { rewrite Hn2 in Hwfn. apply (wf_chain_prefix _ _ Hwfn). destruct c; discriminate. }
  assert (Hwft : wf_txs (chain_txs (c ++ [b]))) by (apply wf_chain_txs; assumption).
  assert (HbU : In b U). { apply HnU. rewrite Hn. apply in_or_app. right. left. reflexivity. }
  assert (HcbU : incl (c ++ [b]) U). { intros z Hz. apply HnU. rewrite Hn2. apply in_or_app. left. assumption. }
  set (own := ready_own st). set (cs := credits (x_w st)).
  destruct (connect_kept p own (is_ready st) cs (node_tx n) c b) as [Hfilt [cs' [Hrecs [Hkept' Hjunk']]]].
  - intros sh v Hv. apply ready_own_some in Hv. tauto.
  - apply (Rep_exact p _ _ _ _ _ _ HR).
  - assumption.
  - intros t Ht. apply node_tx_found; [assumption|]. rewrite Hn, chain_txs_app. apply in_or_app. left. assumption.
  - intros t ro Ht Hro.
    destruct (exists_credit_at (junk (is_ready st) cs) (t_id t, ro_index ro) (b_height b) (b_id b)) eqn:Hex; [|reflexivity].
    exfalso. unfold exists_credit_at in Hex. apply existsb_exists in Hex. destruct Hex as [gc [Hgc Hop]].
    apply andb_true_iff in Hop. destruct Hop as [Hop _]. apply andb_true_iff in Hop. destruct Hop as [Hop _].
    apply op_eqb_eq in Hop. unfold credit_op in Hop. inversion Hop as [[Htx Hvout]]. clear Hop.
    apply in_junk in Hgc. destruct Hgc as [Hgin Hgk].
    destruct (si_sound _ _ _ HS gc Hgin) as [t' [o [Ht' [Hid' [Hnth [Hosh _]]]]]].
    assert (t' = t).
    { apply U_txs; [assumption| |congruence]. apply in_chain_txs. exists b. split; assumption. }
    subst t'.
    apply filter_outs_in in Hro. destruct Hro as [j [Hj [Hnj Hown]]].
    rewrite Hvout, Hj, N.add_0_l, Nat2N.id, Hnj in Hnth. inversion Hnth. subst o.
    apply out_owner_some in Hown. destruct Hown as [Hown _]. rewrite Hosh in Hown.
    apply ready_own_some in Hown. destruct Hown as [Hko Hrd].
    rewrite (si_keyed _ _ _ HS gc Hgin) in Hko. inversion Hko. congruence.
  - set (recs := filter rec_keep (map (rec_of own (chain_txs (c ++ [b]))) (b_txs b))) in *.
    set (st' := with_brecs (with_w st {| credits := cs'; synced := (b_height b, b_id b) :: synced (x_w st) |})
                           (add_ids (x_brecs st) (b_height b) (b_id b) (rec_ids recs))).
    assert (Heq : xconnect_block p n st b = XOk st').
    { unfold xconnect_block, node_at. rewrite Hn at 1. rewrite Hn in Hl. rewrite (node_at_found _ _ _ _ _ Hl).
      rewrite N.eqb_refl. cbn [negb]. fold own. fold cs. rewrite Hfilt.
      unfold connect_block. fold cs. rewrite Hfilt, Hrecs. reflexivity. }
    exists st'. split; [exact Heq|].
    assert (Hk : x_keys st' = x_keys st) by reflexivity.
    assert (Hst : x_status st' = x_status st) by reflexivity.
    assert (Hown' : ready_own st' = own) by (apply ready_own_eq; assumption).
    assert (Hrd' : is_ready st' = is_ready st) by (apply is_ready_eq; assumption).
    split; [|split; [|repeat split; reflexivity]].
    + split.
      * cbn [st' with_brecs with_w x_w synced]. rewrite app_nil_r, synced_of_snoc. fold cs. rewrite Hsy, app_nil_r. reflexivity.
      * rewrite Hown', Hrd'. cbn [st' with_brecs with_w x_w credits x_brecs].
        apply (Rep_connect p own (is_ready st) cs cs' (x_brecs st) c b f HR Hwft Hkept').
    + assert (Hcases : forall cr, In cr cs' ->
                (exists k s, In k (coins_l own (ptxs (c ++ [b]))) /\ cr = mk_credit p k s) \/ In cr cs).
      { intros cr Hcr. destruct (in_kept_or_junk (is_ready st) cs' cr Hcr) as [Hk1|Hj1].
        - left. rewrite Hkept' in Hk1. unfold E, mkE in Hk1. apply in_map_iff in Hk1.
          destruct Hk1 as [k [Hk1 Hk2]]. exists k, (spender_l (ptxs (c ++ [b])) (coin_op k)). split; [assumption|symmetry; assumption].
        - right. rewrite Hjunk' in Hj1. apply in_junk in Hj1. tauto. }
      constructor.
      * intros cr Hcr. cbn [st' with_brecs with_w x_w credits] in Hcr.
        unfold key_owner. rewrite Hk. fold (key_owner st).
        destruct (Hcases cr Hcr) as [[k [s [Hk1 Hk2]]]|Hold].
        -- subst cr. cbn [mk_credit c_sh c_wallet].
           destruct (coin_sound own (c ++ [b]) k HcbU Hk1 s) as [_ Ho]. apply ready_own_some in Ho. tauto.
        -- apply (si_keyed _ _ _ HS cr Hold).
      * unfold keys_functional. rewrite Hk. apply (si_fun _ _ _ HS).
      * intros cr Hcr. cbn [st' with_brecs with_w x_w credits] in Hcr.
        destruct (Hcases cr Hcr) as [[k [s [Hk1 Hk2]]]|Hold].
        -- subst cr. apply (coin_sound own (c ++ [b]) k HcbU Hk1 s).
        -- apply (si_sound _ _ _ HS cr Hold).
      * unfold no_importing. rewrite Hst. apply (si_noimp _ _ _ HS).
      * intros w Hw. change (x_p1 st') with (x_p1 st) in Hw. destruct (si_p1 _ _ _ HS w Hw) as [H1 H2].
        split; [unfold status_of; rewrite Hst; exact H1|exact H2].
      * rewrite Hk. apply (si_issued _ _ _ HS).
Qed.

(* ------------------------------------------------------------ several blocks *)

Lemma xconnect_all_ok : forall bs n st c r f,
  StInv U S st -> wf_chain n -> incl n U -> n = c ++ bs ++ r -> c <> [] ->
  XRep p st c [] f ->
  exists st' f', xconnect_all p n st bs = XOk st' /\
              XRep p st' (c ++ bs) [] f' /\ StInv U S st' /\
              x_keys st' = x_keys st /\ x_status st' = x_status st /\ x_p1 st' = x_p1 st.
Proof.
  induction bs as [|b bs IH]; intros n st c r f HS Hwfn HnU Hn Hne HR.
  - exists st, f. rewrite app_nil_r. cbn [xconnect_all].
    split; [reflexivity|split; [assumption|split; [assumption|split; [reflexivity|split; reflexivity]]]].
  - cbn [xconnect_all].
    destruct (xconnect_block_ok n st c b (bs ++ r) f HS Hwfn HnU Hn Hne HR) as [st1 [Hb [HR1 [HS1 [Hk1 [Hs1 Hp1]]]]]].
    rewrite Hb.
    destruct (IH n st1 (c ++ [b]) r (spender_l (ptxs (c ++ [b]))) HS1 Hwfn HnU) as [st' [f' [Hall [HR' [HS' [Hk' [Hs' Hp']]]]]]].
    + rewrite Hn, <- app_assoc. reflexivity.
    + destruct c; discriminate.
    + exact HR1.
    + exists st', f'. rewrite <- app_assoc in HR'. cbn [app] in HR'.
      split; [assumption|split; [assumption|split; [assumption|]]].
      split; [congruence|split; congruence].
Qed.

Lemma xconnect_all_ok_in : forall n bs st st',
  xconnect_all p n st bs = XOk st' -> forall y, In y bs -> exists nb, In nb n /\ b_id nb = b_id y.
Proof.
  intros n bs. induction bs as [|x bs IH]; intros st st' H y Hy; [destruct Hy|].
  cbn [xconnect_all] in H. destruct (xconnect_block p n st x) as [st1| |] eqn:Hb; try discriminate.
  destruct Hy as [Hy|Hy]; [|apply (IH _ _ H y Hy)].
  subst y. unfold xconnect_block in Hb. destruct (node_at n (b_height x)) as [nb|] eqn:Hat; [|discriminate].
  destruct (b_id nb =? b_id x)%N eqn:Hid; cbn [negb] in Hb; [|discriminate].
  exists nb. split; [unfold node_at in Hat; apply find_some in Hat; tauto|apply N.eqb_eq; assumption].
Qed.

(* ------------------------------------------------------------ Rollback *)

Lemma in_rb_credits : forall brs h cs cr, In cr (rb_credits brs h cs) ->
  exists c0, In c0 cs /\ (cr = c0 \/ cr = set_spent c0 None).
Proof.
  intros brs h cs cr H. unfold rb_credits in H. apply in_map_iff in H. destruct H as [c0 [Heq Hin]].
  apply filter_In in Hin. destruct Hin as [Hin _]. exists c0. split; [assumption|].
  destruct (rb_unspend brs h c0); [right|left]; symmetry; assumption.
Qed.

Lemma synced_of_rollback : forall pre suf h,
  (forall b, In b pre -> b_height b < h) -> (forall b, In b suf -> h <= b_height b) ->
  filter (fun e => fst e <? h) (synced_of (pre ++ suf)) = synced_of pre.
Proof.
  intros pre suf h H1 H2. pose proof (rollback_L p (fun _ => None) pre suf h H1 H2) as HL.
  apply (f_equal synced) in HL. exact HL.
Qed.

Lemma xrollback_ok : forall st c1 c2 f pre suf h c1' c2' r1,
  StInv U S st -> XRep p st c1 c2 f ->
  c1 ++ c2 = pre ++ suf -> (forall b, In b pre -> b_height b < h) -> (forall b, In b suf -> h <= b_height b) ->
  pre = c1' ++ c2' -> c1 = c1' ++ r1 ->
  exists st', xrollback fx st h = XOk st' /\
              XRep p st' c1' c2' (rb_marks (x_brecs st) h f) /\ StInv U S st' /\
              x_keys st' = x_keys st /\ x_status st' = x_status st /\ x_p1 st' = x_p1 st.
Proof.
  intros st c1 c2 f pre suf h c1' c2' r1 HS [Hsy HR] Hsplit Hpre Hsuf Hpre' Hc1.
  assert (Hx : exists st', xrollback fx st h = XOk st').
  { unfold xrollback. rewrite Hfx_rb, Hfx_ro. cbn [negb andb]. eexists. reflexivity. }
  destruct Hx as [st' Hx]. exists st'. split; [assumption|].
  pose proof Hx as Hx0. unfold xrollback in Hx0. rewrite Hfx_rb, Hfx_ro in Hx0. cbn [negb andb] in Hx0.
  injection Hx0 as Hst'.
  assert (Hstat : x_status st' = x_status st).
  { rewrite <- Hst'. cbn [x_status]. apply status_map_noimp. apply (si_noimp _ _ _ HS). }
  assert (Hk : x_keys st' = x_keys st) by (rewrite <- Hst'; reflexivity).
  assert (Hp1 : x_p1 st' = x_p1 st) by (rewrite <- Hst'; reflexivity).
  assert (Hcs : credits (x_w st') = rb_credits (x_brecs st) h (credits (x_w st))) by (rewrite <- Hst'; reflexivity).
  assert (Hbr : x_brecs st' = filter (fun br => br_h br <? h) (x_brecs st)) by (rewrite <- Hst'; reflexivity).
  assert (Hsy' : synced (x_w st') = filter (fun e => fst e <? h) (synced (x_w st))) by (rewrite <- Hst'; reflexivity).
  split; [|split; [|split; [assumption|split; assumption]]].
  - split.
    + rewrite Hsy', Hsy, Hsplit, <- Hpre'. apply synced_of_rollback; assumption.
    + rewrite (ready_own_eq st st' Hk Hstat), (is_ready_eq st st' Hstat), Hcs, Hbr.
      apply (Rep_rollback p _ _ _ _ c1 c2 f pre suf h c1' c2' r1 HR Hsplit Hpre Hsuf Hpre' Hc1).
  - constructor.
    + intros cr Hcr. rewrite Hcs in Hcr. destruct (in_rb_credits _ _ _ _ Hcr) as [c0 [Hc0 Heq]].
      unfold key_owner. rewrite Hk. fold (key_owner st).
      destruct Heq as [Heq|Heq]; subst cr; apply (si_keyed _ _ _ HS c0 Hc0).
    + unfold keys_functional. rewrite Hk. apply (si_fun _ _ _ HS).
    + intros cr Hcr. rewrite Hcs in Hcr. destruct (in_rb_credits _ _ _ _ Hcr) as [c0 [Hc0 Heq]].
      destruct Heq as [Heq|Heq]; subst cr; [|apply credit_sound_set_spent]; apply (si_sound _ _ _ HS c0 Hc0).
    + unfold no_importing. rewrite Hstat. apply (si_noimp _ _ _ HS).
    + intros w Hw. rewrite Hp1 in Hw. destruct (si_p1 _ _ _ HS w Hw) as [H1 H2]. split.
      * unfold status_of. rewrite Hstat. exact H1.
      * apply (xrollback_repaired_no_residue fx st h st' w Hfx_rb Hx H2).
    + rewrite Hk. apply (si_issued _ _ _ HS).
Qed.

(* ------------------------------------------------------------ processConnectedBlock *)

Lemma tip_synced : forall a b : wstate, synced a = synced b -> tip a = tip b.
Proof. intros a b H. unfold tip. rewrite H. reflexivity. Qed.

Lemma collect_synced : forall n (a b : wstate) fuel x acc, synced a = synced b ->
  collect n a fuel x acc = collect n b fuel x acc.
Proof.
  intros n a b fuel. induction fuel as [|k IH]; intros x acc H; [reflexivity|].
  cbn [collect]. unfold synced_at. rewrite H. destruct (match find _ (synced b) with Some e => _ | None => _ end);
    [destruct (_ =? _)%N; [reflexivity|]|]; (destruct (node_block n (b_prev x)); [apply IH; assumption|reflexivity]).
Qed.

Lemma matched_synced : forall (a b : wstate) x, synced a = synced b -> matched a x = matched b x.
Proof. intros a b x H. unfold matched, synced_at. rewrite H. reflexivity. Qed.

Lemma nodup_split_unique : forall (A : Type) (l a a' b b' : list A) y,
  NoDup l -> l = a ++ y :: b -> l = a' ++ y :: b' -> a = a' /\ b = b'.
Proof.
  intros A l a. revert l. induction a as [|x a IH]; intros l a' b b' y Hnd H1 H2.
  - destruct a' as [|x' a'].
    + cbn in *. rewrite H1 in H2. inversion H2. split; reflexivity.
    + exfalso. cbn in *. rewrite H1 in H2. inversion H2. subst x'. subst l.
      inversion Hnd as [|? ? Hnotin _]. apply Hnotin. rewrite H3. apply in_or_app. right. left. reflexivity.
  - destruct a' as [|x' a'].
    + exfalso. cbn in *. rewrite H2 in H1. inversion H1. subst x. subst l.
      inversion Hnd as [|? ? Hnotin _]. apply Hnotin. rewrite H3. apply in_or_app. right. left. reflexivity.
    + cbn in *. rewrite H1 in H2. inversion H2. subst x'. subst l. inversion Hnd as [|? ? _ Hnd'].
      destruct (IH (a ++ y :: b) a' b b' y Hnd' eq_refl H3) as [Ha Hb]. subst. split; reflexivity.
Qed.

Lemma nil_if_empty : forall (A : Type) (l : list A), (forall z, In z l -> False) -> l = [].
Proof. intros A [|a l] H; [reflexivity|]. exfalso. apply (H a). left. reflexivity. Qed.

Lemma wf_chain_nodup : forall c, wf_chain c -> NoDup c.
Proof. intros c H. apply (NoDup_map_inv b_id). apply (wf_bids _ H). Qed.

Lemma xprocess_on_node : forall n D st c1 c2 n2 f b n1 n3,
  StInv U S st -> wf_chain n -> from_g g n -> incl n U -> (forall z, In z n -> ~ In z D) ->
  n = c1 ++ n2 -> c1 <> [] -> incl c2 D -> wf_chain (c1 ++ c2) -> incl (c1 ++ c2) U ->
  XRep p st c1 c2 f -> n = n1 ++ b :: n3 -> n1 <> [] ->
  exists st' f', xprocess fx p n st b = XOk st' /\
              XRep p st' (n1 ++ [b]) [] f' /\ StInv U S st' /\
              x_keys st' = x_keys st /\ x_status st' = x_status st /\ x_p1 st' = x_p1 st.
Proof.
  intros n D st c1 c2 n2 f b n1 n3 HS Hwfn Hgn HnU HnD Hnc Hc1 Hc2D Hwfc HcU HR Hn Hne.
  set (c := c1 ++ c2) in *.
  assert (Hgc : from_g g c).
  { destruct Hgn as [n' Hgn]. destruct c1 as [|z c1']; [contradiction|]. rewrite Hgn in Hnc. cbn [app] in Hnc.
    inversion Hnc. exists (c1' ++ c2). reflexivity. }
  assert (Hids : ids_agree c n). { intros b1 b2 H1 H2. apply U_ids; [apply HcU|apply HnU]; assumption. }
  assert (Hgen : same_genesis c n) by (apply (same_genesis_from_g g); assumption).
  destruct (wf_linked _ Hwfn) as [pvn Hln]. destruct (wf_linked _ Hwfc) as [pvc Hlc].
  set (own0 := fun _ : N => @None N).
  assert (Hsy : synced (x_w st) = synced (L p own0 c)) by (destruct HR as [Hsy _]; exact Hsy).
  (* c2 is empty as soon as the whole of c is on the node *)
  assert (Hc2nil : incl c n -> c2 = []).
  { intros Hcn. apply nil_if_empty. intros z Hz. apply (HnD z); [apply Hcn; apply in_or_app; right; assumption|apply Hc2D; assumption]. }
  unfold xprocess. rewrite (tip_synced _ _ Hsy).
  destruct (snd (tip (L p own0 c)) =? b_prev b)%N eqn:Htip.
  - destruct (exists_last (wf_nonempty _ Hwfc)) as [cpre [y Hc]].
    destruct (exists_last Hne) as [n1' [x' Hn1]].
    rewrite Hc in Htip at 1. rewrite tip_L_snoc in Htip. cbn [snd] in Htip. apply N.eqb_eq in Htip.
    assert (Hn' : n = n1' ++ x' :: b :: n3). { rewrite Hn, Hn1, <- app_assoc. reflexivity. }
    assert (Hyx : y = x').
    { apply Hids.
      - rewrite Hc. apply in_or_app. right. left. reflexivity.
      - rewrite Hn'. apply in_or_app. right. left. reflexivity.
      - rewrite Htip. rewrite Hn' in Hln. apply (linked_prev _ _ _ _ _ _ Hln). }
    subst x'.
    assert (Hpre : cpre = n1').
    { apply (common_prefix c n pvc pvn 0 Hlc Hln Hids cpre y [] n1' (b :: n3)); assumption. }
    assert (Hcn : c = n1). { rewrite Hc, Hn1, Hpre. reflexivity. }
    assert (Hc2 : c2 = []).
    { apply Hc2nil. rewrite Hcn, Hn. apply incl_appl. apply incl_refl. }
    assert (Hc1n : c1 = n1). { unfold c in Hcn. rewrite Hc2, app_nil_r in Hcn. assumption. }
    rewrite Hc2, Hc1n in HR.
    destruct (xconnect_all_ok [b] n st n1 n3 f HS Hwfn HnU) as [st' [f' H]]; [rewrite Hn; reflexivity|assumption|assumption|].
    exists st', f'. exact H.
  - rewrite (collect_synced n _ _ _ _ _ Hsy).
    assert (Hfuel : (length n1 < Datatypes.S (Z.to_nat (b_height b)))%nat).
    { rewrite Hn in Hln. rewrite (linked_height _ _ _ _ _ Hln). lia. }
    destruct (collect_spec p own0 c n pvc pvn Hlc Hln (wf_bids _ Hwfn) Hgen Hids
                _ n1 b [] n3 Hn Hfuel) as [m1 [y [m2 [Hsplit [Hy Hcol]]]]].
    rewrite Hcol.
    pose proof Hy as Hyc. apply in_split in Hy. destruct Hy as [ca [cb Hc]].
    assert (Hn' : n = m1 ++ y :: m2 ++ n3).
    { rewrite Hn. change (b :: n3) with ([b] ++ n3). rewrite app_assoc, Hsplit, <- app_assoc. reflexivity. }
    assert (Hca : ca = m1).
    { apply (common_prefix c n pvc pvn 0 Hlc Hln Hids ca y cb m1 (m2 ++ n3)); assumption. }
    subst ca.
    (* y is on the node, hence in c1 *)
    assert (Hyn : In y n). { rewrite Hn'. apply in_or_app. right. left. reflexivity. }
    assert (Hy1 : In y c1).
    { unfold c in Hyc. apply in_app_or in Hyc. destruct Hyc as [Hyc|Hyc]; [assumption|].
      exfalso. apply (HnD y Hyn). apply Hc2D. assumption. }
    apply in_split in Hy1. destruct Hy1 as [a1 [r1 Hc1s]].
    assert (Ha1 : a1 = m1).
    { assert (Hc' : c = a1 ++ y :: (r1 ++ c2)). { unfold c. rewrite Hc1s, <- app_assoc. reflexivity. }
      apply (nodup_split_unique _ c a1 m1 (r1 ++ c2) cb y (wf_chain_nodup _ Hwfc) Hc' Hc). }
    subst a1.
    assert (Hheights : (forall z, In z (m1 ++ [y]) -> b_height z < b_height y + 1) /\
                       (forall z, In z cb -> b_height y + 1 <= b_height z)).
    { assert (Hc' : c = (m1 ++ [y]) ++ cb). { rewrite Hc, <- app_assoc. reflexivity. }
      rewrite Hc' in Hlc. destruct (linked_heights_split _ _ _ Hlc) as [H1 H2].
      assert (Hh : b_height y + 1 = Z.of_nat (length (m1 ++ [y]))).
      { rewrite <- app_assoc in Hlc. cbn [app] in Hlc. rewrite (linked_height _ _ _ _ _ Hlc).
        rewrite app_length. cbn [length]. lia. }
      rewrite Hh. split; assumption. }
    destruct Hheights as [Hh1 Hh2].
    destruct (xrollback_ok st c1 c2 f (m1 ++ [y]) cb (b_height y + 1) (m1 ++ [y]) [] r1 HS HR)
      as [st1 [Hrb [HR1 [HS1 [Hk1 [Hs1 Hp1]]]]]].
    + fold c. rewrite Hc, <- app_assoc. reflexivity.
    + assumption.
    + assumption.
    + rewrite app_nil_r. reflexivity.
    + rewrite Hc1s, <- app_assoc. reflexivity.
    + rewrite Hrb.
      destruct (xconnect_all_ok m2 n st1 (m1 ++ [y]) n3 (rb_marks (x_brecs st) (b_height y + 1) f) HS1 Hwfn HnU) as [st' [f' [Hall [HR' [HS' [Hk' [Hs' Hp']]]]]]].
      * rewrite Hn', <- app_assoc. reflexivity.
      * destruct m1; discriminate.
      * exact HR1.
      * exists st', f'. split; [assumption|]. split.
        { rewrite <- app_assoc in HR'. cbn [app] in HR'. rewrite <- Hsplit in HR'. exact HR'. }
        split; [assumption|]. split; [congruence|split; congruence].
Qed.

(* what a successful processConnectedBlock leaves: the store represents a chain whose first part is a
   prefix of the node's chain and whose rest consists of disconnected blocks *)
Lemma xprocess_ok_inv : forall n D st c1 c2 n2 f b st',
  StInv U S st -> wf_chain n -> from_g g n -> incl n U -> (forall z, In z n -> ~ In z D) ->
  n = c1 ++ n2 -> c1 <> [] -> incl c2 D -> wf_chain (c1 ++ c2) -> incl (c1 ++ c2) U ->
  XRep p st c1 c2 f -> In b U -> b <> g ->
  xprocess fx p n st b = XOk st' ->
  exists c1' c2' n2' f', n = c1' ++ n2' /\ c1' <> [] /\ incl c2' D /\ wf_chain (c1' ++ c2') /\ incl (c1' ++ c2') U /\
     XRep p st' c1' c2' f' /\ StInv U S st' /\
     x_keys st' = x_keys st /\ x_status st' = x_status st /\ x_p1 st' = x_p1 st.
Proof.
  intros n D st c1 c2 n2 f b st' HS Hwfn Hgn HnU HnD Hnc Hc1 Hc2D Hwfc HcU HR HbU Hbg Hproc.
  set (c := c1 ++ c2) in *.
  set (own0 := fun _ : N => @None N).
  assert (Hsy : synced (x_w st) = synced (L p own0 c)) by (destruct HR as [Hsy _]; exact Hsy).
  destruct (wf_linked _ Hwfc) as [pvc Hlc].
  assert (Hon_node : forall nb, In nb n -> b_id nb = b_id b -> In b n).
  { intros nb Hin Hid. rewrite <- (U_ids nb b (HnU _ Hin) HbU Hid). assumption. }
  assert (Hcases : In b n \/ (exists ca cb, c = ca ++ b :: cb /\ xrollback fx st (b_height b + 1) = XOk st')).
  { pose proof Hproc as Hproc'. unfold xprocess in Hproc'. rewrite (tip_synced _ _ Hsy) in Hproc'.
    destruct (snd (tip (L p own0 c)) =? b_prev b)%N.
    - left. destruct (xconnect_all_ok_in _ _ _ _ Hproc' b (or_introl eq_refl)) as [nb [Hin Hid]].
      apply (Hon_node nb Hin Hid).
    - rewrite (collect_synced n _ _ _ _ _ Hsy) in Hproc'.
      destruct (collect n (L p own0 c) (Datatypes.S (Z.to_nat (b_height b))) b []) as [[fk bs]|] eqn:Hcol; [|discriminate].
      destruct (xrollback fx st (fk + 1)) as [st1| |] eqn:Hrb; try discriminate.
      destruct (collect_cases _ _ _ _ _ _ _ Hcol) as [[Hm [Hf Hbs]]|Hin].
      + right. subst fk bs. cbn [xconnect_all] in Hproc'. inversion Hproc'. subst st1.
        assert (Hbc : In b c).
        { apply (matched_in p own0 c [b] b); [|left; reflexivity|assumption].
          intros b1 b2 H1 [H2|[]]. subst b2. apply U_ids; [apply HcU; assumption|assumption]. }
        apply in_split in Hbc. destruct Hbc as [ca [cb Hc]]. exists ca, cb. split; assumption.
      + left. destruct (xconnect_all_ok_in _ _ _ _ Hproc' b Hin) as [nb [Hin' Hid]].
        apply (Hon_node nb Hin' Hid). }
  destruct Hcases as [Hbn|[ca [cb [Hc Hrb]]]].
  - apply in_split in Hbn. destruct Hbn as [n1 [n3 Hn]].
    assert (Hne : n1 <> []).
    { intros Hnil. subst n1. destruct Hgn as [n' Hn']. rewrite Hn in Hn'. cbn [app] in Hn'. inversion Hn'. contradiction. }
    destruct (xprocess_on_node n D st c1 c2 n2 f b n1 n3 HS Hwfn Hgn HnU HnD Hnc Hc1 Hc2D Hwfc HcU HR Hn Hne)
      as [st'' [f' [Hp' [HR' [HS' Hsame]]]]].
    rewrite Hproc in Hp'. inversion Hp'. subst st''.
    assert (Hn' : n = (n1 ++ [b]) ++ n3). { rewrite Hn, <- app_assoc. reflexivity. }
    exists (n1 ++ [b]), [], n3, f'. rewrite app_nil_r.
    split; [assumption|]. split; [destruct n1; discriminate|]. split; [intros z []|].
    split; [rewrite Hn' in Hwfn; apply (wf_chain_prefix _ _ Hwfn); destruct n1; discriminate|].
    split; [intros z Hz; apply HnU; rewrite Hn'; apply in_or_app; left; assumption|].
    split; [assumption|]. split; assumption.
  - (* a stale announcement: the store is rolled back to b *)
    assert (Hheights : (forall z, In z (ca ++ [b]) -> b_height z < b_height b + 1) /\
                       (forall z, In z cb -> b_height b + 1 <= b_height z)).
    { assert (Hc' : c = (ca ++ [b]) ++ cb). { rewrite Hc, <- app_assoc. reflexivity. }
      rewrite Hc' in Hlc. destruct (linked_heights_split _ _ _ Hlc) as [H1 H2].
      assert (Hh : b_height b + 1 = Z.of_nat (length (ca ++ [b]))).
      { rewrite <- app_assoc in Hlc. cbn [app] in Hlc. rewrite (linked_height _ _ _ _ _ Hlc).
        rewrite app_length. cbn [length]. lia. }
      rewrite Hh. split; assumption. }
    destruct Hheights as [Hh1 Hh2].
    assert (Hcsplit : c1 ++ c2 = (ca ++ [b]) ++ cb). { fold c. rewrite Hc, <- app_assoc. reflexivity. }
    assert (Hwfpre : wf_chain (ca ++ [b])).
    { unfold c in Hwfc. rewrite Hcsplit in Hwfc. apply (wf_chain_prefix _ _ Hwfc). destruct ca; discriminate. }
    assert (HpreU : incl (ca ++ [b]) U).
    { intros z Hz. apply HcU. fold c. rewrite Hc. change (b :: cb) with ([b] ++ cb). rewrite app_assoc.
      apply in_or_app. left. assumption. }
    assert (Hbc : In b (c1 ++ c2)). { fold c. rewrite Hc. apply in_or_app. right. left. reflexivity. }
    apply in_app_or in Hbc. destruct Hbc as [Hb1|Hb2].
    + apply in_split in Hb1. destruct Hb1 as [a1 [r1 Hc1s]].
      assert (Ha1 : a1 = ca).
      { assert (Hc' : c = a1 ++ b :: (r1 ++ c2)). { unfold c. rewrite Hc1s, <- app_assoc. reflexivity. }
        apply (nodup_split_unique _ c a1 ca (r1 ++ c2) cb b (wf_chain_nodup _ Hwfc) Hc' Hc). }
      subst a1.
      destruct (xrollback_ok st c1 c2 f (ca ++ [b]) cb (b_height b + 1) (ca ++ [b]) [] r1 HS HR Hcsplit Hh1 Hh2)
        as [st1 [Hrb1 [HR1 [HS1 Hsame]]]].
      * rewrite app_nil_r. reflexivity.
      * rewrite Hc1s, <- app_assoc. reflexivity.
      * rewrite Hrb in Hrb1. inversion Hrb1. subst st1.
        exists (ca ++ [b]), [], (r1 ++ n2), (rb_marks (x_brecs st) (b_height b + 1) f). rewrite app_nil_r.
        split; [rewrite Hnc, Hc1s, <- !app_assoc; reflexivity|].
        split; [destruct ca; discriminate|]. split; [intros z []|].
        split; [assumption|]. split; [assumption|]. split; [assumption|]. split; [assumption|exact Hsame].
    + apply in_split in Hb2. destruct Hb2 as [a2 [b2 Hc2s]].
      assert (Hca : c1 ++ a2 = ca /\ b2 = cb).
      { assert (Hc' : c = (c1 ++ a2) ++ b :: b2). { unfold c. rewrite Hc2s, <- app_assoc. reflexivity. }
        apply (nodup_split_unique _ c (c1 ++ a2) ca b2 cb b (wf_chain_nodup _ Hwfc) Hc' Hc). }
      destruct Hca as [Hca Hcb]. subst ca cb.
      destruct (xrollback_ok st c1 c2 f ((c1 ++ a2) ++ [b]) b2 (b_height b + 1) c1 (a2 ++ [b]) [] HS HR Hcsplit Hh1 Hh2)
        as [st1 [Hrb1 [HR1 [HS1 Hsame]]]].
      * rewrite <- app_assoc. reflexivity.
      * rewrite app_nil_r. reflexivity.
      * rewrite Hrb in Hrb1. inversion Hrb1. subst st1.
        exists c1, (a2 ++ [b]), n2, (rb_marks (x_brecs st) (b_height b + 1) f).
        split; [assumption|]. split; [assumption|].
        split; [intros z Hz; apply Hc2D; rewrite Hc2s; apply in_app_or in Hz; apply in_or_app;
                destruct Hz as [Hz|[Hz|[]]]; [left; assumption|right; left; assumption]|].
        rewrite app_assoc.
        split; [assumption|]. split; [assumption|]. split; [assumption|]. split; [assumption|exact Hsame].
Qed.

End Processing.
