(* Ledger/RemoveProofs3.v — C08, part 3: the representation invariant of a multi-wallet store.
   [Rep own keepw cs brs c1 c2 f]: the credits [cs] of the wallets selected by [keepw] (the ready
   wallets) are exactly the coins the chain [c1 ++ c2] pays to [own], in chain order; the spent marks
   [f] are exact for the coins of [c1] (the part of the wallet's chain that is still on the node's
   best chain); every such coin's creating transaction, and the spender of every coin of [c1], is
   listed in the block records [brs] (Rollback is driven by them).  Marks of coins of [c2] (blocks the
   node has disconnected, which the next processed announcement rolls back) are not constrained.
   The lemmas: connecting a block, Rollback, a removal round, a smaller owner function. *)
From Coq Require Import List ZArith NArith Bool Lia.
Import ListNotations.
Open Scope Z_scope.
Require Import MW.Ledger.Model MW.Ledger.Spec MW.Ledger.Run MW.Ledger.WF MW.Ledger.Import MW.Ledger.Remove.
Require Import MW.Ledger.Proofs MW.Ledger.Proofs2 MW.Ledger.Proofs3 MW.Ledger.Proofs4 MW.Ledger.Proofs6.
Require Import MW.Ledger.RemoveProofs MW.Ledger.RemoveProofs2.

(* ---------------------------------------------------------------- block records *)

Lemma listed_at_app : forall a b h t, listed_at (a ++ b) h t = listed_at a h t || listed_at b h t.
Proof. intros. unfold listed_at. apply existsb_app. Qed.

Lemma memN_app : forall x a b, memN x (a ++ b) = memN x a || memN x b.
Proof. intros. unfold memN. apply existsb_app. Qed.

Lemma listed_at_add_ids_mono : forall brs h bid ids hk t,
  listed_at brs hk t = true -> listed_at (add_ids brs h bid ids) hk t = true.
Proof.
  intros brs h bid ids hk t H. unfold add_ids. destruct ids as [|i0 ir]; [assumption|].
  destruct (brec_at brs h) as [br0|].
  - unfold listed_at in *. apply existsb_exists in H. destruct H as [br [Hin Hbr]].
    apply existsb_exists.
    exists (if br_h br =? h
            then {| br_h := br_h br; br_bid := br_bid br;
                    br_txs := br_txs br ++ filter (fun i => negb (memN i (br_txs br))) (i0 :: ir) |}
            else br).
    split.
    + apply in_map_iff. exists br. split; [reflexivity|assumption].
    + destruct (br_h br =? h); [|assumption]. cbn [br_h br_txs].
      apply andb_true_iff in Hbr. destruct Hbr as [H1 H2]. rewrite H1, memN_app, H2. reflexivity.
  - rewrite listed_at_app, H. reflexivity.
Qed.

Lemma listed_at_add_ids_new : forall brs h bid ids t,
  In t ids -> listed_at (add_ids brs h bid ids) h t = true.
Proof.
  intros brs h bid ids t Hin. unfold add_ids. destruct ids as [|i0 ir]; [destruct Hin|].
  destruct (brec_at brs h) as [br0|] eqn:Hb.
  - unfold brec_at in Hb. apply find_some in Hb. destruct Hb as [Hin0 Hh0].
    unfold listed_at. apply existsb_exists.
    exists {| br_h := br_h br0; br_bid := br_bid br0;
              br_txs := br_txs br0 ++ filter (fun i => negb (memN i (br_txs br0))) (i0 :: ir) |}.
    split.
    + apply in_map_iff. exists br0. split; [|assumption]. rewrite Hh0. reflexivity.
    + cbn [br_h br_txs]. rewrite Hh0. cbn [andb]. rewrite memN_app.
      destruct (memN t (br_txs br0)) eqn:Hm; [reflexivity|]. cbn [orb].
      apply memN_true. apply filter_In. split; [assumption|]. rewrite Hm. reflexivity.
  - rewrite listed_at_app. apply orb_true_iff. right. unfold listed_at. cbn [existsb br_h br_txs].
    rewrite Z.eqb_refl. cbn [andb]. apply orb_true_iff. left. apply memN_true. assumption.
Qed.

Lemma listed_at_filter_lt : forall brs h hk t, hk < h ->
  listed_at (filter (fun br => br_h br <? h) brs) hk t = listed_at brs hk t.
Proof.
  intros brs h hk t Hlt. unfold listed_at. induction brs as [|br r IH]; [reflexivity|].
  cbn [filter existsb]. destruct (br_h br <? h) eqn:E.
  - cbn [existsb]. rewrite IH. reflexivity.
  - rewrite IH. destruct (br_h br =? hk) eqn:E2; [|reflexivity].
    apply Z.eqb_eq in E2. apply Z.ltb_ge in E. lia.
Qed.

Lemma memN_remN_neq : forall x y l, x <> y -> memN x (remN y l) = memN x l.
Proof.
  intros x y l Hne. unfold memN, remN. induction l as [|a r IH]; [reflexivity|].
  cbn [filter existsb]. destruct (a =? y)%N eqn:E; cbn [negb existsb].
  - apply N.eqb_eq in E. subst a. rewrite IH.
    destruct (x =? y)%N eqn:E2; [apply N.eqb_eq in E2; contradiction|reflexivity].
  - rewrite IH. reflexivity.
Qed.

Lemma listed_at_drop_tx_other : forall brs h0 t0 h t,
  (h <> h0 \/ t <> t0) -> listed_at (drop_tx brs h0 t0) h t = listed_at brs h t.
Proof.
  intros brs h0 t0 h t Hne. unfold listed_at, drop_tx. induction brs as [|br r IH]; [reflexivity|].
  cbn [flat_map existsb]. rewrite existsb_app, IH. f_equal.
  destruct (br_h br =? h0) eqn:E0.
  - apply Z.eqb_eq in E0.
    destruct (br_h br =? h) eqn:E.
    + apply Z.eqb_eq in E. assert (Ht : t <> t0) by (destruct Hne as [Hne|Hne]; [lia|assumption]).
      destruct (remN t0 (br_txs br)) as [|a l] eqn:Hr.
      * cbn [existsb andb]. rewrite <- (memN_remN_neq t t0 (br_txs br) Ht), Hr. reflexivity.
      * cbn [existsb br_h br_txs]. rewrite orb_false_r. rewrite <- Hr. rewrite (memN_remN_neq t t0 _ Ht).
        apply Z.eqb_eq in E. rewrite E. reflexivity.
    + destruct (remN t0 (br_txs br)) as [|a l]; [reflexivity|].
      cbn [existsb br_h]. rewrite E. reflexivity.
  - cbn [existsb]. rewrite orb_false_r. reflexivity.
Qed.

(* ---------------------------------------------------------------- small facts about the C01 notions *)

Lemma spender_l_some_full : forall l op a i hs, spender_l l op = Some (a, i, hs) ->
  exists x, In x l /\ t_cb (pt_tx x) = false /\ In op (t_ins (pt_tx x)) /\ a = t_id (pt_tx x) /\ hs = pt_h x.
Proof.
  induction l as [|x l IH]; intros op a i hs H; [discriminate|].
  cbn [spender_l] in H. destruct (spender_pt x op) as [s|] eqn:Hx.
  - inversion H. subst s. unfold spender_pt in Hx. destruct (t_cb (pt_tx x)) eqn:Hcb; [discriminate|].
    destruct (find_in_ins (t_ins (pt_tx x)) 0%N op) as [j|] eqn:Hf; [|discriminate].
    inversion Hx. exists x. split; [left; reflexivity|split; [assumption|split; [|split; reflexivity]]].
    apply (find_in_ins_some _ _ _ _ Hf).
  - destruct (IH _ _ _ _ H) as [y [Hy Hr]]. exists y. split; [right; assumption|assumption].
Qed.

Lemma rel_ins_of_nonempty : forall own all ins i op w,
  In op ins -> owned_out own all op = Some w -> rel_ins_of own all ins i <> [].
Proof.
  intros own all ins. induction ins as [|x r IH]; intros i op w Hin Hown; [destruct Hin|].
  cbn [rel_ins_of]. destruct Hin as [Hx|Hin].
  - subst x. rewrite Hown. discriminate.
  - destruct (owned_out own all x); [discriminate|]. apply (IH _ op w); assumption.
Qed.

Lemma filter_outs_nonempty : forall own t h bid outs i k,
  In k (coins_of_outs own t h bid outs i) -> filter_outs own outs i <> [].
Proof.
  intros own t h bid outs. induction outs as [|o r IH]; intros i k Hin; [destruct Hin|].
  rewrite coins_of_outs_cons in Hin. rewrite filter_outs_cons.
  destruct (out_owner own o); [discriminate|]. apply (IH _ _ Hin).
Qed.

Lemma rec_ids_listed : forall own all txs t,
  In t txs -> rec_keep (rec_of own all t) = true ->
  In (t_id t) (rec_ids (filter rec_keep (map (rec_of own all) txs))).
Proof.
  intros own all txs t Hin Hk. unfold rec_ids. apply in_map_iff. exists (rec_of own all t).
  split; [reflexivity|]. apply filter_In. split; [apply in_map; assumption|assumption].
Qed.

Lemma rec_keep_outs : forall own all t, filter_outs own (t_outs t) 0%N <> [] -> rec_keep (rec_of own all t) = true.
Proof.
  intros own all t H. unfold rec_keep, rec_of. cbn [rr_ins rr_outs].
  destruct (filter_outs own (t_outs t) 0%N); [contradiction|].
  destruct (if t_cb t then [] else rel_ins_of own all (t_ins t) 0%N); reflexivity.
Qed.

Lemma rec_keep_ins : forall own all t, t_cb t = false -> rel_ins_of own all (t_ins t) 0%N <> [] ->
  rec_keep (rec_of own all t) = true.
Proof.
  intros own all t Hcb H. unfold rec_keep, rec_of. cbn [rr_ins rr_outs]. rewrite Hcb.
  destruct (rel_ins_of own all (t_ins t) 0%N); [contradiction|reflexivity].
Qed.

Lemma in_ptxs : forall c x, In x (ptxs c) -> exists b, In b c /\ In (pt_tx x) (b_txs b) /\ pt_h x = b_height b /\ pt_bid x = b_id b.
Proof.
  intros c x Hx. unfold ptxs in Hx. apply in_flat_map in Hx. destruct Hx as [b [Hb Hx]].
  unfold ptxs_of_block in Hx. apply in_map_iff in Hx. destruct Hx as [t [Hxt Ht]]. subst x.
  exists b. cbn. tauto.
Qed.

Lemma in_chain_txs : forall c t, In t (chain_txs c) <-> exists b, In b c /\ In t (b_txs b).
Proof. intros c t. unfold chain_txs. apply in_flat_map. Qed.

(* ---------------------------------------------------------------- the representation *)

Section Rep.
Variable p : params.

Record Rep (own : owner_fn) (keepw : N -> bool) (cs : list credit) (brs : list brec)
           (c1 c2 : list block) (f : N * N -> option (N * N * Z)) : Prop := {
  rp_credits : kept keepw cs = mkE p (coins_l own (ptxs (c1 ++ c2))) f;
  rp_live : forall k, In k (coins_l own (ptxs c1)) -> f (coin_op k) = spender_l (ptxs (c1 ++ c2)) (coin_op k);
  rp_made : forall k, In k (coins_l own (ptxs (c1 ++ c2))) -> listed_at brs (k_height k) (k_tx k) = true;
  rp_spent : forall k a i hs, In k (coins_l own (ptxs c1)) -> f (coin_op k) = Some (a, i, hs) ->
             listed_at brs hs a = true
}.

(* when the whole chain is on the node, the kept credits are the ledger of the chain *)
Lemma Rep_exact : forall own keepw cs brs c f,
  Rep own keepw cs brs c [] f -> kept keepw cs = E p own (ptxs c).
Proof.
  intros own keepw cs brs c f [H1 H2 _ _]. rewrite app_nil_r in *. rewrite H1. unfold E.
  apply mkE_ext. intros k Hk. apply H2. assumption.
Qed.

Lemma coins_l_prefix_in : forall own a b k, In k (coins_l own (ptxs a)) -> In k (coins_l own (ptxs (a ++ b))).
Proof. intros own a b k H. rewrite ptxs_app, coins_l_app. apply in_or_app. left. assumption. Qed.

(* the node disconnects blocks: fewer coins are constrained *)
Lemma Rep_shrink : forall own keepw cs brs c1 r c2 f,
  Rep own keepw cs brs (c1 ++ r) c2 f -> Rep own keepw cs brs c1 (r ++ c2) f.
Proof.
  intros own keepw cs brs c1 r c2 f [H1 H2 H3 H4]. rewrite <- app_assoc in *.
  constructor; try assumption.
  - intros k Hk. apply H2. apply coins_l_prefix_in. assumption.
  - intros k a i hs Hk. apply H4. apply coins_l_prefix_in. assumption.
Qed.

(* the owner function and the selection may change where it does not matter *)
Lemma Rep_own_ext : forall own own' keepw keepw' cs brs c1 c2 f,
  (forall b t o, In b (c1 ++ c2) -> In t (b_txs b) -> In o (t_outs t) -> own (o_sh o) = own' (o_sh o)) ->
  (forall c, In c cs -> keepw (c_wallet c) = keepw' (c_wallet c)) ->
  Rep own keepw cs brs c1 c2 f -> Rep own' keepw' cs brs c1 c2 f.
Proof.
  intros own own' keepw keepw' cs brs c1 c2 f Hown Hkeep [H1 H2 H3 H4].
  assert (Hc : coins_l own' (ptxs (c1 ++ c2)) = coins_l own (ptxs (c1 ++ c2))).
  { symmetry. apply coins_l_ext. intros x o Hx Ho. destruct (in_ptxs _ _ Hx) as [b [Hb [Ht _]]].
    apply (Hown b (pt_tx x) o); assumption. }
  assert (Hc1 : coins_l own' (ptxs c1) = coins_l own (ptxs c1)).
  { symmetry. apply coins_l_ext. intros x o Hx Ho. destruct (in_ptxs _ _ Hx) as [b [Hb [Ht _]]].
    apply (Hown b (pt_tx x) o); [apply in_or_app; left; assumption|assumption|assumption]. }
  constructor; rewrite ?Hc, ?Hc1; try assumption.
  rewrite <- H1. unfold kept, keepc. apply filter_ext_in. intros c Hin. symmetry. apply Hkeep. assumption.
Qed.

(* a wallet stops being ready *)
Lemma Rep_minus : forall own keepw cs brs c1 c2 f w,
  Rep own keepw cs brs c1 c2 f ->
  Rep (own_minus own w) (fun v => keepw v && negb (v =? w)%N) cs brs c1 c2 f.
Proof.
  intros own keepw cs brs c1 c2 f w [H1 H2 H3 H4].
  assert (Hsub : forall l k, In k (coins_l (own_minus own w) l) -> In k (coins_l own l)).
  { intros l k Hk. rewrite coins_l_minus in Hk. apply filter_In in Hk. tauto. }
  constructor.
  - rewrite coins_l_minus. rewrite <- (mkE_filter p (fun v => negb (v =? w)%N)). rewrite <- H1.
    unfold kept, keepc. rewrite <- filter_andb. reflexivity.
  - intros k Hk. apply H2. apply Hsub. assumption.
  - intros k Hk. apply H3. apply Hsub. assumption.
  - intros k a i hs Hk. apply H4. apply Hsub. assumption.
Qed.

(* the stored records change, the listings that matter stay *)
Lemma Rep_brs : forall own keepw cs cs' brs brs' c1 c2 f,
  kept keepw cs' = kept keepw cs ->
  (forall k, In k (coins_l own (ptxs (c1 ++ c2))) -> listed_at brs (k_height k) (k_tx k) = true ->
             listed_at brs' (k_height k) (k_tx k) = true) ->
  (forall k a i hs, In k (coins_l own (ptxs c1)) -> f (coin_op k) = Some (a, i, hs) ->
             listed_at brs hs a = true -> listed_at brs' hs a = true) ->
  Rep own keepw cs brs c1 c2 f -> Rep own keepw cs' brs' c1 c2 f.
Proof.
  intros own keepw cs cs' brs brs' c1 c2 f Hk Hm Hs [H1 H2 H3 H4]. constructor.
  - rewrite Hk. assumption.
  - assumption.
  - intros k Hin. apply Hm; [assumption|apply H3; assumption].
  - intros k a i hs Hin Hf. apply (Hs k a i hs Hin Hf). apply (H4 k a i hs Hin Hf).
Qed.

(* ------------------------------------------------------------ connecting a block *)

Lemma Rep_connect : forall own keepw cs cs' brs c b f,
  Rep own keepw cs brs c [] f ->
  wf_txs (chain_txs (c ++ [b])) ->
  kept keepw cs' = E p own (ptxs (c ++ [b])) ->
  Rep own keepw cs'
      (add_ids brs (b_height b) (b_id b)
               (rec_ids (filter rec_keep (map (rec_of own (chain_txs (c ++ [b]))) (b_txs b)))))
      (c ++ [b]) [] (spender_l (ptxs (c ++ [b]))).
Proof.
  intros own keepw cs cs' brs c b f [H1 H2 H3 H4] Hwf Hk'.
  rewrite app_nil_r in *.
  set (all := chain_txs (c ++ [b])) in *.
  set (ids := rec_ids (filter rec_keep (map (rec_of own all) (b_txs b)))).
  assert (Hnd : NoDup (map t_id all)) by (apply (wt_ids _ Hwf)).
  assert (Hall : all = chain_txs c ++ b_txs b).
  { unfold all. rewrite chain_txs_app. cbn. rewrite app_nil_r. reflexivity. }
  assert (Hnewcoin : forall k, In k (coins_l own (ptxs [b])) ->
            exists t, In t (b_txs b) /\ k_tx k = t_id t /\ k_height k = b_height b /\
                      filter_outs own (t_outs t) 0%N <> []).
  { intros k Hk. apply coins_l_in in Hk. destruct Hk as [x [Hx Hk]].
    destruct (in_ptxs _ _ Hx) as [b' [Hb' [Ht [Hh _]]]]. destruct Hb' as [Hb'|[]]. subst b'.
    unfold coins_pt in Hk. pose proof (coins_of_outs_in _ _ _ _ _ _ _ Hk) as [Htx [Hkh _]].
    exists (pt_tx x). split; [assumption|split; [assumption|split; [congruence|]]].
    apply (filter_outs_nonempty _ _ _ _ _ _ _ Hk). }
  constructor; rewrite ?app_nil_r.
  - exact Hk'.
  - intros k _. reflexivity.
  - intros k Hk. rewrite ptxs_app, coins_l_app in Hk. apply in_app_or in Hk. destruct Hk as [Hk|Hk].
    + apply listed_at_add_ids_mono. apply H3. assumption.
    + destruct (Hnewcoin k Hk) as [t [Ht [Htx [Hh Hne]]]]. rewrite Htx, Hh.
      apply listed_at_add_ids_new. apply rec_ids_listed; [assumption|]. apply rec_keep_outs. assumption.
  - intros k a i hs Hk Hsp. rewrite ptxs_app, spender_l_app in Hsp.
    destruct (spender_l (ptxs c) (coin_op k)) as [s|] eqn:Hs1.
    + inversion Hsp. subst s. clear Hsp.
      pose proof Hk as Hk0. rewrite ptxs_app, coins_l_app in Hk0. apply in_app_or in Hk0. destruct Hk0 as [Hkc|Hkb].
      * apply listed_at_add_ids_mono. apply (H4 k a i hs Hkc). rewrite (H2 k Hkc). assumption.
      * exfalso. destruct (Hnewcoin k Hkb) as [t [Ht [Htx _]]].
        apply spender_l_some_full in Hs1. destruct Hs1 as [x [Hx [Hcb [Hop _]]]].
        assert (Hxc : In (pt_tx x) (chain_txs c)).
        { rewrite <- txs_of_ptxs. unfold txs_of. apply in_map. assumption. }
        assert (Hwfc : wf_txs (chain_txs c)). { rewrite Hall in Hwf. apply (wf_txs_prefix _ _ Hwf). }
        assert (Hknown : In (fst (coin_op k)) (map t_id (chain_txs c))).
        { apply (wf_txs_input_known _ (pt_tx x) _ Hwfc Hxc). unfold ins_of. rewrite Hcb. assumption. }
        rewrite Hall, map_app in Hnd. apply NoDup_app_inv in Hnd. destruct Hnd as [_ [_ Hdisj]].
        apply (Hdisj _ Hknown). unfold coin_op. cbn [fst]. rewrite Htx. apply in_map. assumption.
    + apply spender_l_some_full in Hsp. destruct Hsp as [x [Hx [Hcb [Hop [Ha Hhs]]]]].
      destruct (in_ptxs _ _ Hx) as [b' [Hb' [Ht [Hh _]]]]. destruct Hb' as [Hb'|[]]. subst b'.
      subst a hs. rewrite Hh. apply listed_at_add_ids_new. apply rec_ids_listed; [assumption|].
      apply rec_keep_ins; [assumption|].
      apply (rel_ins_of_nonempty own all (t_ins (pt_tx x)) 0%N (coin_op k) (k_wallet k) Hop).
      apply (coins_l_owned own (ptxs (c ++ [b])) all k Hnd); [|assumption].
      rewrite txs_of_ptxs. apply incl_refl.
Qed.

(* ------------------------------------------------------------ Rollback *)

Definition rb_credits (brs : list brec) (h : Z) (cs : list credit) : list credit :=
  map (fun c => if rb_unspend brs h c then set_spent c None else c)
      (filter (fun c => negb (rb_delete brs h c)) cs).

Definition rb_marks (brs : list brec) (h : Z) (f : N * N -> option (N * N * Z)) : N * N -> option (N * N * Z) :=
  fun op => match f op with
            | Some (a, i, hs) => if listed_from brs h a hs then None else Some (a, i, hs)
            | None => None
            end.

Lemma rb_credits_app : forall brs h a b, rb_credits brs h (a ++ b) = rb_credits brs h a ++ rb_credits brs h b.
Proof. intros. unfold rb_credits. rewrite filter_app, map_app. reflexivity. Qed.

Lemma kept_rb_credits : forall keepw brs h cs, kept keepw (rb_credits brs h cs) = rb_credits brs h (kept keepw cs).
Proof.
  intros keepw brs h cs. unfold kept, rb_credits. induction cs as [|c r IH]; [reflexivity|].
  cbn [filter]. destruct (rb_delete brs h c) eqn:Hd; destruct (keepc keepw c) eqn:Hk; cbn [negb filter map].
  - rewrite Hd. cbn [negb]. exact IH.
  - exact IH.
  - rewrite Hd. cbn [negb map].
    assert (Hk' : keepc keepw (if rb_unspend brs h c then set_spent c None else c) = true).
    { destruct (rb_unspend brs h c); [rewrite keepc_set_spent|]; assumption. }
    rewrite Hk'. f_equal. exact IH.
  - assert (Hk' : keepc keepw (if rb_unspend brs h c then set_spent c None else c) = false).
    { destruct (rb_unspend brs h c); [rewrite keepc_set_spent|]; assumption. }
    rewrite Hk'. exact IH.
Qed.

Lemma rb_credits_mkE_keep : forall brs h coins f,
  (forall k, In k coins -> listed_from brs h (k_tx k) (k_height k) = false) ->
  rb_credits brs h (mkE p coins f) = mkE p coins (rb_marks brs h f).
Proof.
  intros brs h coins f H. unfold rb_credits, mkE. induction coins as [|k r IH]; [reflexivity|].
  cbn [map filter]. unfold rb_delete at 1. cbn [mk_credit c_tx c_height].
  rewrite (H k (or_introl eq_refl)). cbn [negb map]. f_equal.
  - unfold rb_unspend, rb_marks. cbn [mk_credit c_spent]. destruct (f (coin_op k)) as [[[a i] hs]|]; [|reflexivity].
    destruct (listed_from brs h a hs); reflexivity.
  - apply IH. intros k' Hk'. apply H. right. assumption.
Qed.

Lemma rb_credits_mkE_drop : forall brs h coins f,
  (forall k, In k coins -> listed_from brs h (k_tx k) (k_height k) = true) ->
  rb_credits brs h (mkE p coins f) = [].
Proof.
  intros brs h coins f H. unfold rb_credits, mkE. induction coins as [|k r IH]; [reflexivity|].
  cbn [map filter]. unfold rb_delete at 1. cbn [mk_credit c_tx c_height].
  rewrite (H k (or_introl eq_refl)). cbn [negb]. apply IH. intros k' Hk'. apply H. right. assumption.
Qed.

Lemma coins_l_block_height : forall own c k, In k (coins_l own (ptxs c)) -> exists b, In b c /\ k_height k = b_height b.
Proof.
  intros own c k Hk. destruct (coins_l_height _ _ _ Hk) as [x [Hx Hh]].
  destruct (ptxs_height _ _ Hx) as [b [Hb Hb']]. exists b. split; [assumption|congruence].
Qed.

Lemma Rep_rollback : forall own keepw cs brs c1 c2 f pre suf h c1' c2' r1,
  Rep own keepw cs brs c1 c2 f ->
  c1 ++ c2 = pre ++ suf -> (forall b, In b pre -> b_height b < h) -> (forall b, In b suf -> h <= b_height b) ->
  pre = c1' ++ c2' -> c1 = c1' ++ r1 ->
  Rep own keepw (rb_credits brs h cs) (filter (fun br => br_h br <? h) brs) c1' c2' (rb_marks brs h f).
Proof.
  intros own keepw cs brs c1 c2 f pre suf h c1' c2' r1 [H1 H2 H3 H4] Hsplit Hpre Hsuf Hpre' Hc1.
  rewrite Hsplit in *.
  assert (Hpre_h : forall k, In k (coins_l own (ptxs pre)) -> k_height k < h).
  { intros k Hk. destruct (coins_l_block_height _ _ _ Hk) as [b [Hb Hh]]. rewrite Hh. apply Hpre. assumption. }
  assert (Hsuf_h : forall k, In k (coins_l own (ptxs suf)) -> h <= k_height k).
  { intros k Hk. destruct (coins_l_block_height _ _ _ Hk) as [b [Hb Hh]]. rewrite Hh. apply Hsuf. assumption. }
  assert (Hin1 : forall k, In k (coins_l own (ptxs c1')) -> In k (coins_l own (ptxs c1))).
  { intros k Hk. rewrite Hc1. apply coins_l_prefix_in. assumption. }
  assert (Hin1p : forall k, In k (coins_l own (ptxs c1')) -> In k (coins_l own (ptxs pre))).
  { intros k Hk. rewrite Hpre'. apply coins_l_prefix_in. assumption. }
  (* the marks of the constrained coins after the rollback *)
  assert (Hmarks : forall k, In k (coins_l own (ptxs c1')) ->
            rb_marks brs h f (coin_op k) = spender_l (ptxs pre) (coin_op k) /\
            (forall a i hs, rb_marks brs h f (coin_op k) = Some (a, i, hs) -> hs < h /\ listed_at brs hs a = true)).
  { intros k Hk. pose proof (H2 k (Hin1 k Hk)) as Hf. rewrite ptxs_app, spender_l_app in Hf.
    unfold rb_marks. destruct (spender_l (ptxs pre) (coin_op k)) as [[[a i] hs]|] eqn:Hs1.
    - rewrite Hf. destruct (spender_l_height _ _ _ _ _ Hs1) as [x [Hx Hh]].
      destruct (ptxs_height _ _ Hx) as [b [Hb Hb']]. assert (Hlt : hs < h) by (rewrite <- Hh, Hb'; apply Hpre; assumption).
      unfold listed_from. destruct (h <=? hs) eqn:Hle; [apply Z.leb_le in Hle; lia|]. cbn [andb].
      split; [reflexivity|]. intros a' i' hs' Heq. injection Heq as <- <- <-. split; [assumption|].
      apply (H4 k a i hs (Hin1 k Hk)). rewrite Hf. reflexivity.
    - destruct (spender_l (ptxs suf) (coin_op k)) as [[[a i] hs]|] eqn:Hs2.
      + rewrite Hf. destruct (spender_l_height _ _ _ _ _ Hs2) as [x [Hx Hh]].
        destruct (ptxs_height _ _ Hx) as [b [Hb Hb']]. assert (Hge : h <= hs) by (rewrite <- Hh, Hb'; apply Hsuf; assumption).
        assert (Hl : listed_at brs hs a = true). { apply (H4 k a i hs (Hin1 k Hk)). rewrite Hf. reflexivity. }
        unfold listed_from. rewrite Hl. destruct (h <=? hs) eqn:Hle; [|apply Z.leb_gt in Hle; lia]. cbn [andb].
        split; [reflexivity|]. intros; discriminate.
      + rewrite Hf. split; [reflexivity|]. intros; discriminate. }
  constructor.
  - rewrite kept_rb_credits, H1. rewrite ptxs_app, coins_l_app, mkE_app, rb_credits_app.
    rewrite rb_credits_mkE_keep, rb_credits_mkE_drop.
    + rewrite app_nil_r, <- Hpre'. reflexivity.
    + intros k Hk. unfold listed_from. rewrite (H3 k).
      * rewrite andb_true_r. apply Z.leb_le. apply Hsuf_h. assumption.
      * rewrite ptxs_app, coins_l_app. apply in_or_app. right. assumption.
    + intros k Hk. unfold listed_from. destruct (h <=? k_height k) eqn:Hle; [|reflexivity].
      apply Z.leb_le in Hle. specialize (Hpre_h k Hk). lia.
  - intros k Hk. rewrite <- Hpre'. apply (Hmarks k Hk).
  - intros k Hk. rewrite <- Hpre' in Hk. rewrite listed_at_filter_lt by (apply Hpre_h; assumption).
    apply H3. rewrite ptxs_app, coins_l_app. apply in_or_app. left. assumption.
  - intros k a i hs Hk Hf. destruct (Hmarks k Hk) as [_ Hm]. destruct (Hm a i hs Hf) as [Hlt Hl].
    rewrite listed_at_filter_lt by assumption. assumption.
Qed.

End Rep.
