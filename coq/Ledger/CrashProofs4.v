(* Ledger/CrashProofs4.v — C06 on the multi-wallet layer: crashes INSIDE the histories of C07's multi-wallet
   restore theorems (Ledger/ImportProofs3.v: one wallet restored beside ready ones, invariant [minv], histories
   [xwf]; Ledger/ImportProofs6.v / 7.v: two concurrent restores, [minv2], [xwf2]).

   The crash: the process stops — the volatile fields of the store ([x_dead], [x_p1]) and the handler's state
   are lost ([xreopen], Ledger/Resume.v) — and is started again on the same store while the node is wherever
   it is; Start ([start_sync], Ledger/Remove.v = xstep's XRestart; [start_sync_ff], Ledger/ResumeFF.v = the same
   with the fast-forward, as repaired) catches up with the node / handles a replaced tip / takes the
   fast-forward; the task queue is rebuilt from the status rows ([rebuild_queue], Ledger/Resume.v).
   What the node does while the wallet is down are ordinary XAttach / XDetach events before the restart.

   Part A  Start, generically: for ANY invariant I (chain c, store) that is kept by an announcement of a block
           of the node's chain and by connecting the node's next block, Start — with or without the
           fast-forward — succeeds from (c, st) on ANY chain n of the node (not a bare genesis) and ends in I n.
           (the proof of Ledger/ResumeFFProofs.v for [xinv], with the invariant abstracted)
   Part B  instances: [minv] and [minv2]; crash + reopen keeps them
   Part C  histories with crashes: [cev] = an event of C07's histories, or a crash + restart; [cwf] / [cwf2];
           the invariants along them; every restart succeeds and leaves the handler in step
   Part D  packaged theorems (statements: Properties/C06.v)
   Part E  boolean checkers for closed examples *)
From Coq Require Import List ZArith NArith Bool Lia Permutation.
Import ListNotations.
Open Scope Z_scope.
Require Import MW.Ledger.Model MW.Ledger.Spec MW.Ledger.Run MW.Ledger.WF MW.Ledger.Import MW.Ledger.Remove.
Require Import MW.Ledger.Proofs MW.Ledger.Proofs2 MW.Ledger.Proofs3 MW.Ledger.Proofs4 MW.Ledger.Proofs5 MW.Ledger.Proofs6.
Require Import MW.Ledger.RemoveProofs MW.Ledger.RemoveProofs2 MW.Ledger.RemoveProofs5 MW.Ledger.ImportProofs MW.Ledger.ImportProofs2.
Require Import MW.Ledger.ImportProofs3 MW.Ledger.ImportProofs4 MW.Ledger.ImportProofs5 MW.Ledger.ImportProofs6 MW.Ledger.ImportProofs7.
Require Import MW.Ledger.Resume MW.Ledger.ResumeProofs MW.Ledger.ResumeFF MW.Ledger.ResumeFFProofs.
Require MW.Ledger.Crash2.

(* ================================================================ Part A: Start, for any invariant *)

Section StartGen.
Variable p : params.
Variable g : block.
Variable U : list block.
Hypothesis U_ids : forall b1 b2, In b1 U -> In b2 U -> b_id b1 = b_id b2 -> b1 = b2.
Variable I : list block -> xstate -> Prop.
Hypothesis I_wf : forall c st, I c st -> wf_chain c.
Hypothesis I_U : forall c st, I c st -> incl c U.
Hypothesis I_synced : forall c st, I c st -> synced (x_w st) = synced_of c.
Hypothesis I_on_node : forall c n st b n1 n2, ninv g U n -> I c st -> n = n1 ++ b :: n2 -> n1 <> [] ->
  exists st', xprocess repaired p n st b = XOk st' /\ I (n1 ++ [b]) st'.
Hypothesis I_connect : forall c n st b r, ninv g U n -> I c st -> n = c ++ b :: r ->
  exists st', xconnect_block p n st b = XOk st' /\ I (c ++ [b]) st'.

Notation ninv := (ninv g U).

Lemma gen_tip : forall c st, I c st ->
  fst (tip (x_w st)) = chain_height c /\ snd (tip (x_w st)) = b_id (last c g).
Proof.
  intros c st Hinv. pose proof (I_wf _ _ Hinv) as Hwf. pose proof (I_synced _ _ Hinv) as Hsy.
  destruct (exists_last (wf_nonempty _ Hwf)) as [cpre [z Hc]].
  rewrite (xw_eta st), Hsy, Hc, tip_synced_of. cbn [fst snd]. rewrite last_last.
  destruct (wf_linked _ Hwf) as [pv Hl]. rewrite Hc in Hl.
  rewrite (linked_height _ _ _ _ _ Hl). unfold chain_height. rewrite app_length. cbn [length]. split; [lia|reflexivity].
Qed.

Lemma gen_in_step : forall c n st, ninv n -> I c st -> snd (tip (x_w st)) = b_id (last n g) -> c = n.
Proof.
  intros c n st [Hwfn [Hgn HnU]] Hinv Htip.
  pose proof (I_wf _ _ Hinv) as Hwfc. pose proof (I_U _ _ Hinv) as HcU. pose proof (I_synced _ _ Hinv) as Hsy.
  destruct (wf_linked _ Hwfn) as [pvn Hln]. destruct (wf_linked _ Hwfc) as [pvc Hlc].
  destruct (exists_last (wf_nonempty _ Hwfc)) as [cpre [z Hc]].
  pose proof (wf_nonempty _ Hwfn) as Hnne.
  pose proof (app_removelast_last g Hnne) as Hn.
  rewrite (xw_eta st), Hsy, Hc, tip_synced_of in Htip. cbn [snd] in Htip.
  assert (Hz : z = last n g).
  { apply U_ids; [| |assumption].
    - apply HcU. rewrite Hc. apply in_or_app. right. left. reflexivity.
    - apply HnU. rewrite Hn at 2. apply in_or_app. right. left. reflexivity. }
  assert (Hpre : cpre = removelast n).
  { apply (common_prefix c n pvc pvn 0 Hlc Hln (agree_U U U_ids c n HcU HnU) cpre z [] (removelast n) []).
    - assumption.
    - rewrite Hz. assumption. }
  rewrite Hc, Hn, Hpre, Hz. reflexivity.
Qed.

(* catch-up when the handler follows a prefix of the node's chain *)
Lemma catchup_prefix_gen : forall n n2 n1 st fuel,
  ninv n -> n = n1 ++ n2 -> n1 <> [] -> I n1 st -> (length n2 <= fuel)%nat ->
  exists st', catchup repaired p n st fuel = XOk st' /\ I n st'.
Proof.
  intros n n2. induction n2 as [|b n2 IH]; intros n1 st fuel Hninv Hn Hne Hinv Hfuel.
  - rewrite app_nil_r in Hn. subst n1. exists st. split; [|assumption].
    destruct fuel as [|f]; [reflexivity|]. cbn [catchup].
    destruct (gen_tip _ _ Hinv) as [Ht _]. rewrite Ht. unfold chain_height.
    rewrite node_at_beyond; [reflexivity|apply Hninv|lia].
  - destruct fuel as [|f]; [cbn [length] in Hfuel; lia|]. cbn [catchup].
    destruct (gen_tip _ _ Hinv) as [Ht _]. rewrite Ht. unfold chain_height.
    assert (Hlen : (0 < length n1)%nat) by (destruct n1; [contradiction|cbn; lia]).
    replace (Z.of_nat (length n1) - 1 + 1) with (Z.of_nat (length n1)) by lia.
    rewrite (node_at_next n n1 b n2 (proj1 Hninv) Hn).
    destruct (I_on_node n1 n st b n1 n2 Hninv Hinv Hn Hne) as [st1 [Hx Hinv1]].
    rewrite Hx. apply (IH (n1 ++ [b]) st1 f Hninv).
    + rewrite Hn, <- app_assoc. reflexivity.
    + destruct n1; discriminate.
    + assumption.
    + cbn [length] in Hfuel. lia.
Qed.

(* Remove.v's Start (= xstep's XRestart after the reopen): catch-up by height, then the tip check of the
   repaired code, from ANY chain c the handler followed, on ANY chain n of the node (but a bare genesis) *)
Theorem start_sync_gen : forall c n st,
  ninv n -> (2 <= length n)%nat -> I c st ->
  exists st', start_sync repaired p n st = XOk st' /\ I n st'.
Proof.
  intros c n st Hninv Hlen Hinv. pose proof Hninv as [Hwfn [Hgn HnU]].
  destruct (gen_tip _ _ Hinv) as [Ht Htid].
  assert (Hc0 : 0 <= chain_height c).
  { pose proof (wf_nonempty _ (I_wf _ _ Hinv)) as Hne. unfold chain_height. destruct c; [contradiction|cbn [length]; lia]. }
  unfold start_sync. cbv zeta. destruct (length n) as [|f] eqn:Hf; [lia|]. cbn [catchup]. rewrite <- Hf.
  destruct (node_at n (fst (tip (x_w st)) + 1)) as [b|] eqn:Hat.
  - destruct (node_at_split n _ b Hwfn Hat) as [n1 [n2 [Hn Hh]]].
    assert (Hne : n1 <> []). { intros E. subst n1. cbn [length] in Hh. lia. }
    destruct (I_on_node c n st b n1 n2 Hninv Hinv Hn Hne) as [st1 [Hx Hinv1]].
    rewrite Hx.
    destruct (catchup_prefix_gen n n2 (n1 ++ [b]) st1 f Hninv) as [st' [Hcu Hinv']].
    + rewrite Hn, <- app_assoc. reflexivity.
    + destruct n1; discriminate.
    + assumption.
    + rewrite Hn, app_length in Hf. cbn [length] in Hf. lia.
    + rewrite Hcu. rewrite Ht in *.
      replace (Z.of_nat (length n) - 1 <=? chain_height c) with false.
      * rewrite andb_false_r. exists st'. split; [reflexivity|assumption].
      * symmetry. apply Z.leb_gt. rewrite Hn, app_length. cbn [length]. lia.
  - assert (Hge : Z.of_nat (length n) - 1 <= fst (tip (x_w st))).
    { destruct (Z.le_gt_cases (Z.of_nat (length n)) (fst (tip (x_w st)) + 1)) as [Hle|Hgt]; [lia|].
      destruct (node_at_within n (fst (tip (x_w st)) + 1)) as [b Hb]; [lia|assumption|congruence]. }
    replace (Z.of_nat (length n) - 1 <=? fst (tip (x_w st))) with true by (symmetry; apply Z.leb_le; assumption).
    cbn [f_start_reorg repaired andb].
    pose proof (app_removelast_last g (wf_nonempty _ Hwfn)) as Hn.
    assert (Hlast : node_at n (Z.of_nat (length n) - 1) = Some (last n g)).
    { replace (Z.of_nat (length n) - 1) with (Z.of_nat (length (removelast n))).
      - apply (node_at_next n (removelast n) (last n g) [] Hwfn Hn).
      - rewrite Hn at 2. rewrite app_length. cbn [length]. lia. }
    rewrite Hlast.
    destruct (b_id (last n g) =? snd (tip (x_w st)))%N eqn:Hid.
    + apply N.eqb_eq in Hid. exists st. split; [reflexivity|].
      rewrite <- (gen_in_step c n st Hninv Hinv (eq_sym Hid)) at 1. assumption.
    + assert (Hne : removelast n <> []).
      { intros E. rewrite E in Hn. assert (Hl1 : length n = 1%nat) by (rewrite Hn; reflexivity). lia. }
      destruct (I_on_node c n st (last n g) (removelast n) [] Hninv Hinv Hn Hne) as [st1 [Hx Hinv1]].
      rewrite Hx. exists st1. split; [reflexivity|]. rewrite <- Hn in Hinv1. assumption.
Qed.

(* the fast-forward on top of a prefix of the node's chain, no wallet ready: every record written is what
   processing the block would have committed *)
Lemma ff_records_prefix_gen : forall n upto fuel n1 n2 st,
  ninv n -> n = n1 ++ n2 -> n1 <> [] -> I n1 st -> has_ready st = false ->
  exists m1 m2, n = m1 ++ m2 /\ m1 <> [] /\ I m1 (ff_records n st upto fuel).
Proof.
  intros n upto fuel. induction fuel as [|f IH]; intros n1 n2 st Hninv Hn Hne Hinv Hnr.
  - exists n1, n2. split; [assumption|split; assumption].
  - cbn [ff_records]. destruct (gen_tip _ _ Hinv) as [Ht _]. rewrite Ht. unfold chain_height.
    assert (Hlen : (0 < length n1)%nat) by (destruct n1; [contradiction|cbn; lia]).
    replace (Z.of_nat (length n1) - 1 + 1) with (Z.of_nat (length n1)) by lia.
    destruct (Z.of_nat (length n1) <? upto); [|exists n1, n2; split; [assumption|split; assumption]].
    destruct n2 as [|b n2].
    + rewrite node_at_beyond; [exists n1, []; split; [assumption|split; assumption]|apply Hninv|].
      rewrite Hn, app_nil_r. lia.
    + rewrite (node_at_next n n1 b n2 (proj1 Hninv) Hn).
      destruct (I_connect n1 n st b n2 Hninv Hinv Hn) as [st1 [Hx Hinv1]].
      rewrite (xconnect_block_none p n st b n1 n2 (proj1 Hninv) Hn Hne (has_ready_none st Hnr)) in Hx.
      inversion Hx as [Hst1]. rewrite <- Hst1 in Hinv1.
      assert (Hh : Z.of_nat (length n1) = b_height b).
      { destruct (wf_linked _ (proj1 Hninv)) as [pv Hl]. rewrite Hn in Hl. rewrite (linked_height _ _ _ _ _ Hl). lia. }
      rewrite Hh.
      apply (IH (n1 ++ [b]) n2 _ Hninv).
      * rewrite Hn, <- app_assoc. reflexivity.
      * destruct n1; discriminate.
      * exact Hinv1.
      * exact Hnr.
Qed.

Lemma tip_on_node_prefix_gen : forall c n st, ninv n -> I c st -> tip_on_node n st = true ->
  exists n2, n = c ++ n2.
Proof.
  intros c n st Hninv Hinv Hon. pose proof Hninv as [Hwfn [Hgn HnU]].
  pose proof (I_wf _ _ Hinv) as Hwfc. pose proof (I_U _ _ Hinv) as HcU.
  destruct (gen_tip _ _ Hinv) as [Ht Htid].
  unfold tip_on_node in Hon. destruct (node_at n (fst (tip (x_w st)))) as [b|] eqn:Hat; [|discriminate].
  apply N.eqb_eq in Hon. rewrite Htid in Hon.
  destruct (exists_last (wf_nonempty _ Hwfc)) as [cpre [z Hc]].
  rewrite Hc, last_last in Hon.
  destruct (node_at_in _ _ _ Hat) as [Hbn _].
  assert (Hbz : b = z).
  { apply U_ids; [apply HnU; assumption| |assumption]. apply HcU. rewrite Hc. apply in_or_app. right. left. reflexivity. }
  subst b. apply in_split in Hbn. destruct Hbn as [m1 [m2 Hn]].
  destruct (wf_linked _ Hwfn) as [pvn Hln]. destruct (wf_linked _ Hwfc) as [pvc Hlc].
  assert (Hpre : cpre = m1).
  { apply (common_prefix c n pvc pvn 0 Hlc Hln (agree_U U U_ids c n HcU HnU) cpre z [] m1 m2); assumption. }
  exists m2. rewrite Hn, Hc, Hpre, <- app_assoc. reflexivity.
Qed.

Lemma xprocess_has_ready_gen : forall n st b st',
  xprocess repaired p n st b = XOk st' -> has_ready st' = has_ready st.
Proof. intros n st b st' H. apply (xprocess_has_ready p n st b st' H). Qed.

(* Start with the fast-forward, as repaired, any margin ff *)
Theorem start_sync_ff_gen : forall ff c n st,
  0 <= ff -> ninv n -> (2 <= length n)%nat -> I c st ->
  exists st', start_sync_ff repaired p ff n st = XOk st' /\ I n st'.
Proof.
  intros ff c n st Hff0 Hninv Hlen Hinv. pose proof Hninv as [Hwfn [Hgn HnU]].
  unfold start_sync_ff. cbv zeta.
  destruct (negb (has_ready st) && (ff <? Z.of_nat (length n) - 1) &&
            (fst (tip (x_w st)) + 1 <? Z.of_nat (length n) - 1 - ff)) eqn:Hcond;
    [|apply (start_sync_gen c n st Hninv Hlen Hinv)].
  apply andb_true_iff in Hcond. destruct Hcond as [Hcond Hroom]. apply andb_true_iff in Hcond. destruct Hcond as [Hnr Hff].
  apply negb_true_iff in Hnr. apply Z.ltb_lt in Hroom. apply Z.ltb_lt in Hff.
  cbn [f_ff_check repaired andb].
  destruct (tip_on_node n st) eqn:Hon; cbn [negb].
  - destruct (tip_on_node_prefix_gen c n st Hninv Hinv Hon) as [n2 Hn].
    destruct (ff_records_prefix_gen n (Z.of_nat (length n) - 1 - ff) (length n) c n2 st Hninv Hn
                (wf_nonempty _ (I_wf _ _ Hinv)) Hinv Hnr) as [m1 [m2 [_ [_ Hinv1]]]].
    apply (start_sync_gen m1 n _ Hninv Hlen Hinv1).
  - destruct (gen_tip _ _ Hinv) as [Ht _].
    assert (Hc0 : 0 <= chain_height c).
    { pose proof (wf_nonempty _ (I_wf _ _ Hinv)) as Hne. unfold chain_height. destruct c; [contradiction|cbn [length]; lia]. }
    destruct (node_at_within n (fst (tip (x_w st)) + 1)) as [b Hat]; [lia|assumption|].
    rewrite Hat.
    destruct (node_at_split n _ b Hwfn Hat) as [n1 [n2 [Hn Hh]]].
    assert (Hne : n1 <> []). { intros E. subst n1. cbn [length] in Hh. lia. }
    destruct (I_on_node c n st b n1 n2 Hninv Hinv Hn Hne) as [st1 [Hx Hinv1]].
    rewrite Hx.
    assert (Hnr1 : has_ready st1 = false) by (rewrite (xprocess_has_ready_gen _ _ _ _ Hx); assumption).
    destruct (ff_records_prefix_gen n (Z.of_nat (length n) - 1 - ff) (length n) (n1 ++ [b]) n2 st1 Hninv) as [m1 [m2 [_ [_ Hinv2]]]].
    + rewrite Hn, <- app_assoc. reflexivity.
    + destruct n1; discriminate.
    + assumption.
    + assumption.
    + apply (start_sync_gen m1 n _ Hninv Hlen Hinv2).
Qed.

(* ---------------------------------------------------------------- the node on its bare genesis *)

(* the exclusion above (the node reorganised back to its bare genesis while the wallet is down) goes away under
   the environment assumption of T6-T8 of the single-ledger model: the genesis block's previous-hash field (the
   zero hash) is no other block's hash ([Crash2.genesis_prev_free]).  Start then finds nothing to catch up by
   height, the tip check sends the genesis block through the reorganisation path: roll-back to height 0. *)
Hypothesis I_g : forall c st, I c st -> from_g g c.
Hypothesis I_rollback : forall c st c1 y c2, I c st -> c = c1 ++ y :: c2 ->
  exists st1, xrollback repaired st (b_height y + 1) = XOk st1 /\ I (c1 ++ [y]) st1.

Lemma start_sync_bare : forall c n st,
  Crash2.genesis_prev_free g U -> ninv n -> length n = 1%nat -> I c st ->
  exists st', start_sync repaired p n st = XOk st' /\ I n st'.
Proof.
  intros c n st Hgpf Hninv Hlen Hinv.
  assert (Hn : n = [g]).
  { destruct Hninv as [_ [[n' Hn'] _]]. subst n. destruct n'; [reflexivity|cbn [length] in Hlen; lia]. }
  subst n. clear Hlen. pose proof Hninv as [Hwfn [Hgn HnU]].
  pose proof (I_wf _ _ Hinv) as Hwfc. pose proof (I_U _ _ Hinv) as HcU. pose proof (I_synced _ _ Hinv) as Hsy.
  destruct (I_g _ _ Hinv) as [c2 Hc].
  destruct (gen_tip _ _ Hinv) as [Ht Htid].
  assert (Hc0 : 0 <= chain_height c).
  { unfold chain_height. rewrite Hc. cbn [length]. lia. }
  unfold start_sync. cbv zeta. cbn [length catchup].
  rewrite (node_at_beyond [g] (fst (tip (x_w st)) + 1) Hwfn) by (cbn [length]; lia).
  assert (Hle : (Z.of_nat 1 - 1 <=? fst (tip (x_w st))) = true) by (apply Z.leb_le; lia).
  rewrite Hle. cbn [f_start_reorg repaired andb].
  pose proof (node_at_next [g] [] g [] Hwfn eq_refl) as Hat. cbn [length] in Hat.
  change (Z.of_nat 1 - 1) with (Z.of_nat 0). rewrite Hat.
  destruct (b_id g =? snd (tip (x_w st)))%N eqn:Hid.
  - apply N.eqb_eq in Hid. exists st. split; [reflexivity|].
    rewrite <- (gen_in_step c [g] st Hninv Hinv (eq_sym Hid)) at 1. assumption.
  - assert (Hpv : (snd (tip (x_w st)) =? b_prev g)%N = false).
    { apply N.eqb_neq. intros E. rewrite Htid in E.
      assert (HlU : In (last c g) U).
      { apply HcU. pose proof (app_removelast_last g (wf_nonempty _ Hwfc)) as Hl. rewrite Hl at 2.
        apply in_or_app. right. left. reflexivity. }
      rewrite (Hgpf _ HlU E) in Htid. rewrite Htid, N.eqb_refl in Hid. discriminate. }
    unfold xprocess. rewrite Hpv.
    destruct (wf_linked _ Hwfn) as [pvn Hln]. destruct (wf_linked _ Hwfc) as [pvc Hlc].
    pose proof (agree_U U U_ids c [g] HcU HnU) as Hids.
    assert (Hgen : same_genesis c [g]) by (exists g, c2, []; split; [assumption|reflexivity]).
    destruct (collect_spec p (fun _ => None) c [g] pvc pvn Hlc Hln (wf_bids _ Hwfn) Hgen Hids
                (S (Z.to_nat (b_height g))) [] g [] [] eq_refl ltac:(cbn [length]; lia)) as [m1 [y [m2 [Hsplit [Hy Hcol]]]]].
    rewrite (collect_synced_ext [g] (x_w st) (L p (fun _ => None) c)) by (rewrite Hsy; reflexivity).
    rewrite Hcol.
    assert (Hym : y = g /\ m2 = []).
    { destruct m1 as [|z m1']; cbn [app] in Hsplit.
      - inversion Hsplit. split; reflexivity.
      - inversion Hsplit as [[Hz Hr]]. destruct m1'; discriminate. }
    destruct Hym as [-> ->].
    destruct (I_rollback c st [] g c2 Hinv Hc) as [st1 [Hrb Hinv1]]. rewrite Hrb. cbn [xconnect_all].
    exists st1. split; [reflexivity|exact Hinv1].
Qed.

Definition node_ok (n : node) : Prop := (2 <= length n)%nat \/ Crash2.genesis_prev_free g U.

Theorem start_sync_gen2 : forall c n st,
  ninv n -> node_ok n -> I c st ->
  exists st', start_sync repaired p n st = XOk st' /\ I n st'.
Proof.
  intros c n st Hninv Hok Hinv.
  destruct (le_lt_dec 2 (length n)) as [H2|H1]; [apply (start_sync_gen c n st Hninv H2 Hinv)|].
  destruct Hok as [H2|Hgpf]; [lia|].
  assert (Hlen : length n = 1%nat).
  { pose proof (wf_nonempty _ (proj1 Hninv)) as Hne. destruct n; [contradiction|cbn [length] in *; lia]. }
  apply (start_sync_bare c n st Hgpf Hninv Hlen Hinv).
Qed.

Theorem start_sync_ff_gen2 : forall ff c n st,
  0 <= ff -> ninv n -> node_ok n -> I c st ->
  exists st', start_sync_ff repaired p ff n st = XOk st' /\ I n st'.
Proof.
  intros ff c n st Hff Hninv Hok Hinv.
  destruct (le_lt_dec 2 (length n)) as [H2|H1]; [apply (start_sync_ff_gen ff c n st Hff Hninv H2 Hinv)|].
  rewrite start_sync_ff_off; [apply (start_sync_gen2 c n st Hninv Hok Hinv)|].
  replace (ff <? Z.of_nat (length n) - 1) with false; [apply andb_false_r|].
  symmetry. apply Z.ltb_ge. lia.
Qed.

End StartGen.

(* ================================================================ Part B: the instances *)

(* crash + reopen keeps the invariants: they speak of persistent fields and of [x_dead = []] only *)
Lemma minv_xreopen : forall p g U w keysA c st, minv p g U w keysA c st -> minv p g U w keysA c (xreopen st).
Proof.
  intros p g U w keysA c st [H1 H2 H3 H4 H5 H6 H7 H8 H9]. constructor; try assumption; try reflexivity.
Qed.

Lemma minv2_xreopen : forall p g U w1 w2 keysA c st,
  minv2 p g U w1 w2 keysA c st -> minv2 p g U w1 w2 keysA c (xreopen st).
Proof.
  intros p g U w1 w2 keysA c st [H1 H2 H3 H4 H5 H6 H7 H8 H9]. constructor; try assumption; try reflexivity.
Qed.

(* the two forms of Start: [None] = Remove.v's Start (what xstep's XRestart runs), [Some ff] = with the
   fast-forward of margin ff, as repaired (ResumeFF.v) *)
Definition start_of (p : params) (ff : option Z) (n : node) (st : xstate) : xres xstate :=
  match ff with
  | Some f => start_sync_ff repaired p f n st
  | None => start_sync repaired p n st
  end.

Definition ff_ok (ff : option Z) : Prop := match ff with Some f => 0 <= f | None => True end.

Section StartInstances.
Variable p : params.
Variable g : block.
Variable U : list block.
Hypothesis U_ids : forall b1 b2, In b1 U -> In b2 U -> b_id b1 = b_id b2 -> b1 = b2.

(* T: one wallet being restored beside ready ones: crash at ANY state of the invariant, the handler having
   followed ANY chain c, the node on ANY chain n when the process comes back: Start succeeds and the handler
   then follows n, with the invariant (cursor pulled back below the fork) *)
Theorem restart_minv : forall w keysA ff c n st,
  ff_ok ff -> ninv g U n -> node_ok g U n -> minv p g U w keysA c st ->
  exists st', start_of p ff n (xreopen st) = XOk st' /\ minv p g U w keysA n st'.
Proof.
  intros w keysA ff c n st Hff Hn Hlen Hinv. apply minv_xreopen in Hinv.
  destruct ff as [f|]; cbn [start_of ff_ok] in *.
  - apply (start_sync_ff_gen2 p g U U_ids (minv p g U w keysA)) with (c := c); try assumption.
    + intros c0 st0 H. apply (mi_wf _ _ _ _ _ _ _ H).
    + intros c0 st0 H. apply (mi_U _ _ _ _ _ _ _ H).
    + intros c0 st0 H. apply (mi_synced _ _ _ _ _ _ _ H).
    + apply (mprocess_on_node p g U U_ids w keysA).
    + apply (mconnect_block_inv p g U w keysA).
    + intros c0 st0 H. apply (mi_g _ _ _ _ _ _ _ H).
    + apply (mrollback_own p g U w keysA).
  - apply (start_sync_gen2 p g U U_ids (minv p g U w keysA)) with (c := c); try assumption.
    + intros c0 st0 H. apply (mi_wf _ _ _ _ _ _ _ H).
    + intros c0 st0 H. apply (mi_U _ _ _ _ _ _ _ H).
    + intros c0 st0 H. apply (mi_synced _ _ _ _ _ _ _ H).
    + apply (mprocess_on_node p g U U_ids w keysA).
    + intros c0 st0 H. apply (mi_g _ _ _ _ _ _ _ H).
    + apply (mrollback_own p g U w keysA).
Qed.

(* T: the same with TWO wallets being restored, each with a cursor of its own *)
Theorem restart_minv2 : forall w1 w2, w1 <> w2 -> forall keysA ff c n st,
  ff_ok ff -> ninv g U n -> node_ok g U n -> minv2 p g U w1 w2 keysA c st ->
  exists st', start_of p ff n (xreopen st) = XOk st' /\ minv2 p g U w1 w2 keysA n st'.
Proof.
  intros w1 w2 w12 keysA ff c n st Hff Hn Hlen Hinv. apply minv2_xreopen in Hinv.
  destruct ff as [f|]; cbn [start_of ff_ok] in *.
  - apply (start_sync_ff_gen2 p g U U_ids (minv2 p g U w1 w2 keysA)) with (c := c); try assumption.
    + intros c0 st0 H. apply (m2_wf _ _ _ _ _ _ _ _ H).
    + intros c0 st0 H. apply (m2_U _ _ _ _ _ _ _ _ H).
    + intros c0 st0 H. apply (m2_synced _ _ _ _ _ _ _ _ H).
    + apply (mprocess2_on_node p g U U_ids w1 w2 w12 keysA).
    + apply (mconnect2_block_inv p g U w1 w2 w12 keysA).
    + intros c0 st0 H. apply (m2_g _ _ _ _ _ _ _ _ H).
    + apply (mrollback2_own p g U w1 w2 w12 keysA).
  - apply (start_sync_gen2 p g U U_ids (minv2 p g U w1 w2 keysA)) with (c := c); try assumption.
    + intros c0 st0 H. apply (m2_wf _ _ _ _ _ _ _ _ H).
    + intros c0 st0 H. apply (m2_U _ _ _ _ _ _ _ _ H).
    + intros c0 st0 H. apply (m2_synced _ _ _ _ _ _ _ _ H).
    + apply (mprocess2_on_node p g U U_ids w1 w2 w12 keysA).
    + intros c0 st0 H. apply (m2_g _ _ _ _ _ _ _ _ H).
    + apply (mrollback2_own p g U w1 w2 w12 keysA).
Qed.

End StartInstances.

(* ================================================================ Part C: histories with crashes *)

(* an event of C07's histories, or: the process stops and is started again ([None]: Remove.v's Start, what
   xstep's XRestart runs; [Some ff]: Start with its fast-forward of margin ff, as repaired).  What the node does
   while the wallet is down are XAttach / XDetach events before the restart. *)
Inductive cev :=
| CEv (e : xevent)
| CRestart (ff : option Z).

Definition crestart (p : params) (ff : option Z) (s : xsim) : xsim :=
  match start_of p ff (xs_node s) (xreopen (xs_st s)) with
  | XOk st' => {| xs_node := xs_node s; xs_st := st'; xs_all := xs_all s; xs_crashed := false |}
  | XErr => {| xs_node := xs_node s; xs_st := xreopen (xs_st s); xs_all := xs_all s; xs_crashed := false |}
  | XPanic => {| xs_node := xs_node s; xs_st := xreopen (xs_st s); xs_all := xs_all s; xs_crashed := true |}
  end.

(* without the fast-forward it is the XRestart of Remove.v's event system *)
Lemma crestart_none : forall p B cap s, crestart p None s = xstep repaired p B cap s XRestart.
Proof. reflexivity. Qed.

Definition cstep (p : params) (B cap : Z) (s : xsim) (ce : cev) : xsim :=
  match ce with
  | CEv e => xstep repaired p B cap s e
  | CRestart ff => crestart p ff s
  end.

Definition crun (p : params) (B cap : Z) (h : list cev) (s : xsim) : xsim := fold_left (cstep p B cap) h s.

Lemma crun_lift : forall p B cap h s, crun p B cap (map CEv h) s = fold_left (xstep repaired p B cap) h s.
Proof. intros p B cap. induction h as [|e r IH]; intros s; [reflexivity|]. cbn [map]. unfold crun in *. cbn [fold_left cstep]. apply IH. Qed.

Lemma crun_app : forall p B cap h1 h2 s, crun p B cap (h1 ++ h2) s = crun p B cap h2 (crun p B cap h1 s).
Proof. intros. unfold crun. apply fold_left_app. Qed.

(* the environment at a restart: a non-negative margin; the node is not on a bare genesis (the exclusion of
   C06_ff_restart_any_chain and of T2/T3 of the single-ledger model) — or it may be, under the environment
   assumption of T6-T8: the genesis block's previous-hash field is no other block's hash ([node_ok]) *)
Definition restart_ok (g : block) (U : list block) (ff : option Z) (s : xsim) : Prop :=
  ff_ok ff /\ node_ok g U (xs_node s).

Definition is_crestart (ce : cev) : bool := match ce with CRestart _ => true | _ => false end.

Lemma synced_tip_last : forall g c st, wf_chain c -> synced (x_w st) = synced_of c ->
  snd (tip (x_w st)) = b_id (last c g).
Proof.
  intros g c st Hwf Hsy. destruct (exists_last (wf_nonempty _ Hwf)) as [cpre [z Hc]].
  rewrite (xw_eta st), Hsy, Hc, tip_synced_of. cbn [snd]. rewrite last_last. reflexivity.
Qed.

Lemma in_queue_importing : forall st w k, status_of st w = Some (WImporting k) -> In (w, false) (rebuild_queue st).
Proof.
  intros st w k H. unfold status_of in H. unfold rebuild_queue.
  induction (x_status st) as [|[k0 v0] r IH]; [discriminate|].
  cbn [lookupN] in H. cbn [flat_map fst snd]. destruct (k0 =? w)%N eqn:E.
  - apply N.eqb_eq in E. subst k0. inversion H. subst v0. left. reflexivity.
  - apply in_or_app. right. apply IH. assumption.
Qed.

Section CrashHistory.
Variable p : params.
Variable g : block.
Variable U : list block.
Hypothesis U_ids : forall b1 b2, In b1 U -> In b2 U -> b_id b1 = b_id b2 -> b1 = b2.
Variable B cap : Z.
Hypothesis B_pos : 0 < B.

(* ---------------------------------------------------------------- one restore *)

Definition cev_ok (w : N) (s : xsim) (ce : cev) : Prop :=
  match ce with
  | CEv e => ev_ok g U w s e
  | CRestart ff => restart_ok g U ff s
  end.

Fixpoint cwf (w : N) (s : xsim) (h : list cev) : Prop :=
  match h with
  | [] => True
  | ce :: r => cev_ok w s ce /\ cwf w (cstep p B cap s ce) r
  end.

Lemma cwf_app : forall w h1 h2 s, cwf w s (h1 ++ h2) <-> cwf w s h1 /\ cwf w (crun p B cap h1 s) h2.
Proof.
  intros w. induction h1 as [|ce r IH]; intros h2 s.
  - cbn. tauto.
  - cbn [app cwf]. unfold crun in *. cbn [fold_left]. rewrite IH. tauto.
Qed.

Lemma xwf_cwf : forall w h s, xwf p g U w B cap s h -> cwf w s (map CEv h).
Proof.
  intros w. induction h as [|e r IH]; intros s H; [exact Logic.I|].
  destruct H as [He Hr]. cbn [map cwf cev_ok cstep]. split; [assumption|apply IH; assumption].
Qed.

(* a restart at any state of the invariant *)
Lemma crestart_sinv_m : forall w keysA ff s, sinv_m p g U w keysA s -> restart_ok g U ff s ->
  let s' := crestart p ff s in
  start_of p ff (xs_node s) (xreopen (xs_st s)) = XOk (xs_st s') /\ xs_node s' = xs_node s /\
  xs_crashed s' = false /\ minv p g U w keysA (xs_node s') (xs_st s').
Proof.
  intros w keysA ff s [Hcr [Hninv [c Hinv]]] [Hff Hlen].
  destruct (restart_minv p g U U_ids w keysA ff c _ _ Hff Hninv Hlen Hinv) as [st' [Hs Hinv']].
  cbv zeta. unfold crestart. rewrite Hs. cbn [xs_st xs_node xs_crashed].
  split; [reflexivity|split; [reflexivity|split; [reflexivity|assumption]]].
Qed.

Lemma csinv_m_step : forall w keysA s ce, sinv_m p g U w keysA s -> cev_ok w s ce ->
  sinv_m p g U w keysA (cstep p B cap s ce).
Proof.
  intros w keysA s ce Hs Hok. destruct ce as [e|ff]; cbn [cev_ok cstep] in *.
  - destruct Hs as [Hcr [Hninv [c Hinv]]]. apply (minv_step p g U U_ids w B cap B_pos keysA s e c Hcr Hninv Hinv Hok).
  - destruct (crestart_sinv_m w keysA ff s Hs Hok) as [_ [Hn [Hcr Hinv]]].
    split; [assumption|]. split; [rewrite Hn; apply Hs|]. eexists. exact Hinv.
Qed.

Lemma csinv_m_run : forall w keysA h s, sinv_m p g U w keysA s -> cwf w s h ->
  sinv_m p g U w keysA (crun p B cap h s).
Proof.
  intros w keysA. induction h as [|ce r IH]; intros s Hs Hwf; [assumption|].
  destruct Hwf as [Hok Hr]. unfold crun in *. cbn [fold_left]. apply IH; [|assumption].
  apply csinv_m_step; assumption.
Qed.

(* ---------------------------------------------------------------- two restores *)

Definition cev_ok2 (w1 w2 : N) (s : xsim) (ce : cev) : Prop :=
  match ce with
  | CEv e => ev_ok2 g U w1 w2 s e
  | CRestart ff => restart_ok g U ff s
  end.

Fixpoint cwf2 (w1 w2 : N) (s : xsim) (h : list cev) : Prop :=
  match h with
  | [] => True
  | ce :: r => cev_ok2 w1 w2 s ce /\ cwf2 w1 w2 (cstep p B cap s ce) r
  end.

Lemma cwf2_app : forall w1 w2 h1 h2 s, cwf2 w1 w2 s (h1 ++ h2) <-> cwf2 w1 w2 s h1 /\ cwf2 w1 w2 (crun p B cap h1 s) h2.
Proof.
  intros w1 w2. induction h1 as [|ce r IH]; intros h2 s.
  - cbn. tauto.
  - cbn [app cwf2]. unfold crun in *. cbn [fold_left]. rewrite IH. tauto.
Qed.

Lemma xwf2_cwf2 : forall w1 w2 h s, xwf2 p g U w1 w2 B cap s h -> cwf2 w1 w2 s (map CEv h).
Proof.
  intros w1 w2. induction h as [|e r IH]; intros s H; [exact Logic.I|].
  destruct H as [He Hr]. cbn [map cwf2 cev_ok2 cstep]. split; [assumption|apply IH; assumption].
Qed.

Lemma crestart_sinv2 : forall w1 w2, w1 <> w2 -> forall keysA ff s, sinv2 p g U w1 w2 keysA s -> restart_ok g U ff s ->
  let s' := crestart p ff s in
  start_of p ff (xs_node s) (xreopen (xs_st s)) = XOk (xs_st s') /\ xs_node s' = xs_node s /\
  xs_crashed s' = false /\ minv2 p g U w1 w2 keysA (xs_node s') (xs_st s').
Proof.
  intros w1 w2 w12 keysA ff s [Hcr [Hninv [c Hinv]]] [Hff Hlen].
  destruct (restart_minv2 p g U U_ids w1 w2 w12 keysA ff c _ _ Hff Hninv Hlen Hinv) as [st' [Hs Hinv']].
  cbv zeta. unfold crestart. rewrite Hs. cbn [xs_st xs_node xs_crashed].
  split; [reflexivity|split; [reflexivity|split; [reflexivity|assumption]]].
Qed.

Lemma csinv2_step : forall w1 w2, w1 <> w2 -> forall keysA s ce, sinv2 p g U w1 w2 keysA s -> cev_ok2 w1 w2 s ce ->
  sinv2 p g U w1 w2 keysA (cstep p B cap s ce).
Proof.
  intros w1 w2 w12 keysA s ce Hs Hok. destruct ce as [e|ff]; cbn [cev_ok2 cstep] in *.
  - destruct Hs as [Hcr [Hninv [c Hinv]]]. apply (minv2_step p g U U_ids w1 w2 w12 B cap B_pos keysA s e c Hcr Hninv Hinv Hok).
  - destruct (crestart_sinv2 w1 w2 w12 keysA ff s Hs Hok) as [_ [Hn [Hcr Hinv]]].
    split; [assumption|]. split; [rewrite Hn; apply Hs|]. eexists. exact Hinv.
Qed.

Lemma csinv2_run : forall w1 w2, w1 <> w2 -> forall keysA h s, sinv2 p g U w1 w2 keysA s -> cwf2 w1 w2 s h ->
  sinv2 p g U w1 w2 keysA (crun p B cap h s).
Proof.
  intros w1 w2 w12 keysA. induction h as [|ce r IH]; intros s Hs Hwf; [assumption|].
  destruct Hwf as [Hok Hr]. unfold crun in *. cbn [fold_left]. apply IH; [|assumption].
  apply csinv2_step; assumption.
Qed.

(* two databases that both equal the live run of the same keystore table over the same chain *)
Lemma equals_live_all_same : forall st1 st2 n, x_keys st1 = x_keys st2 ->
  equals_live_all p st1 n -> equals_live_all p st2 n ->
  synced (x_w st1) = synced (x_w st2) /\
  Permutation (credits (x_w st1)) (credits (x_w st2)) /\
  forall v, proj v (credits (x_w st1)) = proj v (credits (x_w st2)) /\ xreport st1 v = xreport st2 v.
Proof.
  intros st1 st2 n Hk [l1 [Hl1 [Hs1 [Hp1 Ha1]]]] [l2 [Hl2 [Hs2 [Hp2 Ha2]]]].
  assert (Hko : key_owner st1 = key_owner st2) by (unfold key_owner; rewrite Hk; reflexivity).
  rewrite Hko in Hl1. rewrite Hl1 in Hl2. inversion Hl2. subst l2.
  split; [congruence|]. split.
  - eapply Permutation_trans; [exact Hp1|apply Permutation_sym; exact Hp2].
  - intros v. destruct (Ha1 v) as [A1 R1]. destruct (Ha2 v) as [A2 R2]. split; [congruence|].
    rewrite R1, R2, Hko. reflexivity.
Qed.

End CrashHistory.

(* ================================================================ Part D: packaged *)

Section CrashPackaged.
Variable p : params.
Variable g : block.
Variable U : list block.
Hypothesis U_ids : forall b1 b2, In b1 U -> In b2 U -> b_id b1 = b_id b2 -> b1 = b2.
Variable w : N.
Variable keys0 : list (N * N).
Variable B cap : Z.
Hypothesis B_pos : 0 < B.
Variables (pass sh : N) (shs : list N).
Variables (c0 n0 : list block) (all0 : list tx) (st0 st1 : xstate).
Hypothesis node0 : ninv g U n0.
Hypothesis start0 : minv p g U w keys0 c0 st0.
Hypothesis absent0 : status_of st0 w = None.
Hypothesis nokeys0 : forall s, ownW w keys0 s = None.
Hypothesis disjoint0 : forall s, In s (sh :: shs) -> lookupN keys0 s = None.
Hypothesis import0 : import_start st0 w pass (sh :: shs) = Some st1.

Let keysA := keys0 ++ keys_of w (sh :: shs).
Let s0 := {| xs_node := n0; xs_st := st1; xs_all := all0; xs_crashed := false |}.

Lemma cstart_sinv_m : sinv_m p g U w keysA s0.
Proof. exact (start_sinv_m p g U w keys0 pass sh shs c0 n0 all0 st0 st1 node0 start0 absent0 nokeys0 import0). Qed.

(* T: the setting of [import_equals_live_multi] (w restored into a database of ready wallets), ANY history of
   its events INTERLEAVED WITH ANY NUMBER OF CRASH + RESTARTS at any positions (between any two commits: a batch,
   an announcement, a reorganisation), the node doing anything while the wallet is down.  At every point:
   the invariant; no restart fails; the task is alive; while w is not ready it cannot be selected and it IS in
   the queue Start rebuilds (the restore is resumed); in step and handed over, the whole database is the live
   run of all wallets over the node's chain *)
Theorem crash_during_import_multi : forall h, cwf p g U B cap w s0 h ->
  let s := crun p B cap h s0 in
  sinv_m p g U w keysA s /\
  (in_step g s -> status_of (xs_st s) w = Some WReady -> equals_live_all p (xs_st s) (xs_node s)) /\
  (status_of (xs_st s) w <> Some WReady ->
     use_wallet (xs_st s) w = UUnready /\ In (w, false) (rebuild_queue (xs_st s)) /\
     rebuild_queue (xreopen (xs_st s)) = rebuild_queue (xs_st s)) /\
  x_dead (xs_st s) = [] /\ xs_crashed s = false.
Proof.
  intros h Hwf s. pose proof (csinv_m_run p g U U_ids B cap B_pos w keysA h s0 cstart_sinv_m Hwf) as Hs. fold s in Hs.
  split; [assumption|]. split; [|split; [|split]].
  - intros Hstep Hr. apply (sinv_m_correct p g U U_ids w keysA s Hs Hstep Hr).
  - intros Hnr. destruct Hs as [_ [_ [c Hinv]]].
    pose proof (never_absent p g U w keys0 sh shs disjoint0 c _ Hinv) as Hna.
    split; [apply (minv_unready p g U w keysA c _ Hinv Hnr Hna)|]. split; [|reflexivity].
    destruct (mi_state _ _ _ _ _ _ _ Hinv) as [top [[Hsi|[_ [Hsr|[Hsn _]]]] _]]; try contradiction.
    apply (in_queue_importing _ _ top Hsi).
  - destruct Hs as [_ [_ [c Hinv]]]. apply (mi_dead _ _ _ _ _ _ _ Hinv).
  - destruct Hs as [Hc _]. assumption.
Qed.

(* T: every restart of such a history succeeds (the wallet opens), whatever chain the node is on, and leaves
   the handler IN STEP with the node, the store holding w's history of the node's chain up to the (pulled-back)
   cursor and everybody else's history of all of it *)
Theorem crash_restart_in_step : forall h ff, cwf p g U B cap w s0 (h ++ [CRestart ff]) ->
  let s1 := crun p B cap h s0 in
  let s := crun p B cap (h ++ [CRestart ff]) s0 in
  start_of p ff (xs_node s1) (xreopen (xs_st s1)) = XOk (xs_st s) /\ xs_node s = xs_node s1 /\
  in_step g s /\ minv p g U w keysA (xs_node s) (xs_st s).
Proof.
  intros h ff Hwf s1 s. apply (cwf_app p g U B cap) in Hwf. destruct Hwf as [Hwf1 [Hok _]]. fold s1 in Hok.
  pose proof (csinv_m_run p g U U_ids B cap B_pos w keysA h s0 cstart_sinv_m Hwf1) as Hs1. fold s1 in Hs1.
  assert (Hse : s = crestart p ff s1). { unfold s. rewrite crun_app. reflexivity. }
  destruct (crestart_sinv_m p g U U_ids w keysA ff s1 Hs1 Hok) as [Hst [Hn [_ Hinv]]].
  rewrite Hse. split; [assumption|]. split; [assumption|]. split; [|assumption].
  unfold in_step. apply synced_tip_last; [apply (mi_wf _ _ _ _ _ _ _ Hinv)|apply (mi_synced _ _ _ _ _ _ _ Hinv)].
Qed.

(* T: liveness after any such history: in step (e.g. right after a restart), m further batches with a static chain
   make w ready as soon as cursor + m * B exceeds the height; the database is then the live run of all *)
Theorem crash_import_live : forall h m, cwf p g U B cap w s0 h ->
  let s := crun p B cap h s0 in
  in_step g s ->
  (forall k, status_of (xs_st s) w = Some (WImporting k) -> chain_height (xs_node s) < k + Z.of_nat m * B) ->
  let s' := crun p B cap (h ++ map CEv (repeat (XBatch w) m)) s0 in
  xs_node s' = xs_node s /\ in_step g s' /\ status_of (xs_st s') w = Some WReady /\
  equals_live_all p (xs_st s') (xs_node s').
Proof.
  intros h m Hwf s Hstep Hm s'.
  pose proof (csinv_m_run p g U U_ids B cap B_pos w keysA h s0 cstart_sinv_m Hwf) as Hs. fold s in Hs.
  pose proof (sinv_m_in_step p g U U_ids w keysA s Hs Hstep) as Hinv.
  pose proof Hs as [Hcr [Hninv _]].
  assert (Hs'eq : s' = with_st s (batches repaired p B (xs_node s) (xs_st s) w m)).
  { unfold s'. rewrite crun_app. fold s. rewrite crun_lift. apply fold_batches. }
  pose proof (mbatches_inv p g U U_ids w keysA B (xs_node s) m _ _ Hninv B_pos Hinv) as Hinv'.
  assert (Hr : status_of (batches repaired p B (xs_node s) (xs_st s) w m) w = Some WReady).
  { destruct (mi_state _ _ _ _ _ _ _ Hinv) as [top [[Hsi|[_ [Hsr|[Hsn _]]]] _]].
    - apply (mbatches_live p g U U_ids w keysA B _ m _ top Hninv B_pos Hinv Hsi). apply Hm. assumption.
    - rewrite batches_ready; assumption.
    - exfalso. apply (never_absent p g U w keys0 sh shs disjoint0 _ _ Hinv Hsn). }
  assert (Hstep' : in_step g s').
  { rewrite Hs'eq. unfold in_step in *. cbn [with_st xs_node xs_st]. unfold tip in *. rewrite batches_keep_synced. assumption. }
  assert (Hsinv' : sinv_m p g U w keysA s').
  { rewrite Hs'eq. split; [assumption|]. split; [assumption|]. eexists. exact Hinv'. }
  split; [rewrite Hs'eq; reflexivity|]. split; [assumption|].
  assert (Hr' : status_of (xs_st s') w = Some WReady) by (rewrite Hs'eq; exact Hr).
  split; [assumption|]. apply (sinv_m_correct p g U U_ids w keysA s' Hsinv' Hstep' Hr').
Qed.

(* COROLLARY, "= the run that never stopped": two runs from the same start — each with crashes and restarts
   anywhere, in particular one with crashes and one without — that end in step with the node on the same chain,
   w handed over: the same synced chain, the same credits (every wallet's, in order, spent marks included), the
   same reports.  Both equal the live ledger. *)
Theorem crash_runs_agree : forall ha hb, cwf p g U B cap w s0 ha -> cwf p g U B cap w s0 hb ->
  let sa := crun p B cap ha s0 in
  let sb := crun p B cap hb s0 in
  xs_node sa = xs_node sb -> in_step g sa -> in_step g sb ->
  status_of (xs_st sa) w = Some WReady -> status_of (xs_st sb) w = Some WReady ->
  synced (x_w (xs_st sa)) = synced (x_w (xs_st sb)) /\
  Permutation (credits (x_w (xs_st sa))) (credits (x_w (xs_st sb))) /\
  forall v, proj v (credits (x_w (xs_st sa))) = proj v (credits (x_w (xs_st sb))) /\
            xreport (xs_st sa) v = xreport (xs_st sb) v.
Proof.
  intros ha hb Ha Hb sa sb Hn Hia Hib Hra Hrb.
  destruct (crash_during_import_multi ha Ha) as [Hsa [Hla _]]. fold sa in Hsa, Hla.
  destruct (crash_during_import_multi hb Hb) as [Hsb [Hlb _]]. fold sb in Hsb, Hlb.
  specialize (Hla Hia Hra). specialize (Hlb Hib Hrb). rewrite <- Hn in Hlb.
  apply (equals_live_all_same p _ _ (xs_node sa)); try assumption.
  destruct Hsa as [_ [_ [ca Hca]]]. destruct Hsb as [_ [_ [cb Hcb]]].
  rewrite (mi_keys _ _ _ _ _ _ _ Hca), (mi_keys _ _ _ _ _ _ _ Hcb). reflexivity.
Qed.

Corollary crash_run_equals_uninterrupted : forall hc hx, cwf p g U B cap w s0 hc -> xwf p g U w B cap s0 hx ->
  let sc := crun p B cap hc s0 in
  let sx := fold_left (xstep repaired p B cap) hx s0 in
  xs_node sc = xs_node sx -> in_step g sc -> in_step g sx ->
  status_of (xs_st sc) w = Some WReady -> status_of (xs_st sx) w = Some WReady ->
  synced (x_w (xs_st sc)) = synced (x_w (xs_st sx)) /\
  Permutation (credits (x_w (xs_st sc))) (credits (x_w (xs_st sx))) /\
  forall v, proj v (credits (x_w (xs_st sc))) = proj v (credits (x_w (xs_st sx))) /\
            xreport (xs_st sc) v = xreport (xs_st sx) v.
Proof.
  intros hc hx Hc Hx. cbv zeta. rewrite <- (crun_lift p B cap hx s0).
  apply (crash_runs_agree hc (map CEv hx) Hc (xwf_cwf p g U B cap w hx s0 Hx)).
Qed.

(* FRAME across crashes, absolute: at EVERY point of every history with crashes every other wallet holds
   exactly the ledger of the keys the database had before the restore, over the chain the handler follows *)
Theorem crash_frame_multi : forall h, cwf p g U B cap w s0 h ->
  let s := crun p B cap h s0 in
  exists c, wf_chain c /\ synced (x_w (xs_st s)) = synced_of c /\
    forall v, v <> w ->
      proj v (credits (x_w (xs_st s))) = proj v (credits (L p (lookupN keys0) c)) /\
      xreport (xs_st s) v = spec_report p (lookupN keys0) c v.
Proof.
  intros h Hwf s. pose proof (csinv_m_run p g U U_ids B cap B_pos w keysA h s0 cstart_sinv_m Hwf) as Hs. fold s in Hs.
  destruct Hs as [_ [_ [c Hinv]]]. exists c. split; [apply (mi_wf _ _ _ _ _ _ _ Hinv)|]. split; [apply (mi_synced _ _ _ _ _ _ _ Hinv)|].
  intros v Hv. destruct (minv_frame p g U w keysA c _ v Hinv Hv) as [Hp _].
  unfold ownA, keysA in Hp. rewrite (proj_L_keys_app p w keys0 (sh :: shs) c v Hv) in Hp.
  split; [assumption|]. unfold xreport. rewrite <- (report_L p (lookupN keys0) c v (mi_wf _ _ _ _ _ _ _ Hinv)).
  apply report_depends_on_proj; [assumption|]. rewrite (mi_synced _ _ _ _ _ _ _ Hinv). reflexivity.
Qed.

(* FRAME across crashes, relative: the same history — the same crashes and restarts — applied to the database in
   which w was never restored: same node, same synced chain, every other wallet the same credits and report *)
Theorem crash_frame_vs_no_import : forall all0' h, cwf p g U B cap w s0 h ->
  let s := crun p B cap h s0 in
  let s2 := crun p B cap h {| xs_node := n0; xs_st := st0; xs_all := all0'; xs_crashed := false |} in
  xs_node s = xs_node s2 /\ synced (x_w (xs_st s)) = synced (x_w (xs_st s2)) /\
  forall v, v <> w ->
    proj v (credits (x_w (xs_st s))) = proj v (credits (x_w (xs_st s2))) /\
    xreport (xs_st s) v = xreport (xs_st s2) v.
Proof.
  intros all0' h Hwf s s2.
  assert (Hp0 : pinv p g U w keys0 keysA s0 {| xs_node := n0; xs_st := st0; xs_all := all0'; xs_crashed := false |}).
  { split; [reflexivity|]. split; [reflexivity|]. split; [reflexivity|]. split; [exact node0|].
    exists c0. split; [|exact start0]. cbn [s0 xs_st].
    apply (minv_import_start p g U w keys0 c0 st0 pass sh shs st1 start0 absent0 nokeys0 import0). }
  assert (Hrun : forall hh sa sb, pinv p g U w keys0 keysA sa sb -> cwf p g U B cap w sa hh ->
            pinv p g U w keys0 keysA (crun p B cap hh sa) (crun p B cap hh sb)).
  { intros hh. induction hh as [|ce r IH]; intros sa sb Hp Hw; [assumption|].
    destruct Hw as [Hok Hr]. unfold crun in *. cbn [fold_left]. apply IH; [|assumption].
    destruct ce as [e|ff]; cbn [cev_ok cstep] in *.
    - apply (pinv_step p g U U_ids w B cap B_pos); assumption.
    - destruct Hp as [Hnode [Hcr [Hcr2 [Hninv [c [Hinv Hinv2]]]]]]. destruct Hok as [Hff Hlen].
      destruct (restart_minv p g U U_ids w keysA ff c _ _ Hff Hninv Hlen Hinv) as [sta [Hsa Hia]].
      destruct (restart_minv p g U U_ids w keys0 ff c _ _ Hff Hninv Hlen Hinv2) as [stb [Hsb Hib]].
      unfold crestart. rewrite <- Hnode, Hsa, Hsb. unfold pinv. cbn [xs_node xs_st xs_crashed].
      split; [reflexivity|]. split; [reflexivity|]. split; [reflexivity|]. split; [assumption|].
      exists (xs_node sa). split; assumption. }
  pose proof (Hrun h _ _ Hp0 Hwf) as [Hnode [_ [_ [_ [c [Hinv Hinv2]]]]]].
  fold s in Hnode, Hinv. fold s2 in Hnode, Hinv2.
  assert (Hsy : synced (x_w (xs_st s)) = synced (x_w (xs_st s2))).
  { rewrite (mi_synced _ _ _ _ _ _ _ Hinv), (mi_synced _ _ _ _ _ _ _ Hinv2). reflexivity. }
  split; [assumption|]. split; [assumption|]. intros v Hv.
  destruct (minv_frame p g U w keysA c _ v Hinv Hv) as [Hp _].
  destruct (minv_frame p g U w keys0 c _ v Hinv2 Hv) as [Hp2 _].
  unfold ownA, keysA in Hp. rewrite (proj_L_keys_app p w keys0 (sh :: shs) c v Hv) in Hp. unfold ownA in Hp2.
  assert (Hpp : proj v (credits (x_w (xs_st s))) = proj v (credits (x_w (xs_st s2)))) by congruence.
  split; [assumption|]. apply report_depends_on_proj; assumption.
Qed.

End CrashPackaged.

(* ---------------------------------------------------------------- two concurrent restores *)

Section CrashPackaged2.
Variable p : params.
Variable g : block.
Variable U : list block.
Hypothesis U_ids : forall b1 b2, In b1 U -> In b2 U -> b_id b1 = b_id b2 -> b1 = b2.
Variables w1 w2 : N.
Hypothesis w12 : w1 <> w2.
Variable keys0 : list (N * N).
Variable B cap : Z.
Hypothesis B_pos : 0 < B.
Variables (pass1 sh1 : N) (shs1 : list N) (pass2 sh2 : N) (shs2 : list N).
Variables (c0 n0 : list block) (all0 : list tx) (st0 st1 : xstate).
Hypothesis node0 : ninv g U n0.
Hypothesis start0 : minv p g U w1 keys0 c0 st0.
Hypothesis absent0 : status_of st0 w1 = None.
Hypothesis nokeys0 : forall s, ownW w1 keys0 s = None.
Hypothesis disjoint1 : forall s, In s (sh1 :: shs1) -> lookupN keys0 s = None.
Hypothesis import1 : import_start st0 w1 pass1 (sh1 :: shs1) = Some st1.

Let keys1 := keys0 ++ keys_of w1 (sh1 :: shs1).
Let keysB := keys1 ++ keys_of w2 (sh2 :: shs2).
Let s0 := {| xs_node := n0; xs_st := st1; xs_all := all0; xs_crashed := false |}.

(* the first restore runs through ANY history WITH CRASHES; then the second wallet is restored *)
Variable h1 : list cev.
Hypothesis hist1 : cwf p g U B cap w1 s0 h1.
Let s1 := crun p B cap h1 s0.
Variable st2 : xstate.
Hypothesis import2 : import_start (xs_st s1) w2 pass2 (sh2 :: shs2) = Some st2.
Hypothesis disjoint2 : forall s, In s (sh2 :: shs2) -> lookupN keys1 s = None.
Let s1' := {| xs_node := xs_node s1; xs_st := st2; xs_all := xs_all s1; xs_crashed := false |}.

Lemma cstart_sinv2 : sinv2 p g U w1 w2 keysB s1'.
Proof.
  pose proof (csinv_m_run p g U U_ids B cap B_pos w1 keys1 h1 s0
                (start_sinv_m p g U w1 keys0 pass1 sh1 shs1 c0 n0 all0 st0 st1 node0 start0 absent0 nokeys0 import1) hist1) as Hs1.
  fold s1 in Hs1. destruct Hs1 as [Hcr1 [Hninv1 [c1 Hinv1]]].
  pose proof (mi_keys _ _ _ _ _ _ _ Hinv1) as Hk1.
  destruct (import_start_unknown _ _ _ _ _ import2) as [Habs2 Hnk2]. rewrite Hk1 in Hnk2.
  pose proof (minv_minv2 p g U w1 w2 keys1 c1 _ w12 Hinv1 Habs2 Hnk2) as Hinv2.
  pose proof (minv2_import_start p g U w1 w2 keys1 c1 _ pass2 sh2 shs2 st2 w12 Hinv2 Habs2 Hnk2 import2) as Hinv2'.
  split; [reflexivity|]. split; [exact Hninv1|]. exists c1. exact Hinv2'.
Qed.

Lemma never_absent_c2 : forall c st v, v = w1 \/ v = w2 -> minv2 p g U w1 w2 keysB c st -> status_of st v <> None.
Proof.
  intros c st v Hv Hinv Hnone. destruct Hinv as [_ _ _ _ _ _ _ _ [top1 [top2 [Htop1 [Htop2 _]]]]].
  destruct Hv as [->| ->].
  - destruct Htop1 as [Hs'|[_ [Hs'|[_ Hk]]]]; try congruence.
    specialize (Hk sh1). unfold keysB in Hk. rewrite (ownW_keys_app_other w2 w1 keys1 (sh2 :: shs2) w12) in Hk.
    unfold keys1 in Hk. rewrite (ownW_head w1 keys0 sh1 shs1 disjoint1) in Hk. discriminate.
  - destruct Htop2 as [Hs'|[_ [Hs'|[_ Hk]]]]; try congruence.
    specialize (Hk sh2). unfold keysB in Hk. rewrite (ownW_head w2 keys1 sh2 shs2 disjoint2) in Hk. discriminate.
Qed.

(* T: the setting of [two_imports_equal_live]; crashes + restarts at any positions of BOTH histories (before
   and after the second restore), the node anywhere at each restart.  At every point: the two-cursor invariant;
   no restart fails; no task is dropped; each wallet that is not ready cannot be selected and is in the
   rebuilt queue; in step and both handed over, the whole database is the live run of all wallets *)
Theorem crash_during_two_imports : forall h2, cwf2 p g U B cap w1 w2 s1' h2 ->
  let s := crun p B cap h2 s1' in
  sinv2 p g U w1 w2 keysB s /\
  (in_step g s -> status_of (xs_st s) w1 = Some WReady -> status_of (xs_st s) w2 = Some WReady ->
     equals_live_all p (xs_st s) (xs_node s)) /\
  (forall v, v = w1 \/ v = w2 -> status_of (xs_st s) v <> Some WReady ->
     use_wallet (xs_st s) v = UUnready /\ In (v, false) (rebuild_queue (xs_st s)) /\
     rebuild_queue (xreopen (xs_st s)) = rebuild_queue (xs_st s)) /\
  x_dead (xs_st s) = [] /\ xs_crashed s = false.
Proof.
  intros h2 Hwf2 s.
  pose proof (csinv2_run p g U U_ids B cap B_pos w1 w2 w12 keysB h2 s1' cstart_sinv2 Hwf2) as Hs. fold s in Hs.
  split; [assumption|]. split; [|split; [|split]].
  - intros Hstep Hr1 Hr2. apply (sinv2_correct p g U U_ids w1 w2 w12 keysB s Hs Hstep Hr1 Hr2).
  - intros v Hv Hnr. destruct Hs as [_ [_ [c Hinv]]].
    pose proof (never_absent_c2 c _ v Hv Hinv) as Hna.
    split; [apply (minv2_unready p g U w1 w2 keysB c _ v Hv Hinv Hnr Hna)|]. split; [|reflexivity].
    destruct Hinv as [_ _ _ _ _ _ _ _ [top1 [top2 [Htop1 [Htop2 _]]]]].
    assert (Htop : exists top, top_is_m v keysB c (xs_st s) top) by (destruct Hv; subst v; eexists; eassumption).
    destruct Htop as [top [Hsi|[_ [Hsr|[Hsn _]]]]]; try contradiction.
    apply (in_queue_importing _ _ top Hsi).
  - destruct Hs as [_ [_ [c Hinv]]]. apply (m2_dead _ _ _ _ _ _ _ _ Hinv).
  - destruct Hs as [Hc _]. assumption.
Qed.

(* T: every restart succeeds and leaves the handler in step, BOTH cursors at or below the fork *)
Theorem crash_restart_in_step2 : forall h2 ff, cwf2 p g U B cap w1 w2 s1' (h2 ++ [CRestart ff]) ->
  let sa := crun p B cap h2 s1' in
  let s := crun p B cap (h2 ++ [CRestart ff]) s1' in
  start_of p ff (xs_node sa) (xreopen (xs_st sa)) = XOk (xs_st s) /\ xs_node s = xs_node sa /\
  in_step g s /\ minv2 p g U w1 w2 keysB (xs_node s) (xs_st s).
Proof.
  intros h2 ff Hwf sa s. apply (cwf2_app p g U B cap) in Hwf. destruct Hwf as [Hwf1 [Hok _]]. fold sa in Hok.
  pose proof (csinv2_run p g U U_ids B cap B_pos w1 w2 w12 keysB h2 s1' cstart_sinv2 Hwf1) as Hsa. fold sa in Hsa.
  assert (Hse : s = crestart p ff sa). { unfold s. rewrite crun_app. reflexivity. }
  destruct (crestart_sinv2 p g U U_ids w1 w2 w12 keysB ff sa Hsa Hok) as [Hst [Hn [_ Hinv]]].
  rewrite Hse. split; [assumption|]. split; [assumption|]. split; [|assumption].
  unfold in_step. apply synced_tip_last; [apply (m2_wf _ _ _ _ _ _ _ _ Hinv)|apply (m2_synced _ _ _ _ _ _ _ _ Hinv)].
Qed.

(* T: liveness after any such history: in step (e.g. right after a restart), batches of the two wallets in any
   interleaving, the chain static: w_i is ready as soon as it has had m_i >= 1 batches with
   cursor_i + m_i * B >= height; both ready: the database is the live run of all *)
Theorem crash_two_imports_live : forall h2 vs, cwf2 p g U B cap w1 w2 s1' h2 ->
  let s := crun p B cap h2 s1' in
  in_step g s -> (forall v, In v vs -> v = w1 \/ v = w2) ->
  let s' := crun p B cap (h2 ++ map CEv (map XBatch vs)) s1' in
  xs_node s' = xs_node s /\ in_step g s' /\
  (forall v, v = w1 \/ v = w2 ->
     (forall k, status_of (xs_st s) v = Some (WImporting k) ->
                (0 < count_occ N.eq_dec vs v)%nat /\
                chain_height (xs_node s) <= k + Z.of_nat (count_occ N.eq_dec vs v) * B) ->
     status_of (xs_st s') v = Some WReady) /\
  (status_of (xs_st s') w1 = Some WReady -> status_of (xs_st s') w2 = Some WReady ->
     equals_live_all p (xs_st s') (xs_node s')).
Proof.
  intros h2 vs Hwf2 s Hstep Hvs s'.
  pose proof (csinv2_run p g U U_ids B cap B_pos w1 w2 w12 keysB h2 s1' cstart_sinv2 Hwf2) as Hs. fold s in Hs.
  assert (Hs'eq : s' = fold_left (xstep repaired p B cap) (map XBatch vs) s).
  { unfold s'. rewrite crun_app. fold s. apply crun_lift. }
  destruct (sinv2_live p g U U_ids w1 w2 w12 B cap B_pos keysB s vs Hs Hstep Hvs) as [Hs' [Hn [Hstep' Hlive]]].
  rewrite <- Hs'eq in Hs', Hn, Hstep', Hlive.
  split; [assumption|]. split; [assumption|]. split.
  - intros v Hv Hk. apply (Hlive v Hv); [|assumption].
    destruct Hs as [_ [_ [c Hinv]]]. apply (never_absent_c2 c _ v Hv Hinv).
  - intros Hr1 Hr2. apply (sinv2_correct p g U U_ids w1 w2 w12 keysB s' Hs' Hstep' Hr1 Hr2).
Qed.

(* COROLLARY, "= the run that never stopped" *)
Theorem crash_runs_agree2 : forall ha hb, cwf2 p g U B cap w1 w2 s1' ha -> cwf2 p g U B cap w1 w2 s1' hb ->
  let sa := crun p B cap ha s1' in
  let sb := crun p B cap hb s1' in
  xs_node sa = xs_node sb -> in_step g sa -> in_step g sb ->
  status_of (xs_st sa) w1 = Some WReady -> status_of (xs_st sa) w2 = Some WReady ->
  status_of (xs_st sb) w1 = Some WReady -> status_of (xs_st sb) w2 = Some WReady ->
  synced (x_w (xs_st sa)) = synced (x_w (xs_st sb)) /\
  Permutation (credits (x_w (xs_st sa))) (credits (x_w (xs_st sb))) /\
  forall v, proj v (credits (x_w (xs_st sa))) = proj v (credits (x_w (xs_st sb))) /\
            xreport (xs_st sa) v = xreport (xs_st sb) v.
Proof.
  intros ha hb Ha Hb sa sb Hn Hia Hib Hra1 Hra2 Hrb1 Hrb2.
  destruct (crash_during_two_imports ha Ha) as [Hsa [Hla _]]. fold sa in Hsa, Hla.
  destruct (crash_during_two_imports hb Hb) as [Hsb [Hlb _]]. fold sb in Hsb, Hlb.
  specialize (Hla Hia Hra1 Hra2). specialize (Hlb Hib Hrb1 Hrb2). rewrite <- Hn in Hlb.
  apply (equals_live_all_same p _ _ (xs_node sa)); try assumption.
  destruct Hsa as [_ [_ [ca Hca]]]. destruct Hsb as [_ [_ [cb Hcb]]].
  rewrite (m2_keys _ _ _ _ _ _ _ _ Hca), (m2_keys _ _ _ _ _ _ _ _ Hcb). reflexivity.
Qed.

Corollary crash_run_equals_uninterrupted2 : forall hc hx, cwf2 p g U B cap w1 w2 s1' hc -> xwf2 p g U w1 w2 B cap s1' hx ->
  let sc := crun p B cap hc s1' in
  let sx := fold_left (xstep repaired p B cap) hx s1' in
  xs_node sc = xs_node sx -> in_step g sc -> in_step g sx ->
  status_of (xs_st sc) w1 = Some WReady -> status_of (xs_st sc) w2 = Some WReady ->
  status_of (xs_st sx) w1 = Some WReady -> status_of (xs_st sx) w2 = Some WReady ->
  synced (x_w (xs_st sc)) = synced (x_w (xs_st sx)) /\
  Permutation (credits (x_w (xs_st sc))) (credits (x_w (xs_st sx))) /\
  forall v, proj v (credits (x_w (xs_st sc))) = proj v (credits (x_w (xs_st sx))) /\
            xreport (xs_st sc) v = xreport (xs_st sx) v.
Proof.
  intros hc hx Hc Hx. cbv zeta. rewrite <- (crun_lift p B cap hx s1').
  apply (crash_runs_agree2 hc (map CEv hx) Hc (xwf2_cwf2 p g U B cap w1 w2 hx s1' Hx)).
Qed.

(* FRAME across crashes: at EVERY point every wallet other than w1 and w2 holds exactly the ledger of the keys
   the database had BEFORE the two restores, over the chain the handler follows *)
Theorem crash_two_imports_frame : forall h2, cwf2 p g U B cap w1 w2 s1' h2 ->
  let s := crun p B cap h2 s1' in
  exists c, wf_chain c /\ synced (x_w (xs_st s)) = synced_of c /\
    forall v, v <> w1 -> v <> w2 ->
      proj v (credits (x_w (xs_st s))) = proj v (credits (L p (lookupN keys0) c)) /\
      xreport (xs_st s) v = spec_report p (lookupN keys0) c v.
Proof.
  intros h2 Hwf2 s.
  pose proof (csinv2_run p g U U_ids B cap B_pos w1 w2 w12 keysB h2 s1' cstart_sinv2 Hwf2) as Hs. fold s in Hs.
  destruct Hs as [_ [_ [c Hinv]]].
  pose proof (m2_wf _ _ _ _ _ _ _ _ Hinv) as Hwf. pose proof (m2_synced _ _ _ _ _ _ _ _ Hinv) as Hsy.
  exists c. split; [assumption|]. split; [assumption|]. intros v H1 H2.
  destruct (minv2_frame p g U w1 w2 keysB c _ v Hinv H1 H2) as [Hp _].
  unfold keysB in Hp. rewrite (proj_L_keys_app p w2 keys1 (sh2 :: shs2) c v H2) in Hp.
  unfold keys1 in Hp. rewrite (proj_L_keys_app p w1 keys0 (sh1 :: shs1) c v H1) in Hp.
  split; [assumption|]. unfold xreport. rewrite <- (report_L p (lookupN keys0) c v Hwf).
  apply report_depends_on_proj; [assumption|]. rewrite Hsy. reflexivity.
Qed.

End CrashPackaged2.

(* ================================================================ Part E: boolean checkers for closed examples *)

Definition restart_ok_b (gpf : bool) (ff : option Z) (s : xsim) : bool :=
  match ff with Some f => 0 <=? f | None => true end && (Nat.leb 2 (length (xs_node s)) || gpf).

Lemma restart_ok_b_sound : forall g U gpf ff s, (gpf = true -> Crash2.genesis_prev_free g U) ->
  restart_ok_b gpf ff s = true -> restart_ok g U ff s.
Proof.
  intros g U gpf ff s Hg H. unfold restart_ok_b in H. apply andb_true_iff in H. destruct H as [Hf Hl].
  split; [destruct ff; [apply Z.leb_le; assumption|exact Logic.I]|].
  apply orb_true_iff in Hl. destruct Hl as [Hl|Hl]; [left; apply Nat.leb_le; assumption|right; apply Hg; assumption].
Qed.

(* [gpf]: restarts on a bare genesis are admitted (the caller then owes [genesis_prev_free]) *)
Definition cev_ok_b (gpf : bool) (g : block) (U : list block) (w : N) (s : xsim) (ce : cev) : bool :=
  match ce with CEv e => ev_ok_b g U w s e | CRestart ff => restart_ok_b gpf ff s end.

Fixpoint cwf_b (gpf : bool) (p : params) (g : block) (U : list block) (B cap : Z) (w : N) (s : xsim) (h : list cev) : bool :=
  match h with
  | [] => true
  | ce :: r => cev_ok_b gpf g U w s ce && cwf_b gpf p g U B cap w (cstep p B cap s ce) r
  end.

Lemma cwf_b_sound : forall gpf p g U B cap w, (gpf = true -> Crash2.genesis_prev_free g U) ->
  forall h s, cwf_b gpf p g U B cap w s h = true -> cwf p g U B cap w s h.
Proof.
  intros gpf p g U B cap w Hg. induction h as [|ce r IH]; intros s H; [exact Logic.I|].
  cbn [cwf_b] in H. apply andb_true_iff in H. destruct H as [He Hr]. split; [|apply IH; assumption].
  destruct ce as [e|ff]; cbn [cev_ok_b cev_ok] in *.
  - assert (Hx : xwf p g U w B cap s [e]).
    { apply xwf_b_sound. cbn [xwf_b]. rewrite He. reflexivity. }
    destruct Hx as [Hx _]. exact Hx.
  - apply (restart_ok_b_sound g U gpf); assumption.
Qed.

Definition cev_ok2_b (gpf : bool) (g : block) (U : list block) (w1 w2 : N) (s : xsim) (ce : cev) : bool :=
  match ce with CEv e => ev_ok2_b g U w1 w2 s e | CRestart ff => restart_ok_b gpf ff s end.

Fixpoint cwf2_b (gpf : bool) (p : params) (g : block) (U : list block) (B cap : Z) (w1 w2 : N) (s : xsim) (h : list cev) : bool :=
  match h with
  | [] => true
  | ce :: r => cev_ok2_b gpf g U w1 w2 s ce && cwf2_b gpf p g U B cap w1 w2 (cstep p B cap s ce) r
  end.

Lemma cwf2_b_sound : forall gpf p g U B cap w1 w2, (gpf = true -> Crash2.genesis_prev_free g U) ->
  forall h s, cwf2_b gpf p g U B cap w1 w2 s h = true -> cwf2 p g U B cap w1 w2 s h.
Proof.
  intros gpf p g U B cap w1 w2 Hg. induction h as [|ce r IH]; intros s H; [exact Logic.I|].
  cbn [cwf2_b] in H. apply andb_true_iff in H. destruct H as [He Hr]. split; [|apply IH; assumption].
  destruct ce as [e|ff]; cbn [cev_ok2_b cev_ok2] in *.
  - assert (Hx : xwf2 p g U w1 w2 B cap s [e]).
    { apply xwf2_b_sound. cbn [xwf2_b]. rewrite He. reflexivity. }
    destruct Hx as [Hx _]. exact Hx.
  - apply (restart_ok_b_sound g U gpf); assumption.
Qed.

(* [genesis_prev_free] by computation *)
Lemma gpf_b_sound : forall g U, forallb (fun b => negb (b_id b =? b_prev g)%N || block_eqb b g) U = true ->
  Crash2.genesis_prev_free g U.
Proof.
  intros g U H b Hb E. rewrite forallb_forall in H. specialize (H b Hb).
  apply orb_true_iff in H. destruct H as [H|H].
  - apply negb_true_iff in H. apply N.eqb_neq in H. contradiction.
  - apply block_eqb_sound. assumption.
Qed.
