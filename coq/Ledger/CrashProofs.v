(* Ledger/CrashProofs.v — proofs for C06 (Ledger/Crash.v).
   Plan: (1) the volatile state is a function of the store along every run ([coherent]), hence
   the crashed-and-reopened process IS the process that never stopped; (2) Start is live
   processing of the announcements of the node's blocks above the stored tip (plus, as repaired,
   of the node's tip when the stored tip was replaced at the same or a lower height); it always
   succeeds on a well-formed history and ends on the node's tip; (3) hence a run with crashes is
   a run without crashes of a history with those announcements inserted, and (4) by the C01
   invariant both end, once the node's tip announcement is processed, in the ledger of the
   node's chain. *)
From Coq Require Import List ZArith NArith Bool Lia.
Import ListNotations.
Open Scope Z_scope.
Require Import MW.Ledger.Model MW.Ledger.Spec MW.Ledger.Run MW.Ledger.WF.
Require Import MW.Ledger.Proofs MW.Ledger.Proofs2 MW.Ledger.Proofs3 MW.Ledger.Proofs4 MW.Ledger.Proofs6.
Require Import MW.Ledger.Crash.

(* ---------------------------------------------------------------- small facts *)

Lemma sim_eta : forall s, {| s_node := s_node s; s_wallet := s_wallet s; s_own := s_own s; s_obs := s_obs s |} = s.
Proof. destruct s. reflexivity. Qed.

Lemma process_best_tip : forall p own n st b,
  process_best p own n (tip st) st b = process p true own n st b.
Proof. reflexivity. Qed.

(* the store component of the process follows Run.step as long as the volatile state is coherent *)
Lemma pstep_sim : forall p pr e, coherent pr -> pr_sim (pstep p pr e) = step p true (pr_sim pr) e.
Proof.
  intros p pr e [Hb Hc]. destruct e as [sh w|b| |b|w]; try reflexivity.
  cbn [pstep step]. unfold own_live. rewrite Hb, Hc, process_best_tip. unfold process_or_keep.
  destruct (process p true (own_of (s_own (pr_sim pr))) (s_node (pr_sim pr)) (s_wallet (pr_sim pr)) b) as [st'|err].
  - reflexivity.
  - symmetry. apply sim_eta.
Qed.

Lemma commits_ev_process : forall p pr b, coherent pr ->
  commits_ev p pr (EvProcess b) =
  match process p true (own_of (s_own (pr_sim pr))) (s_node (pr_sim pr)) (s_wallet (pr_sim pr)) b with
  | Ok _ => true | Err _ => false end.
Proof. intros p pr b [Hb Hc]. cbn [commits_ev]. unfold own_live. rewrite Hb, Hc, process_best_tip. reflexivity. Qed.

(* what a successful connect leaves on top of the sync records *)
Lemma connect_block_synced : forall p a own cm lk st b st',
  connect_block p a own cm lk st b = Ok st' -> synced st' = (b_height b, b_id b) :: synced st.
Proof.
  intros p a own cm lk st b st' H. unfold connect_block in H.
  destruct (filter_block_txs own (if a then credits st else cm) lk [] (b_txs b)) as [recs|]; [|discriminate].
  destruct (apply_recs p (credits st) (b_height b) (b_id b) recs); [|discriminate].
  inversion H. reflexivity.
Qed.

Lemma connect_all_tip : forall p a own cm n pre b st st',
  connect_all p a own cm n st (pre ++ [b]) = Ok st' -> tip st' = (b_height b, b_id b).
Proof.
  intros p a own cm n pre. induction pre as [|x pre IH]; intros b st st' H.
  - cbn [app connect_all] in H. destruct (node_at n (b_height b)) as [nb|]; [|discriminate].
    destruct (negb (b_id nb =? b_id b)%N); [discriminate|].
    destruct (connect_block p a own cm (node_tx n) st b) as [st1|] eqn:Hcb; [|discriminate].
    inversion H. subst st'. unfold tip. rewrite (connect_block_synced _ _ _ _ _ _ _ _ Hcb). reflexivity.
  - cbn [app connect_all] in H. destruct (node_at n (b_height x)) as [nb|]; [|discriminate].
    destruct (negb (b_id nb =? b_id x)%N); [discriminate|].
    destruct (connect_block p a own cm (node_tx n) st x) as [st1|]; [|discriminate].
    apply (IH _ _ _ H).
Qed.

Lemma collect_not_matched : forall n st fuel x acc f bs,
  collect n st fuel x acc = Some (f, bs) -> matched st x = false -> exists pre, bs = pre ++ x :: acc.
Proof.
  intros n st fuel x acc f bs H Hm. destruct fuel as [|k]; [discriminate|].
  cbn [collect] in H. fold (matched st x) in H. rewrite Hm in H.
  destruct (node_block n (b_prev x)) as [pb|]; [|discriminate].
  apply (collect_suffix _ _ _ _ _ _ _ H).
Qed.

(* ---------------------------------------------------------------- the tip after a successful process *)

Section Tip.
Variable p : params.
Variable g : block.
Variable B : list block.
Hypothesis B_ids : forall b1 b2, In b1 B -> In b2 B -> b_id b1 = b_id b2 -> b1 = b2.

(* bestBlock := newBlock is what the store's tip is after the commit *)
Lemma process_ok_tip : forall own n c b st',
  wf_chain c -> incl c B -> In b B ->
  process p true own n (L p own c) b = Ok st' -> tip st' = (b_height b, b_id b).
Proof.
  intros own n c b st' Hwfc HcB HbB Hproc. unfold process in Hproc.
  destruct (snd (tip (L p own c)) =? b_prev b)%N.
  - apply (connect_all_tip _ _ _ _ _ [] _ _ _ Hproc).
  - destruct (collect n (L p own c) (S (Z.to_nat (b_height b))) b []) as [[f bs]|] eqn:Hcol; [|discriminate].
    destruct (matched (L p own c) b) eqn:Hm.
    + destruct (collect_cases _ _ _ _ _ _ _ Hcol) as [[_ [Hf Hbs]]|Hin].
      * subst f bs. cbn [connect_all] in Hproc. inversion Hproc as [Hst].
        assert (Hbc : In b c).
        { apply (matched_in p own c [b] b); [|left; reflexivity|assumption].
          apply (ids_agree_B B B_ids); [assumption|]. intros z [Hz|[]]. subst z. assumption. }
        apply in_split in Hbc. destruct Hbc as [c1 [c2 Hc]].
        destruct (wf_linked _ Hwfc) as [pv Hl].
        rewrite (rollback_at p own c c1 b c2 pv Hl Hc). apply tip_L_snoc.
      * (* matched and yet collected: cannot happen, collect stops at once *)
        cbn [collect] in Hcol. fold (matched (L p own c) b) in Hcol. rewrite Hm in Hcol.
        inversion Hcol. subst bs. destruct Hin.
    + destruct (collect_not_matched _ _ _ _ _ _ _ Hcol Hm) as [pre Hbs]. subst bs.
      apply (connect_all_tip _ _ _ _ _ pre _ _ _ Hproc).
Qed.

(* ---------------------------------------------------------------- the process invariant *)

Definition PInv (A : list block) (pr : proc) : Prop := coherent pr /\ Inv2 p g A (pr_sim pr).

Lemma PInv_step : forall A pr e,
  PInv A pr -> incl A B ->
  wf_chain (s_node (step p true (pr_sim pr) e)) -> okev g B e -> fresh_ok A [e] ->
  PInv (A ++ attached [e]) (pstep p pr e).
Proof.
  intros A pr e [Hco Hinv] HAB Hwf Hok Hfresh.
  assert (Hinv' : Inv2 p g (A ++ attached [e]) (pr_sim (pstep p pr e))).
  { rewrite (pstep_sim p pr e Hco).
    apply (Inv2_run p g B B_ids [e] (pr_sim pr) A Hinv HAB).
    - intros s' Hs'. cbn [sims] in Hs'. destruct Hs' as [Hs'|[Hs'|[]]]; subst s'.
      + destruct Hinv as [H _]. exact H.
      + exact Hwf.
    - intros e' [He'|[]]. subst e'. exact Hok.
    - exact Hfresh. }
  split; [|exact Hinv'].
  destruct Hco as [Hb Hc]. destruct e as [sh w|b| |b|w].
  - split; cbn [pstep pr_best pr_cache pr_sim step s_wallet s_own]; [exact Hb|rewrite Hc; reflexivity].
  - split; cbn [pstep pr_best pr_cache pr_sim step s_wallet s_own]; assumption.
  - split; cbn [pstep pr_best pr_cache pr_sim step s_wallet s_own]; assumption.
  - cbn [pstep]. unfold own_live. rewrite Hb, Hc, process_best_tip.
    destruct Hinv as [_ [_ [_ [c [Hwfc [_ [HcA Hst]]]]]]].
    destruct (process p true (own_of (s_own (pr_sim pr))) (s_node (pr_sim pr)) (s_wallet (pr_sim pr)) b) as [st'|err] eqn:Hproc.
    + split; cbn [pr_best pr_cache pr_sim with_wallet s_wallet s_own]; [|first [exact Hc|reflexivity]].
      symmetry. rewrite Hst in Hproc.
      apply (process_ok_tip (own_of (s_own (pr_sim pr))) (s_node (pr_sim pr)) c b st' Hwfc); [intros z Hz; apply HAB; apply HcA; exact Hz| |exact Hproc].
      destruct Hok as [Hin _]. apply Hin. right. reflexivity.
    + split; first [assumption|reflexivity|symmetry; assumption].
  - split; cbn [pstep pr_best pr_cache pr_sim step s_wallet s_own]; assumption.
Qed.

Lemma fresh_ok_cons : forall A e r, fresh_ok A (e :: r) -> fresh_ok A [e] /\ fresh_ok (A ++ attached [e]) r.
Proof.
  intros A e r H. destruct e as [sh w|b| |b|w]; cbn [fresh_ok attached flat_map app] in *; rewrite ?app_nil_r.
  - destruct H as [H1 H2]. split; [split; [exact H1|exact I]|exact H2].
  - split; [exact I|exact H].
  - split; [exact I|exact H].
  - split; [exact I|exact H].
  - split; [exact I|exact H].
Qed.

Lemma attached_cons : forall e r, attached (e :: r) = attached [e] ++ attached r.
Proof. intros e r. unfold attached. cbn [flat_map]. rewrite app_nil_r. reflexivity. Qed.

Lemma PInv_run : forall post A pr,
  PInv A pr -> incl A B ->
  (forall s', In s' (sims p true (pr_sim pr) post) -> wf_chain (s_node s')) ->
  (forall e, In e post -> okev g B e) -> fresh_ok A post ->
  incl (A ++ attached post) B ->
  PInv (A ++ attached post) (prun p pr post) /\
  pr_sim (prun p pr post) = fold_left (step p true) post (pr_sim pr).
Proof.
  induction post as [|e post IH]; intros A pr Hinv HAB Hsims Hok Hfresh HAB'.
  - cbn [attached flat_map prun fold_left]. rewrite app_nil_r. split; [exact Hinv|reflexivity].
  - destruct (fresh_ok_cons _ _ _ Hfresh) as [Hf1 Hf2].
    assert (Hstep : PInv (A ++ attached [e]) (pstep p pr e)).
    { apply PInv_step; try assumption.
      - apply Hsims. cbn [sims]. right. apply sims_head.
      - apply Hok. left. reflexivity. }
    destruct Hinv as [Hco Hinv2].
    rewrite attached_cons, app_assoc. cbn [prun fold_left]. rewrite <- (pstep_sim p pr e Hco). apply IH.
    + exact Hstep.
    + intros z Hz. apply HAB'. rewrite attached_cons, app_assoc. apply in_or_app. left. exact Hz.
    + intros s' Hs'. apply Hsims. cbn [sims]. right.
      rewrite <- (pstep_sim p pr e Hco). exact Hs'.
    + intros e' He'. apply Hok. right. exact He'.
    + exact Hf2.
    + rewrite <- app_assoc, <- attached_cons. exact HAB'.
Qed.


(* ---------------------------------------------------------------- cutting a run at a commit *)

Lemma cut_spec : forall h k pr pr1 pre post,
  cut p k pr h = (pr1, pre, post) -> h = pre ++ post /\ pr1 = prun p pr pre.
Proof.
  induction h as [|e r IH]; intros k pr pr1 pre post H.
  - cbn [cut] in H. inversion H. split; reflexivity.
  - cbn [cut] in H. destruct k as [|k'].
    + inversion H. split; reflexivity.
    + destruct (cut p (if commits_ev p pr e then k' else S k') (pstep p pr e) r) as [[pr' pre'] post'] eqn:Hc.
      inversion H. subst pr1 pre post. destruct (IH _ _ _ _ _ Hc) as [H1 H2].
      split; [cbn [app]; rewrite H1; reflexivity|cbn [prun fold_left]; exact H2].
Qed.

(* "loses nothing": what the restart rebuilds from the store is what the process had *)
Lemma reopen_coherent : forall pr, coherent pr -> reopen pr = pr.
Proof. intros [s b c] [Hb Hc]. cbn in *. subst b c. reflexivity. Qed.

(* Start's catch-up is live processing of announcements *)
Lemma catch_up_prun : forall bs pr pr', catch_up p pr bs = Some pr' -> pr' = prun p pr (map EvProcess bs).
Proof.
  induction bs as [|b r IH]; intros pr pr' H.
  - cbn in H. inversion H. reflexivity.
  - cbn [catch_up] in H. cbn [map prun fold_left pstep].
    destruct (process_best p (own_live pr) (s_node (pr_sim pr)) (pr_best pr) (s_wallet (pr_sim pr)) b) as [st'|]; [|discriminate].
    apply (IH _ _ H).
Qed.

(* node and issued addresses of a run do not depend on the wallet's ledger *)
Definition node_ev (n : node) (e : event) : node :=
  match e with EvAttach b => n ++ [b] | EvDetach => removelast n | _ => n end.
Definition own_ev (o : list (N * N)) (e : event) : list (N * N) :=
  match e with EvOwner sh w => (sh, w) :: o | _ => o end.

Lemma pstep_node : forall pr e, s_node (pr_sim (pstep p pr e)) = node_ev (s_node (pr_sim pr)) e.
Proof.
  intros pr e. destruct e as [sh w|b| |b|w]; try reflexivity.
  cbn [pstep node_ev]. destruct (process_best p (own_live pr) (s_node (pr_sim pr)) (pr_best pr) (s_wallet (pr_sim pr)) b); reflexivity.
Qed.

Lemma pstep_own : forall pr e, s_own (pr_sim (pstep p pr e)) = own_ev (s_own (pr_sim pr)) e.
Proof.
  intros pr e. destruct e as [sh w|b| |b|w]; try reflexivity.
  cbn [pstep own_ev]. destruct (process_best p (own_live pr) (s_node (pr_sim pr)) (pr_best pr) (s_wallet (pr_sim pr)) b); reflexivity.
Qed.

Lemma prun_node : forall h pr, s_node (pr_sim (prun p pr h)) = fold_left node_ev h (s_node (pr_sim pr)).
Proof.
  induction h as [|e r IH]; intros pr; [reflexivity|].
  cbn [prun fold_left]. fold (prun p (pstep p pr e) r). rewrite IH, pstep_node. reflexivity.
Qed.

Lemma prun_own : forall h pr, s_own (pr_sim (prun p pr h)) = fold_left own_ev h (s_own (pr_sim pr)).
Proof.
  induction h as [|e r IH]; intros pr; [reflexivity|].
  cbn [prun fold_left]. fold (prun p (pstep p pr e) r). rewrite IH, pstep_own. reflexivity.
Qed.

Lemma step_node : forall a s e, s_node (step p a s e) = node_ev (s_node s) e.
Proof. intros a s e. destruct e; reflexivity. Qed.

Lemma sims_nodes : forall a h s s', s_node s = s_node s' ->
  map s_node (sims p a s h) = map s_node (sims p a s' h).
Proof.
  induction h as [|e r IH]; intros s s' H.
  - cbn. rewrite H. reflexivity.
  - cbn [sims map]. rewrite H. f_equal. apply IH. rewrite !step_node, H. reflexivity.
Qed.

Lemma sims_wf_transfer : forall a h s s', s_node s = s_node s' ->
  (forall x, In x (sims p a s h) -> wf_chain (s_node x)) ->
  forall x, In x (sims p a s' h) -> wf_chain (s_node x).
Proof.
  intros a h s s' Hn H x Hx.
  assert (Hin : In (s_node x) (map s_node (sims p a s' h))). { apply in_map. exact Hx. }
  rewrite <- (sims_nodes a h s s' Hn) in Hin. apply in_map_iff in Hin.
  destruct Hin as [y [Hy Hyin]]. rewrite <- Hy. apply H. exact Hyin.
Qed.

(* ---------------------------------------------------------------- Start *)

Lemma above_in : forall n h b, In b (above n h) -> In b n /\ h < b_height b.
Proof. intros n h b H. unfold above in H. apply filter_In in H. destruct H as [H1 H2]. split; [exact H1|lia]. Qed.

Lemma wf_heights_le : forall n b, wf_chain n -> In b n -> b_height b <= chain_height n.
Proof.
  intros n b Hwf Hin. destruct (wf_linked _ Hwf) as [pv Hl]. apply in_split in Hin.
  destruct Hin as [n1 [n2 Hn]]. subst n. rewrite (linked_height _ _ _ _ _ Hl).
  unfold chain_height. rewrite app_length. cbn [length]. lia.
Qed.

Lemma above_nil : forall n h, wf_chain n -> chain_height n <= h -> above n h = [].
Proof.
  intros n h Hwf Hle. unfold above. apply filter_all_false. intros b Hb.
  pose proof (wf_heights_le n b Hwf Hb). lia.
Qed.

Lemma genesis_height : forall n, wf_chain n -> from_g g n -> b_height g = 0.
Proof.
  intros n Hwf [n' Hn]. destruct (wf_genesis _ Hwf) as [g' [rest [Hc [Hh _]]]].
  rewrite Hn in Hc. inversion Hc. subst g'. exact Hh.
Qed.

(* one block of the node's chain, announced to a process in the invariant, is connected *)
Lemma catch_up_one : forall A pr b,
  PInv A pr -> incl A B -> In b (s_node (pr_sim pr)) -> b <> g ->
  exists st' n1 n2,
    process_best p (own_live pr) (s_node (pr_sim pr)) (pr_best pr) (s_wallet (pr_sim pr)) b = Ok st' /\
    s_node (pr_sim pr) = n1 ++ b :: n2 /\
    st' = L p (own_of (s_own (pr_sim pr))) (n1 ++ [b]) /\
    PInv A {| pr_sim := with_wallet (pr_sim pr) st'; pr_best := (b_height b, b_id b); pr_cache := pr_cache pr |}.
Proof.
  intros A pr b [[Hb Hc] Hinv] HAB Hin Hbg.
  destruct Hinv as [Hwfn [Hgn [HnA [c [Hwfc [Hgc [HcA Hst]]]]]]].
  apply in_split in Hin. destruct Hin as [n1 [n2 Hn]].
  assert (Hne : n1 <> []).
  { intros Hnil. subst n1. destruct Hgn as [n' Hn']. rewrite Hn in Hn'. cbn [app] in Hn'. inversion Hn'. contradiction. }
  set (own := own_of (s_own (pr_sim pr))).
  assert (HnB : incl (s_node (pr_sim pr)) B). { intros z Hz. apply HAB. apply HnA. exact Hz. }
  assert (HcB : incl c B). { intros z Hz. apply HAB. apply HcA. exact Hz. }
  pose proof (process_reorg_gen p own (s_node (pr_sim pr)) c b n1 n2 Hwfn Hwfc
                (same_genesis_from_g g _ _ Hgc Hgn) (ids_agree_B B B_ids _ _ HcB HnB) Hn Hne) as Hproc.
  exists (L p own (n1 ++ [b])), n1, n2.
  split; [|split; [exact Hn|split; [reflexivity|]]].
  - unfold own_live. rewrite Hb, Hc, process_best_tip, Hst. exact Hproc.
  - assert (Hn' : s_node (pr_sim pr) = (n1 ++ [b]) ++ n2). { rewrite Hn, <- app_assoc. reflexivity. }
    split.
    + split; cbn [pr_best pr_cache pr_sim with_wallet s_wallet s_own]; [|exact Hc].
      symmetry. apply tip_L_snoc.
    + unfold Inv2. cbn [pr_sim with_wallet s_node s_wallet s_own].
      split; [exact Hwfn|split; [exact Hgn|split; [exact HnA|]]].
      exists (n1 ++ [b]). split; [|split; [|split; [|reflexivity]]].
      * rewrite Hn' in Hwfn. apply (wf_chain_prefix _ _ Hwfn). destruct n1; discriminate.
      * destruct Hgn as [n' Hgn]. rewrite Hn in Hgn. destruct n1 as [|z n1']; [contradiction|].
        cbn [app] in Hgn. inversion Hgn. exists (n1' ++ [b]). reflexivity.
      * intros z Hz. apply HnA. rewrite Hn'. apply in_or_app. left. exact Hz.
Qed.

Lemma catch_up_ok : forall bs A pr,
  PInv A pr -> incl A B ->
  (forall b, In b bs -> In b (s_node (pr_sim pr)) /\ b <> g) ->
  exists pr', catch_up p pr bs = Some pr' /\ PInv A pr' /\
    s_node (pr_sim pr') = s_node (pr_sim pr) /\ s_own (pr_sim pr') = s_own (pr_sim pr) /\
    (bs <> [] -> exists n1 n2, s_node (pr_sim pr) = n1 ++ last bs g :: n2 /\
                 s_wallet (pr_sim pr') = L p (own_of (s_own (pr_sim pr))) (n1 ++ [last bs g])).
Proof.
  induction bs as [|b r IH]; intros A pr Hinv HAB Hbs.
  - exists pr. split; [reflexivity|split; [exact Hinv|split; [reflexivity|split; [reflexivity|]]]].
    intros H. contradiction.
  - destruct (Hbs b (or_introl eq_refl)) as [Hin Hbg].
    destruct (catch_up_one A pr b Hinv HAB Hin Hbg) as [st' [n1 [n2 [Hproc [Hn [Hst' Hinv']]]]]].
    set (pr1 := {| pr_sim := with_wallet (pr_sim pr) st'; pr_best := (b_height b, b_id b); pr_cache := pr_cache pr |}) in *.
    assert (Hbs' : forall b', In b' r -> In b' (s_node (pr_sim pr1)) /\ b' <> g).
    { intros b' Hb'. apply Hbs. right. exact Hb'. }
    destruct (IH A pr1 Hinv' HAB Hbs') as [pr' [Hcu [Hinv'' [Hnode [Hown Hlast]]]]].
    exists pr'. cbn [catch_up]. rewrite Hproc. fold pr1.
    split; [exact Hcu|split; [exact Hinv''|split; [exact Hnode|split; [exact Hown|]]]].
    intros _. destruct r as [|b2 r'].
    + cbn [catch_up] in Hcu. inversion Hcu. subst pr'. cbn [last].
      exists n1, n2. split; [exact Hn|]. cbn [pr1 pr_sim with_wallet s_wallet]. exact Hst'.
    + assert (Hne : b2 :: r' <> []) by discriminate.
      destruct (Hlast Hne) as [m1 [m2 [Hm Hw]]].
      exists m1, m2. change (last (b :: b2 :: r') g) with (last (b2 :: r') g).
      split; [exact Hm|exact Hw].
Qed.

(* the stored tip height is not negative *)
Lemma tip_height_nonneg : forall A pr, PInv A pr -> 0 <= fst (tip (s_wallet (pr_sim pr))).
Proof.
  intros A pr [_ [_ [_ [_ [c [Hwfc [_ [_ Hst]]]]]]]]. rewrite Hst, (tip_height_L p _ c Hwfc).
  unfold chain_height. pose proof (wf_nonempty _ Hwfc). destruct c; [contradiction|cbn [length]; lia].
Qed.

Lemma above_ok : forall A pr, PInv A pr ->
  forall b, In b (above (s_node (pr_sim pr)) (fst (tip (s_wallet (pr_sim pr))))) -> In b (s_node (pr_sim pr)) /\ b <> g.
Proof.
  intros A pr Hinv b Hb. destruct (above_in _ _ _ Hb) as [Hin Hh]. split; [exact Hin|].
  intros Heq. subst b. pose proof (tip_height_nonneg A pr Hinv) as H0.
  destruct Hinv as [_ [Hwfn [Hgn _]]]. rewrite (genesis_height _ Hwfn Hgn) in Hh. lia.
Qed.

(* NtfnsHandler.Start on a coherent process: it succeeds ("the wallet opens"), it is live
   processing of the announcements [catchup_events], and as repaired it ends on the node's tip *)
Lemma start_ok_noff : forall tipfix ff A pr,
  PInv A pr -> incl A B ->
  no_ready_wallet pr && (ff <? chain_height (s_node (pr_sim pr))) = false ->
  (last (s_node (pr_sim pr)) g <> g \/ snd (tip (s_wallet (pr_sim pr))) = b_id g) ->
  exists pr', start p tipfix ff g pr = Some pr' /\ pr' = prun p pr (catchup_events tipfix g pr) /\
    PInv A pr' /\ s_node (pr_sim pr') = s_node (pr_sim pr) /\ s_own (pr_sim pr') = s_own (pr_sim pr) /\
    (tipfix = true -> snd (tip (s_wallet (pr_sim pr'))) = b_id (last (s_node (pr_sim pr)) g)).
Proof.
  intros tipfix ff A pr Hinv HAB Hnoff Hgen.
  set (n := s_node (pr_sim pr)). set (hs := fst (tip (s_wallet (pr_sim pr)))).
  destruct (catch_up_ok (above n hs) A pr Hinv HAB (above_ok A pr Hinv)) as [pr1 [Hcu [Hinv1 [Hn1 [Ho1 Hlast1]]]]].
  unfold start. rewrite Hnoff. fold n. fold hs. rewrite Hcu.
  unfold catchup_events. fold n. fold hs.
  assert (Hwfn : wf_chain n). { destruct Hinv as [_ [H _]]. exact H. }
  destruct (chain_height n <=? hs) eqn:Hle.
  - (* nothing to catch up by height *)
    apply Z.leb_le in Hle. rewrite (above_nil n hs Hwfn Hle) in *.
    cbn [catch_up] in Hcu. inversion Hcu. subst pr1. clear Hcu Hlast1.
    destruct tipfix; cbn [andb map app].
    + unfold tip_check. fold n.
      assert (Hbt : pr_best pr = tip (s_wallet (pr_sim pr))). { destruct Hinv as [[H _] _]. exact H. }
      rewrite Hbt. destruct (snd (tip (s_wallet (pr_sim pr))) =? b_id (last n g))%N eqn:Hid.
      * cbn [negb]. exists pr. split; [reflexivity|split; [reflexivity|split; [exact Hinv|split; [reflexivity|split; [reflexivity|]]]]].
        intros _. apply N.eqb_eq. exact Hid.
      * cbn [negb].
        assert (Hbg : last n g <> g).
        { destruct Hgen as [H|H]; [exact H|]. fold n in H. rewrite H in Hid.
          intros Heq. rewrite Heq, N.eqb_refl in Hid. discriminate. }
        assert (Hin : In (last n g) n).
        { pose proof (wf_nonempty _ Hwfn) as Hne. rewrite (app_removelast_last g Hne) at 2.
          apply in_or_app. right. left. reflexivity. }
        assert (Hbs : forall b, In b [last n g] -> In b (s_node (pr_sim pr)) /\ b <> g).
        { intros b [Hb|[]]. subst b. split; [exact Hin|exact Hbg]. }
        destruct (catch_up_ok [last n g] A pr Hinv HAB Hbs) as [pr2 [Hcu2 [Hinv2 [Hn2 [Ho2 Hlast2]]]]].
        rewrite Hcu2. exists pr2.
        split; [reflexivity|split; [apply (catch_up_prun _ _ _ Hcu2)|split; [exact Hinv2|split; [exact Hn2|split; [exact Ho2|]]]]].
        intros _. destruct (Hlast2 ltac:(discriminate)) as [m1 [m2 [_ Hw]]]. cbn [last] in Hw.
        rewrite Hw, tip_L_snoc. reflexivity.
    + exists pr. split; [reflexivity|split; [reflexivity|split; [exact Hinv|split; [reflexivity|split; [reflexivity|]]]]].
      intros H. discriminate.
  - (* caught up by height: the last block processed is the node's tip *)
    rewrite andb_false_r. cbn [andb app]. rewrite app_nil_r.
    exists pr1. split; [reflexivity|split; [exact (catch_up_prun _ _ _ Hcu)|split; [exact Hinv1|split; [exact Hn1|split; [exact Ho1|]]]]].
    intros _. apply Z.leb_gt in Hle.
    assert (Hne : above n hs <> []).
    { intros Hnil.
      pose proof (wf_nonempty _ Hwfn) as Hnn.
      assert (Hin : In (last n g) n).
      { rewrite (app_removelast_last g Hnn) at 2. apply in_or_app. right. left. reflexivity. }
      assert (Hh : b_height (last n g) = chain_height n).
      { destruct (wf_linked _ Hwfn) as [pv Hl]. rewrite (app_removelast_last g Hnn) in Hl.
        rewrite (linked_height _ _ _ _ _ Hl). unfold chain_height.
        rewrite (app_removelast_last g Hnn) at 2. rewrite app_length. cbn [length]. lia. }
      assert (Hab : In (last n g) (above n hs)).
      { unfold above. apply filter_In. split; [exact Hin|]. apply Z.ltb_lt. lia. }
      rewrite Hnil in Hab. destruct Hab. }
    destruct (Hlast1 Hne) as [m1 [m2 [Hm Hw]]]. rewrite Hw, tip_L_snoc.
    (* the last block above hs in chain order is the chain's last block *)
    assert (Hlast : last (above n hs) g = last n g).
    { clear - Hne Hwfn. unfold above in *.
      destruct (wf_linked _ Hwfn) as [pv Hl]. revert Hne. generalize hs. clear hs.
      pose proof (wf_nonempty _ Hwfn) as Hnn.
      intros hs Hne.
      rewrite (app_removelast_last g Hnn) in Hne |- *. rewrite filter_app in Hne |- *.
      cbn [filter] in Hne |- *.
      destruct (hs <? b_height (last n g)) eqn:Hlt.
      - rewrite !last_last. reflexivity.
      - exfalso. rewrite app_nil_r in Hne. apply Hne. apply filter_all_false.
        intros b Hb. apply Z.ltb_ge in Hlt. apply Z.ltb_ge.
        rewrite (app_removelast_last g Hnn) in Hl.
        destruct (linked_heights_split _ _ _ Hl) as [H1 H2].
        pose proof (H1 b Hb). pose proof (H2 (last n g) (or_introl eq_refl)). lia. }
    rewrite Hlast. reflexivity.
Qed.


(* ---------------------------------------------------------------- the fast-forward branch of Start *)

Lemma coins_of_outs_none : forall t h bid outs i, coins_of_outs (own_of []) t h bid outs i = [].
Proof.
  intros t h bid outs. induction outs as [|o outs IH]; intros i; [reflexivity|].
  cbn [coins_of_outs]. rewrite IH. destruct (o_class o); reflexivity.
Qed.

Lemma E_none : forall l, E p (own_of []) l = [].
Proof.
  intros l. unfold E, mkE. replace (coins_l (own_of []) l) with (@nil coin); [reflexivity|].
  symmetry. unfold coins_l. induction l as [|x l IH]; [reflexivity|].
  cbn [flat_map]. rewrite IH. unfold coins_pt. rewrite coins_of_outs_none. reflexivity.
Qed.

Lemma with_wallet_twice : forall s a b, with_wallet (with_wallet s a) b = with_wallet s b.
Proof. reflexivity. Qed.

Lemma linked_app_tail : forall a b pv h, linked pv h (a ++ b) -> exists pv', linked pv' (h + Z.of_nat (length a)) b.
Proof.
  induction a as [|x a IH]; intros b pv h H.
  - exists pv. cbn [app length Z.of_nat] in *. rewrite Z.add_0_r. exact H.
  - cbn [app linked] in H. destruct H as [_ [_ H]]. destruct (IH _ _ _ H) as [pv' H'].
    exists pv'. cbn [length]. replace (h + Z.of_nat (S (length a))) with (h + 1 + Z.of_nat (length a)) by lia. exact H'.
Qed.

Lemma linked_ge : forall m pv h x, linked pv h m -> In x m -> h <= b_height x.
Proof.
  intros m pv h x Hl Hin. apply in_split in Hin. destruct Hin as [a [b Hm]]. subst m.
  rewrite (linked_height _ _ _ _ _ Hl). lia.
Qed.

Lemma filter_height_split : forall m pv h t, linked pv h m ->
  m = filter (fun b => b_height b <? t) m ++ filter (fun b => negb (b_height b <? t)) m.
Proof.
  induction m as [|b r IH]; intros pv h t Hl; [reflexivity|].
  cbn [linked] in Hl. destruct Hl as [_ [Hh Hr]]. cbn [filter].
  destruct (b_height b <? t) eqn:Hlt; cbn [negb app].
  - f_equal. apply (IH _ _ _ Hr).
  - apply Z.ltb_ge in Hlt.
    rewrite (filter_all_false _ (fun b0 => b_height b0 <? t) r).
    + cbn [app]. f_equal. symmetry. apply filter_all_true. intros x Hx.
      pose proof (linked_ge _ _ _ _ Hr Hx). apply negb_true_iff. apply Z.ltb_ge. lia.
    + intros x Hx. pose proof (linked_ge _ _ _ _ Hr Hx). apply Z.ltb_ge. lia.
Qed.

Lemma above_chain : forall n c m, wf_chain n -> n = c ++ m -> c <> [] -> above n (chain_height c) = m.
Proof.
  intros n c m Hwf Hn Hc. destruct (wf_linked _ Hwf) as [pv Hl]. rewrite Hn in Hl.
  destruct (linked_heights_split _ _ _ Hl) as [H1 H2].
  unfold above. rewrite Hn, filter_app.
  rewrite (filter_all_false _ _ c), (filter_all_true _ _ m); [reflexivity| |].
  - intros x Hx. pose proof (H2 x Hx). apply Z.ltb_lt. unfold chain_height. lia.
  - intros x Hx. pose proof (H1 x Hx). apply Z.ltb_ge. unfold chain_height. lia.
Qed.

(* with no ready wallet, connecting the next block of the node's chain is SetSyncedTo and nothing else *)
Lemma catch_up_ff : forall m1 c A pr rest m2,
  PInv A pr -> incl A B -> s_own (pr_sim pr) = [] ->
  synced (s_wallet (pr_sim pr)) = synced_of c -> c <> [] ->
  s_node (pr_sim pr) = c ++ m1 ++ rest ->
  catch_up p pr (m1 ++ m2) = catch_up p (fold_left ff_step m1 pr) m2.
Proof.
  induction m1 as [|b r IH]; intros c A pr rest m2 Hinv HAB Hown Hsy Hc Hn; [reflexivity|].
  cbn [app catch_up fold_left].
  pose proof Hinv as [[Hb Hca] Hinv2].
  destruct Hinv2 as [Hwfn [Hgn [HnA [c0 [Hwfc0 [Hgc0 [Hc0A Hst]]]]]]].
  assert (HnB : incl (s_node (pr_sim pr)) B). { intros z Hz. apply HAB. apply HnA. exact Hz. }
  assert (Hc0B : incl c0 B). { intros z Hz. apply HAB. apply Hc0A. exact Hz. }
  assert (Hn' : s_node (pr_sim pr) = c ++ b :: (r ++ rest)). { rewrite Hn. reflexivity. }
  pose proof (process_reorg_gen p (own_of (s_own (pr_sim pr))) (s_node (pr_sim pr)) c0 b c (r ++ rest) Hwfn Hwfc0
                (same_genesis_from_g g _ _ Hgc0 Hgn) (ids_agree_B B B_ids _ _ Hc0B HnB) Hn' Hc) as Hproc.
  assert (Hpb : process_best p (own_live pr) (s_node (pr_sim pr)) (pr_best pr) (s_wallet (pr_sim pr)) b
                = Ok (L p (own_of []) (c ++ [b]))).
  { unfold own_live. rewrite Hb, Hca, process_best_tip, Hst, Hproc, Hown. reflexivity. }
  rewrite Hpb.
  assert (Hff : ff_step pr b =
                {| pr_sim := with_wallet (pr_sim pr) (L p (own_of []) (c ++ [b])); pr_best := (b_height b, b_id b); pr_cache := pr_cache pr |}).
  { unfold ff_step. f_equal. f_equal. unfold L. rewrite synced_of_snoc, E_none, Hsy, Hst.
    cbn [credits L]. rewrite Hown, E_none. reflexivity. }
  rewrite Hff.
  (* the invariant for the next step *)
  assert (Hbin : In b (s_node (pr_sim pr))). { rewrite Hn'. apply in_or_app. right. left. reflexivity. }
  assert (Hbg : b <> g).
  { intros Heq. subst b. destruct Hgn as [n' Hgn]. rewrite Hn' in Hgn.
    destruct c as [|z c']; [contradiction|]. cbn [app] in Hgn. inversion Hgn. subst z.
    pose proof (wf_bids _ Hwfn) as Hnd. rewrite Hn' in Hnd. cbn [app map] in Hnd.
    inversion Hnd as [|? ? Hnotin _]. apply Hnotin. rewrite map_app. apply in_or_app. right. left. reflexivity. }
  destruct (catch_up_one A pr b Hinv HAB Hbin Hbg) as [st' [n1 [n2 [Hproc' [_ [_ Hinv1]]]]]].
  rewrite Hpb in Hproc'. inversion Hproc' as [Hst']. rewrite <- Hst' in Hinv1.
  apply (IH (c ++ [b]) A _ rest m2 Hinv1 HAB).
  - exact Hown.
  - reflexivity.
  - destruct c; discriminate.
  - cbn [pr_sim with_wallet s_node]. rewrite Hn, <- app_assoc. reflexivity.
Qed.

Lemma start_ff_same : forall tipfix ff A pr,
  PInv A pr -> incl A B -> 0 <= ff -> on_chain pr ->
  no_ready_wallet pr && (ff <? chain_height (s_node (pr_sim pr))) = true ->
  start p tipfix ff g pr = start p tipfix (chain_height (s_node (pr_sim pr))) g pr.
Proof.
  intros tipfix ff A pr Hinv HAB Hff [c [m [Hc [Hn Hsy]]]] Hcond.
  apply andb_true_iff in Hcond. destruct Hcond as [Hnr Hlt].
  assert (Hown : s_own (pr_sim pr) = []).
  { unfold no_ready_wallet in Hnr. destruct (s_own (pr_sim pr)); [reflexivity|discriminate]. }
  unfold start. rewrite Hnr, Hlt, Z.ltb_irrefl. cbn [andb].
  set (n := s_node (pr_sim pr)) in *. set (hs := fst (tip (s_wallet (pr_sim pr)))).
  assert (Hwfn : wf_chain n). { destruct Hinv as [_ [H _]]. exact H. }
  assert (Hwfc : wf_chain c). { rewrite Hn in Hwfn. apply (wf_chain_prefix _ _ Hwfn Hc). }
  assert (Hhs : hs = chain_height c).
  { unfold hs. rewrite <- (tip_height_L p (own_of []) c Hwfc). unfold tip, L. cbn [synced].
    fold (synced_of c) in Hsy. rewrite Hsy. reflexivity. }
  rewrite Hhs, (above_chain n c m Hwfn Hn Hc).
  destruct (wf_linked _ Hwfn) as [pv Hl]. rewrite Hn in Hl.
  destruct (linked_app_tail _ _ _ _ Hl) as [pv' Hlm].
  set (t := chain_height n - ff).
  pose proof (filter_height_split m pv' _ t Hlm) as Hsplit.
  replace (catch_up p pr m) with
    (catch_up p pr (filter (fun b => b_height b <? t) m ++ filter (fun b => negb (b_height b <? t)) m))
    by (rewrite <- Hsplit; reflexivity).
  rewrite (catch_up_ff (filter (fun b => b_height b <? t) m) c A pr
             (filter (fun b => negb (b_height b <? t)) m) _ Hinv HAB Hown Hsy Hc).
  - reflexivity.
  - fold n. rewrite Hn, <- Hsplit. reflexivity.
Qed.

Lemma start_ok : forall tipfix ff A pr,
  PInv A pr -> incl A B -> safe_point g ff pr ->
  exists pr', start p tipfix ff g pr = Some pr' /\ pr' = prun p pr (catchup_events tipfix g pr) /\
    PInv A pr' /\ s_node (pr_sim pr') = s_node (pr_sim pr) /\ s_own (pr_sim pr') = s_own (pr_sim pr) /\
    (tipfix = true -> snd (tip (s_wallet (pr_sim pr'))) = b_id (last (s_node (pr_sim pr)) g)).
Proof.
  intros tipfix ff A pr Hinv HAB [Hff Hgen].
  destruct (no_ready_wallet pr && (ff <? chain_height (s_node (pr_sim pr)))) eqn:Hcond.
  - destruct Hff as [Hff|[Hff0 Hon]]; [discriminate|].
    rewrite (start_ff_same tipfix ff A pr Hinv HAB Hff0 Hon Hcond).
    apply (start_ok_noff tipfix _ A pr Hinv HAB); [|exact Hgen].
    rewrite Z.ltb_irrefl. apply andb_false_r.
  - apply (start_ok_noff tipfix ff A pr Hinv HAB Hcond Hgen).
Qed.

End Tip.

(* ---------------------------------------------------------------- runs with crashes *)

Lemma attached_app : forall x y, attached (x ++ y) = attached x ++ attached y.
Proof. intros x y. unfold attached. apply flat_map_app. Qed.

Lemma fresh_ok_app : forall x A y, fresh_ok A (x ++ y) -> fresh_ok A x /\ fresh_ok (A ++ attached x) y.
Proof.
  induction x as [|e x IH]; intros A y H.
  - cbn [app attached flat_map] in *. rewrite app_nil_r. split; [exact I|exact H].
  - cbn [app] in H. destruct (fresh_ok_cons _ _ _ H) as [H1 H2].
    destruct (IH _ _ H2) as [H3 H4]. split.
    + destruct e as [sh w|b| |b|w]; cbn [fresh_ok attached flat_map app] in *; rewrite ?app_nil_r in *;
        try exact H3. destruct H1 as [H1 _]. split; [exact H1|exact H3].
    + rewrite attached_cons, app_assoc. exact H4.
Qed.

Section Crashes.
Variable p : params.
Variable g : block.
Variable B : list block.
Hypothesis B_ids : forall b1 b2, In b1 B -> In b2 B -> b_id b1 = b_id b2 -> b1 = b2.
Variable tipfix : bool.
Variable ff : Z.

Lemma crashes_inv : forall ks A pr post,
  PInv p g A pr -> incl A B ->
  (forall s', In s' (sims p true (pr_sim pr) post) -> wf_chain (s_node s')) ->
  (forall e, In e post -> okev g B e) -> fresh_ok A post -> incl (A ++ attached post) B ->
  crashes_safe p tipfix ff g ks pr post ->
  exists pr', crashes p tipfix ff g ks pr post = Some pr' /\ PInv p g (A ++ attached post) pr' /\
    s_node (pr_sim pr') = s_node (pr_sim (prun p pr post)) /\
    s_own (pr_sim pr') = s_own (pr_sim (prun p pr post)).
Proof.
  induction ks as [|k ks IH]; intros A pr post Hinv HAB Hsims Hok Hfresh HAB' Hsafe.
  - exists (prun p pr post). cbn [crashes].
    destruct (PInv_run p g B B_ids post A pr Hinv HAB Hsims Hok Hfresh HAB') as [H1 _].
    split; [reflexivity|split; [exact H1|split; reflexivity]].
  - cbn [crashes crashes_safe] in *.
    destruct (cut p k pr post) as [[pr1 pre] post'] eqn:Hcut.
    destruct (cut_spec p _ _ _ _ _ _ Hcut) as [Hpost Hpr1].
    destruct Hsafe as [Hsp Hsafe].
    destruct (fresh_ok_app pre A post' ltac:(rewrite <- Hpost; exact Hfresh)) as [Hf1 Hf2].
    assert (HA1 : incl (A ++ attached pre) B).
    { intros z Hz. apply HAB'. rewrite Hpost, attached_app, app_assoc. apply in_or_app. left. exact Hz. }
    destruct (PInv_run p g B B_ids pre A pr Hinv HAB) as [Hinv1 Hsim1]; try assumption.
    { intros s' Hs'. apply Hsims. rewrite Hpost. apply sims_prefix_in. exact Hs'. }
    { intros e He. apply Hok. rewrite Hpost. apply in_or_app. left. exact He. }
    rewrite <- Hpr1 in Hinv1, Hsim1.
    unfold restart in *. rewrite (reopen_coherent pr1 (proj1 Hinv1)) in *.
    destruct (start_ok p g B B_ids tipfix ff (A ++ attached pre) pr1 Hinv1 HA1 Hsp)
      as [pr2 [Hstart [_ [Hinv2 [Hn2 [Ho2 _]]]]]].
    rewrite Hstart in *.
    destruct (IH (A ++ attached pre) pr2 post' Hinv2 HA1) as [pr' [Hcr [Hinv' [Hn' Ho']]]]; try assumption.
    { apply (sims_wf_transfer p true post' (pr_sim pr1) (pr_sim pr2)); [symmetry; exact Hn2|].
      intros x Hx. apply Hsims. rewrite Hpost. apply sims_app_in. rewrite <- Hsim1. exact Hx. }
    { intros e He. apply Hok. rewrite Hpost. apply in_or_app. right. exact He. }
    { rewrite <- app_assoc, <- attached_app, <- Hpost. exact HAB'. }
    exists pr'. split; [exact Hcr|split; [|split]].
    + rewrite Hpost, attached_app, app_assoc. exact Hinv'.
    + rewrite Hn', !prun_node, Hn2, Hpr1, prun_node, Hpost, fold_left_app. reflexivity.
    + rewrite Ho', !prun_own, Ho2, Hpr1, prun_own, Hpost, fold_left_app. reflexivity.
Qed.

(* "after catching up with the node": once the announcement of the node's tip is processed the
   ledger is the ledger of the node's chain *)
Lemma finish_L : forall A pr,
  PInv p g A pr -> incl A B -> last (s_node (pr_sim pr)) g <> g ->
  s_wallet (pr_sim (finish p g pr)) = L p (own_of (s_own (pr_sim pr))) (s_node (pr_sim pr)) /\
  s_node (pr_sim (finish p g pr)) = s_node (pr_sim pr) /\ s_own (pr_sim (finish p g pr)) = s_own (pr_sim pr).
Proof.
  intros A pr [[Hb Hc] Hinv] HAB Hbg. unfold finish.
  rewrite pstep_node, pstep_own. cbn [node_ev own_ev]. split; [|split; reflexivity].
  destruct Hinv as [Hwfn [Hgn [HnA [c [Hwfc [Hgc [HcA Hst]]]]]]].
  set (n := s_node (pr_sim pr)) in *. set (bt := last n g) in *.
  pose proof (wf_nonempty _ Hwfn) as Hnne.
  assert (Hn : n = removelast n ++ [bt]). { apply app_removelast_last. exact Hnne. }
  assert (Hn1 : removelast n <> []).
  { intros Hnil. rewrite Hnil in Hn. destruct Hgn as [n' Hgn]. rewrite Hgn in Hn. cbn [app] in Hn.
    inversion Hn. symmetry in H0. contradiction. }
  assert (HnB : incl n B). { intros z Hz. apply HAB. apply HnA. exact Hz. }
  assert (HcB : incl c B). { intros z Hz. apply HAB. apply HcA. exact Hz. }
  pose proof (process_reorg_gen p (own_of (s_own (pr_sim pr))) n c bt (removelast n) [] Hwfn Hwfc
                (same_genesis_from_g g _ _ Hgc Hgn) (ids_agree_B B B_ids _ _ HcB HnB) Hn Hn1) as Hproc.
  rewrite <- Hn in Hproc.
  cbn [pstep]. unfold own_live. rewrite Hb, Hc, process_best_tip. fold n. rewrite Hst, Hproc. reflexivity.
Qed.

End Crashes.

(* ---------------------------------------------------------------- C06 *)

Lemma init_PInv : forall p g, wf_chain [g] -> PInv p g [g] (init_proc g).
Proof.
  intros p g Hwfg. destruct (wf_genesis _ Hwfg) as [g' [rest [Hc [Hh0 [Htx _]]]]]. inversion Hc. subst g' rest.
  split; [split; reflexivity|].
  unfold Inv2. cbn [init_proc pr_sim init_sim s_node s_wallet s_own].
  split; [exact Hwfg|split; [exists []; reflexivity|split; [apply incl_refl|]]].
  exists [g]. split; [exact Hwfg|split; [exists []; reflexivity|split; [apply incl_refl|]]].
  symmetry. apply L_genesis; assumption.
Qed.

(* the environment facts the C01 history theorem derives from [wf_history_gen], packaged *)
Lemma history_setup : forall p g h bt,
  wf_history_gen p true g (h ++ [EvProcess bt]) ->
  let B := g :: blocks_of_history (h ++ [EvProcess bt]) in
  (forall b1 b2, In b1 B -> In b2 B -> b_id b1 = b_id b2 -> b1 = b2) /\
  wf_chain [g] /\
  (forall s', In s' (sims p true (init_sim g) h) -> wf_chain (s_node s')) /\
  (forall e, In e h -> okev g B e) /\ fresh_ok [g] h /\ incl ([g] ++ attached h) B /\ bt <> g.
Proof.
  intros p g h bt Hwf B. set (hf := h ++ [EvProcess bt]) in *.
  pose proof (wfg_chain _ _ _ _ Hwf) as Hsims.
  pose proof (wfg_blockids _ _ _ _ Hwf) as Hids. fold B in Hids.
  assert (Hnog : ~ In (EvAttach g) hf). { apply (no_attach_genesis p true g hf Hsims). }
  assert (Hok : forall e, In e hf -> okev g B e).
  { intros e He. split.
    - intros b' Hb'. right. apply (blocks_of_history_in hf e b' He Hb').
    - intros Heg. subst e. apply Hnog. apply (wfg_announced _ _ _ _ Hwf). assumption. }
  assert (Hwfg : wf_chain [g]). { apply (Hsims (init_sim g)). apply sims_head. }
  split; [exact Hids|split; [exact Hwfg|split; [|split; [|split; [|split]]]]].
  - intros s' Hs'. apply Hsims. unfold hf. apply sims_prefix_in. exact Hs'.
  - intros e He. apply Hok. unfold hf. apply in_or_app. left. exact He.
  - destruct (wf_genesis _ Hwfg) as [g' [rest [Hc [Hh0 [Htx _]]]]]. inversion Hc. subst g' rest.
    apply fresh_ok_intro. intros h1 sh w0 h2 Hh b0 Hb0 Hpays. destruct Hb0 as [[Hb0|[]]|Hb0].
    + subst b0. destruct Hpays as [t [o [Ht _]]]. rewrite Htx in Ht. destruct Ht.
    + assert (Heq : hf = h1 ++ EvOwner sh w0 :: (h2 ++ [EvProcess bt])).
      { unfold hf. rewrite Hh, <- app_assoc. reflexivity. }
      apply (wfg_owners _ _ _ _ Hwf h1 sh w0 (h2 ++ [EvProcess bt]) Heq b0 Hb0 Hpays).
  - intros z Hz. apply in_app_or in Hz. destruct Hz as [[Hz|[]]|Hz].
    + subst z. left. reflexivity.
    + right. unfold attached in Hz. apply in_flat_map in Hz. destruct Hz as [e [He Hz]].
      destruct e as [sh w0|b0| |b0|w0]; try (destruct Hz; fail). destruct Hz as [Hz|[]]. subst z.
      apply (blocks_of_history_in hf (EvAttach b0) b0); [|left; reflexivity].
      unfold hf. apply in_or_app. left. exact He.
  - assert (Hokb : okev g B (EvProcess bt)). { apply Hok. unfold hf. apply in_or_app. right. left. reflexivity. }
    destruct Hokb as [_ Hng]. intros Heq. apply Hng. rewrite Heq. reflexivity.
Qed.

(* C06, general form: any number of crashes, each right after a commit of the run so far *)
Theorem crash_equiv : forall p tipfix ff g h bt ks,
  wf_history_gen p true g (h ++ [EvProcess bt]) ->
  last (s_node (run p true g h)) g = bt ->
  crashes_safe p tipfix ff g ks (init_proc g) h ->
  exists pr', crashes p tipfix ff g ks (init_proc g) h = Some pr' /\
    forall w, observe (finish p g pr') w = observe (finish p g (prun p (init_proc g) h)) w /\
              observe (finish p g pr') w =
              spec_report p (own_of (s_own (run p true g h))) (s_node (run p true g h)) w.
Proof.
  intros p tipfix ff g h bt ks Hwf Hlast Hsafe.
  destruct (history_setup p g h bt Hwf) as [Hids [Hwfg [Hsims [Hok [Hfresh [HAB Hbg]]]]]].
  set (B := g :: blocks_of_history (h ++ [EvProcess bt])) in *.
  assert (HgB : incl [g] B). { intros z [Hz|[]]. subst z. left. reflexivity. }
  pose proof (init_PInv p g Hwfg) as Hinv0.
  destruct (crashes_inv p g B Hids tipfix ff ks [g] (init_proc g) h Hinv0 HgB Hsims Hok Hfresh HAB Hsafe)
    as [pr' [Hcr [Hinv' [Hn' Ho']]]].
  destruct (PInv_run p g B Hids h [g] (init_proc g) Hinv0 HgB Hsims Hok Hfresh HAB) as [Hinv1 Hsim1].
  change (fold_left (step p true) h (pr_sim (init_proc g))) with (run p true g h) in Hsim1.
  rewrite Hsim1 in Hn', Ho'.
  assert (Hl' : last (s_node (pr_sim pr')) g <> g). { rewrite Hn', Hlast. exact Hbg. }
  assert (Hl1 : last (s_node (pr_sim (prun p (init_proc g) h))) g <> g). { rewrite Hsim1, Hlast. exact Hbg. }
  destruct (finish_L p g B Hids _ pr' Hinv' HAB Hl') as [Hw' _].
  destruct (finish_L p g B Hids _ _ Hinv1 HAB Hl1) as [Hw1 _].
  exists pr'. split; [exact Hcr|]. intros w. unfold observe.
  rewrite Hw', Hw1, Hn', Ho', Hsim1. split; [reflexivity|].
  apply report_L. destruct Hinv1 as [_ [Hwfn _]]. rewrite Hsim1 in Hwfn. exact Hwfn.
Qed.

(* one crash: the crashed run is a run of the process that never stops, on the history with the
   restart's announcements inserted at the crash point *)
Theorem crash_is_history : forall p tipfix ff g h bt k,
  wf_history_gen p true g (h ++ [EvProcess bt]) ->
  crashes_safe p tipfix ff g [k] (init_proc g) h ->
  crash_run p tipfix ff g k h = Some (prun p (init_proc g) (crash_history p tipfix g k h)).
Proof.
  intros p tipfix ff g h bt k Hwf Hsafe.
  destruct (history_setup p g h bt Hwf) as [Hids [Hwfg [Hsims [Hok [Hfresh [HAB Hbg]]]]]].
  set (B := g :: blocks_of_history (h ++ [EvProcess bt])) in *.
  assert (HgB : incl [g] B). { intros z [Hz|[]]. subst z. left. reflexivity. }
  pose proof (init_PInv p g Hwfg) as Hinv0.
  unfold crash_run, crash_history. cbn [crashes crashes_safe] in *.
  destruct (cut p k (init_proc g) h) as [[pr1 pre] post] eqn:Hcut.
  destruct (cut_spec p _ _ _ _ _ _ Hcut) as [Hh Hpr1].
  destruct Hsafe as [Hsp _].
  destruct (fresh_ok_app pre [g] post ltac:(rewrite <- Hh; exact Hfresh)) as [Hf1 _].
  assert (HA1 : incl ([g] ++ attached pre) B).
  { intros z Hz. apply HAB. rewrite Hh, attached_app, app_assoc. apply in_or_app. left. exact Hz. }
  destruct (PInv_run p g B Hids pre [g] (init_proc g) Hinv0 HgB) as [Hinv1 _]; try assumption.
  { intros s' Hs'. apply Hsims. rewrite Hh. apply sims_prefix_in. exact Hs'. }
  { intros e He. apply Hok. rewrite Hh. apply in_or_app. left. exact He. }
  rewrite <- Hpr1 in Hinv1.
  unfold restart. rewrite (reopen_coherent pr1 (proj1 Hinv1)).
  destruct (start_ok p g B Hids tipfix ff _ pr1 Hinv1 HA1 Hsp) as [pr2 [Hstart [Hpr2 _]]].
  rewrite Hstart. f_equal. rewrite Hpr2, Hpr1. unfold prun. rewrite !fold_left_app. reflexivity.
Qed.

(* "the wallet opens" and, as repaired, is on the node's tip as soon as Start has returned *)
Theorem restart_on_tip : forall p ff g h bt k pr1 pre post,
  wf_history_gen p true g (h ++ [EvProcess bt]) ->
  cut p k (init_proc g) h = (pr1, pre, post) -> safe_point g ff pr1 ->
  exists pr2, restart p true ff g pr1 = Some pr2 /\
    snd (tip (s_wallet (pr_sim pr2))) = b_id (last (s_node (pr_sim pr1)) g) /\
    s_node (pr_sim pr2) = s_node (pr_sim pr1).
Proof.
  intros p ff g h bt k pr1 pre post Hwf Hcut Hsp.
  destruct (history_setup p g h bt Hwf) as [Hids [Hwfg [Hsims [Hok [Hfresh [HAB Hbg]]]]]].
  set (B := g :: blocks_of_history (h ++ [EvProcess bt])) in *.
  assert (HgB : incl [g] B). { intros z [Hz|[]]. subst z. left. reflexivity. }
  pose proof (init_PInv p g Hwfg) as Hinv0.
  destruct (cut_spec p _ _ _ _ _ _ Hcut) as [Hh Hpr1].
  destruct (fresh_ok_app pre [g] post ltac:(rewrite <- Hh; exact Hfresh)) as [Hf1 _].
  assert (HA1 : incl ([g] ++ attached pre) B).
  { intros z Hz. apply HAB. rewrite Hh, attached_app, app_assoc. apply in_or_app. left. exact Hz. }
  destruct (PInv_run p g B Hids pre [g] (init_proc g) Hinv0 HgB) as [Hinv1 _]; try assumption.
  { intros s' Hs'. apply Hsims. rewrite Hh. apply sims_prefix_in. exact Hs'. }
  { intros e He. apply Hok. rewrite Hh. apply in_or_app. left. exact He. }
  rewrite <- Hpr1 in Hinv1.
  unfold restart. rewrite (reopen_coherent pr1 (proj1 Hinv1)).
  destruct (start_ok p g B Hids true ff _ pr1 Hinv1 HA1 Hsp) as [pr2 [Hstart [_ [_ [Hn2 [_ Htip]]]]]].
  exists pr2. split; [exact Hstart|split; [apply Htip; reflexivity|exact Hn2]].
Qed.

(* "loses nothing": at every point of a well-formed history the volatile state is what the
   restart rebuilds from the store *)
Theorem crash_loses_nothing : forall p g h bt pre post,
  wf_history_gen p true g (h ++ [EvProcess bt]) -> h = pre ++ post ->
  coherent (prun p (init_proc g) pre) /\ reopen (prun p (init_proc g) pre) = prun p (init_proc g) pre.
Proof.
  intros p g h bt pre post Hwf Hh.
  destruct (history_setup p g h bt Hwf) as [Hids [Hwfg [Hsims [Hok [Hfresh [HAB Hbg]]]]]].
  set (B := g :: blocks_of_history (h ++ [EvProcess bt])) in *.
  assert (HgB : incl [g] B). { intros z [Hz|[]]. subst z. left. reflexivity. }
  pose proof (init_PInv p g Hwfg) as Hinv0.
  destruct (fresh_ok_app pre [g] post ltac:(rewrite <- Hh; exact Hfresh)) as [Hf1 _].
  assert (HA1 : incl ([g] ++ attached pre) B).
  { intros z Hz. apply HAB. rewrite Hh, attached_app, app_assoc. apply in_or_app. left. exact Hz. }
  destruct (PInv_run p g B Hids pre [g] (init_proc g) Hinv0 HgB) as [[Hco _] _]; try assumption.
  { intros s' Hs'. apply Hsims. rewrite Hh. apply sims_prefix_in. exact Hs'. }
  { intros e He. apply Hok. rewrite Hh. apply in_or_app. left. exact He. }
  split; [exact Hco|apply reopen_coherent; exact Hco].
Qed.

(* the worker's queue rebuilt from the status records holds exactly the unfinished wallets *)
Lemma treopen_queue : forall t w, In w (t_queue (treopen t)) <-> In w (unfinished (t_status t)).
Proof. intros t w. reflexivity. Qed.

(* ---------------------------------------------------------------- the worker's queue *)

(* along every run of the task layer the queue holds exactly the wallets whose status record says
   "unfinished", each once; so the queue the restart rebuilds from the records ([treopen]) has
   the same members as the queue the crash lost (the order may differ: the live queue is in
   request order, the rebuilt one in record order) *)
Definition tinv (t : tasks) : Prop :=
  NoDup (map fst (t_status t)) /\ NoDup (t_queue t) /\
  forall w, In w (t_queue t) <-> In w (unfinished (t_status t)).

Lemma in_unfinished : forall l w, In w (unfinished l) <-> exists s, In (w, s) l /\ s <> WReady.
Proof.
  intros l w. unfold unfinished. rewrite in_map_iff. split.
  - intros [[w' s] [Hw Hin]]. cbn in Hw. subst w'. apply filter_In in Hin. destruct Hin as [Hin Hs].
    exists s. split; [exact Hin|]. cbn in Hs. intros Heq. subst s. discriminate.
  - intros [s [Hin Hs]]. exists (w, s). split; [reflexivity|]. apply filter_In. split; [exact Hin|].
    cbn. destruct s; [contradiction|reflexivity|reflexivity].
Qed.

Lemma status_of_in : forall l w s, NoDup (map fst l) -> (status_of l w = Some s <-> In (w, s) l).
Proof.
  induction l as [|[x sx] l IH]; intros w s Hnd.
  - cbn. split; [discriminate|intros []].
  - cbn [map fst] in Hnd. inversion Hnd as [|? ? Hnotin Hnd']. subst.
    unfold status_of in *. cbn [find fst]. destruct (x =? w)%N eqn:Hx.
    + apply N.eqb_eq in Hx. subst x. cbn [snd]. split.
      * intros H. inversion H. left. reflexivity.
      * intros [H|H]; [inversion H; reflexivity|].
        exfalso. apply Hnotin. apply in_map_iff. exists (w, s). split; [reflexivity|exact H].
    + apply N.eqb_neq in Hx. rewrite (IH w s Hnd'). split.
      * intros H. right. exact H.
      * intros [H|H]; [inversion H; contradiction|exact H].
Qed.

Lemma set_status_fst : forall l w s, map fst (set_status l w s) = map fst l.
Proof.
  intros l w s. unfold set_status. rewrite map_map. apply map_ext_in. intros [x sx] _. cbn [fst].
  destruct (x =? w)%N eqn:Hx; [apply N.eqb_eq in Hx; subst; reflexivity|reflexivity].
Qed.

Lemma in_set_status : forall l w s x sx,
  In (x, sx) (set_status l w s) <-> (x = w /\ sx = s /\ In w (map fst l)) \/ (x <> w /\ In (x, sx) l).
Proof.
  intros l w s x sx. unfold set_status. rewrite in_map_iff. split.
  - intros [[y sy] [Heq Hin]]. cbn [fst] in Heq. destruct (y =? w)%N eqn:Hy.
    + apply N.eqb_eq in Hy. subst y. inversion Heq. subst x sx. left.
      split; [reflexivity|split; [reflexivity|]]. apply in_map_iff. exists (w, sy). split; [reflexivity|exact Hin].
    + apply N.eqb_neq in Hy. inversion Heq. subst y sy. right. split; [exact Hy|exact Hin].
  - intros [[Hx [Hs Hin]]|[Hx Hin]].
    + subst x sx. apply in_map_iff in Hin. destruct Hin as [[y sy] [Hy Hin]]. cbn in Hy. subst y.
      exists (w, sy). cbn [fst]. rewrite N.eqb_refl. split; [reflexivity|exact Hin].
    + exists (x, sx). cbn [fst]. apply N.eqb_neq in Hx. rewrite Hx. split; [reflexivity|exact Hin].
Qed.

Lemma in_del_status : forall l w x sx, In (x, sx) (del_status l w) <-> x <> w /\ In (x, sx) l.
Proof.
  intros l w x sx. unfold del_status. rewrite filter_In. cbn [fst]. split.
  - intros [Hin Hx]. apply negb_true_iff in Hx. apply N.eqb_neq in Hx. split; assumption.
  - intros [Hx Hin]. split; [exact Hin|]. apply negb_true_iff. apply N.eqb_neq. exact Hx.
Qed.

Lemma NoDup_map_filter : forall (l : list (N * wstat)) f, NoDup (map fst l) -> NoDup (map fst (filter f l)).
Proof.
  induction l as [|a l IH]; intros f H; [constructor|].
  cbn [map] in H. inversion H as [|? ? Hn Hd]. subst. cbn [filter]. destruct (f a).
  - cbn [map]. constructor; [|apply IH; exact Hd].
    intros Hin. apply Hn. apply in_map_iff in Hin. destruct Hin as [y [Hy Hin]].
    apply filter_In in Hin. apply in_map_iff. exists y. split; [exact Hy|tauto].
  - apply IH. exact Hd.
Qed.

Lemma NoDup_rotate : forall (w : N) q, NoDup (w :: q) -> NoDup (q ++ [w]).
Proof.
  intros w q H. inversion H as [|? ? Hn Hd]. subst. apply NoDup_app_intro.
  - exact Hd.
  - constructor; [intros []|constructor].
  - intros x Hx [Hw|[]]. subst x. contradiction.
Qed.

Lemma tstep_inv : forall t e, tinv t -> tfresh t e -> tinv (tstep t e).
Proof.
  intros t e [Hk [Hq Hiff]] Hf. destruct e as [w|w|w|fin]; cbn [tstep tfresh] in *.
  - (* create *)
    split; [|split; [exact Hq|]]; cbn [t_status t_queue].
    + rewrite map_app. apply NoDup_app_intro; [exact Hk|constructor; [intros []|constructor]|].
      intros x Hx [Hw|[]]. cbn in Hw. subst x. contradiction.
    + intros x. rewrite Hiff, !in_unfinished. split; intros [s [Hin Hs]]; exists s; split; try exact Hs.
      * apply in_or_app. left. exact Hin.
      * apply in_app_or in Hin. destruct Hin as [Hin|[Hin|[]]]; [exact Hin|inversion Hin; subst; contradiction].
  - (* import *)
    split; [|split]; cbn [t_status t_queue].
    + rewrite map_app. apply NoDup_app_intro; [exact Hk|constructor; [intros []|constructor]|].
      intros x Hx [Hw|[]]. cbn in Hw. subst x. contradiction.
    + apply NoDup_app_intro; [exact Hq|constructor; [intros []|constructor]|].
      intros x Hx [Hw|[]]. subst x. apply Hiff in Hx. apply in_unfinished in Hx. destruct Hx as [s [Hin _]].
      apply Hf. apply in_map_iff. exists (w, s). split; [reflexivity|exact Hin].
    + intros x. rewrite in_app_iff, Hiff, !in_unfinished. split.
      * intros [[s [Hin Hs]]|[Hx|[]]].
        -- exists s. split; [apply in_or_app; left; exact Hin|exact Hs].
        -- subst x. exists WImporting. split; [apply in_or_app; right; left; reflexivity|discriminate].
      * intros [s [Hin Hs]]. apply in_app_or in Hin. destruct Hin as [Hin|[Hin|[]]].
        -- left. exists s. split; assumption.
        -- inversion Hin. right. left. reflexivity.
  - (* remove *)
    destruct (status_of (t_status t) w) as [[| |]|] eqn:Hst; try (split; [exact Hk|split; [exact Hq|exact Hiff]]).
    apply (status_of_in _ _ _ Hk) in Hst.
    assert (Hwk : In w (map fst (t_status t))). { apply in_map_iff. exists (w, WReady). split; [reflexivity|exact Hst]. }
    assert (Hnu : ~ In w (unfinished (t_status t))).
    { intros Hu. apply in_unfinished in Hu. destruct Hu as [s [Hin Hs]].
      apply (status_of_in _ _ _ Hk) in Hin. apply (status_of_in _ _ _ Hk) in Hst. rewrite Hst in Hin. inversion Hin. subst s. contradiction. }
    split; [|split]; cbn [t_status t_queue].
    + rewrite set_status_fst. exact Hk.
    + apply NoDup_app_intro; [exact Hq|constructor; [intros []|constructor]|].
      intros x Hx [Hw|[]]. subst x. apply Hnu. apply Hiff. exact Hx.
    + intros x. rewrite in_app_iff, Hiff, !in_unfinished. split.
      * intros [[s [Hin Hs]]|[Hx|[]]].
        -- exists s. split; [|exact Hs]. apply in_set_status. right. split; [|exact Hin].
           intros Heq. subst x. apply Hnu. apply in_unfinished. exists s. split; assumption.
        -- subst x. exists WRemoving. split; [|discriminate]. apply in_set_status. left. tauto.
      * intros [s [Hin Hs]]. apply in_set_status in Hin. destruct Hin as [[Hx _]|[Hx Hin]].
        -- right. left. symmetry. exact Hx.
        -- left. exists s. split; assumption.
  - (* one step of the worker *)
    destruct (t_queue t) as [|w q] eqn:Hqe; [split; [exact Hk|split; [rewrite Hqe; exact Hq|rewrite Hqe; exact Hiff]]|].
    assert (Hwq : ~ In w q). { inversion Hq. assumption. }
    assert (Hqd : NoDup q). { inversion Hq. assumption. }
    assert (Hwu : In w (unfinished (t_status t))). { apply Hiff. left. reflexivity. }
    apply in_unfinished in Hwu. destruct Hwu as [sw [Hwin Hsw]].
    pose proof (proj2 (status_of_in _ _ _ Hk) Hwin) as Hst.
    destruct fin.
    + rewrite Hst. destruct sw; [contradiction| |].
      * (* import finished *)
        split; [|split]; cbn [t_status t_queue].
        -- rewrite set_status_fst. exact Hk.
        -- exact Hqd.
        -- intros x. rewrite in_unfinished. split.
           ++ intros Hx. assert (Hxw : x <> w). { intros Heq. subst x. contradiction. }
              assert (Hxu : In x (unfinished (t_status t))). { apply Hiff. right. exact Hx. }
              apply in_unfinished in Hxu. destruct Hxu as [s [Hin Hs]].
              exists s. split; [|exact Hs]. apply in_set_status. right. split; assumption.
           ++ intros [s [Hin Hs]]. apply in_set_status in Hin. destruct Hin as [[_ [Hs' _]]|[Hx Hin]].
              ** subst s. contradiction.
              ** assert (Hxq : In x (w :: q)). { apply Hiff. apply in_unfinished. exists s. split; assumption. }
                 destruct Hxq as [Hxq|Hxq]; [symmetry in Hxq; contradiction|exact Hxq].
      * (* removal finished *)
        split; [|split]; cbn [t_status t_queue].
        -- apply NoDup_map_filter. exact Hk.
        -- exact Hqd.
        -- intros x. rewrite in_unfinished. split.
           ++ intros Hx. assert (Hxw : x <> w). { intros Heq. subst x. contradiction. }
              assert (Hxu : In x (unfinished (t_status t))). { apply Hiff. right. exact Hx. }
              apply in_unfinished in Hxu. destruct Hxu as [s [Hin Hs]].
              exists s. split; [|exact Hs]. apply in_del_status. split; assumption.
           ++ intros [s [Hin Hs]]. apply in_del_status in Hin. destruct Hin as [Hx Hin].
              assert (Hxq : In x (w :: q)). { apply Hiff. apply in_unfinished. exists s. split; assumption. }
              destruct Hxq as [Hxq|Hxq]; [symmetry in Hxq; contradiction|exact Hxq].
    + (* not finished: pushed again *)
      split; [exact Hk|split]; cbn [t_status t_queue].
      * apply NoDup_rotate. exact Hq.
      * intros x. rewrite <- Hiff, in_app_iff. cbn [In]. tauto.
Qed.

Theorem tasks_resumed : forall es,
  tfresh_all {| t_status := []; t_queue := [] |} es ->
  let t := trun {| t_status := []; t_queue := [] |} es in
  forall w, In w (t_queue (treopen t)) <-> In w (t_queue t).
Proof.
  intros es Hf t w.
  assert (Hinv : tinv t).
  { unfold t. assert (H0 : tinv {| t_status := []; t_queue := [] |}).
    { split; [constructor|split; [constructor|intros x; cbn; tauto]]. }
    revert H0 Hf. generalize {| t_status := []; t_queue := [] |}.
    induction es as [|e r IH]; intros t0 H0 Hf; [exact H0|].
    cbn [trun fold_left]. destruct Hf as [Hf1 Hf2]. apply IH; [apply tstep_inv; assumption|exact Hf2]. }
  destruct Hinv as [_ [_ Hiff]]. cbn [treopen t_queue]. symmetry. apply Hiff.
Qed.
