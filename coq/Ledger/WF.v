(* Ledger/WF.v — environment assumptions (well-formed chains and histories) and the
   derived notions the C01 theorems are stated with.  Definitions only. *)
From Coq Require Import List ZArith NArith Bool.
Import ListNotations.
Open Scope Z_scope.
Require Import MW.Ledger.Model MW.Ledger.Spec MW.Ledger.Run.

(* E1/E4: the node's best chain is hash-linked from genesis with consecutive heights,
   transaction ids name one transaction, every input spends an output created earlier on
   the chain (possibly earlier in the same block) and no output is spent twice *)
Fixpoint linked (prev : N) (h : Z) (c : list block) : Prop :=
  match c with
  | [] => True
  | b :: rest => b_prev b = prev /\ b_height b = h /\ linked (b_id b) (h + 1) rest
  end.

Definition created_before (txs : list tx) (op : N * N) : Prop :=
  exists t, In t txs /\ t_id t = fst op /\ (N.to_nat (snd op) < length (t_outs t))%nat.

(* inputs_ok seen txs: every input of every non-coinbase transaction refers to an output of a
   transaction that occurs earlier in chain order *)
Fixpoint inputs_ok (seen : list tx) (txs : list tx) : Prop :=
  match txs with
  | [] => True
  | t :: rest =>
      (t_cb t = false -> forall op, In op (t_ins t) -> created_before seen op) /\
      inputs_ok (seen ++ [t]) rest
  end.

Record wf_chain (c : list block) : Prop := {
  wf_genesis : exists g rest, c = g :: rest /\ b_height g = 0 /\ b_txs g = [] /\ linked (b_id g) 1 rest;
  wf_bids : NoDup (map b_id c);
  wf_txids : NoDup (map t_id (chain_txs c));
  wf_inputs : inputs_ok [] (chain_txs c);
  wf_nodouble : NoDup (all_inputs c)
}.

(* the ledger a wallet has after following the chain block by block from genesis
   (each block one commit; the node is the chain itself) *)
Fixpoint follow (p : params) (a1fix : bool) (own : owner_fn) (n : node) (st : wstate) (bs : list block) : res wstate :=
  match bs with
  | [] => Ok st
  | b :: rest =>
      match process p a1fix own n st b with
      | Err e => Err e
      | Ok st' => follow p a1fix own n st' rest
      end
  end.

Definition ledger_of_chain (p : params) (a1fix : bool) (own : owner_fn) (c : list block) : res wstate :=
  match c with
  | [] => Err EOther
  | g :: rest => follow p a1fix own c (init_state (b_id g)) rest
  end.

(* two reports agree (rows compared as lists: both sides list coins in chain order) *)
Definition report_eq (a b : report) : Prop := a = b.

(* a history is well formed when the node's chain stays well formed after every event,
   addresses are issued before they are paid (E3), and a block id names one block *)
Fixpoint sims (p : params) (a1fix : bool) (s : sim) (h : list event) : list sim :=
  match h with
  | [] => [s]
  | e :: rest => s :: sims p a1fix (step p a1fix s e) rest
  end.

Definition blocks_of_history (h : list event) : list block :=
  flat_map (fun e => match e with EvAttach b => [b] | EvProcess b => [b] | _ => [] end) h.

Definition owners_first (h : list event) : Prop :=
  exists pre post, h = pre ++ post /\
    (forall e, In e pre -> exists sh w, e = EvOwner sh w) /\
    (forall e, In e post -> forall sh w, e <> EvOwner sh w).

Record wf_history (p : params) (a1fix : bool) (g : block) (h : list event) : Prop := {
  wfh_chain : forall s, In s (sims p a1fix (init_sim g) h) -> wf_chain (s_node s);
  wfh_owners : owners_first h;
  wfh_blockids : forall b1 b2, In b1 (g :: blocks_of_history h) -> In b2 (g :: blocks_of_history h) ->
                               b_id b1 = b_id b2 -> b1 = b2;
  wfh_announced : forall b, In (EvProcess b) h -> In (EvAttach b) h
}.

(* E3 in its general form: an address is issued before any attached block pays it (issuing may be
   interleaved with chain events).  [owners_first] is the special case used by the generator. *)
Definition pays (b : block) (sh : N) : Prop :=
  exists t o, In t (b_txs b) /\ In o (t_outs t) /\ o_sh o = sh.

Definition owners_before_paid (h : list event) : Prop :=
  forall h1 sh w h2, h = h1 ++ EvOwner sh w :: h2 -> forall b, In (EvAttach b) h1 -> ~ pays b sh.

Record wf_history_gen (p : params) (a1fix : bool) (g : block) (h : list event) : Prop := {
  wfg_chain : forall s, In s (sims p a1fix (init_sim g) h) -> wf_chain (s_node s);
  wfg_owners : owners_before_paid h;
  wfg_blockids : forall b1 b2, In b1 (g :: blocks_of_history h) -> In b2 (g :: blocks_of_history h) ->
                               b_id b1 = b_id b2 -> b1 = b2;
  wfg_announced : forall b, In (EvProcess b) h -> In (EvAttach b) h
}.
