(* Ledger/ImportProofs6.v — C07: TWO wallets restored concurrently.

   ImportProofs3.v proves "import = live" for ONE wallet w restored into a database of READY wallets
   ([minv]: every other keyed wallet is ready).  Here a second wallet w2 is restored while the rescan of
   the first (w1) is still running: the batches of the two rescans are interleaved arbitrarily with each
   other and with the chain events (blocks connected / disconnected on the node, announcements processed:
   extensions, reorganisations with the pull-back of BOTH cursors, roll-backs).

   The store is looked at through THREE projections: the credits of w1, of w2, of everybody else.
   [minv2]: each importing wallet has its own cursor top_i and holds exactly its credits of the first
   top_i+1 blocks of the handler's chain; everybody else holds the whole chain.
   Part A  three-way split of AddRelevantTx (from the two-way split of ImportProofs3)
   Part B  one group of wallets and one connected block
   Part C  the invariant [minv2] and its preservation by roll-back, connect, announcements, batches of either
   Part D  histories and the packaged theorem *)
From Coq Require Import List ZArith NArith Bool Lia Permutation.
Import ListNotations.
Open Scope Z_scope.
Require Import MW.Ledger.Model MW.Ledger.Spec MW.Ledger.Run MW.Ledger.WF MW.Ledger.Import MW.Ledger.Remove.
Require Import MW.Ledger.Proofs MW.Ledger.Proofs2 MW.Ledger.Proofs3 MW.Ledger.Proofs4 MW.Ledger.Proofs5 MW.Ledger.Proofs6.
Require Import MW.Ledger.RemoveProofs MW.Ledger.RemoveProofs2 MW.Ledger.RemoveProofs5 MW.Ledger.ImportProofs MW.Ledger.ImportProofs2.
Require Import MW.Ledger.ImportProofs3.

(* ================================================================ Part A: three projections *)

Lemma filter_filter_sub : forall (A : Type) (f h : A -> bool) l,
  (forall x, f x = true -> h x = true) -> filter f (filter h l) = filter f l.
Proof.
  intros A f h l H. induction l as [|x l IH]; [reflexivity|].
  cbn [filter]. destruct (h x) eqn:Eh; cbn [filter].
  - destruct (f x); rewrite IH; reflexivity.
  - destruct (f x) eqn:Ef; [|exact IH]. rewrite (H _ Ef) in Eh. discriminate.
Qed.

Lemma filter_filter_and : forall (A : Type) (f h : A -> bool) l,
  filter f (filter h l) = filter (fun x => h x && f x) l.
Proof.
  intros A f h l. induction l as [|x l IH]; [reflexivity|].
  cbn [filter]. destruct (h x); cbn [filter andb]; [destruct (f x); rewrite IH; reflexivity|exact IH].
Qed.

Lemma NoDup_map_filter : forall (A B : Type) (m : A -> B) (f : A -> bool) l, NoDup (map m l) -> NoDup (map m (filter f l)).
Proof.
  intros A B m f l. induction l as [|x l IH]; intros H; [constructor|].
  cbn [map] in H. inversion H as [|? ? Hni Hnd]. subst. cbn [filter]. destruct (f x); [|apply IH; assumption].
  cbn [map]. constructor; [|apply IH; assumption].
  intros Hin. apply Hni. apply in_map_iff in Hin. destruct Hin as [y [Hy Hin]]. apply filter_In in Hin.
  apply in_map_iff. exists y. tauto.
Qed.

Lemma kept_ext : forall f h cs, (forall x, f x = h x) -> kept f cs = kept h cs.
Proof. intros f h cs H. unfold kept. apply filter_ext. intros c. unfold keepc. apply H. Qed.

Lemma kept_of_junk : forall f h cs, (forall x, f x = true -> h x = false) -> kept f (junk h cs) = kept f cs.
Proof.
  intros f h cs H. rewrite <- kept_notk. apply kept_kept_sub. intros x Hx. unfold notk. rewrite (H x Hx). reflexivity.
Qed.

Definition neither (f1 f2 : N -> bool) : N -> bool := fun x => negb (f1 x) && negb (f2 x).

Lemma junk_junk : forall f1 f2 cs, junk f2 (junk f1 cs) = kept (neither f1 f2) cs.
Proof. intros f1 f2 cs. unfold junk, kept. rewrite filter_filter_and. reflexivity. Qed.

Lemma prj_tx : forall f r, rr_tx (prj f r) = rr_tx r.
Proof. reflexivity. Qed.

Lemma prj_prj_sub : forall f h r, (forall x, f x = true -> h x = true) -> prj f (prj h r) = prj f r.
Proof.
  intros f h r H. unfold prj. cbn [rr_tx rr_ins rr_outs]. f_equal; apply filter_filter_sub; intros x Hx; apply H; assumption.
Qed.

Lemma prj_prj_neither : forall f1 f2 r, prj (notk f2) (prj (notk f1) r) = prj (neither f1 f2) r.
Proof.
  intros f1 f2 r. unfold prj. cbn [rr_tx rr_ins rr_outs]. f_equal; apply filter_filter_and.
Qed.

Lemma map_prj_ids : forall f recs, map (fun r => t_id (rr_tx r)) (map (prj f) recs) = map (fun r => t_id (rr_tx r)) recs.
Proof. intros f recs. rewrite map_map. reflexivity. Qed.

Section Split3.
Variables f1 f2 : N -> bool.
Hypothesis disj : forall x, f2 x = true -> f1 x = false.

(* AddRelevantTx for the transactions of a new block on a store seen through three disjoint projections *)
Lemma apply_recs_split3 : forall p h bid recs cs A1 A2 A0,
  NoDup (map (fun r => t_id (rr_tx r)) recs) ->
  (forall r, In r recs -> ~ In (t_id (rr_tx r)) (map c_tx cs)) ->
  (forall r, In r recs -> NoDup (map ro_index (rr_outs r))) ->
  apply_recs p (kept f1 cs) h bid (map (prj f1) recs) = Ok A1 ->
  apply_recs p (kept f2 cs) h bid (map (prj f2) recs) = Ok A2 ->
  apply_recs p (kept (neither f1 f2) cs) h bid (map (prj (neither f1 f2)) recs) = Ok A0 ->
  exists cs', apply_recs p cs h bid recs = Ok cs' /\
              kept f1 cs' = A1 /\ kept f2 cs' = A2 /\ kept (neither f1 f2) cs' = A0.
Proof.
  intros p h bid recs cs A1 A2 A0 Hnd Hf Hro H1 H2 H0.
  assert (Hsub : forall x, f2 x = true -> notk f1 x = true).
  { intros x Hx. unfold notk. rewrite (disj x Hx). reflexivity. }
  destruct (apply_recs_split f2 p h bid (map (prj (notk f1)) recs) (junk f1 cs) A2 A0) as [cs0 [Ha0 [Hk0 Hj0]]].
  - rewrite map_prj_ids. assumption.
  - intros r0 Hr0 Hin. apply in_map_iff in Hr0. destruct Hr0 as [r [Heq Hr]]. subst r0. rewrite prj_tx in Hin.
    apply (Hf r Hr). apply in_map_iff in Hin. destruct Hin as [cr [Heq Hcr]]. apply in_map_iff. exists cr. split; [assumption|].
    unfold junk in Hcr. apply filter_In in Hcr. tauto.
  - intros r0 Hr0. apply in_map_iff in Hr0. destruct Hr0 as [r [Heq Hr]]. subst r0. cbn [prj rr_outs].
    apply NoDup_map_filter. apply Hro. assumption.
  - rewrite (kept_of_junk f2 f1 cs disj). rewrite map_map.
    rewrite (map_ext _ (prj f2)) by (intros r; apply prj_prj_sub; assumption). assumption.
  - rewrite junk_junk. rewrite map_map.
    rewrite (map_ext _ (prj (neither f1 f2))) by (intros r; apply prj_prj_neither). assumption.
  - destruct (apply_recs_split f1 p h bid recs cs A1 cs0 Hnd Hf Hro H1 Ha0) as [cs' [Ha [Hk Hj]]].
    exists cs'. split; [assumption|]. split; [assumption|]. split.
    + rewrite <- (kept_of_junk f2 f1 cs' disj). rewrite Hj. assumption.
    + rewrite <- junk_junk. rewrite Hj. assumption.
Qed.

End Split3.

(* ================================================================ Part B: one group, one connected block *)

Lemma apply_recs_idle : forall p h bid recs cs,
  (forall r, In r recs -> rr_ins r = [] /\ rr_outs r = []) -> apply_recs p cs h bid recs = Ok cs.
Proof.
  intros p h bid recs. induction recs as [|r rest IH]; intros cs H; [reflexivity|].
  cbn [apply_recs]. destruct (H r (or_introl eq_refl)) as [Hi Ho]. rewrite Hi, Ho. cbn [apply_ins apply_outs].
  apply IH. intros r' Hr'. apply H. right. assumption.
Qed.

(* the group is not served by the owner function the block is filtered with (its wallets are importing) *)
Lemma group_connect_idle : forall p (f : N -> bool) ownR all txs h bid X,
  (forall sh, own_sel f ownR sh = None) ->
  apply_recs p X h bid (map (prj f) (map (rec_of ownR all) txs)) = Ok X.
Proof.
  intros p f ownR all txs h bid X Hn. apply apply_recs_idle. intros r Hr.
  rewrite map_map in Hr. apply in_map_iff in Hr. destruct Hr as [t [Heq _]]. subst r.
  rewrite <- rec_of_sel. unfold rec_of. cbn [rr_ins rr_outs]. split.
  - destruct (t_cb t); [reflexivity|]. apply rel_ins_of_none. assumption.
  - apply filter_outs_none. assumption.
Qed.

(* the group is served: its projection follows the chain *)
Lemma group_connect_ready : forall p (f : N -> bool) ownR own_f cs c b,
  wf_txs (chain_txs (c ++ [b])) ->
  (forall sh, own_sel f ownR sh = own_f sh) ->
  kept f cs = E p own_f (ptxs c) ->
  apply_recs p (kept f cs) (b_height b) (b_id b) (map (prj f) (map (rec_of ownR (chain_txs (c ++ [b]))) (b_txs b)))
    = Ok (E p own_f (ptxs (c ++ [b]))).
Proof.
  intros p f ownR own_f cs c b Hwft Hsel Hk.
  set (all := chain_txs (c ++ [b])) in *.
  assert (Hct : all = txs_of (ptxs c) ++ b_txs b).
  { unfold all. rewrite chain_txs_app, txs_of_ptxs. cbn. rewrite app_nil_r. reflexivity. }
  rewrite map_map. rewrite (map_ext _ (rec_of (own_sel f ownR) all)) by (intros t; symmetry; apply rec_of_sel).
  rewrite Hk. rewrite (E_ext_all p own_f (own_sel f ownR)) by (intros sh; symmetry; apply Hsel).
  rewrite (apply_recs_spec p (own_sel f ownR) (b_height b) (b_id b) all (b_txs b) (ptxs c)).
  - f_equal. rewrite ptxs_app. cbn [ptxs flat_map]. rewrite app_nil_r. apply E_ext_all. assumption.
  - rewrite <- Hct. assumption.
  - apply (wt_ids _ Hwft).
  - rewrite <- Hct. apply incl_refl.
Qed.

Lemma E_upto_tx_in : forall p own top c cr, In cr (E p own (ptxs (upto top c))) -> In (c_tx cr) (map t_id (chain_txs c)).
Proof.
  intros p own top c cr H. apply E_credit_tx_in in H. rewrite txs_of_ptxs in H.
  apply in_map_iff in H. destruct H as [t [Hid Ht]]. apply in_map_iff. exists t. split; [assumption|].
  unfold chain_txs in *. apply in_flat_map in Ht. destruct Ht as [b [Hb Ht]]. apply in_flat_map. exists b.
  split; [apply (upto_incl top c); assumption|assumption].
Qed.

(* one wallet w, keystore table keysA: what the owner function of the READY wallets gives for it *)
Section OneWallet.
Variable p : params.
Variable keysA : list (N * N).
Variable w : N.

Lemma top_is_m_ext : forall c st st' top, status_of st' w = status_of st w ->
  top_is_m w keysA c st top -> top_is_m w keysA c st' top.
Proof. intros c st st' top H. unfold top_is_m. rewrite H. tauto. Qed.

Lemma ready_sel_gen : forall st, x_keys st = keysA -> forall sh, own_sel (isw w) (ready_own st) sh =
  match lookupN keysA sh with Some v => if (v =? w)%N then (if is_ready st w then Some w else None) else None | None => None end.
Proof.
  intros st Hk sh. unfold own_sel, ready_own, key_owner, isw. rewrite Hk. destruct (lookupN keysA sh) as [v|]; [|reflexivity].
  destruct (v =? w)%N eqn:E.
  - apply N.eqb_eq in E. subst v. destruct (is_ready st w); [rewrite N.eqb_refl|]; reflexivity.
  - destruct (is_ready st v); [rewrite E|]; reflexivity.
Qed.

Lemma ready_sel_importing : forall st k, x_keys st = keysA -> status_of st w = Some (WImporting k) ->
  forall sh, own_sel (isw w) (ready_own st) sh = None.
Proof.
  intros st k Hk Hs sh. rewrite (ready_sel_gen st Hk). unfold is_ready. rewrite Hs.
  destruct (lookupN keysA sh) as [v|]; [destruct (v =? w)%N|]; reflexivity.
Qed.

Lemma ready_sel_served : forall st, x_keys st = keysA ->
  (status_of st w = Some WReady \/ (status_of st w = None /\ forall sh, ownW w keysA sh = None)) ->
  forall sh, own_sel (isw w) (ready_own st) sh = ownW w keysA sh.
Proof.
  intros st Hk [Hs|[Hs Hn]] sh; rewrite (ready_sel_gen st Hk).
  - unfold is_ready. rewrite Hs. unfold ownW, kown. reflexivity.
  - rewrite Hn. specialize (Hn sh). unfold ownW, kown in Hn.
    destruct (lookupN keysA sh) as [v|]; [|reflexivity]. destruct (v =? w)%N; [discriminate|reflexivity].
Qed.

(* the credits the ready wallets' ledger of c has for w are in the store *)
Lemma wallet_view : forall st c top cs, x_keys st = keysA -> top_is_m w keysA c st top ->
  kept (isw w) cs = E p (ownW w keysA) (ptxs (upto top c)) ->
  forall cr, In cr (E p (own_sel (isw w) (ready_own st)) (ptxs c)) -> In cr cs.
Proof.
  intros st c top cs Hk Htop Hc cr Hcr. destruct Htop as [Hs|[Ht Hs]].
  - rewrite (E_none_fn p _ _ (ready_sel_importing st top Hk Hs)) in Hcr. destruct Hcr.
  - rewrite (E_ext_all p _ (ownW w keysA) _ (ready_sel_served st Hk Hs)) in Hcr.
    rewrite Ht, upto_all in Hc. rewrite <- Hc in Hcr. apply kept_in in Hcr. tauto.
Qed.

Lemma wallet_connect : forall st c b top cs,
  x_keys st = keysA -> wf_txs (chain_txs (c ++ [b])) ->
  top_is_m w keysA c st top -> 0 <= top <= chain_height c ->
  kept (isw w) cs = E p (ownW w keysA) (ptxs (upto top c)) ->
  exists top', top_is_m w keysA (c ++ [b]) st top' /\ 0 <= top' <= chain_height (c ++ [b]) /\
    apply_recs p (kept (isw w) cs) (b_height b) (b_id b)
      (map (prj (isw w)) (map (rec_of (ready_own st) (chain_txs (c ++ [b]))) (b_txs b)))
      = Ok (E p (ownW w keysA) (ptxs (upto top' (c ++ [b])))).
Proof.
  intros st c b top cs Hk Hwft Htop Hr Hc.
  destruct Htop as [Hs|[Ht Hs]].
  - exists top. split; [left; assumption|]. split; [rewrite chain_height_app1; lia|].
    rewrite (group_connect_idle p (isw w) (ready_own st) _ _ _ _ _ (ready_sel_importing st top Hk Hs)).
    rewrite Hc. rewrite upto_app_l; [reflexivity|]. unfold chain_height in Hr. lia.
  - exists (chain_height (c ++ [b])). split; [right; split; [reflexivity|assumption]|].
    split; [rewrite chain_height_app1; lia|].
    rewrite upto_all. apply group_connect_ready; [assumption|apply ready_sel_served; assumption|].
    rewrite Hc, Ht, upto_all. reflexivity.
Qed.

End OneWallet.

Lemma chain_txs_upto_incl : forall top c, incl (txs_of (ptxs (upto top c))) (chain_txs c).
Proof.
  intros top c t Ht. rewrite txs_of_ptxs in Ht. unfold chain_txs in *. apply in_flat_map in Ht. destruct Ht as [b [Hb Ht]].
  apply in_flat_map. exists b. split; [apply (upto_incl top c); assumption|assumption].
Qed.

(* one script hash, one wallet: a credit of the ledger of owner function own' never sits at an output that
   pays a wallet own' does not serve *)
Lemma not_at_outputs : forall p own' ownw l c t ro cr,
  (forall sh v, own' sh = Some v -> ownw sh = None) ->
  NoDup (map t_id (chain_txs c)) -> incl (txs_of l) (chain_txs c) ->
  In t (chain_txs c) -> In ro (filter_outs ownw (t_outs t) 0%N) ->
  In cr (E p own' l) -> c_tx cr = t_id t -> c_vout cr = ro_index ro -> False.
Proof.
  intros p own' ownw l c t ro cr Hdisj Hnd Hincl Ht Hro Hcr Htx Hvout.
  unfold E, mkE in Hcr. apply in_map_iff in Hcr. destruct Hcr as [k [Hk Hin]]. subst cr. cbn [mk_credit c_tx c_vout] in *.
  destruct (coins_l_in_full _ _ _ Hin) as [x [o [Hx [Hktx [_ [_ [Hnth [Hown [_ _]]]]]]]]].
  assert (Hxt : In (pt_tx x) (chain_txs c)). { apply Hincl. unfold txs_of. apply in_map. assumption. }
  assert (Heq : pt_tx x = t). { apply (NoDup_map_inj_in _ _ t_id (chain_txs c)); try assumption. congruence. }
  subst t. apply filter_outs_in in Hro. destruct Hro as [j [Hj [Hnj Ho]]].
  rewrite Hvout, Hj, N.add_0_l, Nat2N.id in Hnth. rewrite Hnj in Hnth. inversion Hnth. subst o.
  apply out_owner_some in Ho. destruct Ho as [Ho _].
  rewrite (Hdisj _ _ Hown) in Ho. discriminate.
Qed.

(* ================================================================ Part C: the invariant with two importing wallets *)

Section Two.
Variable p : params.
Variable g : block.
Variable U : list block.
Hypothesis U_ids : forall b1 b2, In b1 U -> In b2 U -> b_id b1 = b_id b2 -> b1 = b2.
Variables w1 w2 : N.
Hypothesis w12 : w1 <> w2.
Variable keysA : list (N * N).

Definition oth : N -> bool := neither (isw w1) (isw w2).
Definition own00 : owner_fn := own_sel oth (ownA keysA).      (* the addresses of everybody but w1, w2 *)

Lemma disj12 : forall x, isw w2 x = true -> isw w1 x = false.
Proof. intros x H. unfold isw in *. apply N.eqb_eq in H. subst x. apply N.eqb_neq. congruence. Qed.

Lemma oth_not1 : forall x, oth x = true -> isw w1 x = false.
Proof. intros x H. unfold oth, neither in H. apply andb_true_iff in H. destruct H as [H _]. apply negb_true_iff. assumption. Qed.

Lemma oth_not2 : forall x, oth x = true -> isw w2 x = false.
Proof. intros x H. unfold oth, neither in H. apply andb_true_iff in H. destruct H as [_ H]. apply negb_true_iff. assumption. Qed.

Lemma oth_neq : forall v, oth v = true -> v <> w1 /\ v <> w2.
Proof.
  intros v H. pose proof (oth_not1 v H) as H1. pose proof (oth_not2 v H) as H2. unfold isw in *.
  split; apply N.eqb_neq; assumption.
Qed.

(* [minv2 c st]: the handler follows chain c; w1 and w2 each are importing with a cursor of their own, or ready,
   or absent without keys; every other keyed wallet is READY;
     the credits of w_i    = exactly those of the first top_i+1 blocks of c for w_i's addresses (top_i = the
                             cursor of w_i while importing, the height of c otherwise), in chain order,
     the credits of others = exactly those of ALL of c for the other keys, in chain order *)
Record minv2 (c : list block) (st : xstate) : Prop := {
  m2_wf : wf_chain c;
  m2_g : from_g g c;
  m2_U : incl c U;
  m2_synced : synced (x_w st) = synced_of c;
  m2_keys : x_keys st = keysA;
  m2_dead : x_dead st = [];
  m2_cov : covered (x_brecs st) (credits (x_w st));
  m2_others : forall sh v, lookupN keysA sh = Some v -> v <> w1 -> v <> w2 -> status_of st v = Some WReady;
  m2_state : exists top1 top2,
     top_is_m w1 keysA c st top1 /\ top_is_m w2 keysA c st top2 /\
     0 <= top1 <= chain_height c /\ 0 <= top2 <= chain_height c /\
     kept (isw w1) (credits (x_w st)) = E p (ownW w1 keysA) (ptxs (upto top1 c)) /\
     kept (isw w2) (credits (x_w st)) = E p (ownW w2 keysA) (ptxs (upto top2 c)) /\
     kept oth (credits (x_w st)) = E p own00 (ptxs c) /\
     brs_ok c (x_brecs st) /\ brs_le (chain_height c) (x_brecs st)
}.

Lemma sel_oth : forall st, x_keys st = keysA ->
  (forall sh v, lookupN keysA sh = Some v -> v <> w1 -> v <> w2 -> status_of st v = Some WReady) ->
  forall sh, own_sel oth (ready_own st) sh = own00 sh.
Proof.
  intros st Hk Hoth sh. unfold own00, own_sel, ready_own, key_owner, ownA. rewrite Hk.
  destruct (lookupN keysA sh) as [v|] eqn:Hl; [|reflexivity]. destruct (oth v) eqn:Eo.
  - destruct (oth_neq v Eo) as [H1 H2]. unfold is_ready. rewrite (Hoth sh v Hl H1 H2). rewrite Eo. reflexivity.
  - destruct (is_ready st v); [rewrite Eo|]; reflexivity.
Qed.

Lemma agree_U_2 : forall c n, incl c U -> incl n U -> ids_agree c n.
Proof. intros c n Hc Hn b1 b2 H1 H2 Hid. apply U_ids; [apply Hc|apply Hn|]; assumption. Qed.

Lemma minv2_in_step : forall c n st, ninv g U n -> minv2 c st ->
  snd (tip (x_w st)) = b_id (last n g) -> c = n.
Proof.
  intros c n st [Hwfn [Hgn HnU]] Hinv Htip. destruct Hinv as [Hwfc Hgc HcU Hsy _ _ _ _ _].
  destruct (wf_linked _ Hwfn) as [pvn Hln]. destruct (wf_linked _ Hwfc) as [pvc Hlc].
  destruct (exists_last (wf_nonempty _ Hwfc)) as [cpre [z Hc]].
  pose proof (wf_nonempty _ Hwfn) as Hnne.
  pose proof (app_removelast_last g Hnne) as Hn.
  rewrite (xw_eta st), Hsy, Hc, tip_synced_of in Htip. cbn [snd] in Htip.
  assert (Hz : z = last n g).
  { apply U_ids; [| |assumption].
    - apply HcU. rewrite Hc. apply in_or_app. right. left. reflexivity.
    - apply HnU. rewrite Hn at 2. apply in_or_app. right. left. reflexivity. }
  assert (Hpre : cpre = removelast n).
  { apply (common_prefix c n pvc pvn 0 Hlc Hln (agree_U_2 _ _ HcU HnU) cpre z [] (removelast n) []).
    - assumption.
    - rewrite Hz. assumption. }
  rewrite Hc, Hn, Hpre, Hz. reflexivity.
Qed.

(* every credit of the store was created by a transaction of the handler's chain *)
Lemma minv2_store_txs : forall c top1 top2 cs,
  kept (isw w1) cs = E p (ownW w1 keysA) (ptxs (upto top1 c)) ->
  kept (isw w2) cs = E p (ownW w2 keysA) (ptxs (upto top2 c)) ->
  kept oth cs = E p own00 (ptxs c) ->
  forall cr, In cr cs -> In (c_tx cr) (map t_id (chain_txs c)).
Proof.
  intros c top1 top2 cs H1 H2 H0 cr Hcr.
  destruct (isw w1 (c_wallet cr)) eqn:E1; [|destruct (isw w2 (c_wallet cr)) eqn:E2].
  - apply (E_upto_tx_in p (ownW w1 keysA) top1). rewrite <- H1. apply kept_in. split; assumption.
  - apply (E_upto_tx_in p (ownW w2 keysA) top2). rewrite <- H2. apply kept_in. split; assumption.
  - rewrite <- (upto_all c) in H0. apply (E_upto_tx_in p own00 (chain_height c)). rewrite <- H0. apply kept_in.
    split; [assumption|]. unfold oth, neither. rewrite E1, E2. reflexivity.
Qed.

(* ---------------------------------------------------------------- Rollback on the handler's own chain *)

Lemma mrollback2_own : forall c st c1 y c2,
  minv2 c st -> c = c1 ++ y :: c2 ->
  exists st1, xrollback repaired st (b_height y + 1) = XOk st1 /\ minv2 (c1 ++ [y]) st1.
Proof.
  intros c st c1 y c2 [Hwf Hg HU Hsy Hkeys Hdead Hcov Hoth [top1 [top2 [Htop1 [Htop2 [Hr1 [Hr2 [Hc1 [Hc2 [Hco [Hbok Hble]]]]]]]]]]] Hc.
  destruct (wf_linked _ Hwf) as [pv Hl].
  set (hy := b_height y). set (c' := c1 ++ [y]).
  assert (Hc' : c = c' ++ c2) by (unfold c'; rewrite Hc, <- app_assoc; reflexivity).
  assert (Hy : hy = Z.of_nat (length c1)). { unfold hy. rewrite Hc in Hl. rewrite (linked_height _ _ _ _ _ Hl). lia. }
  assert (Hlen' : length c' = (Z.to_nat hy + 1)%nat). { unfold c'. rewrite app_length. cbn [length]. lia. }
  assert (Hch' : chain_height c' = hy). { unfold chain_height. lia. }
  assert (Hhyc : 0 <= hy <= chain_height c). { unfold chain_height. rewrite Hc, app_length. cbn [length]. lia. }
  assert (Hup : forall m, m <= hy -> upto m c = upto m c').
  { intros m Hm. rewrite Hc'. apply upto_app_l. lia. }
  assert (Hwf' : wf_chain c'). { rewrite Hc' in Hwf. apply (wf_chain_prefix _ _ Hwf). unfold c'. destruct c1; discriminate. }
  assert (Hin' : forall b, In b c -> b_height b <= hy -> In b c').
  { intros b Hb Hh. apply (in_prefix_by_height c c1 y c2 pv b Hl Hc Hb Hh). }
  destruct (xrollback_fields st (b_height y + 1) Hcov) as [st1 [Hrb1 [Fcr [Fsy [Fk [Fd Fb]]]]]].
  assert (Htopgen : forall w top, top_is_m w keysA c st top -> 0 <= top <= chain_height c ->
             top_is_m w keysA c' st1 (Z.min top hy)).
  { intros w top Htop Hr. destruct Htop as [Hs|[Ht Hs]].
    - left. unfold hy. rewrite (rollback_pulls_cursor_back repaired st (b_height y + 1) _ w top Hrb1 Hs).
      do 2 f_equal. lia.
    - right. split; [lia|].
      destruct (rollback_keeps_other_status repaired st (b_height y + 1) _ w Hrb1) as [Hrr [_ Hn]].
      destruct Hs as [Hs|[Hs Hnk]]; [left; apply Hrr; assumption|right; split; [apply Hn; assumption|assumption]]. }
  assert (Hgen : forall f own top, 0 <= top <= chain_height c ->
             kept f (credits (x_w st)) = E p own (ptxs (upto top c)) ->
             kept f (rollback_credits (credits (x_w st)) (b_height y + 1)) = E p own (ptxs (upto (Z.min top hy) c'))).
  { intros f own top Hr H. rewrite kept_rollback, H. fold hy. rewrite (rollback_E_upto p own c top hy Hwf) by lia.
    rewrite Hup by lia. reflexivity. }
  exists st1. split; [assumption|].
  constructor; rewrite ?Fcr, ?Fsy, ?Fk, ?Fd, ?Fb; try assumption.
  - destruct Hg as [r Hr]. rewrite Hc in Hr. unfold c'. destruct c1 as [|z c1'].
    + cbn [app] in Hr. inversion Hr. exists []. reflexivity.
    + cbn [app] in Hr. inversion Hr. exists (c1' ++ [y]). reflexivity.
  - intros z Hz. apply HU. rewrite Hc'. apply in_or_app. left. assumption.
  - pose proof (f_equal synced (rollback_at p (ownW w1 keysA) c c1 y c2 pv Hl Hc)) as Hs.
    cbn [rollback_to synced L] in Hs. rewrite Hsy. exact Hs.
  - apply covered_rollback. assumption.
  - intros sh v Hl0 Hne1 Hne2. destruct (rollback_keeps_other_status repaired st (b_height y + 1) _ v Hrb1) as [Hr _].
    apply Hr. apply (Hoth sh v Hl0 Hne1 Hne2).
  - exists (Z.min top1 hy), (Z.min top2 hy).
    split; [apply Htopgen; assumption|]. split; [apply Htopgen; assumption|].
    split; [lia|]. split; [lia|].
    split; [apply Hgen; assumption|]. split; [apply Hgen; assumption|]. split; [|split].
    + rewrite <- (upto_all c) in Hco. rewrite (Hgen oth own00 (chain_height c)) by (try assumption; lia).
      rewrite Z.min_r by lia. rewrite <- Hch', upto_all. reflexivity.
    + intros br Hbr. apply filter_In in Hbr. destruct Hbr as [Hbr Hh]. apply Z.ltb_lt in Hh. fold hy in Hh.
      destruct (Hbok br Hbr) as [b [Hb [Hbh Hbid]]]. exists b. split; [|split; assumption].
      apply Hin'; [assumption|lia].
    + intros br Hbr. apply filter_In in Hbr. destruct Hbr as [Hbr Hh]. apply Z.ltb_lt in Hh. fold hy in Hh. lia.
Qed.

(* ---------------------------------------------------------------- connecting the node's next block *)

Lemma mconnect2_block_inv : forall c n st b r,
  ninv g U n -> minv2 c st -> n = c ++ b :: r ->
  exists st', xconnect_block p n st b = XOk st' /\ minv2 (c ++ [b]) st'.
Proof.
  intros c n st b r [Hwfn [Hgn HnU]] Hinv Hn.
  destruct Hinv as [Hwf Hg HU Hsy Hkeys Hdead Hcov Hoth [top1 [top2 [Htop1 [Htop2 [Hr1 [Hr2 [Hc1 [Hc2 [Hco [Hbok Hble]]]]]]]]]]].
  pose proof (wf_nonempty _ Hwf) as Hne.
  destruct (chain_prefix_facts n c b r Hwfn Hn Hne) as [Hwfp [Hwft Hlook]].
  destruct (wf_linked _ Hwfn) as [pvn Hln].
  assert (Hhb : b_height b = chain_height c + 1).
  { rewrite Hn in Hln. rewrite (linked_height _ _ _ _ _ Hln). unfold chain_height. lia. }
  assert (Hg' : from_g g (c ++ [b])). { destruct Hg as [c0 Hc0]. rewrite Hc0. exists (c0 ++ [b]). reflexivity. }
  assert (HU' : incl (c ++ [b]) U).
  { intros z Hz. apply HnU. rewrite Hn. apply in_app_or in Hz. apply in_or_app. destruct Hz as [Hz|[Hz|[]]]; [left; assumption|].
    right. left. assumption. }
  assert (Hat : node_at n (b_height b) = Some b) by (apply (node_at_on_chain n c b r Hwfn Hn)).
  set (cs := credits (x_w st)) in *.
  assert (Hstx : forall cr, In cr cs -> In (c_tx cr) (map t_id (chain_txs c))).
  { apply (minv2_store_txs c top1 top2 cs); assumption. }
  assert (Hfresh : forall t, In t (b_txs b) -> ~ In (t_id t) (map c_tx cs)).
  { intros t Ht Hin. apply in_map_iff in Hin. destruct Hin as [cr [Heq Hcr]].
    apply (new_block_txs_fresh c b t Hwft Ht). rewrite <- Heq. apply Hstx. assumption. }
  set (ownR := ready_own st) in *.
  set (all := chain_txs (c ++ [b])) in *.
  set (R := map (rec_of ownR all) (b_txs b)).
  assert (Hct : all = txs_of (ptxs c) ++ [] ++ b_txs b).
  { unfold all. rewrite chain_txs_app, txs_of_ptxs. cbn. rewrite app_nil_r. reflexivity. }
  pose proof (sel_oth st Hkeys Hoth) as Hsel0. fold ownR in Hsel0.
  destruct (wallet_connect p keysA w1 st c b top1 cs Hkeys Hwft Htop1 Hr1 Hc1) as [t1' [Ht1' [Hr1' Ha1]]].
  destruct (wallet_connect p keysA w2 st c b top2 cs Hkeys Hwft Htop2 Hr2 Hc2) as [t2' [Ht2' [Hr2' Ha2]]].
  pose proof (group_connect_ready p oth ownR own00 cs c b Hwft Hsel0 Hco) as Ha0.
  fold ownR all R in Ha1, Ha2, Ha0.
  assert (HndR : NoDup (map (fun r0 => t_id (rr_tx r0)) R)).
  { unfold R. rewrite map_map. cbn [rec_of rr_tx].
    pose proof (wt_ids _ Hwft) as Hnd. unfold all in Hnd. rewrite chain_txs_app, map_app in Hnd.
    apply NoDup_app_inv in Hnd. destruct Hnd as [_ [Hnd _]]. cbn in Hnd. rewrite app_nil_r in Hnd. exact Hnd. }
  assert (HfR : forall r0, In r0 R -> ~ In (t_id (rr_tx r0)) (map c_tx cs)).
  { intros r0 Hr0. unfold R in Hr0. apply in_map_iff in Hr0. destruct Hr0 as [t [Heq Ht0]]. subst r0.
    cbn [rec_of rr_tx]. apply Hfresh. assumption. }
  assert (HroR : forall r0, In r0 R -> NoDup (map ro_index (rr_outs r0))).
  { intros r0 Hr0. unfold R in Hr0. apply in_map_iff in Hr0. destruct Hr0 as [t [Heq Ht0]]. subst r0.
    cbn [rec_of rr_outs]. apply filter_outs_index_nodup. }
  destruct (apply_recs_split3 (isw w1) (isw w2) disj12 p (b_height b) (b_id b) R cs _ _ _ HndR HfR HroR Ha1 Ha2 Ha0)
    as [cs' [Ha [Hk1 [Hk2 Hk0]]]].
  assert (Hf : filter_block_txs ownR cs (node_tx n) [] (b_txs b) = Ok (filter rec_keep R)).
  { apply (filter_block_txs_view p ownR (node_tx n) (ptxs c) all (b_txs b) [] cs Hct Hwft).
    - rewrite txs_of_ptxs. assumption.
    - intros h Hex. unfold exist_credit_from_tx in *. apply existsb_exists in Hex. destruct Hex as [cr [Hcr Hh]].
      apply existsb_exists. exists cr. split; [|assumption].
      destruct (isw w1 (c_wallet cr)) eqn:E1; [|destruct (isw w2 (c_wallet cr)) eqn:E2].
      + apply (wallet_view p keysA w1 st c top1 cs Hkeys Htop1 Hc1). fold ownR. rewrite <- E_sel. apply kept_in. split; assumption.
      + apply (wallet_view p keysA w2 st c top2 cs Hkeys Htop2 Hc2). fold ownR. rewrite <- E_sel. apply kept_in. split; assumption.
      + assert (Hin0 : In cr (kept oth cs)).
        { rewrite Hco. rewrite (E_ext_all p own00 (own_sel oth ownR)) by (intros sh; symmetry; apply Hsel0).
          rewrite <- E_sel. apply kept_in. split; [assumption|]. unfold oth, neither. rewrite E1, E2. reflexivity. }
        apply kept_in in Hin0. tauto. }
  rewrite <- apply_recs_filter in Ha.
  destruct (xconnect_block_eq p n st b (filter rec_keep R) cs' Hat Hf Ha Hcov) as [Hx Hcov'].
  eexists. split; [exact Hx|].
  constructor; cbn [with_brecs with_w x_w x_brecs x_keys x_status x_dead credits synced]; try assumption.
  - rewrite synced_of_snoc, Hsy. reflexivity.
  - exists t1', t2'.
    split; [apply (top_is_m_ext keysA w1 _ st); [reflexivity|assumption]|].
    split; [apply (top_is_m_ext keysA w2 _ st); [reflexivity|assumption]|].
    split; [assumption|]. split; [assumption|].
    split; [assumption|]. split; [assumption|]. split; [assumption|]. split.
    + apply add_ids_ok; [|apply in_or_app; right; left; reflexivity].
      apply (brs_ok_mono c); [apply incl_appl; apply incl_refl|assumption].
    + rewrite chain_height_app1. apply add_ids_le; [|lia]. intros br Hbr. specialize (Hble br Hbr). lia.
Qed.

Lemma mconnect2_all_inv : forall bs c n st r,
  ninv g U n -> minv2 c st -> n = c ++ bs ++ r ->
  exists st', xconnect_all p n st bs = XOk st' /\ minv2 (c ++ bs) st'.
Proof.
  induction bs as [|b bs IH]; intros c n st r Hn Hinv Heq.
  - exists st. split; [reflexivity|]. rewrite app_nil_r. assumption.
  - cbn [xconnect_all].
    destruct (mconnect2_block_inv c n st b (bs ++ r) Hn Hinv Heq) as [st1 [Hx Hinv1]].
    rewrite Hx.
    destruct (IH (c ++ [b]) n st1 r Hn Hinv1) as [st' [Hx' Hinv']].
    { rewrite Heq, <- app_assoc. reflexivity. }
    exists st'. split; [assumption|]. rewrite <- app_assoc in Hinv'. exact Hinv'.
Qed.

(* ---------------------------------------------------------------- announcing a block *)

Lemma mprocess2_on_node : forall c n st b n1 n2,
  ninv g U n -> minv2 c st -> n = n1 ++ b :: n2 -> n1 <> [] ->
  exists st', xprocess repaired p n st b = XOk st' /\ minv2 (n1 ++ [b]) st'.
Proof.
  intros c n st b n1 n2 Hninv Hinv Hn Hne. pose proof Hninv as [Hwfn [Hgn HnU]].
  pose proof Hinv as [Hwfc Hgc HcU Hsy _ _ _ _ _].
  destruct (wf_linked _ Hwfn) as [pvn Hln]. destruct (wf_linked _ Hwfc) as [pvc Hlc].
  pose proof (agree_U_2 _ _ HcU HnU) as Hids.
  unfold xprocess. destruct (snd (tip (x_w st)) =? b_prev b)%N eqn:Htip.
  - destruct (exists_last (wf_nonempty _ Hwfc)) as [cpre [y Hc]].
    destruct (exists_last Hne) as [n1' [x' Hn1]].
    rewrite (xw_eta st), Hsy, Hc, tip_synced_of in Htip. cbn [snd] in Htip. apply N.eqb_eq in Htip.
    assert (Hn' : n = n1' ++ x' :: b :: n2). { rewrite Hn, Hn1, <- app_assoc. reflexivity. }
    assert (Hyx : y = x').
    { apply Hids.
      - rewrite Hc. apply in_or_app. right. left. reflexivity.
      - rewrite Hn'. apply in_or_app. right. left. reflexivity.
      - rewrite Htip. rewrite Hn' in Hln. apply (linked_prev _ _ _ _ _ _ Hln). }
    subst x'.
    assert (Hpre : cpre = n1').
    { apply (common_prefix c n pvc pvn 0 Hlc Hln Hids cpre y [] n1' (b :: n2)); assumption. }
    assert (Hcn : c = n1). { rewrite Hc, Hn1, Hpre. reflexivity. }
    cbn [xconnect_all]. rewrite <- Hcn in *.
    destruct (mconnect2_block_inv c n st b n2 Hninv Hinv Hn) as [st' [Hx Hinv']].
    rewrite Hx. exists st'. split; [reflexivity|assumption].
  - assert (Hfuel : (length n1 < S (Z.to_nat (b_height b)))%nat).
    { rewrite Hn in Hln. rewrite (linked_height _ _ _ _ _ Hln). lia. }
    assert (Hgen : same_genesis c n). { apply (same_genesis_from_g g); assumption. }
    destruct (collect_spec p (ownW w1 keysA) c n pvc pvn Hlc Hln (wf_bids _ Hwfn) Hgen Hids
                _ n1 b [] n2 Hn Hfuel) as [m1 [y [m2 [Hsplit [Hy Hcol]]]]].
    rewrite (collect_synced_ext n (x_w st) (L p (ownW w1 keysA) c)) by (rewrite Hsy; reflexivity).
    rewrite Hcol.
    apply in_split in Hy. destruct Hy as [c1 [c2 Hc]].
    assert (Hn' : n = m1 ++ y :: m2 ++ n2).
    { rewrite Hn. change (b :: n2) with ([b] ++ n2). rewrite app_assoc, Hsplit, <- app_assoc. reflexivity. }
    assert (Hc1 : c1 = m1).
    { apply (common_prefix c n pvc pvn 0 Hlc Hln Hids c1 y c2 m1 (m2 ++ n2)); assumption. }
    subst c1.
    destruct (mrollback2_own c st m1 y c2 Hinv Hc) as [st1 [Hrb Hinv1]].
    rewrite Hrb.
    destruct (mconnect2_all_inv m2 (m1 ++ [y]) n st1 n2 Hninv Hinv1) as [st' [Hx Hinv']].
    { rewrite Hn', <- app_assoc. reflexivity. }
    exists st'. split; [assumption|].
    rewrite <- app_assoc in Hinv'. cbn [app] in Hinv'. rewrite <- Hsplit in Hinv'. exact Hinv'.
Qed.

Lemma mprocess2_inv : forall c n st b st',
  ninv g U n -> minv2 c st -> In b U -> b <> g ->
  xprocess repaired p n st b = XOk st' ->
  exists c', minv2 c' st' /\ incl c' (c ++ n).
Proof.
  intros c n st b st' Hninv Hinv HbU Hbg Hx. pose proof Hninv as [Hwfn [Hgn HnU]].
  pose proof Hinv as [Hwfc Hgc HcU Hsy _ _ Hcov _ _].
  assert (Hbyid : forall nb, In nb n -> b_id nb = b_id b -> In b n).
  { intros nb Hin Hid. rewrite <- (U_ids nb b (HnU _ Hin) HbU Hid). assumption. }
  destruct (in_dec block_eq_dec b n) as [Hbn|Hbn].
  - apply in_split in Hbn. destruct Hbn as [n1 [n2 Hn]].
    assert (Hne : n1 <> []).
    { intros Hnil. subst n1. destruct Hgn as [n' Hn']. rewrite Hn in Hn'. cbn [app] in Hn'. inversion Hn'. contradiction. }
    destruct (mprocess2_on_node c n st b n1 n2 Hninv Hinv Hn Hne) as [st1 [Hx1 Hinv']].
    rewrite Hx1 in Hx. inversion Hx. subst st1.
    exists (n1 ++ [b]). split; [assumption|].
    apply incl_appr. rewrite Hn. intros z Hz. apply in_app_or in Hz. apply in_or_app.
    destruct Hz as [Hz|[Hz|[]]]; [left; assumption|right; left; assumption].
  - (* not a block of the node: an old block of the handler's chain (rolled back to) *)
    pose proof Hx as H'. unfold xprocess in H'.
    destruct (snd (tip (x_w st)) =? b_prev b)%N eqn:Htip.
    + exfalso. destruct (xconnect_all_ok_in p _ _ _ _ H' b (or_introl eq_refl)) as [nb [Hin Hid]].
      apply Hbn. apply (Hbyid nb Hin Hid).
    + destruct (collect n (x_w st) (S (Z.to_nat (b_height b))) b []) as [[fork bs]|] eqn:Hcol; [|discriminate].
      destruct (xrollback repaired st (fork + 1)) as [st1| |] eqn:Hrb; try discriminate.
      destruct (collect_cases _ _ _ _ _ _ _ Hcol) as [[Hm [Hf Hbs]]|Hin].
      * subst fork bs.
        assert (Hbc : In b c).
        { apply (matched_in p (ownW w1 keysA) c [b] b).
          - apply agree_U_2; [assumption|]. intros z [Hz|[]]. subst z. assumption.
          - left. reflexivity.
          - rewrite <- Hm. apply matched_synced_ext. rewrite Hsy. reflexivity. }
        apply in_split in Hbc. destruct Hbc as [c1 [c2 Hc]].
        destruct (mrollback2_own c st c1 b c2 Hinv Hc) as [st2 [Hrb2 Hinv1]].
        rewrite Hrb2 in Hrb. inversion Hrb. subst st2. cbn [xconnect_all] in H'. inversion H'. subst st1.
        exists (c1 ++ [b]). split; [assumption|].
        apply incl_appl. rewrite Hc. intros z Hz.
        apply in_app_or in Hz. apply in_or_app. destruct Hz as [Hz|[Hz|[]]]; [left; assumption|right; left; assumption].
      * exfalso. destruct (xconnect_all_ok_in p _ _ _ _ H' b Hin) as [nb [Hin' Hid]].
        apply Hbn. apply (Hbyid nb Hin' Hid).
Qed.

(* ---------------------------------------------------------------- a rescan batch of w1, whatever the node's chain *)

Lemma node_on_synced_upto_2 : forall c n st h, ninv g U n -> minv2 c st ->
  node_on_synced n (x_w st) h = true ->
  0 <= h <= chain_height c /\ h <= chain_height n /\ upto h c = upto h n.
Proof.
  intros c n st h [Hwfn [Hgn HnU]] [Hwf Hg HU Hsy _ _ _ _ _] Hchk.
  destruct (wf_linked _ Hwf) as [pvc Hlc]. destruct (wf_linked _ Hwfn) as [pvn Hln].
  pose proof (agree_U_2 _ _ HU HnU) as Hids.
  apply node_on_synced_iff in Hchk. destruct Hchk as [nb [Hat Hm]].
  unfold node_at in Hat. apply find_some in Hat. destruct Hat as [Hnbn Hh]. apply Z.eqb_eq in Hh.
  assert (Hnbc : In nb c).
  { apply (matched_in p (ownW w1 keysA) c n nb Hids Hnbn). rewrite <- Hm. apply matched_synced_ext. rewrite Hsy. reflexivity. }
  apply in_split in Hnbc. destruct Hnbc as [c1 [c2 Hc]].
  apply in_split in Hnbn. destruct Hnbn as [n1 [n2 Hn]].
  assert (Hc1 : c1 = n1). { apply (common_prefix c n pvc pvn 0 Hlc Hln Hids c1 nb c2 n1 n2); assumption. }
  subst n1.
  assert (Hlen : h = Z.of_nat (length c1)). { rewrite Hc in Hlc. rewrite (linked_height _ _ _ _ _ Hlc) in Hh. lia. }
  assert (Hc' : c = (c1 ++ [nb]) ++ c2) by (rewrite Hc, <- app_assoc; reflexivity).
  assert (Hn' : n = (c1 ++ [nb]) ++ n2) by (rewrite Hn, <- app_assoc; reflexivity).
  assert (Hl1 : (Z.to_nat h + 1 = length (c1 ++ [nb]))%nat). { rewrite app_length. cbn [length]. lia. }
  split; [|split].
  - unfold chain_height. rewrite Hc, app_length. cbn [length]. lia.
  - unfold chain_height. rewrite Hn, app_length. cbn [length]. lia.
  - rewrite Hc' at 1. rewrite Hn' at 1. rewrite !upto_exact by assumption. reflexivity.
Qed.

Lemma ownW2_not1 : forall sh v, ownW w2 keysA sh = Some v -> ownW w1 keysA sh = None.
Proof.
  intros sh v H. unfold ownW, kown in *. destruct (lookupN keysA sh) as [v'|]; [|reflexivity].
  destruct (v' =? w2)%N eqn:E; [|discriminate]. apply N.eqb_eq in E. subst v'.
  destruct (w2 =? w1)%N eqn:E1; [|reflexivity]. apply N.eqb_eq in E1. congruence.
Qed.

Lemma own00_not1 : forall sh v, own00 sh = Some v -> ownW w1 keysA sh = None.
Proof.
  intros sh v H. unfold own00, own_sel, ownA, ownW, kown in *. destruct (lookupN keysA sh) as [v'|]; [|reflexivity].
  destruct (oth v') eqn:Eo; [|discriminate]. pose proof (oth_not1 v' Eo) as H1. unfold isw in H1. rewrite H1. reflexivity.
Qed.

(* no credit of anybody else sits at an output that pays w1 *)
Lemma junk1_never_at_w1_outputs : forall c top2 cs t ro h bid, 0 <= top2 ->
  kept (isw w2) cs = E p (ownW w2 keysA) (ptxs (upto top2 c)) ->
  kept oth cs = E p own00 (ptxs c) ->
  NoDup (map t_id (chain_txs c)) -> In t (chain_txs c) -> In ro (filter_outs (ownW w1 keysA) (t_outs t) 0%N) ->
  exists_credit_at (junk (isw w1) cs) (t_id t, ro_index ro) h bid = false.
Proof.
  intros c top2 cs t ro h bid Ht2 H2 H0 Hnd Ht Hro. unfold exists_credit_at. apply not_true_is_false. intros Hex.
  apply existsb_exists in Hex. destruct Hex as [cr [Hcr Hb]].
  apply andb_true_iff in Hb. destruct Hb as [Hb _]. apply andb_true_iff in Hb. destruct Hb as [Hb _].
  apply op_eqb_eq in Hb. unfold credit_op in Hb. inversion Hb as [[Htx Hvout]]. clear Hb.
  unfold junk in Hcr. apply filter_In in Hcr. destruct Hcr as [Hcr Hn1]. apply negb_true_iff in Hn1. unfold keepc in Hn1.
  destruct (isw w2 (c_wallet cr)) eqn:E2.
  - assert (Hin : In cr (E p (ownW w2 keysA) (ptxs (upto top2 c)))). { rewrite <- H2. apply kept_in. split; assumption. }
    apply (not_at_outputs p (ownW w2 keysA) (ownW w1 keysA) _ c t ro cr ownW2_not1 Hnd (chain_txs_upto_incl top2 c) Ht Hro Hin Htx Hvout).
  - assert (Hin : In cr (E p own00 (ptxs c))).
    { rewrite <- H0. apply kept_in. split; [assumption|]. unfold oth, neither. rewrite Hn1, E2. reflexivity. }
    refine (not_at_outputs p own00 (ownW w1 keysA) _ c t ro cr own00_not1 Hnd _ Ht Hro Hin Htx Hvout).
    rewrite txs_of_ptxs. apply incl_refl.
Qed.

(* T: a batch of w1 — committed, retried or refused — keeps the invariant, whatever well-formed chain the node has
   and wherever the rescan of w2 is *)
Lemma mbatch2_inv : forall B c n st, ninv g U n -> 0 < B -> minv2 c st ->
  minv2 c (fst (import_batch repaired p B n st w1)).
Proof.
  intros B c n st Hninv HB Hinv. pose proof Hninv as [Hwfn [Hgn HnU]].
  pose proof Hinv as [Hwf Hg HU Hsy Hkeys Hdead Hcov Hoth [top [top2 [Htop [Htop2 [Hrange [Hr2 [Hcw [Hc2 [Hco [Hbok Hble]]]]]]]]]]].
  destruct (wf_linked _ Hwf) as [pvc Hlc]. destruct (wf_linked _ Hwfn) as [pvn Hln].
  unfold import_batch. destruct Htop as [Hs|[Ht [Hs|[Hs _]]]].
  2:{ rewrite Hs. exact Hinv. }
  2:{ rewrite Hs. exact Hinv. }
  rewrite Hs, Hdead. cbn [memN existsb].
  assert (Hbest : fst (tip (x_w st)) = chain_height c).
  { rewrite (xw_eta st), Hsy. apply tip_of_synced. assumption. }
  rewrite Hbest. rewrite (own_w_ownW w1 keysA st Hkeys).
  set (stop := Z.min (top + B) (chain_height c)).
  assert (Hstop : top <= stop <= chain_height c) by (unfold stop; lia).
  set (cs := credits (x_w st)) in *.
  destruct (import_blocks p (ownW w1 keysA) n top stop (cs, x_brecs st) n) as [[cs' brs']|e] eqn:Hb.
  2:{ destruct e; cbn; exact Hinv. }
  cbn [repaired f_import_tipcheck andb].
  destruct (node_on_synced n (x_w st) stop) eqn:Hchk; cbn [negb fst]; [|exact Hinv].
  destruct (node_on_synced_upto_2 c n st stop Hninv Hinv Hchk) as [_ [Hsn Hups]].
  destruct (import_blocks_above _ _ _ _ _ _ _ _ _ _ Hb) as [G1 [G2 [G3 G4]]].
  assert (Hupt : upto top c = upto top n).
  { rewrite <- (upto_upto top stop c), <- (upto_upto top stop n) by lia. rewrite Hups. reflexivity. }
  destruct (import_blocks_exact2 p (ownW w1 keysA) n c top stop (x_brecs st) Hwfn ltac:(lia) Hsn) as [brs'' [Hex Hbok']].
  { rewrite <- Hups. apply upto_incl. }
  { apply (linked_uniq_heights _ _ Hlc). }
  { assumption. }
  rewrite <- Hupt, <- Hcw in Hex.
  destruct (import_blocks_proj (isw w1) p (ownW w1 keysA) (ownW_isw w1 keysA) n top stop n cs (x_brecs st) _ brs'' Hex) as [cs1 [Hb1 [Hk1 Hj1]]].
  { intros b0 t ro Hb0 Hrg Ht0 Hro.
    apply (junk1_never_at_w1_outputs c top2 cs t ro _ _ ltac:(lia) Hc2 Hco (wf_txids _ Hwf)); [|assumption].
    unfold chain_txs. apply in_flat_map. exists b0. split; [|assumption].
    apply (upto_incl stop c). rewrite Hups. apply (in_upto n pvn b0 stop Hln Hb0). lia. }
  rewrite Hb1 in Hb. inversion Hb. subst cs1 brs''. clear Hb.
  constructor; cbn [with_status with_brecs with_w x_w x_brecs x_keys x_dead x_status credits synced]; try assumption.
  - apply G2. assumption.
  - intros sh v Hl0 Hne1 Hne2. unfold status_of. cbn [with_status x_status]. rewrite lookupN_setN_other by assumption.
    apply (Hoth sh v Hl0 Hne1 Hne2).
  - exists stop, top2. split; [|split; [|split; [lia|split; [assumption|]]]].
    + unfold top_is_m, status_of. cbn [with_status x_status]. rewrite lookupN_setN_same.
      destruct (stop =? chain_height c) eqn:Es; [right; split; [apply Z.eqb_eq; assumption|left; reflexivity]|left; reflexivity].
    + apply (top_is_m_ext keysA w2 c st); [|assumption].
      unfold status_of. cbn [with_status x_status]. apply lookupN_setN_other. congruence.
    + split; [|split; [|split; [|split]]].
      * rewrite Hk1, Hups. reflexivity.
      * rewrite <- (kept_of_junk (isw w2) (isw w1) cs' disj12). rewrite Hj1. rewrite (kept_of_junk (isw w2) (isw w1) cs disj12). exact Hc2.
      * rewrite <- (kept_of_junk oth (isw w1) cs' oth_not1). rewrite Hj1. rewrite (kept_of_junk oth (isw w1) cs oth_not1). exact Hco.
      * assumption.
      * apply G4; [assumption|lia].
Qed.

(* in step, a batch of w1 commits: the cursor advances by B or the wallet is handed over *)
Lemma mbatch2_progress : forall B n st k, ninv g U n -> 0 < B -> minv2 n st -> status_of st w1 = Some (WImporting k) ->
  let stop := Z.min (k + B) (chain_height n) in
  status_of (fst (import_batch repaired p B n st w1)) w1 = Some (if stop =? chain_height n then WReady else WImporting stop).
Proof.
  intros B n st k Hninv HB Hinv Hs stop. pose proof Hninv as [Hwfn [Hgn HnU]].
  pose proof Hinv as [Hwf Hg HU Hsy Hkeys Hdead Hcov Hoth [top [top2 [Htop [Htop2 [Hrange [Hr2 [Hcw [Hc2 [Hco [Hbok Hble]]]]]]]]]]].
  destruct (wf_linked _ Hwf) as [pvc Hlc].
  assert (Hk : top = k). { destruct Htop as [Hs'|[_ [Hs'|[Hs' _]]]]; congruence. }
  subst top.
  unfold import_batch. rewrite Hs, Hdead. cbn [memN existsb].
  assert (Hbest : fst (tip (x_w st)) = chain_height n).
  { rewrite (xw_eta st), Hsy. apply tip_of_synced. assumption. }
  rewrite Hbest. rewrite (own_w_ownW w1 keysA st Hkeys). fold stop.
  assert (Hstop : k <= stop <= chain_height n) by (unfold stop; lia).
  destruct (import_blocks_exact2 p (ownW w1 keysA) n n k stop (x_brecs st) Hwf ltac:(lia) ltac:(lia)) as [brs'' [Hex Hbok']].
  { apply upto_incl. }
  { apply (linked_uniq_heights _ _ Hlc). }
  { assumption. }
  rewrite <- Hcw in Hex.
  destruct (import_blocks_proj (isw w1) p (ownW w1 keysA) (ownW_isw w1 keysA) n k stop n (credits (x_w st)) (x_brecs st) _ brs'' Hex) as [cs1 [Hb1 _]].
  { intros b0 t ro Hb0 Hrg Ht0 Hro.
    apply (junk1_never_at_w1_outputs n top2 _ t ro _ _ ltac:(lia) Hc2 Hco (wf_txids _ Hwf)); [|assumption].
    unfold chain_txs. apply in_flat_map. exists b0. split; assumption. }
  rewrite Hb1. rewrite (node_on_synced_self n (x_w st) stop Hwf Hsy) by lia.
  cbn [repaired f_import_tipcheck andb negb fst]. unfold status_of. cbn [with_status x_status].
  apply lookupN_setN_same.
Qed.

End Two.

(* ================================================================ Part D: symmetry, the start, histories *)

Lemma neither_comm : forall f1 f2 x, neither f1 f2 x = neither f2 f1 x.
Proof. intros. unfold neither. apply andb_comm. Qed.

Lemma own00_comm : forall w1 w2 keysA sh, own00 w1 w2 keysA sh = own00 w2 w1 keysA sh.
Proof.
  intros. unfold own00, own_sel, oth. destruct (ownA keysA sh) as [v|]; [|reflexivity]. rewrite neither_comm. reflexivity.
Qed.

Lemma minv2_swap : forall p g U w1 w2 keysA c st, minv2 p g U w1 w2 keysA c st -> minv2 p g U w2 w1 keysA c st.
Proof.
  intros p g U w1 w2 keysA c st [Hwf Hg HU Hsy Hkeys Hdead Hcov Hoth [top1 [top2 [Htop1 [Htop2 [Hr1 [Hr2 [Hc1 [Hc2 [Hco [Hbok Hble]]]]]]]]]]].
  constructor; try assumption.
  - intros sh v Hl H2 H1. apply (Hoth sh v Hl H1 H2).
  - exists top2, top1. repeat (split; [assumption|]). split; [|split; assumption].
    unfold oth. rewrite (kept_ext _ (neither (isw w1) (isw w2))) by (intros x; apply neither_comm).
    fold (oth w1 w2). rewrite Hco. apply E_ext_all. intros sh. apply own00_comm.
Qed.

(* a batch of the OTHER wallet *)
Lemma mbatch2_inv_2 : forall p g U, (forall b1 b2, In b1 U -> In b2 U -> b_id b1 = b_id b2 -> b1 = b2) ->
  forall w1 w2, w1 <> w2 -> forall keysA B c n st, ninv g U n -> 0 < B -> minv2 p g U w1 w2 keysA c st ->
  minv2 p g U w1 w2 keysA c (fst (import_batch repaired p B n st w2)).
Proof.
  intros p g U Uids w1 w2 H12 keysA B c n st Hn HB Hinv. apply minv2_swap.
  apply (mbatch2_inv p g U Uids w2 w1 (fun H => H12 (eq_sym H)) keysA B c n st Hn HB). apply minv2_swap. assumption.
Qed.

(* the invariant of ImportProofs3 (one importing wallet) is the case "w2 absent" *)
Lemma minv_minv2 : forall p g U w1 w2 keysA c st, w1 <> w2 ->
  minv p g U w1 keysA c st -> status_of st w2 = None -> (forall sh, ownW w2 keysA sh = None) ->
  minv2 p g U w1 w2 keysA c st.
Proof.
  intros p g U w1 w2 keysA c st H12 [Hwf Hg HU Hsy Hkeys Hdead Hcov Hoth [top [Htop [Hrange [Hcw [Hco [Hbok Hble]]]]]]] Hs2 Hn2.
  constructor; try assumption.
  - intros sh v Hl H1 _. apply (Hoth sh v Hl H1).
  - exists top, (chain_height c). split; [assumption|]. split; [right; split; [reflexivity|right; split; assumption]|].
    split; [assumption|]. split; [lia|]. split; [assumption|]. split; [|split; [|split; assumption]].
    + rewrite (E_none_fn p _ _ Hn2).
      rewrite <- (kept_kept_sub (isw w2) (notw w1)).
      2:{ intros x Hx. unfold notw, notk, isw in *. apply N.eqb_eq in Hx. subst x.
          destruct (w2 =? w1)%N eqn:E; [apply N.eqb_eq in E; congruence|reflexivity]. }
      rewrite Hco, E_sel. apply E_none_fn. intros sh. unfold own0, ownA, own_sel.
      destruct (lookupN keysA sh) as [v|] eqn:Hl; [|reflexivity]. destruct (notw w1 v); [|reflexivity].
      destruct (isw w2 v) eqn:E2; [|reflexivity]. unfold isw in E2. apply N.eqb_eq in E2. subst v.
      specialize (Hn2 sh). unfold ownW, kown in Hn2. rewrite Hl, N.eqb_refl in Hn2. discriminate.
    + rewrite <- (kept_kept_sub (oth w1 w2) (notw w1)).
      2:{ intros x Hx. unfold notw, notk. rewrite (oth_not1 w1 w2 x Hx). reflexivity. }
      rewrite Hco, E_sel. apply E_ext_all. intros sh. unfold own00, own0, ownA, own_sel.
      destruct (lookupN keysA sh) as [v|]; [|reflexivity]. destruct (notw w1 v) eqn:E1; [reflexivity|].
      destruct (oth w1 w2 v) eqn:Eo; [|reflexivity]. unfold notw, notk in E1. rewrite (oth_not1 w1 w2 v Eo) in E1. discriminate.
Qed.

Lemma ownW_keys_app_other : forall w v keys0 shs, v <> w ->
  forall sh, ownW v (keys0 ++ keys_of w shs) sh = ownW v keys0 sh.
Proof.
  intros w v keys0 shs Hne sh. rewrite <- !ownA_isw. unfold ownA. apply own_sel_keys_app.
  unfold isw. apply N.eqb_neq. congruence.
Qed.

(* ImportWallet(WithMnemonic) of w2 while w1 may still be importing *)
Lemma minv2_import_start : forall p g U w1 w2 keys0 c st0 pass sh shs st1, w1 <> w2 ->
  minv2 p g U w1 w2 keys0 c st0 -> status_of st0 w2 = None -> (forall s, ownW w2 keys0 s = None) ->
  import_start st0 w2 pass (sh :: shs) = Some st1 ->
  minv2 p g U w1 w2 (keys0 ++ keys_of w2 (sh :: shs)) c st1.
Proof.
  intros p g U w1 w2 keys0 c st0 pass sh shs st1 H12 Hinv Hs Hnone H.
  destruct Hinv as [Hwf Hg HU Hsy Hkeys Hdead Hcov Hoth [top1 [top2 [Htop1 [Htop2 [Hr1 [Hr2 [Hc1 [Hc2 [Hco [Hbok Hble]]]]]]]]]]].
  unfold import_start in H. destruct (wallet_known st0 w2); [discriminate|]. inversion H. subst st1. clear H.
  constructor; cbn [x_w x_keys x_dead x_brecs x_status]; try assumption.
  - rewrite Hkeys. reflexivity.
  - rewrite Hdead. reflexivity.
  - intros s v Hl Hne1 Hne2. unfold status_of. cbn [x_status].
    destruct (lookupN keys0 s) as [v'|] eqn:Hl0.
    + rewrite (lookupN_app_some _ _ _ _ _ Hl0) in Hl. inversion Hl. subst v'.
      apply lookupN_app_some. apply (Hoth s v Hl0 Hne1 Hne2).
    + rewrite (lookupN_app_none _ _ _ _ Hl0) in Hl. apply keys_of_w in Hl. contradiction.
  - exists top1, 0. split; [|split; [|split; [assumption|split; [lia|]]]].
    + unfold top_is_m, status_of in *. cbn [x_status]. rewrite (lookupN_app_other _ (x_status st0) w2 w1) by assumption.
      destruct Htop1 as [Hs1|[Ht [Hs1|[Hs1 Hn1]]]]; [left; assumption|right; split; [assumption|left; assumption]|].
      right. split; [assumption|]. right. split; [assumption|]. intros s. rewrite ownW_keys_app_other by assumption. apply Hn1.
    + left. unfold status_of in *. cbn [x_status]. rewrite (lookupN_app_none _ _ _ _ Hs). cbn. rewrite N.eqb_refl. reflexivity.
    + split; [|split; [|split; [|split; assumption]]].
      * rewrite Hc1. apply E_ext_all. intros s. symmetry. apply ownW_keys_app_other. assumption.
      * rewrite Hc2. rewrite (E_none_fn p _ _ Hnone). symmetry. apply upto0_E. assumption.
      * rewrite Hco. apply E_ext_all. intros s. unfold own00, ownA. symmetry. apply own_sel_keys_app.
        unfold oth, neither, isw. rewrite (N.eqb_refl w2). apply andb_false_r.
Qed.

(* ---------------------------------------------------------------- what the invariant gives *)

Lemma perm3 : forall f1 f2 cs, (forall x, f2 x = true -> f1 x = false) ->
  Permutation cs (kept f1 cs ++ kept f2 cs ++ kept (neither f1 f2) cs).
Proof.
  intros f1 f2 cs Hd. eapply Permutation_trans; [apply (perm_kept_junk f1)|]. apply Permutation_app_head.
  eapply Permutation_trans; [apply (perm_kept_junk f2)|]. rewrite (kept_of_junk f2 f1 cs Hd), junk_junk. apply Permutation_refl.
Qed.

Section TwoGives.
Variable p : params.
Variable g : block.
Variable U : list block.
Variables w1 w2 : N.
Hypothesis w12 : w1 <> w2.
Variable keysA : list (N * N).

Lemma minv2_wallet_live : forall c st v top, v = w1 \/ v = w2 -> top = chain_height c ->
  kept (isw v) (credits (x_w st)) = E p (ownW v keysA) (ptxs (upto top c)) ->
  kept (isw v) (credits (x_w st)) = kept (isw v) (credits (L p (ownA keysA) c)).
Proof.
  intros c st v top _ Ht H. rewrite H, Ht, upto_all. cbn [L credits]. rewrite E_sel. apply E_ext_all.
  intros sh. symmetry. apply ownA_isw.
Qed.

Lemma minv2_oth_live : forall c st, kept (oth w1 w2) (credits (x_w st)) = E p (own00 w1 w2 keysA) (ptxs c) ->
  kept (oth w1 w2) (credits (x_w st)) = kept (oth w1 w2) (credits (L p (ownA keysA) c)).
Proof. intros c st H. rewrite H. cbn [L credits]. rewrite E_sel. reflexivity. Qed.

(* IMPORT = LIVE for the whole database: the handler follows chain c and neither w1 nor w2 is importing *)
Lemma minv2_ready_all : forall c st, minv2 p g U w1 w2 keysA c st ->
  (forall k, status_of st w1 <> Some (WImporting k)) -> (forall k, status_of st w2 <> Some (WImporting k)) ->
  Permutation (credits (x_w st)) (credits (L p (ownA keysA) c)) /\
  forall v, proj v (credits (x_w st)) = proj v (credits (L p (ownA keysA) c)) /\
            xreport st v = spec_report p (ownA keysA) c v.
Proof.
  intros c st [Hwf _ _ Hsy _ _ _ _ [top1 [top2 [Htop1 [Htop2 [_ [_ [Hc1 [Hc2 [Hco _]]]]]]]]]] Hn1 Hn2.
  assert (Ht1 : top1 = chain_height c). { destruct Htop1 as [Hs|[Ht _]]; [exfalso; apply (Hn1 top1); assumption|assumption]. }
  assert (Ht2 : top2 = chain_height c). { destruct Htop2 as [Hs|[Ht _]]; [exfalso; apply (Hn2 top2); assumption|assumption]. }
  pose proof (minv2_wallet_live c st w1 top1 (or_introl eq_refl) Ht1 Hc1) as L1.
  pose proof (minv2_wallet_live c st w2 top2 (or_intror eq_refl) Ht2 Hc2) as L2.
  pose proof (minv2_oth_live c st Hco) as L0.
  split.
  - eapply Permutation_trans; [apply (perm3 (isw w1) (isw w2) _ (disj12 w1 w2 w12))|].
    eapply Permutation_trans; [|apply Permutation_sym; apply (perm3 (isw w1) (isw w2) _ (disj12 w1 w2 w12))].
    fold (oth w1 w2). rewrite L1, L2, L0. apply Permutation_refl.
  - intros v.
    assert (Hp : proj v (credits (x_w st)) = proj v (credits (L p (ownA keysA) c))).
    { rewrite !proj_as_kept. destruct (N.eq_dec v w1) as [->|H1]; [exact L1|]. destruct (N.eq_dec v w2) as [->|H2]; [exact L2|].
      assert (Hsub : forall x, (x =? v)%N = true -> oth w1 w2 x = true).
      { intros x Hx. apply N.eqb_eq in Hx. subst x. unfold oth, neither, isw.
        apply N.eqb_neq in H1. apply N.eqb_neq in H2. rewrite H1, H2. reflexivity. }
      rewrite <- (kept_kept_sub _ (oth w1 w2) _ Hsub). rewrite L0. apply (kept_kept_sub _ (oth w1 w2) _ Hsub). }
    split; [assumption|]. unfold xreport. rewrite <- (report_L p (ownA keysA) c v Hwf).
    apply report_depends_on_proj; [assumption|]. rewrite Hsy. reflexivity.
Qed.

Lemma minv2_unready : forall c st v, v = w1 \/ v = w2 -> minv2 p g U w1 w2 keysA c st ->
  status_of st v <> Some WReady -> status_of st v <> None -> use_wallet st v = UUnready.
Proof.
  intros c st v Hv [_ _ _ _ _ _ _ _ [top1 [top2 [Htop1 [Htop2 _]]]]] Hs Hn.
  assert (Htop : exists top, top_is_m v keysA c st top) by (destruct Hv; subst v; eexists; eassumption).
  destruct Htop as [top [Hs'|[_ [Hs'|[Hs' _]]]]]; try contradiction.
  unfold use_wallet. rewrite Hs'. reflexivity.
Qed.

End TwoGives.

(* ---------------------------------------------------------------- histories with two rescans *)

Section TwoHistory.
Variable p : params.
Variable g : block.
Variable U : list block.
Hypothesis U_ids : forall b1 b2, In b1 U -> In b2 U -> b_id b1 = b_id b2 -> b1 = b2.
Variables w1 w2 : N.
Hypothesis w12 : w1 <> w2.
Variable B cap : Z.
Hypothesis B_pos : 0 < B.

(* the events of [ev_ok] (ImportProofs2), with rescan batches of EITHER wallet *)
Definition ev_ok2 (s : xsim) (e : xevent) : Prop :=
  match e with
  | XAttach b => In b U /\ wf_chain (xs_node s ++ [b])
  | XDetach => wf_chain (removelast (xs_node s))
  | XProcess b => In b U /\ b <> g
  | XBatch v => v = w1 \/ v = w2
  | _ => False
  end.

Fixpoint xwf2 (s : xsim) (h : list xevent) : Prop :=
  match h with
  | [] => True
  | e :: r => ev_ok2 s e /\ xwf2 (xstep repaired p B cap s e) r
  end.

Definition sinv2 (keysA : list (N * N)) (s : xsim) : Prop :=
  xs_crashed s = false /\ ninv g U (xs_node s) /\ exists c, minv2 p g U w1 w2 keysA c (xs_st s).

Lemma minv2_step : forall keysA s e c,
  xs_crashed s = false -> ninv g U (xs_node s) -> minv2 p g U w1 w2 keysA c (xs_st s) -> ev_ok2 s e ->
  let s' := xstep repaired p B cap s e in
  xs_crashed s' = false /\ ninv g U (xs_node s') /\ exists c', minv2 p g U w1 w2 keysA c' (xs_st s').
Proof.
  intros keysA s e c Hcr Hninv Hinv Hok. pose proof Hninv as [Hwfn [Hgn HnU]].
  destruct e as [b| |b|w0 ps|sh w0|w0 ps shs|v|w0 ps|w0|w0|]; cbn [ev_ok2] in Hok; try contradiction.
  - destruct Hok as [HbU Hwf']. cbn [xstep]. split; [assumption|]. cbn [xs_node xs_st]. split.
    + split; [assumption|split].
      * destruct Hgn as [n' Hn']. rewrite Hn'. exists (n' ++ [b]). reflexivity.
      * intros z Hz. apply in_app_or in Hz. destruct Hz as [Hz|[Hz|[]]]; [apply HnU; assumption|subst z; assumption].
    + exists c. assumption.
  - cbn [xstep]. split; [assumption|]. cbn [xs_node xs_st]. split.
    + split; [assumption|split].
      * apply from_g_removelast; [assumption|]. apply wf_nonempty. assumption.
      * intros z Hz. apply HnU. apply removelast_in. assumption.
    + exists c. assumption.
  - destruct Hok as [HbU Hbg]. cbn [xstep]. rewrite Hcr.
    destruct (xprocess repaired p (xs_node s) (xs_st s) b) as [st'| |] eqn:Hx.
    + destruct (mprocess2_inv p g U U_ids w1 w2 w12 keysA c _ _ b st' Hninv Hinv HbU Hbg Hx) as [c' [Hinv' _]].
      split; [assumption|]. cbn [with_st xs_node xs_st]. split; [assumption|]. exists c'. assumption.
    + split; [assumption|]. split; [assumption|]. exists c. assumption.
    + exfalso. apply (xprocess_repaired_no_panic p _ _ _ Hx).
  - cbn [xstep]. split; [assumption|]. cbn [with_st xs_node xs_st]. split; [assumption|].
    exists c. destruct Hok as [->| ->].
    + apply (mbatch2_inv p g U U_ids w1 w2 w12 keysA B c _ _ Hninv B_pos Hinv).
    + apply (mbatch2_inv_2 p g U U_ids w1 w2 w12 keysA B c _ _ Hninv B_pos Hinv).
Qed.

Lemma sinv2_run : forall keysA h s, sinv2 keysA s -> xwf2 s h ->
  sinv2 keysA (fold_left (xstep repaired p B cap) h s).
Proof.
  intros keysA. induction h as [|e r IH]; intros s Hs Hwf; [assumption|].
  cbn [fold_left]. destruct Hwf as [Hok Hr]. apply IH; [|assumption].
  destruct Hs as [Hcr [Hninv [c Hinv]]]. apply (minv2_step keysA s e c Hcr Hninv Hinv Hok).
Qed.

Lemma sinv2_in_step : forall keysA s, sinv2 keysA s -> in_step g s -> minv2 p g U w1 w2 keysA (xs_node s) (xs_st s).
Proof.
  intros keysA s [_ [Hninv [c Hinv]]] Hstep.
  rewrite <- (minv2_in_step p g U U_ids w1 w2 keysA c _ _ Hninv Hinv Hstep). assumption.
Qed.

Lemma sinv2_correct : forall keysA s, sinv2 keysA s -> in_step g s ->
  status_of (xs_st s) w1 = Some WReady -> status_of (xs_st s) w2 = Some WReady ->
  equals_live_all p (xs_st s) (xs_node s).
Proof.
  intros keysA s Hs Hstep Hr1 Hr2. pose proof (sinv2_in_step keysA s Hs Hstep) as Hinv.
  destruct Hs as [_ [[Hwfn _] _]].
  assert (Hko : key_owner (xs_st s) = ownA keysA). { unfold key_owner, ownA. rewrite (m2_keys _ _ _ _ _ _ _ _ Hinv). reflexivity. }
  unfold equals_live_all. rewrite Hko. exists (L p (ownA keysA) (xs_node s)).
  destruct (minv2_ready_all p g U w1 w2 w12 keysA _ _ Hinv) as [Hperm Hall]; [congruence|congruence|].
  split; [apply ledger_of_chain_L; assumption|]. split; [rewrite (m2_synced _ _ _ _ _ _ _ _ Hinv); reflexivity|].
  split; assumption.
Qed.

End TwoHistory.

(* ---------------------------------------------------------------- packaged *)

Lemma import_start_unknown : forall st w pass shs st1, import_start st w pass shs = Some st1 ->
  status_of st w = None /\ forall sh, ownW w (x_keys st) sh = None.
Proof.
  intros st w pass shs st1 H. unfold import_start in H. destruct (wallet_known st w) eqn:Hk; [discriminate|].
  unfold wallet_known in Hk. apply orb_false_iff in Hk. destruct Hk as [Hk Hk3]. apply orb_false_iff in Hk. destruct Hk as [Hk1 _].
  split.
  - destruct (status_of st w); [discriminate|reflexivity].
  - intros sh. unfold ownW, kown. destruct (lookupN (x_keys st) sh) as [v|] eqn:Hl; [|reflexivity].
    destruct (v =? w)%N eqn:E; [|reflexivity]. exfalso. apply lookupN_in in Hl.
    assert (Hex : existsb (fun e => (snd e =? w)%N) (x_keys st) = true).
    { apply existsb_exists. exists (sh, v). split; assumption. }
    congruence.
Qed.

Section Packaged2.
Variable p : params.
Variable g : block.
Variable U : list block.
Hypothesis U_ids : forall b1 b2, In b1 U -> In b2 U -> b_id b1 = b_id b2 -> b1 = b2.
Variables w1 w2 : N.
Hypothesis w12 : w1 <> w2.
Variable keys0 : list (N * N).
Variable B cap : Z.
Hypothesis B_pos : 0 < B.
Variables (pass1 sh1 : N) (shs1 : list N) (pass2 sh2 : N) (shs2 : list N).
Variables (c0 n0 : list block) (all0 : list tx) (st0 st1 : xstate).
Hypothesis node0 : ninv g U n0.
Hypothesis start0 : minv p g U w1 keys0 c0 st0.
Hypothesis absent0 : status_of st0 w1 = None.
Hypothesis nokeys0 : forall s, ownW w1 keys0 s = None.
Hypothesis disjoint1 : forall s, In s (sh1 :: shs1) -> lookupN keys0 s = None.
Hypothesis import1 : import_start st0 w1 pass1 (sh1 :: shs1) = Some st1.

Let keys1 := keys0 ++ keys_of w1 (sh1 :: shs1).
Let keysB := keys1 ++ keys_of w2 (sh2 :: shs2).
Let s0 := {| xs_node := n0; xs_st := st1; xs_all := all0; xs_crashed := false |}.

(* T: w1 is restored into a database of ready wallets; ANY history h1 of chain events and batches of w1; while w1
   may still be importing, w2 is restored; then ANY history h2 of chain events and batches of w1 and w2 in any
   interleaving.  At every point the invariant holds (each importing wallet: exactly its credits up to its own
   cursor; everybody else: the whole chain of the handler); in step and both handed over, the WHOLE database is
   the live run of all wallets; until handed over neither can be selected; no task is dropped. *)
Theorem two_imports_equal_live : forall h1, xwf p g U w1 B cap s0 h1 ->
  let s1 := fold_left (xstep repaired p B cap) h1 s0 in
  forall st2, import_start (xs_st s1) w2 pass2 (sh2 :: shs2) = Some st2 ->
  (forall s, In s (sh2 :: shs2) -> lookupN keys1 s = None) ->
  let s1' := {| xs_node := xs_node s1; xs_st := st2; xs_all := xs_all s1; xs_crashed := false |} in
  forall h2, xwf2 p g U w1 w2 B cap s1' h2 ->
  let s := fold_left (xstep repaired p B cap) h2 s1' in
  sinv2 p g U w1 w2 keysB s /\
  (in_step g s -> status_of (xs_st s) w1 = Some WReady -> status_of (xs_st s) w2 = Some WReady ->
     equals_live_all p (xs_st s) (xs_node s)) /\
  (forall v, v = w1 \/ v = w2 -> status_of (xs_st s) v <> Some WReady -> use_wallet (xs_st s) v = UUnready) /\
  x_dead (xs_st s) = [] /\ xs_crashed s = false.
Proof.
  intros h1 Hwf1 s1 st2 Himp2 Hdisj2 s1' h2 Hwf2 s.
  pose proof (sinv_m_run p g U U_ids w1 B cap B_pos keys1 h1 s0
                (start_sinv_m p g U w1 keys0 pass1 sh1 shs1 c0 n0 all0 st0 st1 node0 start0 absent0 nokeys0 import1) Hwf1) as Hs1.
  fold s1 in Hs1. destruct Hs1 as [Hcr1 [Hninv1 [c1 Hinv1]]].
  pose proof (mi_keys _ _ _ _ _ _ _ Hinv1) as Hk1.
  destruct (import_start_unknown _ _ _ _ _ Himp2) as [Habs2 Hnk2]. rewrite Hk1 in Hnk2.
  pose proof (minv_minv2 p g U w1 w2 keys1 c1 _ w12 Hinv1 Habs2 Hnk2) as Hinv2.
  pose proof (minv2_import_start p g U w1 w2 keys1 c1 _ pass2 sh2 shs2 st2 w12 Hinv2 Habs2 Hnk2 Himp2) as Hinv2'.
  assert (Hs1' : sinv2 p g U w1 w2 keysB s1').
  { split; [reflexivity|]. split; [exact Hninv1|]. exists c1. exact Hinv2'. }
  pose proof (sinv2_run p g U U_ids w1 w2 w12 B cap B_pos keysB h2 s1' Hs1' Hwf2) as Hs. fold s in Hs.
  split; [assumption|]. split; [|split; [|split]].
  - intros Hstep Hr1 Hr2. apply (sinv2_correct p g U U_ids w1 w2 w12 keysB s Hs Hstep Hr1 Hr2).
  - intros v Hv Hnr. destruct Hs as [_ [_ [c Hinv]]]. apply (minv2_unready p g U w1 w2 keysB c _ v Hv Hinv Hnr).
    intros Hnone. destruct Hinv as [_ _ _ _ _ _ _ _ [top1 [top2 [Htop1 [Htop2 _]]]]].
    destruct Hv as [->| ->].
    + destruct Htop1 as [Hs'|[_ [Hs'|[_ Hk]]]]; try congruence.
      specialize (Hk sh1). unfold keysB in Hk. rewrite (ownW_keys_app_other w2 w1 keys1 (sh2 :: shs2) w12) in Hk.
      unfold keys1 in Hk. rewrite (ownW_head w1 keys0 sh1 shs1 disjoint1) in Hk. discriminate.
    + destruct Htop2 as [Hs'|[_ [Hs'|[_ Hk]]]]; try congruence.
      specialize (Hk sh2). unfold keysB in Hk. rewrite (ownW_head w2 keys1 sh2 shs2 Hdisj2) in Hk. discriminate.
  - destruct Hs as [_ [_ [c Hinv]]]. apply (m2_dead _ _ _ _ _ _ _ _ Hinv).
  - destruct Hs as [Hc _]. assumption.
Qed.

End Packaged2.

(* ---------------------------------------------------------------- boolean checker for closed examples *)

Definition ev_ok2_b (g : block) (U : list block) (w1 w2 : N) (s : xsim) (e : xevent) : bool :=
  match e with
  | XAttach b => in_b b U && wf_chain_b (xs_node s ++ [b])
  | XDetach => wf_chain_b (removelast (xs_node s))
  | XProcess b => in_b b U && negb (b_id b =? b_id g)%N
  | XBatch v => (v =? w1)%N || (v =? w2)%N
  | _ => false
  end.

Fixpoint xwf2_b (p : params) (g : block) (U : list block) (w1 w2 : N) (B cap : Z) (s : xsim) (h : list xevent) : bool :=
  match h with
  | [] => true
  | e :: r => ev_ok2_b g U w1 w2 s e && xwf2_b p g U w1 w2 B cap (xstep repaired p B cap s e) r
  end.

Lemma xwf2_b_sound : forall p g U w1 w2 B cap h s, xwf2_b p g U w1 w2 B cap s h = true -> xwf2 p g U w1 w2 B cap s h.
Proof.
  intros p g U w1 w2 B cap. induction h as [|e r IH]; intros s H; [exact I|].
  cbn [xwf2_b] in H. apply andb_true_iff in H. destruct H as [He Hr]. split; [|apply IH; assumption].
  destruct e as [b| |b|w0 ps|sh w0|w0 ps shs|v|w0 ps|w0|w0|]; cbn [ev_ok2_b ev_ok2] in *; try discriminate.
  - apply andb_true_iff in He. destruct He as [Hu Hw].
    split; [apply in_b_sound; assumption|apply wf_chain_b_sound; assumption].
  - apply wf_chain_b_sound. assumption.
  - apply andb_true_iff in He. destruct He as [Hu Hn]. split; [apply in_b_sound; assumption|].
    intros Heq. subst b. rewrite N.eqb_refl in Hn. discriminate.
  - apply orb_true_iff in He. destruct He as [He|He]; [left|right]; apply N.eqb_eq; assumption.
Qed.

Print Assumptions two_imports_equal_live.

(* ================================================================ glue: the start state of ImportProofs4 has duplicate-free block records *)
Require Import MW.Ledger.ImportProofs4 MW.Ledger.ImportProofs5.

Lemma gwf_brs_nodup : forall p g U, (forall b1 b2, In b1 U -> In b2 U -> b_id b1 = b_id b2 -> b1 = b2) ->
  forall B cap h A s, gsinv p g U A s -> gwf p g U B cap A s h -> brs_nodup (x_brecs (xs_st s)) ->
  brs_nodup (x_brecs (xs_st (fold_left (xstep repaired p B cap) h s))).
Proof.
  intros p g U Uids B cap. induction h as [|e r IH]; intros A s Hs Hwf Hnd; [assumption|].
  cbn [fold_left]. destruct Hwf as [Hok Hr].
  apply (IH (grow A e)); [apply gsinv_step; assumption|assumption|].
  destruct Hs as [Hcr [Hninv _]].
  destruct e as [b| |b|w0 ps|sh w0|w0 ps shs|v|w0 ps|w0|w0|]; cbn [gev_ok] in Hok; try contradiction; cbn [xstep].
  - assumption.
  - assumption.
  - rewrite Hcr. destruct Hok as [HbU _].
    destruct (xprocess repaired p (xs_node s) (xs_st s) b) as [st'| |] eqn:Hx; try assumption.
    cbn [with_st xs_st]. apply (xprocess_nodup g U Uids repaired p _ _ b st' Hninv HbU Hx Hnd).
  - unfold new_wallet, import_start. destruct (wallet_known (xs_st s) w0); [assumption|]. cbn [with_st xs_st x_brecs]. assumption.
  - cbn [with_st xs_st new_address x_brecs]. assumption.
  - cbn [with_st xs_st]. apply import_batch_nodup. assumption.
Qed.

Lemma reach_brs_nodup : forall p g U, (forall b1 b2, In b1 U -> In b2 U -> b_id b1 = b_id b2 -> b1 = b2) ->
  forall B cap n0 h, ninv g U n0 -> gwf p g U B cap n0 (xinit_sim n0) h ->
  brs_nodup (x_brecs (xs_st (xrun repaired p B cap n0 h))).
Proof.
  intros p g U Uids B cap n0 h Hn Hwf. unfold xrun.
  apply (gwf_brs_nodup p g U Uids B cap h n0 (xinit_sim n0) (gsinv_init p g U n0 Hn) Hwf).
  cbn. split; [constructor|intros br []].
Qed.
