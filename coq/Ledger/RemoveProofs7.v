(* Ledger/RemoveProofs7.v — C08, part 7: a removed wallet stays removed.  [Clean w shs st]: no record of
   the store is keyed by wallet w or by one of the script hashes [shs] (= [mentions st w shs] is false).
   Every step of the event system keeps it, provided the wallet is not created again and its script
   hashes are not issued again: block processing creates credits only for script hashes of the
   keystore table, Rollback re-creates pending rows only for wallets that have a status, the other
   wallets' removals only delete. *)
From Coq Require Import List ZArith NArith Bool Lia.
Import ListNotations.
Open Scope Z_scope.
Require Import MW.Ledger.Model MW.Ledger.Spec MW.Ledger.Run MW.Ledger.WF MW.Ledger.Import MW.Ledger.Remove.
Require Import MW.Ledger.Proofs MW.Ledger.Proofs2 MW.Ledger.Proofs3 MW.Ledger.Proofs4 MW.Ledger.Proofs6.
Require Import MW.Ledger.RemoveProofs MW.Ledger.RemoveProofs2 MW.Ledger.RemoveProofs3 MW.Ledger.RemoveProofs4
               MW.Ledger.RemoveProofs5 MW.Ledger.RemoveProofs6.

(* ---------------------------------------------------------------- generic: what AddRelevantTx does to credits *)

Section CreditsForall.
Variable P : credit -> Prop.
Hypothesis P_spent : forall c s, P c -> P (set_spent c s).

Lemma spend_credit_forall : forall cs w op by_ cs',
  (forall c, In c cs -> P c) -> spend_credit cs w op by_ = Some cs' -> forall c, In c cs' -> P c.
Proof.
  induction cs as [|c0 r IH]; intros w op by_ cs' H Hs c Hc; [discriminate|].
  cbn [spend_credit] in Hs. destruct (op_eqb (credit_op c0) op && (c_wallet c0 =? w)%N && is_unspent c0).
  - inversion Hs. subst cs'. destruct Hc as [Hc|Hc]; [subst c; apply P_spent; apply H; left; reflexivity|apply H; right; assumption].
  - destruct (spend_credit r w op by_) as [r'|] eqn:Hr; [|discriminate]. inversion Hs. subst cs'.
    destruct Hc as [Hc|Hc]; [subst c; apply H; left; reflexivity|].
    apply (IH w op by_ r'); [intros c' Hc'; apply H; right; assumption|assumption|assumption].
Qed.

Lemma apply_ins_forall : forall t h ris cs cs',
  (forall c, In c cs -> P c) -> apply_ins cs t h ris = Ok cs' -> forall c, In c cs' -> P c.
Proof.
  intros t h ris. induction ris as [|ri r IH]; intros cs cs' H Ha c Hc.
  - inversion Ha. subst cs'. apply H. assumption.
  - cbn [apply_ins] in Ha. destruct (spend_credit cs (ri_wallet ri) (ri_prev ri) (t_id t, ri_index ri, h)) as [cs1|] eqn:Hs; [|discriminate].
    apply (IH cs1 cs'); [|assumption|assumption]. apply (spend_credit_forall _ _ _ _ _ H Hs).
Qed.

Lemma apply_outs_forall : forall p t h bid outs cs cs',
  (forall c, In c cs -> P c) ->
  (forall ro c, In ro outs -> c_sh c = o_sh (ro_out ro) -> c_wallet c = ro_wallet ro -> P c) ->
  apply_outs p cs t h bid outs = Ok cs' -> forall c, In c cs' -> P c.
Proof.
  intros p t h bid outs. induction outs as [|ro r IH]; intros cs cs' H Hnew Ha c Hc.
  - inversion Ha. subst cs'. apply H. assumption.
  - cbn [apply_outs] in Ha. destruct (exists_credit_at cs (t_id t, ro_index ro) h bid); [discriminate|].
    eapply (IH _ cs'); [| |exact Ha|assumption].
    + intros c' Hc'. apply in_app_or in Hc'. destruct Hc' as [Hc'|[Hc'|[]]]; [apply H; assumption|].
      subst c'. apply (Hnew ro); [left; reflexivity|reflexivity|reflexivity].
    + intros ro' c' Hro'. apply Hnew. right. assumption.
Qed.

Lemma apply_recs_forall : forall p h bid recs cs cs',
  (forall c, In c cs -> P c) ->
  (forall r ro c, In r recs -> In ro (rr_outs r) -> c_sh c = o_sh (ro_out ro) -> c_wallet c = ro_wallet ro -> P c) ->
  apply_recs p cs h bid recs = Ok cs' -> forall c, In c cs' -> P c.
Proof.
  intros p h bid recs. induction recs as [|r rest IH]; intros cs cs' H Hnew Ha c Hc.
  - inversion Ha. subst cs'. apply H. assumption.
  - cbn [apply_recs] in Ha. destruct (apply_ins cs (rr_tx r) h (rr_ins r)) as [cs1|] eqn:Hi; [|discriminate].
    destruct (apply_outs p cs1 (rr_tx r) h bid (rr_outs r)) as [cs2|] eqn:Ho; [|discriminate].
    apply (IH cs2 cs'); [| |exact Ha|assumption].
    + apply (apply_outs_forall p (rr_tx r) h bid (rr_outs r) cs1 cs2 (apply_ins_forall _ _ _ _ _ H Hi)); [|exact Ho].
      intros ro c' Hro. apply (Hnew r ro c'); [left; reflexivity|assumption].
    + intros r' ro c' Hr'. apply Hnew. right. assumption.
Qed.

End CreditsForall.

Lemma filter_block_txs_outs : forall own view lookup txs seen recs,
  filter_block_txs own view lookup seen txs = Ok recs ->
  forall r ro, In r recs -> In ro (rr_outs r) -> own (o_sh (ro_out ro)) = Some (ro_wallet ro).
Proof.
  intros own view lookup txs. induction txs as [|t rest IH]; intros seen recs H r ro Hr Hro.
  - inversion H. subst recs. destruct Hr.
  - cbn [filter_block_txs] in H.
    destruct (filter_tx own view (seen ++ [t]) lookup t) as [rt|] eqn:Ht; [|discriminate].
    destruct (filter_block_txs own view lookup (seen ++ [t]) rest) as [l|] eqn:Hl; [|discriminate].
    inversion H. subst recs. clear H.
    assert (Hrest : In r l -> own (o_sh (ro_out ro)) = Some (ro_wallet ro)).
    { intros Hin. apply (IH _ _ Hl r ro Hin Hro). }
    destruct rt as [rr|]; [|apply Hrest; assumption].
    destruct Hr as [Hr|Hr]; [|apply Hrest; assumption].
    subst rr. unfold filter_tx in Ht.
    destruct (if t_cb t then Ok [] else filter_ins own view (seen ++ [t]) lookup (t_ins t) 0%N) as [ins|]; [|discriminate].
    assert (Hr : rr_outs r = filter_outs own (t_outs t) 0%N).
    { destruct ins; destruct (filter_outs own (t_outs t) 0%N); inversion Ht; reflexivity. }
    rewrite Hr in Hro. apply filter_outs_in in Hro. destruct Hro as [j [_ [_ Ho]]]. apply out_owner_some in Ho. tauto.
Qed.

(* ---------------------------------------------------------------- Clean *)

Record Clean (w : N) (shs : list N) (st : xstate) : Prop := {
  cl_credits : forall c, In c (credits (x_w st)) -> (c_wallet c =? w)%N || memN (c_sh c) shs = false;
  cl_balrow : memN w (x_balrow st) = false;
  cl_ugame : forall e, In e (x_ugame st) -> (fst (fst e) =? w)%N = false;
  cl_status : status_of st w = None;
  cl_pass : lookupN (x_pass st) w = None;
  cl_keys : forall e, In e (x_keys st) -> (snd e =? w)%N || memN (fst e) shs = false
}.

Lemma existsb_false_iff : forall (A : Type) (f : A -> bool) l, existsb f l = false <-> forall x, In x l -> f x = false.
Proof.
  intros A f l. split.
  - intros H x Hx. destruct (f x) eqn:E; [|reflexivity]. assert (existsb f l = true) by (apply existsb_exists; exists x; tauto). congruence.
  - apply existsb_false_forall.
Qed.

Lemma is_some_false : forall (A : Type) (o : option A), is_some o = false <-> o = None.
Proof. intros A [a|]; cbn; split; congruence. Qed.

Lemma mentions_clean : forall st w shs, mentions st w shs = false <-> Clean w shs st.
Proof.
  intros st w shs. unfold mentions. rewrite !orb_false_iff, !existsb_false_iff, !is_some_false. split.
  - intros [[[[[H1 H2] H3] H4] H5] H6]. constructor; assumption.
  - intros [H1 H2 H3 H4 H5 H6]. tauto.
Qed.

Section CleanSteps.
Variable w : N.
Variable shs : list N.

Definition okc (c : credit) : Prop := (c_wallet c =? w)%N || memN (c_sh c) shs = false.

Lemma clean_owner : forall st sh v, Clean w shs st -> ready_own st sh = Some v -> (v =? w)%N || memN sh shs = false.
Proof.
  intros st sh v HC H. apply ready_own_some in H. destruct H as [H _]. apply lookupN_in in H.
  apply (cl_keys _ _ _ HC (sh, v) H).
Qed.

Lemma xconnect_block_clean : forall p n st b st', Clean w shs st -> xconnect_block p n st b = XOk st' -> Clean w shs st'.
Proof.
  intros p n st b st' HC H. unfold xconnect_block in H.
  destruct (node_at n (b_height b)) as [nb|]; [|discriminate].
  destruct (negb (b_id nb =? b_id b)%N); [discriminate|].
  destruct (filter_block_txs (ready_own st) (credits (x_w st)) (node_tx n) [] (b_txs b)) as [recs|] eqn:Hf; [|discriminate].
  destruct (connect_block p true (ready_own st) (credits (x_w st)) (node_tx n) (x_w st) b) as [w'|] eqn:Hc; [|discriminate].
  inversion H. subst st'. clear H.
  unfold connect_block in Hc. rewrite Hf in Hc.
  destruct (apply_recs p (credits (x_w st)) (b_height b) (b_id b) recs) as [cs'|] eqn:Ha; [|discriminate].
  inversion Hc. subst w'. clear Hc.
  destruct HC as [H1 H2 H3 H4 H5 H6]. constructor; cbn [with_brecs with_w x_w credits x_balrow x_ugame x_pass x_keys]; try assumption.
  intros c Hc. apply (apply_recs_forall okc (fun c s H => H) p (b_height b) (b_id b) recs (credits (x_w st)) cs' H1); [|exact Ha|assumption].
  intros r ro c' Hr Hro Hsh Hw. unfold okc. rewrite Hsh, Hw.
  apply (clean_owner st _ _ (Build_Clean _ _ _ H1 H2 H3 H4 H5 H6)). apply (filter_block_txs_outs _ _ _ _ _ _ Hf r ro Hr Hro).
Qed.

Lemma xconnect_all_clean : forall p n bs st st', Clean w shs st -> xconnect_all p n st bs = XOk st' -> Clean w shs st'.
Proof.
  intros p n bs. induction bs as [|b r IH]; intros st st' HC H.
  - inversion H. subst. assumption.
  - cbn [xconnect_all] in H. destruct (xconnect_block p n st b) as [st1| |] eqn:Hb; try discriminate.
    apply (IH st1 st'); [apply (xconnect_block_clean p n st b st1 HC Hb)|assumption].
Qed.

Lemma status_of_map_pull : forall (l : list (N * wst)) h v,
  lookupN (map (fun e => (fst e, pull_back h (snd e))) l) v = None <-> lookupN l v = None.
Proof.
  intros l h v. induction l as [|[k s] r IH]; [tauto|].
  cbn [map fst snd lookupN]. destruct (k =? v)%N; [split; discriminate|exact IH].
Qed.

Lemma xrollback_clean : forall fx st h st', Clean w shs st -> xrollback fx st h = XOk st' -> Clean w shs st'.
Proof.
  intros fx st h st' [H1 H2 H3 H4 H5 H6] H. unfold xrollback in H.
  destruct (negb (f_rollback fx) && existsb _ (credits (x_w st))); [discriminate|].
  destruct (negb (f_rollback_order fx) && existsb _ (credits (x_w st))); [discriminate|].
  inversion H. subst st'. clear H.
  constructor; cbn [x_w credits x_balrow x_ugame x_pass x_keys]; try assumption.
  - intros c Hc. apply in_map_iff in Hc. destruct Hc as [c0 [Heq Hin]]. apply filter_In in Hin. destruct Hin as [Hin _].
    destruct (rb_unspend (x_brecs st) h c0); subst c; apply (H1 c0 Hin).
  - intros e He. apply in_app_or in He. destruct He as [He|He]; [apply H3; assumption|].
    apply in_flat_map in He. destruct He as [c [Hc He]].
    destruct (rb_delete (x_brecs st) h c && is_game c); [|destruct He].
    destruct (key_owner st (c_sh c)) as [v|]; [|destruct He].
    destruct (status_of st v) as [[|k|]|] eqn:Hsv; try (destruct He; fail).
    destruct (f_rollback fx && negb (memN v (x_balrow st))); [destruct He|].
    destruct He as [He|[]]. subst e. cbn [fst]. apply N.eqb_neq. intros Hv. subst v. congruence.
  - unfold status_of. cbn [x_status]. apply status_of_map_pull. exact H4.
Qed.

Lemma xprocess_clean : forall fx p n st b st', Clean w shs st -> xprocess fx p n st b = XOk st' -> Clean w shs st'.
Proof.
  intros fx p n st b st' HC H. unfold xprocess in H.
  destruct (snd (tip (x_w st)) =? b_prev b)%N; [apply (xconnect_all_clean p n [b] st st' HC H)|].
  destruct (collect n (x_w st) (Datatypes.S (Z.to_nat (b_height b))) b []) as [[fk bs]|]; [|discriminate].
  destruct (xrollback fx st (fk + 1)) as [st1| |] eqn:Hr; try discriminate.
  apply (xconnect_all_clean p n bs st1 st'); [apply (xrollback_clean fx st (fk + 1) st1 HC Hr)|assumption].
Qed.

Lemma catchup_clean : forall fx p n fuel st st', Clean w shs st -> catchup fx p n st fuel = XOk st' -> Clean w shs st'.
Proof.
  intros fx p n fuel. induction fuel as [|k IH]; intros st st' HC H.
  - inversion H. subst. assumption.
  - cbn [catchup] in H. destruct (node_at n (fst (tip (x_w st)) + 1)) as [b|]; [|inversion H; subst; assumption].
    destruct (xprocess fx p n st b) as [st1| |] eqn:Hp; try discriminate.
    apply (IH st1 st'); [apply (xprocess_clean fx p n st b st1 HC Hp)|assumption].
Qed.

Lemma start_sync_clean : forall fx p n st st', Clean w shs st -> start_sync fx p n st = XOk st' -> Clean w shs st'.
Proof.
  intros fx p n st st' HC H. unfold start_sync in H.
  destruct (catchup fx p n st (length n)) as [st1| |] eqn:Hc; try discriminate.
  pose proof (catchup_clean fx p n _ st st1 HC Hc) as HC1.
  destruct (f_start_reorg fx && (Z.of_nat (length n) - 1 <=? fst (tip (x_w st)))); [|inversion H; subst; assumption].
  destruct (node_at n (Z.of_nat (length n) - 1)) as [b|]; [|inversion H; subst; assumption].
  destruct (b_id b =? snd (tip (x_w st1)))%N; [inversion H; subst; assumption|].
  apply (xprocess_clean fx p n st1 b st' HC1 H).
Qed.

(* the events that would bring the wallet or its script hashes back *)
Definition not_recreating (e : xevent) : Prop :=
  match e with
  | XNewWallet w' _ => w' <> w
  | XNewAddr sh w' => w' <> w /\ ~ In sh shs
  | XImportStart w' _ l => w' <> w /\ forall sh, In sh l -> ~ In sh shs
  | XBatch _ => False          (* rescans are the subject of C07 *)
  | _ => True
  end.

Lemma import_start_clean : forall st w' pass l st', Clean w shs st -> w' <> w -> (forall sh, In sh l -> ~ In sh shs) ->
  import_start st w' pass l = Some st' -> Clean w shs st'.
Proof.
  intros st w' pass l st' [H1 H2 H3 H4 H5 H6] Hne Hl H. unfold import_start in H.
  destruct (wallet_known st w'); [discriminate|]. inversion H. subst st'. clear H.
  constructor; cbn [x_w x_balrow x_ugame x_pass x_keys]; try assumption.
  - rewrite memN_app, H2. cbn. rewrite orb_false_r. apply N.eqb_neq. congruence.
  - unfold status_of. cbn [x_status]. rewrite lookupN_app_other by congruence. exact H4.
  - rewrite lookupN_app_other by congruence. exact H5.
  - intros e He. apply in_app_or in He. destruct He as [He|He]; [apply H6; assumption|].
    apply in_map_iff in He. destruct He as [sh [Heq Hsh]]. subst e. cbn [fst snd].
    apply orb_false_iff. split; [apply N.eqb_neq; assumption|apply memN_false; apply Hl; assumption].
Qed.

Lemma remove_round_status : forall fx cap n lookup st v st',
  remove_round fx cap n lookup st v = (st', false) -> x_status st' = x_status st.
Proof.
  intros fx cap n lookup st v st' H. unfold remove_round in H.
  destruct (status_of st v) as [[|k|]|]; try (inversion H; reflexivity).
  destruct (memN v (x_p1 st)); [|inversion H; reflexivity].
  destruct (match sh_of_wallet st v with [] => _ | _ => _ end) as [[kp hot] fin].
  destruct fin; inversion H. reflexivity.
Qed.

Lemma remove_round_clean : forall fx cap n lookup st v, Clean w shs st ->
  Clean w shs (fst (remove_round fx cap n lookup st v)).
Proof.
  intros fx cap n lookup st v HC. unfold remove_round.
  destruct (status_of st v) as [[|k|]|] eqn:Hs; try assumption.
  destruct (memN v (x_p1 st)); [|assumption].
  destruct (match sh_of_wallet st v with [] => (credits (x_w st), [], true) | _ => rm_credits (sh_of_wallet st v) cap (credits (x_w st)) 0 [] end)
    as [[kp hot] fin] eqn:Hrm.
  assert (Hincl : incl kp (credits (x_w st))).
  { destruct (sh_of_wallet st v) as [|s0 sr]; [inversion Hrm; apply incl_refl|]. apply (rm_credits_incl _ _ _ _ _ _ _ _ Hrm). }
  destruct HC as [H1 H2 H3 H4 H5 H6].
  destruct fin; cbn [fst]; constructor; cbn [x_w credits x_balrow x_ugame x_pass x_keys]; try assumption;
    try (intros c Hc; apply H1; apply Hincl; assumption).
  - unfold status_of. cbn [x_status]. destruct (N.eq_dec v w) as [->|Hne]; [apply lookupN_delN|].
    rewrite lookupN_delN_other by congruence. exact H4.
  - destruct (N.eq_dec v w) as [->|Hne]; [apply lookupN_delN|]. rewrite lookupN_delN_other by congruence. exact H5.
  - intros e He. apply filter_In in He. apply H6. tauto.
Qed.

Lemma xstep_clean : forall fx p B cap s e,
  Clean w shs (xs_st s) -> not_recreating e -> Clean w shs (xs_st (xstep fx p B cap s e)).
Proof.
  intros fx p B cap s e HC He.
  destruct e as [b| |b|w' pass|sh w'|w' pass l|w'|w' pass|w'|w'|]; cbn [xstep not_recreating] in *.
  - exact HC.
  - exact HC.
  - destruct (xs_crashed s); [exact HC|].
    destruct (xprocess fx p (xs_node s) (xs_st s) b) as [st'| |] eqn:Hp; try exact HC.
    cbn [with_st xs_st]. apply (xprocess_clean fx p _ _ b st' HC Hp).
  - destruct (new_wallet (xs_st s) w' pass) as [st'|] eqn:Hn; [|exact HC]. cbn [with_st xs_st].
    apply (import_start_clean (xs_st s) w' pass [] st' HC He); [intros sh []|exact Hn].
  - cbn [with_st xs_st]. destruct HC as [H1 H2 H3 H4 H5 H6]. constructor; cbn [new_address x_w x_balrow x_ugame x_pass x_keys]; try assumption.
    intros e Hin. apply in_app_or in Hin. destruct Hin as [Hin|[Hin|[]]]; [apply H6; assumption|]. subst e. cbn [fst snd].
    destruct He as [Hw Hsh]. apply orb_false_iff. split; [apply N.eqb_neq; assumption|apply memN_false; assumption].
  - destruct (import_start (xs_st s) w' pass l) as [st'|] eqn:Hn; [|exact HC]. cbn [with_st xs_st].
    destruct He as [Hw Hl]. apply (import_start_clean (xs_st s) w' pass l st' HC Hw Hl Hn).
  - contradiction.
  - cbn [with_st xs_st]. unfold remove_request.
    destruct (lookupN (x_pass (xs_st s)) w') as [pw|] eqn:Hp; [|exact HC].
    destruct (negb (pw =? pass)%N); [exact HC|].
    destruct (status_of (xs_st s) w') as [st0|] eqn:Hs; [|exact HC].
    assert (Hne : w' <> w). { intros ->. rewrite (cl_pass _ _ _ HC) in Hp. discriminate. }
    assert (Hgoal : Clean w shs (with_status (xs_st s) (setN (x_status (xs_st s)) w' WRemoving))).
    { destruct HC as [H1 H2 H3 H4 H5 H6]. constructor; cbn [with_status x_w x_balrow x_ugame x_pass x_keys]; try assumption.
      unfold status_of, with_status. cbn [x_status]. rewrite lookupN_setN_other by congruence. exact H4. }
    destruct st0; cbn [fst]; [exact Hgoal|exact HC|exact Hgoal].
  - cbn [with_st xs_st]. unfold remove_phase1.
    destruct (status_of (xs_st s) w') as [[|k|]|]; try exact HC.
    destruct (is_some (lookupN (x_pass (xs_st s)) w')); [|exact HC].
    destruct HC as [H1 H2 H3 H4 H5 H6]. constructor; cbn [x_w x_balrow x_ugame x_pass x_keys]; try assumption.
    + apply memN_remN_other. assumption.
    + intros e Hin. apply filter_In in Hin. apply H3. tauto.
  - cbn [with_st xs_st]. apply remove_round_clean. exact HC.
  - set (st0 := {| x_w := x_w (xs_st s); x_keys := x_keys (xs_st s); x_pass := x_pass (xs_st s);
                   x_status := x_status (xs_st s); x_brecs := x_brecs (xs_st s); x_balrow := x_balrow (xs_st s);
                   x_ugame := x_ugame (xs_st s); x_dead := []; x_p1 := [] |}).
    assert (HC0 : Clean w shs st0). { destruct HC as [H1 H2 H3 H4 H5 H6]. constructor; assumption. }
    destruct (start_sync fx p (xs_node s) st0) as [st'| |] eqn:Hss; cbn [xs_st]; try exact HC0.
    apply (start_sync_clean fx p _ st0 st' HC0 Hss).
Qed.

End CleanSteps.

(* ---------------------------------------------------------------- the theorem *)

Lemma fold_clean : forall fx p B cap w shs h s,
  Clean w shs (xs_st s) -> (forall e, In e h -> not_recreating w shs e) ->
  Clean w shs (xs_st (fold_left (xstep fx p B cap) h s)).
Proof.
  intros fx p B cap w shs h. induction h as [|e h IH]; intros s HC Hh; [exact HC|].
  cbn [fold_left]. apply IH.
  - apply xstep_clean; [exact HC|apply Hh; left; reflexivity].
  - intros e' He'. apply Hh. right. assumption.
Qed.

Lemma remove_round_fin : forall fx cap n lookup st w st',
  remove_round fx cap n lookup st w = (st', true) -> memN w (x_p1 st) = true.
Proof.
  intros fx cap n lookup st w st' H. unfold remove_round in H.
  destruct (status_of st w) as [[|k|]|]; try (inversion H; fail).
  destruct (memN w (x_p1 st)); [reflexivity|inversion H].
Qed.

(* once the round that finishes the removal of w has run, nothing in the store mentions w or one of
   its script hashes — at that moment and after ANY further events (blocks, reorganisations of any
   depth, other wallets' creations and removals, restarts) that do not create wallet w again or issue
   one of its script hashes again; [h2] need not even be well formed *)
Theorem removed_stays_removed : forall fx p B cap g h1 w h2,
  f_removable fx = true -> f_rollback fx = true -> f_rollback_order fx = true ->
  wf_xhistory fx p B cap g (h1 ++ [XRound w]) ->
  let s1 := xrun fx p B cap [g] h1 in
  let shs := sh_of_wallet (xs_st s1) w in
  listed (xs_st s1) w = true ->
  listed (xs_st (xrun fx p B cap [g] (h1 ++ [XRound w]))) w = false ->
  (forall e, In e h2 -> not_recreating w shs e) ->
  let s := xrun fx p B cap [g] (h1 ++ XRound w :: h2) in
  mentions (xs_st s) w shs = false /\ listed (xs_st s) w = false.
Proof.
  intros fx p B cap g h1 w h2 H1 H2 H3 Hwf s1 shs Hl1 Hl2 Hh2 s.
  destruct (wf_xhistory_inv fx p B cap g h1 [XRound w] H1 H2 H3 Hwf) as [A [D [S [HI _]]]]. fold s1 in HI.
  destruct (xi_good _ _ _ _ _ _ HI) as [HS _].
  assert (Hstep : xrun fx p B cap [g] (h1 ++ [XRound w]) = xstep fx p B cap s1 (XRound w)).
  { unfold xrun. rewrite fold_left_app. reflexivity. }
  rewrite Hstep in Hl2. cbn [xstep with_st xs_st] in Hl2.
  destruct (remove_round fx cap (xs_node s1) (find_tx (xs_all s1)) (xs_st s1) w) as [st' fin] eqn:Hr.
  cbn [fst] in Hl2.
  destruct fin.
  2:{ exfalso. pose proof (remove_round_status _ _ _ _ _ _ _ Hr) as Hst. unfold listed, status_of in Hl1, Hl2.
      rewrite Hst in Hl2. congruence. }
  pose proof (remove_round_fin _ _ _ _ _ _ _ Hr) as Hp1.
  destruct (si_p1 _ _ _ HS w Hp1) as [_ Hres].
  destruct (remove_erases fx cap _ _ _ w st' (si_keyed _ _ _ HS) (si_fun _ _ _ HS) Hres Hr) as [Hm _]. fold shs in Hm.
  assert (HC : Clean w shs (xs_st (xstep fx p B cap s1 (XRound w)))).
  { cbn [xstep with_st xs_st]. rewrite Hr. cbn [fst]. apply mentions_clean. exact Hm. }
  assert (Hs : s = fold_left (xstep fx p B cap) h2 (xstep fx p B cap s1 (XRound w))).
  { unfold s, xrun. rewrite fold_left_app. reflexivity. }
  pose proof (fold_clean fx p B cap w shs h2 _ HC Hh2) as HC'. rewrite <- Hs in HC'.
  split; [apply mentions_clean; exact HC'|]. unfold listed. rewrite (cl_status _ _ _ HC'). reflexivity.
Qed.
