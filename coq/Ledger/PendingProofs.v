(* Ledger/PendingProofs.v — lemmas and proofs about Ledger/Pending.v (properties C09 and C10). *)
From Coq Require Import List ZArith NArith Bool Lia.
Import ListNotations.
Open Scope Z_scope.
Require Import MW.Ledger.Model MW.Ledger.Spec MW.Ledger.Run MW.Ledger.Pending.

(* ================================================================ small facts *)

Lemma op_eqb_refl : forall o, op_eqb o o = true.
Proof. intros [a b]. unfold op_eqb. cbn. rewrite !N.eqb_refl. reflexivity. Qed.

Lemma op_eqb_eq : forall a b, op_eqb a b = true <-> a = b.
Proof.
  intros [a1 a2] [b1 b2]. unfold op_eqb. cbn. rewrite andb_true_iff, !N.eqb_eq. split.
  - intros [-> ->]. reflexivity.
  - intros H. inversion H. split; reflexivity.
Qed.

Lemma op_eqb_sym : forall a b, op_eqb a b = op_eqb b a.
Proof. intros [a1 a2] [b1 b2]. unfold op_eqb. cbn. rewrite (N.eqb_sym a1), (N.eqb_sym a2). reflexivity. Qed.

(* ================================================================ C09: receiving does not touch the ledger *)

(* the state insertMemPoolTx + insertUnminedInputs produce *)
Definition inserted (s : pstate) (t : tx) (ins : list rel_in) : pstate :=
  set_uinputs (set_unmined s (um_put (ps_unmined s) (t_id t) (USer t)))
    (fold_left (fun ui ri => ui_append ui (ri_prev ri) (t_id t)) ins
               (ps_uinputs (set_unmined s (um_put (ps_unmined s) (t_id t) (USer t))))).

(* what receive_store can return: the state is untouched (already pending without relevant outputs,
   or already mined), or the transaction is inserted; unmined credits and unmined deposit rows may be
   added on top *)
Lemma receive_store_shape :
  forall p own n s t s', receive_store p own n s t = POk (Some s') ->
    t_cb t = false /\
    exists ins, filter_ins_unmined own (lookup_pending n (ps_unmined s)) (t_ins t) 0%N = Ok ins /\
      let s1 := match um_get (ps_unmined s) (t_id t) with
                | Some _ => s
                | None => if tx_recorded s (t_id t) then s else inserted s t ins
                end in
      ps_w s' = ps_w s1 /\ ps_blocks s' = ps_blocks s1 /\ ps_game s' = ps_game s1 /\
      ps_unmined s' = ps_unmined s1 /\ ps_uinputs s' = ps_uinputs s1.
Proof.
  intros p own n s t s' H. unfold receive_store, receive_store_gen in H. cbn [andb] in H.
  destruct (t_cb t) eqn:Ecb.
  { cbn in H. destruct (filter_outs own (t_outs t) 0%N); discriminate. }
  split; [reflexivity|].
  destruct (filter_ins_unmined own (lookup_pending n (ps_unmined s)) (t_ins t) 0%N) as [ins|e]; [|discriminate].
  exists ins. split; [reflexivity|]. cbv zeta. fold (inserted s t ins) in H.
  set (outs := filter_outs own (t_outs t) 0%N) in *.
  assert (Hfin : forall x,
            (if match um_get (ps_unmined s) (t_id t) with Some _ => false | None => tx_recorded s (t_id t) end
             then POk (Some s)
             else match outs with
                  | [] => POk (Some (match um_get (ps_unmined s) (t_id t) with Some _ => s | None => inserted s t ins end))
                  | _ :: _ =>
                      match add_ucredits p (credits (ps_w (match um_get (ps_unmined s) (t_id t) with Some _ => s | None => inserted s t ins end)))
                                         (ps_ucredits (match um_get (ps_unmined s) (t_id t) with Some _ => s | None => inserted s t ins end)) (t_id t) outs with
                      | PErr e => PErr e
                      | POk ucs => POk (Some (set_ugame (set_ucredits (match um_get (ps_unmined s) (t_id t) with Some _ => s | None => inserted s t ins end) ucs)
                                                        (add_ugame (ps_ugame (match um_get (ps_unmined s) (t_id t) with Some _ => s | None => inserted s t ins end)) (t_id t) outs)))
                      end
                  end) = POk (Some x) ->
            let s1 := match um_get (ps_unmined s) (t_id t) with
                      | Some _ => s
                      | None => if tx_recorded s (t_id t) then s else inserted s t ins
                      end in
            ps_w x = ps_w s1 /\ ps_blocks x = ps_blocks s1 /\ ps_game x = ps_game s1 /\
            ps_unmined x = ps_unmined s1 /\ ps_uinputs x = ps_uinputs s1).
  { intros x Hx. cbv zeta. destruct (um_get (ps_unmined s) (t_id t)) as [v|].
    - destruct outs as [|o outs'].
      + inversion Hx; subst x. repeat split.
      + destruct (add_ucredits p (credits (ps_w s)) (ps_ucredits s) (t_id t) (o :: outs')); [|discriminate].
        inversion Hx; subst x. repeat split.
    - destruct (tx_recorded s (t_id t)).
      + inversion Hx; subst x. repeat split.
      + destruct outs as [|o outs'].
        * inversion Hx; subst x. repeat split.
        * destruct (add_ucredits p (credits (ps_w (inserted s t ins))) (ps_ucredits (inserted s t ins)) (t_id t) (o :: outs')); [|discriminate].
          inversion Hx; subst x. repeat split. }
  destruct ins as [|i ins']; destruct outs as [|o outs'] eqn:Eo; try discriminate; apply Hfin; exact H.
Qed.

(* receive_store never changes the mined side: credits, sync, block records, mined deposit rows *)
Lemma receive_store_mined :
  forall p own n s t s', receive_store p own n s t = POk (Some s') ->
    ps_w s' = ps_w s /\ ps_blocks s' = ps_blocks s /\ ps_game s' = ps_game s.
Proof.
  intros p own n s t s' H. destruct (receive_store_shape _ _ _ _ _ _ H) as (_ & ins & _ & Hs). cbv zeta in Hs.
  destruct Hs as (A & B & C & _ & _). rewrite A, B, C.
  destruct (um_get (ps_unmined s) (t_id t)); [repeat split|]. destruct (tx_recorded s (t_id t)); repeat split.
Qed.

Theorem receive_tx_not_counted :
  forall p own n hs t,
    let hs' := fst (receive_tx p own n hs t) in
    ps_w (h_store hs') = ps_w (h_store hs) /\ ps_game (h_store hs') = ps_game (h_store hs) /\
    ps_blocks (h_store hs') = ps_blocks (h_store hs) /\
    forall w, model_report (ps_w (h_store hs')) w = model_report (ps_w (h_store hs)) w.
Proof.
  intros p own n hs t. cbv zeta. unfold receive_tx.
  destruct (mem_n (t_id t) (h_mempool hs)); cbn [fst]; [auto|].
  destruct (receive_store p own n (h_store hs) t) as [[s'|]|e] eqn:E; cbn [fst]; auto.
  cbn [h_store]. destruct (receive_store_mined _ _ _ _ _ _ E) as (Hw & Hb & Hg).
  rewrite Hw, Hg, Hb. auto.
Qed.

(* ================================================================ C09/C10: selection *)

Theorem eligible_not_flagged :
  forall s c, spent_by_unmined s (credit_op c) = true -> eligible s c = false.
Proof.
  intros s c H. unfold eligible. rewrite H. cbn. rewrite andb_false_r. reflexivity.
Qed.

Theorem eligible_is_standard :
  forall s c, eligible s c = true ->
    is_std c = true /\ is_staking c = false /\ is_binding c = false /\ is_unspent c = true /\
    mature (ps_w s) c = true /\ spent_by_unmined s (credit_op c) = false.
Proof.
  intros s c H. unfold eligible in H. rewrite !andb_true_iff in H. destruct H as (((Hm & Hf) & Hu) & Hs).
  unfold is_std, is_staking, is_binding in *. destruct (c_class c); try discriminate.
  repeat split; auto. destruct (spent_by_unmined s (credit_op c)); [discriminate|reflexivity].
Qed.

Theorem eligible_list_sound :
  forall s w c, In c (eligible_list s w) ->
    In c (credits (ps_w s)) /\ c_wallet c = w /\ eligible s c = true.
Proof.
  intros s w c H. unfold eligible_list in H. apply filter_In in H. destruct H as [H He].
  unfold listed_unspent in H. apply filter_In in H. destruct H as [H _].
  unfold wallet_unspent in H. apply filter_In in H. destruct H as [H Hw].
  rewrite andb_true_iff in Hw. destruct Hw as [Hw _]. apply N.eqb_eq in Hw. auto.
Qed.

(* ================================================================ C10: lock arithmetic *)

Lemma pow2_39_pos : 0 < 2 ^ 39. Proof. reflexivity. Qed.

(* the sequence the wallet writes satisfies the engine's CHECKSEQUENCEVERIFY for that deposit, and is
   the least such sequence (so the withdrawal is valid in the earliest block consensus allows) *)
Theorem built_sequence_required :
  forall bp locktime cls h,
    0 <= bp_bindlock bp < 2 ^ 32 ->
    (forall f, cls = CStaking f -> 0 <= f < 2 ^ 32 - 1) ->
    match required_sequence bp cls h with
    | Some v => built_sequence bp locktime cls h = v /\ csv_ok (Some v) (built_sequence bp locktime cls h) = true /\
                (forall s, csv_ok (Some v) s = true -> 0 <= s -> v <= s)
    | None => True
    end.
Proof.
  intros bp locktime cls h Hb Hf. unfold required_sequence, csv_operand, built_sequence.
  assert (Hok : forall v, 0 <= v < 2 ^ 32 -> csv_ok (Some v) v = true /\ (forall s, csv_ok (Some v) s = true -> 0 <= s -> v <= s)).
  { intros v Hv. unfold csv_ok, seq_disabled_bit. split.
    - rewrite Z.mod_small by (change (2 ^ 39) with 549755813888; change (2 ^ 32) with 4294967296 in Hv; lia).
      change (2 ^ 63) with 9223372036854775808. change (2 ^ 38) with 274877906944. change (2 ^ 32) with 4294967296 in Hv.
      rewrite !andb_true_iff. repeat split; [apply Z.ltb_lt|apply Z.leb_le|apply Z.ltb_lt]; lia.
    - intros s Hs Hs0. rewrite !andb_true_iff in Hs. destruct Hs as ((_ & Hle) & _). apply Z.leb_le in Hle.
      pose proof (Z.mod_le s (2 ^ 39) Hs0 pow2_39_pos). lia. }
  destruct cls as [|f| | |]; try exact I.
  - specialize (Hf f eq_refl). destruct (Hok (f + 1)) as [H1 H2]; [lia|]. auto.
  - destruct (bp_warmup bp <=? h); [|exact I]. destruct (Hok (bp_bindlock bp) Hb) as [H1 H2]. auto.
  - destruct (bp_warmup bp <=? h); [|exact I]. destruct (Hok (bp_bindlock bp) Hb) as [H1 H2]. auto.
Qed.

(* with the sequence the wallet writes, consensus (calcSequenceLock + SequenceLockActive) admits the
   withdrawal in the block at height [next] exactly from height  deposit + operand  on *)
Lemma sequence_lock_active_iff :
  forall h v next, 0 <= v < 2 ^ 32 ->
    sequence_lock_active h v next = true <-> h + v <= next.
Proof.
  intros h v next Hv. unfold sequence_lock_active, sequence_lock_height, seq_disabled_bit.
  change (2 ^ 63) with 9223372036854775808. change (2 ^ 32) with 4294967296 in *.
  destruct (9223372036854775808 <=? v) eqn:E; [apply Z.leb_le in E; lia|].
  rewrite Z.mod_small by lia. rewrite Z.ltb_lt. lia.
Qed.

(* the wallet's maturity test on a credit whose stored maturity is the script's
   (every credit of a non-coinbase transaction: see apply_outs_maturity) *)
Theorem mature_iff_consensus :
  forall p bp st c,
    c_maturity c = maturity_of p false (c_class c) ->
    bp_bindlock bp = p_bindlock p ->
    (* the deposit is a staking output, or a binding output of the kind consensus admits at its height *)
    (match c_class c with
     | CStaking f => 0 <= f < 2 ^ 32 - 1
     | CBindingNew => bp_warmup bp <= c_height c
     | CBindingOld => c_height c < bp_warmup bp
     | _ => False
     end) ->
    0 <= p_bindlock p < 2 ^ 32 ->
    c_height c <= fst (tip st) ->           (* the credit is in a block of the synced chain *)
    let next := fst (tip st) + 1 in
    mature st c = true <->
    match csv_operand bp (c_class c) (c_height c) with
    | Some v => sequence_lock_active (c_height c) v next = true
    | None => True
    end.
Proof.
  intros p bp st c Hm Hbl Hcls Hb Hh. cbv zeta. unfold mature, confs. rewrite Hm. unfold maturity_of, script_maturity, csv_operand.
  assert (P32 : 2 ^ 32 = 4294967296) by reflexivity.
  destruct (c_class c) as [|f| | |] eqn:Ec; try contradiction.
  - rewrite sequence_lock_active_iff by lia. rewrite Z.leb_le. lia.
  - assert (E : bp_warmup bp <=? c_height c = false) by (apply Z.leb_gt; lia). rewrite E.
    rewrite Z.leb_le. split; auto. intros _. lia.
  - assert (E : bp_warmup bp <=? c_height c = true) by (apply Z.leb_le; lia). rewrite E.
    rewrite Hbl. rewrite sequence_lock_active_iff by lia. rewrite Z.leb_le. lia.
Qed.

(* staking: withdrawable exactly when the next height reaches deposit height + frozen period + 1 *)
Corollary staking_withdrawable_iff :
  forall p st c f, c_class c = CStaking f -> c_maturity c = maturity_of p false (c_class c) ->
    (mature st c = true <-> c_height c + f + 1 <= fst (tip st) + 1).
Proof.
  intros p st c f Hc Hm. unfold mature, confs. rewrite Hm, Hc. cbn. rewrite Z.leb_le. lia.
Qed.

(* a new-style binding deposit is never withdrawable within 2^32 - 2 blocks *)
Corollary new_binding_locked :
  forall p st c, c_class c = CBindingNew -> c_maturity c = maturity_of p false (c_class c) ->
    p_bindlock p = 2 ^ 32 - 2 ->
    mature st c = true -> c_height c + (2 ^ 32 - 2) <= fst (tip st) + 1.
Proof.
  intros p st c Hc Hm Hp H. unfold mature, confs in H. rewrite Hm, Hc in H. cbn in H. apply Z.leb_le in H. lia.
Qed.

(* credits created by AddCredits carry the script's maturity, except under a coinbase *)
Lemma apply_outs_maturity :
  forall p t h bid outs cs cs',
    apply_outs p cs t h bid outs = Ok cs' ->
    (forall c, In c cs -> c_maturity c = maturity_of p (t_cb t) (c_class c) \/ c_tx c <> t_id t) ->
    forall c, In c cs' -> c_maturity c = maturity_of p (t_cb t) (c_class c) \/ c_tx c <> t_id t.
Proof.
  intros p t h bid outs. induction outs as [|ro rest IH]; intros cs cs' H Hcs c Hc; cbn in H.
  - inversion H; subst. auto.
  - destruct (exists_credit_at cs (t_id t, ro_index ro) h bid); [discriminate|].
    eapply IH; [exact H| |exact Hc].
    intros c0 Hc0. apply in_app_or in Hc0. destruct Hc0 as [Hc0|[<-|[]]]; auto.
Qed.

(* a deposit made by a coinbase transaction: the stored maturity is the longer of the coinbase maturity and
   the script's lock, so the wallet calls it withdrawable exactly when both have passed *)
Theorem coinbase_deposit_both_locks :
  forall p st c, c_maturity c = maturity_of p true (c_class c) ->
    (mature st c = true <-> p_cbmat p <= confs st c /\ script_maturity p (c_class c) <= confs st c).
Proof.
  intros p st c Hm. unfold mature. rewrite Hm. unfold maturity_of. rewrite Z.leb_le. lia.
Qed.

(* the code as first found stored the coinbase maturity whatever the script says: such a deposit was
   called withdrawable while consensus still locked it *)
Theorem coinbase_deposit_maturity_refuted :
  exists p bp st c,
    c_maturity c = maturity_as_found p true (c_class c) /\ c_class c = CStaking 10 /\
    mature st c = true /\
    match csv_operand bp (c_class c) (c_height c) with
    | Some v => sequence_lock_active (c_height c) v (fst (tip st) + 1) = false
    | None => False
    end.
Proof.
  exists {| p_cbmat := 4; p_bindlock := 4294967294 |}, {| bp_warmup := 100; bp_bindlock := 4294967294 |},
         {| credits := []; synced := [(5, 5%N)] |},
         {| c_tx := 1; c_vout := 0; c_height := 2; c_bid := 2; c_amount := 7; c_sh := 1; c_wallet := 1;
            c_class := CStaking 10; c_maturity := 4; c_spent := None |}.
  vm_compute. repeat split; reflexivity.
Qed.

(* ================================================================ the fuel of removeConflict *)

(* Transaction ids are assigned in creation order and a transaction can only spend outputs of
   transactions that exist already (its id is the hash of its content, which contains the ids it
   spends): every input refers to a smaller id.  This is the environment assumption E4 in the form
   the harness realises it; it is what makes the conflict recursion terminate. *)
Definition tx_ordered (t : tx) : Prop := forall o, In o (t_ins t) -> (fst o < t_id t)%N.

(* every registered spender has a larger id than the transaction whose output it spends *)
Definition ui_ordered (ui : list (outp * list N)) : Prop :=
  forall o sp, In sp (ui_get ui o) -> (fst o < sp)%N.

(* number of pending transactions with an id above h *)
Definition above (h : N) (um : list (N * uval)) : nat := length (filter (fun e => (h <? fst e)%N) um).

Lemma above_le_length : forall h um, (above h um <= length um)%nat.
Proof.
  intros h um. unfold above. induction um as [|e um IH]; cbn; [lia|]. destruct (h <? fst e)%N; cbn; lia.
Qed.

Lemma above_mono : forall h k um, (h <= k)%N -> (above k um <= above h um)%nat.
Proof.
  intros h k um Hhk. unfold above. induction um as [|e um IH]; cbn; [lia|].
  destruct (k <? fst e)%N eqn:E1; destruct (h <? fst e)%N eqn:E2; cbn; try lia.
  apply N.ltb_lt in E1. apply N.ltb_ge in E2. lia.
Qed.

Lemma above_lt : forall h sp um v, (h < sp)%N -> um_get um sp = Some v -> (above sp um < above h um)%nat.
Proof.
  intros h sp um v Hlt. unfold um_get, above. induction um as [|e um IH]; cbn; [discriminate|].
  destruct (fst e =? sp)%N eqn:E.
  - intros _. apply N.eqb_eq in E. rewrite E.
    assert (E1 : (sp <? sp)%N = false) by (apply N.ltb_ge; lia). rewrite E1.
    assert (E2 : (h <? sp)%N = true) by (apply N.ltb_lt; lia). rewrite E2. cbn.
    pose proof (above_mono h sp um ltac:(lia)) as M. unfold above in M. lia.
  - intros H. specialize (IH H).
    destruct (sp <? fst e)%N eqn:E1; destruct (h <? fst e)%N eqn:E2; cbn; try lia.
    apply N.ltb_lt in E1. apply N.ltb_ge in E2. lia.
Qed.

Lemma above_um_del : forall k um h, (above k (um_del um h) <= above k um)%nat.
Proof.
  intros k um h. unfold above, um_del. induction um as [|e um IH]; cbn; [lia|].
  destruct (negb (fst e =? h)%N); cbn; destruct (k <? fst e)%N; cbn; lia.
Qed.

(* ---- reading the unmined-inputs bucket after deletions *)

Lemma ui_get_del : forall l o o', ui_get (ui_del l o) o' = if op_eqb o o' then [] else ui_get l o'.
Proof.
  intros l o o'. unfold ui_get, ui_del. induction l as [|e l IH]; cbn [filter find].
  - destruct (op_eqb o o'); reflexivity.
  - match goal with |- context [negb ?x] => destruct x eqn:E1 end; cbn [negb find].
    + apply op_eqb_eq in E1.
      match goal with |- context [if ?x then Some e else _] => destruct x eqn:E2 end.
      * apply op_eqb_eq in E2. assert (E3 : op_eqb o o' = true) by (apply op_eqb_eq; rewrite <- E1; exact E2).
        rewrite E3 in *. exact IH.
      * exact IH.
    + match goal with |- context [if ?x then Some e else _] => destruct x eqn:E2 end.
      * apply op_eqb_eq in E2. assert (E3 : op_eqb o o' = false).
        { destruct (op_eqb o o') eqn:E4; [|reflexivity]. apply op_eqb_eq in E4.
          exfalso. apply (eq_true_false_abs (op_eqb (fst e) o)); [apply op_eqb_eq; rewrite E4; exact E2|exact E1]. }
        rewrite E3. reflexivity.
      * exact IH.
Qed.

Lemma ui_ordered_del : forall l o, ui_ordered l -> ui_ordered (ui_del l o).
Proof.
  intros l o H o' sp Hin. rewrite ui_get_del in Hin. destruct (op_eqb o o'); [destruct Hin|]. exact (H o' sp Hin).
Qed.

Lemma filter_len_le : forall (A : Type) (f : A -> bool) (l : list A), (length (filter f l) <= length l)%nat.
Proof. intros A f l. induction l as [|a l IH]; cbn; [lia|]. destruct (f a); cbn; lia. Qed.

Lemma filter_same_length : forall (A : Type) (f : A -> bool) (l : list A), length (filter f l) = length l -> filter f l = l.
Proof.
  intros A f l. induction l as [|a l IH]; intros H; [reflexivity|]. cbn in *.
  destruct (f a); cbn in *.
  - f_equal. apply IH. lia.
  - exfalso. pose proof (filter_len_le A f l). lia.
Qed.

(* reading the bucket after deleteUnminedInputs has taken [h] out of the list of [o] *)
Lemma ui_get_remove :
  forall l o h o', ui_get (ui_remove l o h) o' =
                   if op_eqb o o' then filter (fun x => negb (x =? h)%N) (ui_get l o) else ui_get l o'.
Proof.
  intros l o h o'. unfold ui_remove.
  destruct (ui_get l o) as [|x xs] eqn:Eg.
  - destruct (op_eqb o o') eqn:E; [|reflexivity]. apply op_eqb_eq in E. subst o'. rewrite Eg. reflexivity.
  - destruct (filter (fun x0 => negb (x0 =? h)%N) (x :: xs)) as [|y ys] eqn:Ef.
    + rewrite ui_get_del. destruct (op_eqb o o'); reflexivity.
    + destruct (length (y :: ys) =? length (x :: xs))%nat eqn:El.
      * apply Nat.eqb_eq in El. rewrite <- Ef in El. apply filter_same_length in El.
        destruct (op_eqb o o') eqn:E; [|reflexivity]. apply op_eqb_eq in E. subst o'. rewrite Eg. congruence.
      * unfold ui_get at 1. cbn [find fst snd]. destruct (op_eqb o o') eqn:E; [reflexivity|].
        change (match find (fun e => op_eqb (fst e) o') (ui_del l o) with Some e => snd e | None => [] end) with (ui_get (ui_del l o) o').
        rewrite ui_get_del, E. reflexivity.
Qed.

Lemma ui_remove_sub : forall l o h o' sp, In sp (ui_get (ui_remove l o h) o') -> In sp (ui_get l o').
Proof.
  intros l o h o' sp H. rewrite ui_get_remove in H. destruct (op_eqb o o') eqn:E; [|exact H].
  apply op_eqb_eq in E. subst o'. apply filter_In in H. exact (proj1 H).
Qed.

Lemma ui_ordered_remove : forall l o h, ui_ordered l -> ui_ordered (ui_remove l o h).
Proof. intros l o h H o' sp Hin. apply ui_remove_sub in Hin. exact (H o' sp Hin). Qed.

Lemma ui_ordered_del_inputs : forall t h l, ui_ordered l -> ui_ordered (del_inputs_of l t h).
Proof.
  intros t h l. unfold del_inputs_of. generalize (t_ins t). intros ins. revert l.
  induction ins as [|o ins IH]; intros l H; cbn; [exact H|]. apply IH. apply ui_ordered_remove. exact H.
Qed.

Lemma ui_get_append : forall l o h o',
  ui_get (ui_append l o h) o' = if op_eqb o o' then ui_get l o ++ [h] else ui_get l o'.
Proof.
  intros l o h o'. unfold ui_append. unfold ui_get at 1. cbn [find fst snd].
  destruct (op_eqb o o') eqn:E; [reflexivity|].
  change (match find (fun e => op_eqb (fst e) o') (ui_del l o) with Some e => snd e | None => [] end) with (ui_get (ui_del l o) o').
  rewrite ui_get_del, E. reflexivity.
Qed.

Lemma ui_ordered_append : forall l o h, ui_ordered l -> (fst o < h)%N -> ui_ordered (ui_append l o h).
Proof.
  intros l o h H Hlt o' sp Hin. rewrite ui_get_append in Hin. destruct (op_eqb o o') eqn:E.
  - apply op_eqb_eq in E. subst o'. apply in_app_or in Hin. destruct Hin as [Hin|[<-|[]]]; [exact (H o sp Hin)|exact Hlt].
  - exact (H o' sp Hin).
Qed.

(* ---- the invariant carried through the recursion *)

(* [fine s0 r]: r is not the out-of-fuel error, and when it is a state, the unmined-inputs bucket is
   still ordered and the unmined bucket has only lost entries with respect to s0 *)
Definition fine (s0 : pstate) (r : pres pstate) : Prop :=
  match r with
  | PErr EOutOfFuel => False
  | PErr _ => True
  | POk s' => ui_ordered (ps_uinputs s') /\ forall k, (above k (ps_unmined s') <= above k (ps_unmined s0))%nat
  end.

Lemma fine_trans : forall s0 s1 r,
  (forall k, (above k (ps_unmined s1) <= above k (ps_unmined s0))%nat) -> fine s1 r -> fine s0 r.
Proof.
  intros s0 s1 r H Hr. destruct r as [s'|e]; [|exact Hr]. destruct Hr as [Ho Ha]. split; [exact Ho|].
  intros k. specialize (H k). specialize (Ha k). lia.
Qed.

(* one loop over the spenders registered under an outpoint, each removed by [rc] *)
Lemma fold_spenders_fine :
  forall (rc : pstate -> N -> tx -> pres pstate) (h : N) (s0 : pstate),
    (forall s2 sp st, ui_ordered (ps_uinputs s2) ->
        (forall k, (above k (ps_unmined s2) <= above k (ps_unmined s0))%nat) ->
        (h < sp)%N -> um_get (ps_unmined s2) sp = Some (USer st) -> fine s2 (rc s2 sp st)) ->
    forall sps acc, (forall sp, In sp sps -> (h < sp)%N) -> fine s0 acc ->
      fine s0 (fold_left (fun (acc2 : pres pstate) (sp : N) =>
                            match acc2 with
                            | PErr e => PErr e
                            | POk s2 => match um_get (ps_unmined s2) sp with
                                        | None => POk s2
                                        | Some ULoc => PErr EUnreadable
                                        | Some (USer st) => rc s2 sp st
                                        end
                            end) sps acc).
Proof.
  intros rc h s0 Hrc sps. induction sps as [|sp sps IH]; intros acc Hsps Hacc; cbn [fold_left]; [exact Hacc|].
  apply IH; [intros x Hx; apply Hsps; right; exact Hx|].
  destruct acc as [s2|e]; [|exact Hacc]. destruct Hacc as [Ho Ha].
  destruct (um_get (ps_unmined s2) sp) as [[st|]|] eqn:E.
  - eapply fine_trans; [exact Ha|]. apply Hrc; auto. apply Hsps. left. reflexivity.
  - exact I.
  - split; assumption.
Qed.

Lemma remove_conflict_fine :
  forall fuel own s h t,
    ui_ordered (ps_uinputs s) -> (above h (ps_unmined s) < fuel)%nat ->
    fine s (remove_conflict fuel own s h t).
Proof.
  induction fuel as [|f IH]; intros own s h t Ho Hf; [lia|].
  cbn [remove_conflict].
  set (per_out := fun (acc : pres pstate) (i : N) =>
        match acc with
        | PErr e => PErr e
        | POk s1 =>
            match fold_left (fun (acc2 : pres pstate) (sp : N) =>
                               match acc2 with
                               | PErr e => PErr e
                               | POk s2 => match um_get (ps_unmined s2) sp with
                                           | None => POk s2
                                           | Some ULoc => PErr EUnreadable
                                           | Some (USer st) => remove_conflict f own s2 sp st
                                           end
                               end) (ui_get (ps_uinputs s1) (h, i)) (POk s1) with
            | PErr e => PErr e
            | POk s3 => POk (set_ucredits s3 (uc_del (ps_ucredits s3) (h, i)))
            end
        end).
  assert (Hfold : forall idx acc, fine s acc -> fine s (fold_left per_out idx acc)).
  { induction idx as [|i idx IHi]; intros acc Hacc; cbn [fold_left]; [exact Hacc|].
    apply IHi. destruct acc as [s1|e]; [|exact Hacc]. destruct Hacc as [Ho1 Ha1]. unfold per_out.
    assert (Hin : fine s (fold_left (fun (acc2 : pres pstate) (sp : N) =>
                               match acc2 with
                               | PErr e => PErr e
                               | POk s2 => match um_get (ps_unmined s2) sp with
                                           | None => POk s2
                                           | Some ULoc => PErr EUnreadable
                                           | Some (USer st) => remove_conflict f own s2 sp st
                                           end
                               end) (ui_get (ps_uinputs s1) (h, i)) (POk s1))).
    { apply (fold_spenders_fine (fun s2 sp st => remove_conflict f own s2 sp st) h s).
      - intros s2 sp st Ho2 Ha2 Hlt Hget. apply IH; [exact Ho2|].
        pose proof (above_lt h sp (ps_unmined s2) _ Hlt Hget) as L. specialize (Ha2 h). lia.
      - intros sp Hsp. exact (Ho1 (h, i) sp Hsp).
      - split; assumption. }
    destruct (fold_left _ (ui_get (ps_uinputs s1) (h, i)) (POk s1)) as [s3|e]; [|exact Hin].
    destruct Hin as [Ho3 Ha3]. split; [exact Ho3|exact Ha3]. }
  specialize (Hfold (out_indexes t) (POk s)).
  assert (H0 : fine s (POk s)) by (split; [exact Ho|intros k; lia]).
  specialize (Hfold H0).
  destruct (fold_left per_out (out_indexes t) (POk s)) as [s4|e]; [|exact Hfold].
  destruct Hfold as [Ho4 Ha4]. split.
  - cbn. apply ui_ordered_del_inputs. exact Ho4.
  - intros k. cbn [ps_unmined set_unmined set_ugame set_uinputs]. pose proof (above_um_del k (ps_unmined s4) h). specialize (Ha4 k). lia.
Qed.

(* the fuel the model passes is enough: the out-of-fuel case is excluded *)
Theorem remove_conflict_fuel :
  forall own s h t, ui_ordered (ps_uinputs s) ->
    remove_conflict (conflict_fuel s) own s h t <> PErr EOutOfFuel.
Proof.
  intros own s h t Ho E.
  pose proof (remove_conflict_fine (conflict_fuel s) own s h t Ho) as F.
  unfold conflict_fuel in *. pose proof (above_le_length h (ps_unmined s)). rewrite E in F. apply F. lia.
Qed.

Lemma remove_spenders_fine :
  forall own s k, ui_ordered (ps_uinputs s) -> fine s (remove_spenders own s k).
Proof.
  intros own s k Ho. unfold remove_spenders.
  apply (fold_spenders_fine (fun s2 sp st => remove_conflict (conflict_fuel s2) own s2 sp st) (fst k) s).
  - intros s2 sp st Ho2 _ _ _. apply remove_conflict_fine; [exact Ho2|].
    unfold conflict_fuel. pose proof (above_le_length sp (ps_unmined s2)). lia.
  - intros sp Hsp. exact (Ho k sp Hsp).
  - split; [exact Ho|intros x; lia].
Qed.

Lemma remove_double_spends_fine :
  forall own s r, ui_ordered (ps_uinputs s) -> fine s (remove_double_spends own s r).
Proof.
  intros own s r Ho. unfold remove_double_spends.
  assert (H : forall ins acc, fine s acc ->
            fine s (fold_left (fun (acc : pres pstate) (ri : rel_in) =>
                                 match acc with PErr e => PErr e | POk s1 => remove_spenders own s1 (ri_prev ri) end) ins acc)).
  { induction ins as [|ri ins IH]; intros acc Hacc; cbn [fold_left]; [exact Hacc|].
    apply IH. destruct acc as [s1|e]; [|exact Hacc]. destruct Hacc as [Ho1 Ha1].
    eapply fine_trans; [exact Ha1|]. apply remove_spenders_fine. exact Ho1. }
  specialize (H (rr_ins r) (POk s) ltac:(split; [exact Ho|intros k; lia])).
  destruct (fold_left _ (rr_ins r) (POk s)) as [s2|e]; [|exact H].
  destruct H as [Ho2 Ha2]. split; [|exact Ha2]. cbn. apply ui_ordered_del_inputs. exact Ho2.
Qed.

Lemma purge_coinbase_fine :
  forall own ops s, ui_ordered (ps_uinputs s) -> fine s (purge_coinbase own s ops).
Proof.
  intros own ops s Ho. unfold purge_coinbase.
  assert (H : forall ops acc, fine s acc ->
            fine s (fold_left (fun (acc : pres pstate) (o : outp) =>
                                 match acc with PErr e => PErr e | POk s1 => remove_spenders own s1 o end) ops acc)).
  { induction ops0 as [|o ops0 IH]; intros acc Hacc; cbn [fold_left]; [exact Hacc|].
    apply IH. destruct acc as [s1|e]; [|exact Hacc]. destruct Hacc as [Ho1 Ha1].
    eapply fine_trans; [exact Ha1|]. apply remove_spenders_fine. exact Ho1. }
  apply H. split; [exact Ho|intros k; lia].
Qed.

(* ================================================================ frame: conflict removal only touches the pending side *)

Definition okp (P : pstate -> Prop) (r : pres pstate) : Prop :=
  match r with POk s' => P s' | PErr _ => True end.

Lemma fold_spenders_pres :
  forall (P : pstate -> Prop) (rc : pstate -> N -> tx -> pres pstate),
    (forall s2 sp st, P s2 -> okp P (rc s2 sp st)) ->
    forall sps acc, okp P acc ->
      okp P (fold_left (fun (acc2 : pres pstate) (sp : N) =>
                          match acc2 with
                          | PErr e => PErr e
                          | POk s2 => match um_get (ps_unmined s2) sp with
                                      | None => POk s2
                                      | Some ULoc => PErr EUnreadable
                                      | Some (USer st) => rc s2 sp st
                                      end
                          end) sps acc).
Proof.
  intros P rc Hrc sps. induction sps as [|sp sps IH]; intros acc Hacc; cbn [fold_left]; [exact Hacc|].
  apply IH. destruct acc as [s2|e]; [|exact I]. cbn in Hacc.
  destruct (um_get (ps_unmined s2) sp) as [[st|]|]; [apply Hrc; exact Hacc|exact I|exact Hacc].
Qed.

(* the mined side of a state: everything C01 and the mined deposit history are computed from *)
Definition same_mined (s0 s' : pstate) : Prop :=
  ps_w s' = ps_w s0 /\ ps_blocks s' = ps_blocks s0 /\ ps_game s' = ps_game s0.

Lemma same_mined_refl : forall s, same_mined s s.
Proof. intros s. repeat split. Qed.

Lemma remove_conflict_frame :
  forall fuel own s0 s h t, same_mined s0 s -> okp (same_mined s0) (remove_conflict fuel own s h t).
Proof.
  induction fuel as [|f IH]; intros own s0 s h t Hs; [exact I|].
  cbn [remove_conflict].
  match goal with |- okp _ (match fold_left ?po _ _ with _ => _ end) => set (per_out := po) end.
  assert (Hfold : forall idx acc, okp (same_mined s0) acc -> okp (same_mined s0) (fold_left per_out idx acc)).
  { induction idx as [|i idx IHi]; intros acc Hacc; cbn [fold_left]; [exact Hacc|].
    apply IHi. destruct acc as [s1|e]; [|exact I]. unfold per_out.
    match goal with |- okp _ (match ?F with _ => _ end) => assert (Hin : okp (same_mined s0) F) end.
    { apply (fold_spenders_pres (same_mined s0) (fun s2 sp st => remove_conflict f own s2 sp st)).
      - intros s2 sp st H2. apply IH. exact H2.
      - exact Hacc. }
    match goal with |- okp _ (match ?F with _ => _ end) => destruct F as [s3|e] end; [|exact I].
    exact Hin. }
  specialize (Hfold (out_indexes t) (POk s) Hs).
  destruct (fold_left per_out (out_indexes t) (POk s)) as [s4|e]; [|exact I].
  exact Hfold.
Qed.

Lemma remove_spenders_frame :
  forall own s0 s k, same_mined s0 s -> okp (same_mined s0) (remove_spenders own s k).
Proof.
  intros own s0 s k Hs. unfold remove_spenders.
  apply (fold_spenders_pres (same_mined s0) (fun s2 sp st => remove_conflict (conflict_fuel s2) own s2 sp st)).
  - intros s2 sp st H2. apply remove_conflict_frame. exact H2.
  - exact Hs.
Qed.

Lemma remove_double_spends_frame :
  forall own s0 s r, same_mined s0 s -> okp (same_mined s0) (remove_double_spends own s r).
Proof.
  intros own s0 s r Hs. unfold remove_double_spends.
  assert (H : forall ins acc, okp (same_mined s0) acc ->
            okp (same_mined s0) (fold_left (fun (acc : pres pstate) (ri : rel_in) =>
                                 match acc with PErr e => PErr e | POk s1 => remove_spenders own s1 (ri_prev ri) end) ins acc)).
  { induction ins as [|ri ins IH]; intros acc Hacc; cbn [fold_left]; [exact Hacc|].
    apply IH. destruct acc as [s1|e]; [|exact I]. apply remove_spenders_frame. exact Hacc. }
  specialize (H (rr_ins r) (POk s) Hs).
  destruct (fold_left _ (rr_ins r) (POk s)) as [s2|e]; [|exact I]. exact H.
Qed.

Lemma purge_coinbase_frame :
  forall own ops s0 s, same_mined s0 s -> okp (same_mined s0) (purge_coinbase own s ops).
Proof.
  intros own ops s0 s Hs. unfold purge_coinbase.
  assert (Hacc0 : okp (same_mined s0) (POk s)) by exact Hs. revert Hacc0.
  generalize (POk s). induction ops as [|o ops IH]; intros acc Hacc; cbn [fold_left]; [exact Hacc|].
  apply IH. destruct acc as [s1|e]; [|exact I]. apply remove_spenders_frame. exact Hacc.
Qed.

(* ================================================================ the ordering invariant along a history *)

Definition blocks_ordered (s : pstate) : Prop :=
  forall r t, In r (ps_blocks s) -> In t (br_txs r) -> tx_ordered t.

Definition pinv (s : pstate) : Prop := ui_ordered (ps_uinputs s) /\ blocks_ordered s.

Lemma filter_ins_unmined_prev :
  forall own lk ins i l, filter_ins_unmined own lk ins i = Ok l -> forall ri, In ri l -> In (ri_prev ri) ins.
Proof.
  intros own lk ins. induction ins as [|[ph pv] rest IH]; intros i l H ri Hri; cbn in H.
  - inversion H; subst. destruct Hri.
  - destruct (lk ph) as [pt|]; [|discriminate].
    destruct (nth_error (t_outs pt) (N.to_nat pv)) as [o|]; [|discriminate].
    assert (Hc : forall l', filter_ins_unmined own lk rest (i + 1)%N = Ok l' -> In ri l' -> In (ri_prev ri) ((ph, pv) :: rest)).
    { intros l' Hl' Hin. right. eapply IH; eauto. }
    destruct (o_class o); try (eapply Hc; eauto; fail);
      (destruct (own (o_sh o)) as [w|]; [|eapply Hc; eauto];
       destruct (filter_ins_unmined own lk rest (i + 1)%N) as [l'|e] eqn:E; [|discriminate];
       inversion H; subst l; destruct Hri as [<-|Hri]; [left; reflexivity|right; eapply IH; eauto]).
Qed.

Lemma fold_append_ordered :
  forall (A : Type) (f : A -> outp) (h : N) (xs : list A) ui,
    ui_ordered ui -> (forall x, In x xs -> (fst (f x) < h)%N) ->
    ui_ordered (fold_left (fun ui x => ui_append ui (f x) h) xs ui).
Proof.
  intros A f h xs. induction xs as [|x xs IH]; intros ui Ho Hx; cbn [fold_left]; [exact Ho|].
  apply IH.
  - apply ui_ordered_append; [exact Ho|]. apply Hx. left. reflexivity.
  - intros y Hy. apply Hx. right. exact Hy.
Qed.

Lemma receive_store_pinv :
  forall p own n s t s', tx_ordered t -> pinv s -> receive_store p own n s t = POk (Some s') -> pinv s'.
Proof.
  intros p own n s t s' Ht [Ho Hb] H.
  destruct (receive_store_shape _ _ _ _ _ _ H) as (Ecb & ins & Eins & Hs). cbv zeta in Hs.
  destruct Hs as (_ & B & _ & _ & E).
  assert (Hins : forall ri, In ri ins -> (fst (ri_prev ri) < t_id t)%N).
  { intros ri Hri. apply Ht. eapply filter_ins_unmined_prev; eauto. }
  split.
  - unfold ui_ordered. rewrite E. destruct (um_get (ps_unmined s) (t_id t)); [exact Ho|].
    destruct (tx_recorded s (t_id t)); [exact Ho|]. unfold inserted. cbn [ps_uinputs set_uinputs set_unmined].
    apply (fold_append_ordered rel_in ri_prev); assumption.
  - intros r0 t0 Hr0 Ht0. rewrite B in Hr0.
    destruct (um_get (ps_unmined s) (t_id t)); [exact (Hb r0 t0 Hr0 Ht0)|].
    destruct (tx_recorded s (t_id t)); exact (Hb r0 t0 Hr0 Ht0).
Qed.

Lemma br_add_in :
  forall l h bid t r t', In r (br_add l h bid t) -> In t' (br_txs r) ->
    t' = t \/ exists r0, In r0 l /\ In t' (br_txs r0).
Proof.
  induction l as [|r0 l IH]; intros h bid t r t' Hr Ht; cbn in Hr.
  - destruct Hr as [E|[]]. subst r. cbn in Ht. destruct Ht as [E|[]]. left. symmetry. exact E.
  - destruct (br_height r0 =? h).
    + destruct Hr as [E|Hr].
      * subst r. cbn in Ht. apply in_app_or in Ht. destruct Ht as [Ht|[E|[]]].
        -- right. exists r0. split; [left; reflexivity|exact Ht].
        -- left. symmetry. exact E.
      * right. exists r. split; [right; exact Hr|exact Ht].
    + destruct Hr as [E|Hr].
      * subst r. right. exists r0. split; [left; reflexivity|exact Ht].
      * destruct (IH h bid t r t' Hr Ht) as [E|[r1 [H1 H2]]]; [left; exact E|right; exists r1; split; [right; exact H1|exact H2]].
Qed.

Lemma add_game_frame :
  forall outs s tid h, ps_uinputs (add_game s tid h outs) = ps_uinputs s /\ ps_blocks (add_game s tid h outs) = ps_blocks s /\
                       ps_unmined (add_game s tid h outs) = ps_unmined s /\ ps_w (add_game s tid h outs) = ps_w s /\
                       ps_ucredits (add_game s tid h outs) = ps_ucredits s.
Proof.
  induction outs as [|ro outs IH]; intros s tid h; cbn; [repeat split|].
  destruct (game_kind (o_class (ro_out ro))).
  - destruct (IH (set_game (set_ugame s (ug_del (ps_ugame s) {| ug_wallet := ro_wallet ro; ug_binding := b; ug_tx := tid; ug_vout := ro_index ro |}))
                           (g_put (ps_game s) (mk_grow (ro_wallet ro) b false tid h (ro_index ro)))) tid h) as (A & B & C & D & E).
    unfold add_game in *. rewrite A, B, C, D, E. repeat split.
  - apply IH.
Qed.

Lemma settle_frame : forall s t, ps_uinputs (settle s t) = ps_uinputs s /\ ps_blocks (settle s t) = ps_blocks s.
Proof. intros s t. unfold settle. destruct (um_get (ps_unmined s) (t_id t)); split; reflexivity. Qed.

Lemma withdraw_ins_no_fuel : forall ins cs g t h, withdraw_ins cs g t h ins <> PErr EOutOfFuel.
Proof.
  induction ins as [|ri ins IH]; intros cs g t h; cbn; [discriminate|].
  destruct (find_unspent cs (ri_wallet ri) (ri_prev ri)) as [c|]; [|discriminate].
  destruct (spend_credit cs (ri_wallet ri) (ri_prev ri) (t_id t, ri_index ri, h)) as [cs'|]; [|discriminate].
  destruct (game_kind (c_class c)); [|apply IH].
  destruct (g_mem _ g); [apply IH|discriminate].
Qed.

(* AddRelevantTx for a mined record: never out of fuel, and the ordering invariant is kept *)
Lemma p_apply_rec_pinv :
  forall p own h bid s r, tx_ordered (rr_tx r) -> pinv s ->
    match p_apply_rec p own h bid s r with
    | PErr EOutOfFuel => False
    | PErr _ => True
    | POk s' => pinv s'
    end.
Proof.
  intros p own h bid s r Ht [Ho Hb]. unfold p_apply_rec.
  set (s0 := set_blocks s (br_add (ps_blocks s) h bid (rr_tx r))).
  assert (Hb0 : blocks_ordered s0).
  { intros r0 t0 Hr0 Ht0. cbn in Hr0. destruct (br_add_in _ _ _ _ _ _ Hr0 Ht0) as [->|[r1 [H1 H2]]]; [exact Ht|exact (Hb r1 t0 H1 H2)]. }
  pose proof (withdraw_ins_no_fuel (rr_ins r) (credits (ps_w s0)) (ps_game s0) (rr_tx r) h) as Hwf.
  destruct (withdraw_ins (credits (ps_w s0)) (ps_game s0) (rr_tx r) h (rr_ins r)) as [[cs1 g1]|e]; [|destruct e; try exact I; congruence].
  set (s1 := settle (set_game (set_credits s0 cs1) g1) (rr_tx r)).
  assert (Ho1 : ui_ordered (ps_uinputs s1)).
  { subst s1. destruct (settle_frame (set_game (set_credits s0 cs1) g1) (rr_tx r)) as [A _]. rewrite A. exact Ho. }
  assert (Hb1 : ps_blocks s1 = ps_blocks s0).
  { subst s1. destruct (settle_frame (set_game (set_credits s0 cs1) g1) (rr_tx r)) as [_ B]. rewrite B. reflexivity. }
  pose proof (remove_double_spends_fine own s1 r Ho1) as F.
  pose proof (remove_double_spends_frame own s1 s1 r (same_mined_refl s1)) as Fr.
  destruct (remove_double_spends own s1 r) as [s2|e]; [|destruct e; try exact I; exact F].
  destruct F as [Ho2 _]. destruct Fr as (_ & Hb2 & _).
  destruct (apply_outs p (credits (ps_w s2)) (rr_tx r) h bid (rr_outs r)) as [cs2|e]; [|exact I].
  destruct (add_game_frame (rr_outs r) (set_credits s2 cs2) (t_id (rr_tx r)) h) as (A & B & _).
  split.
  - unfold pinv, ui_ordered in *. rewrite A. exact Ho2.
  - intros r0 t0 Hr0 Ht0. rewrite B in Hr0. cbn in Hr0. rewrite Hb2, Hb1 in Hr0. exact (Hb0 r0 t0 Hr0 Ht0).
Qed.

Lemma p_apply_recs_pinv :
  forall p own h bid recs s, (forall r, In r recs -> tx_ordered (rr_tx r)) -> pinv s ->
    match p_apply_recs p own h bid s recs with
    | PErr EOutOfFuel => False
    | PErr _ => True
    | POk s' => pinv s'
    end.
Proof.
  intros p own h bid recs. induction recs as [|r recs IH]; intros s Hr Hs; cbn [p_apply_recs]; [exact Hs|].
  pose proof (p_apply_rec_pinv p own h bid s r (Hr r (or_introl eq_refl)) Hs) as H1.
  destruct (p_apply_rec p own h bid s r) as [s'|e]; [|exact H1].
  apply IH; [intros r0 H0; apply Hr; right; exact H0|exact H1].
Qed.

(* the relevant records of a block are records of its transactions *)
Lemma filter_block_txs_in :
  forall own view lk txs seen recs, filter_block_txs own view lk seen txs = Ok recs ->
    forall r, In r recs -> In (rr_tx r) txs.
Proof.
  intros own view lk txs. induction txs as [|t txs IH]; intros seen recs H r Hr; cbn in H.
  - inversion H; subst. destruct Hr.
  - destruct (filter_tx own view (seen ++ [t]) lk t) as [ot|e] eqn:Et; [|discriminate].
    destruct (filter_block_txs own view lk (seen ++ [t]) txs) as [l|e] eqn:El; [|discriminate].
    inversion H; subst recs. destruct ot as [rr|].
    + destruct Hr as [<-|Hr]; [|right; eapply IH; eauto].
      left. unfold filter_tx in Et.
      destruct (if t_cb t then Ok [] else filter_ins own view (seen ++ [t]) lk (t_ins t) 0%N) as [ins|e]; [|discriminate].
      destruct ins; destruct (filter_outs own (t_outs t) 0%N); inversion Et; reflexivity.
    + right. eapply IH; eauto.
Qed.

Definition block_ordered (b : block) : Prop := forall t, In t (b_txs b) -> tx_ordered t.

Lemma p_connect_block_pinv :
  forall p own n cum s b, block_ordered b -> pinv s ->
    match p_connect_block p own n cum s b with
    | PErr EOutOfFuel => False
    | PErr _ => True
    | POk (s', _) => pinv s'
    end.
Proof.
  intros p own n cum s b Hb Hs. unfold p_connect_block.
  destruct (filter_block_txs own (credits (ps_w s)) (lookup_pending n cum) [] (b_txs b)) as [recs|e] eqn:E; [|exact I].
  pose proof (p_apply_recs_pinv p own (b_height b) (b_id b) recs s) as H.
  specialize (H ltac:(intros r Hr; apply Hb; eapply filter_block_txs_in; eauto) Hs).
  destruct (p_apply_recs p own (b_height b) (b_id b) s recs) as [s'|e]; [|exact H].
  exact H.
Qed.

Lemma p_connect_all_pinv :
  forall p own n cum bs s, (forall b, In b bs -> block_ordered b) -> pinv s ->
    match p_connect_all p own n cum s bs with
    | PErr EOutOfFuel => False
    | PErr _ => True
    | POk (s', _) => pinv s'
    end.
Proof.
  intros p own n cum bs. induction bs as [|b bs IH]; intros s Hb Hs; cbn [p_connect_all]; [exact Hs|].
  destruct (node_at n (b_height b)) as [nb|]; [|exact I].
  destruct (negb (b_id nb =? b_id b)%N); [exact I|].
  pose proof (p_connect_block_pinv p own n cum s b (Hb b (or_introl eq_refl)) Hs) as H1.
  destruct (p_connect_block p own n cum s b) as [[s' ids]|e]; [|exact H1].
  specialize (IH s' ltac:(intros b0 H0; apply Hb; right; exact H0) H1).
  destruct (p_connect_all p own n cum s' bs) as [[s'' added]|e]; [|exact IH]. exact IH.
Qed.

(* ---- rollback *)

Definition okf {A : Type} (P : A -> Prop) (r : pres A) : Prop :=
  match r with PErr EOutOfFuel => False | PErr _ => True | POk a => P a end.

Lemma unwithdraw_ins_no_fuel : forall idx cs g tid h, unwithdraw_ins cs g tid h idx <> PErr EOutOfFuel.
Proof.
  induction idx as [|i idx IH]; intros cs g tid h; cbn; [discriminate|].
  destruct (debit_of cs tid i h) as [c|]; [|apply IH].
  destruct (game_kind (c_class c)); [|apply IH].
  destruct (g_mem _ g); [apply IH|discriminate].
Qed.

Lemma rollback_credit_fold_frame :
  forall (h : Z) mine s,
    let s' := fold_left (fun acc c =>
                let a1 := set_ucredits acc (uc_put (ps_ucredits acc)
                            {| uc_op := credit_op c; uc_amount := c_amount c; uc_sh := c_sh c;
                               uc_class := c_class c; uc_maturity := c_maturity c |}) in
                match game_kind (c_class c) with
                | Some b =>
                    set_ugame (set_game a1 (g_del (ps_game a1) (mk_grow (c_wallet c) b false (c_tx c) h (c_vout c))))
                              (ug_put (ps_ugame a1) {| ug_wallet := c_wallet c; ug_binding := b; ug_tx := c_tx c; ug_vout := c_vout c |})
                | None => a1
                end) mine s in
    ps_uinputs s' = ps_uinputs s /\ ps_blocks s' = ps_blocks s /\ ps_unmined s' = ps_unmined s /\ ps_w s' = ps_w s.
Proof.
  intros h mine. induction mine as [|c mine IH]; intros s; cbn [fold_left]; [repeat split|].
  cbv zeta in IH.
  match goal with |- context [fold_left ?f mine ?a] => destruct (IH a) as (A & B & C & D) end.
  cbv zeta. rewrite A, B, C, D. destruct (game_kind (c_class c)); repeat split.
Qed.

Lemma rollback_tx_pinv :
  forall a3fix cs h bid t acc,
    tx_ordered t -> okf (fun x => pinv (fst x)) acc ->
    okf (fun x => pinv (fst x)) (rollback_tx a3fix cs h bid acc t).
Proof.
  intros a3fix cs h bid t acc Ht Hacc. unfold rollback_tx.
  destruct acc as [[s cbops]|e]; [|exact Hacc]. cbn [okf fst] in Hacc.
  destruct (t_cb t); [exact Hacc|].
  set (s2 := set_uinputs (set_unmined s (um_put (ps_unmined s) (t_id t) (pending_value_of_rolled_back a3fix t)))
               (fold_left (fun ui o => ui_append ui o (t_id t)) (t_ins t)
                          (ps_uinputs (set_unmined s (um_put (ps_unmined s) (t_id t) (pending_value_of_rolled_back a3fix t)))))).
  pose proof (unwithdraw_ins_no_fuel (map N.of_nat (seq 0 (length (t_ins t)))) cs (ps_game s2) (t_id t) h) as Hnf.
  destruct (unwithdraw_ins cs (ps_game s2) (t_id t) h (map N.of_nat (seq 0 (length (t_ins t))))) as [g|e];
    [|destruct e; try exact I; congruence].
  cbn [okf fst].
  destruct (rollback_credit_fold_frame h (credits_at cs (t_id t) h bid) (set_game s2 g)) as (A & B & _).
  destruct Hacc as [Ho Hb]. split.
  - unfold ui_ordered in *. cbv zeta in A. rewrite A. cbn.
    apply (fold_append_ordered outp (fun o => o)); [exact Ho|exact Ht].
  - intros r0 t0 Hr0 Ht0. cbv zeta in B. rewrite B in Hr0. cbn in Hr0. exact (Hb r0 t0 Hr0 Ht0).
Qed.

Lemma rollback_move_pinv :
  forall a3fix cs s r, pinv s -> (forall t, In t (br_txs r) -> tx_ordered t) ->
    okf (fun x => pinv (fst x)) (rollback_move a3fix cs s r).
Proof.
  intros a3fix cs s r Hs Hr. unfold rollback_move.
  assert (H : forall txs acc, (forall t, In t txs -> tx_ordered t) -> okf (fun x => pinv (fst x)) acc ->
              okf (fun x => pinv (fst x)) (fold_left (rollback_tx a3fix cs (br_height r) (br_bid r)) txs acc)).
  { induction txs as [|t txs IH]; intros acc Ht Hacc; cbn [fold_left]; [exact Hacc|].
    apply IH; [intros t0 H0; apply Ht; right; exact H0|].
    apply rollback_tx_pinv; [apply Ht; left; reflexivity|exact Hacc]. }
  apply H; [intros t Ht; apply Hr; apply in_rev; exact Ht|exact Hs].
Qed.

Lemma p_rollback_one_pinv :
  forall a3fix own cs s h, pinv s -> okf pinv (p_rollback_one a3fix own cs s h).
Proof.
  intros a3fix own cs s h Hs. unfold p_rollback_one.
  destruct (find (fun r => br_height r =? h) (ps_blocks s)) as [r|] eqn:E; [|exact Hs].
  apply find_some in E. destruct E as [Hr _].
  pose proof (rollback_move_pinv a3fix cs s r Hs (fun t Ht => proj2 Hs r t Hr Ht)) as H.
  destruct (rollback_move a3fix cs s r) as [[s1 cbops]|e]; [|exact H]. cbn [okf fst] in H.
  set (s1' := set_blocks s1 (filter (fun x => negb (br_height x =? h)) (ps_blocks s1))).
  assert (H1 : pinv s1').
  { destruct H as [Ho Hb]. split; [exact Ho|]. intros r0 t0 Hr0 Ht0. cbn in Hr0. apply filter_In in Hr0.
    exact (Hb r0 t0 (proj1 Hr0) Ht0). }
  pose proof (purge_coinbase_fine own cbops s1' (proj1 H1)) as F.
  pose proof (purge_coinbase_frame own cbops s1' s1' (same_mined_refl s1')) as Fr.
  destruct (purge_coinbase own s1' cbops) as [s2|e]; [|destruct e; try exact I; exact F].
  destruct F as [Ho2 _]. destruct Fr as (_ & Hb2 & _). split; [exact Ho2|].
  intros r0 t0 Hr0 Ht0. rewrite Hb2 in Hr0. exact (proj2 H1 r0 t0 Hr0 Ht0).
Qed.

Lemma p_rollback_to_pinv :
  forall a3fix own s h, pinv s -> okf pinv (p_rollback_to a3fix own s h).
Proof.
  intros a3fix own s h Hs. unfold p_rollback_to.
  assert (H : forall ks acc, okf pinv acc ->
              okf pinv (fold_left (fun (acc : pres pstate) (k : Z) =>
                                     match acc with PErr e => PErr e | POk s1 => p_rollback_one a3fix own (credits (ps_w s)) s1 k end) ks acc)).
  { induction ks as [|k ks IH]; intros acc Hacc; cbn [fold_left]; [exact Hacc|].
    apply IH. destruct acc as [s1|e]; [|exact Hacc]. apply p_rollback_one_pinv. exact Hacc. }
  specialize (H (heights_down (fst (tip (ps_w s))) h) (POk s) Hs).
  destruct (fold_left _ (heights_down (fst (tip (ps_w s))) h) (POk s)) as [s'|e]; [|exact H].
  exact H.
Qed.

Lemma collect_in :
  forall n st fuel b acc fork bs, collect n st fuel b acc = Some (fork, bs) ->
    forall x, In x bs -> In x acc \/ x = b \/ In x n.
Proof.
  intros n st fuel. induction fuel as [|f IH]; intros b acc fork bs H x Hx; cbn in H; [discriminate|].
  destruct (match synced_at st (b_height b) with Some bid => (bid =? b_id b)%N | None => false end).
  - inversion H; subst. left. exact Hx.
  - destruct (node_block n (b_prev b)) as [pb|] eqn:E; [|discriminate].
    destruct (IH pb (b :: acc) fork bs H x Hx) as [[->|Hin]|[->|Hin]].
    + right. left. reflexivity.
    + left. exact Hin.
    + right. right. unfold node_block in E. apply find_some in E. exact (proj1 E).
    + right. right. exact Hin.
Qed.

(* processConnectedBlock never runs out of fuel and keeps the invariant *)
Theorem pprocess_pinv :
  forall p a3fix own n hs b,
    pinv (h_store hs) -> (forall b0, In b0 (b :: n) -> block_ordered b0) ->
    okf (fun hs' => pinv (h_store hs')) (pprocess p a3fix own n hs b).
Proof.
  intros p a3fix own n hs b Hs Hb. unfold pprocess.
  destruct (snd (tip (ps_w (h_store hs))) =? b_prev b)%N.
  - pose proof (p_connect_all_pinv p own n (ps_unmined (h_store hs)) [b] (h_store hs)) as H.
    specialize (H ltac:(intros b0 [<-|[]]; apply Hb; left; reflexivity) Hs).
    destruct (p_connect_all p own n (ps_unmined (h_store hs)) (h_store hs) [b]) as [[s' added]|e]; [|exact H]. exact H.
  - destruct (collect n (ps_w (h_store hs)) (S (Z.to_nat (b_height b))) b []) as [[fork bs]|] eqn:Ec; [|exact I].
    pose proof (p_rollback_to_pinv a3fix own (h_store hs) (fork + 1) Hs) as H1.
    destruct (p_rollback_to a3fix own (h_store hs) (fork + 1)) as [s1|e]; [|exact H1].
    pose proof (p_connect_all_pinv p own n (ps_unmined (h_store hs)) bs s1) as H.
    assert (Hbs : forall b0, In b0 bs -> block_ordered b0).
    { intros b0 H0. destruct (collect_in _ _ _ _ _ _ _ Ec b0 H0) as [[]|[->|Hin]]; apply Hb; [left; reflexivity|right; exact Hin]. }
    specialize (H Hbs H1).
    destruct (p_connect_all p own n (ps_unmined (h_store hs)) s1 bs) as [[s' added]|e]; [|exact H]. exact H.
Qed.

(* histories in which every transaction spends outputs of earlier transactions only *)
Definition event_ordered (e : pevent) : Prop :=
  match e with
  | PvAttach b => block_ordered b
  | PvProcess b => block_ordered b
  | PvReceive t => tx_ordered t
  | _ => True
  end.

Definition node_ordered (n : node) : Prop := forall b, In b n -> block_ordered b.

Lemma removelast_in : forall (A : Type) (l : list A) x, In x (removelast l) -> In x l.
Proof.
  intros A l. induction l as [|a l IH]; intros x H; cbn in H; [destruct H|].
  destruct l as [|b l]; [destruct H|]. destruct H as [<-|H]; [left; reflexivity|right; apply IH; exact H].
Qed.

Lemma pstep_pinv :
  forall p a3fix s e, event_ordered e ->
    node_ordered (q_node s) /\ pinv (h_store (q_h s)) ->
    node_ordered (q_node (pstep p a3fix s e)) /\ pinv (h_store (q_h (pstep p a3fix s e))).
Proof.
  intros p a3fix s e He [Hn Hs]. destruct e; cbn [pstep q_node q_h]; try (split; assumption).
  - split; [|exact Hs]. intros b0 H0. apply in_app_or in H0. destruct H0 as [H0|[<-|[]]]; [exact (Hn b0 H0)|exact He].
  - split; [|exact Hs]. intros b0 H0. apply Hn. apply removelast_in. exact H0.
  - split; [exact Hn|]. unfold pprocess_or_keep.
    pose proof (pprocess_pinv p a3fix (own_of (q_own s)) (q_node s) (q_h s) b Hs) as H.
    specialize (H ltac:(intros b0 [<-|H0]; [exact He|exact (Hn b0 H0)])).
    destruct (pprocess p a3fix (own_of (q_own s)) (q_node s) (q_h s) b); [exact H|exact Hs].
  - split; [exact Hn|]. unfold receive_tx. destruct (mem_n (t_id t) (h_mempool (q_h s))); [exact Hs|].
    destruct (receive_store p (own_of (q_own s)) (q_node s) (h_store (q_h s)) t) as [[s'|]|e] eqn:E; cbn; try exact Hs.
    eapply receive_store_pinv; eauto.
Qed.

Theorem prun_pinv :
  forall p a3fix g evs, block_ordered g -> Forall event_ordered evs ->
    let s := prun p a3fix g evs in
    node_ordered (q_node s) /\ pinv (h_store (q_h s)).
Proof.
  intros p a3fix g evs Hg Hev. cbv zeta. unfold prun.
  assert (H0 : node_ordered (q_node (init_psim g)) /\ pinv (h_store (q_h (init_psim g)))).
  { split.
    - intros b [<-|[]]. exact Hg.
    - split; [intros o sp []|intros r t []]. }
  revert H0. generalize (init_psim g). induction Hev as [|e evs He Hev IH]; intros s Hs; cbn [fold_left]; [exact Hs|].
  apply IH. apply pstep_pinv; assumption.
Qed.

(* the conflict recursion never runs out of fuel, in any state a history can reach and for any block
   announced then *)
Theorem process_never_out_of_fuel :
  forall p a3fix g evs b, block_ordered g -> Forall event_ordered evs -> block_ordered b ->
    let s := prun p a3fix g evs in
    pprocess p a3fix (own_of (q_own s)) (q_node s) (q_h s) b <> PErr EOutOfFuel.
Proof.
  intros p a3fix g evs b Hg Hev Hb. cbv zeta.
  destruct (prun_pinv p a3fix g evs Hg Hev) as [Hn Hs]. intros E.
  pose proof (pprocess_pinv p a3fix (own_of (q_own (prun p a3fix g evs))) (q_node (prun p a3fix g evs)) (q_h (prun p a3fix g evs)) b Hs) as H.
  specialize (H ltac:(intros b0 [<-|H0]; [exact Hb|exact (Hn b0 H0)])).
  rewrite E in H. exact H.
Qed.

(* ================================================================ conflict removal and settling only delete pending records *)

Lemma um_get_del : forall l h h', um_get (um_del l h) h' = if (h =? h')%N then None else um_get l h'.
Proof.
  intros l h h'. unfold um_get, um_del. induction l as [|e l IH]; cbn [filter find].
  - destruct (h =? h')%N; reflexivity.
  - destruct (fst e =? h)%N eqn:E1; cbn [negb find].
    + apply N.eqb_eq in E1. destruct (fst e =? h')%N eqn:E2.
      * apply N.eqb_eq in E2. assert (E3 : (h =? h')%N = true) by (apply N.eqb_eq; congruence). rewrite E3 in *. exact IH.
      * exact IH.
    + destruct (fst e =? h')%N eqn:E2.
      * apply N.eqb_eq in E2. assert (E3 : (h =? h')%N = false).
        { apply N.eqb_neq. intros ->. apply N.eqb_neq in E1. congruence. }
        rewrite E3. reflexivity.
      * exact IH.
Qed.

Lemma uc_get_del : forall l o o', uc_get (uc_del l o) o' = if op_eqb o o' then None else uc_get l o'.
Proof.
  intros l o o'. unfold uc_get, uc_del. induction l as [|e l IH]; cbn [filter find].
  - destruct (op_eqb o o'); reflexivity.
  - destruct (op_eqb (uc_op e) o) eqn:E1; cbn [negb find].
    + apply op_eqb_eq in E1. destruct (op_eqb (uc_op e) o') eqn:E2.
      * apply op_eqb_eq in E2. assert (E3 : op_eqb o o' = true) by (apply op_eqb_eq; congruence). rewrite E3 in *. exact IH.
      * exact IH.
    + destruct (op_eqb (uc_op e) o') eqn:E2.
      * apply op_eqb_eq in E2. assert (E3 : op_eqb o o' = false).
        { destruct (op_eqb o o') eqn:E4; [|reflexivity]. apply op_eqb_eq in E4.
          assert (op_eqb (uc_op e) o = true) by (apply op_eqb_eq; congruence). congruence. }
        rewrite E3. reflexivity.
      * exact IH.
Qed.

Definition shrinks (s0 s' : pstate) : Prop :=
  (forall h v, um_get (ps_unmined s') h = Some v -> um_get (ps_unmined s0) h = Some v) /\
  (forall o c, uc_get (ps_ucredits s') o = Some c -> uc_get (ps_ucredits s0) o = Some c) /\
  (forall o sp, In sp (ui_get (ps_uinputs s') o) -> In sp (ui_get (ps_uinputs s0) o)).

Lemma shrinks_refl : forall s, shrinks s s.
Proof. intros s. repeat split; auto. Qed.

Lemma shrinks_trans : forall a b c, shrinks a b -> shrinks b c -> shrinks a c.
Proof.
  intros a b c (A1 & A2 & A3) (B1 & B2 & B3). repeat split; intros.
  - apply A1. apply B1. assumption.
  - apply A2. apply B2. assumption.
  - apply A3. apply B3. assumption.
Qed.

Lemma del_inputs_sub : forall t h l o sp, In sp (ui_get (del_inputs_of l t h) o) -> In sp (ui_get l o).
Proof.
  intros t h. unfold del_inputs_of. generalize (t_ins t). intros ins. induction ins as [|k ins IH]; intros l o sp H; cbn [fold_left] in H; [exact H|].
  apply IH in H. eapply ui_remove_sub. exact H.
Qed.

(* after deleteUnminedInputs the transaction is registered under none of its inputs *)
Lemma del_inputs_unregisters : forall t h l o, In o (t_ins t) -> ~ In h (ui_get (del_inputs_of l t h) o).
Proof.
  intros t h. unfold del_inputs_of. generalize (t_ins t). intros ins. induction ins as [|k ins IH]; intros l o Ho; [destruct Ho|].
  cbn [fold_left]. destruct Ho as [->|Ho]; [|apply IH; exact Ho].
  intros Hin.
  assert (G : forall ins0 l0, In h (ui_get (fold_left (fun acc o0 => ui_remove acc o0 h) ins0 l0) o) -> In h (ui_get l0 o)).
  { induction ins0 as [|k0 ins0 IH0]; intros l0 H0; cbn [fold_left] in H0; [exact H0|]. apply IH0 in H0. eapply ui_remove_sub. exact H0. }
  apply G in Hin. rewrite ui_get_remove, op_eqb_refl in Hin. apply filter_In in Hin. destruct Hin as [_ E].
  rewrite N.eqb_refl in E. discriminate.
Qed.

Lemma remove_conflict_shrinks :
  forall fuel own s0 s h t, shrinks s0 s -> okp (shrinks s0) (remove_conflict fuel own s h t).
Proof.
  induction fuel as [|f IH]; intros own s0 s h t Hs; [exact I|].
  cbn [remove_conflict].
  match goal with |- okp _ (match fold_left ?po _ _ with _ => _ end) => set (per_out := po) end.
  assert (Hfold : forall idx acc, okp (shrinks s0) acc -> okp (shrinks s0) (fold_left per_out idx acc)).
  { induction idx as [|i idx IHi]; intros acc Hacc; cbn [fold_left]; [exact Hacc|].
    apply IHi. destruct acc as [s1|e]; [|exact I]. unfold per_out.
    match goal with |- okp _ (match ?F with _ => _ end) => assert (Hin : okp (shrinks s0) F) end.
    { apply (fold_spenders_pres (shrinks s0) (fun s2 sp st => remove_conflict f own s2 sp st)).
      - intros s2 sp st H2. apply IH. exact H2.
      - exact Hacc. }
    match goal with |- okp _ (match ?F with _ => _ end) => destruct F as [s3|e] end; [|exact I].
    cbn [okp] in *. destruct Hin as (A & B & C). repeat split; auto.
    intros o c Hc. cbn [ps_unmined ps_uinputs ps_ucredits set_unmined set_ugame set_uinputs set_ucredits set_game set_w set_blocks] in Hc. rewrite uc_get_del in Hc. destruct (op_eqb (h, i) o); [discriminate|]. apply B. exact Hc. }
  specialize (Hfold (out_indexes t) (POk s) Hs).
  destruct (fold_left per_out (out_indexes t) (POk s)) as [s4|e]; [|exact I].
  cbn [okp] in *. destruct Hfold as (A & B & C). repeat split.
  - intros h' v Hv. cbn [ps_unmined ps_uinputs ps_ucredits set_unmined set_ugame set_uinputs set_ucredits set_game set_w set_blocks] in Hv. rewrite um_get_del in Hv. destruct (h =? h')%N; [discriminate|]. apply A. exact Hv.
  - intros o c Hc. cbn [ps_unmined ps_uinputs ps_ucredits set_unmined set_ugame set_uinputs set_ucredits set_game set_w set_blocks] in Hc. apply B. exact Hc.
  - intros o sp Hsp. cbn [ps_unmined ps_uinputs ps_ucredits set_unmined set_ugame set_uinputs set_ucredits set_game set_w set_blocks] in Hsp. apply C. eapply del_inputs_sub. exact Hsp.
Qed.

Lemma remove_spenders_shrinks :
  forall own s0 s k, shrinks s0 s -> okp (shrinks s0) (remove_spenders own s k).
Proof.
  intros own s0 s k Hs. unfold remove_spenders.
  apply (fold_spenders_pres (shrinks s0) (fun s2 sp st => remove_conflict (conflict_fuel s2) own s2 sp st)).
  - intros s2 sp st H2. apply remove_conflict_shrinks. exact H2.
  - exact Hs.
Qed.

Lemma remove_double_spends_shrinks :
  forall own s0 s r, shrinks s0 s -> okp (shrinks s0) (remove_double_spends own s r).
Proof.
  intros own s0 s r Hs. unfold remove_double_spends.
  assert (H : forall ins acc, okp (shrinks s0) acc ->
            okp (shrinks s0) (fold_left (fun (acc : pres pstate) (ri : rel_in) =>
                                 match acc with PErr e => PErr e | POk s1 => remove_spenders own s1 (ri_prev ri) end) ins acc)).
  { induction ins as [|ri ins IH]; intros acc Hacc; cbn [fold_left]; [exact Hacc|].
    apply IH. destruct acc as [s1|e]; [|exact I]. apply remove_spenders_shrinks. exact Hacc. }
  specialize (H (rr_ins r) (POk s) Hs).
  destruct (fold_left _ (rr_ins r) (POk s)) as [s2|e]; [|exact I].
  cbn [okp] in *. destruct H as (A & B & C). repeat split; auto.
  intros o sp Hsp. cbn [ps_unmined ps_uinputs ps_ucredits set_unmined set_ugame set_uinputs set_ucredits set_game set_w set_blocks] in Hsp. apply C. eapply del_inputs_sub. exact Hsp.
Qed.

Lemma purge_coinbase_shrinks :
  forall own ops s0 s, shrinks s0 s -> okp (shrinks s0) (purge_coinbase own s ops).
Proof.
  intros own ops s0 s Hs. unfold purge_coinbase.
  assert (Hacc0 : okp (shrinks s0) (POk s)) by exact Hs. revert Hacc0.
  generalize (POk s). induction ops as [|o ops IH]; intros acc Hacc; cbn [fold_left]; [exact Hacc|].
  apply IH. destruct acc as [s1|e]; [|exact I]. apply remove_spenders_shrinks. exact Hacc.
Qed.

(* after removeConflict the transaction is gone from the unmined bucket, none of its inputs is
   registered any more and it has no unmined credit left *)
Theorem remove_conflict_removes :
  forall fuel own s h t s', remove_conflict fuel own s h t = POk s' ->
    um_get (ps_unmined s') h = None /\
    (forall o, In o (t_ins t) -> ~ In h (ui_get (ps_uinputs s') o)) /\
    (forall i, In i (out_indexes t) -> uc_get (ps_ucredits s') (h, i) = None).
Proof.
  intros fuel own s h t s' H. destruct fuel as [|f]; [discriminate|]. cbn [remove_conflict] in H.
  match type of H with (match fold_left ?po _ _ with _ => _ end) = _ => set (per_out := po) in * end.
  (* unmined credits of the outputs processed so far are gone and stay gone *)
  assert (Hfold : forall idx acc s4, fold_left per_out idx acc = POk s4 ->
            forall done_, (forall s1, acc = POk s1 -> forall i, In i done_ -> uc_get (ps_ucredits s1) (h, i) = None) ->
            forall i, In i (done_ ++ idx) -> uc_get (ps_ucredits s4) (h, i) = None).
  { induction idx as [|j idx IHi]; intros acc s4 Hf done_ Hd i Hi; cbn [fold_left] in Hf.
    - rewrite app_nil_r in Hi. exact (Hd s4 Hf i Hi).
    - apply (IHi (per_out acc j) s4 Hf (done_ ++ [j])); [|rewrite <- app_assoc; exact Hi].
      intros s1' E i0 Hi0. destruct acc as [s1|e]; [|discriminate]. unfold per_out in E.
      match type of E with (match ?F with _ => _ end) = _ => destruct F as [s3|e] eqn:EF end; [|discriminate].
      inversion E; subst s1'. cbn [ps_unmined ps_uinputs ps_ucredits set_unmined set_ugame set_uinputs set_ucredits set_game set_w set_blocks]. rewrite uc_get_del.
      destruct (op_eqb (h, j) (h, i0)) eqn:Eq; [reflexivity|].
      apply in_app_or in Hi0. destruct Hi0 as [Hi0|[<-|[]]]; [|rewrite op_eqb_refl in Eq; discriminate].
      pose proof (fold_spenders_pres (shrinks s1) (fun s2 sp st => remove_conflict f own s2 sp st)
                    (fun s2 sp st H2 => remove_conflict_shrinks f own s1 s2 sp st H2)
                    (ui_get (ps_uinputs s1) (h, j)) (POk s1) (shrinks_refl s1)) as Sh.
      cbv beta in Sh. rewrite EF in Sh. cbn [okp] in Sh. destruct Sh as (_ & B & _).
      destruct (uc_get (ps_ucredits s3) (h, i0)) as [c|] eqn:Ec; [|reflexivity].
      apply B in Ec. rewrite (Hd s1 eq_refl i0 Hi0) in Ec. discriminate. }
  destruct (fold_left per_out (out_indexes t) (POk s)) as [s4|e] eqn:E4; [|discriminate].
  inversion H; subst s'. cbn [ps_unmined ps_uinputs ps_ucredits set_unmined set_ugame set_uinputs set_ucredits set_game set_w set_blocks]. split; [|split].
  - rewrite um_get_del, N.eqb_refl. reflexivity.
  - intros o Ho. apply del_inputs_unregisters. exact Ho.
  - intros i Hi. apply (Hfold (out_indexes t) (POk s) s4 E4 []); [intros s1 _ i0 []|exact Hi].
Qed.

(* ================================================================ the mined side evolves independently of the pending side *)

Record mstate := { m_w : wstate; m_blocks : list brec; m_game : list grow }.
Definition mined (s : pstate) : mstate := {| m_w := ps_w s; m_blocks := ps_blocks s; m_game := ps_game s |}.

Definition add_game_rows (g : list grow) (tid : N) (h : Z) (outs : list rel_out) : list grow :=
  fold_left (fun acc ro => match game_kind (o_class (ro_out ro)) with
                           | Some b => g_put acc (mk_grow (ro_wallet ro) b false tid h (ro_index ro))
                           | None => acc
                           end) outs g.

(* AddRelevantTx restricted to credits, block records and mined deposit rows *)
Definition m_apply_rec (p : params) (h : Z) (bid : N) (m : mstate) (r : relrec) : option mstate :=
  match withdraw_ins (credits (m_w m)) (m_game m) (rr_tx r) h (rr_ins r) with
  | PErr _ => None
  | POk (cs1, g1) =>
      match apply_outs p cs1 (rr_tx r) h bid (rr_outs r) with
      | Err _ => None
      | Ok cs2 => Some {| m_w := {| credits := cs2; synced := synced (m_w m) |};
                          m_blocks := br_add (m_blocks m) h bid (rr_tx r);
                          m_game := add_game_rows g1 (t_id (rr_tx r)) h (rr_outs r) |}
      end
  end.

Fixpoint m_apply_recs (p : params) (h : Z) (bid : N) (m : mstate) (recs : list relrec) : option mstate :=
  match recs with
  | [] => Some m
  | r :: rest => match m_apply_rec p h bid m r with None => None | Some m' => m_apply_recs p h bid m' rest end
  end.

Definition m_connect_block (p : params) (own : owner_fn) (n : node) (m : mstate) (b : block) : option (mstate * list N) :=
  match filter_block_txs own (credits (m_w m)) (node_tx n) [] (b_txs b) with
  | Err _ => None
  | Ok recs =>
      match m_apply_recs p (b_height b) (b_id b) m recs with
      | None => None
      | Some m' => Some ({| m_w := {| credits := credits (m_w m'); synced := (b_height b, b_id b) :: synced (m_w m') |};
                            m_blocks := m_blocks m'; m_game := m_game m' |},
                         map (fun r => t_id (rr_tx r)) recs)
      end
  end.

Lemma add_game_game :
  forall outs s tid h, ps_game (add_game s tid h outs) = add_game_rows (ps_game s) tid h outs.
Proof.
  induction outs as [|ro outs IH]; intros s tid h; [reflexivity|].
  unfold add_game, add_game_rows in *. cbn [fold_left]. destruct (game_kind (o_class (ro_out ro))).
  - rewrite IH. reflexivity.
  - apply IH.
Qed.

Lemma settle_mined : forall s t, mined (settle s t) = mined s.
Proof. intros s t. unfold settle. destruct (um_get (ps_unmined s) (t_id t)); reflexivity. Qed.

Lemma p_apply_rec_mined :
  forall p own h bid s r s', p_apply_rec p own h bid s r = POk s' -> m_apply_rec p h bid (mined s) r = Some (mined s').
Proof.
  intros p own h bid s r s' H. unfold p_apply_rec in H. unfold m_apply_rec. cbn [mined m_w m_game m_blocks].
  set (s0 := set_blocks s (br_add (ps_blocks s) h bid (rr_tx r))) in *.
  change (credits (ps_w s0)) with (credits (ps_w s)) in H. change (ps_game s0) with (ps_game s) in H.
  destruct (withdraw_ins (credits (ps_w s)) (ps_game s) (rr_tx r) h (rr_ins r)) as [[cs1 g1]|e]; [|discriminate].
  set (s1 := settle (set_game (set_credits s0 cs1) g1) (rr_tx r)) in *.
  pose proof (remove_double_spends_frame own s1 s1 r (same_mined_refl s1)) as Fr.
  destruct (remove_double_spends own s1 r) as [s2|e]; [|discriminate]. cbn [okp] in Fr. destruct Fr as (Fw & Fb & Fg).
  assert (M1 : mined s1 = mined (set_game (set_credits s0 cs1) g1)) by apply settle_mined.
  assert (Ew : ps_w s2 = {| credits := cs1; synced := synced (ps_w s) |}).
  { rewrite Fw. change (ps_w s1) with (m_w (mined s1)). rewrite M1. reflexivity. }
  rewrite Ew in H. cbn [credits] in H.
  destruct (apply_outs p cs1 (rr_tx r) h bid (rr_outs r)) as [cs2|e]; [|discriminate].
  inversion H; subst s'. unfold mined.
  destruct (add_game_frame (rr_outs r) (set_credits s2 cs2) (t_id (rr_tx r)) h) as (_ & B & _ & D & _).
  rewrite B, D, add_game_game. cbn [set_credits set_w ps_w ps_blocks ps_game].
  rewrite Ew, Fb, Fg. cbn [synced].
  change (ps_blocks s1) with (m_blocks (mined s1)). change (ps_game s1) with (m_game (mined s1)). rewrite M1. reflexivity.
Qed.

Lemma p_apply_recs_mined :
  forall p own h bid recs s s', p_apply_recs p own h bid s recs = POk s' -> m_apply_recs p h bid (mined s) recs = Some (mined s').
Proof.
  intros p own h bid recs. induction recs as [|r recs IH]; intros s s' H; cbn in H |- *.
  - inversion H. reflexivity.
  - destruct (p_apply_rec p own h bid s r) as [s1|e] eqn:E; [|discriminate].
    rewrite (p_apply_rec_mined _ _ _ _ _ _ _ E). apply IH. exact H.
Qed.

(* ---- the relevant records do not depend on the pending set when the node knows the previous transactions *)

Lemma filter_ins_ext :
  forall own view inblk lk1 lk2 ins i,
    (forall o, In o ins -> lk1 (fst o) = lk2 (fst o)) ->
    filter_ins own view inblk lk1 ins i = filter_ins own view inblk lk2 ins i.
Proof.
  intros own view inblk lk1 lk2 ins. induction ins as [|[ph pv] rest IH]; intros i H; [reflexivity|].
  cbn [filter_ins]. rewrite (IH (i + 1)%N) by (intros o Ho; apply H; right; exact Ho).
  pose proof (H (ph, pv) (or_introl eq_refl)) as E. cbn [fst] in E. rewrite E. reflexivity.
Qed.

Definition node_knows (n : node) (b : block) : Prop :=
  forall t o, In t (b_txs b) -> In o (t_ins t) -> node_tx n (fst o) <> None.

Lemma filter_block_txs_ext :
  forall own view lk1 lk2 txs seen,
    (forall t o, In t txs -> In o (t_ins t) -> lk1 (fst o) = lk2 (fst o)) ->
    filter_block_txs own view lk1 seen txs = filter_block_txs own view lk2 seen txs.
Proof.
  intros own view lk1 lk2 txs. induction txs as [|t txs IH]; intros seen H; [reflexivity|].
  cbn [filter_block_txs]. rewrite (IH (seen ++ [t])) by (intros t0 o H0 Ho; eapply H; [right; exact H0|exact Ho]).
  unfold filter_tx. rewrite (filter_ins_ext own view (seen ++ [t]) lk1 lk2 (t_ins t) 0%N) by (intros o Ho; eapply H; [left; reflexivity|exact Ho]).
  reflexivity.
Qed.

Lemma lookup_pending_known : forall n cum h, node_tx n h <> None -> lookup_pending n cum h = node_tx n h.
Proof. intros n cum h H. unfold lookup_pending. destruct (node_tx n h); [reflexivity|contradiction]. Qed.

Theorem p_connect_block_mined :
  forall p own n cum s b s' ids, node_knows n b ->
    p_connect_block p own n cum s b = POk (s', ids) ->
    m_connect_block p own n (mined s) b = Some (mined s', ids).
Proof.
  intros p own n cum s b s' ids Hk H. unfold p_connect_block in H. unfold m_connect_block. cbn [mined m_w].
  rewrite (filter_block_txs_ext own (credits (ps_w s)) (lookup_pending n cum) (node_tx n) (b_txs b) []) in H
    by (intros t o Ht Ho; apply lookup_pending_known; eapply Hk; eauto).
  destruct (filter_block_txs own (credits (ps_w s)) (node_tx n) [] (b_txs b)) as [recs|e]; [|discriminate].
  destruct (p_apply_recs p own (b_height b) (b_id b) s recs) as [s1|e] eqn:E; [|discriminate].
  rewrite (p_apply_recs_mined _ _ _ _ _ _ _ E). inversion H; subst. reflexivity.
Qed.

(* the ledger part of the mined side is exactly C01's connect_block (Model.v) *)
Lemma withdraw_ins_apply_ins :
  forall ins cs g t h cs' g', withdraw_ins cs g t h ins = POk (cs', g') -> apply_ins cs t h ins = Ok cs'.
Proof.
  induction ins as [|ri ins IH]; intros cs g t h cs' g' H; cbn in H |- *.
  - inversion H. reflexivity.
  - destruct (find_unspent cs (ri_wallet ri) (ri_prev ri)) as [c|]; [|discriminate].
    destruct (spend_credit cs (ri_wallet ri) (ri_prev ri) (t_id t, ri_index ri, h)) as [cs1|]; [|discriminate].
    destruct (game_kind (c_class c)).
    + destruct (g_mem _ g); [|discriminate]. eapply IH; eauto.
    + eapply IH; eauto.
Qed.

Lemma m_apply_recs_ledger :
  forall p h bid recs m m', m_apply_recs p h bid m recs = Some m' ->
    apply_recs p (credits (m_w m)) h bid recs = Ok (credits (m_w m')) /\ synced (m_w m') = synced (m_w m).
Proof.
  intros p h bid recs. induction recs as [|r recs IH]; intros m m' H; cbn in H |- *.
  - inversion H. split; reflexivity.
  - unfold m_apply_rec in H.
    destruct (withdraw_ins (credits (m_w m)) (m_game m) (rr_tx r) h (rr_ins r)) as [[cs1 g1]|e] eqn:E1; [|discriminate].
    rewrite (withdraw_ins_apply_ins _ _ _ _ _ _ _ E1).
    destruct (apply_outs p cs1 (rr_tx r) h bid (rr_outs r)) as [cs2|e]; [|discriminate].
    destruct (IH _ _ H) as [A B]. cbn in A, B. split; assumption.
Qed.

Theorem m_connect_block_is_model :
  forall p own n m b m' ids, m_connect_block p own n m b = Some (m', ids) ->
    connect_block p true own (credits (m_w m)) (node_tx n) (m_w m) b = Ok (m_w m').
Proof.
  intros p own n m b m' ids H. unfold m_connect_block in H. unfold connect_block.
  destruct (filter_block_txs own (credits (m_w m)) (node_tx n) [] (b_txs b)) as [recs|e]; [|discriminate].
  destruct (m_apply_recs p (b_height b) (b_id b) m recs) as [m1|] eqn:E; [|discriminate].
  destruct (m_apply_recs_ledger _ _ _ _ _ _ E) as [A B]. rewrite A. inversion H; subst. cbn. rewrite B. reflexivity.
Qed.

(* ================================================================ settling *)

Lemma settle_shrinks : forall s t, shrinks s (settle s t).
Proof.
  intros s t. unfold settle. destruct (um_get (ps_unmined s) (t_id t)); [|apply shrinks_refl].
  repeat split.
  - intros h v Hv. cbn [ps_unmined set_unmined set_ucredits] in Hv. rewrite um_get_del in Hv. destruct (t_id t =? h)%N; [discriminate|exact Hv].
  - intros o c Hc. cbn [ps_ucredits set_unmined set_ucredits] in Hc. revert Hc. generalize (ps_ucredits s). generalize (out_indexes t).
    induction l as [|i l IH]; intros ucs Hc; cbn [fold_left] in Hc; [exact Hc|].
    apply IH in Hc. rewrite uc_get_del in Hc. destruct (op_eqb (t_id t, i) o); [discriminate|exact Hc].
  - intros o sp Hsp. exact Hsp.
Qed.

Lemma fold_uc_del_none :
  forall (tid : N) l ucs o, uc_get ucs o = None ->
    uc_get (fold_left (fun acc i => uc_del acc (tid, i)) l ucs) o = None.
Proof.
  intros tid l. induction l as [|k l IH]; intros ucs o H; cbn [fold_left]; [exact H|].
  apply IH. rewrite uc_get_del. destruct (op_eqb (tid, k) o); [reflexivity|exact H].
Qed.

Lemma fold_uc_del_in :
  forall (tid : N) l ucs i, In i l ->
    uc_get (fold_left (fun acc i => uc_del acc (tid, i)) l ucs) (tid, i) = None.
Proof.
  intros tid l. induction l as [|k l IH]; intros ucs i Hi; [destruct Hi|]. cbn [fold_left].
  destruct Hi as [->|Hi]; [|apply IH; exact Hi].
  apply fold_uc_del_none. rewrite uc_get_del, op_eqb_refl. reflexivity.
Qed.

Lemma settle_settled : forall s t,
  um_get (ps_unmined s) (t_id t) <> None ->
  um_get (ps_unmined (settle s t)) (t_id t) = None /\
  forall i, In i (out_indexes t) -> uc_get (ps_ucredits (settle s t)) (t_id t, i) = None.
Proof.
  intros s t Hp. unfold settle. destruct (um_get (ps_unmined s) (t_id t)) eqn:E; [|contradiction]. split.
  - cbn [ps_unmined set_unmined set_ucredits]. rewrite um_get_del, N.eqb_refl. reflexivity.
  - intros i Hi. cbn [ps_ucredits set_unmined set_ucredits]. apply fold_uc_del_in. exact Hi.
Qed.

(* after AddRelevantTx of a mined record the transaction is not pending any more, and the pending side
   has only lost records *)
Lemma p_apply_rec_settles :
  forall p own h bid s r s', p_apply_rec p own h bid s r = POk s' ->
    shrinks s s' /\ um_get (ps_unmined s') (t_id (rr_tx r)) = None /\
    (um_get (ps_unmined s) (t_id (rr_tx r)) <> None ->
     forall i, In i (out_indexes (rr_tx r)) -> uc_get (ps_ucredits s') (t_id (rr_tx r), i) = None).
Proof.
  intros p own h bid s r s' H. unfold p_apply_rec in H.
  set (s0 := set_blocks s (br_add (ps_blocks s) h bid (rr_tx r))) in *.
  destruct (withdraw_ins (credits (ps_w s0)) (ps_game s0) (rr_tx r) h (rr_ins r)) as [[cs1 g1]|e]; [|discriminate].
  set (sa := set_game (set_credits s0 cs1) g1) in *.
  set (s1 := settle sa (rr_tx r)) in *.
  pose proof (remove_double_spends_shrinks own s1 s1 r (shrinks_refl s1)) as Sh.
  destruct (remove_double_spends own s1 r) as [s2|e]; [|discriminate]. cbn [okp] in Sh.
  destruct (apply_outs p (credits (ps_w s2)) (rr_tx r) h bid (rr_outs r)) as [cs2|e]; [|discriminate].
  inversion H; subst s'.
  destruct (add_game_frame (rr_outs r) (set_credits s2 cs2) (t_id (rr_tx r)) h) as (A & _ & C & _ & E).
  assert (S1 : shrinks s s1) by (apply (settle_shrinks sa (rr_tx r))).
  assert (S2 : shrinks s s2) by (eapply shrinks_trans; eauto).
  assert (S3 : shrinks s2 (add_game (set_credits s2 cs2) (t_id (rr_tx r)) h (rr_outs r))).
  { unfold shrinks. rewrite A, C, E. cbn. repeat split; auto. }
  split; [eapply shrinks_trans; eauto|]. split.
  - rewrite C. cbn [ps_unmined set_credits set_w].
    destruct (um_get (ps_unmined s2) (t_id (rr_tx r))) as [v|] eqn:Ev; [|reflexivity].
    apply (proj1 Sh) in Ev.
    destruct (um_get (ps_unmined sa) (t_id (rr_tx r))) as [v0|] eqn:E0.
    + destruct (settle_settled sa (rr_tx r)) as [Z _]; [congruence|]. fold s1 in Z. congruence.
    + unfold s1, settle in Ev. rewrite E0 in Ev. congruence.
  - intros Hp i Hi. rewrite E. cbn [ps_ucredits set_credits set_w].
    destruct (uc_get (ps_ucredits s2) (t_id (rr_tx r), i)) as [c|] eqn:Ec; [|reflexivity].
    apply (proj1 (proj2 Sh)) in Ec.
    destruct (settle_settled sa (rr_tx r) Hp) as [_ Z]. fold s1 in Z. rewrite (Z i Hi) in Ec. discriminate.
Qed.

Lemma p_apply_recs_settles :
  forall p own h bid recs s s', p_apply_recs p own h bid s recs = POk s' ->
    shrinks s s' /\ forall r, In r recs -> um_get (ps_unmined s') (t_id (rr_tx r)) = None.
Proof.
  intros p own h bid recs. induction recs as [|r recs IH]; intros s s' H; cbn in H.
  - inversion H; subst. split; [apply shrinks_refl|intros r []].
  - destruct (p_apply_rec p own h bid s r) as [s1|e] eqn:E; [|discriminate].
    destruct (p_apply_rec_settles _ _ _ _ _ _ _ E) as (S1 & U1 & _).
    destruct (IH _ _ H) as [S2 U2]. split; [eapply shrinks_trans; eauto|].
    intros r0 [<-|H0]; [|apply U2; exact H0].
    destruct (um_get (ps_unmined s') (t_id (rr_tx r))) as [v|] eqn:Ev; [|reflexivity].
    apply (proj1 S2) in Ev. congruence.
Qed.

(* C09, settle once: a transaction that was accepted as pending and is then mined leaves exactly the
   mined state that mining it without ever having seen it pending leaves (credits, balances, block
   records, mined deposit rows: the function m_connect_block of the mined side alone, whose ledger part
   is C01's connect_block), and it is no longer in the pending set *)
Theorem settle_once :
  forall p own n s t s1 b sa ida sb idb,
    node_knows n b ->
    receive_store p own n s t = POk (Some s1) ->
    p_connect_block p own n (ps_unmined s1) s1 b = POk (sa, ida) ->
    p_connect_block p own n (ps_unmined s) s b = POk (sb, idb) ->
    mined sa = mined sb /\ ida = idb /\
    m_connect_block p own n (mined s) b = Some (mined sa, ida) /\
    connect_block p true own (credits (ps_w s)) (node_tx n) (ps_w s) b = Ok (ps_w sa) /\
    (In (t_id t) ida -> um_get (ps_unmined sa) (t_id t) = None).
Proof.
  intros p own n s t s1 b sa ida sb idb Hk Hr Ha Hb.
  destruct (receive_store_mined _ _ _ _ _ _ Hr) as (Ew & Ebk & Eg).
  assert (Em : mined s1 = mined s) by (unfold mined; rewrite Ew, Ebk, Eg; reflexivity).
  pose proof (p_connect_block_mined _ _ _ _ _ _ _ _ Hk Ha) as Ma. rewrite Em in Ma.
  pose proof (p_connect_block_mined _ _ _ _ _ _ _ _ Hk Hb) as Mb.
  rewrite Ma in Mb. assert (E1 : mined sa = mined sb) by congruence. assert (E2 : ida = idb) by congruence.
  split; [exact E1|]. split; [exact E2|]. split; [exact Ma|]. split.
  - exact (m_connect_block_is_model _ _ _ _ _ _ _ Ma).
  - intros Hin. clear E1 E2 Mb Ma Hb. unfold p_connect_block in Ha.
    destruct (filter_block_txs own (credits (ps_w s1)) (lookup_pending n (ps_unmined s1)) [] (b_txs b)) as [recs|e]; [|discriminate].
    destruct (p_apply_recs p own (b_height b) (b_id b) s1 recs) as [s2|e] eqn:E; [|discriminate].
    inversion Ha; subst sa ida. cbn [ps_unmined set_w].
    apply in_map_iff in Hin. destruct Hin as [r [Hr1 Hr2]]. rewrite <- Hr1.
    exact (proj2 (p_apply_recs_settles _ _ _ _ _ _ _ E) r Hr2).
Qed.

(* ================================================================ rollback: back into the pending set, readable *)

Lemma um_get_put : forall l h v h', um_get (um_put l h v) h' = if (h =? h')%N then Some v else um_get l h'.
Proof.
  intros l h v h'. unfold um_put. unfold um_get at 1. cbn [find fst snd].
  destruct (h =? h')%N eqn:E; [reflexivity|].
  change (match find (fun e => (fst e =? h')%N) (um_del l h) with Some e => Some (snd e) | None => None end) with (um_get (um_del l h) h').
  rewrite um_get_del, E. reflexivity.
Qed.

Lemma fold_append_member :
  forall (h : N) ins ui o sp, In sp (ui_get ui o) -> In sp (ui_get (fold_left (fun ui k => ui_append ui k h) ins ui) o).
Proof.
  intros h ins. induction ins as [|k ins IH]; intros ui o sp H; cbn [fold_left]; [exact H|].
  apply IH. rewrite ui_get_append. destruct (op_eqb k o) eqn:E; [|exact H].
  apply op_eqb_eq in E. subst k. apply in_or_app. left. exact H.
Qed.

Lemma fold_append_registers :
  forall (h : N) ins ui o, In o ins -> In h (ui_get (fold_left (fun ui k => ui_append ui k h) ins ui) o).
Proof.
  intros h ins. induction ins as [|k ins IH]; intros ui o Ho; [destruct Ho|]. cbn [fold_left].
  destruct Ho as [->|Ho]; [|apply IH; exact Ho].
  apply fold_append_member. rewrite ui_get_append, op_eqb_refl. apply in_or_app. right. left. reflexivity.
Qed.

(* one step of the move-back loop: what it does to the unmined bucket and to the registrations *)
Lemma rollback_tx_effect :
  forall a3fix cs h bid s ops t s' ops',
    rollback_tx a3fix cs h bid (POk (s, ops)) t = POk (s', ops') ->
    (forall k, um_get (ps_unmined s') k =
               if t_cb t then um_get (ps_unmined s) k
               else if (t_id t =? k)%N then Some (pending_value_of_rolled_back a3fix t) else um_get (ps_unmined s) k) /\
    (forall o sp, In sp (ui_get (ps_uinputs s) o) -> In sp (ui_get (ps_uinputs s') o)) /\
    (t_cb t = false -> forall o, In o (t_ins t) -> In (t_id t) (ui_get (ps_uinputs s') o)).
Proof.
  intros a3fix cs h bid s ops t s' ops' H. unfold rollback_tx in H.
  destruct (t_cb t) eqn:Ecb.
  - inversion H; subst. repeat split; auto. discriminate.
  - match type of H with (match unwithdraw_ins cs (ps_game ?S2) _ _ _ with _ => _ end) = _ => set (s2 := S2) in * end.
    destruct (unwithdraw_ins cs (ps_game s2) (t_id t) h (map N.of_nat (seq 0 (length (t_ins t))))) as [g|e]; [|discriminate].
    inversion H; subst s' ops'.
    destruct (rollback_credit_fold_frame h (credits_at cs (t_id t) h bid) (set_game s2 g)) as (A & _ & C & _).
    cbv zeta in A, C. cbn [fst].
    match goal with |- context [ps_unmined ?X] =>
      assert (C' : ps_unmined X = ps_unmined (set_game s2 g)) by exact C;
      assert (A' : ps_uinputs X = ps_uinputs (set_game s2 g)) by exact A end.
    rewrite A', C'. cbn [ps_unmined ps_uinputs set_game set_uinputs set_unmined s2]. repeat split.
    + intros k. rewrite um_get_put. reflexivity.
    + intros o sp Hsp. apply fold_append_member. exact Hsp.
    + intros _ o Ho. apply fold_append_registers. exact Ho.
Qed.

Theorem rollback_move_back :
  forall a3fix cs s r s' ops,
    NoDup (map t_id (br_txs r)) ->
    rollback_move a3fix cs s r = POk (s', ops) ->
    forall t, In t (br_txs r) -> t_cb t = false ->
      um_get (ps_unmined s') (t_id t) = Some (pending_value_of_rolled_back a3fix t) /\
      forall o, In o (t_ins t) -> In (t_id t) (ui_get (ps_uinputs s') o).
Proof.
  intros a3fix cs s r s' ops Hnd H. unfold rollback_move in H.
  assert (Hnd' : NoDup (map t_id (rev (br_txs r)))) by (rewrite map_rev; apply NoDup_rev; exact Hnd).
  assert (G : forall txs s0 ops0 s1 ops1, NoDup (map t_id txs) ->
            fold_left (rollback_tx a3fix cs (br_height r) (br_bid r)) txs (POk (s0, ops0)) = POk (s1, ops1) ->
            (forall t, In t txs -> t_cb t = false ->
               um_get (ps_unmined s1) (t_id t) = Some (pending_value_of_rolled_back a3fix t) /\
               forall o, In o (t_ins t) -> In (t_id t) (ui_get (ps_uinputs s1) o)) /\
            (forall k, ~ In k (map t_id txs) -> um_get (ps_unmined s1) k = um_get (ps_unmined s0) k) /\
            (forall o sp, In sp (ui_get (ps_uinputs s0) o) -> In sp (ui_get (ps_uinputs s1) o))).
  { induction txs as [|t txs IH]; intros s0 ops0 s1 ops1 Hn Hf; cbn [fold_left] in Hf.
    - inversion Hf; subst. split; [intros t0 []|split; auto].
    - destruct (rollback_tx a3fix cs (br_height r) (br_bid r) (POk (s0, ops0)) t) as [[sm opsm]|e] eqn:E.
      + destruct (rollback_tx_effect _ _ _ _ _ _ _ _ _ E) as (U & M & R).
        inversion Hn as [|x l Hx Hl]; subst.
        destruct (IH sm opsm s1 ops1 Hl Hf) as (I1 & I2 & I3). split; [|split].
        * intros t0 H0 H1. destruct H0 as [<-|H0]; [|exact (I1 t0 H0 H1)]. split.
          -- rewrite (I2 (t_id t) Hx), U, H1, N.eqb_refl. reflexivity.
          -- intros o Ho. apply I3. apply R; assumption.
        * intros k Hk. rewrite I2 by (intros Hin; apply Hk; right; exact Hin). rewrite U.
          destruct (t_cb t); [reflexivity|]. destruct (t_id t =? k)%N eqn:Ek; [|reflexivity].
          apply N.eqb_eq in Ek. exfalso. apply Hk. left. exact Ek.
        * intros o sp Hsp. apply I3. apply M. exact Hsp.
      + exfalso. clear -Hf. induction txs as [|t' txs IHt]; cbn in Hf; [discriminate|]. apply IHt. exact Hf. }
  intros t Ht Hcb. destruct (G _ _ _ _ _ Hnd' H) as (G1 & _ & _). apply G1; [apply -> in_rev; exact Ht|exact Hcb].
Qed.

(* C09, readable after rollback (the repaired code): every non-coinbase transaction of the rolled-back
   block record is in the pending set as the transaction itself, with all its inputs registered *)
Theorem rollback_readable :
  forall cs s r s' ops,
    NoDup (map t_id (br_txs r)) ->
    rollback_move true cs s r = POk (s', ops) ->
    forall t, In t (br_txs r) -> t_cb t = false ->
      read_unmined s' (t_id t) = RdOk t /\ forall o, In o (t_ins t) -> In (t_id t) (ui_get (ps_uinputs s') o).
Proof.
  intros cs s r s' ops Hnd H t Ht Hcb.
  destruct (rollback_move_back true cs s r s' ops Hnd H t Ht Hcb) as [U R]. split; [|exact R].
  unfold read_unmined. rewrite U. reflexivity.
Qed.

(* the code as first found stored the 28-byte location: nothing of the block can be read back *)
Theorem rollback_unreadable_unfixed :
  forall cs s r s' ops,
    NoDup (map t_id (br_txs r)) ->
    rollback_move false cs s r = POk (s', ops) ->
    forall t, In t (br_txs r) -> t_cb t = false -> read_unmined s' (t_id t) = RdBad.
Proof.
  intros cs s r s' ops Hnd H t Ht Hcb.
  destruct (rollback_move_back false cs s r s' ops Hnd H t Ht Hcb) as [U _].
  unfold read_unmined. rewrite U. reflexivity.
Qed.

Theorem rollback_readable_unfixed_refuted :
  exists cs s r s' ops t,
    rollback_move false cs s r = POk (s', ops) /\ In t (br_txs r) /\ t_cb t = false /\
    read_unmined s' (t_id t) <> RdOk t.
Proof.
  pose (t := {| t_id := 7%N; t_cb := false; t_ins := [(1%N, 0%N)]; t_outs := [ {| o_sh := 1%N; o_val := 5; o_class := CStd |} ] |}).
  exists [], (init_pstate 0%N), {| br_height := 3; br_bid := 3%N; br_txs := [t] |}.
  eexists. eexists. exists t. split; [vm_compute; reflexivity|]. split; [left; reflexivity|]. split; [reflexivity|].
  vm_compute. discriminate.
Qed.

(* ================================================================ conflicts: the removed set is closed under registered children *)

Definition pend (s : pstate) (h : N) : option uval := um_get (ps_unmined s) h.

(* a registration survives unless its own transaction is removed *)
Definition kept (s s' : pstate) : Prop :=
  forall o sp, In sp (ui_get (ps_uinputs s) o) -> In sp (ui_get (ps_uinputs s') o) \/ pend s' sp = None.

(* every registered spender of an output of a removed transaction is gone as well *)
Definition closed (s s' : pstate) : Prop :=
  forall X tX i D, pend s X = Some (USer tX) -> pend s' X = None -> In i (out_indexes tX) ->
                   In D (ui_get (ps_uinputs s) (X, i)) -> pend s' D = None.

(* a removed transaction is no longer registered under any of its inputs *)
Definition cleared (s s' : pstate) : Prop :=
  forall X tX o, pend s X = Some (USer tX) -> pend s' X = None -> In o (t_ins tX) -> ~ In X (ui_get (ps_uinputs s') o).

Definition bundle (s s' : pstate) : Prop := shrinks s s' /\ kept s s' /\ closed s s' /\ cleared s s'.

Lemma shrinks_none : forall s s' h, shrinks s s' -> pend s h = None -> pend s' h = None.
Proof.
  intros s s' h (A & _) H. unfold pend in *. destruct (um_get (ps_unmined s') h) as [v|] eqn:E; [|reflexivity].
  apply A in E. congruence.
Qed.

Lemma bundle_refl : forall s, bundle s s.
Proof.
  intros s. split; [apply shrinks_refl|]. split; [|split].
  - intros o sp H. left. exact H.
  - intros X tX i D H1 H2. congruence.
  - intros X tX o H1 H2. congruence.
Qed.

Lemma bundle_trans : forall a b c, bundle a b -> bundle b c -> bundle a c.
Proof.
  intros a b c (Sab & Kab & Cab & Lab) (Sbc & Kbc & Cbc & Lbc).
  assert (Sac : shrinks a c) by (eapply shrinks_trans; eauto).
  split; [exact Sac|]. split; [|split].
  - intros o sp H. destruct (Kab o sp H) as [Hb|Hb].
    + exact (Kbc o sp Hb).
    + right. exact (shrinks_none b c sp Sbc Hb).
  - intros X tX i D HX HXc Hi HD.
    destruct (pend b X) as [v|] eqn:Eb.
    + assert (Ev : v = USer tX).
      { pose proof (proj1 Sab X v Eb) as E. unfold pend in HX. congruence. }
      subst v. destruct (Kab (X, i) D HD) as [Hb|Hb].
      * exact (Cbc X tX i D Eb HXc Hi Hb).
      * exact (shrinks_none b c D Sbc Hb).
    + apply (shrinks_none b c D Sbc). eapply Cab; eauto.
  - intros X tX o HX HXc Ho Hin.
    destruct (pend b X) as [v|] eqn:Eb.
    + assert (Ev : v = USer tX).
      { pose proof (proj1 Sab X v Eb) as E. unfold pend in HX. congruence. }
      subst v. exact (Lbc X tX o Eb HXc Ho Hin).
    + apply (Lab X tX o HX Eb Ho). apply (proj2 (proj2 Sbc)). exact Hin.
Qed.

Definition removed_ok (s : pstate) (h : N) (s' : pstate) : Prop := bundle s s' /\ pend s' h = None.

Lemma fold_err : forall (A B : Type) (f : pres A -> B -> pres A) (l : list B) e,
  (forall x, f (PErr e) x = PErr e) -> fold_left f l (PErr e) = PErr e.
Proof. intros A B f l e H. induction l as [|x l IH]; cbn [fold_left]; [reflexivity|]. rewrite H. exact IH. Qed.

(* the loop over the spenders registered under one outpoint *)
Lemma fold_spenders_bundle :
  forall (rc : pstate -> N -> tx -> pres pstate) (s1 : pstate),
    (forall s2 sp st, pend s2 sp = Some (USer st) -> okp (removed_ok s2 sp) (rc s2 sp st)) ->
    forall sps s2 done_, bundle s1 s2 -> (forall x, In x done_ -> pend s2 x = None) ->
      okp (fun s3 => bundle s1 s3 /\ forall x, In x (done_ ++ sps) -> pend s3 x = None)
          (fold_left (fun (acc2 : pres pstate) (sp : N) =>
                        match acc2 with
                        | PErr e => PErr e
                        | POk s2 => match um_get (ps_unmined s2) sp with
                                    | None => POk s2
                                    | Some ULoc => PErr EUnreadable
                                    | Some (USer st) => rc s2 sp st
                                    end
                        end) sps (POk s2)).
Proof.
  intros rc s1 Hrc sps. induction sps as [|sp sps IH]; intros s2 done_ B12 Hd; cbn [fold_left].
  - split; [exact B12|]. intros x Hx. rewrite app_nil_r in Hx. exact (Hd x Hx).
  - destruct (um_get (ps_unmined s2) sp) as [[st|]|] eqn:E.
    + specialize (Hrc s2 sp st E).
      destruct (rc s2 sp st) as [s3|e].
      * cbn [okp] in Hrc. destruct Hrc as [B23 N3].
        assert (B13 : bundle s1 s3) by (eapply bundle_trans; eauto).
        specialize (IH s3 (done_ ++ [sp]) B13).
        assert (Hd3 : forall x, In x (done_ ++ [sp]) -> pend s3 x = None).
        { intros x Hx. apply in_app_or in Hx. destruct Hx as [Hx|[<-|[]]]; [|exact N3].
          exact (shrinks_none s2 s3 x (proj1 B23) (Hd x Hx)). }
        specialize (IH Hd3). rewrite <- app_assoc in IH. exact IH.
      * rewrite fold_err; [exact I|reflexivity].
    + rewrite fold_err; [exact I|reflexivity].
    + specialize (IH s2 (done_ ++ [sp]) B12).
      assert (Hd3 : forall x, In x (done_ ++ [sp]) -> pend s2 x = None).
      { intros x Hx. apply in_app_or in Hx. destruct Hx as [Hx|[<-|[]]]; [exact (Hd x Hx)|exact E]. }
      specialize (IH Hd3). rewrite <- app_assoc in IH. exact IH.
Qed.

(* deleteUnminedInputs only takes the transaction's own hash out of the lists *)
Lemma del_inputs_keeps : forall t h l o sp, In sp (ui_get l o) -> sp <> h -> In sp (ui_get (del_inputs_of l t h) o).
Proof.
  intros t h. unfold del_inputs_of. generalize (t_ins t). intros ins. induction ins as [|k ins IH]; intros l o sp H Hne; cbn [fold_left]; [exact H|].
  apply IH; [|exact Hne]. rewrite ui_get_remove. destruct (op_eqb k o) eqn:E; [|exact H].
  apply op_eqb_eq in E. subst k. apply filter_In. split; [exact H|].
  destruct (sp =? h)%N eqn:Es; [apply N.eqb_eq in Es; contradiction|reflexivity].
Qed.

Lemma bundle_ucredits : forall s s3 k, bundle s s3 -> bundle s (set_ucredits s3 (uc_del (ps_ucredits s3) k)).
Proof.
  intros s s3 k ((A & B & C) & K & Cl & L). split; [|split; [|split]].
  - repeat split; auto. intros o c Hc. cbn [ps_ucredits set_ucredits] in Hc. rewrite uc_get_del in Hc.
    destruct (op_eqb k o); [discriminate|]. apply B. exact Hc.
  - exact K.
  - exact Cl.
  - exact L.
Qed.

(* removeConflict removes the transaction and, recursively, every registered spender of its outputs;
   registrations of other transactions survive *)
Theorem remove_conflict_bundle :
  forall fuel own s h t,
    pend s h = Some (USer t) -> okp (removed_ok s h) (remove_conflict fuel own s h t).
Proof.
  induction fuel as [|f IH]; intros own s h t Hp; [exact I|].
  cbn [remove_conflict].
  match goal with |- okp _ (match fold_left ?po _ _ with _ => _ end) => set (per_out := po) end.
  assert (Hfold : forall idx done_ acc,
            okp (fun s1 => bundle s s1 /\ forall i D, In i done_ -> In D (ui_get (ps_uinputs s) (h, i)) -> pend s1 D = None) acc ->
            okp (fun s1 => bundle s s1 /\ forall i D, In i (done_ ++ idx) -> In D (ui_get (ps_uinputs s) (h, i)) -> pend s1 D = None)
                (fold_left per_out idx acc)).
  { induction idx as [|i idx IHi]; intros done_ acc Hacc; cbn [fold_left].
    - rewrite app_nil_r. exact Hacc.
    - replace (done_ ++ i :: idx) with ((done_ ++ [i]) ++ idx) by (rewrite <- app_assoc; reflexivity).
      apply IHi. destruct acc as [s1|e]; [|exact I]. cbn [okp] in Hacc. destruct Hacc as [B1 D1].
      unfold per_out.
      pose proof (fold_spenders_bundle (fun s2 sp st => remove_conflict f own s2 sp st) s1
                    (fun s2 sp st P2 => IH own s2 sp st P2)
                    (ui_get (ps_uinputs s1) (h, i)) s1 [] (bundle_refl s1) (fun x Hx => match Hx with end)) as F.
      cbv beta in F.
      match goal with |- okp _ (match ?X with _ => _ end) => destruct X as [s3|e] end; [|exact I].
      cbn [okp] in F |- *. destruct F as [B13 N3]. cbn [app] in N3.
      assert (B3 : bundle s s3) by (eapply bundle_trans; eauto).
      split; [apply bundle_ucredits; exact B3|].
      intros j D Hj HD. unfold pend. cbn [ps_unmined set_ucredits]. fold (pend s3 D).
      apply in_app_or in Hj. destruct Hj as [Hj|[<-|[]]].
      + exact (shrinks_none s1 s3 D (proj1 B13) (D1 j D Hj HD)).
      + destruct (proj1 (proj2 B1) (h, i) D HD) as [Hin|Hn].
        * exact (N3 D Hin).
        * exact (shrinks_none s1 s3 D (proj1 B13) Hn). }
  specialize (Hfold (out_indexes t) [] (POk s)).
  assert (H0 : okp (fun s1 => bundle s s1 /\ forall i D, In i [] -> In D (ui_get (ps_uinputs s) (h, i)) -> pend s1 D = None) (POk s)).
  { split; [apply bundle_refl|intros i D []]. }
  specialize (Hfold H0). cbn [app] in Hfold.
  destruct (fold_left per_out (out_indexes t) (POk s)) as [s4|e]; [|exact I].
  cbn [okp] in Hfold |- *. destruct Hfold as [((A4 & B4 & C4) & K4 & Cl4 & L4) D4].
  set (s' := set_unmined (set_ugame (set_uinputs s4 (del_inputs_of (ps_uinputs s4) t h))
                 (rm_ugame_rows own (ps_ugame (set_uinputs s4 (del_inputs_of (ps_uinputs s4) t h))) h t))
               (um_del (ps_unmined (set_ugame (set_uinputs s4 (del_inputs_of (ps_uinputs s4) t h))
                 (rm_ugame_rows own (ps_ugame (set_uinputs s4 (del_inputs_of (ps_uinputs s4) t h))) h t))) h)).
  assert (Epend : forall k, pend s' k = if (h =? k)%N then None else pend s4 k).
  { intros k. unfold pend, s'. cbn [ps_unmined set_unmined set_ugame set_uinputs]. apply um_get_del. }
  assert (Eui : ps_uinputs s' = del_inputs_of (ps_uinputs s4) t h) by reflexivity.
  assert (S4' : shrinks s4 s').
  { repeat split.
    - intros k v Hv. fold (pend s' k) in Hv. rewrite Epend in Hv. destruct (h =? k)%N; [discriminate|exact Hv].
    - intros o c Hc. exact Hc.
    - intros o sp Hsp. rewrite Eui in Hsp. eapply del_inputs_sub. exact Hsp. }
  assert (S' : shrinks s s') by (eapply shrinks_trans; [|exact S4']; repeat split; assumption).
  assert (Nh : pend s' h = None) by (rewrite Epend, N.eqb_refl; reflexivity).
  split; [|exact Nh]. split; [exact S'|]. split; [|split].
  - intros o sp Hsp. destruct (K4 o sp Hsp) as [H4|H4].
    + destruct (N.eq_dec sp h) as [->|Hne]; [right; exact Nh|].
      left. rewrite Eui. apply del_inputs_keeps; assumption.
    + right. exact (shrinks_none s4 s' sp S4' H4).
  - intros X tX i D HX HX' Hi HD.
    destruct (N.eq_dec X h) as [->|Hne].
    + assert (tX = t) by congruence. subst tX.
      exact (shrinks_none s4 s' D S4' (D4 i D Hi HD)).
    + rewrite Epend in HX'. assert (Ehx : (h =? X)%N = false) by (apply N.eqb_neq; congruence). rewrite Ehx in HX'.
      exact (shrinks_none s4 s' D S4' (Cl4 X tX i D HX HX' Hi HD)).
  - intros X tX o HX HX' Ho. rewrite Eui.
    destruct (N.eq_dec X h) as [->|Hne].
    + assert (tX = t) by congruence. subst tX. apply del_inputs_unregisters. exact Ho.
    + rewrite Epend in HX'. assert (Ehx : (h =? X)%N = false) by (apply N.eqb_neq; congruence). rewrite Ehx in HX'.
      intros Hin. apply (L4 X tX o HX HX' Ho). eapply del_inputs_sub. exact Hin.
Qed.

(* descendants of a pending transaction through registered spends *)
Inductive desc (s : pstate) : N -> N -> Prop :=
| desc_child : forall X tX i D, pend s X = Some (USer tX) -> In i (out_indexes tX) ->
                                In D (ui_get (ps_uinputs s) (X, i)) -> desc s X D
| desc_step : forall X Y D, desc s X Y -> desc s Y D -> desc s X D.

Lemma closed_desc : forall s s' X D, bundle s s' -> desc s X D -> pend s' X = None -> pend s' D = None.
Proof.
  intros s s' X D B Hd. induction Hd as [X tX i D HX Hi HD|X Y D _ IH1 _ IH2]; intros HN.
  - exact (proj1 (proj2 (proj2 B)) X tX i D HX HN Hi HD).
  - apply IH2. apply IH1. exact HN.
Qed.

Lemma remove_spenders_bundle :
  forall own s k,
    okp (fun s' => bundle s s' /\ forall x, In x (ui_get (ps_uinputs s) k) -> pend s' x = None) (remove_spenders own s k).
Proof.
  intros own s k. unfold remove_spenders.
  pose proof (fold_spenders_bundle (fun s2 sp st => remove_conflict (conflict_fuel s2) own s2 sp st) s
                (fun s2 sp st P2 => remove_conflict_bundle (conflict_fuel s2) own s2 sp st P2)
                (ui_get (ps_uinputs s) k) s [] (bundle_refl s) (fun x Hx => match Hx with end)) as F.
  cbv beta in F. exact F.
Qed.

(* C09, conflicts: when a mined transaction spends a wallet coin, every pending transaction registered as
   a spender of that coin is removed together with all its registered descendants; a removed transaction
   is no longer registered under any of its inputs; every other registration survives (only the mined
   transaction's own hash leaves the lists) *)
Theorem conflict_purges_descendants :
  forall own s r s', remove_double_spends own s r = POk s' ->
    (forall ri T, In ri (rr_ins r) -> In T (ui_get (ps_uinputs s) (ri_prev ri)) ->
        pend s' T = None /\ forall D, desc s T D -> pend s' D = None) /\
    (forall X tX o, pend s X = Some (USer tX) -> pend s' X = None -> In o (t_ins tX) -> ~ In X (ui_get (ps_uinputs s') o)) /\
    (forall o sp, In sp (ui_get (ps_uinputs s) o) -> pend s' sp <> None -> sp <> t_id (rr_tx r) -> In sp (ui_get (ps_uinputs s') o)) /\
    shrinks s s'.
Proof.
  intros own s r s' H. unfold remove_double_spends in H.
  assert (Hloop : forall ins done_ acc,
            okp (fun s1 => bundle s s1 /\ forall ri T, In ri done_ -> In T (ui_get (ps_uinputs s) (ri_prev ri)) -> pend s1 T = None) acc ->
            okp (fun s1 => bundle s s1 /\ forall ri T, In ri (done_ ++ ins) -> In T (ui_get (ps_uinputs s) (ri_prev ri)) -> pend s1 T = None)
                (fold_left (fun (acc : pres pstate) (ri : rel_in) =>
                              match acc with PErr e => PErr e | POk s1 => remove_spenders own s1 (ri_prev ri) end) ins acc)).
  { induction ins as [|ri ins IHi]; intros done_ acc Hacc; cbn [fold_left].
    - rewrite app_nil_r. exact Hacc.
    - replace (done_ ++ ri :: ins) with ((done_ ++ [ri]) ++ ins) by (rewrite <- app_assoc; reflexivity).
      apply IHi. destruct acc as [s1|e]; [|exact I]. cbn [okp] in Hacc. destruct Hacc as [B1 D1].
      pose proof (remove_spenders_bundle own s1 (ri_prev ri)) as F.
      destruct (remove_spenders own s1 (ri_prev ri)) as [s3|e]; [|exact I].
      cbn [okp] in F |- *. destruct F as [B13 N3].
      split; [eapply bundle_trans; eauto|].
      intros rj T Hj HT. apply in_app_or in Hj. destruct Hj as [Hj|[<-|[]]].
      + exact (shrinks_none s1 s3 T (proj1 B13) (D1 rj T Hj HT)).
      + destruct (proj1 (proj2 B1) (ri_prev ri) T HT) as [Hin|Hn].
        * exact (N3 T Hin).
        * exact (shrinks_none s1 s3 T (proj1 B13) Hn). }
  specialize (Hloop (rr_ins r) [] (POk s)).
  assert (H0 : okp (fun s1 => bundle s s1 /\ forall ri T, In ri [] -> In T (ui_get (ps_uinputs s) (ri_prev ri)) -> pend s1 T = None) (POk s)).
  { split; [apply bundle_refl|intros ri T []]. }
  specialize (Hloop H0). cbn [app] in Hloop.
  destruct (fold_left _ (rr_ins r) (POk s)) as [s2|e]; [|discriminate].
  cbn [okp] in Hloop. destruct Hloop as [B2 D2]. inversion H; subst s'.
  set (s' := set_uinputs s2 (del_inputs_of (ps_uinputs s2) (rr_tx r) (t_id (rr_tx r)))).
  assert (Ep : forall k, pend s' k = pend s2 k) by reflexivity.
  assert (S2' : shrinks s2 s').
  { repeat split; auto. intros o sp Hsp. unfold s' in Hsp. cbn [ps_uinputs set_uinputs] in Hsp. eapply del_inputs_sub. exact Hsp. }
  split; [|split; [|split]].
  - intros ri T Hri HT. rewrite !Ep. split; [exact (D2 ri T Hri HT)|].
    intros D Hd. rewrite Ep. exact (closed_desc s s2 T D B2 Hd (D2 ri T Hri HT)).
  - intros X tX o HX HX' Ho Hin. rewrite Ep in HX'.
    apply (proj2 (proj2 (proj2 B2)) X tX o HX HX' Ho). apply (proj2 (proj2 S2')). exact Hin.
  - intros o sp Hsp Hsurv Hne. rewrite Ep in Hsurv.
    destruct (proj1 (proj2 B2) o sp Hsp) as [Hin|Hn]; [|contradiction].
    unfold s'. cbn [ps_uinputs set_uinputs]. apply del_inputs_keeps; assumption.
  - eapply shrinks_trans; [exact (proj1 B2)|exact S2'].
Qed.

(* ================================================================ C09: the flag *)

(* filterTx for an unconfirmed transaction recognises every input whose previous output is found and
   pays a script hash of a ready wallet *)
Lemma filter_ins_unmined_complete :
  forall own lk ins i l, filter_ins_unmined own lk ins i = Ok l ->
    forall ph pv pt o w, In (ph, pv) ins -> lk ph = Some pt -> nth_error (t_outs pt) (N.to_nat pv) = Some o ->
      o_class o <> CUnsupported -> own (o_sh o) = Some w ->
      exists ri, In ri l /\ ri_prev ri = (ph, pv) /\ ri_wallet ri = w.
Proof.
  intros own lk ins. induction ins as [|[qh qv] rest IH]; intros i l H ph pv pt o w Hin Hlk Hnth Hcls Hown; [destruct Hin|].
  cbn [filter_ins_unmined] in H.
  destruct (lk qh) as [qt|] eqn:Eq; [|discriminate].
  destruct (nth_error (t_outs qt) (N.to_nat qv)) as [qo|] eqn:En; [|discriminate].
  destruct Hin as [E|Hin].
  - inversion E; subst qh qv. rewrite Hlk in Eq. inversion Eq; subst qt. rewrite Hnth in En. inversion En; subst qo.
    destruct (o_class o) eqn:Ec; try congruence;
      (rewrite Hown in H; destruct (filter_ins_unmined own lk rest (i + 1)%N) as [l'|e]; [|discriminate];
       inversion H; subst l; eexists; split; [left; reflexivity|split; reflexivity]).
  - assert (Hc : forall l', filter_ins_unmined own lk rest (i + 1)%N = Ok l' ->
                  exists ri, In ri l' /\ ri_prev ri = (ph, pv) /\ ri_wallet ri = w).
    { intros l' Hl'. eapply IH; eauto. }
    destruct (o_class qo); try (apply Hc; exact H);
      (destruct (own (o_sh qo)) as [w'|]; [|apply Hc; exact H];
       destruct (filter_ins_unmined own lk rest (i + 1)%N) as [l'|e] eqn:E; [|discriminate];
       inversion H; subst l; destruct (Hc l' eq_refl) as [ri [H1 H2]]; exists ri; split; [right; exact H1|exact H2]).
Qed.

(* C09, flag: once an unconfirmed transaction has been accepted, every coin it spends that the wallet
   can recognise as its own (the previous transaction is known to the node or pending, the output pays a
   ready wallet) is reported spent_by_unmined, is not eligible for new transactions, and the transaction
   can be read back from the pending set *)
Theorem receive_flags :
  forall p own n s t s', receive_store p own n s t = POk (Some s') ->
    pend s (t_id t) = None -> tx_recorded s (t_id t) = false ->
    read_unmined s' (t_id t) = RdOk t /\
    forall ph pv pt o w, In (ph, pv) (t_ins t) ->
      lookup_pending n (ps_unmined s) ph = Some pt -> nth_error (t_outs pt) (N.to_nat pv) = Some o ->
      o_class o <> CUnsupported -> own (o_sh o) = Some w ->
      In (t_id t) (ui_get (ps_uinputs s') (ph, pv)) /\ spent_by_unmined s' (ph, pv) = true /\
      forall c, credit_op c = (ph, pv) -> eligible s' c = false.
Proof.
  intros p own n s t s' H Hp Hrec. unfold pend in Hp.
  destruct (receive_store_shape _ _ _ _ _ _ H) as (Ecb & ins & Eins & Hs). cbv zeta in Hs.
  rewrite Hp, Hrec in Hs. destruct Hs as (_ & _ & _ & Eu & Ei). split.
  - unfold read_unmined. rewrite Eu. unfold inserted. cbn [ps_unmined set_uinputs set_unmined]. rewrite um_get_put, N.eqb_refl. reflexivity.
  - intros ph pv pt o w Hin Hlk Hnth Hcls Hown.
    destruct (filter_ins_unmined_complete _ _ _ _ _ Eins ph pv pt o w Hin Hlk Hnth Hcls Hown) as [ri [Hri [Hprev _]]].
    assert (Hreg : In (t_id t) (ui_get (ps_uinputs s') (ph, pv))).
    { rewrite Ei. unfold inserted. cbn [ps_uinputs set_uinputs]. rewrite <- Hprev.
      clear -Hri. generalize (ps_uinputs (set_unmined s (um_put (ps_unmined s) (t_id t) (USer t)))).
      induction ins as [|r0 ins IH]; intros ui; [destruct Hri|]. cbn [fold_left].
      destruct Hri as [<-|Hri]; [|apply IH; exact Hri].
      assert (G : forall l ui0 o sp, In sp (ui_get ui0 o) ->
                    In sp (ui_get (fold_left (fun ui1 ri0 => ui_append ui1 (ri_prev ri0) (t_id t)) l ui0) o)).
      { induction l as [|x l IHl]; intros ui0 o sp Hsp; cbn [fold_left]; [exact Hsp|].
        apply IHl. rewrite ui_get_append. destruct (op_eqb (ri_prev x) o) eqn:E; [|exact Hsp].
        apply op_eqb_eq in E. subst o. apply in_or_app. left. exact Hsp. }
      apply G. rewrite ui_get_append, op_eqb_refl. apply in_or_app. right. left. reflexivity. }
    split; [exact Hreg|].
    assert (Hflag : spent_by_unmined s' (ph, pv) = true).
    { unfold spent_by_unmined. destruct (ui_get (ps_uinputs s') (ph, pv)); [destruct Hreg|reflexivity]. }
    split; [exact Hflag|]. intros c Hc. apply eligible_not_flagged. rewrite Hc. exact Hflag.
Qed.

(* a transaction that is already recorded as mined is reported relevant but nothing is stored *)
Theorem receive_already_mined :
  forall p own n s t s', receive_store p own n s t = POk (Some s') ->
    pend s (t_id t) = None -> tx_recorded s (t_id t) = true -> s' = s.
Proof.
  intros p own n s t s' H Hp Hrec. unfold pend in Hp. unfold receive_store, receive_store_gen in H. cbn [andb] in H.
  destruct (if t_cb t then Ok [] else filter_ins_unmined own (lookup_pending n (ps_unmined s)) (t_ins t) 0%N) as [ins|e]; [|discriminate].
  rewrite Hp, Hrec in H.
  destruct ins; destruct (filter_outs own (t_outs t) 0%N); try discriminate;
    destruct (t_cb t); try discriminate; inversion H; reflexivity.
Qed.

(* the flag is kept: while a pending transaction survives a mined record, every registration it has
   survives too (only the mined transaction's own hash leaves the lists, and those of the transactions
   removed with it) *)
Theorem flag_kept_by_mined_record :
  forall p own h bid s r s', p_apply_rec p own h bid s r = POk s' ->
    forall o sp, In sp (ui_get (ps_uinputs s) o) -> pend s' sp <> None -> In sp (ui_get (ps_uinputs s') o).
Proof.
  intros p own h bid s r s' H o sp Hreg Hsurv.
  destruct (p_apply_rec_settles _ _ _ _ _ _ _ H) as (_ & Hgone & _).
  assert (Hne : sp <> t_id (rr_tx r)).
  { intros ->. apply Hsurv. exact Hgone. }
  unfold p_apply_rec in H.
  set (s0 := set_blocks s (br_add (ps_blocks s) h bid (rr_tx r))) in *.
  destruct (withdraw_ins (credits (ps_w s0)) (ps_game s0) (rr_tx r) h (rr_ins r)) as [[cs1 g1]|e]; [|discriminate].
  set (sa := set_game (set_credits s0 cs1) g1) in *.
  set (s1 := settle sa (rr_tx r)) in *.
  assert (Ui1 : ps_uinputs s1 = ps_uinputs s) by (unfold s1; rewrite (proj1 (settle_frame sa (rr_tx r))); reflexivity).
  destruct (remove_double_spends own s1 r) as [s2|e] eqn:Er; [|discriminate].
  destruct (conflict_purges_descendants own s1 r s2 Er) as (_ & _ & Hkeep & _).
  destruct (apply_outs p _ (rr_tx r) h bid (rr_outs r)) as [cs2|e]; [|discriminate].
  inversion H; subst s'.
  match goal with |- In sp (ui_get (ps_uinputs (add_game ?S _ _ _)) o) =>
    destruct (add_game_frame (rr_outs r) S (t_id (rr_tx r)) h) as (A & _ & C & _) end.
  rewrite A. cbn [ps_uinputs set_credits set_w].
  unfold pend in Hsurv. rewrite C in Hsurv. cbn [ps_unmined set_credits set_w] in Hsurv.
  apply Hkeep; [rewrite Ui1; exact Hreg|exact Hsurv|exact Hne].
Qed.

(* ================================================================ the code as first found *)

(* finding pending-while-mined (repaired in 0bc4560): a transaction first seen in a block and delivered as
   unconfirmed afterwards was stored as pending although it is mined *)
Module MinedThenDelivered.
  Definition p : params := {| p_cbmat := 1; p_bindlock := 4294967294 |}.
  Definition g : block := {| b_id := 0; b_prev := 0; b_height := 0; b_txs := [] |}.
  Definition cb (id : N) : tx := {| t_id := id; t_cb := true; t_ins := []; t_outs := [ {| o_sh := 1; o_val := 5; o_class := CStd |} ] |}.
  Definition t : tx := {| t_id := 10; t_cb := false; t_ins := [(1, 0)%N]; t_outs := [ {| o_sh := 9; o_val := 5; o_class := CStd |} ] |}.
  Definition b1 : block := {| b_id := 1; b_prev := 0; b_height := 1; b_txs := [cb 1] |}.
  Definition b2 : block := {| b_id := 2; b_prev := 1; b_height := 2; b_txs := [cb 2; t] |}.
  Definition sim := prun p true g [PvOwner 1 1; PvAttach b1; PvProcess b1; PvAttach b2; PvProcess b2].
End MinedThenDelivered.

Theorem pending_while_mined_refuted :
  let q := MinedThenDelivered.sim in
  let s := h_store (q_h q) in
  tx_recorded s 10%N = true /\
  (exists s', receive_store_gen false MinedThenDelivered.p (own_of (q_own q)) (q_node q) s MinedThenDelivered.t = POk (Some s') /\
              read_unmined s' 10%N = RdOk MinedThenDelivered.t) /\
  receive_store MinedThenDelivered.p (own_of (q_own q)) (q_node q) s MinedThenDelivered.t = POk (Some s).
Proof.
  cbv zeta. split; [vm_compute; reflexivity|]. split; [|vm_compute; reflexivity].
  eexists. split; [vm_compute; reflexivity|vm_compute; reflexivity].
Qed.


(* finding flag-lost:shared-input-key (repaired in 626fe73): deleteUnminedInputs deleted the whole entry of
   every input, although another pending transaction may be registered under the same outpoint *)
Theorem flag_lost_whole_key_refuted :
  exists ui t o sp, In sp (ui_get ui o) /\ sp <> t_id t /\ ~ In sp (ui_get (del_inputs_of_found ui t) o) /\
                    In sp (ui_get (del_inputs_of ui t (t_id t)) o).
Proof.
  exists [((1, 0)%N, [10; 11]%N)], {| t_id := 10; t_cb := false; t_ins := [(1, 0); (2, 0)]%N; t_outs := [] |}, (1, 0)%N, 11%N.
  split; [vm_compute; right; left; reflexivity|]. split; [discriminate|]. split; [vm_compute; intros []|vm_compute; left; reflexivity].
Qed.

(* the scenario of that finding on the repaired model: T1 = {a, b} and T2 = {a, c} are pending, a
   transaction spending b confirms; T1 is removed, T2 stays pending and a stays flagged and unselectable *)
Module SharedKey.
  Definition p : params := {| p_cbmat := 1; p_bindlock := 4294967294 |}.
  Definition g : block := {| b_id := 0; b_prev := 0; b_height := 0; b_txs := [] |}.
  Definition cb (id : N) : tx := {| t_id := id; t_cb := true; t_ins := []; t_outs := [ {| o_sh := 1; o_val := 5; o_class := CStd |} ] |}.
  Definition b1 : block := {| b_id := 1; b_prev := 0; b_height := 1; b_txs := [cb 1] |}.
  Definition b2 : block := {| b_id := 2; b_prev := 1; b_height := 2; b_txs := [cb 2] |}.
  Definition b3 : block := {| b_id := 3; b_prev := 2; b_height := 3; b_txs := [cb 3] |}.
  Definition pay (v : Z) : txout := {| o_sh := 9; o_val := v; o_class := CStd |}.
  Definition t1 : tx := {| t_id := 10; t_cb := false; t_ins := [(1, 0); (2, 0)]%N; t_outs := [pay 10] |}.
  Definition t2 : tx := {| t_id := 11; t_cb := false; t_ins := [(1, 0); (3, 0)]%N; t_outs := [pay 10] |}.
  Definition t3 : tx := {| t_id := 12; t_cb := false; t_ins := [(2, 0)]%N; t_outs := [pay 5] |}.
  Definition b4 : block := {| b_id := 4; b_prev := 3; b_height := 4; b_txs := [cb 4; t3] |}.
  Definition evs : list pevent :=
    [PvOwner 1 1; PvAttach b1; PvProcess b1; PvAttach b2; PvProcess b2; PvAttach b3; PvProcess b3;
     PvReceive t1; PvReceive t2; PvAttach b4; PvProcess b4].
End SharedKey.

Theorem shared_input_keeps_flag :
  let s := h_store (q_h (prun SharedKey.p true SharedKey.g SharedKey.evs)) in
  read_unmined s 10%N = RdNone /\ read_unmined s 11%N = RdOk SharedKey.t2 /\
  spent_by_unmined s (1, 0)%N = true /\ spent_by_unmined s (3, 0)%N = true /\
  map credit_op (eligible_list s 1%N) = [(4, 0)%N].
Proof. vm_compute. repeat split; reflexivity. Qed.

(* ================================================================ C10: deposit rows and deposit credits *)

Definition row_of (c : credit) (b : bool) : grow :=
  mk_grow (c_wallet c) b (negb (is_unspent c)) (c_tx c) (c_height c) (c_vout c).

(* a credit is identified by (transaction, height, output index) — what getCreditsByTxHashHeight reads;
   C01's invariant gives it (one block per synced height, one credit per output of a block) *)
Definition ckey (c : credit) : N * Z * N := (c_tx c, c_height c, c_vout c).
Definition cred_unique (cs : list credit) : Prop := NoDup (map ckey cs).

Lemma cred_unique_eq : forall cs c1 c2, cred_unique cs -> In c1 cs -> In c2 cs -> ckey c1 = ckey c2 -> c1 = c2.
Proof.
  induction cs as [|c cs IH]; intros c1 c2 U H1 H2 E; [destruct H1|].
  unfold cred_unique in U. cbn in U. inversion U as [|x l Hx Hl]; subst.
  destruct H1 as [<-|H1]; destruct H2 as [<-|H2]; auto.
  - exfalso. apply Hx. rewrite E. apply in_map. exact H2.
  - exfalso. apply Hx. rewrite <- E. apply in_map. exact H1.
Qed.

Definition same_key (r : grow) (c : credit) : Prop := c_tx c = g_tx r /\ c_height c = g_height r /\ c_vout c = g_vout r.

(* the deposit rows are exactly the staking/binding credits: every such credit has its row, with the
   withdrawn bit equal to its spent mark; every row belongs to a credit; no row twice *)
Record rows_ok (cs : list credit) (g : list grow) : Prop := {
  ro_complete : forall c b, In c cs -> game_kind (c_class c) = Some b -> In (row_of c b) g;
  ro_accurate : forall r c, In r g -> In c cs -> same_key r c -> exists b, game_kind (c_class c) = Some b /\ r = row_of c b;
  ro_owned : forall r, In r g -> exists c, In c cs /\ same_key r c;
  ro_nodup : NoDup g
}.

Lemma grow_eqb_eq : forall a b, grow_eqb a b = true <-> a = b.
Proof.
  intros [w1 b1 d1 t1 h1 v1] [w2 b2 d2 t2 h2 v2]. unfold grow_eqb. cbn.
  rewrite !andb_true_iff, !N.eqb_eq, Z.eqb_eq, !Bool.eqb_true_iff. split.
  - intros (((((-> & ->) & ->) & ->) & ->) & ->). reflexivity.
  - intros E. inversion E. repeat split; reflexivity.
Qed.

Lemma g_del_in : forall l r x, In x (g_del l r) <-> In x l /\ x <> r.
Proof.
  intros l r x. unfold g_del. rewrite filter_In. split.
  - intros [H1 H2]. split; [exact H1|]. intros ->. rewrite (proj2 (grow_eqb_eq r r) eq_refl) in H2. discriminate.
  - intros [H1 H2]. split; [exact H1|]. destruct (grow_eqb r x) eqn:E; [|reflexivity]. apply grow_eqb_eq in E. congruence.
Qed.

Lemma g_put_in : forall l r x, In x (g_put l r) <-> x = r \/ In x l.
Proof.
  intros l r x. unfold g_put. cbn [In]. rewrite g_del_in. split.
  - intros [->|[H _]]; auto.
  - intros [->|H]; [left; reflexivity|]. destruct (grow_eqb r x) eqn:E.
    + apply grow_eqb_eq in E. left. exact E.
    + right. split; [exact H|]. intros ->. rewrite (proj2 (grow_eqb_eq r r) eq_refl) in E. discriminate.
Qed.

Lemma g_del_nodup : forall l r, NoDup l -> NoDup (g_del l r).
Proof. intros l r H. unfold g_del. apply NoDup_filter. exact H. Qed.

Lemma g_put_nodup : forall l r, NoDup l -> NoDup (g_put l r).
Proof.
  intros l r H. unfold g_put. constructor; [|apply g_del_nodup; exact H].
  intros Hin. apply g_del_in in Hin. destruct Hin as [_ Hne]. congruence.
Qed.

Lemma g_mem_in : forall r l, g_mem r l = true <-> In r l.
Proof.
  intros r l. unfold g_mem. rewrite existsb_exists. split.
  - intros [x [Hx E]]. apply grow_eqb_eq in E. subst. exact Hx.
  - intros H. exists r. split; [exact H|apply grow_eqb_eq; reflexivity].
Qed.

(* ---- spending one credit *)

Lemma spend_credit_spec :
  forall cs w op by_ cs', spend_credit cs w op by_ = Some cs' ->
    exists l1 c l2, cs = l1 ++ c :: l2 /\ cs' = l1 ++ set_spent c (Some by_) :: l2 /\
                    is_unspent c = true /\ c_wallet c = w /\ credit_op c = op /\ find_unspent cs w op = Some c.
Proof.
  induction cs as [|c cs IH]; intros w op by_ cs' H; cbn in H; [discriminate|].
  unfold find_unspent. cbn [find].
  destruct (op_eqb (credit_op c) op && (c_wallet c =? w)%N && is_unspent c) eqn:E.
  - inversion H; subst cs'. rewrite !andb_true_iff in E. destruct E as ((E1 & E2) & E3).
    exists [], c, cs. repeat split; auto; [apply N.eqb_eq; exact E2|apply op_eqb_eq; exact E1].
  - destruct (spend_credit cs w op by_) as [rest|] eqn:Er; [|discriminate]. inversion H; subst cs'.
    destruct (IH _ _ _ _ Er) as (l1 & c0 & l2 & A & B & C & D & F & G).
    exists (c :: l1), c0, l2. rewrite A, B. repeat split; auto. rewrite <- A. exact G.
Qed.

Lemma set_spent_fields : forall c s,
  c_tx (set_spent c s) = c_tx c /\ c_vout (set_spent c s) = c_vout c /\ c_height (set_spent c s) = c_height c /\
  c_wallet (set_spent c s) = c_wallet c /\ c_class (set_spent c s) = c_class c /\ c_amount (set_spent c s) = c_amount c /\
  c_sh (set_spent c s) = c_sh c /\ c_maturity (set_spent c s) = c_maturity c /\ c_bid (set_spent c s) = c_bid c.
Proof. intros c s. repeat split. Qed.

(* updateMinedBalance: the row of a spent deposit flips to withdrawn, nothing else changes *)
Lemma middle_key_fresh :
  forall (l1 l2 : list credit) c, cred_unique (l1 ++ c :: l2) -> forall x, In x (l1 ++ l2) -> ckey x <> ckey c.
Proof.
  intros l1 l2 c U x Hx E. unfold cred_unique in U. rewrite map_app in U. cbn [map] in U.
  apply NoDup_remove_2 in U. apply U. rewrite <- map_app. rewrite <- E. apply in_map. exact Hx.
Qed.

Lemma same_key_ckey : forall r c, same_key r c <-> ckey c = (g_tx r, g_height r, g_vout r).
Proof.
  intros r c. unfold same_key, ckey. split.
  - intros (A & B & C). rewrite A, B, C. reflexivity.
  - intros E. inversion E. repeat split; reflexivity.
Qed.

Lemma withdraw_one_rows_ok :
  forall l1 c l2 by_ g b,
    rows_ok (l1 ++ c :: l2) g -> cred_unique (l1 ++ c :: l2) -> is_unspent c = true -> game_kind (c_class c) = Some b ->
    rows_ok (l1 ++ set_spent c (Some by_) :: l2) (g_put (g_del g (row_of c b)) (row_of (set_spent c (Some by_)) b)) /\
    cred_unique (l1 ++ set_spent c (Some by_) :: l2).
Proof.
  intros l1 c l2 by_ g b R U Hu Hk.
  set (c' := set_spent c (Some by_)).
  set (r0 := row_of c b). set (r1 := row_of c' b).
  assert (Hc : In c (l1 ++ c :: l2)) by (apply in_or_app; right; left; reflexivity).
  assert (Hfresh : forall x, In x (l1 ++ l2) -> ckey x <> ckey c) by (apply middle_key_fresh; exact U).
  assert (Hsplit : forall x, In x (l1 ++ c' :: l2) <-> x = c' \/ In x (l1 ++ l2)).
  { intros x. rewrite !in_app_iff. cbn [In]. split; [intros [H|[H|H]]|intros [H|[H|H]]]; auto. }
  assert (Hsplit0 : forall x, In x (l1 ++ c :: l2) <-> x = c \/ In x (l1 ++ l2)).
  { intros x. rewrite !in_app_iff. cbn [In]. split; [intros [H|[H|H]]|intros [H|[H|H]]]; auto. }
  assert (Hr01 : r0 <> r1).
  { unfold r0, r1, row_of, c'. cbn. rewrite Hu. cbn. intros E. inversion E. }
  assert (Hkey' : ckey c' = ckey c) by reflexivity.
  split.
  - constructor.
    + intros x bx Hx Hkx. apply g_put_in. apply Hsplit in Hx. destruct Hx as [->|Hx].
      * left. unfold c' in Hkx. cbn in Hkx. rewrite Hk in Hkx. inversion Hkx; subst bx. reflexivity.
      * right. apply g_del_in. split.
        -- apply (ro_complete _ _ R); [apply Hsplit0; right; exact Hx|exact Hkx].
        -- intros E. apply (Hfresh x Hx). unfold r0, row_of in E. inversion E. unfold ckey. congruence.
    + intros r x Hr Hx Hsk. apply g_put_in in Hr. apply Hsplit in Hx.
      destruct Hr as [->|Hr].
      * destruct Hx as [->|Hx]; [exists b; split; [exact Hk|reflexivity]|].
        exfalso. apply (Hfresh x Hx). apply same_key_ckey in Hsk. rewrite Hsk. reflexivity.
      * apply g_del_in in Hr. destruct Hr as [Hr Hne].
        destruct Hx as [->|Hx].
        -- (* an old row with the key of c is the row of c, which was deleted *)
           exfalso. destruct (ro_accurate _ _ R r c Hr Hc) as [bx [Hbx Er]].
           { apply same_key_ckey. apply same_key_ckey in Hsk. rewrite <- Hsk. symmetry. exact Hkey'. }
           rewrite Hk in Hbx. inversion Hbx; subst bx. apply Hne. exact Er.
        -- apply (ro_accurate _ _ R r x Hr); [apply Hsplit0; right; exact Hx|exact Hsk].
    + intros r Hr. apply g_put_in in Hr. destruct Hr as [->|Hr].
      * exists c'. split; [apply Hsplit; left; reflexivity|]. repeat split.
      * apply g_del_in in Hr. destruct Hr as [Hr Hne].
        destruct (ro_owned _ _ R r Hr) as [x [Hx Hsk]]. apply Hsplit0 in Hx. destruct Hx as [->|Hx].
        -- exists c'. split; [apply Hsplit; left; reflexivity|]. exact Hsk.
        -- exists x. split; [apply Hsplit; right; exact Hx|exact Hsk].
    + apply g_put_nodup. apply g_del_nodup. exact (ro_nodup _ _ R).
  - unfold cred_unique in *. rewrite map_app in *. cbn [map] in *. exact U.
Qed.

(* spending a credit that is not a deposit leaves the rows alone *)
Lemma spend_plain_rows_ok :
  forall l1 c l2 by_ g,
    rows_ok (l1 ++ c :: l2) g -> cred_unique (l1 ++ c :: l2) -> game_kind (c_class c) = None ->
    rows_ok (l1 ++ set_spent c (Some by_) :: l2) g /\ cred_unique (l1 ++ set_spent c (Some by_) :: l2).
Proof.
  intros l1 c l2 by_ g R U Hk.
  set (c' := set_spent c (Some by_)).
  assert (Hc : In c (l1 ++ c :: l2)) by (apply in_or_app; right; left; reflexivity).
  assert (Hsplit : forall x, In x (l1 ++ c' :: l2) <-> x = c' \/ In x (l1 ++ l2)).
  { intros x. rewrite !in_app_iff. cbn [In]. split; [intros [H|[H|H]]|intros [H|[H|H]]]; auto. }
  assert (Hsplit0 : forall x, In x (l1 ++ c :: l2) <-> x = c \/ In x (l1 ++ l2)).
  { intros x. rewrite !in_app_iff. cbn [In]. split; [intros [H|[H|H]]|intros [H|[H|H]]]; auto. }
  split.
  - constructor.
    + intros x bx Hx Hkx. apply Hsplit in Hx. destruct Hx as [->|Hx].
      * unfold c' in Hkx. cbn in Hkx. congruence.
      * apply (ro_complete _ _ R); [apply Hsplit0; right; exact Hx|exact Hkx].
    + intros r x Hr Hx Hsk. apply Hsplit in Hx. destruct Hx as [->|Hx].
      * exfalso. destruct (ro_accurate _ _ R r c Hr Hc Hsk) as [bx [Hbx _]]. congruence.
      * apply (ro_accurate _ _ R r x Hr); [apply Hsplit0; right; exact Hx|exact Hsk].
    + intros r Hr. destruct (ro_owned _ _ R r Hr) as [x [Hx Hsk]]. apply Hsplit0 in Hx. destruct Hx as [->|Hx].
      * exists c'. split; [apply Hsplit; left; reflexivity|exact Hsk].
      * exists x. split; [apply Hsplit; right; exact Hx|exact Hsk].
    + exact (ro_nodup _ _ R).
  - unfold cred_unique in *. rewrite map_app in *. cbn [map] in *. exact U.
Qed.

Lemma withdraw_ins_rows_ok :
  forall ins cs g t h cs' g', withdraw_ins cs g t h ins = POk (cs', g') ->
    rows_ok cs g -> cred_unique cs -> rows_ok cs' g' /\ cred_unique cs'.
Proof.
  induction ins as [|ri ins IH]; intros cs g t h cs' g' H R U; cbn [withdraw_ins] in H.
  - inversion H; subst. split; assumption.
  - destruct (find_unspent cs (ri_wallet ri) (ri_prev ri)) as [c|] eqn:Ef; [|discriminate].
    destruct (spend_credit cs (ri_wallet ri) (ri_prev ri) (t_id t, ri_index ri, h)) as [cs1|] eqn:Es; [|discriminate].
    destruct (spend_credit_spec _ _ _ _ _ Es) as (l1 & c0 & l2 & A & B & C & D & F & G).
    rewrite G in Ef. inversion Ef; subst c0. subst cs cs1.
    destruct (game_kind (c_class c)) as [b|] eqn:Ek.
    + destruct (g_mem _ g) eqn:Em; [|discriminate].
      assert (E0 : mk_grow (ri_wallet ri) b false (fst (ri_prev ri)) (c_height c) (snd (ri_prev ri)) = row_of c b).
      { unfold row_of. rewrite C, D. cbn. rewrite <- F. reflexivity. }
      assert (E1 : mk_grow (ri_wallet ri) b true (fst (ri_prev ri)) (c_height c) (snd (ri_prev ri)) = row_of (set_spent c (Some (t_id t, ri_index ri, h))) b).
      { unfold row_of. cbn. rewrite D, <- F. reflexivity. }
      rewrite E0, E1 in H.
      destruct (withdraw_one_rows_ok l1 c l2 (t_id t, ri_index ri, h) g b R U C Ek) as [R1 U1].
      eapply IH; eauto.
    + destruct (spend_plain_rows_ok l1 c l2 (t_id t, ri_index ri, h) g R U Ek) as [R1 U1].
      eapply IH; eauto.
Qed.

(* ---- AddCredits *)

Definition new_credit (p : params) (t : tx) (h : Z) (bid : N) (ro : rel_out) : credit :=
  {| c_tx := t_id t; c_vout := ro_index ro; c_height := h; c_bid := bid;
     c_amount := o_val (ro_out ro); c_sh := o_sh (ro_out ro); c_wallet := ro_wallet ro;
     c_class := o_class (ro_out ro); c_maturity := maturity_of p (t_cb t) (o_class (ro_out ro)); c_spent := None |}.

Lemma apply_outs_spec :
  forall p t h bid outs cs cs', apply_outs p cs t h bid outs = Ok cs' -> cs' = cs ++ map (new_credit p t h bid) outs.
Proof.
  intros p t h bid outs. induction outs as [|ro outs IH]; intros cs cs' H; cbn in H.
  - inversion H. rewrite app_nil_r. reflexivity.
  - destruct (exists_credit_at cs (t_id t, ro_index ro) h bid); [discriminate|].
    apply IH in H. rewrite H. rewrite <- app_assoc. reflexivity.
Qed.

Lemma add_game_rows_in :
  forall tid h outs g x,
    In x (add_game_rows g tid h outs) <->
    In x g \/ exists ro b, In ro outs /\ game_kind (o_class (ro_out ro)) = Some b /\ x = mk_grow (ro_wallet ro) b false tid h (ro_index ro).
Proof.
  intros tid h outs. unfold add_game_rows. induction outs as [|ro outs IH]; intros g x; cbn [fold_left].
  - split; [intros H; left; exact H|intros [H|(ro & b & [] & _)]; exact H].
  - rewrite IH. destruct (game_kind (o_class (ro_out ro))) as [b|] eqn:Ek.
    + rewrite g_put_in. split.
      * intros [[->|H]|(ro' & b' & H1 & H2 & H3)].
        -- right. exists ro, b. split; [left; reflexivity|split; [exact Ek|reflexivity]].
        -- left. exact H.
        -- right. exists ro', b'. split; [right; exact H1|split; assumption].
      * intros [H|(ro' & b' & [<-|H1] & H2 & H3)].
        -- left. right. exact H.
        -- left. left. rewrite Ek in H2. inversion H2; subst b'. exact H3.
        -- right. exists ro', b'. split; [exact H1|split; assumption].
    + split.
      * intros [H|(ro' & b' & H1 & H2 & H3)]; [left; exact H|right; exists ro', b'; split; [right; exact H1|split; assumption]].
      * intros [H|(ro' & b' & [<-|H1] & H2 & H3)]; [left; exact H|congruence|right; exists ro', b'; split; [exact H1|split; assumption]].
Qed.

Lemma add_game_rows_nodup : forall tid h outs g, NoDup g -> NoDup (add_game_rows g tid h outs).
Proof.
  intros tid h outs. unfold add_game_rows. induction outs as [|ro outs IH]; intros g H; cbn [fold_left]; [exact H|].
  apply IH. destruct (game_kind (o_class (ro_out ro))); [apply g_put_nodup; exact H|exact H].
Qed.

Lemma add_credits_rows_ok :
  forall p t h bid outs cs g,
    rows_ok cs g -> cred_unique (cs ++ map (new_credit p t h bid) outs) ->
    rows_ok (cs ++ map (new_credit p t h bid) outs) (add_game_rows g (t_id t) h outs).
Proof.
  intros p t h bid outs cs g R U. constructor.
  - intros c b Hc Hk. apply add_game_rows_in. apply in_app_or in Hc. destruct Hc as [Hc|Hc].
    + left. apply (ro_complete _ _ R); assumption.
    + right. apply in_map_iff in Hc. destruct Hc as [ro [<- Hro]]. exists ro, b. split; [exact Hro|]. split; [exact Hk|reflexivity].
  - intros r c Hr Hc Hsk. apply add_game_rows_in in Hr. destruct Hr as [Hr|(ro & b & Hro & Hk & ->)].
    + (* an old row: its credit is an old credit with the same key, hence the same credit *)
      destruct (ro_owned _ _ R r Hr) as [c0 [Hc0 Hsk0]].
      assert (E : c0 = c).
      { apply (cred_unique_eq _ c0 c U); [apply in_or_app; left; exact Hc0|exact Hc|].
        apply same_key_ckey in Hsk. apply same_key_ckey in Hsk0. congruence. }
      subst c0. apply (ro_accurate _ _ R r c Hr Hc0 Hsk).
    + assert (E : new_credit p t h bid ro = c).
      { apply (cred_unique_eq _ _ c U); [apply in_or_app; right; apply in_map; exact Hro|exact Hc|].
        apply same_key_ckey in Hsk. cbn in Hsk. rewrite Hsk. reflexivity. }
      subst c. exists b. split; [exact Hk|reflexivity].
  - intros r Hr. apply add_game_rows_in in Hr. destruct Hr as [Hr|(ro & b & Hro & Hk & ->)].
    + destruct (ro_owned _ _ R r Hr) as [c [Hc Hsk]]. exists c. split; [apply in_or_app; left; exact Hc|exact Hsk].
    + exists (new_credit p t h bid ro). split; [apply in_or_app; right; apply in_map; exact Hro|]. repeat split.
  - apply add_game_rows_nodup. exact (ro_nodup _ _ R).
Qed.

(* the deposit rows stay exactly the deposit credits when a mined record is applied *)
Theorem m_apply_rec_rows_ok :
  forall p h bid m r m', m_apply_rec p h bid m r = Some m' ->
    rows_ok (credits (m_w m)) (m_game m) -> cred_unique (credits (m_w m)) -> cred_unique (credits (m_w m')) ->
    rows_ok (credits (m_w m')) (m_game m').
Proof.
  intros p h bid m r m' H R U U'. unfold m_apply_rec in H.
  destruct (withdraw_ins (credits (m_w m)) (m_game m) (rr_tx r) h (rr_ins r)) as [[cs1 g1]|e] eqn:Ew; [|discriminate].
  destruct (withdraw_ins_rows_ok _ _ _ _ _ _ _ Ew R U) as [R1 U1].
  destruct (apply_outs p cs1 (rr_tx r) h bid (rr_outs r)) as [cs2|e] eqn:Ea; [|discriminate].
  inversion H; subst m'. cbn [m_w m_game credits] in *.
  rewrite (apply_outs_spec _ _ _ _ _ _ _ Ea) in *. apply add_credits_rows_ok; assumption.
Qed.

Theorem m_apply_recs_rows_ok :
  forall p h bid recs m m', m_apply_recs p h bid m recs = Some m' ->
    rows_ok (credits (m_w m)) (m_game m) ->
    (* key uniqueness of the credits holds in every intermediate state (C01's invariant) *)
    (forall k mk, m_apply_recs p h bid m (firstn k recs) = Some mk -> cred_unique (credits (m_w mk))) ->
    rows_ok (credits (m_w m')) (m_game m').
Proof.
  intros p h bid recs. induction recs as [|r recs IH]; intros m m' H R U; cbn in H.
  - inversion H; subst. exact R.
  - destruct (m_apply_rec p h bid m r) as [m1|] eqn:E; [|discriminate].
    apply (IH m1 m' H).
    + eapply m_apply_rec_rows_ok; [exact E|exact R|exact (U 0%nat m eq_refl)|].
      apply (U 1%nat m1). cbn. rewrite E. destruct recs; reflexivity.
    + intros k mk Hk. apply (U (S k) mk). cbn. rewrite E. exact Hk.
Qed.

(* ---- what GetStakingHistory / GetBindingHistory report for mined deposits *)

Definition hrow_of (s : pstate) (c : credit) (binding : bool) : hrow :=
  {| hr_tx := c_tx c; hr_vout := c_vout c; hr_amount := c_amount c; hr_sh := c_sh c;
     hr_frozen := (if binding then 0 else c_maturity c - 1); hr_height := c_height c;
     hr_spent := negb (is_unspent c);
     hr_sbu := (if is_unspent c then spent_by_unmined s (c_tx c, c_vout c) else false);
     hr_pending := false |}.

Lemma credit_by_height_some :
  forall cs tid h v c, credit_by_height cs tid h v = Some c -> In c cs /\ c_tx c = tid /\ c_height c = h /\ c_vout c = v.
Proof.
  intros cs tid h v c H. unfold credit_by_height in H. apply find_some in H. destruct H as [Hin E].
  rewrite !andb_true_iff in E. destruct E as ((E1 & E2) & E3).
  apply N.eqb_eq in E1. apply Z.eqb_eq in E2. apply N.eqb_eq in E3. auto.
Qed.

Lemma credit_by_height_unique :
  forall cs c, cred_unique cs -> In c cs -> credit_by_height cs (c_tx c) (c_height c) (c_vout c) = Some c.
Proof.
  intros cs c U Hc. unfold credit_by_height.
  destruct (find (fun c0 => (c_tx c0 =? c_tx c)%N && (c_height c0 =? c_height c) && (c_vout c0 =? c_vout c)%N) cs) as [c0|] eqn:E.
  - destruct (credit_by_height_some cs _ _ _ c0 E) as (H0 & A & B & C).
    f_equal. apply (cred_unique_eq cs c0 c U H0 Hc). unfold ckey. congruence.
  - exfalso. apply (find_none _ _ E) in Hc. rewrite !N.eqb_refl, Z.eqb_refl in Hc. discriminate.
Qed.

(* C10, history exact (mined deposits): the rows reported for wallet w are exactly its staking/binding
   credits — amount, address, frozen period and height of the credit, withdrawn iff the credit is spent,
   flagged iff a pending transaction is registered on it *)
Theorem mined_history_exact :
  forall n s w binding excl,
    rows_ok (credits (ps_w s)) (ps_game s) -> cred_unique (credits (ps_w s)) ->
    (forall c, In c (credits (ps_w s)) -> c_height c <> 0) ->
    forall hr, In hr (mined_history n s w binding excl) <->
      exists c, In c (credits (ps_w s)) /\ c_wallet c = w /\ game_kind (c_class c) = Some binding /\
                (excl = true -> is_unspent c = true) /\
                (binding = true -> binding_tx_readable n s (c_tx c) (c_height c) = true) /\
                hr = hrow_of s c binding.
Proof.
  intros n s w binding excl R U Hh hr. unfold mined_history. rewrite in_flat_map. split.
  - intros [r [Hr Hin]].
    destruct ((g_wallet r =? w)%N && Bool.eqb (g_binding r) binding && negb (excl && g_withdrawn r) && negb (g_height r =? 0)) eqn:Ec; [|destruct Hin].
    rewrite !andb_true_iff in Ec. destruct Ec as (((E1 & E2) & E3) & E4).
    apply N.eqb_eq in E1. apply Bool.eqb_prop in E2.
    destruct (credit_by_height (credits (ps_w s)) (g_tx r) (g_height r) (g_vout r)) as [c|] eqn:Ecr; [|destruct Hin].
    destruct (credit_by_height_some _ _ _ _ _ Ecr) as (Hc & A & B & C).
    destruct (ro_accurate _ _ R r c Hr Hc (conj A (conj B C))) as [b [Hk Er]].
    assert (Eb : b = binding) by (rewrite Er in E2; cbn in E2; exact E2). subst b.
    destruct (binding && negb (binding_tx_readable n s (g_tx r) (g_height r))) eqn:Erd; [destruct Hin|].
    destruct Hin as [<-|[]]. exists c. split; [exact Hc|]. split; [rewrite Er in E1; exact E1|]. split; [exact Hk|]. split; [|split].
    + intros ->. cbn in E3. rewrite Er in E3. cbn in E3. destruct (is_unspent c); [reflexivity|discriminate].
    + intros ->. cbn in Erd. rewrite <- A, <- B in Erd. destruct (binding_tx_readable n s (c_tx c) (c_height c)); [reflexivity|discriminate].
    + unfold hrow_of. rewrite <- A, <- B, <- C. reflexivity.
  - intros [c (Hc & Hw & Hk & Hex & Hrd & ->)].
    exists (row_of c binding). split; [apply (ro_complete _ _ R); assumption|].
    cbn [row_of mk_grow g_wallet g_binding g_withdrawn g_tx g_height g_vout].
    rewrite Hw, N.eqb_refl, Bool.eqb_reflx. cbn [andb].
    assert (E3 : negb (excl && negb (is_unspent c)) = true).
    { destruct excl; [rewrite (Hex eq_refl); reflexivity|reflexivity]. }
    rewrite E3. assert (E4 : negb (c_height c =? 0) = true).
    { destruct (c_height c =? 0) eqn:E; [apply Z.eqb_eq in E; exfalso; exact (Hh c Hc E)|reflexivity]. }
    rewrite E4. cbn [andb]. rewrite (credit_by_height_unique _ c U Hc).
    destruct binding.
    + rewrite (Hrd eq_refl). cbn. left. reflexivity.
    + cbn. left. reflexivity.
Qed.

Lemma NoDup_flat_map_keys :
  forall (A B K : Type) (f : A -> list B) (key : B -> K) (l : list A),
    NoDup l -> (forall a, (length (f a) <= 1)%nat) ->
    (forall a1 a2 b1 b2, In a1 l -> In a2 l -> In b1 (f a1) -> In b2 (f a2) -> key b1 = key b2 -> a1 = a2) ->
    NoDup (map key (flat_map f l)).
Proof.
  intros A B K f key l. induction l as [|a l IH]; intros ND Hlen Hinj; cbn [flat_map map]; [constructor|].
  inversion ND as [|x l' Hx Hl]; subst. rewrite map_app.
  assert (IHl : NoDup (map key (flat_map f l))).
  { apply IH; [exact Hl|exact Hlen|]. intros a1 a2 b1 b2 H1 H2. apply Hinj; right; assumption. }
  destruct (f a) as [|b [|b' rest]] eqn:Ef.
  - exact IHl.
  - cbn [map app]. constructor; [|exact IHl].
    intros Hin. apply in_map_iff in Hin. destruct Hin as [b2 [Ek Hb2]]. apply in_flat_map in Hb2. destruct Hb2 as [a2 [Ha2 Hf2]].
    assert (a = a2).
    { apply (Hinj a a2 b b2); [left; reflexivity|right; exact Ha2|rewrite Ef; left; reflexivity|exact Hf2|symmetry; exact Ek]. }
    subst a2. contradiction.
  - exfalso. specialize (Hlen a). rewrite Ef in Hlen. cbn in Hlen. lia.
Qed.

(* each deposit is listed once *)
Theorem mined_history_once :
  forall n s w binding excl,
    rows_ok (credits (ps_w s)) (ps_game s) ->
    NoDup (map (fun hr => (hr_tx hr, hr_height hr, hr_vout hr)) (mined_history n s w binding excl)).
Proof.
  intros n s w binding excl R. unfold mined_history.
  apply NoDup_flat_map_keys.
  - exact (ro_nodup _ _ R).
  - intros r.
    destruct ((g_wallet r =? w)%N && Bool.eqb (g_binding r) binding && negb (excl && g_withdrawn r) && negb (g_height r =? 0)); [|cbn; lia].
    destruct (credit_by_height (credits (ps_w s)) (g_tx r) (g_height r) (g_vout r)); [|cbn; lia].
    destruct (binding && negb (binding_tx_readable n s (g_tx r) (g_height r))); cbn; lia.
  - intros r1 r2 b1 b2 Hr1 Hr2 Hb1 Hb2 Ek.
    assert (Hone : forall r b, In r (ps_game s) ->
              In b (if (g_wallet r =? w)%N && Bool.eqb (g_binding r) binding && negb (excl && g_withdrawn r) && negb (g_height r =? 0)
                    then match credit_by_height (credits (ps_w s)) (g_tx r) (g_height r) (g_vout r) with
                         | Some c => if binding && negb (binding_tx_readable n s (g_tx r) (g_height r)) then []
                                     else [ {| hr_tx := g_tx r; hr_vout := g_vout r; hr_amount := c_amount c; hr_sh := c_sh c;
                                               hr_frozen := (if binding then 0 else c_maturity c - 1); hr_height := g_height r;
                                               hr_spent := negb (is_unspent c);
                                               hr_sbu := (if is_unspent c then spent_by_unmined s (g_tx r, g_vout r) else false);
                                               hr_pending := false |} ]
                         | None => []
                         end
                    else []) ->
              (hr_tx b, hr_height b, hr_vout b) = (g_tx r, g_height r, g_vout r) /\
              exists c bb, In c (credits (ps_w s)) /\ same_key r c /\ r = row_of c bb).
    { intros r b Hr Hb.
      destruct ((g_wallet r =? w)%N && Bool.eqb (g_binding r) binding && negb (excl && g_withdrawn r) && negb (g_height r =? 0)); [|destruct Hb].
      destruct (credit_by_height (credits (ps_w s)) (g_tx r) (g_height r) (g_vout r)) as [c|] eqn:E; [|destruct Hb].
      destruct (binding && negb (binding_tx_readable n s (g_tx r) (g_height r))); [destruct Hb|].
      destruct Hb as [<-|[]]. split; [reflexivity|].
      destruct (credit_by_height_some _ _ _ _ _ E) as (Hc & A & B & C).
      destruct (ro_accurate _ _ R r c Hr Hc (conj A (conj B C))) as [bb [_ Er]].
      exists c, bb. split; [exact Hc|]. split; [exact (conj A (conj B C))|exact Er]. }
    destruct (Hone r1 b1 Hr1 Hb1) as [K1 (c1 & bb1 & Hc1 & Hs1 & E1)].
    destruct (Hone r2 b2 Hr2 Hb2) as [K2 (c2 & bb2 & Hc2 & Hs2 & E2)].
    assert (Ekk : (g_tx r1, g_height r1, g_vout r1) = (g_tx r2, g_height r2, g_vout r2)) by congruence.
    (* r2 has the key of c1 as well: by accuracy it is the row of c1 *)
    assert (Hs21 : same_key r2 c1).
    { destruct Hs1 as (A & B & C). inversion Ekk. unfold same_key. repeat split; congruence. }
    destruct (ro_accurate _ _ R r2 c1 Hr2 Hc1 Hs21) as [b3 [K3 E3]].
    destruct (ro_accurate _ _ R r1 c1 Hr1 Hc1 Hs1) as [b4 [K4 E4]].
    congruence.
Qed.

(* ---- rollback: a withdrawal that is reorganised away shows the deposit as not withdrawn again *)

Lemma unwithdraw_ins_effect :
  forall idx cs g tid h g', unwithdraw_ins cs g tid h idx = POk g' ->
    (* every flipped row is the row of a debit of this transaction *)
    (forall x, In x g' -> In x g \/ exists i c b, In i idx /\ debit_of cs tid i h = Some c /\ game_kind (c_class c) = Some b /\
                                       x = mk_grow (c_wallet c) b false (c_tx c) (c_height c) (c_vout c)) /\
    (forall x, In x g -> In x g' \/ exists i c b, In i idx /\ debit_of cs tid i h = Some c /\ game_kind (c_class c) = Some b /\
                                       x = mk_grow (c_wallet c) b true (c_tx c) (c_height c) (c_vout c)) /\
    (* the last debit's deposit is shown as not withdrawn *)
    (NoDup g -> NoDup g').
Proof.
  induction idx as [|i idx IH]; intros cs g tid h g' H; cbn [unwithdraw_ins] in H.
  - inversion H; subst. repeat split; auto.
  - destruct (debit_of cs tid i h) as [c|] eqn:Ed.
    + destruct (game_kind (c_class c)) as [b|] eqn:Ek.
      * destruct (g_mem _ g) eqn:Em; [|discriminate].
        destruct (IH _ _ _ _ _ H) as (A & B & C). split; [|split].
        -- intros x Hx. destruct (A x Hx) as [Hg|(j & c2 & b2 & Hj & P1 & P2 & P3)].
           ++ apply g_put_in in Hg. destruct Hg as [->|Hg].
              ** right. exists i, c, b. split; [left; reflexivity|]. auto.
              ** apply g_del_in in Hg. left. exact (proj1 Hg).
           ++ right. exists j, c2, b2. split; [right; exact Hj|]. auto.
        -- intros x Hx.
           destruct (grow_eqb (mk_grow (c_wallet c) b true (c_tx c) (c_height c) (c_vout c)) x) eqn:Ex.
           ++ apply grow_eqb_eq in Ex. right. exists i, c, b. split; [left; reflexivity|]. auto.
           ++ assert (Hx1 : In x (g_put (g_del g (mk_grow (c_wallet c) b true (c_tx c) (c_height c) (c_vout c)))
                                        (mk_grow (c_wallet c) b false (c_tx c) (c_height c) (c_vout c)))).
              { apply g_put_in. right. apply g_del_in. split; [exact Hx|]. intros ->.
                rewrite (proj2 (grow_eqb_eq _ _) eq_refl) in Ex. discriminate. }
              destruct (B x Hx1) as [Hg'|(j & c2 & b2 & Hj & P1 & P2 & P3)]; [left; exact Hg'|].
              right. exists j, c2, b2. split; [right; exact Hj|]. auto.
        -- intros ND. apply C. apply g_put_nodup. apply g_del_nodup. exact ND.
      * destruct (IH _ _ _ _ _ H) as (A & B & C). split; [|split]; [| |exact C].
        -- intros x Hx. destruct (A x Hx) as [Hg|(j & c2 & b2 & Hj & P)]; [left; exact Hg|right; exists j, c2, b2; split; [right; exact Hj|exact P]].
        -- intros x Hx. destruct (B x Hx) as [Hg|(j & c2 & b2 & Hj & P)]; [left; exact Hg|right; exists j, c2, b2; split; [right; exact Hj|exact P]].
    + destruct (IH _ _ _ _ _ H) as (A & B & C). split; [|split]; [| |exact C].
      * intros x Hx. destruct (A x Hx) as [Hg|(j & c2 & b2 & Hj & P)]; [left; exact Hg|right; exists j, c2, b2; split; [right; exact Hj|exact P]].
      * intros x Hx. destruct (B x Hx) as [Hg|(j & c2 & b2 & Hj & P)]; [left; exact Hg|right; exists j, c2, b2; split; [right; exact Hj|exact P]].
Qed.

