(* Ledger/PendingProofs.v — lemmas and proofs about Ledger/Pending.v (properties C09 and C10). *)
From Coq Require Import List ZArith NArith Bool Lia.
Import ListNotations.
Open Scope Z_scope.
Require Import MW.Ledger.Model MW.Ledger.Spec MW.Ledger.Run MW.Ledger.Pending.

(* ================================================================ small facts *)

Lemma op_eqb_refl : forall o, op_eqb o o = true.
Proof. intros [a b]. unfold op_eqb. cbn. rewrite !N.eqb_refl. reflexivity. Qed.

Lemma op_eqb_eq : forall a b, op_eqb a b = true <-> a = b.
Proof.
  intros [a1 a2] [b1 b2]. unfold op_eqb. cbn. rewrite andb_true_iff, !N.eqb_eq. split.
  - intros [-> ->]. reflexivity.
  - intros H. inversion H. split; reflexivity.
Qed.

Lemma op_eqb_sym : forall a b, op_eqb a b = op_eqb b a.
Proof. intros [a1 a2] [b1 b2]. unfold op_eqb. cbn. rewrite (N.eqb_sym a1), (N.eqb_sym a2). reflexivity. Qed.

(* ================================================================ C09: receiving does not touch the ledger *)

(* receive_store never changes the mined side: credits, sync, block records, mined deposit rows *)
Lemma receive_store_mined :
  forall p own n s t s', receive_store p own n s t = POk (Some s') ->
    ps_w s' = ps_w s /\ ps_blocks s' = ps_blocks s /\ ps_game s' = ps_game s.
Proof.
  intros p own n s t s' H. unfold receive_store in H.
  destruct (if t_cb t then Ok [] else filter_ins_unmined own (lookup_pending n (ps_unmined s)) (t_ins t) 0%N) as [ins|e]; [|discriminate].
  set (outs := filter_outs own (t_outs t) 0%N) in *.
  set (s1 := match um_get (ps_unmined s) (t_id t) with
             | Some _ => s
             | None => set_uinputs (set_unmined s (um_put (ps_unmined s) (t_id t) (USer t)))
                         (fold_left (fun ui ri => ui_append ui (ri_prev ri) (t_id t)) ins
                                    (ps_uinputs (set_unmined s (um_put (ps_unmined s) (t_id t) (USer t)))))
             end) in *.
  assert (Hs1 : ps_w s1 = ps_w s /\ ps_blocks s1 = ps_blocks s /\ ps_game s1 = ps_game s).
  { subst s1. destruct (um_get (ps_unmined s) (t_id t)); cbn; auto. }
  destruct Hs1 as (Hw & Hb & Hg).
  assert (Hfin : forall x, (if t_cb t then PErr ECoinbaseUnmined
                 else match outs with
                      | [] => POk (Some s1)
                      | _ :: _ => match add_ucredits p (credits (ps_w s1)) (ps_ucredits s1) (t_id t) outs with
                                  | PErr e => PErr e
                                  | POk ucs => POk (Some (set_ugame (set_ucredits s1 ucs) (add_ugame (ps_ugame s1) (t_id t) outs)))
                                  end
                      end) = POk (Some x) -> ps_w x = ps_w s /\ ps_blocks x = ps_blocks s /\ ps_game x = ps_game s).
  { intros x Hx. destruct (t_cb t); [discriminate|].
    destruct outs as [|o outs'].
    - inversion Hx; subst x. auto.
    - destruct (add_ucredits p (credits (ps_w s1)) (ps_ucredits s1) (t_id t) (o :: outs')); [|discriminate].
      inversion Hx; subst x. cbn. auto. }
  destruct ins as [|i ins']; destruct outs as [|o outs'] eqn:Eo; try discriminate; apply Hfin; exact H.
Qed.

Theorem receive_tx_not_counted :
  forall p own n hs t,
    let hs' := fst (receive_tx p own n hs t) in
    ps_w (h_store hs') = ps_w (h_store hs) /\ ps_game (h_store hs') = ps_game (h_store hs) /\
    ps_blocks (h_store hs') = ps_blocks (h_store hs) /\
    forall w, model_report (ps_w (h_store hs')) w = model_report (ps_w (h_store hs)) w.
Proof.
  intros p own n hs t. cbv zeta. unfold receive_tx.
  destruct (mem_n (t_id t) (h_mempool hs)); cbn [fst]; [auto|].
  destruct (receive_store p own n (h_store hs) t) as [[s'|]|e] eqn:E; cbn [fst]; auto.
  cbn [h_store]. destruct (receive_store_mined _ _ _ _ _ _ E) as (Hw & Hb & Hg).
  rewrite Hw, Hg, Hb. auto.
Qed.

(* ================================================================ C09/C10: selection *)

Theorem eligible_not_flagged :
  forall s c, spent_by_unmined s (credit_op c) = true -> eligible s c = false.
Proof.
  intros s c H. unfold eligible. rewrite H. cbn. rewrite andb_false_r. reflexivity.
Qed.

Theorem eligible_is_standard :
  forall s c, eligible s c = true ->
    is_std c = true /\ is_staking c = false /\ is_binding c = false /\ is_unspent c = true /\
    mature (ps_w s) c = true /\ spent_by_unmined s (credit_op c) = false.
Proof.
  intros s c H. unfold eligible in H. rewrite !andb_true_iff in H. destruct H as (((Hm & Hf) & Hu) & Hs).
  unfold is_std, is_staking, is_binding in *. destruct (c_class c); try discriminate.
  repeat split; auto. destruct (spent_by_unmined s (credit_op c)); [discriminate|reflexivity].
Qed.

Theorem eligible_list_sound :
  forall s w c, In c (eligible_list s w) ->
    In c (credits (ps_w s)) /\ c_wallet c = w /\ eligible s c = true.
Proof.
  intros s w c H. unfold eligible_list in H. apply filter_In in H. destruct H as [H He].
  unfold listed_unspent in H. apply filter_In in H. destruct H as [H _].
  unfold wallet_unspent in H. apply filter_In in H. destruct H as [H Hw].
  rewrite andb_true_iff in Hw. destruct Hw as [Hw _]. apply N.eqb_eq in Hw. auto.
Qed.

(* ================================================================ C10: lock arithmetic *)

Lemma pow2_39_pos : 0 < 2 ^ 39. Proof. reflexivity. Qed.

(* the sequence the wallet writes satisfies the engine's CHECKSEQUENCEVERIFY for that deposit, and is
   the least such sequence (so the withdrawal is valid in the earliest block consensus allows) *)
Theorem built_sequence_required :
  forall bp locktime cls h,
    0 <= bp_bindlock bp < 2 ^ 32 ->
    (forall f, cls = CStaking f -> 0 <= f < 2 ^ 32 - 1) ->
    match required_sequence bp cls h with
    | Some v => built_sequence bp locktime cls h = v /\ csv_ok (Some v) (built_sequence bp locktime cls h) = true /\
                (forall s, csv_ok (Some v) s = true -> 0 <= s -> v <= s)
    | None => True
    end.
Proof.
  intros bp locktime cls h Hb Hf. unfold required_sequence, csv_operand, built_sequence.
  assert (Hok : forall v, 0 <= v < 2 ^ 32 -> csv_ok (Some v) v = true /\ (forall s, csv_ok (Some v) s = true -> 0 <= s -> v <= s)).
  { intros v Hv. unfold csv_ok, seq_disabled_bit. split.
    - rewrite Z.mod_small by (change (2 ^ 39) with 549755813888; change (2 ^ 32) with 4294967296 in Hv; lia).
      change (2 ^ 63) with 9223372036854775808. change (2 ^ 38) with 274877906944. change (2 ^ 32) with 4294967296 in Hv.
      rewrite !andb_true_iff. repeat split; [apply Z.ltb_lt|apply Z.leb_le|apply Z.ltb_lt]; lia.
    - intros s Hs Hs0. rewrite !andb_true_iff in Hs. destruct Hs as ((_ & Hle) & _). apply Z.leb_le in Hle.
      pose proof (Z.mod_le s (2 ^ 39) Hs0 pow2_39_pos). lia. }
  destruct cls as [|f| | |]; try exact I.
  - specialize (Hf f eq_refl). destruct (Hok (f + 1)) as [H1 H2]; [lia|]. auto.
  - destruct (bp_warmup bp <=? h); [|exact I]. destruct (Hok (bp_bindlock bp) Hb) as [H1 H2]. auto.
  - destruct (bp_warmup bp <=? h); [|exact I]. destruct (Hok (bp_bindlock bp) Hb) as [H1 H2]. auto.
Qed.

(* with the sequence the wallet writes, consensus (calcSequenceLock + SequenceLockActive) admits the
   withdrawal in the block at height [next] exactly from height  deposit + operand  on *)
Lemma sequence_lock_active_iff :
  forall h v next, 0 <= v < 2 ^ 32 ->
    sequence_lock_active h v next = true <-> h + v <= next.
Proof.
  intros h v next Hv. unfold sequence_lock_active, sequence_lock_height, seq_disabled_bit.
  change (2 ^ 63) with 9223372036854775808. change (2 ^ 32) with 4294967296 in *.
  destruct (9223372036854775808 <=? v) eqn:E; [apply Z.leb_le in E; lia|].
  rewrite Z.mod_small by lia. rewrite Z.ltb_lt. lia.
Qed.

(* the wallet's maturity test on a credit whose stored maturity is the script's
   (every credit of a non-coinbase transaction: see apply_outs_maturity) *)
Theorem mature_iff_consensus :
  forall p bp st c,
    c_maturity c = maturity_of p false (c_class c) ->
    bp_bindlock bp = p_bindlock p ->
    (* the deposit is a staking output, or a binding output of the kind consensus admits at its height *)
    (match c_class c with
     | CStaking f => 0 <= f < 2 ^ 32 - 1
     | CBindingNew => bp_warmup bp <= c_height c
     | CBindingOld => c_height c < bp_warmup bp
     | _ => False
     end) ->
    0 <= p_bindlock p < 2 ^ 32 ->
    c_height c <= fst (tip st) ->           (* the credit is in a block of the synced chain *)
    let next := fst (tip st) + 1 in
    mature st c = true <->
    match csv_operand bp (c_class c) (c_height c) with
    | Some v => sequence_lock_active (c_height c) v next = true
    | None => True
    end.
Proof.
  intros p bp st c Hm Hbl Hcls Hb Hh. cbv zeta. unfold mature, confs. rewrite Hm. unfold maturity_of, csv_operand.
  assert (P32 : 2 ^ 32 = 4294967296) by reflexivity.
  destruct (c_class c) as [|f| | |] eqn:Ec; try contradiction.
  - rewrite sequence_lock_active_iff by lia. rewrite Z.leb_le. lia.
  - assert (E : bp_warmup bp <=? c_height c = false) by (apply Z.leb_gt; lia). rewrite E.
    rewrite Z.leb_le. split; auto. intros _. lia.
  - assert (E : bp_warmup bp <=? c_height c = true) by (apply Z.leb_le; lia). rewrite E.
    rewrite Hbl. rewrite sequence_lock_active_iff by lia. rewrite Z.leb_le. lia.
Qed.

(* staking: withdrawable exactly when the next height reaches deposit height + frozen period + 1 *)
Corollary staking_withdrawable_iff :
  forall p st c f, c_class c = CStaking f -> c_maturity c = maturity_of p false (c_class c) ->
    (mature st c = true <-> c_height c + f + 1 <= fst (tip st) + 1).
Proof.
  intros p st c f Hc Hm. unfold mature, confs. rewrite Hm, Hc. cbn. rewrite Z.leb_le. lia.
Qed.

(* a new-style binding deposit is never withdrawable within 2^32 - 2 blocks *)
Corollary new_binding_locked :
  forall p st c, c_class c = CBindingNew -> c_maturity c = maturity_of p false (c_class c) ->
    p_bindlock p = 2 ^ 32 - 2 ->
    mature st c = true -> c_height c + (2 ^ 32 - 2) <= fst (tip st) + 1.
Proof.
  intros p st c Hc Hm Hp H. unfold mature, confs in H. rewrite Hm, Hc in H. cbn in H. apply Z.leb_le in H. lia.
Qed.

(* credits created by AddCredits carry the script's maturity, except under a coinbase *)
Lemma apply_outs_maturity :
  forall p t h bid outs cs cs',
    apply_outs p cs t h bid outs = Ok cs' ->
    (forall c, In c cs -> c_maturity c = maturity_of p (t_cb t) (c_class c) \/ c_tx c <> t_id t) ->
    forall c, In c cs' -> c_maturity c = maturity_of p (t_cb t) (c_class c) \/ c_tx c <> t_id t.
Proof.
  intros p t h bid outs. induction outs as [|ro rest IH]; intros cs cs' H Hcs c Hc; cbn in H.
  - inversion H; subst. auto.
  - destruct (exists_credit_at cs (t_id t, ro_index ro) h bid); [discriminate|].
    eapply IH; [exact H| |exact Hc].
    intros c0 Hc0. apply in_app_or in Hc0. destruct Hc0 as [Hc0|[<-|[]]]; auto.
Qed.

(* the wallet's rule and consensus differ on coinbase deposits: the stored maturity of a coinbase
   output is the coinbase maturity whatever its script says *)
Theorem coinbase_deposit_maturity_refuted :
  exists p bp st c,
    c_maturity c = maturity_of p true (c_class c) /\ c_class c = CStaking 10 /\
    mature st c = true /\
    match csv_operand bp (c_class c) (c_height c) with
    | Some v => sequence_lock_active (c_height c) v (fst (tip st) + 1) = false
    | None => False
    end.
Proof.
  exists {| p_cbmat := 4; p_bindlock := 4294967294 |}, {| bp_warmup := 100; bp_bindlock := 4294967294 |},
         {| credits := []; synced := [(5, 5%N)] |},
         {| c_tx := 1; c_vout := 0; c_height := 2; c_bid := 2; c_amount := 7; c_sh := 1; c_wallet := 1;
            c_class := CStaking 10; c_maturity := 4; c_spent := None |}.
  vm_compute. repeat split; reflexivity.
Qed.
