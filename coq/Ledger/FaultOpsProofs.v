(* Ledger/FaultOpsProofs.v — C18: the programs of Ledger/FaultOps.v run without fault ARE the
   operations of the existing models, and the generic fault theorem (FaultGenProofs.v) instantiated
   for each of them. *)
From Coq Require Import List ZArith NArith Bool Lia.
Import ListNotations.
Open Scope Z_scope.
Require Import MW.Ledger.Model MW.Ledger.Spec MW.Ledger.Run MW.Ledger.FaultGen MW.Ledger.FaultGenProofs.
Require MW.Ledger.Crash MW.Ledger.Pending MW.Ledger.Fault MW.Ledger.FaultProofs.
Require Import MW.Ledger.Import MW.Ledger.Remove MW.Ledger.RemoveProofs MW.Ledger.FaultOps.

(* a clean operation with an idle repair: what the generic theorem gives *)
Lemma clean_idle : forall (St Vm X R E : Type) (efault : E) (o : oper St Vm X R E),
  propagates efault (body o) -> clean (body o) -> (forall u s m, undo o u s m = m) ->
  forall s m,
  (forall k u, (k < ncalls o s m)%nat -> attempt efault o (Fault k u) s m = (s, m, inl efault)) /\
  (forall fs, retry efault o fs s m = attempt efault o NoFault s m).
Proof.
  intros St Vm X R E efault o Hp Hc Hu s m.
  apply fault_generic_clean; [exact Hp|exact Hc|intros u; apply Hu].
Qed.

(* the generic theorem for the faults of a class A after which the memory is restored *)
Lemma some_undone : forall (St Vm X R E : Type) (efault : E) (o : oper St Vm X R E) (A : fault -> Prop) s m,
  propagates efault (body o) -> (forall f, A f -> undone efault o s m f) ->
  (forall k u, A (Fault k u) -> (k < ncalls o s m)%nat -> attempt efault o (Fault k u) s m = (s, m, inl efault)) /\
  (forall fs, Forall A fs -> retry efault o fs s m = attempt efault o NoFault s m).
Proof.
  intros St Vm X R E efault o A s m Hp Hu. destruct (fault_generic St Vm X R E efault o s m Hp) as [H1 H2]. split.
  - intros k u Ha Hk. destruct (H1 (Fault k u) (Hu _ Ha)) as [H _]. apply (H k u eq_refl Hk).
  - intros fs Hfs. apply H2. apply Forall_forall. intros f Hf. apply Hu.
    apply (proj1 (Forall_forall A fs) Hfs f Hf).
Qed.

(* ================================================================ 1. block and reorganisation processing *)

Section ProcessProofs.
Variables (p : params) (own : owner_fn) (n : node).

Lemma connect_prog_propagates : forall bs, propagates EOther (connect_prog p own n bs).
Proof. induction bs as [|b r IH]; cbn [connect_prog]; [apply PRet|apply propagates_Call; intros _; exact IH]. Qed.
Lemma connect_prog_clean : forall bs, clean (connect_prog p own n bs).
Proof. induction bs as [|b r IH]; cbn [connect_prog]; [apply CRet|apply clean_Call; intros _; exact IH]. Qed.

Lemma process_prog_propagates : forall b, propagates EOther (process_prog p own n b).
Proof.
  intros b. apply PLook. intros best. destruct (snd best =? b_prev b)%N.
  - apply connect_prog_propagates.
  - apply propagates_Read. intros [[fork bs]|]; [|apply PRaise].
    apply propagates_Write. apply connect_prog_propagates.
Qed.
Lemma process_prog_clean : forall b, clean (process_prog p own n b).
Proof.
  intros b. apply CLook. intros best. destruct (snd best =? b_prev b)%N.
  - apply connect_prog_clean.
  - apply clean_Read. intros [[fork bs]|]; [|apply CRaise].
    apply clean_Write. apply connect_prog_clean.
Qed.

Lemma exec_connect_prog : forall bs c t (m : Z * N),
  exec (connect_prog p own n bs) None t m =
  match connect_all p true own c n t bs with
  | Ok t' => (inr (t', tt), m, None)
  | Err e => (inl e, m, None)
  end.
Proof.
  induction bs as [|b r IH]; intros c t m.
  - reflexivity.
  - cbn [connect_prog connect_all]. rewrite exec_Call. unfold connect_step.
    destruct (node_at n (b_height b)) as [nb|]; [|reflexivity].
    destruct (negb (b_id nb =? b_id b)%N); [reflexivity|].
    change (connect_block p true own (credits t) (node_tx n) t b) with (connect_block p true own c (node_tx n) t b).
    destruct (connect_block p true own c (node_tx n) t b) as [t'|e]; [apply IH|reflexivity].
Qed.

(* the program run without fault is processConnectedBlock of the model *)
Lemma process_attempt : forall b st best,
  attempt EOther (process_op p own n b) NoFault st best =
  match Crash.process_best p own n best st b with
  | Ok st' => (st', (b_height b, b_id b), inr tt)
  | Err e => (st, best, inl e)
  end.
Proof.
  intros b st best. rewrite attempt_nofault. unfold quiet, Crash.process_best.
  cbn [body post undo process_op process_prog exec].
  destruct (snd best =? b_prev b)%N.
  - rewrite (exec_connect_prog [b] (credits st)).
    destruct (connect_all p true own (credits st) n st [b]); reflexivity.
  - rewrite exec_Read.
    destruct (collect n st (S (Z.to_nat (b_height b))) b []) as [[fork bs]|]; [|reflexivity].
    rewrite exec_Write. rewrite (exec_connect_prog bs (credits st)).
    destruct (connect_all p true own (credits st) n (rollback_to st (fork + 1)) bs); reflexivity.
Qed.

(* C18 for block and reorganisation processing *)
Theorem process_fault_retry : forall b st best,
  (forall k u, (k < ncalls (process_op p own n b) st best)%nat ->
     attempt EOther (process_op p own n b) (Fault k u) st best = (st, best, inl EOther)) /\
  (forall fs, retry EOther (process_op p own n b) fs st best =
     match Crash.process_best p own n best st b with
     | Ok st' => (st', (b_height b, b_id b), inr tt)
     | Err e => (st, best, inl e)
     end).
Proof.
  intros b st best.
  destruct (clean_idle _ _ _ _ _ EOther (process_op p own n b) (process_prog_propagates b) (process_prog_clean b)
              (fun _ _ _ => eq_refl) st best) as [H1 H2].
  split; [exact H1|]. intros fs. rewrite H2. apply process_attempt.
Qed.

(* ... in terms of Model.process, for a handler whose copy of the tip is the stored one *)
Corollary process_fault_retry_model : forall b st fs,
  fst (fst (retry EOther (process_op p own n b) fs st (tip st))) = process_or_keep p true own n st b.
Proof.
  intros b st fs. destruct (process_fault_retry b st (tip st)) as [_ H]. rewrite H.
  change (Crash.process_best p own n (tip st) st b) with (process p true own n st b).
  unfold process_or_keep. destruct (process p true own n st b); reflexivity.
Qed.

End ProcessProofs.

(* ================================================================ 2. the ledger with its pending set *)

Section PendingProofs.
Variables (p : params) (a3fix : bool) (own : owner_fn) (n : node).

(* the handler state as store and memory *)
Definition hs_mem (hs : Pending.hstate) : hmem := (Pending.h_mempool hs, Pending.h_expired hs).
Definition hs_mk (s : Pending.pstate) (m : hmem) : Pending.hstate :=
  {| Pending.h_store := s; Pending.h_mempool := fst m; Pending.h_expired := snd m |}.

Lemma pconnect_prog_propagates : forall bs cum rolled acc, propagates qfault (pconnect_prog p own n cum rolled acc bs).
Proof.
  induction bs as [|b r IH]; intros cum rolled acc; cbn [pconnect_prog];
    [apply PRet|apply propagates_Call; intros a; apply IH].
Qed.
Lemma pconnect_prog_clean : forall bs cum rolled acc, clean (pconnect_prog p own n cum rolled acc bs).
Proof.
  induction bs as [|b r IH]; intros cum rolled acc; cbn [pconnect_prog];
    [apply CRet|apply clean_Call; intros a; apply IH].
Qed.

Lemma pprocess_prog_propagates : forall b, propagates qfault (pprocess_prog p a3fix own n b).
Proof.
  intros b. apply propagates_Read. intros a. cbv zeta.
  destruct (snd (fst (fst (fst a))) =? b_prev b)%N; [apply pconnect_prog_propagates|].
  destruct (snd (fst a)) as [[fork bs]|]; [|apply PRaise].
  apply propagates_Write. apply pconnect_prog_propagates.
Qed.
Lemma pprocess_prog_clean : forall b, clean (pprocess_prog p a3fix own n b).
Proof.
  intros b. apply clean_Read. intros a. cbv zeta.
  destruct (snd (fst (fst (fst a))) =? b_prev b)%N; [apply pconnect_prog_clean|].
  destruct (snd (fst a)) as [[fork bs]|]; [|apply CRaise].
  apply clean_Write. apply pconnect_prog_clean.
Qed.

Lemma exec_pconnect_prog : forall bs cum rolled acc t (m : hmem),
  exec (pconnect_prog p own n cum rolled acc bs) None t m =
  match Pending.p_connect_all p own n cum t bs with
  | Pending.POk (s', added) => (inr (s', (rolled, acc ++ added)), m, None)
  | Pending.PErr e => (inl e, m, None)
  end.
Proof.
  induction bs as [|b r IH]; intros cum rolled acc t m.
  - cbn. rewrite app_nil_r. reflexivity.
  - cbn [pconnect_prog Pending.p_connect_all]. rewrite exec_Call. unfold pconnect_step.
    destruct (node_at n (b_height b)) as [nb|]; [|reflexivity].
    destruct (negb (b_id nb =? b_id b)%N); [reflexivity|].
    destruct (Pending.p_connect_block p own n cum t b) as [[t' ids]|e]; [|reflexivity].
    rewrite IH. cbn [snd].
    destruct (Pending.p_connect_all p own n cum t' r) as [[s'' added]|e]; [|reflexivity].
    rewrite <- app_assoc. reflexivity.
Qed.

Lemma vol_update_eq : forall hs s' rolled added,
  vol_update (rolled, added) (hs_mem hs) =
  hs_mem (Pending.update_volatile hs s' rolled added).
Proof. intros hs s' rolled added. reflexivity. Qed.

Lemma hs_mk_mem : forall hs, hs_mk (Pending.h_store hs) (hs_mem hs) = hs.
Proof. intros [s mp ex]. reflexivity. Qed.

(* the program run without fault is processConnectedBlock of the Pending model *)
Lemma pprocess_attempt : forall b hs,
  match Pending.pprocess p a3fix own n hs b with
  | Pending.POk hs' => exists r, attempt qfault (pprocess_op p a3fix own n b) NoFault (Pending.h_store hs) (hs_mem hs) =
                                 (Pending.h_store hs', hs_mem hs', inr r)
  | Pending.PErr e => attempt qfault (pprocess_op p a3fix own n b) NoFault (Pending.h_store hs) (hs_mem hs) =
                      (Pending.h_store hs, hs_mem hs, inl e)
  end.
Proof.
  intros b hs. rewrite attempt_nofault. unfold quiet, Pending.pprocess.
  unfold pprocess_op. cbn [body post undo]. unfold pprocess_prog. rewrite exec_Read. cbv zeta. cbn [fst snd].
  destruct (snd (tip (Pending.ps_w (Pending.h_store hs))) =? b_prev b)%N.
  - rewrite exec_pconnect_prog.
    destruct (Pending.p_connect_all p own n (Pending.ps_unmined (Pending.h_store hs)) (Pending.h_store hs) [b])
      as [[s' added]|e]; cbn [fst snd app].
    + eexists. rewrite (vol_update_eq hs s'). reflexivity.
    + reflexivity.
  - destruct (collect n (Pending.ps_w (Pending.h_store hs)) (S (Z.to_nat (b_height b))) b []) as [[fork bs]|];
      [|reflexivity].
    rewrite exec_Write.
    destruct (Pending.p_rollback_to a3fix own (Pending.h_store hs) (fork + 1)) as [s1|e]; [|reflexivity].
    rewrite exec_pconnect_prog.
    destruct (Pending.p_connect_all p own n (Pending.ps_unmined (Pending.h_store hs)) s1 bs)
      as [[s' added]|e]; cbn [fst snd app].
    + eexists. rewrite (vol_update_eq hs s'). reflexivity.
    + reflexivity.
Qed.

(* C18 for block and reorganisation processing with the pending set and the handler's mempool *)
Theorem pprocess_fault_retry : forall b hs,
  (forall k u, (k < ncalls (pprocess_op p a3fix own n b) (Pending.h_store hs) (hs_mem hs))%nat ->
     attempt qfault (pprocess_op p a3fix own n b) (Fault k u) (Pending.h_store hs) (hs_mem hs) =
     (Pending.h_store hs, hs_mem hs, inl qfault)) /\
  (forall fs,
     let '(s', m', r) := retry qfault (pprocess_op p a3fix own n b) fs (Pending.h_store hs) (hs_mem hs) in
     hs_mk s' m' = Pending.pprocess_or_keep p a3fix own n hs b /\
     match r, Pending.pprocess p a3fix own n hs b with
     | inr _, Pending.POk _ => True
     | inl e, Pending.PErr e' => e = e'
     | _, _ => False
     end).
Proof.
  intros b hs.
  destruct (clean_idle _ _ _ _ _ qfault (pprocess_op p a3fix own n b) (pprocess_prog_propagates b) (pprocess_prog_clean b)
              (fun _ _ _ => eq_refl) (Pending.h_store hs) (hs_mem hs)) as [H1 H2].
  split; [exact H1|]. intros fs. rewrite H2.
  pose proof (pprocess_attempt b hs) as Ha. unfold Pending.pprocess_or_keep.
  destruct (Pending.pprocess p a3fix own n hs b) as [hs'|e].
  - destruct Ha as [r Ha]. rewrite Ha. split; [apply hs_mk_mem|exact I].
  - rewrite Ha. split; [apply hs_mk_mem|reflexivity].
Qed.

(* ---- receiving an unconfirmed transaction *)

Lemma receive_prog_propagates : forall t, propagates qfault (receive_prog p own n t).
Proof.
  intros t. apply PLook. intros m. destruct (Pending.mem_n (t_id t) (fst m)); [apply PRet|].
  apply propagates_Call. intros x. apply PRet.
Qed.
Lemma receive_prog_clean : forall t, clean (receive_prog p own n t).
Proof.
  intros t. apply CLook. intros m. destruct (Pending.mem_n (t_id t) (fst m)); [apply CRet|].
  apply clean_Call. intros x. apply CRet.
Qed.

Definition rres_of (r : Pending.perr2 + Pending.rres) : Pending.rres :=
  match r with inl _ => Pending.RError | inr x => x end.

Lemma receive_attempt : forall t hs,
  let '(s', m', r) := attempt qfault (receive_op p own n t) NoFault (Pending.h_store hs) (hs_mem hs) in
  (hs_mk s' m', rres_of r) = Pending.receive_tx p own n hs t.
Proof.
  intros t hs. rewrite attempt_nofault. unfold quiet, Pending.receive_tx.
  cbn [body post undo receive_op receive_prog exec hs_mem fst snd].
  destruct (Pending.mem_n (t_id t) (Pending.h_mempool hs)).
  - cbn. rewrite (hs_mk_mem hs). reflexivity.
  - rewrite exec_Call.
    destruct (Pending.receive_store p own n (Pending.h_store hs) t) as [[s'|]|e]; cbn.
    + reflexivity.
    + rewrite (hs_mk_mem hs). reflexivity.
    + rewrite (hs_mk_mem hs). reflexivity.
Qed.

(* C18 for the receipt of a pending transaction *)
Theorem receive_fault_retry : forall t hs,
  (forall k u, (k < ncalls (receive_op p own n t) (Pending.h_store hs) (hs_mem hs))%nat ->
     attempt qfault (receive_op p own n t) (Fault k u) (Pending.h_store hs) (hs_mem hs) =
     (Pending.h_store hs, hs_mem hs, inl qfault)) /\
  (forall fs,
     let '(s', m', r) := retry qfault (receive_op p own n t) fs (Pending.h_store hs) (hs_mem hs) in
     (hs_mk s' m', rres_of r) = Pending.receive_tx p own n hs t).
Proof.
  intros t hs.
  destruct (clean_idle _ _ _ _ _ qfault (receive_op p own n t) (receive_prog_propagates t) (receive_prog_clean t)
              (fun _ _ _ => eq_refl) (Pending.h_store hs) (hs_mem hs)) as [H1 H2].
  split; [exact H1|]. intros fs. rewrite H2. apply receive_attempt.
Qed.

End PendingProofs.

(* ================================================================ 3. the multi-wallet layer *)

(* ---- the keystore manager's table *)

Lemma filter_all : forall (A : Type) (f : A -> bool) (l : list A),
  (forall e, In e l -> f e = true) -> filter f l = l.
Proof.
  intros A f l. induction l as [|a l IH]; intros H; [reflexivity|].
  cbn [filter]. rewrite (H a (or_introl eq_refl)). f_equal. apply IH. intros e He. apply H. right. exact He.
Qed.

Lemma pair_eqb_refl : forall e, pair_eqb e e = true.
Proof. intros [a b]. unfold pair_eqb. cbn. rewrite !N.eqb_refl. reflexivity. Qed.

Lemma pair_mem_in : forall e l, In e l -> pair_mem e l = true.
Proof.
  intros e l H. unfold pair_mem. apply existsb_exists. exists e. split; [exact H|apply pair_eqb_refl].
Qed.

Lemma drop_wallet_none : forall w m, existsb (fun e => (snd e =? w)%N) m = false -> drop_wallet w m = m.
Proof.
  intros w m H. unfold drop_wallet. apply filter_all. intros e He.
  destruct (snd e =? w)%N eqn:E; [|reflexivity].
  assert (Hx : existsb (fun e => (snd e =? w)%N) m = true) by (apply existsb_exists; exists e; split; assumption).
  rewrite Hx in H. discriminate.
Qed.

Lemma drop_wallet_not_cached : forall w m, existsb (fun e => (snd e =? w)%N) (drop_wallet w m) = false.
Proof.
  intros w m. destruct (existsb (fun e => (snd e =? w)%N) (drop_wallet w m)) eqn:E; [|reflexivity].
  apply existsb_exists in E. destruct E as [e [He Hw]]. unfold drop_wallet in He.
  apply filter_In in He. destruct He as [_ He]. rewrite Hw in He. discriminate.
Qed.

Lemma drop_wallet_idem : forall w m, drop_wallet w (drop_wallet w m) = drop_wallet w m.
Proof. intros w m. apply drop_wallet_none. apply drop_wallet_not_cached. Qed.

Lemma drop_wallet_app : forall w a b, drop_wallet w (a ++ b) = drop_wallet w a ++ drop_wallet w b.
Proof. intros w a b. unfold drop_wallet. apply filter_app. Qed.

Lemma drop_wallet_own : forall w shs, drop_wallet w (map (fun sh => (sh, w)) shs) = [].
Proof.
  intros w shs. induction shs as [|sh r IH]; [reflexivity|].
  cbn [map]. unfold drop_wallet in *. cbn [filter snd]. rewrite N.eqb_refl. cbn [negb]. exact IH.
Qed.

(* the reload brings back the store's table when the keystore was dropped from the table, or not *)
Lemma reload_dropped : forall s w m, drop_wallet w m = drop_wallet w (x_keys s) ->
  reload_wallet s w (drop_wallet w m) = x_keys s.
Proof.
  intros s w m H. unfold reload_wallet. rewrite drop_wallet_not_cached.
  apply filter_all. intros e He. destruct (snd e =? w)%N eqn:E; [reflexivity|]. cbn [orb].
  apply pair_mem_in. rewrite H. unfold drop_wallet. apply filter_In. split; [exact He|]. rewrite E. reflexivity.
Qed.

Lemma reload_coherent : forall s w, reload_wallet s w (x_keys s) = x_keys s.
Proof.
  intros s w. unfold reload_wallet. destruct (existsb (fun e => (snd e =? w)%N) (x_keys s)); [reflexivity|].
  apply filter_all. intros e He. rewrite (pair_mem_in e _ He). apply orb_true_r.
Qed.

Section WalletProofs.
Variables (fx : fixes) (p : params) (n : node).

(* ---- 3a. processConnectedBlock on the multi-wallet store *)

Lemma xconnect_prog_propagates : forall bs, propagates XE (xconnect_prog p n bs).
Proof. induction bs as [|b r IH]; cbn [xconnect_prog]; [apply PRet|apply propagates_Call; intros _; exact IH]. Qed.
Lemma xconnect_prog_clean : forall bs, clean (xconnect_prog p n bs).
Proof. induction bs as [|b r IH]; cbn [xconnect_prog]; [apply CRet|apply clean_Call; intros _; exact IH]. Qed.

Lemma xprocess_prog_propagates : forall b, propagates XE (xprocess_prog fx p n b).
Proof.
  intros b. apply propagates_Read. intros [d a]. cbn [fst snd]. destruct d; [apply xconnect_prog_propagates|].
  destruct a as [[fork bs]|]; [|apply PRaise]. apply propagates_Write. apply xconnect_prog_propagates.
Qed.
Lemma xprocess_prog_clean : forall b, clean (xprocess_prog fx p n b).
Proof.
  intros b. apply clean_Read. intros [d a]. cbn [fst snd]. destruct d; [apply xconnect_prog_clean|].
  destruct a as [[fork bs]|]; [|apply CRaise]. apply clean_Write. apply xconnect_prog_clean.
Qed.

Lemma exec_xconnect_prog : forall bs t (m : kcache),
  exec (xconnect_prog p n bs) None t m =
  match xconnect_all p n t bs with
  | XOk t' => (inr (t', tt), m, None)
  | XErr => (inl XE, m, None)
  | XPanic => (inl XP, m, None)
  end.
Proof.
  induction bs as [|b r IH]; intros t m.
  - reflexivity.
  - cbn [xconnect_prog xconnect_all]. rewrite exec_Call. unfold xconnect_step.
    destruct (xconnect_block p n t b) as [t'| |]; [apply IH|reflexivity|reflexivity].
Qed.

Definition xres_out (st : xstate) (m : kcache) (r : xres xstate) : xstate * kcache * (xerr + unit) :=
  match r with
  | XOk st' => (st', m, inr tt)
  | XErr => (st, m, inl XE)
  | XPanic => (st, m, inl XP)
  end.

Lemma xprocess_attempt : forall b st m,
  attempt XE (xprocess_op fx p n b) NoFault st m = xres_out st m (xprocess fx p n st b).
Proof.
  intros b st m. rewrite attempt_nofault. unfold quiet, xprocess, xprocess_op. cbn [body post undo].
  unfold xprocess_prog. rewrite exec_Read. cbn [fst snd].
  destruct (snd (tip (x_w st)) =? b_prev b)%N.
  - rewrite exec_xconnect_prog. destruct (xconnect_all p n st [b]); reflexivity.
  - destruct (collect n (x_w st) (S (Z.to_nat (b_height b))) b []) as [[fork bs]|]; [|reflexivity].
    rewrite exec_Write. destruct (xrollback fx st (fork + 1)) as [st1| |]; [|reflexivity|reflexivity].
    rewrite exec_xconnect_prog. destruct (xconnect_all p n st1 bs); reflexivity.
Qed.

Theorem xprocess_fault_retry : forall b st m,
  (forall k u, (k < ncalls (xprocess_op fx p n b) st m)%nat ->
     attempt XE (xprocess_op fx p n b) (Fault k u) st m = (st, m, inl XE)) /\
  (forall fs, retry XE (xprocess_op fx p n b) fs st m = xres_out st m (xprocess fx p n st b)).
Proof.
  intros b st m.
  destruct (clean_idle _ _ _ _ _ XE (xprocess_op fx p n b) (xprocess_prog_propagates b) (xprocess_prog_clean b)
              (fun _ _ _ => eq_refl) st m) as [H1 H2].
  split; [exact H1|]. intros fs. rewrite H2. apply xprocess_attempt.
Qed.

(* ---- 3b. one batch of a background import *)

(* the working copy of a batch: the credits and the block records move, nothing else *)
Definition wc (st : xstate) (cs : list credit) (brs : list brec) : xstate :=
  with_brecs (with_w st {| credits := cs; synced := synced (x_w st) |}) brs.

Lemma wc_id : forall st, wc st (credits (x_w st)) (x_brecs st) = st.
Proof. intros [[cs sy] ks ps ss bs bal ug dd p1]. reflexivity. Qed.

Definition iout_map (e : iout) : iout :=
  match e with IAbandon => if f_import_retry fx then IRetry else IAbandon | _ => e end.

Lemma import_step_wc : forall w k stop b st cs brs,
  import_step fx p n w k stop b (wc st cs brs) =
  if (k <? b_height b) && (b_height b <=? stop) then
    match import_txs p (own_w st w) n (b_height b) (b_id b) (cs, brs)
                     (filter (touches (own_w st w) n (b_height b)) (b_txs b)) with
    | inl (cs', brs') => inr (wc st cs' brs')
    | inr e => inl (iout_map e)
    end
  else inr (wc st cs brs).
Proof.
  intros w k stop b st cs brs. unfold import_step.
  destruct ((k <? b_height b) && (b_height b <=? stop)); [|reflexivity].
  change (own_w (wc st cs brs) w) with (own_w st w).
  change (credits (x_w (wc st cs brs)), x_brecs (wc st cs brs)) with (cs, brs).
  destruct (import_txs p (own_w st w) n (b_height b) (b_id b) (cs, brs)
              (filter (touches (own_w st w) n (b_height b)) (b_txs b))) as [[cs' brs']|e].
  - reflexivity.
  - destruct e; reflexivity.
Qed.

Lemma import_blocks_prog_propagates : forall w k stop fin bs,
  propagates IRetry fin -> propagates IRetry (import_blocks_prog fx p n w k stop fin bs).
Proof.
  intros w k stop fin bs Hf. induction bs as [|b r IH]; cbn [import_blocks_prog]; [exact Hf|].
  apply propagates_Write. exact IH.
Qed.
Lemma import_blocks_prog_clean : forall w k stop fin bs,
  clean fin -> clean (import_blocks_prog fx p n w k stop fin bs).
Proof.
  intros w k stop fin bs Hf. induction bs as [|b r IH]; cbn [import_blocks_prog]; [exact Hf|].
  apply clean_Write. exact IH.
Qed.

Lemma import_prog_propagates : forall B w, propagates IRetry (import_prog fx p n B w).
Proof.
  intros B w. apply propagates_Read. intros [[s d] best]. cbn [fst snd].
  destruct s as [[| |]|]; try apply PRet. destruct d; [apply PRet|].
  apply import_blocks_prog_propagates. apply propagates_Write. apply PRet.
Qed.
Lemma import_prog_clean : forall B w, clean (import_prog fx p n B w).
Proof.
  intros B w. apply clean_Read. intros [[s d] best]. cbn [fst snd].
  destruct s as [[| |]|]; try apply CRet. destruct d; [apply CRet|].
  apply import_blocks_prog_clean. apply clean_Write. apply CRet.
Qed.

Lemma exec_import_blocks_prog : forall w k stop fin bs st cs brs (m : kcache),
  exec (import_blocks_prog fx p n w k stop fin bs) None (wc st cs brs) m =
  match import_blocks p (own_w st w) n k stop (cs, brs) bs with
  | inl (cs', brs') => exec fin None (wc st cs' brs') m
  | inr e => (inl (iout_map e), m, None)
  end.
Proof.
  intros w k stop fin bs. induction bs as [|b r IH]; intros st cs brs m.
  - reflexivity.
  - cbn [import_blocks_prog import_blocks]. rewrite exec_Write. rewrite import_step_wc.
    destruct ((k <? b_height b) && (b_height b <=? stop)).
    + destruct (import_txs p (own_w st w) n (b_height b) (b_id b) (cs, brs)
                  (filter (touches (own_w st w) n (b_height b)) (b_txs b))) as [[cs' brs']|e].
      * apply IH.
      * reflexivity.
    + apply IH.
Qed.

Definition iout_of (r : iout + iout) : iout := match r with inl e => e | inr x => x end.

(* the program run without fault is asyncImport of the model (with the repair 7082cdf: a batch that
   meets the spend of a coin it does not have is retried, not dropped) *)
Lemma import_attempt : forall B w st m, f_import_retry fx = true ->
  let '(st', m', r) := attempt IRetry (import_op fx p n B w) NoFault st m in
  (st', iout_of r) = import_batch fx p B n st w /\ m' = m.
Proof.
  intros B w st m Hfx. rewrite attempt_nofault. unfold quiet, import_batch, import_op. cbn [body post undo].
  unfold import_prog. rewrite exec_Read. cbn [fst snd].
  destruct (status_of st w) as [[|k|]|]; try (cbn; split; reflexivity).
  destruct (memN w (x_dead st)); [cbn; split; reflexivity|]. cbv zeta.
  match goal with |- context [exec (import_blocks_prog fx p n w ?k0 ?stop0 ?fin0 n) None st m] =>
    pose proof (exec_import_blocks_prog w k0 stop0 fin0 n st (credits (x_w st)) (x_brecs st) m) as He end.
  rewrite wc_id in He. unfold iX in *. rewrite He. clear He.
  destruct (import_blocks p (own_w st w) n k (Z.min (k + B) (fst (tip (x_w st))))
              (credits (x_w st), x_brecs st) n) as [[cs brs]|e].
  - rewrite exec_Write.
    change (x_w (wc st cs brs)) with {| credits := cs; synced := synced (x_w st) |}.
    change (node_on_synced n {| credits := cs; synced := synced (x_w st) |}) with (node_on_synced n (x_w st)).
    destruct (f_import_tipcheck fx && negb (node_on_synced n (x_w st) (Z.min (k + B) (fst (tip (x_w st)))))); cbn; split; reflexivity.
  - unfold iout_map. rewrite Hfx. destruct e; cbn; split; reflexivity.
Qed.

Theorem import_fault_retry : forall B w st m, f_import_retry fx = true ->
  (forall k u, (k < ncalls (import_op fx p n B w) st m)%nat ->
     attempt IRetry (import_op fx p n B w) (Fault k u) st m = (st, m, inl IRetry)) /\
  (forall fs,
     let '(st', m', r) := retry IRetry (import_op fx p n B w) fs st m in
     (st', iout_of r) = import_batch fx p B n st w /\ m' = m).
Proof.
  intros B w st m Hfx.
  destruct (clean_idle _ _ _ _ _ IRetry (import_op fx p n B w) (import_prog_propagates B w) (import_prog_clean B w)
              (fun _ _ _ => eq_refl) st m) as [H1 H2].
  split; [exact H1|]. intros fs. rewrite H2. apply import_attempt. exact Hfx.
Qed.

(* ---- 3c. ImportWallet / ImportWalletWithMnemonic / CreateWallet *)

Lemma import_start_prog_propagates : forall w pass shs, propagates tt (import_start_prog w pass shs).
Proof.
  intros w pass shs. apply propagates_Call. intros _. apply PMem.
  apply propagates_Write. apply propagates_Write. apply PRet.
Qed.

Lemma import_start_prog_writes : forall w pass shs,
  writes (fun g => g = (fun m : kcache => m ++ map (fun sh => (sh, w)) shs)) (import_start_prog w pass shs).
Proof.
  intros w pass shs. apply WDb; [|apply WRaise]. intros _. apply WMem; [reflexivity|].
  apply WDb; [|apply WRaise]. intros _. apply WDb; [|apply WRaise]. intros _. apply WRet.
Qed.

(* the program run without fault is import_start of the model, and the table follows the store *)
Lemma import_start_attempt : forall w pass shs st m,
  attempt tt (import_start_op w pass shs) NoFault st m =
  match import_start st w pass shs with
  | Some st' => (st', m ++ map (fun sh => (sh, w)) shs, inr tt)
  | None => (st, m, inl tt)
  end.
Proof.
  intros w pass shs st m. rewrite attempt_nofault. unfold quiet, import_start, import_start_op. cbn [body post undo].
  unfold import_start_prog. rewrite exec_Call.
  destruct (wallet_known st w) eqn:Hk.
  - reflexivity.
  - cbn [exec]. rewrite exec_Write, exec_Write. reflexivity.
Qed.

(* a failed attempt leaves the table as it was: RemoveCachedKeystore removes what ImportKeystore added *)
Lemma import_start_undone : forall w pass shs st m f, coherent st m ->
  undone tt (import_start_op w pass shs) st m f.
Proof.
  intros w pass shs st m f Hco.
  destruct (wallet_known st w) eqn:Hk.
  - (* the wallet is there: the first call refuses, the table is never touched, nothing is removed *)
    apply undone_reach.
    + intros j. cbn [undo import_start_op]. rewrite Hk.
      unfold import_start_op. cbn [body]. unfold import_start_prog, Call. cbn [exec].
      destruct j as [[|j]|]; cbn [exec]; rewrite ?Hk; reflexivity.
    + cbn [undo import_start_op]. rewrite Hk. reflexivity.
  - assert (Hd : drop_wallet w m = m).
    { apply drop_wallet_none. rewrite Hco. unfold wallet_known in Hk.
      apply orb_false_iff in Hk. destruct Hk as [_ Hk]. exact Hk. }
    apply (undone_inv _ _ _ _ _ tt
             (fun g => g = (fun m0 : kcache => m0 ++ map (fun sh => (sh, w)) shs))
             (fun m' => drop_wallet w m' = m)).
    + apply import_start_prog_writes.
    + intros g m' Hg Hm. subst g. rewrite drop_wallet_app, drop_wallet_own, app_nil_r. exact Hm.
    + exact Hd.
    + intros m' Hm. cbn [undo import_start_op]. rewrite Hk. exact Hm.
Qed.

(* C18 for wallet creation and the start of an import: whatever call fails, however often, no
   phantom keystore stays in the table and the repeated call creates the wallet of the call
   without fault *)
Theorem import_start_fault_retry : forall w pass shs st m, coherent st m ->
  (forall k u, (k < ncalls (import_start_op w pass shs) st m)%nat ->
     attempt tt (import_start_op w pass shs) (Fault k u) st m = (st, m, inl tt)) /\
  (forall fs, retry tt (import_start_op w pass shs) fs st m =
     match import_start st w pass shs with
     | Some st' => (st', x_keys st', inr tt)
     | None => (st, m, inl tt)
     end).
Proof.
  intros w pass shs st m Hco.
  destruct (some_undone _ _ _ _ _ tt (import_start_op w pass shs) (fun _ => True) st m
              (import_start_prog_propagates w pass shs)
              (fun f _ => import_start_undone w pass shs st m f Hco)) as [H1 H2].
  split.
  - intros k u Hk. apply H1; [exact I|exact Hk].
  - intros fs. rewrite H2 by (apply Forall_forall; intros; exact I).
    rewrite import_start_attempt. unfold import_start. destruct (wallet_known st w); [reflexivity|].
    cbn [x_keys]. rewrite Hco. reflexivity.
Qed.

(* ---- 3d. NewAddress *)

Lemma new_address_prog_propagates : forall sh w, propagates tt (new_address_prog sh w).
Proof.
  intros sh w. apply propagates_Read. intros _. apply propagates_Write. apply PMem. apply propagates_Write. apply PRet.
Qed.

Lemma new_address_prog_writes : forall sh w,
  writes (fun g => g = (fun m : kcache => m ++ [(sh, w)])) (new_address_prog sh w).
Proof.
  intros sh w. apply WDb; [|apply WRaise]. intros _. apply WDb; [|apply WRaise]. intros _.
  apply WMem; [reflexivity|]. apply WDb; [|apply WRaise]. intros _. apply WRet.
Qed.

Lemma new_address_attempt : forall sh w st m,
  attempt tt (new_address_op fx sh w) NoFault st m = (Import.new_address st sh w, m ++ [(sh, w)], inr tt).
Proof.
  intros sh w st m. rewrite attempt_nofault. unfold quiet, new_address_op. cbn [body post undo].
  unfold new_address_prog. rewrite exec_Read, exec_Write. cbn [exec]. rewrite exec_Write. reflexivity.
Qed.

Lemma drop_wallet_one : forall sh w, drop_wallet w [(sh, w)] = [].
Proof. intros sh w. unfold drop_wallet. cbn [filter snd]. rewrite N.eqb_refl. reflexivity. Qed.

(* the memory a NewAddress attempt can reach, whatever fails: the table, or the table with the address *)
Lemma new_address_reach : forall sh w j st (m : kcache),
  snd (fst (exec (new_address_prog sh w) j st m)) = m \/
  snd (fst (exec (new_address_prog sh w) j st m)) = m ++ [(sh, w)].
Proof.
  intros sh w j st m. unfold new_address_prog, Read, Write, Call.
  destruct j as [[|[|[|j]]]|]; cbn; auto.
Qed.

Lemma forget_last_same : forall st, forget_last st (x_keys st) = x_keys st.
Proof. intros st. unfold forget_last. rewrite Nat.ltb_irrefl. reflexivity. Qed.

Lemma forget_last_added : forall st e, forget_last st (x_keys st ++ [e]) = x_keys st.
Proof.
  intros st e. unfold forget_last. rewrite app_length. cbn [length].
  replace (length (x_keys st) <? length (x_keys st) + 1)%nat with true by (symmetry; apply Nat.ltb_lt; lia).
  apply removelast_last.
Qed.

(* the code as it stands (96d76da): a failed NewAddress leaves no trace, whatever fails and whatever the
   storage does afterwards — the repair does not touch it *)
Lemma new_address_undone : forall sh w st m f, f_keystore_undo fx = true -> coherent st m ->
  undone tt (new_address_op fx sh w) st m f.
Proof.
  intros sh w st m f Hfx Hco. unfold coherent in Hco. subst m.
  apply undone_reach; cbn [undo body new_address_op]; rewrite Hfx.
  - intros j. destruct (new_address_reach sh w j st (x_keys st)) as [H|H]; rewrite H;
      [apply forget_last_same|apply forget_last_added].
  - apply forget_last_same.
Qed.

Theorem new_address_fault_retry : forall sh w st m, f_keystore_undo fx = true -> coherent st m ->
  (forall k u, (k < ncalls (new_address_op fx sh w) st m)%nat ->
     attempt tt (new_address_op fx sh w) (Fault k u) st m = (st, m, inl tt)) /\
  (forall fs, retry tt (new_address_op fx sh w) fs st m =
     (Import.new_address st sh w, x_keys (Import.new_address st sh w), inr tt)).
Proof.
  intros sh w st m Hfx Hco.
  destruct (some_undone _ _ _ _ _ tt (new_address_op fx sh w) (fun _ => True) st m
              (new_address_prog_propagates sh w)
              (fun f _ => new_address_undone sh w st m f Hfx Hco)) as [H1 H2].
  split.
  - intros k u Hk. apply H1; [exact I|exact Hk].
  - intros fs. rewrite H2 by (apply Forall_forall; intros; exact I).
    rewrite new_address_attempt. cbn [x_keys Import.new_address]. rewrite Hco. reflexivity.
Qed.

(* ---- the code before 96d76da (f_keystore_undo = false): the repair is a reload of the keystore from the store.
   As long as that reload does not fail itself, a failed NewAddress leaves no trace *)
Lemma new_address_undone_reload : forall sh w st m f, f_keystore_undo fx = false -> coherent st m -> fundo f = false ->
  undone tt (new_address_op fx sh w) st m f.
Proof.
  intros sh w st m f Hfx Hco Hf.
  apply (undone_inv _ _ _ _ _ tt
           (fun g => g = (fun m0 : kcache => m0 ++ [(sh, w)]))
           (fun m' => drop_wallet w m' = drop_wallet w (x_keys st))).
  - apply new_address_prog_writes.
  - intros g m' Hg Hm. subst g. rewrite drop_wallet_app, drop_wallet_one, app_nil_r. exact Hm.
  - rewrite Hco. reflexivity.
  - intros m' Hm. cbn [undo new_address_op]. rewrite Hfx, Hf. rewrite Hco. apply reload_dropped. exact Hm.
Qed.

Theorem new_address_fault_retry_reload : forall sh w st m, f_keystore_undo fx = false -> coherent st m ->
  (forall k, (k < ncalls (new_address_op fx sh w) st m)%nat ->
     attempt tt (new_address_op fx sh w) (Fault k false) st m = (st, m, inl tt)) /\
  (forall fs, Forall (fun f => fundo f = false) fs ->
     retry tt (new_address_op fx sh w) fs st m =
     (Import.new_address st sh w, x_keys (Import.new_address st sh w), inr tt)).
Proof.
  intros sh w st m Hfx Hco.
  destruct (some_undone _ _ _ _ _ tt (new_address_op fx sh w) (fun f => fundo f = false) st m
              (new_address_prog_propagates sh w)
              (fun f Hf => new_address_undone_reload sh w st m f Hfx Hco Hf)) as [H1 H2].
  split.
  - intros k Hk. apply H1; [reflexivity|exact Hk].
  - intros fs Hfs. rewrite (H2 fs Hfs). rewrite new_address_attempt. cbn [x_keys Import.new_address]. rewrite Hco. reflexivity.
Qed.

(* ... and when it does fail (the failed call and then the BeginReadTx / a Get of the reload): the
   whole keystore is gone from the table although it is in the store — the code as repaired in
   f6a5978 (wallet.go NewAddress: RemoveCachedKeystore, then a View whose error is dropped), before 96d76da *)
Lemma new_address_reload_fault : forall sh w st m k, f_keystore_undo fx = false -> coherent st m -> (1 <= k < 5)%nat ->
  attempt tt (new_address_op fx sh w) (Fault k true) st m = (st, drop_wallet w (x_keys st), inl tt).
Proof.
  intros sh w st m k Hfx Hco Hk. unfold attempt, new_address_op. cbn [body post undo fundo]. rewrite Hfx.
  unfold new_address_prog, Read, Write, Call.
  unfold coherent in Hco. subst m.
  destruct k as [|[|[|[|[|k]]]]]; try lia; cbn -[drop_wallet]; rewrite ?drop_wallet_app, ?drop_wallet_one, ?app_nil_r; reflexivity.
Qed.

(* ---- 3e. RemoveWallet -> OnRemoveWallet *)

Lemma remove_request_prog_propagates : forall w pass, propagates RErr (remove_request_prog w pass).
Proof.
  intros w pass. apply propagates_Read. intros [pw s]. cbn [fst snd].
  destruct pw as [pw|]; [|apply PRaise]. destruct (negb (pw =? pass)%N); [apply PRaise|].
  destruct s as [[| |]|]; try apply PRaise; apply propagates_Write; apply PRet.
Qed.
Lemma remove_request_prog_clean : forall w pass, clean (remove_request_prog w pass).
Proof.
  intros w pass. apply clean_Read. intros [pw s]. cbn [fst snd].
  destruct pw as [pw|]; [|apply CRaise]. destruct (negb (pw =? pass)%N); [apply CRaise|].
  destruct s as [[| |]|]; try apply CRaise; apply clean_Write; apply CRet.
Qed.

Definition rres_of_req (r : rres + unit) : rres := match r with inl e => e | inr _ => ROk end.

Lemma remove_request_attempt : forall w pass st m,
  let '(st', m', r) := attempt RErr (remove_request_op w pass) NoFault st m in
  (st', rres_of_req r) = remove_request st w pass /\ m' = m.
Proof.
  intros w pass st m. rewrite attempt_nofault. unfold quiet, remove_request, remove_request_op. cbn [body post undo].
  unfold remove_request_prog. rewrite exec_Read. cbn [fst snd].
  destruct (lookupN (x_pass st) w) as [pw|]; [|cbn; split; reflexivity].
  destruct (negb (pw =? pass)%N); [cbn; split; reflexivity|].
  destruct (status_of st w) as [[| |]|]; try (cbn; split; reflexivity);
    rewrite exec_Write; cbn; split; reflexivity.
Qed.

Theorem remove_request_fault_retry : forall w pass st m,
  (forall k u, (k < ncalls (remove_request_op w pass) st m)%nat ->
     attempt RErr (remove_request_op w pass) (Fault k u) st m = (st, m, inl RErr)) /\
  (forall fs,
     let '(st', m', r) := retry RErr (remove_request_op w pass) fs st m in
     (st', rres_of_req r) = remove_request st w pass /\ m' = m).
Proof.
  intros w pass st m.
  destruct (clean_idle _ _ _ _ _ RErr (remove_request_op w pass) (remove_request_prog_propagates w pass)
              (remove_request_prog_clean w pass) (fun _ _ _ => eq_refl) st m) as [H1 H2].
  split; [exact H1|]. intros fs. rewrite H2. apply remove_request_attempt.
Qed.

(* ---- 3f. asyncRemove, phase 1 *)

Lemma phase1_prog_propagates : forall w, propagates tt (phase1_prog w).
Proof.
  intros w. apply propagates_Read. intros [|]; [|apply PRet].
  repeat apply propagates_Write. apply PRet.
Qed.
Lemma phase1_prog_clean : forall w, clean (phase1_prog w).
Proof.
  intros w. apply clean_Read. intros [|]; [|apply CRet].
  repeat apply clean_Write. apply CRet.
Qed.

Lemma phase1_attempt : forall w st m,
  attempt tt (phase1_op w) NoFault st m = (remove_phase1 st w, m, inr tt).
Proof.
  intros w st m. rewrite attempt_nofault. unfold quiet, remove_phase1, phase1_op. cbn [body post undo].
  unfold phase1_prog. rewrite exec_Read.
  destruct (status_of st w) as [[| |]|]; try reflexivity.
  destruct (is_some (lookupN (x_pass st) w)); [|reflexivity].
  rewrite !exec_Write. reflexivity.
Qed.

Theorem phase1_fault_retry : forall w st m,
  (forall k u, (k < ncalls (phase1_op w) st m)%nat ->
     attempt tt (phase1_op w) (Fault k u) st m = (st, m, inl tt)) /\
  (forall fs, retry tt (phase1_op w) fs st m = (remove_phase1 st w, m, inr tt)).
Proof.
  intros w st m.
  destruct (clean_idle _ _ _ _ _ tt (phase1_op w) (phase1_prog_propagates w)
              (phase1_prog_clean w) (fun _ _ _ => eq_refl) st m) as [H1 H2].
  split; [exact H1|]. intros fs. rewrite H2. apply phase1_attempt.
Qed.

(* the worker retries a failed removal task from its beginning: phase 1 runs again before the round is
   repeated.  It changes nothing in the store the second time (only the volatile "past phase 1" list
   gets the wallet a second time, which no test of it notices) *)
Lemma filter_idem : forall (A : Type) (f : A -> bool) (l : list A), filter f (filter f l) = filter f l.
Proof. intros A f l. apply filter_all. intros e He. apply filter_In in He. apply He. Qed.

Lemma phase1_again : forall st w,
  let st1 := remove_phase1 st w in
  let st2 := remove_phase1 st1 w in
  x_w st2 = x_w st1 /\ x_keys st2 = x_keys st1 /\ x_pass st2 = x_pass st1 /\ x_status st2 = x_status st1 /\
  x_brecs st2 = x_brecs st1 /\ x_balrow st2 = x_balrow st1 /\ x_ugame st2 = x_ugame st1 /\ x_dead st2 = x_dead st1 /\
  forall v, memN v (x_p1 st2) = memN v (x_p1 st1).
Proof.
  intros st w. cbv zeta.
  assert (Hid : remove_phase1 st w = st -> 
            x_w (remove_phase1 (remove_phase1 st w) w) = x_w (remove_phase1 st w) /\
            x_keys (remove_phase1 (remove_phase1 st w) w) = x_keys (remove_phase1 st w) /\
            x_pass (remove_phase1 (remove_phase1 st w) w) = x_pass (remove_phase1 st w) /\
            x_status (remove_phase1 (remove_phase1 st w) w) = x_status (remove_phase1 st w) /\
            x_brecs (remove_phase1 (remove_phase1 st w) w) = x_brecs (remove_phase1 st w) /\
            x_balrow (remove_phase1 (remove_phase1 st w) w) = x_balrow (remove_phase1 st w) /\
            x_ugame (remove_phase1 (remove_phase1 st w) w) = x_ugame (remove_phase1 st w) /\
            x_dead (remove_phase1 (remove_phase1 st w) w) = x_dead (remove_phase1 st w) /\
            forall v, memN v (x_p1 (remove_phase1 (remove_phase1 st w) w)) = memN v (x_p1 (remove_phase1 st w))).
  { intros H. rewrite !H. repeat split; reflexivity. }
  destruct (status_of st w) as [[|k|]|] eqn:Hs;
    try (apply Hid; unfold remove_phase1; rewrite Hs; reflexivity).
  destruct (is_some (lookupN (x_pass st) w)) eqn:Hp;
    [|apply Hid; unfold remove_phase1; rewrite Hs, Hp; reflexivity].
  clear Hid.
  assert (H1 : remove_phase1 st w =
               {| x_w := x_w st; x_keys := x_keys st; x_pass := x_pass st; x_status := x_status st; x_brecs := x_brecs st;
                  x_balrow := remN w (x_balrow st);
                  x_ugame := filter (fun e => negb (fst (fst e) =? w)%N) (x_ugame st);
                  x_dead := x_dead st; x_p1 := x_p1 st ++ [w] |}).
  { unfold remove_phase1. rewrite Hs, Hp. reflexivity. }
  rewrite H1. unfold remove_phase1, status_of. cbn [x_status x_pass]. unfold status_of in Hs. rewrite Hs, Hp.
  cbn [x_w x_keys x_pass x_status x_brecs x_balrow x_ugame x_dead x_p1].
  repeat split.
  - unfold remN. apply filter_idem.
  - apply filter_idem.
  - intros v. unfold memN. rewrite !existsb_app. cbn [existsb]. rewrite orb_false_r.
    destruct (existsb (N.eqb v) (x_p1 st)); destruct (v =? w)%N; reflexivity.
Qed.

(* ---- 3g. asyncRemove, one round of phase 2, any cap *)

(* removableTxForRemoveWallet reads the keystore table and (repaired: f_removable_debit) the credit rows
   that do not carry one of [shs]: the rows removeRelevantCredit has deleted before do not matter *)
Lemma existsb_filter_sub : forall (A : Type) (g q : A -> bool) l,
  (forall x, g x = true -> q x = true) -> existsb g (filter q l) = existsb g l.
Proof.
  intros A g q l H. induction l as [|a r IH]; [reflexivity|]. cbn [filter existsb].
  destruct (q a) eqn:Hq; cbn [existsb]; rewrite IH; [reflexivity|].
  destruct (g a) eqn:Hg; [rewrite (H a Hg) in Hq; discriminate|reflexivity].
Qed.

Lemma existsb_ext_in : forall (A : Type) (f g : A -> bool) l,
  (forall x, In x l -> f x = g x) -> existsb f l = existsb g l.
Proof.
  intros A f g l H. induction l as [|a r IH]; [reflexivity|]. cbn [existsb].
  rewrite (H a (or_introl eq_refl)), IH; [reflexivity|]. intros x Hx. apply H. right. assumption.
Qed.

Lemma removable_keys : forall st1 st2 shs t, x_keys st1 = x_keys st2 ->
  filter (fun c => negb (memN (c_sh c) shs)) (credits (x_w st1)) =
  filter (fun c => negb (memN (c_sh c) shs)) (credits (x_w st2)) ->
  removable fx st1 shs n t = removable fx st2 shs n t.
Proof.
  intros st1 st2 shs t H Hc. unfold removable, spends_other, spends_other_db, key_owner. rewrite H.
  destruct (f_removable_debit fx); [|reflexivity].
  do 4 f_equal. apply existsb_ext_in. intros op _.
  rewrite <- (existsb_filter_sub _ _ (fun c => negb (memN (c_sh c) shs)) (credits (x_w st1))).
  - rewrite Hc. apply existsb_filter_sub.
    intros c Hg. apply andb_true_iff in Hg. destruct Hg as [Hg _]. apply andb_true_iff in Hg. tauto.
  - intros c Hg. apply andb_true_iff in Hg. destruct Hg as [Hg _]. apply andb_true_iff in Hg. tauto.
Qed.

Lemma repair_keys : forall st1 st2 shs lookup, x_keys st1 = x_keys st2 ->
  filter (fun c => negb (memN (c_sh c) shs)) (credits (x_w st1)) =
  filter (fun c => negb (memN (c_sh c) shs)) (credits (x_w st2)) ->
  forall hot brs, repair fx st1 shs n lookup brs hot = repair fx st2 shs n lookup brs hot.
Proof.
  intros st1 st2 shs lookup H Hc hot. induction hot as [|[t h] r IH]; intros brs; [reflexivity|].
  cbn [repair]. destruct (listed_at brs h t); [|apply IH].
  destruct (lookup t) as [tx0|]; [|apply IH]. rewrite (removable_keys st1 st2 shs tx0 H Hc). apply IH.
Qed.

Lemma round_prog_propagates : forall cap lookup w, propagates tt (round_prog fx n cap lookup w).
Proof.
  intros cap lookup w. apply propagates_Read. intros [go x]. cbn [fst]. destruct go; [|apply PRet].
  apply propagates_Call. intros [g [hot fin]]. cbv zeta. cbn [fst snd]. apply propagates_Write.
  destruct fin; [|apply PRet]. apply propagates_Write. apply propagates_Write. apply PMem. apply PRet.
Qed.

Lemma round_prog_writes : forall cap lookup w,
  writes (fun g => g = drop_wallet w) (round_prog fx n cap lookup w).
Proof.
  intros cap lookup w. apply WDb; [|apply WRaise]. intros [go x]. cbn [fst]. destruct go; [|apply WRet].
  apply WDb; [|apply WRaise]. intros [g [hot fin]]. cbv zeta. cbn [fst snd].
  apply WDb; [|apply WRaise]. intros _. destruct fin; [|apply WRet].
  apply WDb; [|apply WRaise]. intros _. apply WDb; [|apply WRaise]. intros _.
  apply WMem; [reflexivity|apply WRet].
Qed.

(* the program run without fault is remove_round of the model; the table loses the keystore in the
   last round *)
Lemma round_attempt : forall cap lookup w st m,
  attempt tt (round_op fx n cap lookup w) NoFault st m =
  (fst (remove_round fx cap n lookup st w),
   if snd (remove_round fx cap n lookup st w) then drop_wallet w m else m,
   inr (snd (remove_round fx cap n lookup st w))).
Proof.
  intros cap lookup w st m. rewrite attempt_nofault. unfold quiet, remove_round, round_op. cbn [body post undo].
  unfold round_prog. rewrite exec_Read. cbn [fst snd].
  destruct (status_of st w) as [[| |]|]; try reflexivity.
  destruct (memN w (x_p1 st)); [|reflexivity].
  rewrite exec_Call. cbv zeta.
  match goal with |- context [match sh_of_wallet st w with [] => ?a | _ :: _ => ?b end] =>
    destruct (match sh_of_wallet st w with [] => a | _ :: _ => b end) as [[kept hot] fin] eqn:Hrm end.
  rewrite exec_Write. cbn [fst snd].
  assert (Hkept : filter (fun c => negb (memN (c_sh c) (sh_of_wallet st w))) kept =
                  filter (fun c => negb (memN (c_sh c) (sh_of_wallet st w))) (credits (x_w st))).
  { destruct (sh_of_wallet st w) as [|s0 sr]; [inversion Hrm; reflexivity|].
    apply (rm_credits_others _ _ _ _ _ _ _ _ Hrm). }
  assert (Hrep : with_brecs (with_w st {| credits := kept; synced := synced (x_w st) |})
                   (repair fx (with_w st {| credits := kept; synced := synced (x_w st) |})
                      (sh_of_wallet (with_w st {| credits := kept; synced := synced (x_w st) |}) w) n lookup
                      (x_brecs (with_w st {| credits := kept; synced := synced (x_w st) |})) hot) =
                 with_brecs (with_w st {| credits := kept; synced := synced (x_w st) |})
                   (repair fx st (sh_of_wallet st w) n lookup (x_brecs st) hot)).
  { f_equal. apply repair_keys; [reflexivity|exact Hkept]. }
  rewrite Hrep. clear Hrep.
  destruct fin.
  - rewrite exec_Write, exec_Write. reflexivity.
  - reflexivity.
Qed.

Lemma round_keys : forall cap lookup w st,
  x_keys (fst (remove_round fx cap n lookup st w)) =
  if snd (remove_round fx cap n lookup st w) then drop_wallet w (x_keys st) else x_keys st.
Proof.
  intros cap lookup w st. unfold remove_round.
  destruct (status_of st w) as [[| |]|]; try reflexivity.
  destruct (memN w (x_p1 st)); [|reflexivity].
  match goal with |- context [match sh_of_wallet st w with [] => ?a | _ :: _ => ?b end] =>
    destruct (match sh_of_wallet st w with [] => a | _ :: _ => b end) as [[kept hot] fin] end.
  destruct fin; reflexivity.
Qed.

(* the code as it stands (96d76da): RestoreCachedKeystore cannot fail — a failed round leaves no trace,
   whatever fails and whatever the storage does afterwards *)
Lemma round_undone : forall cap lookup w st m f, f_keystore_undo fx = true -> coherent st m ->
  undone tt (round_op fx n cap lookup w) st m f.
Proof.
  intros cap lookup w st m f Hfx Hco. unfold coherent in Hco. subst m.
  apply (undone_inv _ _ _ _ _ tt (fun g => g = drop_wallet w)
           (fun m' => m' = x_keys st \/ m' = drop_wallet w (x_keys st))).
  - apply round_prog_writes.
  - intros g m' Hg [Hm|Hm]; subst g m'; right; [reflexivity|apply drop_wallet_idem].
  - left. reflexivity.
  - intros m' [Hm|Hm]; subst m'; cbn [undo round_op]; rewrite Hfx.
    + apply reload_coherent.
    + apply reload_dropped. reflexivity.
Qed.

(* C18 for every round of a removal, whatever the cap *)
Theorem round_fault_retry : forall cap lookup w st m, f_keystore_undo fx = true -> coherent st m ->
  (forall k u, (k < ncalls (round_op fx n cap lookup w) st m)%nat ->
     attempt tt (round_op fx n cap lookup w) (Fault k u) st m = (st, m, inl tt)) /\
  (forall fs, retry tt (round_op fx n cap lookup w) fs st m =
     (fst (remove_round fx cap n lookup st w), x_keys (fst (remove_round fx cap n lookup st w)),
      inr (snd (remove_round fx cap n lookup st w)))).
Proof.
  intros cap lookup w st m Hfx Hco.
  destruct (some_undone _ _ _ _ _ tt (round_op fx n cap lookup w) (fun _ => True) st m
              (round_prog_propagates cap lookup w)
              (fun f _ => round_undone cap lookup w st m f Hfx Hco)) as [H1 H2].
  split.
  - intros k u Hk. apply H1; [exact I|exact Hk].
  - intros fs. rewrite H2 by (apply Forall_forall; intros; exact I).
    rewrite round_attempt, round_keys. unfold coherent in Hco. subst m.
    destruct (snd (remove_round fx cap n lookup st w)); reflexivity.
Qed.

(* ---- the code before 96d76da (f_keystore_undo = false): as long as the reload that repairs the table does not
   fail itself, a failed round leaves no trace *)
Lemma round_undone_reload : forall cap lookup w st m f, f_keystore_undo fx = false -> coherent st m -> fundo f = false ->
  undone tt (round_op fx n cap lookup w) st m f.
Proof.
  intros cap lookup w st m f Hfx Hco Hf. unfold coherent in Hco. subst m.
  apply (undone_inv _ _ _ _ _ tt (fun g => g = drop_wallet w)
           (fun m' => m' = x_keys st \/ m' = drop_wallet w (x_keys st))).
  - apply round_prog_writes.
  - intros g m' Hg [Hm|Hm]; subst g m'; right; [reflexivity|apply drop_wallet_idem].
  - left. reflexivity.
  - intros m' [Hm|Hm]; subst m'; cbn [undo round_op]; rewrite Hfx, Hf.
    + apply reload_coherent.
    + apply reload_dropped. reflexivity.
Qed.

Theorem round_fault_retry_reload : forall cap lookup w st m, f_keystore_undo fx = false -> coherent st m ->
  (forall k, (k < ncalls (round_op fx n cap lookup w) st m)%nat ->
     attempt tt (round_op fx n cap lookup w) (Fault k false) st m = (st, m, inl tt)) /\
  (forall fs, Forall (fun f => fundo f = false) fs ->
     retry tt (round_op fx n cap lookup w) fs st m =
     (fst (remove_round fx cap n lookup st w), x_keys (fst (remove_round fx cap n lookup st w)),
      inr (snd (remove_round fx cap n lookup st w)))).
Proof.
  intros cap lookup w st m Hfx Hco.
  destruct (some_undone _ _ _ _ _ tt (round_op fx n cap lookup w) (fun f => fundo f = false) st m
              (round_prog_propagates cap lookup w)
              (fun f Hf => round_undone_reload cap lookup w st m f Hfx Hco Hf)) as [H1 H2].
  split.
  - intros k Hk. apply H1; [reflexivity|exact Hk].
  - intros fs Hfs. rewrite (H2 fs Hfs). rewrite round_attempt, round_keys. unfold coherent in Hco. subst m.
    destruct (snd (remove_round fx cap n lookup st w)); reflexivity.
Qed.

(* what the two consecutive failures (the Commit of the last round, then the reload) left behind before 96d76da *)
Lemma round_reload_fault : forall cap lookup w st m, f_keystore_undo fx = false -> coherent st m ->
  snd (remove_round fx cap n lookup st w) = true ->
  attempt tt (round_op fx n cap lookup w) (Fault (ncalls (round_op fx n cap lookup w) st m - 1) true) st m =
  (st, drop_wallet w m, inl tt).
Proof.
  intros cap lookup w st m Hfx Hco Hfin.
  pose proof (round_attempt cap lookup w st m) as Ha. rewrite Hfin in Ha.
  rewrite attempt_nofault in Ha. unfold quiet in Ha.
  unfold attempt. unfold ncalls.
  destruct (fst (fst (exec (body (round_op fx n cap lookup w)) None st m))) as [e|[t r]] eqn:Ho; [discriminate|].
  replace (1 + calls (body (round_op fx n cap lookup w)) st m + 1 - 1)%nat
    with (S (calls (body (round_op fx n cap lookup w)) st m)) by lia.
  cbn [Nat.pred fundo].
  destruct (exec_spec _ _ _ _ _ tt (body (round_op fx n cap lookup w)) (round_prog_propagates cap lookup w)
              (calls (body (round_op fx n cap lookup w)) st m) st m) as [_ H2].
  rewrite (H2 (Nat.le_refl _)). rewrite Ho. rewrite Nat.sub_diag.
  remember (snd (fst (exec (body (round_op fx n cap lookup w)) None st m))) as m1 eqn:Hm1.
  assert (Hm : m1 = drop_wallet w m) by (injection Ha as _ Hm _; exact Hm).
  rewrite Hm. cbn [undo round_op]. rewrite Hfx. reflexivity.
Qed.

End WalletProofs.

(* ================================================================ 4. histories of the multi-wallet layer with faults *)

(* the operations that do not concern a keystore leave the store's table alone *)
Lemma xconnect_all_keys : forall p n bs st st', xconnect_all p n st bs = XOk st' -> x_keys st' = x_keys st.
Proof.
  intros p n bs. induction bs as [|b r IH]; intros st st' H.
  - inversion H. reflexivity.
  - cbn [xconnect_all] in H. destruct (xconnect_block p n st b) as [st1| |] eqn:Hb; try discriminate.
    rewrite (IH st1 st' H). unfold xconnect_block in Hb.
    destruct (node_at n (b_height b)) as [nb|]; [|discriminate].
    destruct (negb (b_id nb =? b_id b)%N); [discriminate|].
    destruct (filter_block_txs (ready_own st) (credits (x_w st)) (node_tx n) [] (b_txs b)); [|discriminate].
    destruct (connect_block p true (ready_own st) (credits (x_w st)) (node_tx n) (x_w st) b); [|discriminate].
    inversion Hb. reflexivity.
Qed.

Lemma xrollback_keys : forall fx st h st', xrollback fx st h = XOk st' -> x_keys st' = x_keys st.
Proof.
  intros fx st h st' H. unfold xrollback in H.
  match type of H with (if ?c then _ else _) = _ => destruct c; [discriminate|] end.
  match type of H with (if ?c then _ else _) = _ => destruct c; [discriminate|] end.
  inversion H. reflexivity.
Qed.

Lemma xprocess_keys : forall fx p n st b st', xprocess fx p n st b = XOk st' -> x_keys st' = x_keys st.
Proof.
  intros fx p n st b st' H. unfold xprocess in H.
  destruct (snd (tip (x_w st)) =? b_prev b)%N; [apply (xconnect_all_keys p n [b]); exact H|].
  destruct (collect n (x_w st) (S (Z.to_nat (b_height b))) b []) as [[fork bs]|]; [|discriminate].
  destruct (xrollback fx st (fork + 1)) as [st1| |] eqn:Hr; try discriminate.
  rewrite (xconnect_all_keys p n bs st1 st' H). apply (xrollback_keys fx st (fork + 1)). exact Hr.
Qed.

Lemma import_batch_keys : forall fx p B n st w, x_keys (fst (import_batch fx p B n st w)) = x_keys st.
Proof.
  intros fx p B n st w. unfold import_batch.
  destruct (status_of st w) as [[|k|]|]; try reflexivity.
  destruct (memN w (x_dead st)); [reflexivity|].
  destruct (import_blocks p (own_w st w) n k (Z.min (k + B) (fst (tip (x_w st)))) (credits (x_w st), x_brecs st) n)
    as [[cs brs]|[| |]]; try reflexivity.
  - destruct (f_import_tipcheck fx && negb _); reflexivity.
  - destruct (f_import_retry fx); reflexivity.
Qed.

Lemma remove_request_keys : forall st w pass, x_keys (fst (remove_request st w pass)) = x_keys st.
Proof.
  intros st w pass. unfold remove_request.
  destruct (lookupN (x_pass st) w) as [pw|]; [|reflexivity].
  destruct (negb (pw =? pass)%N); [reflexivity|].
  destruct (status_of st w) as [[|k|]|]; reflexivity.
Qed.

Lemma with_st_id : forall s, with_st s (xs_st s) = s.
Proof. intros [nd st al cr]. reflexivity. Qed.

Section HistoryProofs.
Variables (fx : fixes) (p : params) (B cap : Z).
Hypothesis Hfx : f_import_retry fx = true.

(* one event with the faults of its failed attempts does what the event without fault does, and the
   table follows the store *)
Lemma xstep_f_step : forall s e fs, f_keystore_undo fx = true \/ (f_keystore_undo fx = false /\ reload_works (e, fs)) ->
  xstep_f fx p B cap (s, x_keys (xs_st s)) (e, fs) =
  (xstep fx p B cap s e, x_keys (xs_st (xstep fx p B cap s e))).
Proof.
  intros s e fs Hfs. unfold reload_works in Hfs. unfold xstep_f. cbn [fst snd] in *.
  destruct e as [b| |b|w pass|sh w|w pass shs|w|w pass|w|w|].
  - reflexivity.
  - reflexivity.
  - cbn [xstep]. destruct (xs_crashed s); [reflexivity|].
    destruct (xprocess_fault_retry fx p (xs_node s) b (xs_st s) (x_keys (xs_st s))) as [_ H]. rewrite (H fs).
    destruct (xprocess fx p (xs_node s) (xs_st s) b) as [st'| |] eqn:Hx; cbn [xres_out].
    + cbn [with_st xs_st]. rewrite (xprocess_keys _ _ _ _ _ _ Hx). reflexivity.
    + rewrite with_st_id. reflexivity.
    + reflexivity.
  - cbn [xstep]. unfold new_wallet.
    destruct (import_start_fault_retry w pass [] (xs_st s) (x_keys (xs_st s)) eq_refl) as [_ H]. rewrite (H fs).
    destruct (import_start (xs_st s) w pass []) as [st'|]; [reflexivity|rewrite with_st_id; reflexivity].
  - cbn [xstep]. destruct Hfs as [Hu|[Hu Hfs]].
    + destruct (new_address_fault_retry fx sh w (xs_st s) (x_keys (xs_st s)) Hu eq_refl) as [_ H]. rewrite (H fs).
      reflexivity.
    + destruct (new_address_fault_retry_reload fx sh w (xs_st s) (x_keys (xs_st s)) Hu eq_refl) as [_ H]. rewrite (H fs Hfs).
      reflexivity.
  - cbn [xstep].
    destruct (import_start_fault_retry w pass shs (xs_st s) (x_keys (xs_st s)) eq_refl) as [_ H]. rewrite (H fs).
    destruct (import_start (xs_st s) w pass shs) as [st'|]; [reflexivity|rewrite with_st_id; reflexivity].
  - cbn [xstep].
    destruct (import_fault_retry fx p (xs_node s) B w (xs_st s) (x_keys (xs_st s)) Hfx) as [_ H]. specialize (H fs).
    destruct (retry IRetry (import_op fx p (xs_node s) B w) fs (xs_st s) (x_keys (xs_st s))) as [[st' m'] r].
    destruct H as [H1 H2]. subst m'.
    assert (Hst : st' = fst (import_batch fx p B (xs_node s) (xs_st s) w)) by (rewrite <- H1; reflexivity).
    subst st'. cbn [with_st xs_st]. rewrite import_batch_keys. reflexivity.
  - cbn [xstep].
    destruct (remove_request_fault_retry w pass (xs_st s) (x_keys (xs_st s))) as [_ H]. specialize (H fs).
    destruct (retry RErr (remove_request_op w pass) fs (xs_st s) (x_keys (xs_st s))) as [[st' m'] r].
    destruct H as [H1 H2]. subst m'.
    assert (Hst : st' = fst (remove_request (xs_st s) w pass)) by (rewrite <- H1; reflexivity).
    subst st'. cbn [with_st xs_st]. rewrite remove_request_keys. reflexivity.
  - cbn [xstep].
    destruct (phase1_fault_retry w (xs_st s) (x_keys (xs_st s))) as [_ H]. rewrite (H fs).
    cbn [with_st xs_st]. destruct (remove_phase1_frames_others (xs_st s) w) as [_ [_ [Hk _]]]. rewrite Hk. reflexivity.
  - cbn [xstep]. destruct Hfs as [Hu|[Hu Hfs]].
    + destruct (round_fault_retry fx (xs_node s) cap (find_tx (xs_all s)) w (xs_st s) (x_keys (xs_st s)) Hu eq_refl) as [_ H].
      rewrite (H fs). reflexivity.
    + destruct (round_fault_retry_reload fx (xs_node s) cap (find_tx (xs_all s)) w (xs_st s) (x_keys (xs_st s)) Hu eq_refl) as [_ H].
      rewrite (H fs Hfs). reflexivity.
  - reflexivity.
Qed.

(* C18 over whole histories of the multi-wallet layer: any operation of any history may fail at any
   call, any number of times in a row, with any flags; the run ends in the state of the run without
   faults, and the table is the store's.  (The code before 96d76da: as long as no reload of the keystore
   table fails itself.) *)
Lemma xrun_faults_gen : forall n h, f_keystore_undo fx = true \/ (f_keystore_undo fx = false /\ reloads_work h) ->
  xrun_f fx p B cap n h =
  (xrun fx p B cap n (map fst h), x_keys (xs_st (xrun fx p B cap n (map fst h)))).
Proof.
  intros n h. unfold xrun_f, xrun.
  assert (Hgen : forall s, f_keystore_undo fx = true \/ (f_keystore_undo fx = false /\ reloads_work h) ->
            fold_left (xstep_f fx p B cap) h (s, x_keys (xs_st s)) =
            (fold_left (xstep fx p B cap) (map fst h) s, x_keys (xs_st (fold_left (xstep fx p B cap) (map fst h) s)))).
  { induction h as [|[e fs] r IH]; intros s Hw.
    - reflexivity.
    - cbn [map fold_left fst]. destruct Hw as [Hu|[Hu Hw]].
      + rewrite (xstep_f_step s e fs (or_introl Hu)). apply IH. left. exact Hu.
      + inversion Hw as [|x l Hx Hl]. subst x l.
        rewrite (xstep_f_step s e fs (or_intror (conj Hu Hx))). apply IH. right. split; assumption. }
  intros Hw. apply (Hgen (xinit_sim n) Hw).
Qed.

Theorem xrun_faults : forall n h, f_keystore_undo fx = true ->
  xrun_f fx p B cap n h =
  (xrun fx p B cap n (map fst h), x_keys (xs_st (xrun fx p B cap n (map fst h)))).
Proof. intros n h Hu. apply xrun_faults_gen. left. exact Hu. Qed.

Theorem xrun_faults_reload : forall n h, f_keystore_undo fx = false -> reloads_work h ->
  xrun_f fx p B cap n h =
  (xrun fx p B cap n (map fst h), x_keys (xs_st (xrun fx p B cap n (map fst h)))).
Proof. intros n h Hu Hw. apply xrun_faults_gen. right. split; assumption. Qed.

End HistoryProofs.

(* ================================================================ 5. the last round of a removal: any number of faults *)


(* Ledger/Fault.v models the worker's attempts at the last round with two flags per attempt (the
   Commit fails / the reload of the keystore fails).  Whether the removal completes is decided by
   this function of the flags alone: as long as the keystore is cached a failing Commit is retried;
   once Commit AND reload have failed the keystore is not cached, and the attempt that then finds
   its own reload failing as well gives up ("unexpected error", return nil: the task is not pushed
   again) with the keystore and the status record still in the store *)
Fixpoint reloads_recover (cached : bool) (fs : list (bool * bool)) : bool :=
  match fs with
  | [] => true
  | (c, l) :: r =>
      if cached then (if c then reloads_recover (negb l) r else true)
      else if l then false
      else if c then reloads_recover true r else true
  end.

Theorem removal_any_faults : forall fs cached,
  Fault.remove_attempts true (fs ++ [(false, false)]) {| Fault.r_store := true; Fault.r_cache := cached |} =
  if reloads_recover cached fs
  then ({| Fault.r_store := false; Fault.r_cache := false |}, true)       (* removed *)
  else ({| Fault.r_store := true; Fault.r_cache := false |}, true).       (* given up with the keystore stored *)
Proof.
  induction fs as [|[c l] r IH]; intros cached.
  - destruct cached; reflexivity.
  - cbn [app Fault.remove_attempts reloads_recover].
    destruct cached, c, l; cbn; try reflexivity; apply IH.
Qed.

(* any number of failing commits, each with a working reload, and any number of isolated double
   faults: the removal completes *)
Lemma reloads_recover_no_reload_fault : forall fs cached,
  Forall (fun cl => snd cl = false) fs -> reloads_recover cached fs = true.
Proof.
  induction fs as [|[c l] r IH]; intros cached H; [reflexivity|].
  inversion H as [|x y Hx Hy]. subst x y. cbn [snd] in Hx. subst l. cbn [reloads_recover].
  destruct cached, c; cbn; try reflexivity; apply IH; exact Hy.
Qed.

(* no attempt whose reload fails follows directly on an attempt whose Commit and reload failed *)
Fixpoint no_lost_reload (fs : list (bool * bool)) : bool :=
  match fs with
  | (c1, l1) :: (((c2, l2) :: _) as r) => negb (c1 && l1 && l2) && no_lost_reload r
  | _ => true
  end.

Lemma reloads_recover_spaced : forall fs, no_lost_reload fs = true ->
  reloads_recover true fs = true /\ (forall c l r, fs = (c, l) :: r -> l = false -> reloads_recover false fs = true).
Proof.
  induction fs as [|[c l] r IH]; intros H.
  - split; [reflexivity|intros; discriminate].
  - destruct r as [|[c2 l2] r2].
    + split.
      * cbn. destruct c; [destruct l|]; reflexivity.
      * intros c0 l0 r0 He Hl. inversion He. subst. cbn. destruct c0; reflexivity.
    + cbn [no_lost_reload] in H. apply andb_true_iff in H. destruct H as [H1 H2].
      destruct (IH H2) as [IHa IHb]. split.
      * cbn [reloads_recover]. destruct c; [|reflexivity]. destruct l; cbn [negb].
        -- (* Commit and reload failed: the next reload must work *)
           destruct l2; [cbn in H1; discriminate|]. apply (IHb c2 false r2 eq_refl eq_refl).
        -- exact IHa.
      * intros c0 l0 r0 He Hl. inversion He. subst c0 l0 r0. cbn [reloads_recover].
        destruct c; [exact IHa|reflexivity].
Qed.

(* the general statement is false: whatever follows, two attempts in a row of which the first loses
   Commit and reload and the second its reload end the task with the keystore still stored — three
   consecutive storage failures; C18_removal_triple_fault_partial is the shortest instance *)
Lemma removal_any_faults_refuted : forall c fs,
  Fault.remove_attempts true ((true, true) :: (c, true) :: fs) FaultProofs.r0 =
  ({| Fault.r_store := true; Fault.r_cache := false |}, true).
Proof. intros c fs. destruct c; reflexivity. Qed.
