(* Ledger/RemoveProofs8.v — C08, part 8: a boolean check of [wf_xhistory] (used by the non-vacuity
   examples of Properties/C08.v) and its soundness. *)
From Coq Require Import List ZArith NArith Bool Lia.
Import ListNotations.
Open Scope Z_scope.
Require Import MW.Ledger.Model MW.Ledger.Spec MW.Ledger.Run MW.Ledger.WF MW.Ledger.Import MW.Ledger.Remove.
Require Import MW.Ledger.Proofs MW.Ledger.Proofs5 MW.Ledger.Proofs6.
Require Import MW.Ledger.RemoveProofs MW.Ledger.RemoveProofs6 MW.Ledger.RemoveProofs7.

Fixpoint xfresh_b (g : block) (A : list block) (S : list N) (h : list xevent) : bool :=
  match h with
  | [] => true
  | XAttach b :: r =>
      negb (memN (b_id b) (map b_id (g :: A))) && negb (b_id b =? b_prev g)%N &&
      forallb (fun t => forallb (fun t' => negb (t_id t =? t_id t')%N || tx_eqb t t') (chain_txs (g :: A))) (b_txs b) &&
      xfresh_b g (A ++ [b]) S r
  | XProcess b :: r => existsb (block_eqb b) A && xfresh_b g A S r
  | XNewAddr sh w :: r => negb (memN sh S) && forallb (fun b => negb (pays_b b sh)) A && xfresh_b g A (S ++ [sh]) r
  | XImportStart _ _ _ :: _ => false
  | XBatch _ :: _ => false
  | _ :: r => xfresh_b g A S r
  end.

Lemma xfresh_b_sound : forall g h A S, xfresh_b g A S h = true -> xfresh g A S h.
Proof.
  intros g h. induction h as [|e r IH]; intros A S H; [exact I|].
  destruct e as [b| |b|w pass|sh w|w pass shs|w|w pass|w|w|]; cbn [xfresh_b xfresh] in *; try discriminate;
    try (apply IH; assumption).
  - apply andb_true_iff in H. destruct H as [H H4]. apply andb_true_iff in H. destruct H as [H H3].
    apply andb_true_iff in H. destruct H as [H1 H2].
    split; [|split; [|split; [|apply IH; assumption]]].
    + apply negb_true_iff in H1. apply memN_false in H1. exact H1.
    + apply negb_true_iff in H2. apply N.eqb_neq in H2. exact H2.
    + intros t t' Ht Ht' Hid. rewrite forallb_forall in H3. specialize (H3 t Ht). rewrite forallb_forall in H3.
      specialize (H3 t' Ht'). apply orb_true_iff in H3. destruct H3 as [H3|H3].
      * apply negb_true_iff in H3. apply N.eqb_neq in H3. contradiction.
      * apply tx_eqb_sound. assumption.
  - apply andb_true_iff in H. destruct H as [H1 H2]. split; [|apply IH; assumption].
    apply existsb_exists in H1. destruct H1 as [b' [Hb' Heq]]. apply block_eqb_sound in Heq. subst b'. assumption.
  - apply andb_true_iff in H. destruct H as [H H3]. apply andb_true_iff in H. destruct H as [H1 H2].
    split; [|split; [|apply IH; assumption]].
    + apply negb_true_iff in H1. apply memN_false in H1. exact H1.
    + intros b Hb Hp. rewrite forallb_forall in H2. specialize (H2 b Hb). apply negb_true_iff in H2.
      rewrite (pays_b_complete b sh Hp) in H2. discriminate.
Qed.

Definition wf_xhistory_b (fx : fixes) (p : params) (B cap : Z) (g : block) (h : list xevent) : bool :=
  forallb (fun s => wf_chain_b (xs_node s)) (xsims fx p B cap (xinit_sim [g]) h) && xfresh_b g [] [] h.

Theorem wf_xhistory_b_sound : forall fx p B cap g h, wf_xhistory_b fx p B cap g h = true -> wf_xhistory fx p B cap g h.
Proof.
  intros fx p B cap g h H. unfold wf_xhistory_b in H. apply andb_true_iff in H. destruct H as [H1 H2]. constructor.
  - intros s Hs. rewrite forallb_forall in H1. apply wf_chain_b_sound. apply H1. assumption.
  - apply xfresh_b_sound. assumption.
Qed.


Definition not_recreating_b (w : N) (shs : list N) (e : xevent) : bool :=
  match e with
  | XNewWallet w' _ => negb (w' =? w)%N
  | XNewAddr sh w' => negb (w' =? w)%N && negb (memN sh shs)
  | XImportStart w' _ l => negb (w' =? w)%N && forallb (fun sh => negb (memN sh shs)) l
  | XBatch _ => false
  | _ => true
  end.

Lemma not_recreating_b_sound : forall w shs e, not_recreating_b w shs e = true -> not_recreating w shs e.
Proof.
  intros w shs e H. destruct e as [b| |b|w' pass|sh w'|w' pass l|w'|w' pass|w'|w'|]; cbn [not_recreating_b not_recreating] in *;
    try exact I; try discriminate.
  - apply negb_true_iff in H. apply N.eqb_neq in H. exact H.
  - apply andb_true_iff in H. destruct H as [H1 H2]. apply negb_true_iff in H1, H2.
    split; [apply N.eqb_neq; exact H1|apply memN_false; exact H2].
  - apply andb_true_iff in H. destruct H as [H1 H2]. apply negb_true_iff in H1. split; [apply N.eqb_neq; exact H1|].
    intros sh Hsh. rewrite forallb_forall in H2. specialize (H2 sh Hsh). apply negb_true_iff in H2. apply memN_false. exact H2.
Qed.

Lemma not_recreating_all_b_sound : forall w shs h,
  forallb (not_recreating_b w shs) h = true -> forall e, In e h -> not_recreating w shs e.
Proof. intros w shs h H e He. rewrite forallb_forall in H. apply not_recreating_b_sound. apply H. assumption. Qed.
