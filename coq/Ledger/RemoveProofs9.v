(* Ledger/RemoveProofs9.v — C08, part 9: histories in which the node may connect a block AGAIN.
   With removableTxForRemoveWallet repaired to decide from the store's own credit rows
   ([f_removable_debit]), a removal round no longer depends on where the node's chain stands, and the
   invariant of part 6 becomes both simpler and stronger: after every event the ready wallets' credits
   represent EXACTLY ([XRep] with an empty second part: every spent mark accurate, every creator and
   every spender listed in the block records) the ledger of the well-formed chain [c] the handler is
   synced to — whatever relation [c] has to the node's chain.  The environment assumption "a
   disconnected block never comes back" of [wf_xhistory] is dropped ([wf_xhistory2]). *)
From Coq Require Import List ZArith NArith Bool Lia.
Import ListNotations.
Open Scope Z_scope.
Require Import MW.Ledger.Model MW.Ledger.Spec MW.Ledger.Run MW.Ledger.WF MW.Ledger.Import MW.Ledger.Remove.
Require Import MW.Ledger.Proofs MW.Ledger.Proofs2 MW.Ledger.Proofs3 MW.Ledger.Proofs4 MW.Ledger.Proofs5 MW.Ledger.Proofs6.
Require Import MW.Ledger.RemoveProofs MW.Ledger.RemoveProofs2 MW.Ledger.RemoveProofs3 MW.Ledger.RemoveProofs4
               MW.Ledger.RemoveProofs5 MW.Ledger.RemoveProofs6 MW.Ledger.RemoveProofs7 MW.Ledger.RemoveProofs8.

(* ---------------------------------------------------------------- well-formed histories, blocks may come back *)

(* as [xfresh], except that the node may connect a block it has connected before (and disconnected
   since: the node's chain stays well formed after every event) *)
Fixpoint xfresh2 (g : block) (A : list block) (S : list N) (h : list xevent) : Prop :=
  match h with
  | [] => True
  | XAttach b :: r =>
      (In b A /\ xfresh2 g A S r) \/
      (~ In (b_id b) (map b_id (g :: A)) /\ b_id b <> b_prev g /\
       (forall t t', In t (b_txs b) -> In t' (chain_txs (g :: A)) -> t_id t = t_id t' -> t = t') /\
       xfresh2 g (A ++ [b]) S r)
  | XProcess b :: r => In b A /\ xfresh2 g A S r
  | XNewAddr sh w :: r => ~ In sh S /\ (forall b, In b A -> ~ pays b sh) /\ xfresh2 g A (S ++ [sh]) r
  | XImportStart _ _ _ :: _ => False
  | XBatch _ :: _ => False
  | _ :: r => xfresh2 g A S r
  end.

Record wf_xhistory2 (fx : fixes) (p : params) (B cap : Z) (g : block) (h : list xevent) : Prop := {
  wx2_chain : forall s, In s (xsims fx p B cap (xinit_sim [g]) h) -> wf_chain (xs_node s);
  wx2_fresh : xfresh2 g [] [] h
}.

Lemma xfresh_xfresh2 : forall g h A S, xfresh g A S h -> xfresh2 g A S h.
Proof.
  intros g h. induction h as [|e r IH]; intros A S H; [exact I|].
  destruct e as [b| |b|w pass|sh w|w pass shs|w|w pass|w|w|]; cbn [xfresh xfresh2] in *; try contradiction;
    try (apply IH; assumption).
  - right. destruct H as [H1 [H2 [H3 H4]]]. split; [assumption|split; [assumption|split; [assumption|apply IH; assumption]]].
  - destruct H as [H1 H2]. split; [assumption|apply IH; assumption].
  - destruct H as [H1 [H2 H3]]. split; [assumption|split; [assumption|apply IH; assumption]].
Qed.

(* the histories of part 6 are a special case *)
Lemma wf_xhistory_wf_xhistory2 : forall fx p B cap g h, wf_xhistory fx p B cap g h -> wf_xhistory2 fx p B cap g h.
Proof. intros fx p B cap g h [H1 H2]. constructor; [exact H1|apply xfresh_xfresh2; exact H2]. Qed.

(* ---------------------------------------------------------------- processConnectedBlock on an exact store *)

Section Processing2.
Variable fx : fixes.
Hypothesis Hfx_rb : f_rollback fx = true.
Hypothesis Hfx_ro : f_rollback_order fx = true.
Variable p : params.
Variable g : block.
Variable U : list block.
Variable S : list N.
Hypothesis U_ids : forall b1 b2, In b1 U -> In b2 U -> b_id b1 = b_id b2 -> b1 = b2.
Hypothesis U_txs : GU U.

(* the announced block is on the node's chain; the store is exact for ANY well-formed chain [c] from the
   same genesis: afterwards it is exact for the node's chain up to that block *)
Lemma xprocess_on_node2 : forall n st c f b n1 n3,
  StInv U S st -> wf_chain n -> from_g g n -> incl n U ->
  wf_chain c -> from_g g c -> incl c U -> XRep p st c [] f ->
  n = n1 ++ b :: n3 -> n1 <> [] ->
  exists st' f', xprocess fx p n st b = XOk st' /\
              XRep p st' (n1 ++ [b]) [] f' /\ StInv U S st' /\
              x_keys st' = x_keys st /\ x_status st' = x_status st /\ x_p1 st' = x_p1 st.
Proof.
  intros n st c f b n1 n3 HS Hwfn Hgn HnU Hwfc Hgc HcU HR Hn Hne.
  assert (Hids : ids_agree c n). { intros b1 b2 H1 H2. apply U_ids; [apply HcU|apply HnU]; assumption. }
  assert (Hgen : same_genesis c n) by (apply (same_genesis_from_g g); assumption).
  destruct (wf_linked _ Hwfn) as [pvn Hln]. destruct (wf_linked _ Hwfc) as [pvc Hlc].
  set (own0 := fun _ : N => @None N).
  assert (Hsy : synced (x_w st) = synced (L p own0 c)).
  { destruct HR as [Hsy _]. rewrite app_nil_r in Hsy. exact Hsy. }
  unfold xprocess. rewrite (tip_synced _ _ Hsy).
  destruct (snd (tip (L p own0 c)) =? b_prev b)%N eqn:Htip.
  - destruct (exists_last (wf_nonempty _ Hwfc)) as [cpre [y Hc]].
    destruct (exists_last Hne) as [n1' [x' Hn1]].
    rewrite Hc in Htip at 1. rewrite tip_L_snoc in Htip. cbn [snd] in Htip. apply N.eqb_eq in Htip.
    assert (Hn' : n = n1' ++ x' :: b :: n3). { rewrite Hn, Hn1, <- app_assoc. reflexivity. }
    assert (Hyx : y = x').
    { apply Hids.
      - rewrite Hc. apply in_or_app. right. left. reflexivity.
      - rewrite Hn'. apply in_or_app. right. left. reflexivity.
      - rewrite Htip. rewrite Hn' in Hln. apply (linked_prev _ _ _ _ _ _ Hln). }
    subst x'.
    assert (Hpre : cpre = n1').
    { apply (common_prefix c n pvc pvn 0 Hlc Hln Hids cpre y [] n1' (b :: n3)); assumption. }
    assert (Hcn : c = n1). { rewrite Hc, Hn1, Hpre. reflexivity. }
    rewrite Hcn in HR.
    destruct (xconnect_all_ok fx Hfx_rb Hfx_ro p U S U_txs [b] n st n1 n3 f HS Hwfn HnU) as [st' [f' H]]; [rewrite Hn; reflexivity|assumption|assumption|].
    exists st', f'. exact H.
  - rewrite (collect_synced n _ _ _ _ _ Hsy).
    assert (Hfuel : (length n1 < Datatypes.S (Z.to_nat (b_height b)))%nat).
    { rewrite Hn in Hln. rewrite (linked_height _ _ _ _ _ Hln). lia. }
    destruct (collect_spec p own0 c n pvc pvn Hlc Hln (wf_bids _ Hwfn) Hgen Hids
                _ n1 b [] n3 Hn Hfuel) as [m1 [y [m2 [Hsplit [Hy Hcol]]]]].
    rewrite Hcol.
    apply in_split in Hy. destruct Hy as [ca [cb Hc]].
    assert (Hn' : n = m1 ++ y :: m2 ++ n3).
    { rewrite Hn. change (b :: n3) with ([b] ++ n3). rewrite app_assoc, Hsplit, <- app_assoc. reflexivity. }
    assert (Hca : ca = m1).
    { apply (common_prefix c n pvc pvn 0 Hlc Hln Hids ca y cb m1 (m2 ++ n3)); assumption. }
    subst ca.
    assert (Hheights : (forall z, In z (m1 ++ [y]) -> b_height z < b_height y + 1) /\
                       (forall z, In z cb -> b_height y + 1 <= b_height z)).
    { assert (Hc' : c = (m1 ++ [y]) ++ cb). { rewrite Hc, <- app_assoc. reflexivity. }
      rewrite Hc' in Hlc. destruct (linked_heights_split _ _ _ Hlc) as [H1 H2].
      assert (Hh : b_height y + 1 = Z.of_nat (length (m1 ++ [y]))).
      { rewrite <- app_assoc in Hlc. cbn [app] in Hlc. rewrite (linked_height _ _ _ _ _ Hlc).
        rewrite app_length. cbn [length]. lia. }
      rewrite Hh. split; assumption. }
    destruct Hheights as [Hh1 Hh2].
    destruct (xrollback_ok fx Hfx_rb Hfx_ro p U S st c [] f (m1 ++ [y]) cb (b_height y + 1) (m1 ++ [y]) [] cb HS HR)
      as [st1 [Hrb [HR1 [HS1 [Hk1 [Hs1 Hp1]]]]]].
    + rewrite app_nil_r, Hc, <- app_assoc. reflexivity.
    + assumption.
    + assumption.
    + rewrite app_nil_r. reflexivity.
    + rewrite Hc, <- app_assoc. reflexivity.
    + rewrite Hrb.
      destruct (xconnect_all_ok fx Hfx_rb Hfx_ro p U S U_txs m2 n st1 (m1 ++ [y]) n3 (rb_marks (x_brecs st) (b_height y + 1) f) HS1 Hwfn HnU) as [st' [f' [Hall [HR' [HS' [Hk' [Hs' Hp']]]]]]].
      * rewrite Hn', <- app_assoc. reflexivity.
      * destruct m1; discriminate.
      * exact HR1.
      * exists st', f'. split; [assumption|]. split.
        { rewrite <- app_assoc in HR'. cbn [app] in HR'. rewrite <- Hsplit in HR'. exact HR'. }
        split; [assumption|]. split; [congruence|split; congruence].
Qed.

(* whatever announcement is processed successfully, the store is exact for some well-formed chain again *)
Lemma xprocess_ok_inv2 : forall n st c f b st',
  StInv U S st -> wf_chain n -> from_g g n -> incl n U ->
  wf_chain c -> from_g g c -> incl c U -> XRep p st c [] f ->
  In b U -> b <> g ->
  xprocess fx p n st b = XOk st' ->
  exists c' f', wf_chain c' /\ from_g g c' /\ incl c' U /\ XRep p st' c' [] f' /\ StInv U S st' /\
     x_keys st' = x_keys st /\ x_status st' = x_status st /\ x_p1 st' = x_p1 st.
Proof.
  intros n st c f b st' HS Hwfn Hgn HnU Hwfc Hgc HcU HR HbU Hbg Hproc.
  set (own0 := fun _ : N => @None N).
  assert (Hsy : synced (x_w st) = synced (L p own0 c)).
  { destruct HR as [Hsy _]. rewrite app_nil_r in Hsy. exact Hsy. }
  destruct (wf_linked _ Hwfc) as [pvc Hlc].
  assert (Hon_node : forall nb, In nb n -> b_id nb = b_id b -> In b n).
  { intros nb Hin Hid. rewrite <- (U_ids nb b (HnU _ Hin) HbU Hid). assumption. }
  assert (Hcases : In b n \/ (exists ca cb, c = ca ++ b :: cb /\ xrollback fx st (b_height b + 1) = XOk st')).
  { pose proof Hproc as Hproc'. unfold xprocess in Hproc'. rewrite (tip_synced _ _ Hsy) in Hproc'.
    destruct (snd (tip (L p own0 c)) =? b_prev b)%N.
    - left. destruct (xconnect_all_ok_in _ _ _ _ _ Hproc' b (or_introl eq_refl)) as [nb [Hin Hid]].
      apply (Hon_node nb Hin Hid).
    - rewrite (collect_synced n _ _ _ _ _ Hsy) in Hproc'.
      destruct (collect n (L p own0 c) (Datatypes.S (Z.to_nat (b_height b))) b []) as [[fk bs]|] eqn:Hcol; [|discriminate].
      destruct (xrollback fx st (fk + 1)) as [st1| |] eqn:Hrb; try discriminate.
      destruct (collect_cases _ _ _ _ _ _ _ Hcol) as [[Hm [Hf Hbs]]|Hin].
      + right. subst fk bs. cbn [xconnect_all] in Hproc'. inversion Hproc'. subst st1.
        assert (Hbc : In b c).
        { apply (matched_in p own0 c [b] b); [|left; reflexivity|assumption].
          intros b1 b2 H1 [H2|[]]. subst b2. apply U_ids; [apply HcU; assumption|assumption]. }
        apply in_split in Hbc. destruct Hbc as [ca [cb Hc]]. exists ca, cb. split; assumption.
      + left. destruct (xconnect_all_ok_in _ _ _ _ _ Hproc' b Hin) as [nb [Hin' Hid]].
        apply (Hon_node nb Hin' Hid). }
  destruct Hcases as [Hbn|[ca [cb [Hc Hrb]]]].
  - apply in_split in Hbn. destruct Hbn as [n1 [n3 Hn]].
    assert (Hne : n1 <> []).
    { intros Hnil. subst n1. destruct Hgn as [n' Hn']. rewrite Hn in Hn'. cbn [app] in Hn'. inversion Hn'. contradiction. }
    destruct (xprocess_on_node2 n st c f b n1 n3 HS Hwfn Hgn HnU Hwfc Hgc HcU HR Hn Hne)
      as [st'' [f' [Hp' [HR' [HS' Hsame]]]]].
    rewrite Hproc in Hp'. inversion Hp'. subst st''.
    assert (Hn' : n = (n1 ++ [b]) ++ n3). { rewrite Hn, <- app_assoc. reflexivity. }
    exists (n1 ++ [b]), f'.
    split; [rewrite Hn' in Hwfn; apply (wf_chain_prefix _ _ Hwfn); destruct n1; discriminate|].
    split; [destruct Hgn as [n' Hgn]; destruct n1 as [|z n1']; [contradiction|]; rewrite Hn in Hgn; inversion Hgn; eexists; reflexivity|].
    split; [intros z Hz; apply HnU; rewrite Hn'; apply in_or_app; left; assumption|].
    split; [assumption|]. split; assumption.
  - (* a stale announcement: the store is rolled back to b *)
    assert (Hheights : (forall z, In z (ca ++ [b]) -> b_height z < b_height b + 1) /\
                       (forall z, In z cb -> b_height b + 1 <= b_height z)).
    { assert (Hc' : c = (ca ++ [b]) ++ cb). { rewrite Hc, <- app_assoc. reflexivity. }
      rewrite Hc' in Hlc. destruct (linked_heights_split _ _ _ Hlc) as [H1 H2].
      assert (Hh : b_height b + 1 = Z.of_nat (length (ca ++ [b]))).
      { rewrite <- app_assoc in Hlc. cbn [app] in Hlc. rewrite (linked_height _ _ _ _ _ Hlc).
        rewrite app_length. cbn [length]. lia. }
      rewrite Hh. split; assumption. }
    destruct Hheights as [Hh1 Hh2].
    assert (Hcsplit : c = (ca ++ [b]) ++ cb). { rewrite Hc, <- app_assoc. reflexivity. }
    assert (Hwfpre : wf_chain (ca ++ [b])).
    { rewrite Hcsplit in Hwfc. apply (wf_chain_prefix _ _ Hwfc). destruct ca; discriminate. }
    assert (HpreU : incl (ca ++ [b]) U).
    { intros z Hz. apply HcU. rewrite Hcsplit. apply in_or_app. left. assumption. }
    destruct (xrollback_ok fx Hfx_rb Hfx_ro p U S st c [] f (ca ++ [b]) cb (b_height b + 1) (ca ++ [b]) [] cb HS HR)
      as [st1 [Hrb1 [HR1 [HS1 Hsame]]]].
    + rewrite app_nil_r. exact Hcsplit.
    + assumption.
    + assumption.
    + rewrite app_nil_r. reflexivity.
    + exact Hcsplit.
    + rewrite Hrb in Hrb1. inversion Hrb1. subst st1.
      exists (ca ++ [b]), (rb_marks (x_brecs st) (b_height b + 1) f).
      split; [assumption|].
      split; [destruct Hgc as [c0 Hgc]; destruct ca as [|z ca']; [rewrite Hc in Hgc; inversion Hgc; contradiction|
              rewrite Hc in Hgc; inversion Hgc; eexists; reflexivity]|].
      split; [assumption|]. split; [assumption|]. split; [assumption|exact Hsame].
Qed.

End Processing2.

(* ---------------------------------------------------------------- the invariant *)

Section XHistory2.
Variable fx : fixes.
Hypothesis Hfx_rm : f_removable fx = true.
Hypothesis Hfx_rb : f_rollback fx = true.
Hypothesis Hfx_ro : f_rollback_order fx = true.
Hypothesis Hfx_db : f_removable_debit fx = true.
Variable p : params.
Variables B cap : Z.
Variable g : block.

(* the store is exact for a well-formed chain from the genesis made of blocks the node has stored *)
Definition Good2 (U : list block) (S : list N) (st : xstate) : Prop :=
  StInv U S st /\
  exists c f, wf_chain c /\ from_g g c /\ incl c U /\ XRep p st c [] f.

Record XInv2 (A : list block) (S : list N) (s : xsim) : Prop := {
  x2_nocrash : xs_crashed s = false;
  x2_all : incl (xs_all s) (chain_txs (g :: A));
  x2_ids : NoDup (map b_id (g :: A));
  x2_txs : GU (g :: A);
  x2_g : b_txs g = [];
  x2_gprev : forall b, In b A -> b_id b <> b_prev g;
  x2_wfn : wf_chain (xs_node s);
  x2_gn : from_g g (xs_node s);
  x2_nU : incl (xs_node s) (g :: A);
  x2_good : Good2 (g :: A) S (xs_st s)
}.

Lemma Good2_process : forall n U S st b st',
  NoDup (map b_id U) -> GU U -> wf_chain n -> from_g g n -> incl n U ->
  Good2 U S st -> In b U -> b <> g -> xprocess fx p n st b = XOk st' -> Good2 U S st'.
Proof.
  intros n U S st b st' Hids Htxs Hwfn Hgn HnU [HS [c [f [Hwfc [Hgc [HcU HR]]]]]] HbU Hbg Hp.
  destruct (xprocess_ok_inv2 fx Hfx_rb Hfx_ro p g U S (ids_inj U Hids) Htxs n st c f b st'
              HS Hwfn Hgn HnU Hwfc Hgc HcU HR HbU Hbg Hp)
    as [c' [f' [H1 [H2 [H3 [H4 [H5 _]]]]]]].
  split; [assumption|]. exists c', f'. tauto.
Qed.

(* ------------------------------------------------------------ restart: catch-up with the node *)

Lemma Good2_tip_height : forall U S st, Good2 U S st -> 0 <= fst (tip (x_w st)).
Proof.
  intros U S st [_ [c [f [Hwfc [_ [_ [Hsy _]]]]]]]. rewrite app_nil_r in Hsy.
  rewrite (tip_synced (x_w st) (L p (fun _ => None) c) Hsy).
  rewrite (tip_height_L p _ _ Hwfc). unfold chain_height.
  pose proof (wf_nonempty _ Hwfc). destruct c; [contradiction|]. cbn [length]. lia.
Qed.

Lemma catchup_good2 : forall n U S fuel st st',
  NoDup (map b_id U) -> GU U -> wf_chain n -> from_g g n -> incl n U ->
  Good2 U S st -> catchup fx p n st fuel = XOk st' -> Good2 U S st'.
Proof.
  intros n U S fuel. induction fuel as [|k IH]; intros st st' Hids Htxs Hwfn Hgn HnU HG H.
  - inversion H. subst. assumption.
  - cbn [catchup] in H. destruct (node_at n (fst (tip (x_w st)) + 1)) as [b|] eqn:Hat; [|inversion H; subst; assumption].
    destruct (xprocess fx p n st b) as [st1| |] eqn:Hp; try discriminate.
    apply (IH st1 st'); try assumption.
    unfold node_at in Hat. apply find_some in Hat. destruct Hat as [Hbn Hbh]. apply Z.eqb_eq in Hbh.
    apply (Good2_process n U S st b st1); try assumption.
    + apply HnU. assumption.
    + intros Heq. subst b. rewrite (genesis_height g n Hwfn Hgn) in Hbh. pose proof (Good2_tip_height _ _ _ HG). lia.
Qed.

(* the genesis block goes through processConnectedBlock (a node whose chain has shrunk to the
   genesis): the store is rolled back to it *)
Lemma Good2_process_genesis : forall n U S st st',
  NoDup (map b_id U) -> GU U -> wf_chain n -> from_g g n -> incl n U ->
  (forall b, In b U -> b <> g -> b_id b <> b_prev g) ->
  Good2 U S st -> snd (tip (x_w st)) <> b_id g -> xprocess fx p n st g = XOk st' -> Good2 U S st'.
Proof.
  intros n U S st st' Hids Htxs Hwfn Hgn HnU Hgprev [HS [c [f [Hwfc [Hgc [HcU HR]]]]]] Htip Hp.
  set (own0 := fun _ : N => @None N).
  assert (Hsy : synced (x_w st) = synced (L p own0 c)).
  { destruct HR as [Hsy _]. rewrite app_nil_r in Hsy. exact Hsy. }
  destruct (wf_linked _ Hwfc) as [pvc Hlc].
  destruct Hgc as [r1 Hc1g].
  assert (Hgc : In g c). { rewrite Hc1g. left. reflexivity. }
  (* the tip of the store is a block other than the genesis *)
  destruct (exists_last (wf_nonempty _ Hwfc)) as [cpre [y Hc]].
  assert (Hty : snd (tip (x_w st)) = b_id y).
  { rewrite (tip_synced _ _ Hsy). rewrite Hc, tip_L_snoc. reflexivity. }
  assert (Hyc : In y c). { rewrite Hc. apply in_or_app. right. left. reflexivity. }
  assert (Hyg : y <> g). { intros ->. apply Htip. assumption. }
  unfold xprocess in Hp. rewrite Hty in Hp.
  destruct (b_id y =? b_prev g)%N eqn:E.
  { exfalso. apply N.eqb_eq in E. apply (Hgprev y (HcU y Hyc) Hyg E). }
  rewrite (collect_synced n _ _ _ _ _ Hsy) in Hp. cbn [collect] in Hp.
  fold (matched (L p own0 c) g) in Hp. rewrite (in_matched p own0 c g pvc 0 Hlc Hgc) in Hp.
  destruct (xrollback fx st (b_height g + 1)) as [st1| |] eqn:Hrb; try discriminate.
  cbn [xconnect_all] in Hp. inversion Hp. subst st1. clear Hp.
  assert (Hcs : c = [g] ++ r1). { rewrite Hc1g. reflexivity. }
  assert (Hh : (forall z, In z [g] -> b_height z < b_height g + 1) /\ (forall z, In z r1 -> b_height g + 1 <= b_height z)).
  { rewrite Hcs in Hlc. destruct (linked_heights_split _ _ _ Hlc) as [Ha Hb]. cbn [length] in Ha, Hb.
    pose proof (genesis_height g n Hwfn Hgn) as Hg0. rewrite Hg0. split; assumption. }
  destruct Hh as [Hh1 Hh2].
  destruct (xrollback_ok fx Hfx_rb Hfx_ro p U S st c [] f [g] r1 (b_height g + 1) [g] [] r1 HS HR)
    as [st1 [Hrb1 [HR1 [HS1 _]]]]; [rewrite app_nil_r; exact Hcs|assumption|assumption|reflexivity|exact Hcs|].
  rewrite Hrb in Hrb1. inversion Hrb1. subst st1.
  split; [assumption|]. exists [g], (rb_marks (x_brecs st) (b_height g + 1) f).
  split; [rewrite Hcs in Hwfc; apply (wf_chain_prefix _ _ Hwfc); discriminate|].
  split; [exists []; reflexivity|].
  split; [intros z [Hz|[]]; subst z; apply HcU; assumption|exact HR1].
Qed.

Lemma start_sync_good2 : forall n U S st,
  NoDup (map b_id U) -> GU U -> wf_chain n -> from_g g n -> incl n U ->
  (forall b, In b U -> b <> g -> b_id b <> b_prev g) ->
  Good2 U S st ->
  start_sync fx p n st <> XPanic /\ forall st', start_sync fx p n st = XOk st' -> Good2 U S st'.
Proof.
  intros n U S st Hids Htxs Hwfn Hgn HnU Hgprev HG. unfold start_sync.
  destruct (catchup fx p n st (length n)) as [st1| |] eqn:Hc.
  - pose proof (catchup_good2 n U S _ st st1 Hids Htxs Hwfn Hgn HnU HG Hc) as HG1.
    destruct (f_start_reorg fx && (Z.of_nat (length n) - 1 <=? fst (tip (x_w st)))); [|split; [discriminate|intros st' H; inversion H; subst; assumption]].
    destruct (node_at n (Z.of_nat (length n) - 1)) as [b|] eqn:Hat; [|split; [discriminate|intros st' H; inversion H; subst; assumption]].
    destruct (b_id b =? snd (tip (x_w st1)))%N eqn:E; [split; [discriminate|intros st' H; inversion H; subst; assumption]|].
    split; [destruct (xprocess_repaired_safe fx p n st1 b Hfx_rb) as [Hnp _]; exact Hnp|].
    intros st' Hp. unfold node_at in Hat. apply find_some in Hat. destruct Hat as [Hbn _].
    destruct (N.eq_dec (b_id b) (b_id g)) as [Hid|Hid].
    + assert (b = g). { apply (ids_inj U Hids); [apply HnU; assumption| |assumption]. apply HnU. destruct Hgn as [n' Hgn]. rewrite Hgn. left. reflexivity. }
      subst b. apply (Good2_process_genesis n U S st1 st'); try assumption.
      apply N.eqb_neq in E. congruence.
    + apply (Good2_process n U S st1 b st'); try assumption; [apply HnU; assumption|congruence].
  - split; [discriminate|intros; discriminate].
  - exfalso. apply (catchup_no_panic fx Hfx_rb p _ _ _ Hc).
Qed.

Lemma Good2_mono : forall U U' S st, incl U U' -> Good2 U S st -> Good2 U' S st.
Proof.
  intros U U' S st HU [HS [c [f [H1 [H2 [H3 H4]]]]]]. split; [apply (StInv_mono U U'); assumption|].
  exists c, f. split; [assumption|split; [assumption|split; [|assumption]]].
  intros z Hz. apply HU. apply H3. assumption.
Qed.

(* one event *)
Lemma XInv2_step : forall A S s e r,
  XInv2 A S s -> xfresh2 g A S (e :: r) -> wf_chain (xs_node (xstep fx p B cap s e)) ->
  exists A' S', XInv2 A' S' (xstep fx p B cap s e) /\ xfresh2 g A' S' r.
Proof.
  intros A S s e r HI Hfr Hwf'.
  destruct HI as [Hnc Hall Hids Htxs Hgt Hgp Hwfn Hgn HnU Hgood].
  set (U := g :: A) in *.
  destruct e as [b| |b|w pass|sh w|w pass shs|w|w pass|w|w|]; cbn [xfresh2] in Hfr; try contradiction.
  - (* attach *)
    destruct Hfr as [[HbA Hfr]|[Hnew [Hbgp [Hcross Hfr]]]].
    + (* a block the node has stored before *)
      exists A, S. split; [|assumption]. cbn [xstep xs_node] in Hwf'.
      constructor; cbn [xstep xs_node xs_st xs_all xs_crashed]; try assumption.
      * apply incl_app; [assumption|]. intros t Ht. apply in_chain_txs. exists b. split; [right; assumption|assumption].
      * destruct Hgn as [n' Hn]. exists (n' ++ [b]). rewrite Hn. reflexivity.
      * apply incl_app; [assumption|]. intros z [Hz|[]]. subst z. right. assumption.
    + exists (A ++ [b]), S. split; [|assumption].
      cbn [xstep xs_node] in Hwf'.
      assert (HU' : g :: A ++ [b] = U ++ [b]) by reflexivity.
      assert (HbU : ~ In b U). { intros Hin. apply Hnew. apply in_map. assumption. }
      constructor; cbn [xstep xs_node xs_st xs_all xs_crashed]; rewrite ?HU'.
      * assumption.
      * rewrite chain_txs_app. cbn. rewrite app_nil_r. apply incl_app; [apply incl_appl; assumption|apply incl_appr; apply incl_refl].
      * rewrite map_app. cbn [map]. apply NoDup_snoc; assumption.
      * assert (Hbnd : NoDup (map t_id (b_txs b))).
        { pose proof (wf_txids _ Hwf') as H. rewrite chain_txs_app, map_app in H. apply NoDup_app_inv in H.
          destruct H as [_ [H _]]. cbn in H. rewrite app_nil_r in H. exact H. }
        intros t t' Ht Ht' Hid. rewrite chain_txs_app in Ht, Ht'. cbn in Ht, Ht'. rewrite app_nil_r in Ht, Ht'.
        apply in_app_or in Ht. apply in_app_or in Ht'. destruct Ht as [Ht|Ht]; destruct Ht' as [Ht'|Ht'].
        -- apply Htxs; assumption.
        -- symmetry. apply Hcross; [assumption|assumption|symmetry; assumption].
        -- apply Hcross; assumption.
        -- apply (NoDup_map_inj_in _ _ t_id (b_txs b)); assumption.
      * assumption.
      * intros b' Hb'. apply in_app_or in Hb'. destruct Hb' as [Hb'|[Hb'|[]]]; [apply Hgp; assumption|subst b'; assumption].
      * assumption.
      * destruct Hgn as [n' Hn]. exists (n' ++ [b]). rewrite Hn. reflexivity.
      * apply incl_app; [apply incl_appl; assumption|apply incl_appr; apply incl_refl].
      * apply (Good2_mono U (U ++ [b])); [apply incl_appl; apply incl_refl|assumption].
  - (* detach *)
    cbn [xstep xs_node] in Hwf'.
    set (n := xs_node s) in *.
    assert (Hn'ne : removelast n <> []) by (apply wf_nonempty; assumption).
    exists A, S. split; [|assumption].
    constructor; cbn [xstep xs_node xs_st xs_all xs_crashed]; fold n; try assumption.
    + destruct Hgn as [n' Hn]. fold n in Hn. rewrite Hn in *. destruct n' as [|z n'].
      * exfalso. apply Hn'ne. reflexivity.
      * exists (removelast (z :: n')). reflexivity.
    + intros z Hz. apply HnU. apply removelast_in. assumption.
  - (* process *)
    destruct Hfr as [HbA Hfr]. exists A, S. split; [|assumption].
    cbn [xstep]. rewrite Hnc.
    destruct (xprocess fx p (xs_node s) (xs_st s) b) as [st'| |] eqn:Hp.
    + constructor; cbn [with_st xs_node xs_st xs_all xs_crashed]; try assumption.
      apply (Good2_process (xs_node s) U S (xs_st s) b st'); try assumption.
      * right. assumption.
      * apply (in_attached_not_g g A); assumption.
    + constructor; assumption.
    + exfalso. destruct (xprocess_repaired_safe fx p (xs_node s) (xs_st s) b Hfx_rb) as [Hnp _]. contradiction.
  - (* create wallet *)
    exists A, S. split; [|assumption]. cbn [xstep].
    destruct (new_wallet (xs_st s) w pass) as [st'|] eqn:Hnw; [|constructor; assumption].
    destruct Hgood as [HS [c [f [Hwfc [Hgc [HcU HR]]]]]].
    destruct (new_wallet_keeps p U S _ _ _ _ c [] f HS HR Hnw) as [HS' HR'].
    constructor; cbn [with_st xs_node xs_st xs_all xs_crashed]; try assumption.
    split; [assumption|]. exists c, f. tauto.
  - (* new address *)
    destruct Hfr as [Hsh [Hunpaid Hfr]]. exists A, (S ++ [sh]). split; [|assumption]. cbn [xstep].
    destruct Hgood as [HS [c [f [Hwfc [Hgc [HcU HR]]]]]].
    destruct (new_address_keeps p U S (xs_st s) sh w c [] f HS HR) as [HS' HR']; [rewrite app_nil_r; assumption|assumption| |].
    { intros b [Hb|Hb]; [|apply Hunpaid; assumption]. subst b. intros [t [o [Ht _]]]. rewrite Hgt in Ht. destruct Ht. }
    constructor; cbn [with_st xs_node xs_st xs_all xs_crashed]; try assumption.
    split; [assumption|]. exists c, f. tauto.
  - (* removal request *)
    exists A, S. split; [|assumption]. cbn [xstep].
    destruct Hgood as [HS [c [f [Hwfc [Hgc [HcU HR]]]]]].
    destruct (request_keeps p U S (xs_st s) w pass c [] f HS HR) as [HS' HR'].
    constructor; cbn [with_st xs_node xs_st xs_all xs_crashed]; try assumption.
    split; [assumption|]. exists c, f. tauto.
  - (* phase 1 *)
    exists A, S. split; [|assumption]. cbn [xstep].
    destruct Hgood as [HS [c [f [Hwfc [Hgc [HcU HR]]]]]].
    destruct (phase1_keeps p U S (xs_st s) w c [] f HS HR) as [HS' HR'].
    constructor; cbn [with_st xs_node xs_st xs_all xs_crashed]; try assumption.
    split; [assumption|]. exists c, f. tauto.
  - (* a phase 2 round: wherever the node's chain stands *)
    exists A, S. split; [|assumption]. cbn [xstep].
    destruct Hgood as [HS [c [f [Hwfc [Hgc [HcU HR]]]]]].
    destruct (round_keeps_gen fx Hfx_rm p U S Htxs cap (xs_node s) (find_tx (xs_all s)) (xs_st s) w c [] f) as [HS' HR'];
      try assumption.
    { intros t tx0 H. apply find_tx_some in H. destruct H as [H1 H2]. split; [apply Hall; assumption|assumption]. }
    { left. assumption. }
    { rewrite app_nil_r. assumption. }
    constructor; cbn [with_st xs_node xs_st xs_all xs_crashed]; try assumption.
    split; [assumption|]. exists c, f. tauto.
  - (* restart *)
    exists A, S. split; [|assumption]. cbn [xstep].
    set (st0 := {| x_w := x_w (xs_st s); x_keys := x_keys (xs_st s); x_pass := x_pass (xs_st s);
                   x_status := x_status (xs_st s); x_brecs := x_brecs (xs_st s); x_balrow := x_balrow (xs_st s);
                   x_ugame := x_ugame (xs_st s); x_dead := []; x_p1 := [] |}).
    assert (HG0 : Good2 U S st0).
    { destruct Hgood as [HS [c [f [Hwfc [Hgc [HcU HR]]]]]]. split.
      - destruct HS as [K1 K2 K3 K4 K5 K6]. constructor; try assumption. intros w Hw. discriminate.
      - exists c, f. split; [assumption|split; [assumption|split; [assumption|]]].
        destruct HR as [Hsy HR]. split; [exact Hsy|].
        rewrite (ready_own_eq (xs_st s) st0 eq_refl eq_refl), (is_ready_eq (xs_st s) st0 eq_refl). exact HR. }
    assert (Hgprev : forall b, In b U -> b <> g -> b_id b <> b_prev g).
    { intros b [Hb|Hb] Hne; [congruence|apply Hgp; assumption]. }
    destruct (start_sync_good2 (xs_node s) U S st0 Hids Htxs Hwfn Hgn HnU Hgprev HG0) as [Hnp Hok].
    destruct (start_sync fx p (xs_node s) st0) as [st'| |] eqn:Hss.
    + constructor; cbn [xs_node xs_st xs_all xs_crashed]; try assumption; [reflexivity|apply Hok; reflexivity].
    + constructor; cbn [xs_node xs_st xs_all xs_crashed]; try assumption. reflexivity.
    + contradiction.
Qed.

(* every prefix of a well-formed history *)
Lemma XInv2_run : forall h r A S s,
  XInv2 A S s -> xfresh2 g A S (h ++ r) ->
  (forall s', In s' (xsims fx p B cap s h) -> wf_chain (xs_node s')) ->
  exists A' S', XInv2 A' S' (fold_left (xstep fx p B cap) h s) /\ xfresh2 g A' S' r.
Proof.
  induction h as [|e h IH]; intros r A S s HI Hfr Hsims.
  - exists A, S. split; assumption.
  - cbn [fold_left]. cbn [app] in Hfr.
    destruct (XInv2_step A S s e (h ++ r) HI Hfr) as [A1 [S1 [HI1 Hfr1]]].
    + apply Hsims. cbn [xsims]. right. apply xsims_head.
    + apply (IH r A1 S1 _ HI1 Hfr1). intros s' Hs'. apply Hsims. cbn [xsims]. right. assumption.
Qed.

Lemma XInv2_init : wf_chain [g] -> XInv2 [] [] (xinit_sim [g]).
Proof.
  intros Hwf. destruct (wf_genesis _ Hwf) as [g' [rest [Hc [Hh [Htx _]]]]]. inversion Hc. subst g' rest. clear Hc.
  assert (Hct : chain_txs [g] = []). { unfold chain_txs. cbn. rewrite Htx. reflexivity. }
  constructor; cbn [xinit_sim xs_node xs_st xs_all xs_crashed].
  - reflexivity.
  - apply incl_refl.
  - cbn. constructor; [intros []|constructor].
  - intros t t' Ht. rewrite Hct in Ht. destruct Ht.
  - assumption.
  - intros b [].
  - assumption.
  - exists []. reflexivity.
  - apply incl_refl.
  - split.
    + constructor; cbn [xinit x_w credits x_keys x_status x_p1].
      * intros cr [].
      * constructor.
      * intros cr [].
      * intros w k [].
      * intros w Hw. discriminate.
      * apply incl_nil_l.
    + exists [g], (fun _ => None).
      split; [assumption|split; [exists []; reflexivity|split; [apply incl_refl|]]].
      split; [reflexivity|].
      assert (Hcoins : forall own, coins_l own (ptxs [g]) = []).
      { intros own. unfold ptxs, ptxs_of_block. cbn. rewrite Htx. reflexivity. }
      constructor; rewrite ?app_nil_r, ?Hcoins; cbn [xinit x_w credits x_brecs].
      * reflexivity.
      * intros k [].
      * intros k [].
      * intros k a i hs [].
Qed.

(* the wallet's tip is the node's tip: the represented chain is the node's chain *)
Lemma XInv2_quiescent : forall A S s,
  XInv2 A S s -> snd (tip (x_w (xs_st s))) = b_id (last (xs_node s) g) ->
  exists f, XRep p (xs_st s) (xs_node s) [] f.
Proof.
  intros A S s HI Htip.
  destruct HI as [Hnc Hall Hids Htxs Hgt Hgp Hwfn Hgn HnU [HS [c [f [Hwfc [Hgc [HcU HR]]]]]]].
  set (n := xs_node s) in *.
  assert (Hnne : n <> []) by (apply wf_nonempty; assumption).
  set (x := last n g) in *.
  assert (Hnx : n = removelast n ++ [x]) by (apply app_removelast_last; assumption).
  destruct (exists_last (wf_nonempty _ Hwfc)) as [cpre [y Hc]].
  assert (Hty : snd (tip (x_w (xs_st s))) = b_id y).
  { destruct HR as [Hsy _]. rewrite app_nil_r in Hsy.
    rewrite (tip_synced (x_w (xs_st s)) (L p (fun _ => None) c) Hsy).
    rewrite Hc, tip_L_snoc. reflexivity. }
  assert (Hyx : y = x).
  { apply (ids_inj _ Hids); [apply HcU; rewrite Hc; apply in_or_app; right; left; reflexivity| |congruence].
    apply HnU. rewrite Hnx. apply in_or_app. right. left. reflexivity. }
  subst y.
  assert (Hagree : ids_agree c n). { intros b1 b2 H1 H2. apply (ids_inj _ Hids); [apply HcU|apply HnU]; assumption. }
  destruct (wf_linked _ Hwfn) as [pvn Hln]. destruct (wf_linked _ Hwfc) as [pvc Hlc].
  assert (Hpre : cpre = removelast n).
  { apply (common_prefix c n pvc pvn 0 Hlc Hln Hagree cpre x [] (removelast n) []); assumption. }
  exists f. rewrite Hnx, <- Hpre, <- Hc. exact HR.
Qed.

End XHistory2.

(* ---------------------------------------------------------------- the theorems *)

Lemma wf_xhistory2_inv : forall fx p B cap g h r,
  f_removable fx = true -> f_rollback fx = true -> f_rollback_order fx = true -> f_removable_debit fx = true ->
  wf_xhistory2 fx p B cap g (h ++ r) ->
  exists A S, XInv2 p g A S (xrun fx p B cap [g] h) /\ xfresh2 g A S r.
Proof.
  intros fx p B cap g h r H1 H2 H3 H4 [Hsims Hfr].
  assert (Hwfg : wf_chain [g]). { apply (Hsims (xinit_sim [g])). apply xsims_head. }
  unfold xrun. apply (XInv2_run fx H1 H2 H3 H4 p B cap g h r [] [] (xinit_sim [g])).
  - apply XInv2_init. assumption.
  - assumption.
  - intros s' Hs'. apply Hsims. apply xsims_prefix_in. assumption.
Qed.

(* A: at every point of a history — blocks may be disconnected and connected again — the handler has
   not died, and whenever its tip is the node's tip every ready wallet reports exactly what the node's
   chain pays to its addresses *)
Theorem survivors_correct_quiescent2 : forall fx p B cap g h,
  f_removable fx = true -> f_rollback fx = true -> f_rollback_order fx = true -> f_removable_debit fx = true ->
  wf_xhistory2 fx p B cap g h ->
  let s := xrun fx p B cap [g] h in
  xs_crashed s = false /\
  (snd (tip (x_w (xs_st s))) = b_id (last (xs_node s) g) ->
   forall v, status_of (xs_st s) v = Some WReady ->
     xreport (xs_st s) v = spec_report p (key_owner (xs_st s)) (xs_node s) v).
Proof.
  intros fx p B cap g h H1 H2 H3 H4 Hwf s.
  rewrite <- (app_nil_r h) in Hwf.
  destruct (wf_xhistory2_inv fx p B cap g h [] H1 H2 H3 H4 Hwf) as [A [S [HI _]]]. fold s in HI.
  split; [exact (x2_nocrash _ _ _ _ _ HI)|].
  intros Htip v Hv. destruct (XInv2_quiescent p g A S s HI Htip) as [f HR].
  apply (exact_report p _ _ f v (x2_wfn _ _ _ _ _ HI) HR Hv).
Qed.

(* B: processing the announcement of the node's tip succeeds and puts the handler on that tip *)
Theorem survivors_correct_after2 : forall fx p B cap g h b,
  f_removable fx = true -> f_rollback fx = true -> f_rollback_order fx = true -> f_removable_debit fx = true ->
  wf_xhistory2 fx p B cap g (h ++ [XProcess b]) ->
  last (xs_node (xrun fx p B cap [g] h)) g = b ->
  let s := xrun fx p B cap [g] (h ++ [XProcess b]) in
  xs_crashed s = false /\ snd (tip (x_w (xs_st s))) = b_id b /\
  forall v, status_of (xs_st s) v = Some WReady ->
    xreport (xs_st s) v = spec_report p (key_owner (xs_st s)) (xs_node s) v.
Proof.
  intros fx p B cap g h b H1 H2 H3 H4 Hwf Hlast s.
  destruct (wf_xhistory2_inv fx p B cap g h [XProcess b] H1 H2 H3 H4 Hwf) as [A [S [HI Hfr]]].
  cbn [xfresh2] in Hfr. destruct Hfr as [HbA _].
  set (s1 := xrun fx p B cap [g] h) in *.
  destruct HI as [Hnc Hall Hids Htxs Hgt Hgp Hwfn Hgn HnU [HS [c [f [Hwfc [Hgc [HcU HR]]]]]]].
  set (n := xs_node s1) in *.
  assert (Hbg : b <> g) by (apply (in_attached_not_g g A); assumption).
  assert (Hnne : n <> []) by (apply wf_nonempty; assumption).
  assert (Hnb : n = removelast n ++ [b]). { rewrite <- Hlast. apply app_removelast_last. assumption. }
  assert (Hn1 : removelast n <> []).
  { intros Hnil. rewrite Hnil in Hnb. destruct Hgn as [n' Hgn]. fold n in Hgn. rewrite Hgn in Hnb. cbn [app] in Hnb.
    inversion Hnb. congruence. }
  destruct (xprocess_on_node2 fx H2 H3 p g (g :: A) S (ids_inj _ Hids) Htxs n (xs_st s1) c f b (removelast n) []
              HS Hwfn Hgn HnU Hwfc Hgc HcU HR Hnb Hn1) as [st' [f' [Hp [HR' _]]]].
  rewrite <- Hnb in HR'.
  assert (Hs : s = with_st s1 st').
  { unfold s, xrun. rewrite fold_left_app. cbn [fold_left xstep]. fold (xrun fx p B cap [g] h). fold s1.
    rewrite Hnc. fold n. rewrite Hp. reflexivity. }
  rewrite Hs. cbn [with_st xs_crashed xs_st xs_node]. fold n.
  split; [assumption|split].
  - destruct HR' as [Hsy _]. rewrite app_nil_r in Hsy.
    rewrite (tip_synced (x_w st') (L p (fun _ => None) n) Hsy). rewrite Hnb, tip_L_snoc. reflexivity.
  - intros v Hv. apply (exact_report p st' n f' v Hwfn HR' Hv).
Qed.

(* C: once the round that finishes the removal of w has run, nothing in the store mentions w or one of
   its script hashes — at that moment and after ANY further events that do not create wallet w again or
   issue one of its script hashes again; [h2] need not even be well formed *)
Theorem removed_stays_removed2 : forall fx p B cap g h1 w h2,
  f_removable fx = true -> f_rollback fx = true -> f_rollback_order fx = true -> f_removable_debit fx = true ->
  wf_xhistory2 fx p B cap g (h1 ++ [XRound w]) ->
  let s1 := xrun fx p B cap [g] h1 in
  let shs := sh_of_wallet (xs_st s1) w in
  listed (xs_st s1) w = true ->
  listed (xs_st (xrun fx p B cap [g] (h1 ++ [XRound w]))) w = false ->
  (forall e, In e h2 -> not_recreating w shs e) ->
  let s := xrun fx p B cap [g] (h1 ++ XRound w :: h2) in
  mentions (xs_st s) w shs = false /\ listed (xs_st s) w = false.
Proof.
  intros fx p B cap g h1 w h2 H1 H2 H3 H4 Hwf s1 shs Hl1 Hl2 Hh2 s.
  destruct (wf_xhistory2_inv fx p B cap g h1 [XRound w] H1 H2 H3 H4 Hwf) as [A [S [HI _]]]. fold s1 in HI.
  destruct (x2_good _ _ _ _ _ HI) as [HS _].
  assert (Hstep : xrun fx p B cap [g] (h1 ++ [XRound w]) = xstep fx p B cap s1 (XRound w)).
  { unfold xrun. rewrite fold_left_app. reflexivity. }
  rewrite Hstep in Hl2. cbn [xstep with_st xs_st] in Hl2.
  destruct (remove_round fx cap (xs_node s1) (find_tx (xs_all s1)) (xs_st s1) w) as [st' fin] eqn:Hr.
  cbn [fst] in Hl2.
  destruct fin.
  2:{ exfalso. pose proof (remove_round_status _ _ _ _ _ _ _ Hr) as Hst. unfold listed, status_of in Hl1, Hl2.
      rewrite Hst in Hl2. congruence. }
  pose proof (remove_round_fin _ _ _ _ _ _ _ Hr) as Hp1.
  destruct (si_p1 _ _ _ HS w Hp1) as [_ Hres].
  destruct (remove_erases fx cap _ _ _ w st' (si_keyed _ _ _ HS) (si_fun _ _ _ HS) Hres Hr) as [Hm _]. fold shs in Hm.
  assert (HC : Clean w shs (xs_st (xstep fx p B cap s1 (XRound w)))).
  { cbn [xstep with_st xs_st]. rewrite Hr. cbn [fst]. apply mentions_clean. exact Hm. }
  assert (Hs : s = fold_left (xstep fx p B cap) h2 (xstep fx p B cap s1 (XRound w))).
  { unfold s, xrun. rewrite fold_left_app. reflexivity. }
  pose proof (fold_clean fx p B cap w shs h2 _ HC Hh2) as HC'. rewrite <- Hs in HC'.
  split; [apply mentions_clean; exact HC'|]. unfold listed. rewrite (cl_status _ _ _ HC'). reflexivity.
Qed.

(* ---------------------------------------------------------------- a boolean check of [wf_xhistory2] *)

Fixpoint xfresh2_b (g : block) (A : list block) (S : list N) (h : list xevent) : bool :=
  match h with
  | [] => true
  | XAttach b :: r =>
      if existsb (block_eqb b) A then xfresh2_b g A S r
      else
        negb (memN (b_id b) (map b_id (g :: A))) && negb (b_id b =? b_prev g)%N &&
        forallb (fun t => forallb (fun t' => negb (t_id t =? t_id t')%N || tx_eqb t t') (chain_txs (g :: A))) (b_txs b) &&
        xfresh2_b g (A ++ [b]) S r
  | XProcess b :: r => existsb (block_eqb b) A && xfresh2_b g A S r
  | XNewAddr sh w :: r => negb (memN sh S) && forallb (fun b => negb (pays_b b sh)) A && xfresh2_b g A (S ++ [sh]) r
  | XImportStart _ _ _ :: _ => false
  | XBatch _ :: _ => false
  | _ :: r => xfresh2_b g A S r
  end.

Lemma xfresh2_b_sound : forall g h A S, xfresh2_b g A S h = true -> xfresh2 g A S h.
Proof.
  intros g h. induction h as [|e r IH]; intros A S H; [exact I|].
  destruct e as [b| |b|w pass|sh w|w pass shs|w|w pass|w|w|]; cbn [xfresh2_b xfresh2] in *; try discriminate;
    try (apply IH; assumption).
  - destruct (existsb (block_eqb b) A) eqn:Hex.
    + left. split; [|apply IH; assumption].
      apply existsb_exists in Hex. destruct Hex as [b' [Hb' Heq]]. apply block_eqb_sound in Heq. subst b'. assumption.
    + right. apply andb_true_iff in H. destruct H as [H H4]. apply andb_true_iff in H. destruct H as [H H3].
      apply andb_true_iff in H. destruct H as [H1 H2].
      split; [|split; [|split; [|apply IH; assumption]]].
      * apply negb_true_iff in H1. apply memN_false in H1. exact H1.
      * apply negb_true_iff in H2. apply N.eqb_neq in H2. exact H2.
      * intros t t' Ht Ht' Hid. rewrite forallb_forall in H3. specialize (H3 t Ht). rewrite forallb_forall in H3.
        specialize (H3 t' Ht'). apply orb_true_iff in H3. destruct H3 as [H3|H3].
        -- apply negb_true_iff in H3. apply N.eqb_neq in H3. contradiction.
        -- apply tx_eqb_sound. assumption.
  - apply andb_true_iff in H. destruct H as [H1 H2]. split; [|apply IH; assumption].
    apply existsb_exists in H1. destruct H1 as [b' [Hb' Heq]]. apply block_eqb_sound in Heq. subst b'. assumption.
  - apply andb_true_iff in H. destruct H as [H H3]. apply andb_true_iff in H. destruct H as [H1 H2].
    split; [|split; [|apply IH; assumption]].
    + apply negb_true_iff in H1. apply memN_false in H1. exact H1.
    + intros b Hb Hp. rewrite forallb_forall in H2. specialize (H2 b Hb). apply negb_true_iff in H2.
      rewrite (pays_b_complete b sh Hp) in H2. discriminate.
Qed.

Definition wf_xhistory2_b (fx : fixes) (p : params) (B cap : Z) (g : block) (h : list xevent) : bool :=
  forallb (fun s => wf_chain_b (xs_node s)) (xsims fx p B cap (xinit_sim [g]) h) && xfresh2_b g [] [] h.

Theorem wf_xhistory2_b_sound : forall fx p B cap g h, wf_xhistory2_b fx p B cap g h = true -> wf_xhistory2 fx p B cap g h.
Proof.
  intros fx p B cap g h H. unfold wf_xhistory2_b in H. apply andb_true_iff in H. destruct H as [H1 H2]. constructor.
  - intros s Hs. rewrite forallb_forall in H1. apply wf_chain_b_sound. apply H1. assumption.
  - apply xfresh2_b_sound. assumption.
Qed.
