(* Ledger/PendingProofs2.v — C10: the deposit rows ("lg" bucket) along whole histories.
   The invariant [rows_wk]: the mined deposit rows are exactly the staking/binding credits (each once,
   withdrawn bit = spent mark), EXCEPT that the unwithdrawn row of a coinbase deposit whose block was
   reorganised away stays behind (Rollback's coinbase branch never touches the history bucket).
   It is proved for every state a well-formed pending-aware history reaches: connecting blocks,
   Rollback (rows flipped back and deleted transaction by transaction, tip first), receiving
   unconfirmed transactions, restarts.  The ledger part is C01's [L]. *)
From Coq Require Import List ZArith NArith Bool Lia.
Import ListNotations.
Open Scope Z_scope.
Require Import MW.Ledger.Model MW.Ledger.Spec MW.Ledger.Run MW.Ledger.WF MW.Ledger.Pending.
Require Import MW.Ledger.Proofs MW.Ledger.Proofs2 MW.Ledger.Proofs3 MW.Ledger.Proofs4 MW.Ledger.Proofs5 MW.Ledger.Proofs6 MW.Ledger.PendingProofs.

(* ================================================================ small list facts *)

Lemma find_unique :
  forall (A : Type) (f : A -> bool) (l : list A) x,
    In x l -> f x = true -> (forall y, In y l -> f y = true -> y = x) -> find f l = Some x.
Proof.
  intros A f l x Hin Hfx Hu. destruct (find f l) as [y|] eqn:E.
  - apply find_some in E. destruct E as [Hy Hfy]. f_equal. apply Hu; assumption.
  - exfalso. pose proof (find_none _ _ E x Hin) as H. congruence.
Qed.

Lemma heights_down_nil : forall top low, top < low -> heights_down top low = [].
Proof.
  intros top low H. unfold heights_down. replace (Z.to_nat (top - low + 1)) with 0%nat by lia. reflexivity.
Qed.

Lemma heights_down_cons : forall top low, low <= top -> heights_down top low = top :: heights_down (top - 1) low.
Proof.
  intros top low H. unfold heights_down.
  replace (Z.to_nat (top - low + 1)) with (S (Z.to_nat (top - 1 - low + 1))) by lia.
  cbn [seq map]. f_equal; [lia|]. rewrite <- seq_shift, map_map. apply map_ext. intros k. lia.
Qed.

(* ================================================================ the row invariant *)

(* the unwithdrawn row of a deposit made by a coinbase transaction of a block of the universe U *)
Definition cb_row (U : list block) (own : owner_fn) (r : grow) : Prop :=
  exists B t ro b, In B U /\ In t (b_txs B) /\ t_cb t = true /\ In ro (filter_outs own (t_outs t) 0%N) /\
    game_kind (o_class (ro_out ro)) = Some b /\
    r = mk_grow (ro_wallet ro) b false (t_id t) (b_height B) (ro_index ro).

(* [rows_ok] with its third clause weakened: a row without a credit is the unwithdrawn row of a coinbase
   deposit (of a block that was reorganised away) *)
Record rows_wk (U : list block) (own : owner_fn) (cs : list credit) (g : list grow) : Prop := {
  rw_complete : forall c b, In c cs -> game_kind (c_class c) = Some b -> In (row_of c b) g;
  rw_accurate : forall r c, In r g -> In c cs -> same_key r c -> exists b, game_kind (c_class c) = Some b /\ r = row_of c b;
  rw_stale : forall r, In r g -> (exists c, In c cs /\ same_key r c) \/ cb_row U own r;
  rw_nodup : NoDup g
}.

Lemma rows_ok_wk : forall U own cs g, rows_ok cs g -> rows_wk U own cs g.
Proof.
  intros U own cs g R. constructor.
  - exact (ro_complete _ _ R).
  - exact (ro_accurate _ _ R).
  - intros r Hr. left. exact (ro_owned _ _ R r Hr).
  - exact (ro_nodup _ _ R).
Qed.

(* without coinbase deposits in the universe the two notions coincide *)
Lemma rows_wk_ok :
  forall U own cs g, rows_wk U own cs g -> (forall r, ~ cb_row U own r) -> rows_ok cs g.
Proof.
  intros U own cs g R Hn. constructor.
  - exact (rw_complete _ _ _ _ R).
  - exact (rw_accurate _ _ _ _ R).
  - intros r Hr. destruct (rw_stale _ _ _ _ R r Hr) as [H|H]; [exact H|exfalso; exact (Hn r H)].
  - exact (rw_nodup _ _ _ _ R).
Qed.

(* ---- spending *)

Lemma cred_unique_set_spent :
  forall l1 c l2 s, cred_unique (l1 ++ c :: l2) -> cred_unique (l1 ++ set_spent c s :: l2).
Proof. intros l1 c l2 s U. unfold cred_unique in *. rewrite map_app in *. cbn [map] in *. exact U. Qed.

Lemma withdraw_one_rows_wk :
  forall U own l1 c l2 by_ g b,
    rows_wk U own (l1 ++ c :: l2) g -> cred_unique (l1 ++ c :: l2) -> is_unspent c = true -> game_kind (c_class c) = Some b ->
    rows_wk U own (l1 ++ set_spent c (Some by_) :: l2) (g_put (g_del g (row_of c b)) (row_of (set_spent c (Some by_)) b)).
Proof.
  intros U own l1 c l2 by_ g b R Uq Hu Hk.
  set (c' := set_spent c (Some by_)).
  set (r0 := row_of c b). set (r1 := row_of c' b).
  assert (Hc : In c (l1 ++ c :: l2)) by (apply in_or_app; right; left; reflexivity).
  assert (Hfresh : forall x, In x (l1 ++ l2) -> ckey x <> ckey c) by (apply middle_key_fresh; exact Uq).
  assert (Hsplit : forall x, In x (l1 ++ c' :: l2) <-> x = c' \/ In x (l1 ++ l2)).
  { intros x. rewrite !in_app_iff. cbn [In]. split; [intros [H|[H|H]]|intros [H|[H|H]]]; auto. }
  assert (Hsplit0 : forall x, In x (l1 ++ c :: l2) <-> x = c \/ In x (l1 ++ l2)).
  { intros x. rewrite !in_app_iff. cbn [In]. split; [intros [H|[H|H]]|intros [H|[H|H]]]; auto. }
  assert (Hkey' : ckey c' = ckey c) by reflexivity.
  constructor.
  - intros x bx Hx Hkx. apply g_put_in. apply Hsplit in Hx. destruct Hx as [->|Hx].
    + left. unfold c' in Hkx. cbn in Hkx. rewrite Hk in Hkx. inversion Hkx; subst bx. reflexivity.
    + right. apply g_del_in. split.
      * apply (rw_complete _ _ _ _ R); [apply Hsplit0; right; exact Hx|exact Hkx].
      * intros E. apply (Hfresh x Hx). unfold r0, row_of in E. inversion E. unfold ckey. congruence.
  - intros r x Hr Hx Hsk. apply g_put_in in Hr. apply Hsplit in Hx.
    destruct Hr as [->|Hr].
    + destruct Hx as [->|Hx]; [exists b; split; [exact Hk|reflexivity]|].
      exfalso. apply (Hfresh x Hx). apply same_key_ckey in Hsk. rewrite Hsk. reflexivity.
    + apply g_del_in in Hr. destruct Hr as [Hr Hne].
      destruct Hx as [->|Hx].
      * exfalso. destruct (rw_accurate _ _ _ _ R r c Hr Hc) as [bx [Hbx Er]].
        { apply same_key_ckey. apply same_key_ckey in Hsk. rewrite <- Hsk. symmetry. exact Hkey'. }
        rewrite Hk in Hbx. inversion Hbx; subst bx. apply Hne. exact Er.
      * apply (rw_accurate _ _ _ _ R r x Hr); [apply Hsplit0; right; exact Hx|exact Hsk].
  - intros r Hr. apply g_put_in in Hr. destruct Hr as [->|Hr].
    + left. exists c'. split; [apply Hsplit; left; reflexivity|]. repeat split.
    + apply g_del_in in Hr. destruct Hr as [Hr Hne].
      destruct (rw_stale _ _ _ _ R r Hr) as [[x [Hx Hsk]]|Hcb]; [|right; exact Hcb].
      left. apply Hsplit0 in Hx. destruct Hx as [->|Hx].
      * exists c'. split; [apply Hsplit; left; reflexivity|]. exact Hsk.
      * exists x. split; [apply Hsplit; right; exact Hx|exact Hsk].
  - apply g_put_nodup. apply g_del_nodup. exact (rw_nodup _ _ _ _ R).
Qed.

Lemma spend_plain_rows_wk :
  forall U own l1 c l2 by_ g,
    rows_wk U own (l1 ++ c :: l2) g -> game_kind (c_class c) = None ->
    rows_wk U own (l1 ++ set_spent c (Some by_) :: l2) g.
Proof.
  intros U own l1 c l2 by_ g R Hk.
  set (c' := set_spent c (Some by_)).
  assert (Hc : In c (l1 ++ c :: l2)) by (apply in_or_app; right; left; reflexivity).
  assert (Hsplit : forall x, In x (l1 ++ c' :: l2) <-> x = c' \/ In x (l1 ++ l2)).
  { intros x. rewrite !in_app_iff. cbn [In]. split; [intros [H|[H|H]]|intros [H|[H|H]]]; auto. }
  assert (Hsplit0 : forall x, In x (l1 ++ c :: l2) <-> x = c \/ In x (l1 ++ l2)).
  { intros x. rewrite !in_app_iff. cbn [In]. split; [intros [H|[H|H]]|intros [H|[H|H]]]; auto. }
  constructor.
  - intros x bx Hx Hkx. apply Hsplit in Hx. destruct Hx as [->|Hx].
    + unfold c' in Hkx. cbn in Hkx. congruence.
    + apply (rw_complete _ _ _ _ R); [apply Hsplit0; right; exact Hx|exact Hkx].
  - intros r x Hr Hx Hsk. apply Hsplit in Hx. destruct Hx as [->|Hx].
    + exfalso. destruct (rw_accurate _ _ _ _ R r c Hr Hc Hsk) as [bx [Hbx _]]. congruence.
    + apply (rw_accurate _ _ _ _ R r x Hr); [apply Hsplit0; right; exact Hx|exact Hsk].
  - intros r Hr. destruct (rw_stale _ _ _ _ R r Hr) as [[x [Hx Hsk]]|Hcb]; [|right; exact Hcb].
    left. apply Hsplit0 in Hx. destruct Hx as [->|Hx].
    + exists c'. split; [apply Hsplit; left; reflexivity|exact Hsk].
    + exists x. split; [apply Hsplit; right; exact Hx|exact Hsk].
  - exact (rw_nodup _ _ _ _ R).
Qed.

Lemma withdraw_ins_rows_wk :
  forall U own ins cs g t h cs' g', withdraw_ins cs g t h ins = POk (cs', g') ->
    rows_wk U own cs g -> cred_unique cs -> rows_wk U own cs' g' /\ cred_unique cs'.
Proof.
  intros U own. induction ins as [|ri ins IH]; intros cs g t h cs' g' H R Uq; cbn [withdraw_ins] in H.
  - inversion H; subst. split; assumption.
  - destruct (find_unspent cs (ri_wallet ri) (ri_prev ri)) as [c|] eqn:Ef; [|discriminate].
    destruct (spend_credit cs (ri_wallet ri) (ri_prev ri) (t_id t, ri_index ri, h)) as [cs1|] eqn:Es; [|discriminate].
    destruct (spend_credit_spec _ _ _ _ _ Es) as (l1 & c0 & l2 & A & B & C & D & F & G).
    rewrite G in Ef. inversion Ef; subst c0. subst cs cs1.
    pose proof (cred_unique_set_spent l1 c l2 (Some (t_id t, ri_index ri, h)) Uq) as U1.
    destruct (game_kind (c_class c)) as [b|] eqn:Ek.
    + destruct (g_mem _ g) eqn:Em; [|discriminate].
      assert (E0 : mk_grow (ri_wallet ri) b false (fst (ri_prev ri)) (c_height c) (snd (ri_prev ri)) = row_of c b).
      { unfold row_of. rewrite C, D. cbn. rewrite <- F. reflexivity. }
      assert (E1 : mk_grow (ri_wallet ri) b true (fst (ri_prev ri)) (c_height c) (snd (ri_prev ri)) = row_of (set_spent c (Some (t_id t, ri_index ri, h))) b).
      { unfold row_of. cbn. rewrite D, <- F. reflexivity. }
      rewrite E0, E1 in H.
      pose proof (withdraw_one_rows_wk U own l1 c l2 (t_id t, ri_index ri, h) g b R Uq C Ek) as R1.
      eapply IH; eauto.
    + pose proof (spend_plain_rows_wk U own l1 c l2 (t_id t, ri_index ri, h) g R Ek) as R1.
      eapply IH; eauto.
Qed.

(* ---- AddCredits *)

Lemma filter_outs_in :
  forall own outs i ro, In ro (filter_outs own outs i) ->
    exists j, ro_index ro = (i + N.of_nat j)%N /\ nth_error outs j = Some (ro_out ro) /\
              out_owner own (ro_out ro) = Some (ro_wallet ro).
Proof.
  intros own outs. induction outs as [|o outs IH]; intros i ro H; [destruct H|].
  rewrite filter_outs_cons in H.
  assert (Hrest : In ro (filter_outs own outs (i + 1)%N) ->
            exists j, ro_index ro = (i + N.of_nat j)%N /\ nth_error (o :: outs) j = Some (ro_out ro) /\
                      out_owner own (ro_out ro) = Some (ro_wallet ro)).
  { intros H'. destruct (IH _ _ H') as (j & A & B & C). exists (S j). split; [lia|]. split; [exact B|exact C]. }
  destruct (out_owner own o) as [w|] eqn:Eo; [|apply Hrest; exact H].
  destruct H as [<-|H]; [|apply Hrest; exact H].
  exists 0%nat. cbn. split; [lia|]. split; [reflexivity|exact Eo].
Qed.

Lemma filter_outs_index_inj :
  forall own outs i ro1 ro2, In ro1 (filter_outs own outs i) -> In ro2 (filter_outs own outs i) ->
    ro_index ro1 = ro_index ro2 -> ro1 = ro2.
Proof.
  intros own outs i ro1 ro2 H1 H2 E.
  destruct (filter_outs_in _ _ _ _ H1) as (j1 & A1 & B1 & C1).
  destruct (filter_outs_in _ _ _ _ H2) as (j2 & A2 & B2 & C2).
  assert (j1 = j2) by lia. subst j2. rewrite B1 in B2. inversion B2 as [Eo].
  destruct ro1 as [i1 o1 w1], ro2 as [i2 o2 w2]. cbn in *. subst. rewrite C1 in C2. inversion C2. reflexivity.
Qed.

Definition tx_ids_agree (U : list block) : Prop :=
  forall B1 B2 t1 t2, In B1 U -> In B2 U -> In t1 (b_txs B1) -> In t2 (b_txs B2) -> t_id t1 = t_id t2 -> t1 = t2.

Lemma add_credits_rows_wk :
  forall U own p B t cs g,
    tx_ids_agree U -> In B U -> In t (b_txs B) ->
    rows_wk U own cs g ->
    cred_unique (cs ++ map (new_credit p t (b_height B) (b_id B)) (filter_outs own (t_outs t) 0%N)) ->
    rows_wk U own (cs ++ map (new_credit p t (b_height B) (b_id B)) (filter_outs own (t_outs t) 0%N))
                  (add_game_rows g (t_id t) (b_height B) (filter_outs own (t_outs t) 0%N)).
Proof.
  intros U own p B t cs g Hids HB Ht R Uq.
  set (outs := filter_outs own (t_outs t) 0%N) in *. set (h := b_height B) in *. set (bid := b_id B) in *.
  constructor.
  - intros c b Hc Hk. apply add_game_rows_in. apply in_app_or in Hc. destruct Hc as [Hc|Hc].
    + left. apply (rw_complete _ _ _ _ R); assumption.
    + right. apply in_map_iff in Hc. destruct Hc as [ro [<- Hro]]. exists ro, b. split; [exact Hro|]. split; [exact Hk|reflexivity].
  - intros r c Hr Hc Hsk. apply add_game_rows_in in Hr. destruct Hr as [Hr|(ro & b & Hro & Hk & ->)].
    + destruct (rw_stale _ _ _ _ R r Hr) as [[c0 [Hc0 Hsk0]]|Hcb].
      * assert (E : c0 = c).
        { apply (cred_unique_eq _ c0 c Uq); [apply in_or_app; left; exact Hc0|exact Hc|].
          apply same_key_ckey in Hsk. apply same_key_ckey in Hsk0. congruence. }
        subst c0. apply (rw_accurate _ _ _ _ R r c Hr Hc0 Hsk).
      * apply in_app_or in Hc. destruct Hc as [Hc|Hc]; [apply (rw_accurate _ _ _ _ R r c Hr Hc Hsk)|].
        apply in_map_iff in Hc. destruct Hc as [ro [<- Hro]].
        destruct Hcb as (B' & t' & ro' & b' & HB' & Ht' & _ & Hro' & Hk' & ->).
        destruct Hsk as (K1 & K2 & K3). cbn in K1, K2, K3.
        assert (Et : t = t') by (apply (Hids B B' t t' HB HB' Ht Ht'); exact K1). subst t'.
        assert (Er : ro = ro') by (apply (filter_outs_index_inj own (t_outs t) 0%N); assumption). subst ro'.
        exists b'. split; [exact Hk'|]. unfold row_of. cbn. rewrite <- K2. reflexivity.
    + assert (E : new_credit p t h bid ro = c).
      { apply (cred_unique_eq _ _ c Uq); [apply in_or_app; right; apply in_map; exact Hro|exact Hc|].
        apply same_key_ckey in Hsk. cbn in Hsk. rewrite Hsk. reflexivity. }
      subst c. exists b. split; [exact Hk|reflexivity].
  - intros r Hr. apply add_game_rows_in in Hr. destruct Hr as [Hr|(ro & b & Hro & Hk & ->)].
    + destruct (rw_stale _ _ _ _ R r Hr) as [[c [Hc Hsk]]|Hcb]; [|right; exact Hcb].
      left. exists c. split; [apply in_or_app; left; exact Hc|exact Hsk].
    + left. exists (new_credit p t h bid ro). split; [apply in_or_app; right; apply in_map; exact Hro|]. repeat split.
  - apply add_game_rows_nodup. exact (rw_nodup _ _ _ _ R).
Qed.

(* ================================================================ rows in terms of coins (credits = mkE) *)

Definition krow (k : coin) (b wd : bool) : grow := mk_grow (k_wallet k) b wd (k_tx k) (k_height k) (k_vout k).
Definition kkey (k : coin) : N * Z * N := (k_tx k, k_height k, k_vout k).
Definition rkey (r : grow) : N * Z * N := (g_tx r, g_height r, g_vout r).
Definition spent_b (s : option (N * N * Z)) : bool := match s with Some _ => true | None => false end.

Record rows_k (U : list block) (own : owner_fn) (K : list coin) (f : N * N -> option (N * N * Z)) (g : list grow) : Prop := {
  rk_complete : forall k b, In k K -> game_kind (k_class k) = Some b -> In (krow k b (spent_b (f (coin_op k)))) g;
  rk_accurate : forall r k, In r g -> In k K -> kkey k = rkey r ->
                  exists b, game_kind (k_class k) = Some b /\ r = krow k b (spent_b (f (coin_op k)));
  rk_stale : forall r, In r g -> (exists k, In k K /\ kkey k = rkey r) \/ cb_row U own r;
  rk_nodup : NoDup g
}.

Lemma row_of_mk_credit : forall p k s b, row_of (mk_credit p k s) b = krow k b (spent_b s).
Proof. intros p k s b. unfold row_of, krow. destruct s; reflexivity. Qed.

Lemma same_key_mk_credit : forall p k s r, same_key r (mk_credit p k s) <-> kkey k = rkey r.
Proof.
  intros p k s r. unfold same_key, kkey, rkey. cbn. split.
  - intros (A & B & C). rewrite A, B, C. reflexivity.
  - intros E. inversion E. repeat split; reflexivity.
Qed.

Lemma in_mkE : forall p K f c, In c (mkE p K f) <-> exists k, In k K /\ c = mk_credit p k (f (coin_op k)).
Proof.
  intros p K f c. unfold mkE. rewrite in_map_iff. split.
  - intros [k [E Hk]]. exists k. split; [exact Hk|symmetry; exact E].
  - intros [k [Hk E]]. exists k. split; [symmetry; exact E|exact Hk].
Qed.

Lemma rows_wk_mkE : forall U own p K f g, rows_wk U own (mkE p K f) g <-> rows_k U own K f g.
Proof.
  intros U own p K f g. split; intros R; constructor.
  - intros k b Hk Hb. rewrite <- (row_of_mk_credit p). apply (rw_complete _ _ _ _ R); [|exact Hb].
    apply in_mkE. exists k. split; [exact Hk|reflexivity].
  - intros r k Hr Hk Hkey.
    destruct (rw_accurate _ _ _ _ R r (mk_credit p k (f (coin_op k))) Hr) as [b [Hb Er]].
    + apply in_mkE. exists k. split; [exact Hk|reflexivity].
    + apply same_key_mk_credit. exact Hkey.
    + exists b. split; [exact Hb|]. rewrite Er. apply row_of_mk_credit.
  - intros r Hr. destruct (rw_stale _ _ _ _ R r Hr) as [[c [Hc Hsk]]|H]; [|right; exact H].
    left. apply in_mkE in Hc. destruct Hc as [k [Hk ->]]. exists k. split; [exact Hk|].
    apply (same_key_mk_credit p k (f (coin_op k)) r). exact Hsk.
  - exact (rw_nodup _ _ _ _ R).
  - intros c b Hc Hb. apply in_mkE in Hc. destruct Hc as [k [Hk ->]]. rewrite row_of_mk_credit.
    apply (rk_complete _ _ _ _ _ R); assumption.
  - intros r c Hr Hc Hsk. apply in_mkE in Hc. destruct Hc as [k [Hk ->]].
    apply same_key_mk_credit in Hsk.
    destruct (rk_accurate _ _ _ _ _ R r k Hr Hk Hsk) as [b [Hb Er]]. exists b. split; [exact Hb|].
    rewrite row_of_mk_credit. exact Er.
  - intros r Hr. destruct (rk_stale _ _ _ _ _ R r Hr) as [[k [Hk Hkey]]|H]; [|right; exact H].
    left. exists (mk_credit p k (f (coin_op k))). split; [apply in_mkE; exists k; split; [exact Hk|reflexivity]|].
    apply same_key_mk_credit. exact Hkey.
  - exact (rk_nodup _ _ _ _ _ R).
Qed.

Lemma krow_inj : forall k1 b1 w1 k2 b2 w2, krow k1 b1 w1 = krow k2 b2 w2 -> coin_op k1 = coin_op k2 /\ b1 = b2 /\ w1 = w2.
Proof. intros k1 b1 w1 k2 b2 w2 E. unfold krow, mk_grow in E. inversion E. unfold coin_op. repeat split; congruence. Qed.

Lemma kkey_krow : forall k k2 b w, kkey k = rkey (krow k2 b w) -> coin_op k = coin_op k2.
Proof. intros k k2 b w E. unfold kkey, rkey, krow in E. cbn in E. inversion E. unfold coin_op. congruence. Qed.

(* undoing one transaction, abstractly: [T]/[F] are the withdrawn / unwithdrawn rows of the deposits it
   spent, [Dl] the rows of the deposits it created; g1 = g with T replaced by F, g2 = g1 without Dl *)
Lemma peel_rows :
  forall U own K' Kx f' fx (sx : N * N -> option (N * N * Z)) g g1 g2 (T F Dl : grow -> Prop),
    NoDup (map coin_op (K' ++ Kx)) ->
    (forall k, In k Kx -> fx (coin_op k) = None) ->
    (forall k, In k K' -> fx (coin_op k) = match f' (coin_op k) with Some s => Some s | None => sx (coin_op k) end) ->
    (forall r, T r <-> exists k b, In k K' /\ f' (coin_op k) = None /\ sx (coin_op k) <> None /\
                                  game_kind (k_class k) = Some b /\ r = krow k b true) ->
    (forall r, F r <-> exists k b, In k K' /\ f' (coin_op k) = None /\ sx (coin_op k) <> None /\
                                  game_kind (k_class k) = Some b /\ r = krow k b false) ->
    (forall r, Dl r <-> exists k b, In k Kx /\ game_kind (k_class k) = Some b /\ r = krow k b false) ->
    (forall r, In r g1 <-> (In r g /\ ~ T r) \/ F r) ->
    (forall r, In r g2 <-> In r g1 /\ ~ Dl r) ->
    NoDup g2 ->
    rows_k U own (K' ++ Kx) fx g -> rows_k U own K' f' g2.
Proof.
  intros U own K' Kx f' fx sx g g1 g2 T F Dl Hnd Hx Hfx HT HF HD Hg1 Hg2 Hnd2 R.
  assert (Hinj : forall k1 k2, In k1 (K' ++ Kx) -> In k2 (K' ++ Kx) -> coin_op k1 = coin_op k2 -> k1 = k2).
  { intros k1 k2 H1 H2 E. apply (NoDup_map_inj_in _ _ coin_op (K' ++ Kx)); assumption. }
  assert (Hdisj : forall k1 k2, In k1 K' -> In k2 Kx -> coin_op k1 <> coin_op k2).
  { intros k1 k2 H1 H2 E. rewrite map_app in Hnd. apply NoDup_app_inv in Hnd. destruct Hnd as (_ & _ & Hd).
    apply (Hd (coin_op k1)); [apply in_map; exact H1|rewrite E; apply in_map; exact H2]. }
  assert (HnotD : forall k b w, In k K' -> ~ Dl (krow k b w)).
  { intros k b w Hk HDl. apply HD in HDl. destruct HDl as (k3 & b3 & Hk3 & _ & E).
    apply krow_inj in E. destruct E as (E & _). exact (Hdisj k k3 Hk Hk3 E). }
  constructor.
  - intros k b Hk Hb. apply Hg2. split; [|apply HnotD; exact Hk]. apply Hg1.
    assert (Hk' : In k (K' ++ Kx)) by (apply in_or_app; left; exact Hk).
    pose proof (rk_complete _ _ _ _ _ R k b Hk' Hb) as Hc. rewrite (Hfx k Hk) in Hc.
    destruct (f' (coin_op k)) as [s|] eqn:Ef.
    + left. split; [exact Hc|]. intros HTr. apply HT in HTr. destruct HTr as (k2 & b2 & Hk2 & Hf2 & _ & _ & E).
      apply krow_inj in E. destruct E as (E & _).
      assert (k = k2) by (apply Hinj; [exact Hk'|apply in_or_app; left; exact Hk2|exact E]). subst k2. congruence.
    + destruct (sx (coin_op k)) as [s|] eqn:Es.
      * right. apply HF. exists k, b. split; [exact Hk|]. split; [exact Ef|]. split; [congruence|]. split; [exact Hb|reflexivity].
      * left. split; [exact Hc|]. intros HTr. apply HT in HTr. destruct HTr as (k2 & b2 & _ & _ & _ & _ & E).
        apply krow_inj in E. destruct E as (_ & _ & E). discriminate.
  - intros r k Hr Hk Hkey. apply Hg2 in Hr. destruct Hr as [Hr HnD]. apply Hg1 in Hr.
    assert (Hk' : In k (K' ++ Kx)) by (apply in_or_app; left; exact Hk).
    destruct Hr as [[Hr HnT]|HFr].
    + destruct (rk_accurate _ _ _ _ _ R r k Hr Hk' Hkey) as [b [Hb Er]]. exists b. split; [exact Hb|].
      rewrite (Hfx k Hk) in Er. destruct (f' (coin_op k)) as [s|] eqn:Ef; [exact Er|].
      destruct (sx (coin_op k)) as [s|] eqn:Es; [|exact Er].
      exfalso. apply HnT. apply HT. exists k, b. split; [exact Hk|]. split; [exact Ef|]. split; [congruence|]. split; [exact Hb|exact Er].
    + apply HF in HFr. destruct HFr as (k2 & b2 & Hk2 & Hf2 & _ & Hb2 & ->).
      apply kkey_krow in Hkey.
      assert (k = k2) by (apply Hinj; [exact Hk'|apply in_or_app; left; exact Hk2|exact Hkey]). subst k2.
      exists b2. split; [exact Hb2|]. rewrite Hf2. reflexivity.
  - intros r Hr. apply Hg2 in Hr. destruct Hr as [Hr HnD]. apply Hg1 in Hr. destruct Hr as [[Hr HnT]|HFr].
    + destruct (rk_stale _ _ _ _ _ R r Hr) as [[k [Hk Hkey]]|Hcb]; [|right; exact Hcb].
      apply in_app_or in Hk. destruct Hk as [Hk|Hk]; [left; exists k; split; assumption|].
      exfalso. destruct (rk_accurate _ _ _ _ _ R r k Hr (in_or_app _ _ _ (or_intror Hk)) Hkey) as [b [Hb Er]].
      rewrite (Hx k Hk) in Er. apply HnD. apply HD. exists k, b. split; [exact Hk|]. split; [exact Hb|exact Er].
    + apply HF in HFr. destruct HFr as (k2 & b2 & Hk2 & _ & _ & _ & ->). left. exists k2. split; [exact Hk2|reflexivity].
  - exact Hnd2.
Qed.

(* ================================================================ what Rollback does to the rows, exactly *)

Definition Tset (cs : list credit) (tid : N) (h : Z) (idx : list N) (x : grow) : Prop :=
  exists i c b, In i idx /\ debit_of cs tid i h = Some c /\ game_kind (c_class c) = Some b /\
                x = mk_grow (c_wallet c) b true (c_tx c) (c_height c) (c_vout c).
Definition Fset (cs : list credit) (tid : N) (h : Z) (idx : list N) (x : grow) : Prop :=
  exists i c b, In i idx /\ debit_of cs tid i h = Some c /\ game_kind (c_class c) = Some b /\
                x = mk_grow (c_wallet c) b false (c_tx c) (c_height c) (c_vout c).

Lemma unwithdraw_ins_exact :
  forall idx cs g tid h g', unwithdraw_ins cs g tid h idx = POk g' ->
    forall x, In x g' <-> (In x g /\ ~ Tset cs tid h idx x) \/ Fset cs tid h idx x.
Proof.
  induction idx as [|i idx IH]; intros cs g tid h g' H x; cbn [unwithdraw_ins] in H.
  - inversion H; subst. split.
    + intros Hx. left. split; [exact Hx|]. intros (i & c & b & [] & _).
    + intros [[Hx _]|(i & c & b & [] & _)]. exact Hx.
  - assert (Hskip : (forall c b, debit_of cs tid i h = Some c -> game_kind (c_class c) = Some b -> False) ->
                    unwithdraw_ins cs g tid h idx = POk g' ->
                    (In x g' <-> (In x g /\ ~ Tset cs tid h (i :: idx) x) \/ Fset cs tid h (i :: idx) x)).
    { intros Hno H'. rewrite (IH _ _ _ _ _ H' x). split.
      - intros [[Hx HnT]|HF].
        + left. split; [exact Hx|]. intros (j & c & b & [<-|Hj] & P1 & P2 & P3); [exact (Hno c b P1 P2)|].
          apply HnT. exists j, c, b. auto.
        + right. destruct HF as (j & c & b & Hj & P). exists j, c, b. split; [right; exact Hj|exact P].
      - intros [[Hx HnT]|HF].
        + left. split; [exact Hx|]. intros (j & c & b & Hj & P). apply HnT. exists j, c, b. split; [right; exact Hj|exact P].
        + right. destruct HF as (j & c & b & [<-|Hj] & P1 & P2 & P3); [exfalso; exact (Hno c b P1 P2)|].
          exists j, c, b. auto. }
    destruct (debit_of cs tid i h) as [c|] eqn:Ed; [|apply Hskip; [intros c b E; discriminate|exact H]].
    destruct (game_kind (c_class c)) as [b|] eqn:Ek; [|apply Hskip; [intros c0 b0 E E'; inversion E; subst c0; congruence|exact H]].
    clear Hskip. destruct (g_mem _ g) eqn:Em; [|discriminate].
    set (tr := mk_grow (c_wallet c) b true (c_tx c) (c_height c) (c_vout c)) in *.
    set (fr := mk_grow (c_wallet c) b false (c_tx c) (c_height c) (c_vout c)) in *.
    rewrite (IH _ _ _ _ _ H x). rewrite g_put_in, g_del_in.
    assert (HT : Tset cs tid h (i :: idx) x <-> x = tr \/ Tset cs tid h idx x).
    { split.
      - intros (j & c0 & b0 & [<-|Hj] & P1 & P2 & P3).
        + left. rewrite Ed in P1. inversion P1; subst c0. rewrite Ek in P2. inversion P2; subst b0. exact P3.
        + right. exists j, c0, b0. auto.
      - intros [->|(j & c0 & b0 & Hj & P)].
        + exists i, c, b. split; [left; reflexivity|]. auto.
        + exists j, c0, b0. split; [right; exact Hj|exact P]. }
    assert (HF : Fset cs tid h (i :: idx) x <-> x = fr \/ Fset cs tid h idx x).
    { split.
      - intros (j & c0 & b0 & [<-|Hj] & P1 & P2 & P3).
        + left. rewrite Ed in P1. inversion P1; subst c0. rewrite Ek in P2. inversion P2; subst b0. exact P3.
        + right. exists j, c0, b0. auto.
      - intros [->|(j & c0 & b0 & Hj & P)].
        + exists i, c, b. split; [left; reflexivity|]. auto.
        + exists j, c0, b0. split; [right; exact Hj|exact P]. }
    rewrite HT, HF. split.
    + intros [[[->|[Hx Hne]] HnT]|HF'].
      * right. left. reflexivity.
      * left. split; [exact Hx|]. intros [E|E]; [exact (Hne E)|exact (HnT E)].
      * right. right. exact HF'.
    + intros [[Hx HnT]|[->|HF']].
      * left. split; [|intros E; apply HnT; right; exact E]. right. split; [exact Hx|]. intros E. apply HnT. left. exact E.
      * left. split; [left; reflexivity|]. intros (j & c0 & b0 & _ & _ & _ & E). unfold fr in E. inversion E.
      * right. exact HF'.
Qed.

Lemma unwithdraw_ins_nodup :
  forall idx cs g tid h g', unwithdraw_ins cs g tid h idx = POk g' -> NoDup g -> NoDup g'.
Proof. intros idx cs g tid h g' H. exact (proj2 (proj2 (unwithdraw_ins_effect idx cs g tid h g' H))). Qed.

(* the rows of the credits a rolled-back (non-coinbase) transaction had created are deleted *)
Definition del_rows (h : Z) (mine : list credit) (g : list grow) : list grow :=
  fold_left (fun acc c => match game_kind (c_class c) with
                          | Some b => g_del acc (mk_grow (c_wallet c) b false (c_tx c) h (c_vout c))
                          | None => acc
                          end) mine g.

Definition Dset (h : Z) (mine : list credit) (x : grow) : Prop :=
  exists c b, In c mine /\ game_kind (c_class c) = Some b /\ x = mk_grow (c_wallet c) b false (c_tx c) h (c_vout c).

Lemma del_rows_in : forall h mine g x, In x (del_rows h mine g) <-> In x g /\ ~ Dset h mine x.
Proof.
  intros h mine. unfold del_rows. induction mine as [|c mine IH]; intros g x; cbn [fold_left].
  - split; [intros H; split; [exact H|intros (c & b & [] & _)]|intros [H _]; exact H].
  - rewrite IH. destruct (game_kind (c_class c)) as [b|] eqn:Ek.
    + rewrite g_del_in. split.
      * intros [[Hx Hne] HnD]. split; [exact Hx|]. intros (c0 & b0 & [<-|Hc0] & P1 & P2).
        -- rewrite Ek in P1. inversion P1; subst b0. exact (Hne P2).
        -- apply HnD. exists c0, b0. auto.
      * intros [Hx HnD]. split; [split; [exact Hx|]|].
        -- intros E. apply HnD. exists c, b. split; [left; reflexivity|]. auto.
        -- intros (c0 & b0 & Hc0 & P). apply HnD. exists c0, b0. split; [right; exact Hc0|exact P].
    + split.
      * intros [Hx HnD]. split; [exact Hx|]. intros (c0 & b0 & [<-|Hc0] & P1 & P2); [congruence|].
        apply HnD. exists c0, b0. auto.
      * intros [Hx HnD]. split; [exact Hx|]. intros (c0 & b0 & Hc0 & P). apply HnD. exists c0, b0. split; [right; exact Hc0|exact P].
Qed.

Lemma del_rows_nodup : forall h mine g, NoDup g -> NoDup (del_rows h mine g).
Proof.
  intros h mine. unfold del_rows. induction mine as [|c mine IH]; intros g H; cbn [fold_left]; [exact H|].
  apply IH. destruct (game_kind (c_class c)); [apply g_del_nodup; exact H|exact H].
Qed.

(* Rollback of one recorded transaction, deposit rows only *)
Definition rb_game (cs : list credit) (h : Z) (bid : N) (g : list grow) (t : tx) : option (list grow) :=
  if t_cb t then Some g
  else match unwithdraw_ins cs g (t_id t) h (map N.of_nat (seq 0 (length (t_ins t)))) with
       | PErr _ => None
       | POk g1 => Some (del_rows h (credits_at cs (t_id t) h bid) g1)
       end.

Fixpoint rb_game_list (cs : list credit) (h : Z) (bid : N) (g : list grow) (txs : list tx) : option (list grow) :=
  match txs with
  | [] => Some g
  | t :: rest => match rb_game cs h bid g t with None => None | Some g' => rb_game_list cs h bid g' rest end
  end.

Lemma rollback_credit_fold_game :
  forall (h : Z) mine s,
    ps_game (fold_left (fun acc c =>
                let a1 := set_ucredits acc (uc_put (ps_ucredits acc)
                            {| uc_op := credit_op c; uc_amount := c_amount c; uc_sh := c_sh c;
                               uc_class := c_class c; uc_maturity := c_maturity c |}) in
                match game_kind (c_class c) with
                | Some b =>
                    set_ugame (set_game a1 (g_del (ps_game a1) (mk_grow (c_wallet c) b false (c_tx c) h (c_vout c))))
                              (ug_put (ps_ugame a1) {| ug_wallet := c_wallet c; ug_binding := b; ug_tx := c_tx c; ug_vout := c_vout c |})
                | None => a1
                end) mine s) = del_rows h mine (ps_game s).
Proof.
  intros h mine. unfold del_rows. induction mine as [|c mine IH]; intros s; cbn [fold_left]; [reflexivity|].
  cbv zeta. rewrite IH. destruct (game_kind (c_class c)); reflexivity.
Qed.

Lemma rollback_tx_mined :
  forall a3fix cs h bid s ops t s' ops',
    rollback_tx a3fix cs h bid (POk (s, ops)) t = POk (s', ops') ->
    ps_w s' = ps_w s /\ ps_blocks s' = ps_blocks s /\ rb_game cs h bid (ps_game s) t = Some (ps_game s').
Proof.
  intros a3fix cs h bid s ops t s' ops' H. unfold rollback_tx in H. unfold rb_game.
  destruct (t_cb t); [inversion H; subst; repeat split|].
  match type of H with context [unwithdraw_ins cs ?G _ _ _] => change G with (ps_game s) in H end.
  destruct (unwithdraw_ins cs (ps_game s) (t_id t) h (map N.of_nat (seq 0 (length (t_ins t))))) as [g1|e]; [|discriminate].
  inversion H as [[Hs Ho]]. clear H Ho.
  match type of Hs with fold_left ?f ?m ?a = _ =>
    destruct (rollback_credit_fold_frame h m a) as (_ & B & _ & D);
    pose proof (rollback_credit_fold_game h m a) as G end.
  split; [exact D|]. split; [exact B|]. f_equal. symmetry. exact G.
Qed.

Lemma rollback_move_mined :
  forall a3fix cs s r s' ops,
    rollback_move a3fix cs s r = POk (s', ops) ->
    ps_w s' = ps_w s /\ ps_blocks s' = ps_blocks s /\
    rb_game_list cs (br_height r) (br_bid r) (ps_game s) (rev (br_txs r)) = Some (ps_game s').
Proof.
  intros a3fix cs s r s' ops. unfold rollback_move. generalize (rev (br_txs r)) as txs. generalize (@nil outp) as ops0.
  intros ops0 txs. revert s ops0. induction txs as [|t txs IH]; intros s ops0 H; cbn [fold_left] in H.
  - inversion H; subst. repeat split.
  - destruct (rollback_tx a3fix cs (br_height r) (br_bid r) (POk (s, ops0)) t) as [[s1 ops1]|e] eqn:E.
    + destruct (rollback_tx_mined _ _ _ _ _ _ _ _ _ E) as (A & B & C).
      destruct (IH _ _ H) as (A' & B' & C'). cbn [rb_game_list]. rewrite C, A', B', A, B. repeat split. exact C'.
    + exfalso. clear -H. induction txs as [|t0 txs IH]; cbn [fold_left] in H; [discriminate|apply IH; exact H].
Qed.

(* ================================================================ the credits of a chain and one of its transactions *)

Lemma spender_pt_form :
  forall y op a i hh, spender_pt y op = Some (a, i, hh) ->
    a = t_id (pt_tx y) /\ hh = pt_h y /\ t_cb (pt_tx y) = false /\ find_in_ins (t_ins (pt_tx y)) 0%N op = Some i.
Proof.
  intros y op a i hh H. unfold spender_pt in H. destruct (t_cb (pt_tx y)); [discriminate|].
  destruct (find_in_ins (t_ins (pt_tx y)) 0%N op) as [j|]; [|discriminate]. inversion H; subst. repeat split.
Qed.

Lemma spender_l_some_pt : forall l op s, spender_l l op = Some s -> exists y, In y l /\ spender_pt y op = Some s.
Proof.
  induction l as [|y l IH]; intros op s H; [discriminate|].
  cbn [spender_l] in H. destruct (spender_pt y op) as [s'|] eqn:E.
  - inversion H; subst s'. exists y. split; [left; reflexivity|exact E].
  - destruct (IH _ _ H) as [z [Hz Ez]]. exists z. split; [right; exact Hz|exact Ez].
Qed.

Lemma find_in_ins_nth :
  forall ins j op i, find_in_ins ins j op = Some i ->
    exists n, i = (j + N.of_nat n)%N /\ nth_error ins n = Some op /\ (n < length ins)%nat.
Proof.
  induction ins as [|x ins IH]; intros j op i H; [discriminate|].
  cbn [find_in_ins] in H. destruct (op_eqb op x) eqn:E.
  - inversion H; subst i. apply Proofs.op_eqb_eq in E. subst x. exists 0%nat. cbn. split; [lia|]. split; [reflexivity|lia].
  - destruct (IH _ _ _ H) as (n & A & B & C). exists (S n). cbn. split; [lia|]. split; [exact B|lia].
Qed.

Lemma spender_l_singleton : forall x op, spender_l [x] op = spender_pt x op.
Proof. intros x op. cbn. destruct (spender_pt x op); reflexivity. Qed.

Lemma txs_of_mid : forall l' x l'', txs_of (l' ++ x :: l'') = txs_of l' ++ pt_tx x :: txs_of l''.
Proof. intros. unfold txs_of. rewrite map_app. reflexivity. Qed.

Lemma coins_l_singleton : forall own x, coins_l own [x] = coins_pt own x.
Proof. intros. unfold coins_l. cbn. apply app_nil_r. Qed.

Section OneTx.
Variable p : params.
Variable own : owner_fn.
Variables (l' : list ptx) (x : ptx) (l'' : list ptx).
Hypothesis W : wf_txs (txs_of (l' ++ x :: l'')).

Let t := pt_tx x.
Let h := pt_h x.
Let bid := pt_bid x.
Let lf := l' ++ x :: l''.
Let cs0 := E p own lf.

Lemma W_ids : NoDup (map t_id (txs_of l') ++ t_id t :: map t_id (txs_of l'')).
Proof. pose proof (wt_ids _ W) as H. rewrite txs_of_mid, map_app in H. exact H. Qed.

Lemma W_not_before : ~ In (t_id t) (map t_id (txs_of l')).
Proof.
  intros H. pose proof W_ids as Hn. apply NoDup_app_inv in Hn. destruct Hn as (_ & _ & Hd).
  apply (Hd _ H). left. reflexivity.
Qed.

Lemma W_not_after : ~ In (t_id t) (map t_id (txs_of l'')).
Proof.
  intros H. pose proof W_ids as Hn. apply NoDup_app_inv in Hn. destruct Hn as (_ & Hn & _).
  inversion Hn as [|? ? Hx _]. exact (Hx H).
Qed.

Lemma W_disj : forall a, In a (map t_id (txs_of l')) -> ~ In a (map t_id (txs_of l'')).
Proof.
  intros a H1 H2. pose proof W_ids as Hn. apply NoDup_app_inv in Hn. destruct Hn as (_ & _ & Hd).
  apply (Hd _ H1). right. exact H2.
Qed.

Lemma W_prefix : wf_txs (txs_of l' ++ [t]).
Proof.
  pose proof W as H. rewrite txs_of_mid in H. change (pt_tx x :: txs_of l'') with ([t] ++ txs_of l'') in H.
  rewrite app_assoc in H. exact (wf_txs_prefix _ _ H).
Qed.

Lemma W_prefix_ids : NoDup (map t_id (txs_of (l' ++ [x]))).
Proof. rewrite txs_of_app. exact (wt_ids _ W_prefix). Qed.

Lemma W_input_before : forall op, In op (ins_of t) -> In (fst op) (map t_id (txs_of l')).
Proof.
  intros op Hop. destruct (wf_txs_snoc _ _ W_prefix) as (_ & _ & Hc & _).
  destruct (Hc op Hop) as [pt [Hpt [Hid _]]]. rewrite <- Hid. apply in_map. exact Hpt.
Qed.

Lemma lf_spender :
  forall op, spender_l lf op =
    match spender_l l' op with
    | Some s => Some s
    | None => match spender_pt x op with Some s => Some s | None => spender_l l'' op end
    end.
Proof. intros op. unfold lf. rewrite spender_l_app. reflexivity. Qed.

Lemma lf_coins : forall k, In k (coins_l own lf) <-> In k (coins_l own l') \/ In k (coins_pt own x) \/ In k (coins_l own l'').
Proof.
  intros k. unfold lf. rewrite coins_l_app. change (x :: l'') with ([x] ++ l''). rewrite coins_l_app, coins_l_singleton.
  rewrite !in_app_iff. reflexivity.
Qed.

Lemma coins_pt_tx : forall k, In k (coins_pt own x) -> k_tx k = t_id t /\ k_height k = h /\ k_bid k = bid.
Proof. intros k Hk. unfold coins_pt in Hk. apply coins_of_outs_in in Hk. tauto. Qed.

(* a credit of the chain spent by (t, i, h) is a coin created before x, unspent before x, spent by x *)
Lemma spent_by_E_inv :
  forall c i, In c cs0 -> c_spent c = Some (t_id t, i, h) ->
    exists k, In k (coins_l own l') /\ c = mk_credit p k (Some (t_id t, i, h)) /\
              spender_l l' (coin_op k) = None /\ spender_pt x (coin_op k) = Some (t_id t, i, h).
Proof.
  intros c i Hc Hs. unfold cs0, E in Hc. apply in_mkE in Hc. destruct Hc as [k [Hk ->]]. cbn [mk_credit c_spent] in Hs.
  assert (Hother : forall l0 s, spender_l l0 (coin_op k) = Some s -> s = (t_id t, i, h) -> In (t_id t) (map t_id (txs_of l0))).
  { intros l0 s E0 ->. apply spender_l_some_pt in E0. destruct E0 as [y [Hy Ey]].
    destruct (spender_pt_form _ _ _ _ _ Ey) as (A & _). rewrite A. unfold txs_of. rewrite map_map.
    apply in_map_iff. exists y. split; [reflexivity|exact Hy]. }
  rewrite lf_spender in Hs.
  destruct (spender_l l' (coin_op k)) as [s|] eqn:E1.
  { exfalso. apply W_not_before. apply (Hother l' s E1). congruence. }
  destruct (spender_pt x (coin_op k)) as [s|] eqn:E2.
  2:{ exfalso. apply W_not_after. apply (Hother l'' _ Hs eq_refl). }
  inversion Hs; subst s. exists k. rewrite lf_spender, E1, E2. split; [|repeat split].
  pose proof (W_input_before (coin_op k) (spender_pt_some _ _ _ E2)) as Hin. cbn [coin_op fst] in Hin.
  apply lf_coins in Hk. destruct Hk as [Hk|[Hk|Hk]]; [exact Hk| |].
  - exfalso. apply W_not_before. rewrite <- (proj1 (coins_pt_tx k Hk)). exact Hin.
  - exfalso. apply (W_disj _ Hin). apply coins_l_tx_in with (own := own). exact Hk.
Qed.

Lemma debit_E_inv :
  forall i c, debit_of cs0 (t_id t) i h = Some c ->
    exists k, In k (coins_l own l') /\ c = mk_credit p k (Some (t_id t, i, h)) /\
              spender_l l' (coin_op k) = None /\ spender_pt x (coin_op k) = Some (t_id t, i, h).
Proof.
  intros i c H. unfold debit_of in H. apply find_some in H. destruct H as [Hc Hp].
  destruct (c_spent c) as [[[st si] sh]|] eqn:Es; [|discriminate].
  rewrite !andb_true_iff in Hp. destruct Hp as ((P1 & P2) & P3).
  apply N.eqb_eq in P1. apply N.eqb_eq in P2. apply Z.eqb_eq in P3. subst st si sh.
  exact (spent_by_E_inv c i Hc Es).
Qed.

Lemma debit_E_intro :
  forall k s, In k (coins_l own l') -> spender_l l' (coin_op k) = None -> spender_pt x (coin_op k) = Some s ->
    exists i, s = (t_id t, i, h) /\ In i (map N.of_nat (seq 0 (length (t_ins t)))) /\
              debit_of cs0 (t_id t) i h = Some (mk_credit p k (Some s)).
Proof.
  intros k [[a i] hh] Hk E1 E2. destruct (spender_pt_form _ _ _ _ _ E2) as (-> & -> & Hcb & Hf).
  fold t in Hf |- *. fold h. exists i. split; [reflexivity|].
  destruct (find_in_ins_nth _ _ _ _ Hf) as (n & Hi & Hn & Hlen). rewrite N.add_0_l in Hi.
  split.
  { apply in_map_iff. exists n. split; [symmetry; exact Hi|]. apply in_seq. lia. }
  unfold debit_of. apply find_unique.
  - unfold cs0, E. apply in_mkE. exists k. split; [apply lf_coins; left; exact Hk|].
    rewrite lf_spender, E1, E2. reflexivity.
  - cbn [mk_credit c_spent]. rewrite !N.eqb_refl, Z.eqb_refl. reflexivity.
  - intros y Hy Hp. destruct (c_spent y) as [[[st si] sh]|] eqn:Es; [|discriminate].
    rewrite !andb_true_iff in Hp. destruct Hp as ((P1 & P2) & P3).
    apply N.eqb_eq in P1. apply N.eqb_eq in P2. apply Z.eqb_eq in P3. subst st si sh.
    destruct (spent_by_E_inv y i Hy Es) as (k2 & Hk2 & -> & _ & E2').
    destruct (spender_pt_form _ _ _ _ _ E2') as (_ & _ & _ & Hf2).
    destruct (find_in_ins_nth _ _ _ _ Hf2) as (n2 & Hi2 & Hn2 & _). rewrite N.add_0_l in Hi2.
    assert (n2 = n) by lia. subst n2. fold t in Hn2. rewrite Hn in Hn2. assert (Eop : coin_op k = coin_op k2) by congruence.
    assert (k = k2).
    { apply (NoDup_map_inj_in _ _ coin_op (coins_l own l')); [|exact Hk|exact Hk2|exact Eop].
      apply coins_l_nodup. pose proof W_ids as Hn0. apply NoDup_app_inv in Hn0. tauto. }
    subst k2. reflexivity.
Qed.

Lemma credits_at_E :
  forall c, In c (credits_at cs0 (t_id t) h bid) <->
            exists k, In k (coins_pt own x) /\ c = mk_credit p k (spender_l lf (coin_op k)).
Proof.
  intros c. unfold credits_at. rewrite filter_In. unfold cs0, E. rewrite in_mkE. split.
  - intros [[k [Hk ->]] Hp]. cbn [mk_credit c_tx c_height c_bid] in Hp.
    rewrite !andb_true_iff in Hp. destruct Hp as ((P1 & _) & _). apply N.eqb_eq in P1.
    exists k. split; [|reflexivity]. apply lf_coins in Hk. destruct Hk as [Hk|[Hk|Hk]]; [|exact Hk|].
    + exfalso. apply W_not_before. rewrite <- P1. apply coins_l_tx_in with (own := own). exact Hk.
    + exfalso. apply W_not_after. rewrite <- P1. apply coins_l_tx_in with (own := own). exact Hk.
  - intros [k [Hk ->]]. split; [exists k; split; [apply lf_coins; right; left; exact Hk|reflexivity]|].
    destruct (coins_pt_tx k Hk) as (A & B & C). cbn [mk_credit c_tx c_height c_bid].
    rewrite A, B, C, !N.eqb_refl, Z.eqb_refl. reflexivity.
Qed.

(* coins of x are not spent up to and including x *)
Lemma fresh_unspent : forall k, In k (coins_pt own x) -> spender_l (l' ++ [x]) (coin_op k) = None.
Proof.
  intros k Hk. destruct (spender_l (l' ++ [x]) (coin_op k)) as [s|] eqn:E; [|reflexivity]. exfalso.
  rewrite spender_l_app, spender_l_singleton in E.
  assert (Hid : fst (coin_op k) = t_id t) by (cbn; exact (proj1 (coins_pt_tx k Hk))).
  destruct (spender_l l' (coin_op k)) as [s'|] eqn:E1.
  - apply spender_l_some in E1. destruct E1 as [y [Hy Hop]].
    apply W_not_before. rewrite <- Hid.
    apply (wf_txs_input_known (txs_of l') (pt_tx y) (coin_op k)); [|apply in_map; exact Hy|exact Hop].
    pose proof W_prefix as Hp. exact (wf_txs_prefix _ _ Hp).
  - apply W_not_before. rewrite <- Hid. apply W_input_before. exact (spender_pt_some _ _ _ E).
Qed.

End OneTx.

(* ---- coins of a transaction and its relevant outputs *)

Definition coin_of_ro (t : tx) (h : Z) (bid : N) (ro : rel_out) : coin :=
  {| k_tx := t_id t; k_vout := ro_index ro; k_height := h; k_bid := bid; k_amount := o_val (ro_out ro);
     k_sh := o_sh (ro_out ro); k_wallet := ro_wallet ro; k_class := o_class (ro_out ro); k_cb := t_cb t |}.

Lemma coins_of_outs_filter :
  forall own t h bid outs i, coins_of_outs own t h bid outs i = map (coin_of_ro t h bid) (filter_outs own outs i).
Proof.
  intros own t h bid outs. induction outs as [|o outs IH]; intros i; [reflexivity|].
  rewrite coins_of_outs_cons, filter_outs_cons. destruct (out_owner own o); [cbn [map]; f_equal|]; apply IH.
Qed.

Lemma peel_rows_cb :
  forall U own K' Kx f' fx g,
    (forall k, In k Kx -> fx (coin_op k) = None) ->
    (forall k, In k K' -> fx (coin_op k) = f' (coin_op k)) ->
    (forall k b, In k Kx -> game_kind (k_class k) = Some b -> cb_row U own (krow k b false)) ->
    rows_k U own (K' ++ Kx) fx g -> rows_k U own K' f' g.
Proof.
  intros U own K' Kx f' fx g Hx Hfx Hcb R. constructor.
  - intros k b Hk Hb. rewrite <- (Hfx k Hk). apply (rk_complete _ _ _ _ _ R); [apply in_or_app; left; exact Hk|exact Hb].
  - intros r k Hr Hk Hkey. rewrite <- (Hfx k Hk). apply (rk_accurate _ _ _ _ _ R); [exact Hr|apply in_or_app; left; exact Hk|exact Hkey].
  - intros r Hr. destruct (rk_stale _ _ _ _ _ R r Hr) as [[k [Hk Hkey]]|H]; [|right; exact H].
    apply in_app_or in Hk. destruct Hk as [Hk|Hk]; [left; exists k; split; assumption|].
    right. destruct (rk_accurate _ _ _ _ _ R r k Hr (in_or_app _ _ _ (or_intror Hk)) Hkey) as [b [Hb ->]].
    rewrite (Hx k Hk). apply Hcb; assumption.
  - exact (rk_nodup _ _ _ _ _ R).
Qed.

(* undoing the last transaction x of l' ++ [x] (the credits consulted are those of the whole chain) *)
Lemma rb_game_rows :
  forall U own p l' x l'' B g g',
    wf_txs (txs_of (l' ++ x :: l'')) ->
    In B U -> In (pt_tx x) (b_txs B) -> pt_h x = b_height B ->
    rows_wk U own (E p own (l' ++ [x])) g ->
    rb_game (E p own (l' ++ x :: l'')) (pt_h x) (pt_bid x) g (pt_tx x) = Some g' ->
    rows_wk U own (E p own l') g'.
Proof.
  intros U own p l' x l'' B g g' W HB Ht Hh R H.
  unfold E in R |- *. rewrite rows_wk_mkE in R |- *. rewrite coins_l_app, coins_l_singleton in R.
  assert (Hfx : forall op, spender_l (l' ++ [x]) op = match spender_l l' op with Some s => Some s | None => spender_pt x op end).
  { intros op. rewrite spender_l_app, spender_l_singleton. reflexivity. }
  unfold rb_game in H. destruct (t_cb (pt_tx x)) eqn:Hcb.
  - inversion H; subst g'. clear H.
    apply (peel_rows_cb U own (coins_l own l') (coins_pt own x) (spender_l l') (spender_l (l' ++ [x])) g).
    + intros k Hk. apply (fresh_unspent own l' x l'' W k Hk).
    + intros k Hk. rewrite Hfx. unfold spender_pt. rewrite Hcb. destruct (spender_l l' (coin_op k)); reflexivity.
    + intros k b Hk Hb. unfold coins_pt in Hk. rewrite coins_of_outs_filter in Hk. apply in_map_iff in Hk.
      destruct Hk as [ro [<- Hro]]. exists B, (pt_tx x), ro, b. repeat split; try assumption.
      unfold krow, coin_of_ro. cbn. rewrite Hh. reflexivity.
    + exact R.
  - destruct (unwithdraw_ins (E p own (l' ++ x :: l'')) g (t_id (pt_tx x)) (pt_h x) (map N.of_nat (seq 0 (length (t_ins (pt_tx x)))))) as [g1|e] eqn:Eu; [|discriminate].
    inversion H; subst g'. clear H.
    apply (peel_rows U own (coins_l own l') (coins_pt own x) (spender_l l') (spender_l (l' ++ [x])) (spender_pt x) g g1 _
             (Tset (E p own (l' ++ x :: l'')) (t_id (pt_tx x)) (pt_h x) (map N.of_nat (seq 0 (length (t_ins (pt_tx x))))))
             (Fset (E p own (l' ++ x :: l'')) (t_id (pt_tx x)) (pt_h x) (map N.of_nat (seq 0 (length (t_ins (pt_tx x))))))
             (Dset (pt_h x) (credits_at (E p own (l' ++ x :: l'')) (t_id (pt_tx x)) (pt_h x) (pt_bid x)))).
    + rewrite <- coins_l_singleton, <- coins_l_app. apply coins_l_nodup. exact (W_prefix_ids l' x l'' W).
    + intros k Hk. apply (fresh_unspent own l' x l'' W k Hk).
    + intros k Hk. apply Hfx.
    + intros r. split.
      * intros (i & c & b & Hi & Hd & Hk & ->). destruct (debit_E_inv p own l' x l'' W i c Hd) as (k & Hk' & -> & E1 & E2).
        exists k, b. split; [exact Hk'|]. split; [exact E1|]. split; [congruence|]. split; [exact Hk|reflexivity].
      * intros (k & b & Hk & E1 & E2 & Hb & ->). destruct (spender_pt x (coin_op k)) as [s|] eqn:Es; [|congruence].
        destruct (debit_E_intro p own l' x l'' W k s Hk E1 Es) as (i & -> & Hi & Hd).
        exists i, (mk_credit p k (Some (t_id (pt_tx x), i, pt_h x))), b. split; [exact Hi|]. split; [exact Hd|]. split; [exact Hb|reflexivity].
    + intros r. split.
      * intros (i & c & b & Hi & Hd & Hk & ->). destruct (debit_E_inv p own l' x l'' W i c Hd) as (k & Hk' & -> & E1 & E2).
        exists k, b. split; [exact Hk'|]. split; [exact E1|]. split; [congruence|]. split; [exact Hk|reflexivity].
      * intros (k & b & Hk & E1 & E2 & Hb & ->). destruct (spender_pt x (coin_op k)) as [s|] eqn:Es; [|congruence].
        destruct (debit_E_intro p own l' x l'' W k s Hk E1 Es) as (i & -> & Hi & Hd).
        exists i, (mk_credit p k (Some (t_id (pt_tx x), i, pt_h x))), b. split; [exact Hi|]. split; [exact Hd|]. split; [exact Hb|reflexivity].
    + intros r. split.
      * intros (c & b & Hc & Hb & ->). apply (credits_at_E p own l' x l'' W) in Hc. destruct Hc as [k [Hk ->]].
        exists k, b. split; [exact Hk|]. split; [exact Hb|]. unfold krow. cbn. rewrite (proj1 (proj2 (coins_pt_tx own x k Hk))). reflexivity.
      * intros (k & b & Hk & Hb & ->). exists (mk_credit p k (spender_l (l' ++ x :: l'') (coin_op k))), b.
        split; [apply (credits_at_E p own l' x l'' W); exists k; split; [exact Hk|reflexivity]|]. split; [exact Hb|].
        unfold krow. cbn. rewrite (proj1 (proj2 (coins_pt_tx own x k Hk))). reflexivity.
    + apply (unwithdraw_ins_exact _ _ _ _ _ _ Eu).
    + intros r. apply del_rows_in.
    + apply del_rows_nodup. apply (unwithdraw_ins_nodup _ _ _ _ _ _ Eu). exact (rk_nodup _ _ _ _ _ R).
    + exact R.
Qed.

(* a transaction that yields no relevant record changes no credit *)
Lemma irrelevant_E :
  forall p own l' t h bid all,
    wf_txs (txs_of l' ++ [t]) -> NoDup (map t_id all) -> incl (txs_of l' ++ [t]) all ->
    rec_keep (rec_of own all t) = false -> E p own (l' ++ [(t, h, bid)]) = E p own l'.
Proof.
  intros p own l' t h bid all Hwf Hnd Hincl Hk.
  destruct (tx_step p own l' t h bid all Hwf Hnd Hincl) as [cs1 [Hins Houts]].
  unfold rec_keep in Hk. destruct (rr_ins (rec_of own all t)); [|discriminate].
  destruct (rr_outs (rec_of own all t)); [|discriminate].
  cbn in Hins, Houts. congruence.
Qed.

(* ================================================================ key uniqueness of the credits of a chain (C01) *)

Lemma NoDup_map_finer :
  forall (A B C : Type) (f : A -> B) (g : A -> C) (l : list A),
    (forall a1 a2, In a1 l -> In a2 l -> g a1 = g a2 -> f a1 = f a2) -> NoDup (map f l) -> NoDup (map g l).
Proof.
  intros A B C f g l. induction l as [|a l IH]; intros Hfg Hnd; cbn [map]; [constructor|].
  cbn [map] in Hnd. inversion Hnd as [|? ? Hx Hl]; subst. constructor.
  - intros Hin. apply in_map_iff in Hin. destruct Hin as [a2 [E Ha2]]. apply Hx.
    rewrite (Hfg a a2 (or_introl eq_refl) (or_intror Ha2) (eq_sym E)). apply in_map. exact Ha2.
  - apply IH; [|exact Hl]. intros a1 a2 H1 H2. apply Hfg; right; assumption.
Qed.

Lemma cred_unique_E : forall p own l, NoDup (map t_id (txs_of l)) -> cred_unique (E p own l).
Proof.
  intros p own l Hnd. unfold cred_unique, E, mkE. rewrite map_map.
  apply (NoDup_map_finer _ _ _ coin_op); [|apply coins_l_nodup; exact Hnd].
  intros k1 k2 _ _ E0. unfold ckey in E0. cbn in E0. inversion E0. unfold coin_op. congruence.
Qed.

(* ================================================================ connecting the relevant records of a block *)

Definition relb (own : owner_fn) (all : list tx) (t : tx) : bool := rec_keep (rec_of own all t).

Lemma filter_rec_keep_map :
  forall own all txs, map rr_tx (filter rec_keep (map (rec_of own all) txs)) = filter (relb own all) txs.
Proof.
  intros own all txs. induction txs as [|t txs IH]; [reflexivity|].
  cbn [map filter]. unfold relb at 1. destruct (rec_keep (rec_of own all t)); [cbn [map]; rewrite IH; reflexivity|exact IH].
Qed.

Lemma m_apply_recs_block :
  forall U own p B all,
    tx_ids_agree U -> In B U -> NoDup (map t_id all) ->
    forall tb ta l0 m m',
      (forall t, In t tb -> In t (b_txs B)) ->
      wf_txs (txs_of l0 ++ ta ++ tb) -> incl (txs_of l0 ++ ta ++ tb) all ->
      credits (m_w m) = E p own (l0 ++ map (fun t => (t, b_height B, b_id B)) ta) ->
      rows_wk U own (E p own (l0 ++ map (fun t => (t, b_height B, b_id B)) ta)) (m_game m) ->
      m_apply_recs p (b_height B) (b_id B) m (filter rec_keep (map (rec_of own all) tb)) = Some m' ->
      credits (m_w m') = E p own (l0 ++ map (fun t => (t, b_height B, b_id B)) (ta ++ tb)) /\
      synced (m_w m') = synced (m_w m) /\
      rows_wk U own (E p own (l0 ++ map (fun t => (t, b_height B, b_id B)) (ta ++ tb))) (m_game m') /\
      m_blocks m' = fold_left (fun l t => br_add l (b_height B) (b_id B) t) (filter (relb own all) tb) (m_blocks m).
Proof.
  intros U own p B all Hids HB Hnd. set (mk := fun t : tx => (t, b_height B, b_id B)).
  induction tb as [|t tb IH]; intros ta l0 m m' Hin Hwf Hincl Hc R H.
  - cbn in H. inversion H; subst m'. rewrite !app_nil_r. split; [exact Hc|]. split; [reflexivity|]. split; [exact R|reflexivity].
  - assert (Hta : ta ++ t :: tb = (ta ++ [t]) ++ tb) by (rewrite <- app_assoc; reflexivity).
    assert (Hl' : txs_of (l0 ++ map mk ta) = txs_of l0 ++ ta).
    { rewrite txs_of_app. f_equal. unfold txs_of. rewrite map_map. cbn. apply map_id. }
    assert (Hwf1 : wf_txs (txs_of (l0 ++ map mk ta) ++ [t])).
    { rewrite Hl'. rewrite Hta, app_assoc in Hwf. apply wf_txs_prefix in Hwf. rewrite <- app_assoc. exact Hwf. }
    assert (Hincl1 : incl (txs_of (l0 ++ map mk ta) ++ [t]) all).
    { rewrite Hl'. intros y Hy. apply Hincl. rewrite Hta, app_assoc. apply in_or_app. left. rewrite app_assoc. exact Hy. }
    assert (Hsnoc : l0 ++ map mk (ta ++ [t]) = (l0 ++ map mk ta) ++ [mk t]).
    { rewrite map_app, app_assoc. reflexivity. }
    cbn [map filter] in H |- *. fold (relb own all t). fold (relb own all t) in H.
    destruct (relb own all t) eqn:Hr.
    + cbn [m_apply_recs fold_left] in H |- *.
      destruct (m_apply_rec p (b_height B) (b_id B) m (rec_of own all t)) as [m1|] eqn:E1; [|discriminate].
      unfold m_apply_rec in E1. change (rr_tx (rec_of own all t)) with t in E1.
      destruct (withdraw_ins (credits (m_w m)) (m_game m) t (b_height B) (rr_ins (rec_of own all t))) as [[cs1 g1]|e] eqn:Ew; [|discriminate].
      destruct (apply_outs p cs1 t (b_height B) (b_id B) (rr_outs (rec_of own all t))) as [cs2|e] eqn:Ea; [|discriminate].
      inversion E1; subst m1. clear E1.
      destruct (tx_step p own (l0 ++ map mk ta) t (b_height B) (b_id B) all Hwf1 Hnd Hincl1) as [cs1' [Hins Houts]].
      change (t, b_height B, b_id B) with (mk t) in Houts.
      rewrite Hc in Ew. pose proof (withdraw_ins_apply_ins _ _ _ _ _ _ _ Ew) as Hins'.
      rewrite Hins in Hins'. inversion Hins'; subst cs1'. rewrite Houts in Ea. inversion Ea; subst cs2.
      assert (Uq0 : cred_unique (E p own (l0 ++ map mk ta))).
      { apply cred_unique_E. rewrite Hl'. pose proof (wt_ids _ Hwf1) as Hn. rewrite Hl', map_app in Hn. apply NoDup_app_inv in Hn. tauto. }
      destruct (withdraw_ins_rows_wk U own _ _ _ _ _ _ _ Ew R Uq0) as [R1 U1].
      pose proof (PendingProofs.apply_outs_spec _ _ _ _ _ _ _ Houts) as Hspec.
      change (rr_outs (rec_of own all t)) with (filter_outs own (t_outs t) 0%N) in Hspec.
      assert (Uq2 : cred_unique (E p own ((l0 ++ map mk ta) ++ [mk t]))).
      { apply cred_unique_E. rewrite txs_of_app. exact (wt_ids _ Hwf1). }
      assert (R2 : rows_wk U own (E p own ((l0 ++ map mk ta) ++ [mk t]))
                     (add_game_rows g1 (t_id t) (b_height B) (filter_outs own (t_outs t) 0%N))).
      { rewrite Hspec in Uq2 |- *.
        apply add_credits_rows_wk; [exact Hids|exact HB|apply Hin; left; reflexivity|exact R1|exact Uq2]. }
      assert (Hin' : forall t0, In t0 tb -> In t0 (b_txs B)) by (intros t0 H0; apply Hin; right; exact H0).
      rewrite Hta in Hwf, Hincl |- *. rewrite <- Hsnoc in R2.
      match type of H with m_apply_recs _ _ _ ?M _ = _ => set (m1 := M) in H end.
      destruct (IH (ta ++ [t]) l0 m1 m' Hin' Hwf Hincl (f_equal (E p own) (eq_sym Hsnoc)) R2 H) as (A1 & A2 & A3 & A4).
      split; [exact A1|]. split; [exact A2|]. split; [exact A3|exact A4].
    + assert (HE : E p own ((l0 ++ map mk ta) ++ [mk t]) = E p own (l0 ++ map mk ta)).
      { apply (irrelevant_E p own (l0 ++ map mk ta) t (b_height B) (b_id B) all Hwf1 Hnd Hincl1 Hr). }
      rewrite Hta. apply (IH (ta ++ [t]) l0 m m').
      * intros t0 H0. apply Hin. right. exact H0.
      * rewrite <- Hta. exact Hwf.
      * rewrite <- Hta. exact Hincl.
      * rewrite Hsnoc, HE. exact Hc.
      * rewrite Hsnoc, HE. exact R.
      * exact H.
Qed.

(* ================================================================ block records *)

Definition mkrec (b : block) (txs : list tx) : brec := {| br_height := b_height b; br_bid := b_id b; br_txs := txs |}.

(* the transactions of block b that AddRelevantTx records, in block order *)
Definition reltxs (own : owner_fn) (c : list block) (b : block) : list tx := filter (relb own (chain_txs c)) (b_txs b).

(* C01's block-record invariant for the chain c the wallet follows *)
Record blocks_inv (own : owner_fn) (c : list block) (blocks : list brec) : Prop := {
  bi_nodup : NoDup (map br_height blocks);
  bi_sound : forall r, In r blocks -> exists b, In b c /\ r = mkrec b (reltxs own c b) /\ reltxs own c b <> [];
  bi_complete : forall b, In b c -> reltxs own c b <> [] -> exists r, In r blocks /\ br_height r = b_height b
}.

Lemma rel_ins_of_ext :
  forall own all1 all2 ins i, (forall op, In op ins -> owned_out own all1 op = owned_out own all2 op) ->
    rel_ins_of own all1 ins i = rel_ins_of own all2 ins i.
Proof.
  intros own all1 all2 ins. induction ins as [|op ins IH]; intros i H; [reflexivity|].
  cbn [rel_ins_of]. rewrite (H op (or_introl eq_refl)). rewrite (IH (i + 1)%N) by (intros o Ho; apply H; right; exact Ho).
  reflexivity.
Qed.

(* the record of a transaction of c does not change when the chain grows *)
Lemma rec_of_stable :
  forall own c ext t, wf_txs (chain_txs (c ++ ext)) -> In t (chain_txs c) ->
    rec_of own (chain_txs (c ++ ext)) t = rec_of own (chain_txs c) t.
Proof.
  intros own c ext t Hwf Ht. unfold rec_of. f_equal. destruct (t_cb t) eqn:Hcb; [reflexivity|].
  apply rel_ins_of_ext. intros op Hop.
  assert (Hwfc : wf_txs (chain_txs c)) by (rewrite chain_txs_app in Hwf; exact (wf_txs_prefix _ _ Hwf)).
  assert (Hop' : In op (ins_of t)) by (unfold ins_of; rewrite Hcb; exact Hop).
  destruct (inputs_ok_in (chain_txs c) [] t op (wt_inputs _ Hwfc) Ht Hop') as [pt [Hpt [Hid _]]]. cbn [app] in Hpt.
  rewrite (owned_out_found own (chain_txs (c ++ ext)) op pt (wt_ids _ Hwf)); [|rewrite chain_txs_app; apply in_or_app; left; exact Hpt|exact Hid].
  rewrite (owned_out_found own (chain_txs c) op pt (wt_ids _ Hwfc) Hpt Hid). reflexivity.
Qed.

Lemma in_chain_txs : forall c b t, In b c -> In t (b_txs b) -> In t (chain_txs c).
Proof. intros c b t Hb Ht. unfold chain_txs. apply in_flat_map. exists b. split; assumption. Qed.

Lemma reltxs_stable :
  forall own c ext b, wf_txs (chain_txs (c ++ ext)) -> In b c -> reltxs own (c ++ ext) b = reltxs own c b.
Proof.
  intros own c ext b Hwf Hb. unfold reltxs. apply filter_ext_in. intros t Ht. unfold relb.
  rewrite (rec_of_stable own c ext t Hwf (in_chain_txs c b t Hb Ht)). reflexivity.
Qed.

(* heights along a linked chain *)
Lemma linked_nth : forall c pv h0 b, linked pv h0 c -> In b c -> nth_error c (Z.to_nat (b_height b - h0)) = Some b /\ h0 <= b_height b.
Proof.
  induction c as [|x c IH]; intros pv h0 b Hl Hb; [destruct Hb|].
  cbn [linked] in Hl. destruct Hl as (_ & Hh & Hl). destruct Hb as [<-|Hb].
  - rewrite Hh, Z.sub_diag. cbn. split; [reflexivity|lia].
  - destruct (IH _ _ _ Hl Hb) as [A B]. split; [|lia].
    replace (Z.to_nat (b_height b - h0)) with (S (Z.to_nat (b_height b - (h0 + 1)))) by lia. exact A.
Qed.

Lemma linked_height_inj : forall c pv h0 b1 b2, linked pv h0 c -> In b1 c -> In b2 c -> b_height b1 = b_height b2 -> b1 = b2.
Proof.
  intros c pv h0 b1 b2 Hl H1 H2 E. destruct (linked_nth _ _ _ _ Hl H1) as [A1 _]. destruct (linked_nth _ _ _ _ Hl H2) as [A2 _].
  rewrite E in A1. congruence.
Qed.

Lemma linked_snoc_height : forall c b pv h0, linked pv h0 (c ++ [b]) -> b_height b = h0 + Z.of_nat (length c) /\
  forall y, In y c -> b_height y < b_height b.
Proof.
  intros c b pv h0 Hl. pose proof (linked_height c b [] pv h0 Hl) as Hb. split; [exact Hb|].
  intros y Hy. apply in_split in Hy. destruct Hy as [a [r ->]]. rewrite <- app_assoc in Hl. cbn [app] in Hl.
  rewrite (linked_height _ _ _ _ _ Hl). rewrite Hb, app_length. cbn [length]. lia.
Qed.

(* ---- br_add *)

Lemma br_add_miss :
  forall l h bid t, (forall r, In r l -> br_height r <> h) ->
    br_add l h bid t = l ++ [ {| br_height := h; br_bid := bid; br_txs := [t] |} ].
Proof.
  induction l as [|r l IH]; intros h bid t H; [reflexivity|].
  cbn [br_add app]. destruct (br_height r =? h) eqn:E; [apply Z.eqb_eq in E; exfalso; exact (H r (or_introl eq_refl) E)|].
  f_equal. apply IH. intros r0 H0. apply H. right. exact H0.
Qed.

Lemma br_add_hit :
  forall l h bid0 acc bid t, (forall r, In r l -> br_height r <> h) ->
    br_add (l ++ [ {| br_height := h; br_bid := bid0; br_txs := acc |} ]) h bid t =
    l ++ [ {| br_height := h; br_bid := bid0; br_txs := acc ++ [t] |} ].
Proof.
  induction l as [|r l IH]; intros h bid0 acc bid t H.
  - cbn. rewrite Z.eqb_refl. reflexivity.
  - cbn [br_add app]. destruct (br_height r =? h) eqn:E; [apply Z.eqb_eq in E; exfalso; exact (H r (or_introl eq_refl) E)|].
    f_equal. apply IH. intros r0 H0. apply H. right. exact H0.
Qed.

Lemma br_add_all :
  forall txs l h bid, (forall r, In r l -> br_height r <> h) ->
    fold_left (fun l t => br_add l h bid t) txs l =
    match txs with [] => l | _ => l ++ [ {| br_height := h; br_bid := bid; br_txs := txs |} ] end.
Proof.
  intros txs l h bid H. destruct txs as [|t txs]; [reflexivity|]. cbn [fold_left]. rewrite (br_add_miss l h bid t H).
  assert (G : forall rest acc, fold_left (fun l t => br_add l h bid t) rest (l ++ [ {| br_height := h; br_bid := bid; br_txs := acc |} ]) =
                               l ++ [ {| br_height := h; br_bid := bid; br_txs := acc ++ rest |} ]).
  { induction rest as [|t0 rest IH]; intros acc; cbn [fold_left]; [rewrite app_nil_r; reflexivity|].
    rewrite (br_add_hit l h bid acc bid t0 H). rewrite IH, <- app_assoc. reflexivity. }
  apply G.
Qed.

Lemma blocks_inv_connect :
  forall own c b blocks pv,
    wf_txs (chain_txs (c ++ [b])) -> linked pv 0 (c ++ [b]) ->
    blocks_inv own c blocks ->
    blocks_inv own (c ++ [b]) (fold_left (fun l t => br_add l (b_height b) (b_id b) t) (reltxs own (c ++ [b]) b) blocks).
Proof.
  intros own c b blocks pv Hwf Hl I.
  destruct (linked_snoc_height _ _ _ _ Hl) as [_ Hlt].
  assert (Hfresh : forall r, In r blocks -> br_height r <> b_height b).
  { intros r Hr E. destruct (bi_sound _ _ _ I r Hr) as (b0 & Hb0 & -> & _). cbn in E. specialize (Hlt b0 Hb0). lia. }
  rewrite (br_add_all _ _ _ _ Hfresh).
  destruct (reltxs own (c ++ [b]) b) as [|t0 txs] eqn:Er.
  - constructor.
    + exact (bi_nodup _ _ _ I).
    + intros r Hr. destruct (bi_sound _ _ _ I r Hr) as (b0 & Hb0 & E & Hne). exists b0.
      rewrite (reltxs_stable own c [b] b0 Hwf Hb0). split; [apply in_or_app; left; exact Hb0|]. split; assumption.
    + intros b0 Hb0 Hne. apply in_app_or in Hb0. destruct Hb0 as [Hb0|[<-|[]]]; [|congruence].
      rewrite (reltxs_stable own c [b] b0 Hwf Hb0) in Hne. exact (bi_complete _ _ _ I b0 Hb0 Hne).
  - rewrite <- Er. constructor.
    + rewrite map_app. cbn [map br_height]. apply NoDup_app_intro; [exact (bi_nodup _ _ _ I)|repeat constructor; intros []|].
      intros hh Hh [<-|[]]. apply in_map_iff in Hh. destruct Hh as [r [E Hr]]. exact (Hfresh r Hr E).
    + intros r Hr. apply in_app_or in Hr. destruct Hr as [Hr|[<-|[]]].
      * destruct (bi_sound _ _ _ I r Hr) as (b0 & Hb0 & E & Hne). exists b0.
        rewrite (reltxs_stable own c [b] b0 Hwf Hb0). split; [apply in_or_app; left; exact Hb0|]. split; assumption.
      * exists b. split; [apply in_or_app; right; left; reflexivity|]. split; [reflexivity|]. rewrite Er. discriminate.
    + intros b0 Hb0 Hne. apply in_app_or in Hb0. destruct Hb0 as [Hb0|[<-|[]]].
      * rewrite (reltxs_stable own c [b] b0 Hwf Hb0) in Hne. destruct (bi_complete _ _ _ I b0 Hb0 Hne) as [r [Hr E]].
        exists r. split; [apply in_or_app; left; exact Hr|exact E].
      * eexists. split; [apply in_or_app; right; left; reflexivity|reflexivity].
Qed.

(* ================================================================ connecting one block keeps ledger, rows and block records *)

Lemma ptxs_snoc : forall c b, ptxs (c ++ [b]) = ptxs c ++ map (fun t => (t, b_height b, b_id b)) (b_txs b).
Proof. intros c b. rewrite ptxs_app. cbn [ptxs flat_map]. rewrite app_nil_r. reflexivity. Qed.

Lemma p_connect_block_inv :
  forall U own p n cum s c b s' ids,
    tx_ids_agree U -> In b U -> wf_chain (c ++ [b]) ->
    (forall t, In t (chain_txs c) -> lookup_pending n cum (t_id t) = Some t) ->
    ps_w s = L p own c ->
    rows_wk U own (credits (ps_w s)) (ps_game s) ->
    blocks_inv own c (ps_blocks s) ->
    p_connect_block p own n cum s b = POk (s', ids) ->
    ps_w s' = L p own (c ++ [b]) /\ rows_wk U own (credits (ps_w s')) (ps_game s') /\
    blocks_inv own (c ++ [b]) (ps_blocks s').
Proof.
  intros U own p n cum s c b s' ids Hids HbU Hwfc Hlook Hw R I H.
  pose proof (wf_chain_txs _ Hwfc) as Hwf. destruct (wf_linked _ Hwfc) as [pv Hl].
  assert (Hct : chain_txs (c ++ [b]) = txs_of (ptxs c) ++ [] ++ b_txs b).
  { rewrite chain_txs_app, txs_of_ptxs. cbn. rewrite app_nil_r. reflexivity. }
  unfold p_connect_block in H. rewrite Hw in H. unfold L at 1 in H. cbn [credits] in H.
  rewrite (filter_block_txs_spec p own (lookup_pending n cum) (ptxs c) (chain_txs (c ++ [b])) (b_txs b) [] Hct Hwf) in H.
  2:{ rewrite txs_of_ptxs. exact Hlook. }
  destruct (p_apply_recs p own (b_height b) (b_id b) s (filter rec_keep (map (rec_of own (chain_txs (c ++ [b]))) (b_txs b)))) as [s1|e] eqn:E1; [|discriminate].
  inversion H; subst s' ids. clear H.
  pose proof (p_apply_recs_mined _ _ _ _ _ _ _ E1) as Hm.
  destruct (m_apply_recs_block U own p b (chain_txs (c ++ [b])) Hids HbU (wt_ids _ Hwf) (b_txs b) [] (ptxs c) (mined s) (mined s1))
    as (A1 & A2 & A3 & A4).
  - intros t Ht. exact Ht.
  - rewrite <- Hct. exact Hwf.
  - rewrite <- Hct. apply incl_refl.
  - cbn [mined m_w map]. rewrite app_nil_r, Hw. reflexivity.
  - cbn [mined m_game map]. rewrite app_nil_r. rewrite Hw in R. exact R.
  - exact Hm.
  - cbn [mined m_w m_game m_blocks app] in A1, A2, A3, A4. rewrite <- ptxs_snoc in A1, A3.
    cbn [set_w ps_w ps_game ps_blocks credits]. split; [|split].
    + unfold L. rewrite synced_of_snoc. rewrite A1, A2, Hw. reflexivity.
    + rewrite A1. exact A3.
    + rewrite A4. apply (blocks_inv_connect own c b (ps_blocks s) pv Hwf Hl I).
Qed.

Lemma p_connect_all_inv :
  forall U own p n cum,
    tx_ids_agree U -> incl n U -> wf_chain n ->
    forall bs pre r s s' added,
      n = pre ++ bs ++ r -> pre <> [] ->
      ps_w s = L p own pre ->
      rows_wk U own (credits (ps_w s)) (ps_game s) ->
      blocks_inv own pre (ps_blocks s) ->
      p_connect_all p own n cum s bs = POk (s', added) ->
      ps_w s' = L p own (pre ++ bs) /\ rows_wk U own (credits (ps_w s')) (ps_game s') /\
      blocks_inv own (pre ++ bs) (ps_blocks s').
Proof.
  intros U own p n cum Hids HnU Hwfn. induction bs as [|b bs IH]; intros pre r s s' added Hn Hne Hw R I H.
  - cbn in H. injection H as <- <-. rewrite !app_nil_r. split; [exact Hw|]. split; [exact R|exact I].
  - cbn [p_connect_all] in H. destruct (node_at n (b_height b)) as [nb|]; [|discriminate].
    destruct (negb (b_id nb =? b_id b)%N); [discriminate|].
    destruct (p_connect_block p own n cum s b) as [[s1 ids]|e] eqn:E1; [|discriminate].
    destruct (p_connect_all p own n cum s1 bs) as [[s2 added2]|e] eqn:E2; [|discriminate].
    inversion H; subst s' added. clear H.
    assert (Hn' : n = (pre ++ [b]) ++ bs ++ r) by (rewrite Hn, <- app_assoc; reflexivity).
    assert (Hwfp : wf_chain (pre ++ [b])).
    { rewrite Hn' in Hwfn. apply (wf_chain_prefix _ _ Hwfn). destruct pre; discriminate. }
    destruct (p_connect_block_inv U own p n cum s pre b s1 ids Hids) as (A1 & A2 & A3); try assumption.
    + apply HnU. rewrite Hn. apply in_or_app. right. left. reflexivity.
    + intros t Ht. rewrite lookup_pending_known; [apply node_tx_found; [exact Hwfn|]|].
      * rewrite Hn, chain_txs_app. apply in_or_app. left. exact Ht.
      * rewrite (node_tx_found n t Hwfn); [discriminate|]. rewrite Hn, chain_txs_app. apply in_or_app. left. exact Ht.
    + destruct (IH (pre ++ [b]) r s1 s2 added2 Hn') as (B1 & B2 & B3); try assumption.
      * destruct pre; discriminate.
      * rewrite <- app_assoc in B1, B3. cbn [app] in B1, B3. split; [exact B1|]. split; [exact B2|exact B3].
Qed.

(* ================================================================ Rollback *)

Lemma rb_block_rows :
  forall U own p B all (l0 lrest : list ptx),
    In B U -> NoDup (map t_id all) ->
    forall tb ta tc lf g g',
      (forall t, In t tb -> In t (b_txs B)) ->
      lf = l0 ++ map (fun t => (t, b_height B, b_id B)) (ta ++ tb ++ tc) ++ lrest ->
      wf_txs (txs_of lf) ->
      incl (txs_of l0 ++ ta ++ tb) all ->
      rows_wk U own (E p own (l0 ++ map (fun t => (t, b_height B, b_id B)) (ta ++ tb))) g ->
      rb_game_list (E p own lf) (b_height B) (b_id B) g (rev (filter (relb own all) tb)) = Some g' ->
      rows_wk U own (E p own (l0 ++ map (fun t => (t, b_height B, b_id B)) ta)) g'.
Proof.
  intros U own p B all l0 lrest HB Hnd. set (mk := fun t : tx => (t, b_height B, b_id B)).
  induction tb as [|t tb IH] using rev_ind; intros ta tc lf g g' Hin Hlf W Hincl R H.
  - cbn in H. inversion H; subst g'. rewrite app_nil_r in R. exact R.
  - rewrite filter_app, rev_app_distr in H.
    set (l' := l0 ++ map mk (ta ++ tb)).
    assert (Hsn : l0 ++ map mk (ta ++ tb ++ [t]) = l' ++ [mk t]).
    { unfold l'. rewrite (app_assoc ta), map_app, app_assoc. reflexivity. }
    assert (Hlf' : lf = l' ++ mk t :: (map mk tc ++ lrest)).
    { rewrite Hlf. unfold l'. rewrite !map_app, <- !app_assoc. reflexivity. }
    assert (Hl' : txs_of l' = txs_of l0 ++ ta ++ tb).
    { unfold l'. rewrite txs_of_app. f_equal. unfold txs_of. rewrite map_map. cbn. apply map_id. }
    assert (Hwf1 : wf_txs (txs_of l' ++ [t])).
    { rewrite Hlf' in W. rewrite txs_of_mid in W. change (pt_tx (mk t) :: txs_of (map mk tc ++ lrest)) with ([t] ++ txs_of (map mk tc ++ lrest)) in W.
      rewrite app_assoc in W. exact (wf_txs_prefix _ _ W). }
    assert (Hincl1 : incl (txs_of l' ++ [t]) all).
    { rewrite Hl'. intros y Hy. apply Hincl. rewrite <- !app_assoc in Hy. exact Hy. }
    assert (Hin' : forall t0, In t0 tb -> In t0 (b_txs B)) by (intros t0 H0; apply Hin; apply in_or_app; left; exact H0).
    assert (Hincl' : incl (txs_of l0 ++ ta ++ tb) all).
    { intros y Hy. apply Hincl. rewrite !app_assoc. apply in_or_app. left. rewrite <- app_assoc. exact Hy. }
    assert (Hlf2 : lf = l0 ++ map mk (ta ++ tb ++ t :: tc) ++ lrest).
    { rewrite Hlf. rewrite <- (app_assoc tb). reflexivity. }
    rewrite Hsn in R. cbn [filter] in H. fold (relb own all t) in H. destruct (relb own all t) eqn:Hr.
    + cbn [rev app rb_game_list] in H.
      destruct (rb_game (E p own lf) (b_height B) (b_id B) g t) as [g1|] eqn:E1; [|discriminate].
      assert (R1 : rows_wk U own (E p own l') g1).
      { pose proof W as W'. pose proof E1 as E1'. rewrite Hlf' in W', E1'.
        apply (rb_game_rows U own p l' (mk t) (map mk tc ++ lrest) B g g1).
        - exact W'.
        - exact HB.
        - apply Hin. apply in_or_app. right. left. reflexivity.
        - reflexivity.
        - exact R.
        - exact E1'. }
      apply (IH ta (t :: tc) lf g1 g' Hin' Hlf2 W Hincl' R1 H).
    + cbn [rev app] in H.
      pose proof (irrelevant_E p own l' t (b_height B) (b_id B) all Hwf1 Hnd Hincl1 Hr) as HE.
      change (t, b_height B, b_id B) with (mk t) in HE. rewrite HE in R.
      apply (IH ta (t :: tc) lf g g' Hin' Hlf2 W Hincl' R H).
Qed.

Lemma NoDup_map_filter :
  forall (A B : Type) (f : A -> B) (g : A -> bool) (l : list A), NoDup (map f l) -> NoDup (map f (filter g l)).
Proof.
  intros A B f g l. induction l as [|a l IH]; intros H; cbn [filter map]; [constructor|].
  cbn [map] in H. inversion H as [|? ? Hx Hl]; subst. destruct (g a); [|apply IH; exact Hl].
  cbn [map]. constructor; [|apply IH; exact Hl].
  intros Hin. apply Hx. apply in_map_iff in Hin. destruct Hin as [y [E Hy]]. apply filter_In in Hy.
  rewrite <- E. apply in_map. exact (proj1 Hy).
Qed.

Lemma blocks_inv_rollback :
  forall own cpre b blocks pv,
    wf_txs (chain_txs (cpre ++ [b])) -> linked pv 0 (cpre ++ [b]) ->
    blocks_inv own (cpre ++ [b]) blocks ->
    blocks_inv own cpre (filter (fun x => negb (br_height x =? b_height b)) blocks).
Proof.
  intros own cpre b blocks pv Hwf Hl I. destruct (linked_snoc_height _ _ _ _ Hl) as [_ Hlt]. constructor.
  - apply NoDup_map_filter. exact (bi_nodup _ _ _ I).
  - intros r Hr. apply filter_In in Hr. destruct Hr as [Hr Hh].
    destruct (bi_sound _ _ _ I r Hr) as (b0 & Hb0 & E & Hne).
    apply in_app_or in Hb0. destruct Hb0 as [Hb0|[<-|[]]].
    + exists b0. rewrite (reltxs_stable own cpre [b] b0 Hwf Hb0) in E, Hne. split; [exact Hb0|]. split; assumption.
    + exfalso. rewrite E in Hh. cbn in Hh. rewrite Z.eqb_refl in Hh. discriminate.
  - intros b0 Hb0 Hne. rewrite <- (reltxs_stable own cpre [b] b0 Hwf Hb0) in Hne.
    destruct (bi_complete _ _ _ I b0 (in_or_app _ _ _ (or_introl Hb0)) Hne) as [r [Hr E]].
    exists r. split; [|exact E]. apply filter_In. split; [exact Hr|].
    specialize (Hlt b0 Hb0). rewrite E. destruct (b_height b0 =? b_height b) eqn:Eq; [apply Z.eqb_eq in Eq; lia|reflexivity].
Qed.

Lemma ptxs_mid : forall c b c3, ptxs (c ++ b :: c3) = ptxs c ++ map (fun t => (t, b_height b, b_id b)) (b_txs b) ++ ptxs c3.
Proof. intros c b c3. rewrite ptxs_app. reflexivity. Qed.

(* TxStore.Rollback, one height: the tip block b of the part not yet rolled back *)
Lemma p_rollback_one_inv :
  forall U own p a cpre b c3 s1 s2,
    wf_chain (cpre ++ b :: c3) -> In b U -> cpre <> [] ->
    rows_wk U own (E p own (ptxs (cpre ++ [b]))) (ps_game s1) ->
    blocks_inv own (cpre ++ [b]) (ps_blocks s1) ->
    p_rollback_one a own (E p own (ptxs (cpre ++ b :: c3))) s1 (b_height b) = POk s2 ->
    ps_w s2 = ps_w s1 /\ rows_wk U own (E p own (ptxs cpre)) (ps_game s2) /\ blocks_inv own cpre (ps_blocks s2).
Proof.
  intros U own p a cpre b c3 s1 s2 Hwfall HbU Hne R I H.
  assert (Hwfc : wf_chain (cpre ++ [b])).
  { change (b :: c3) with ([b] ++ c3) in Hwfall. rewrite app_assoc in Hwfall. apply (wf_chain_prefix _ _ Hwfall). destruct cpre; discriminate. }
  pose proof (wf_chain_txs _ Hwfc) as Hwt. destruct (wf_linked _ Hwfc) as [pv Hl].
  assert (Key : forall g g', rows_wk U own (E p own (ptxs (cpre ++ [b]))) g ->
            rb_game_list (E p own (ptxs (cpre ++ b :: c3))) (b_height b) (b_id b) g (rev (reltxs own (cpre ++ [b]) b)) = Some g' ->
            rows_wk U own (E p own (ptxs cpre)) g').
  { intros g g' Rg Hg.
    pose proof (rb_block_rows U own p b (chain_txs (cpre ++ [b])) (ptxs cpre) (ptxs c3) HbU (wt_ids _ Hwt)
                  (b_txs b) [] [] (ptxs (cpre ++ b :: c3)) g g') as K.
    cbn [app map] in K. rewrite !app_nil_r in K. apply K.
    - intros t Ht. exact Ht.
    - apply ptxs_mid.
    - rewrite txs_of_ptxs. apply wf_chain_txs. exact Hwfall.
    - rewrite txs_of_ptxs, chain_txs_app. cbn. rewrite app_nil_r. apply incl_refl.
    - rewrite <- ptxs_snoc. exact Rg.
    - exact Hg. }
  unfold p_rollback_one in H.
  destruct (find (fun r => br_height r =? b_height b) (ps_blocks s1)) as [r|] eqn:Ef.
  - apply find_some in Ef. destruct Ef as [Hr Hh]. apply Z.eqb_eq in Hh.
    destruct (bi_sound _ _ _ I r Hr) as (b0 & Hb0 & Er & _).
    assert (b0 = b).
    { apply (linked_height_inj _ _ _ b0 b Hl Hb0); [apply in_or_app; right; left; reflexivity|]. rewrite Er in Hh. exact Hh. }
    subst b0.
    destruct (rollback_move a (E p own (ptxs (cpre ++ b :: c3))) s1 r) as [[s1' cbops]|e] eqn:Em; [|discriminate].
    destruct (rollback_move_mined _ _ _ _ _ _ Em) as (A1 & A2 & A3). rewrite Er in A3. cbn [mkrec br_height br_bid br_txs] in A3.
    set (s1f := set_blocks s1' (filter (fun x => negb (br_height x =? b_height b)) (ps_blocks s1'))) in H.
    pose proof (purge_coinbase_frame own cbops s1f s1f (same_mined_refl s1f)) as Fr.
    rewrite H in Fr. cbn [okp] in Fr. destruct Fr as (F1 & F2 & F3).
    rewrite F1, F2, F3. unfold s1f. cbn [set_blocks ps_w ps_game ps_blocks]. rewrite A2.
    split; [exact A1|]. split; [exact (Key _ _ R A3)|exact (blocks_inv_rollback own cpre b _ pv Hwt Hl I)].
  - inversion H; subst s2. clear H. split; [reflexivity|].
    assert (Hnil : reltxs own (cpre ++ [b]) b = []).
    { destruct (reltxs own (cpre ++ [b]) b) as [|t0 l0] eqn:Er; [reflexivity|]. exfalso.
      destruct (bi_complete _ _ _ I b) as [r [Hr Hh]]; [apply in_or_app; right; left; reflexivity|rewrite Er; discriminate|].
      pose proof (find_none _ _ Ef r Hr) as Hn. cbv beta in Hn. rewrite Hh, Z.eqb_refl in Hn. discriminate. }
    split.
    + apply (Key (ps_game s1) (ps_game s1) R). rewrite Hnil. reflexivity.
    + pose proof (blocks_inv_rollback own cpre b _ pv Hwt Hl I) as I'.
      rewrite filter_all_true in I'; [exact I'|].
      intros r Hr. pose proof (find_none _ _ Ef r Hr) as Hn. cbv beta in Hn. rewrite Hn. reflexivity.
Qed.

Lemma p_rollback_loop_inv :
  forall U own p a c1, c1 <> [] ->
    forall c2 c3 s1 s',
      wf_chain (c1 ++ c2 ++ c3) -> incl (c1 ++ c2 ++ c3) U ->
      rows_wk U own (E p own (ptxs (c1 ++ c2))) (ps_game s1) ->
      blocks_inv own (c1 ++ c2) (ps_blocks s1) ->
      fold_left (fun (acc : pres pstate) (k : Z) =>
                   match acc with PErr e => PErr e | POk s => p_rollback_one a own (E p own (ptxs (c1 ++ c2 ++ c3))) s k end)
                (heights_down (Z.of_nat (length (c1 ++ c2)) - 1) (Z.of_nat (length c1))) (POk s1) = POk s' ->
      ps_w s' = ps_w s1 /\ rows_wk U own (E p own (ptxs c1)) (ps_game s') /\ blocks_inv own c1 (ps_blocks s').
Proof.
  intros U own p a c1 Hne. induction c2 as [|b c2 IH] using rev_ind; intros c3 s1 s' Hwf HU R I H.
  - rewrite app_nil_r in *. rewrite heights_down_nil in H by lia. cbn in H. inversion H; subst s'.
    split; [reflexivity|]. split; assumption.
  - assert (Hre : c1 ++ (c2 ++ [b]) ++ c3 = (c1 ++ c2) ++ b :: c3) by (rewrite <- !app_assoc; reflexivity).
    assert (Hre2 : c1 ++ c2 ++ [b] = (c1 ++ c2) ++ [b]) by (rewrite app_assoc; reflexivity).
    destruct (wf_linked _ Hwf) as [pv Hl]. rewrite Hre in Hl.
    pose proof (linked_height _ _ _ _ _ Hl) as Hhb. rewrite Z.add_0_l in Hhb.
    assert (Hlen : Z.of_nat (length (c1 ++ c2 ++ [b])) - 1 = b_height b).
    { rewrite Hre2, app_length. cbn [length]. lia. }
    rewrite Hlen in H. rewrite heights_down_cons in H by (rewrite Hhb, app_length; lia).
    cbn [fold_left] in H.
    destruct (p_rollback_one a own (E p own (ptxs (c1 ++ (c2 ++ [b]) ++ c3))) s1 (b_height b)) as [s2|e] eqn:E1.
    2:{ rewrite fold_err in H; [discriminate|reflexivity]. }
    rewrite Hre in E1. rewrite Hre2 in R, I.
    destruct (p_rollback_one_inv U own p a (c1 ++ c2) b c3 s1 s2) as (A1 & A2 & A3); try assumption.
    + rewrite <- Hre. exact Hwf.
    + apply HU. rewrite Hre. apply in_or_app. right. left. reflexivity.
    + destruct c1; [contradiction|discriminate].
    + rewrite Hhb in H. rewrite Hre in H.
      assert (Hre3 : (c1 ++ c2) ++ b :: c3 = c1 ++ c2 ++ b :: c3) by (rewrite <- app_assoc; reflexivity).
      rewrite Hre3 in H.
      destruct (IH (b :: c3) s2 s') as (B1 & B2 & B3); try assumption.
      * rewrite <- Hre3, <- Hre. exact Hwf.
      * rewrite <- Hre3, <- Hre. exact HU.
      * split; [congruence|]. split; assumption.
Qed.

(* TxStore.Rollback(h) followed by the ledger's own rollback: the wallet is on the prefix c1 *)
Lemma p_rollback_to_inv :
  forall U own p a c1 c2 s s',
    wf_chain (c1 ++ c2) -> incl (c1 ++ c2) U -> c1 <> [] ->
    ps_w s = L p own (c1 ++ c2) ->
    rows_wk U own (credits (ps_w s)) (ps_game s) ->
    blocks_inv own (c1 ++ c2) (ps_blocks s) ->
    p_rollback_to a own s (Z.of_nat (length c1)) = POk s' ->
    ps_w s' = L p own c1 /\ rows_wk U own (credits (ps_w s')) (ps_game s') /\ blocks_inv own c1 (ps_blocks s').
Proof.
  intros U own p a c1 c2 s s' Hwf HU Hne Hw R I H. unfold p_rollback_to in H.
  rewrite Hw in H. rewrite (tip_height_L p own _ Hwf) in H. unfold chain_height in H.
  unfold L at 1 in H. cbn [credits] in H.
  match type of H with match ?F with _ => _ end = _ => destruct F as [s1|e] eqn:Ef; [|discriminate] end.
  inversion H; subst s'. clear H.
  rewrite Hw in R. unfold L at 1 in R. cbn [credits] in R.
  destruct (p_rollback_loop_inv U own p a c1 Hne c2 [] s s1) as (A1 & A2 & A3).
  - rewrite app_nil_r. exact Hwf.
  - rewrite app_nil_r. exact HU.
  - exact R.
  - exact I.
  - rewrite app_nil_r. exact Ef.
  - destruct (wf_linked _ Hwf) as [pv Hl]. destruct (linked_heights_split _ _ _ Hl) as [H1 H2].
    assert (HL : rollback_to (L p own (c1 ++ c2)) (Z.of_nat (length c1)) = L p own c1) by (apply rollback_L; assumption).
    cbn [set_w ps_w ps_game ps_blocks]. rewrite HL. split; [reflexivity|]. split; [exact A2|exact A3].
Qed.

(* ================================================================ processConnectedBlock *)

Lemma p_connect_all_ok_in :
  forall p own n cum bs s s' added, p_connect_all p own n cum s bs = POk (s', added) ->
    forall y, In y bs -> exists nb, In nb n /\ b_id nb = b_id y.
Proof.
  intros p own n cum bs. induction bs as [|x bs IH]; intros s s' added H y Hy; [destruct Hy|].
  cbn [p_connect_all] in H. destruct (node_at n (b_height x)) as [nb|] eqn:Hat; [|discriminate].
  destruct (b_id nb =? b_id x)%N eqn:Hid; cbn [negb] in H; [|discriminate].
  destruct (p_connect_block p own n cum s x) as [[s1 ids]|e]; [|discriminate].
  destruct (p_connect_all p own n cum s1 bs) as [[s2 added2]|e] eqn:E2; [|discriminate].
  destruct Hy as [<-|Hy].
  - exists nb. split; [unfold node_at in Hat; apply find_some in Hat; tauto|apply N.eqb_eq; exact Hid].
  - exact (IH _ _ _ E2 y Hy).
Qed.

Section PHistory.
Variable p : params.
Variable a3fix : bool.
Variable g : block.
Variable ownl : list (N * N).
Variable B : list block.
Hypothesis B_ids : forall b1 b2, In b1 B -> In b2 B -> b_id b1 = b_id b2 -> b1 = b2.
(* U: the blocks attached so far (the universe the leftover coinbase rows come from) *)
Variable U : list block.
Hypothesis U_B : incl U B.
Hypothesis U_txids : tx_ids_agree U.

Let own := own_of ownl.

(* the store follows chain c: ledger (C01), deposit rows, block records *)
Definition store_inv (c : list block) (s : pstate) : Prop :=
  ps_w s = L p own c /\ rows_wk U own (credits (ps_w s)) (ps_game s) /\ blocks_inv own c (ps_blocks s).

Lemma pprocess_ok_inv :
  forall n c b hs hs',
    wf_chain n -> from_g g n -> incl n U -> wf_chain c -> from_g g c -> incl c U -> In b B -> b <> g ->
    store_inv c (h_store hs) ->
    pprocess p a3fix own n hs b = POk hs' ->
    exists c', wf_chain c' /\ from_g g c' /\ incl c' U /\ store_inv c' (h_store hs').
Proof.
  intros n c b hs hs' Hwfn Hgn HnU Hwfc Hgc HcU HbB Hbg (Hw & R & I) H.
  assert (HnB : incl n B) by (intros z Hz; apply U_B; apply HnU; exact Hz).
  assert (HcB : incl c B) by (intros z Hz; apply U_B; apply HcU; exact Hz).
  assert (Hids : ids_agree c n) by (apply (ids_agree_B B B_ids); assumption).
  assert (Hgen : same_genesis c n) by (apply (same_genesis_from_g g); assumption).
  assert (Hon_node : forall nb, In nb n -> b_id nb = b_id b -> In b n).
  { intros nb Hin Hid. rewrite <- (B_ids nb b (HnB _ Hin) HbB Hid). exact Hin. }
  destruct (wf_linked _ Hwfn) as [pvn Hln]. destruct (wf_linked _ Hwfc) as [pvc Hlc].
  (* the prefix of the node's chain up to b, when b is on it *)
  assert (Hsplit_n : In b n -> exists n1 n2, n = n1 ++ b :: n2 /\ n1 <> []).
  { intros Hbn. apply in_split in Hbn. destruct Hbn as [n1 [n2 Hn]]. exists n1, n2. split; [exact Hn|].
    intros ->. destruct Hgn as [n' Hn']. rewrite Hn in Hn'. cbn [app] in Hn'. inversion Hn'. contradiction. }
  assert (Hresult : forall n1 n2, n = n1 ++ b :: n2 -> n1 <> [] ->
            wf_chain (n1 ++ [b]) /\ from_g g (n1 ++ [b]) /\ incl (n1 ++ [b]) U).
  { intros n1 n2 Hn Hne. assert (Hn' : n = (n1 ++ [b]) ++ n2) by (rewrite Hn, <- app_assoc; reflexivity).
    split; [|split].
    - rewrite Hn' in Hwfn. apply (wf_chain_prefix _ _ Hwfn). destruct n1; discriminate.
    - destruct Hgn as [n' Hgn]. rewrite Hn in Hgn. destruct n1 as [|z n1']; [contradiction|].
      cbn [app] in Hgn. inversion Hgn. exists (n1' ++ [b]). reflexivity.
    - intros z Hz. apply HnU. rewrite Hn'. apply in_or_app. left. exact Hz. }
  unfold pprocess in H. rewrite Hw in H.
  destruct (snd (tip (L p own c)) =? b_prev b)%N eqn:Htip.
  - (* b extends the wallet's tip *)
    destruct (p_connect_all p own n (ps_unmined (h_store hs)) (h_store hs) [b]) as [[s' added]|e] eqn:Ec; [|discriminate].
    inversion H; subst hs'. clear H. cbn [update_volatile h_store].
    destruct (p_connect_all_ok_in _ _ _ _ _ _ _ _ Ec b (or_introl eq_refl)) as [nb [Hin Hid]].
    destruct (Hsplit_n (Hon_node nb Hin Hid)) as (n1 & n2 & Hn & Hne).
    destruct (exists_last (wf_nonempty _ Hwfc)) as [cpre [y Hc]].
    destruct (exists_last Hne) as [n1' [x' Hn1]].
    rewrite Hc in Htip at 1. rewrite tip_L_snoc in Htip. cbn [snd] in Htip. apply N.eqb_eq in Htip.
    assert (Hn' : n = n1' ++ x' :: b :: n2) by (rewrite Hn, Hn1, <- app_assoc; reflexivity).
    assert (Hyx : y = x').
    { apply Hids.
      - rewrite Hc. apply in_or_app. right. left. reflexivity.
      - rewrite Hn'. apply in_or_app. right. left. reflexivity.
      - rewrite Htip. rewrite Hn' in Hln. apply (linked_prev _ _ _ _ _ _ Hln). }
    subst x'.
    assert (Hpre : cpre = n1') by (apply (common_prefix c n pvc pvn 0 Hlc Hln Hids cpre y [] n1' (b :: n2)); assumption).
    assert (Hcn : c = n1) by (rewrite Hc, Hn1, Hpre; reflexivity).
    destruct (Hresult n1 n2 Hn Hne) as (W1 & W2 & W3).
    exists (n1 ++ [b]). split; [exact W1|]. split; [exact W2|]. split; [exact W3|].
    rewrite Hcn in Hw, I.
    apply (p_connect_all_inv U own p n (ps_unmined (h_store hs)) U_txids HnU Hwfn [b] n1 n2 (h_store hs) s' added Hn Hne Hw R I Ec).
  - (* reorganisation *)
    destruct (collect n (L p own c) (S (Z.to_nat (b_height b))) b []) as [[fork bs]|] eqn:Hcol; [|discriminate].
    destruct (p_rollback_to a3fix own (h_store hs) (fork + 1)) as [s1|e] eqn:Er; [|discriminate].
    destruct (p_connect_all p own n (ps_unmined (h_store hs)) s1 bs) as [[s' added]|e] eqn:Ec; [|discriminate].
    inversion H; subst hs'. clear H. cbn [update_volatile h_store].
    assert (Hroll : forall c1 y c2, c = c1 ++ y :: c2 -> fork = b_height y ->
              ps_w s1 = L p own (c1 ++ [y]) /\ rows_wk U own (credits (ps_w s1)) (ps_game s1) /\ blocks_inv own (c1 ++ [y]) (ps_blocks s1)).
    { intros c1 y c2 Hc Hf.
      assert (Hc' : c = (c1 ++ [y]) ++ c2) by (rewrite Hc, <- app_assoc; reflexivity).
      assert (Hh : fork + 1 = Z.of_nat (length (c1 ++ [y]))).
      { rewrite Hc in Hlc. rewrite Hf, (linked_height _ _ _ _ _ Hlc), app_length. cbn [length]. lia. }
      rewrite Hh in Er. rewrite Hc' in Hwfc, HcU, Hw, I.
      apply (p_rollback_to_inv U own p a3fix (c1 ++ [y]) c2 (h_store hs) s1 Hwfc HcU); try assumption.
      destruct c1; discriminate. }
    destruct (collect_cases _ _ _ _ _ _ _ Hcol) as [[Hm [Hf Hbs]]|Hin].
    + (* b is a block of the wallet's own chain: roll back to it *)
      subst bs. cbn in Ec. inversion Ec; subst s' added. clear Ec.
      assert (Hbc : In b c).
      { apply (matched_in p own c [b] b); [|left; reflexivity|exact Hm].
        intros b1 b2 H1 [<-|[]] Hid. apply B_ids; [apply HcB; exact H1|exact HbB|exact Hid]. }
      apply in_split in Hbc. destruct Hbc as [c1 [c2 Hc]].
      assert (Hc' : c = (c1 ++ [b]) ++ c2) by (rewrite Hc, <- app_assoc; reflexivity).
      exists (c1 ++ [b]). split; [|split; [|split]].
      * rewrite Hc' in Hwfc. apply (wf_chain_prefix _ _ Hwfc). destruct c1; discriminate.
      * destruct Hgc as [c0 Hgc]. rewrite Hc in Hgc. destruct c1 as [|z c1'].
        -- cbn [app] in Hgc. inversion Hgc. contradiction.
        -- cbn [app] in Hgc. inversion Hgc. exists (c1' ++ [b]). reflexivity.
      * intros z Hz. apply HcU. rewrite Hc'. apply in_or_app. left. exact Hz.
      * exact (Hroll c1 b c2 Hc Hf).
    + (* b is on the node's chain: back to the fork point, then along the node *)
      destruct (p_connect_all_ok_in _ _ _ _ _ _ _ _ Ec b Hin) as [nb [Hin' Hid]].
      destruct (Hsplit_n (Hon_node nb Hin' Hid)) as (n1 & n2 & Hn & Hne).
      assert (Hfuel : (length n1 < S (Z.to_nat (b_height b)))%nat).
      { rewrite Hn in Hln. rewrite (linked_height _ _ _ _ _ Hln). lia. }
      destruct (collect_spec p own c n pvc pvn Hlc Hln (wf_bids _ Hwfn) Hgen Hids _ n1 b [] n2 Hn Hfuel)
        as [m1 [y [m2 [Hsplit [Hy Hcol']]]]].
      rewrite Hcol in Hcol'. inversion Hcol'; subst fork bs. clear Hcol'.
      apply in_split in Hy. destruct Hy as [c1 [c2 Hc]].
      assert (Hn' : n = m1 ++ y :: m2 ++ n2).
      { rewrite Hn. change (b :: n2) with ([b] ++ n2). rewrite app_assoc, Hsplit, <- app_assoc. reflexivity. }
      assert (Hc1 : c1 = m1) by (apply (common_prefix c n pvc pvn 0 Hlc Hln Hids c1 y c2 m1 (m2 ++ n2)); assumption).
      subst c1.
      destruct (Hroll m1 y c2 Hc eq_refl) as (Hw1 & R1 & I1).
      destruct (Hresult n1 n2 Hn Hne) as (W1 & W2 & W3).
      exists (n1 ++ [b]). split; [exact W1|]. split; [exact W2|]. split; [exact W3|].
      assert (Hn'' : n = (m1 ++ [y]) ++ m2 ++ n2) by (rewrite Hn', <- app_assoc; reflexivity).
      assert (E : n1 ++ [b] = (m1 ++ [y]) ++ m2) by (rewrite Hsplit, <- app_assoc; reflexivity).
      rewrite E.
      apply (p_connect_all_inv U own p n (ps_unmined (h_store hs)) U_txids HnU Hwfn m2 (m1 ++ [y]) n2 s1 s' added Hn''); try assumption.
      destruct m1; discriminate.
Qed.

End PHistory.

(* ================================================================ the invariant does not depend on addresses nobody was paid at *)

Lemma filter_outs_ext :
  forall own1 own2 outs i, (forall o, In o outs -> own1 (o_sh o) = own2 (o_sh o)) ->
    filter_outs own1 outs i = filter_outs own2 outs i.
Proof.
  intros own1 own2 outs. induction outs as [|o outs IH]; intros i H; [reflexivity|].
  cbn [filter_outs]. rewrite (IH (i + 1)%N) by (intros o' Ho'; apply H; right; exact Ho').
  rewrite (H o (or_introl eq_refl)). reflexivity.
Qed.

(* own1 and own2 agree on every script hash paid by a transaction of the blocks U *)
Definition own_agree (U : list block) (own1 own2 : owner_fn) : Prop :=
  forall b t o, In b U -> In t (b_txs b) -> In o (t_outs t) -> own1 (o_sh o) = own2 (o_sh o).

Lemma cb_row_ext : forall U own1 own2 r, own_agree U own1 own2 -> cb_row U own1 r -> cb_row U own2 r.
Proof.
  intros U own1 own2 r H (B & t & ro & b & HB & Ht & Hcb & Hro & Hk & E).
  exists B, t, ro, b. repeat split; try assumption.
  rewrite <- (filter_outs_ext own1 own2 (t_outs t) 0%N); [exact Hro|]. intros o Ho. exact (H B t o HB Ht Ho).
Qed.

Lemma rows_wk_ext : forall U own1 own2 cs g, own_agree U own1 own2 -> rows_wk U own1 cs g -> rows_wk U own2 cs g.
Proof.
  intros U own1 own2 cs g H R. constructor.
  - exact (rw_complete _ _ _ _ R).
  - exact (rw_accurate _ _ _ _ R).
  - intros r Hr. destruct (rw_stale _ _ _ _ R r Hr) as [Ho|Hc]; [left; exact Ho|right; exact (cb_row_ext _ _ _ _ H Hc)].
  - exact (rw_nodup _ _ _ _ R).
Qed.

Lemma cb_row_mono : forall U U' own r, incl U U' -> cb_row U own r -> cb_row U' own r.
Proof.
  intros U U' own r H (B & t & ro & b & HB & P). exists B, t, ro, b. split; [apply H; exact HB|exact P].
Qed.

Lemma rows_wk_mono : forall U U' own cs g, incl U U' -> rows_wk U own cs g -> rows_wk U' own cs g.
Proof.
  intros U U' own cs g H R. constructor.
  - exact (rw_complete _ _ _ _ R).
  - exact (rw_accurate _ _ _ _ R).
  - intros r Hr. destruct (rw_stale _ _ _ _ R r Hr) as [Ho|Hc]; [left; exact Ho|right; exact (cb_row_mono _ _ _ _ H Hc)].
  - exact (rw_nodup _ _ _ _ R).
Qed.

Lemma rel_ins_of_ext2 :
  forall own1 own2 all1 all2 ins i, (forall op, In op ins -> owned_out own1 all1 op = owned_out own2 all2 op) ->
    rel_ins_of own1 all1 ins i = rel_ins_of own2 all2 ins i.
Proof.
  intros own1 own2 all1 all2 ins. induction ins as [|op ins IH]; intros i H; [reflexivity|].
  cbn [rel_ins_of]. rewrite (H op (or_introl eq_refl)). rewrite (IH (i + 1)%N) by (intros o Ho; apply H; right; exact Ho).
  reflexivity.
Qed.

Lemma owned_out_ext :
  forall own1 own2 all op, (forall t o, In t all -> In o (t_outs t) -> own1 (o_sh o) = own2 (o_sh o)) ->
    owned_out own1 all op = owned_out own2 all op.
Proof.
  intros own1 own2 all op H. unfold owned_out. destruct (find_tx all (fst op)) as [t|] eqn:Ef; [|reflexivity].
  apply find_tx_some in Ef. destruct Ef as [Ht _].
  destruct (nth_error (t_outs t) (N.to_nat (snd op))) as [o|] eqn:En; [|reflexivity].
  apply nth_error_In in En. rewrite (H t o Ht En). reflexivity.
Qed.

Lemma rec_of_own_ext :
  forall own1 own2 all t,
    (forall t' o, In t' all -> In o (t_outs t') -> own1 (o_sh o) = own2 (o_sh o)) ->
    (forall o, In o (t_outs t) -> own1 (o_sh o) = own2 (o_sh o)) ->
    rec_of own1 all t = rec_of own2 all t.
Proof.
  intros own1 own2 all t Hall Ht. unfold rec_of. f_equal.
  - destruct (t_cb t); [reflexivity|]. apply rel_ins_of_ext2. intros op _. apply owned_out_ext. exact Hall.
  - apply filter_outs_ext. exact Ht.
Qed.

Lemma blocks_inv_own_ext :
  forall own1 own2 c blocks, own_agree c own1 own2 -> blocks_inv own1 c blocks -> blocks_inv own2 c blocks.
Proof.
  intros own1 own2 c blocks H I.
  assert (Hall : forall t' o, In t' (chain_txs c) -> In o (t_outs t') -> own1 (o_sh o) = own2 (o_sh o)).
  { intros t' o Ht' Ho. unfold chain_txs in Ht'. apply in_flat_map in Ht'. destruct Ht' as [b [Hb Ht']]. exact (H b t' o Hb Ht' Ho). }
  assert (E : forall b, In b c -> reltxs own1 c b = reltxs own2 c b).
  { intros b Hb. unfold reltxs. apply filter_ext_in. intros t Ht. unfold relb.
    rewrite (rec_of_own_ext own1 own2 (chain_txs c) t Hall); [reflexivity|]. intros o Ho. exact (H b t o Hb Ht Ho). }
  constructor.
  - exact (bi_nodup _ _ _ I).
  - intros r Hr. destruct (bi_sound _ _ _ I r Hr) as (b & Hb & Er & Hne). exists b. rewrite <- (E b Hb). split; [exact Hb|]. split; assumption.
  - intros b Hb Hne. rewrite <- (E b Hb) in Hne. exact (bi_complete _ _ _ I b Hb Hne).
Qed.

Lemma store_inv_ext :
  forall p ownl1 ownl2 U c s, incl c U -> own_agree U (own_of ownl1) (own_of ownl2) ->
    store_inv p ownl1 U c s -> store_inv p ownl2 U c s.
Proof.
  intros p ownl1 ownl2 U c s HcU H (Hw & R & I).
  assert (Hc : own_agree c (own_of ownl1) (own_of ownl2)) by (intros b t o Hb; apply H; apply HcU; exact Hb).
  split; [|split].
  - rewrite Hw. apply L_own_ext. exact Hc.
  - exact (rows_wk_ext _ _ _ _ _ H R).
  - exact (blocks_inv_own_ext _ _ _ _ Hc I).
Qed.

Lemma store_inv_mono :
  forall p ownl U U' c s, incl U U' -> store_inv p ownl U c s -> store_inv p ownl U' c s.
Proof.
  intros p ownl U U' c s H (Hw & R & I). split; [exact Hw|]. split; [exact (rows_wk_mono _ _ _ _ _ H R)|exact I].
Qed.

Lemma tx_ids_agree_incl : forall U U', incl U U' -> tx_ids_agree U' -> tx_ids_agree U.
Proof. intros U U' H A B1 B2 t1 t2 H1 H2. apply A; apply H; assumption. Qed.

(* ================================================================ well-formed pending-aware histories *)

(* the node's best chain is moved by attach / detach events only *)
Definition node_step (n : node) (e : pevent) : node :=
  match e with PvAttach b => n ++ [b] | PvDetach => removelast n | _ => n end.

(* the node's chain after every prefix of the history *)
Fixpoint nodes_of (n : node) (h : list pevent) : list node :=
  match h with
  | [] => [n]
  | e :: r => n :: nodes_of (node_step n e) r
  end.

Definition pblocks_of_history (h : list pevent) : list block :=
  flat_map (fun e => match e with PvAttach b => [b] | PvProcess b => [b] | _ => [] end) h.

(* an address is issued before any attached block pays it (E3; issuing may be interleaved with everything else) *)
Definition powners_before_paid (h : list pevent) : Prop :=
  forall h1 sh w h2, h = h1 ++ PvOwner sh w :: h2 -> forall b, In (PvAttach b) h1 -> ~ pays b sh.

(* environment assumptions, as for C01 ([wf_history_gen]) plus: a transaction id names one transaction.
   Unconfirmed transactions delivered to the wallet (PvReceive) and restarts are unconstrained. *)
Record wf_phistory (g : block) (h : list pevent) : Prop := {
  wfp_chain : forall n, In n (nodes_of [g] h) -> wf_chain n;
  wfp_owners : powners_before_paid h;
  wfp_blockids : forall b1 b2, In b1 (g :: pblocks_of_history h) -> In b2 (g :: pblocks_of_history h) ->
                               b_id b1 = b_id b2 -> b1 = b2;
  wfp_txids : tx_ids_agree (g :: pblocks_of_history h);
  wfp_announced : forall b, In (PvProcess b) h -> In (PvAttach b) h
}.

Lemma q_node_pstep : forall p a s e, q_node (pstep p a s e) = node_step (q_node s) e.
Proof. intros p a s e. destruct e; reflexivity. Qed.

Lemma q_node_fold : forall p a h s, q_node (fold_left (pstep p a) h s) = fold_left node_step h (q_node s).
Proof.
  intros p a h. induction h as [|e h IH]; intros s; [reflexivity|]. cbn [fold_left]. rewrite IH, q_node_pstep. reflexivity.
Qed.

Lemma nodes_of_head : forall n h, In n (nodes_of n h).
Proof. intros n h. destruct h; left; reflexivity. Qed.

Lemma nodes_of_app_in : forall h1 h2 n m, In m (nodes_of (fold_left node_step h1 n) h2) -> In m (nodes_of n (h1 ++ h2)).
Proof.
  induction h1 as [|e h1 IH]; intros h2 n m H; [exact H|]. cbn [app nodes_of]. right. apply IH. exact H.
Qed.

Lemma nodes_of_prefix_in : forall h1 h2 n m, In m (nodes_of n h1) -> In m (nodes_of n (h1 ++ h2)).
Proof.
  induction h1 as [|e h1 IH]; intros h2 n m H.
  - cbn in H. destruct H as [<-|[]]. apply nodes_of_head.
  - cbn [app nodes_of] in *. destruct H as [H|H]; [left; exact H|right; apply IH; exact H].
Qed.

Lemma pblocks_of_history_in :
  forall h e b, In e h -> e = PvAttach b \/ e = PvProcess b -> In b (pblocks_of_history h).
Proof.
  intros h e b He Hb. unfold pblocks_of_history. apply in_flat_map. exists e. split; [exact He|].
  destruct Hb as [->| ->]; left; reflexivity.
Qed.

Lemma pnode_from_g :
  forall g h n, from_g g n -> (forall m, In m (nodes_of n h) -> wf_chain m) -> from_g g (fold_left node_step h n).
Proof.
  intros g h. induction h as [|e h IH]; intros n Hg Hw; [exact Hg|]. cbn [fold_left]. apply IH.
  - assert (Hwf' : wf_chain (node_step n e)) by (apply Hw; cbn [nodes_of]; right; apply nodes_of_head).
    destruct Hg as [n' Hn]. destruct e as [sh w|b| |b|t|]; cbn [node_step] in *; try (exists n'; exact Hn).
    + exists (n' ++ [b]). rewrite Hn. reflexivity.
    + rewrite Hn in *. destruct n' as [|z n'].
      * exfalso. cbn in Hwf'. apply (wf_nonempty _ Hwf'). reflexivity.
      * exists (removelast (z :: n')). reflexivity.
  - intros m Hm. apply Hw. cbn [nodes_of]. right. exact Hm.
Qed.

Lemma pno_attach_genesis :
  forall g h, (forall n, In n (nodes_of [g] h) -> wf_chain n) -> ~ In (PvAttach g) h.
Proof.
  intros g h Hw Hin. apply in_split in Hin. destruct Hin as [h1 [h2 Hh]].
  assert (Hg1 : from_g g (fold_left node_step h1 [g])).
  { apply pnode_from_g; [exists []; reflexivity|]. intros m Hm. apply Hw. rewrite Hh. apply nodes_of_prefix_in. exact Hm. }
  assert (Hwf : wf_chain (fold_left node_step (h1 ++ [PvAttach g]) [g])).
  { apply Hw. rewrite Hh. change (PvAttach g :: h2) with ([PvAttach g] ++ h2). rewrite app_assoc.
    apply nodes_of_app_in. apply nodes_of_head. }
  rewrite fold_left_app in Hwf. cbn [fold_left node_step] in Hwf.
  destruct Hg1 as [n' Hn]. rewrite Hn in Hwf. pose proof (wf_bids _ Hwf) as Hnd.
  cbn [app map] in Hnd. inversion Hnd as [|? ? Hnotin _]. apply Hnotin.
  rewrite map_app. apply in_or_app. right. left. reflexivity.
Qed.

(* blocks attached so far, and: every new address is unpaid by them *)
Definition pattached (h : list pevent) : list block :=
  flat_map (fun e => match e with PvAttach b => [b] | _ => [] end) h.

Fixpoint pfresh_ok (A : list block) (h : list pevent) : Prop :=
  match h with
  | [] => True
  | PvOwner sh w :: r => (forall b, In b A -> ~ pays b sh) /\ pfresh_ok A r
  | PvAttach b :: r => pfresh_ok (A ++ [b]) r
  | _ :: r => pfresh_ok A r
  end.

Lemma pfresh_ok_intro :
  forall h A,
    (forall h1 sh w h2, h = h1 ++ PvOwner sh w :: h2 -> forall b, In b A \/ In (PvAttach b) h1 -> ~ pays b sh) ->
    pfresh_ok A h.
Proof.
  induction h as [|e r IH]; intros A H; [exact I|].
  assert (Hr : forall A', (forall b, In b A' -> In b A \/ In (PvAttach b) [e]) -> pfresh_ok A' r).
  { intros A' HA'. apply IH. intros h1 sh w h2 Hr b Hb.
    apply (H (e :: h1) sh w h2); [rewrite Hr; reflexivity|].
    destruct Hb as [Hb|Hb].
    - destruct (HA' b Hb) as [Hb'|[Hb'|[]]]; [left; exact Hb'|right; left; exact Hb'].
    - right. right. exact Hb. }
  destruct e as [sh w|b| |b|t|]; cbn [pfresh_ok]; try (apply Hr; intros b0 Hb0; left; exact Hb0).
  - split.
    + intros b Hb. apply (H [] sh w r); [reflexivity|left; exact Hb].
    + apply Hr. intros b Hb. left. exact Hb.
  - apply Hr. intros b' Hb'. apply in_app_or in Hb'. destruct Hb' as [Hb'|[<-|[]]]; [left; exact Hb'|right; left; reflexivity].
Qed.

Lemma own_of_cons : forall sh w l sh', own_of ((sh, w) :: l) sh' = if (sh =? sh')%N then Some w else own_of l sh'.
Proof. intros sh w l sh'. unfold own_of. cbn [find fst snd]. destruct (sh =? sh')%N; reflexivity. Qed.

Section PHistoryRun.
Variable p : params.
Variable a3fix : bool.
Variable g : block.
Variable B : list block.
Hypothesis B_ids : forall b1 b2, In b1 B -> In b2 B -> b_id b1 = b_id b2 -> b1 = b2.
Hypothesis B_txids : tx_ids_agree B.

(* A: the blocks attached so far *)
Definition PInv (A : list block) (s : psim) : Prop :=
  wf_chain (q_node s) /\ from_g g (q_node s) /\ incl (q_node s) A /\
  exists c, wf_chain c /\ from_g g c /\ incl c A /\ store_inv p (q_own s) A c (h_store (q_h s)).

Definition pok_event (e : pevent) : Prop :=
  (forall b, e = PvAttach b \/ e = PvProcess b -> In b B) /\ e <> PvProcess g.

Lemma PInv_mono : forall A A' s, incl A A' -> PInv A s -> PInv A' s.
Proof.
  intros A A' s HA (H1 & H2 & H3 & c & H4 & H5 & H6 & H7).
  split; [exact H1|]. split; [exact H2|]. split; [intros z Hz; apply HA; apply H3; exact Hz|].
  exists c. split; [exact H4|]. split; [exact H5|]. split; [intros z Hz; apply HA; apply H6; exact Hz|].
  exact (store_inv_mono _ _ _ _ _ _ HA H7).
Qed.

Lemma PInv_run :
  forall post s A,
    PInv A s -> incl A B ->
    (forall n, In n (nodes_of (q_node s) post) -> wf_chain n) ->
    (forall e, In e post -> pok_event e) -> pfresh_ok A post ->
    PInv (A ++ pattached post) (fold_left (pstep p a3fix) post s).
Proof.
  induction post as [|e post IH]; intros s A Hinv HAB Hnodes Hok Hfresh.
  - cbn [pattached flat_map fold_left]. rewrite app_nil_r. exact Hinv.
  - assert (Hwf' : wf_chain (q_node (pstep p a3fix s e))).
    { rewrite q_node_pstep. apply Hnodes. cbn [nodes_of]. right. apply nodes_of_head. }
    assert (Hnodes' : forall n, In n (nodes_of (q_node (pstep p a3fix s e)) post) -> wf_chain n).
    { intros n Hn. apply Hnodes. cbn [nodes_of]. right. rewrite <- (q_node_pstep p a3fix). exact Hn. }
    assert (Hok' : forall e', In e' post -> pok_event e') by (intros e' He'; apply Hok; right; exact He').
    destruct (Hok e (or_introl eq_refl)) as [HeB Hng].
    destruct Hinv as (Hwfn & Hgn & HnA & c & Hwfc & Hgc & HcA & Hst).
    cbn [fold_left].
    destruct e as [sh w|b| |b|t|]; cbn [pfresh_ok] in Hfresh.
    + (* a new address, not paid by any block attached so far *)
      destruct Hfresh as [Hnew Hfresh]. cbn [pattached flat_map app]. fold (pattached post).
      apply IH; try assumption.
      cbn [pstep]. unfold PInv. cbn [q_node q_h q_own].
      split; [exact Hwfn|]. split; [exact Hgn|]. split; [exact HnA|].
      exists c. split; [exact Hwfc|]. split; [exact Hgc|]. split; [exact HcA|].
      apply (store_inv_ext p (q_own s) ((sh, w) :: q_own s) A c _ HcA); [|exact Hst].
      intros b0 t0 o Hb0 Ht0 Ho. rewrite own_of_cons. destruct (sh =? o_sh o)%N eqn:Heq; [|reflexivity].
      exfalso. apply N.eqb_eq in Heq. apply (Hnew b0 Hb0). exists t0, o. split; [exact Ht0|]. split; [exact Ho|]. symmetry. exact Heq.
    + (* attach *)
      cbn [pattached flat_map]. fold (pattached post). cbn [app].
      change (A ++ b :: pattached post) with (A ++ [b] ++ pattached post). rewrite app_assoc.
      apply IH; try assumption.
      * cbn [pstep]. unfold PInv. cbn [q_node q_h q_own]. cbn [pstep q_node] in Hwf'.
        split; [exact Hwf'|]. split; [|split].
        -- destruct Hgn as [n' Hn]. exists (n' ++ [b]). rewrite Hn. reflexivity.
        -- apply incl_app; [apply incl_appl; exact HnA|apply incl_appr; apply incl_refl].
        -- exists c. split; [exact Hwfc|]. split; [exact Hgc|]. split; [apply incl_appl; exact HcA|].
           apply (store_inv_mono p (q_own s) A (A ++ [b]) c _); [apply incl_appl; apply incl_refl|exact Hst].
      * apply incl_app; [exact HAB|]. intros z [<-|[]]. apply HeB. left. reflexivity.
    + (* detach *)
      cbn [pattached flat_map app]. fold (pattached post).
      apply IH; try assumption.
      cbn [pstep]. unfold PInv. cbn [q_node q_h q_own]. cbn [pstep q_node] in Hwf'.
      split; [exact Hwf'|]. split; [|split].
      * destruct Hgn as [n' Hn]. rewrite Hn in *. destruct n' as [|z n'].
        -- exfalso. cbn in Hwf'. apply (wf_nonempty _ Hwf'). reflexivity.
        -- exists (removelast (z :: n')). reflexivity.
      * intros z Hz. apply HnA. apply Proofs4.removelast_in. exact Hz.
      * exists c. tauto.
    + (* process *)
      cbn [pattached flat_map app]. fold (pattached post).
      apply IH; try assumption.
      cbn [pstep]. unfold PInv. cbn [q_node q_h q_own].
      split; [exact Hwfn|]. split; [exact Hgn|]. split; [exact HnA|].
      unfold pprocess_or_keep.
      destruct (pprocess p a3fix (own_of (q_own s)) (q_node s) (q_h s) b) as [hs'|err] eqn:Hp; [|exists c; tauto].
      apply (pprocess_ok_inv p a3fix g (q_own s) B B_ids A HAB (tx_ids_agree_incl A B HAB B_txids) (q_node s) c b (q_h s) hs'); try assumption.
      -- apply HeB. right. reflexivity.
      -- intros ->. apply Hng. reflexivity.
    + (* an unconfirmed transaction is delivered: the mined side is untouched *)
      cbn [pattached flat_map app]. fold (pattached post).
      apply IH; try assumption.
      cbn [pstep]. unfold PInv. cbn [q_node q_h q_own].
      split; [exact Hwfn|]. split; [exact Hgn|]. split; [exact HnA|].
      exists c. split; [exact Hwfc|]. split; [exact Hgc|]. split; [exact HcA|].
      destruct (receive_tx_not_counted p (own_of (q_own s)) (q_node s) (q_h s) t) as (A1 & A2 & A3 & _).
      cbv zeta in A1, A2, A3. destruct Hst as (S1 & S2 & S3). unfold store_inv. rewrite A1, A2, A3. tauto.
    + (* restart: the store is what it was *)
      cbn [pattached flat_map app]. fold (pattached post).
      apply IH; try assumption.
      cbn [pstep]. unfold PInv. cbn [q_node q_h q_own h_store].
      split; [exact Hwfn|]. split; [exact Hgn|]. split; [exact HnA|]. exists c. tauto.
Qed.

End PHistoryRun.

Lemma store_inv_init :
  forall p ownl U g, wf_chain [g] -> store_inv p ownl U [g] (init_pstate (b_id g)).
Proof.
  intros p ownl U g Hwf. destruct (wf_genesis _ Hwf) as [g' [rest [Hc [Hh0 [Htx _]]]]]. inversion Hc; subst g' rest.
  split; [|split].
  - cbn. symmetry. apply L_genesis; assumption.
  - cbn. constructor.
    + intros c b [].
    + intros r c [].
    + intros r [].
    + constructor.
  - cbn. constructor.
    + constructor.
    + intros r [].
    + intros b [<-|[]] Hne. exfalso. apply Hne. unfold reltxs. rewrite Htx. reflexivity.
Qed.

Lemma pattached_in_blocks : forall h b, In b (pattached h) -> In b (pblocks_of_history h).
Proof.
  intros h b H. unfold pattached in H. apply in_flat_map in H. destruct H as [e [He Hb]].
  destruct e as [sh w|b0| |b0|t|]; try (destruct Hb; fail). destruct Hb as [<-|[]].
  apply (pblocks_of_history_in h (PvAttach b0) b0 He). left. reflexivity.
Qed.

(* the invariant after every prefix h1 of a well-formed history h1 ++ h2 *)
Theorem history_store_inv :
  forall p a g h1 h2, wf_phistory g (h1 ++ h2) ->
    let q := prun p a g h1 in
    exists c, wf_chain c /\ from_g g c /\ incl c (g :: pblocks_of_history (h1 ++ h2)) /\
              store_inv p (q_own q) (g :: pblocks_of_history (h1 ++ h2)) c (h_store (q_h q)).
Proof.
  intros p a g h1 h2 Hwf q. set (B := g :: pblocks_of_history (h1 ++ h2)).
  pose proof (wfp_chain _ _ Hwf) as Hnodes.
  assert (Hwfg : wf_chain [g]) by (apply Hnodes; apply nodes_of_head).
  destruct (wf_genesis _ Hwfg) as [g' [rest [Hc [Hh0 [Htx _]]]]]. inversion Hc; subst g' rest. clear Hc.
  assert (Hnog : ~ In (PvAttach g) (h1 ++ h2)) by (apply pno_attach_genesis; exact Hnodes).
  assert (Hok : forall e, In e h1 -> pok_event g B e).
  { intros e He. assert (Heh : In e (h1 ++ h2)) by (apply in_or_app; left; exact He). split.
    - intros b' Hb'. right. apply (pblocks_of_history_in (h1 ++ h2) e b' Heh Hb').
    - intros ->. apply Hnog. apply (wfp_announced _ _ Hwf). exact Heh. }
  assert (Hinv0 : PInv p g [g] (init_psim g)).
  { unfold PInv. cbn [init_psim q_node q_h q_own init_hstate h_store].
    split; [exact Hwfg|]. split; [exists []; reflexivity|]. split; [apply incl_refl|].
    exists [g]. split; [exact Hwfg|]. split; [exists []; reflexivity|]. split; [apply incl_refl|].
    apply store_inv_init. exact Hwfg. }
  assert (Hfresh : pfresh_ok [g] h1).
  { apply pfresh_ok_intro. intros k1 sh w0 k2 Hh b0 Hb0 Hpays. destruct Hb0 as [[<-|[]]|Hb0].
    - destruct Hpays as [t [o [Ht _]]]. rewrite Htx in Ht. destruct Ht.
    - assert (Heq : h1 ++ h2 = k1 ++ PvOwner sh w0 :: (k2 ++ h2)) by (rewrite Hh, <- app_assoc; reflexivity).
      exact (wfp_owners _ _ Hwf k1 sh w0 (k2 ++ h2) Heq b0 Hb0 Hpays). }
  assert (HAB : incl ([g] ++ pattached h1) B).
  { intros z Hz. apply in_app_or in Hz. destruct Hz as [[<-|[]]|Hz]; [left; reflexivity|].
    right. apply pattached_in_blocks in Hz. unfold pblocks_of_history in *. rewrite flat_map_app. apply in_or_app. left. exact Hz. }
  pose proof (PInv_run p a g B (wfp_blockids _ _ Hwf) (wfp_txids _ _ Hwf) h1 (init_psim g) [g] Hinv0) as Hfin.
  destruct Hfin as (_ & _ & _ & c & C1 & C2 & C3 & C4).
  - intros z [<-|[]]. left. reflexivity.
  - intros n Hn. apply Hnodes. apply nodes_of_prefix_in. exact Hn.
  - exact Hok.
  - exact Hfresh.
  - fold (prun p a g h1) in C4. fold q in C4. exists c. split; [exact C1|]. split; [exact C2|].
    split; [intros z Hz; apply HAB; apply C3; exact Hz|].
    exact (store_inv_mono _ _ _ _ _ _ HAB C4).
Qed.

(* ================================================================ what the histories report, from the weak invariant *)

Theorem mined_history_exact_wk :
  forall U own n s w binding excl,
    rows_wk U own (credits (ps_w s)) (ps_game s) -> cred_unique (credits (ps_w s)) ->
    (forall c, In c (credits (ps_w s)) -> c_height c <> 0) ->
    forall hr, In hr (mined_history n s w binding excl) <->
      exists c, In c (credits (ps_w s)) /\ c_wallet c = w /\ game_kind (c_class c) = Some binding /\
                (excl = true -> is_unspent c = true) /\
                (binding = true -> binding_tx_readable n s (c_tx c) (c_height c) = true) /\
                hr = hrow_of s c binding.
Proof.
  intros U own n s w binding excl R Uq Hh hr. unfold mined_history. rewrite in_flat_map. split.
  - intros [r [Hr Hin]].
    destruct ((g_wallet r =? w)%N && Bool.eqb (g_binding r) binding && negb (excl && g_withdrawn r) && negb (g_height r =? 0)) eqn:Ec; [|destruct Hin].
    rewrite !andb_true_iff in Ec. destruct Ec as (((E1 & E2) & E3) & E4).
    apply N.eqb_eq in E1. apply Bool.eqb_prop in E2.
    destruct (credit_by_height (credits (ps_w s)) (g_tx r) (g_height r) (g_vout r)) as [c|] eqn:Ecr; [|destruct Hin].
    destruct (credit_by_height_some _ _ _ _ _ Ecr) as (Hc & A & B & C).
    destruct (rw_accurate _ _ _ _ R r c Hr Hc (conj A (conj B C))) as [b [Hk Er]].
    assert (Eb : b = binding) by (rewrite Er in E2; cbn in E2; exact E2). subst b.
    destruct (binding && negb (binding_tx_readable n s (g_tx r) (g_height r))) eqn:Erd; [destruct Hin|].
    destruct Hin as [<-|[]]. exists c. split; [exact Hc|]. split; [rewrite Er in E1; exact E1|]. split; [exact Hk|]. split; [|split].
    + intros ->. cbn in E3. rewrite Er in E3. cbn in E3. destruct (is_unspent c); [reflexivity|discriminate].
    + intros ->. cbn in Erd. rewrite <- A, <- B in Erd. destruct (binding_tx_readable n s (c_tx c) (c_height c)); [reflexivity|discriminate].
    + unfold hrow_of. rewrite <- A, <- B, <- C. reflexivity.
  - intros [c (Hc & Hw & Hk & Hex & Hrd & ->)].
    exists (row_of c binding). split; [apply (rw_complete _ _ _ _ R); assumption|].
    cbn [row_of mk_grow g_wallet g_binding g_withdrawn g_tx g_height g_vout].
    rewrite Hw, N.eqb_refl, Bool.eqb_reflx. cbn [andb].
    assert (E3 : negb (excl && negb (is_unspent c)) = true).
    { destruct excl; [rewrite (Hex eq_refl); reflexivity|reflexivity]. }
    rewrite E3. assert (E4 : negb (c_height c =? 0) = true).
    { destruct (c_height c =? 0) eqn:E; [apply Z.eqb_eq in E; exfalso; exact (Hh c Hc E)|reflexivity]. }
    rewrite E4. cbn [andb]. rewrite (credit_by_height_unique _ c Uq Hc).
    destruct binding.
    + rewrite (Hrd eq_refl). cbn. left. reflexivity.
    + cbn. left. reflexivity.
Qed.

Theorem mined_history_once_wk :
  forall U own n s w binding excl,
    rows_wk U own (credits (ps_w s)) (ps_game s) ->
    NoDup (map (fun hr => (hr_tx hr, hr_height hr, hr_vout hr)) (mined_history n s w binding excl)).
Proof.
  intros U own n s w binding excl R. unfold mined_history.
  apply NoDup_flat_map_keys.
  - exact (rw_nodup _ _ _ _ R).
  - intros r.
    destruct ((g_wallet r =? w)%N && Bool.eqb (g_binding r) binding && negb (excl && g_withdrawn r) && negb (g_height r =? 0)); [|cbn; lia].
    destruct (credit_by_height (credits (ps_w s)) (g_tx r) (g_height r) (g_vout r)); [|cbn; lia].
    destruct (binding && negb (binding_tx_readable n s (g_tx r) (g_height r))); cbn; lia.
  - intros r1 r2 b1 b2 Hr1 Hr2 Hb1 Hb2 Ek.
    assert (Hone : forall r b, In r (ps_game s) ->
              In b (if (g_wallet r =? w)%N && Bool.eqb (g_binding r) binding && negb (excl && g_withdrawn r) && negb (g_height r =? 0)
                    then match credit_by_height (credits (ps_w s)) (g_tx r) (g_height r) (g_vout r) with
                         | Some c => if binding && negb (binding_tx_readable n s (g_tx r) (g_height r)) then []
                                     else [ {| hr_tx := g_tx r; hr_vout := g_vout r; hr_amount := c_amount c; hr_sh := c_sh c;
                                               hr_frozen := (if binding then 0 else c_maturity c - 1); hr_height := g_height r;
                                               hr_spent := negb (is_unspent c);
                                               hr_sbu := (if is_unspent c then spent_by_unmined s (g_tx r, g_vout r) else false);
                                               hr_pending := false |} ]
                         | None => []
                         end
                    else []) ->
              (hr_tx b, hr_height b, hr_vout b) = (g_tx r, g_height r, g_vout r) /\
              exists c bb, In c (credits (ps_w s)) /\ same_key r c /\ r = row_of c bb).
    { intros r b Hr Hb.
      destruct ((g_wallet r =? w)%N && Bool.eqb (g_binding r) binding && negb (excl && g_withdrawn r) && negb (g_height r =? 0)); [|destruct Hb].
      destruct (credit_by_height (credits (ps_w s)) (g_tx r) (g_height r) (g_vout r)) as [c|] eqn:E; [|destruct Hb].
      destruct (binding && negb (binding_tx_readable n s (g_tx r) (g_height r))); [destruct Hb|].
      destruct Hb as [<-|[]]. split; [reflexivity|].
      destruct (credit_by_height_some _ _ _ _ _ E) as (Hc & A & B & C).
      destruct (rw_accurate _ _ _ _ R r c Hr Hc (conj A (conj B C))) as [bb [_ Er]].
      exists c, bb. split; [exact Hc|]. split; [exact (conj A (conj B C))|exact Er]. }
    destruct (Hone r1 b1 Hr1 Hb1) as [K1 (c1 & bb1 & Hc1 & Hs1 & E1)].
    destruct (Hone r2 b2 Hr2 Hb2) as [K2 (c2 & bb2 & Hc2 & Hs2 & E2)].
    assert (Ekk : (g_tx r1, g_height r1, g_vout r1) = (g_tx r2, g_height r2, g_vout r2)) by congruence.
    assert (Hs21 : same_key r2 c1).
    { destruct Hs1 as (A & B & C). inversion Ekk. unfold same_key. repeat split; congruence. }
    destruct (rw_accurate _ _ _ _ R r2 c1 Hr2 Hc1 Hs21) as [b3 [K3 E3]].
    destruct (rw_accurate _ _ _ _ R r1 c1 Hr1 Hc1 Hs1) as [b4 [K4 E4]].
    congruence.
Qed.

(* no credit of a chain has height 0: the genesis block carries no transaction *)
Lemma E_heights_pos : forall p own c cr, wf_chain c -> In cr (E p own (ptxs c)) -> c_height cr <> 0.
Proof.
  intros p own c cr Hwf Hcr. unfold E in Hcr. apply in_mkE in Hcr. destruct Hcr as [k [Hk ->]]. cbn [mk_credit c_height].
  apply coins_l_in in Hk. destruct Hk as [x [Hx Hk]]. unfold coins_pt in Hk. apply coins_of_outs_in in Hk.
  destruct Hk as (_ & Hh & _). rewrite Hh.
  unfold ptxs in Hx. apply in_flat_map in Hx. destruct Hx as [b [Hb Hx]]. unfold ptxs_of_block in Hx.
  apply in_map_iff in Hx. destruct Hx as [t [<- Ht]]. cbn [pt_h fst snd].
  destruct (wf_genesis _ Hwf) as [g0 [rest [Hc [_ [Htx Hl]]]]]. subst c. destruct Hb as [<-|Hb].
  - rewrite Htx in Ht. destruct Ht.
  - destruct (linked_nth _ _ _ _ Hl Hb) as [_ Hge]. lia.
Qed.

(* ---- the main results *)

(* in every state reached by a well-formed history: the weak row invariant, key uniqueness, heights *)
Theorem rows_invariant :
  forall p a g h1 h2, wf_phistory g (h1 ++ h2) ->
    let q := prun p a g h1 in
    let s := h_store (q_h q) in
    rows_wk (g :: pblocks_of_history (h1 ++ h2)) (own_of (q_own q)) (credits (ps_w s)) (ps_game s) /\
    cred_unique (credits (ps_w s)) /\
    (forall c, In c (credits (ps_w s)) -> c_height c <> 0) /\
    NoDup (ps_game s) /\
    exists c, wf_chain c /\ incl c (g :: pblocks_of_history (h1 ++ h2)) /\ ps_w s = L p (own_of (q_own q)) c.
Proof.
  intros p a g h1 h2 Hwf q s.
  destruct (history_store_inv p a g h1 h2 Hwf) as (c & Hwfc & _ & HcB & Hw & R & _). fold q in Hw, R. fold s in Hw, R.
  split; [exact R|]. split; [|split; [|split]].
  - rewrite Hw. cbn [L credits]. apply cred_unique_E. rewrite txs_of_ptxs. exact (wf_txids _ Hwfc).
  - intros cr Hcr. rewrite Hw in Hcr. cbn [L credits] in Hcr. exact (E_heights_pos _ _ _ _ Hwfc Hcr).
  - exact (rw_nodup _ _ _ _ R).
  - exists c. split; [exact Hwfc|]. split; [exact HcB|exact Hw].
Qed.

Theorem history_exact_reachable :
  forall p a g h1 h2, wf_phistory g (h1 ++ h2) ->
    let s := h_store (q_h (prun p a g h1)) in
    forall n w binding excl,
      (forall hr, In hr (mined_history n s w binding excl) <->
        exists c, In c (credits (ps_w s)) /\ c_wallet c = w /\ game_kind (c_class c) = Some binding /\
                  (excl = true -> is_unspent c = true) /\
                  (binding = true -> binding_tx_readable n s (c_tx c) (c_height c) = true) /\
                  hr = hrow_of s c binding) /\
      NoDup (map (fun hr => (hr_tx hr, hr_height hr, hr_vout hr)) (mined_history n s w binding excl)).
Proof.
  intros p a g h1 h2 Hwf s n w binding excl.
  destruct (rows_invariant p a g h1 h2 Hwf) as (R & Uq & Hh & _). cbv zeta in R, Uq, Hh. fold s in R, Uq, Hh.
  split; [eapply mined_history_exact_wk; eassumption|eapply mined_history_once_wk; eassumption].
Qed.

(* ---- the same, read against the chain the wallet follows *)

Definition hrow_of_coin (p : params) (s : pstate) (c : list block) (k : coin) (binding : bool) : hrow :=
  {| hr_tx := k_tx k; hr_vout := k_vout k; hr_amount := k_amount k; hr_sh := k_sh k;
     hr_frozen := (if binding then 0 else maturity_of p (k_cb k) (k_class k) - 1); hr_height := k_height k;
     hr_spent := spent_in c (k_tx k, k_vout k);
     hr_sbu := (if spent_in c (k_tx k, k_vout k) then false else spent_by_unmined s (k_tx k, k_vout k));
     hr_pending := false |}.

Lemma hrow_of_mk_credit :
  forall p s c k binding,
    hrow_of s (mk_credit p k (spender_l (ptxs c) (coin_op k))) binding = hrow_of_coin p s c k binding /\
    is_unspent (mk_credit p k (spender_l (ptxs c) (coin_op k))) = negb (spent_in c (k_tx k, k_vout k)).
Proof.
  intros p s c k binding. pose proof (spender_chain_spent c (coin_op k)) as H. unfold coin_op in H.
  assert (Hu : is_unspent (mk_credit p k (spender_l (ptxs c) (coin_op k))) = negb (spent_in c (k_tx k, k_vout k))).
  { rewrite <- H. unfold is_unspent, isn, coin_op. cbn. destruct (spender_l (ptxs c) (k_tx k, k_vout k)); reflexivity. }
  split; [|exact Hu]. unfold hrow_of, hrow_of_coin. rewrite Hu. cbn [mk_credit c_tx c_vout c_amount c_sh c_maturity c_height].
  destruct (spent_in c (k_tx k, k_vout k)); reflexivity.
Qed.

(* a deposit's transaction can be read back through the wallet's block record whenever the node still has
   the wallet's block at that height (always, when the wallet's chain is part of the node's) *)
Lemma binding_readable_of_inv :
  forall own c n s k,
    blocks_inv own c (ps_blocks s) -> wf_chain c -> wf_chain n -> incl c n -> In k (coins_of_chain own c) ->
    binding_tx_readable n s (k_tx k) (k_height k) = true.
Proof.
  intros own c n s k I Hwfc Hwfn Hcn Hk.
  unfold coins_of_chain in Hk. apply in_flat_map in Hk. destruct Hk as [b [Hb Hk]].
  unfold coins_of_block in Hk. apply in_flat_map in Hk. destruct Hk as [t [Ht Hk]].
  pose proof Hk as Hk'. apply coins_of_outs_in in Hk'. destruct Hk' as (Etx & Eh & _).
  assert (Hrel : In t (reltxs own c b)).
  { unfold reltxs. apply filter_In. split; [exact Ht|]. unfold relb, rec_keep, rec_of. cbn [rr_ins rr_outs].
    rewrite coins_of_outs_filter in Hk. destruct (filter_outs own (t_outs t) 0%N); [destruct Hk|].
    destruct (if t_cb t then [] else rel_ins_of own (chain_txs c) (t_ins t) 0%N); reflexivity. }
  destruct (bi_complete _ _ _ I b Hb) as [r [Hr Hh]]; [intros E; rewrite E in Hrel; destruct Hrel|].
  destruct (bi_sound _ _ _ I r Hr) as (b' & Hb' & Er & _).
  destruct (wf_linked _ Hwfc) as [pvc Hlc].
  assert (b' = b) by (apply (linked_height_inj _ _ _ b' b Hlc Hb' Hb); rewrite Er in Hh; exact Hh). subst b'.
  unfold binding_tx_readable. apply existsb_exists. exists r. split; [exact Hr|].
  rewrite Er. cbn [mkrec br_height br_txs br_bid]. rewrite Eh, Z.eqb_refl. cbn [andb].
  assert (Ex : existsb (fun t0 => (t_id t0 =? k_tx k)%N) (reltxs own c b) = true).
  { apply existsb_exists. exists t. split; [exact Hrel|]. rewrite Etx. apply N.eqb_refl. }
  rewrite Ex. cbn [andb].
  destruct (wf_linked _ Hwfn) as [pvn Hln]. pose proof (Hcn b Hb) as Hbn. apply in_split in Hbn. destruct Hbn as [n1 [n2 Hn]].
  rewrite Hn in Hln |- *. unfold node_at. rewrite (node_at_found _ _ _ _ _ Hln). apply N.eqb_refl.
Qed.

Theorem history_exact_chain :
  forall p a g h1 h2, wf_phistory g (h1 ++ h2) ->
    let q := prun p a g h1 in
    let s := h_store (q_h q) in
    let own := own_of (q_own q) in
    exists c, wf_chain c /\ from_g g c /\ incl c (g :: pblocks_of_history (h1 ++ h2)) /\ ps_w s = L p own c /\
      (forall n w binding excl,
        (forall hr, In hr (mined_history n s w binding excl) <->
           exists k, In k (coins_of_chain own c) /\ k_wallet k = w /\ game_kind (k_class k) = Some binding /\
                     (excl = true -> spent_in c (k_tx k, k_vout k) = false) /\
                     (binding = true -> binding_tx_readable n s (k_tx k) (k_height k) = true) /\
                     hr = hrow_of_coin p s c k binding) /\
        NoDup (map (fun hr => (hr_tx hr, hr_height hr, hr_vout hr)) (mined_history n s w binding excl))) /\
      (* binding deposits are readable (hence listed) whenever the wallet's chain is part of the node's *)
      (forall n k, wf_chain n -> incl c n -> In k (coins_of_chain own c) ->
                   binding_tx_readable n s (k_tx k) (k_height k) = true).
Proof.
  intros p a g h1 h2 Hwf q s own.
  destruct (history_store_inv p a g h1 h2 Hwf) as (c & Hwfc & Hgc & HcB & Hw & _ & I). fold q in Hw, I. fold s in Hw, I. fold own in Hw, I.
  exists c. split; [exact Hwfc|]. split; [exact Hgc|]. split; [exact HcB|]. split; [exact Hw|].
  split; [|intros n k Hwfn Hcn Hk; exact (binding_readable_of_inv own c n s k I Hwfc Hwfn Hcn Hk)].
  intros n w binding excl. destruct (history_exact_reachable p a g h1 h2 Hwf n w binding excl) as [Hex Hnd]. fold q in Hex, Hnd. fold s in Hex, Hnd.
  split; [|exact Hnd]. intros hr. rewrite Hex. rewrite Hw. cbn [L credits]. unfold E. rewrite coins_l_ptxs. split.
  - intros (cr & Hcr & A1 & A2 & A3 & A4 & ->). apply in_mkE in Hcr. destruct Hcr as [k [Hk ->]].
    destruct (hrow_of_mk_credit p s c k binding) as [Eh Eu].
    exists k. split; [exact Hk|]. split; [exact A1|]. split; [exact A2|]. split; [|split; [exact A4|exact Eh]].
    intros He. specialize (A3 He). rewrite Eu in A3. destruct (spent_in c (k_tx k, k_vout k)); [discriminate|reflexivity].
  - intros (k & Hk & A1 & A2 & A3 & A4 & ->).
    destruct (hrow_of_mk_credit p s c k binding) as [Eh Eu].
    exists (mk_credit p k (spender_l (ptxs c) (coin_op k))). split; [apply in_mkE; exists k; split; [exact Hk|reflexivity]|].
    split; [exact A1|]. split; [exact A2|]. split; [|split; [exact A4|symmetry; exact Eh]].
    intros He. rewrite Eu, (A3 He). reflexivity.
Qed.

(* ================================================================ a decision procedure for wf_phistory (used by the examples) *)

Fixpoint powners_before_paid_go (A : list block) (h : list pevent) : bool :=
  match h with
  | [] => true
  | PvOwner sh w :: r => forallb (fun b => negb (pays_b b sh)) A && powners_before_paid_go A r
  | PvAttach b :: r => powners_before_paid_go (b :: A) r
  | _ :: r => powners_before_paid_go A r
  end.

Lemma powners_before_paid_go_sound :
  forall h A, powners_before_paid_go A h = true ->
    forall h1 sh w h2, h = h1 ++ PvOwner sh w :: h2 -> forall b, In b A \/ In (PvAttach b) h1 -> ~ pays b sh.
Proof.
  induction h as [|e r IH]; intros A Hgo h1 sh w h2 Hh b Hb Hpays.
  - destruct h1; discriminate.
  - destruct h1 as [|e1 h1].
    + cbn [app] in Hh. inversion Hh. subst e r. cbn [powners_before_paid_go] in Hgo.
      apply andb_true_iff in Hgo. destruct Hgo as [Hgo _]. rewrite forallb_forall in Hgo.
      destruct Hb as [Hb|[]]. specialize (Hgo b Hb). rewrite (pays_b_complete _ _ Hpays) in Hgo. discriminate.
    + cbn [app] in Hh. inversion Hh. subst e1 r.
      assert (Hnext : forall A', powners_before_paid_go A' (h1 ++ PvOwner sh w :: h2) = true ->
                                 (In b A' \/ In (PvAttach b) h1) -> False).
      { intros A' Hgo' Hb'. apply (IH A' Hgo' h1 sh w h2 eq_refl b Hb' Hpays). }
      destruct e as [sh' w'|b'| |b'|t'|]; cbn [powners_before_paid_go] in Hgo.
      * apply andb_true_iff in Hgo. destruct Hgo as [_ Hgo]. apply (Hnext A Hgo).
        destruct Hb as [Hb|[Hb|Hb]]; [left; exact Hb|discriminate|right; exact Hb].
      * apply (Hnext (b' :: A) Hgo).
        destruct Hb as [Hb|[Hb|Hb]]; [left; right; exact Hb| |right; exact Hb].
        inversion Hb. left. left. reflexivity.
      * apply (Hnext A Hgo). destruct Hb as [Hb|[Hb|Hb]]; [left; exact Hb|discriminate|right; exact Hb].
      * apply (Hnext A Hgo). destruct Hb as [Hb|[Hb|Hb]]; [left; exact Hb|discriminate|right; exact Hb].
      * apply (Hnext A Hgo). destruct Hb as [Hb|[Hb|Hb]]; [left; exact Hb|discriminate|right; exact Hb].
      * apply (Hnext A Hgo). destruct Hb as [Hb|[Hb|Hb]]; [left; exact Hb|discriminate|right; exact Hb].
Qed.

Definition txids_b (U : list block) : bool :=
  let txs := flat_map b_txs U in
  forallb (fun t1 => forallb (fun t2 => implb (t_id t1 =? t_id t2)%N (tx_eqb t1 t2)) txs) txs.

Lemma txids_b_sound : forall U, txids_b U = true -> tx_ids_agree U.
Proof.
  intros U H B1 B2 t1 t2 HB1 HB2 H1 H2 Hid. unfold txids_b in H. cbv zeta in H. rewrite forallb_forall in H.
  assert (I1 : In t1 (flat_map b_txs U)) by (apply in_flat_map; exists B1; split; assumption).
  assert (I2 : In t2 (flat_map b_txs U)) by (apply in_flat_map; exists B2; split; assumption).
  specialize (H t1 I1). rewrite forallb_forall in H. specialize (H t2 I2).
  apply N.eqb_eq in Hid. rewrite Hid in H. cbn [implb] in H. apply tx_eqb_sound. exact H.
Qed.

Definition pannounced_b (h : list pevent) : bool :=
  forallb (fun e => match e with
                    | PvProcess b => existsb (fun e' => match e' with PvAttach b' => block_eqb b b' | _ => false end) h
                    | _ => true
                    end) h.

Lemma pannounced_b_sound : forall h, pannounced_b h = true -> forall b, In (PvProcess b) h -> In (PvAttach b) h.
Proof.
  intros h H b Hb. unfold pannounced_b in H. rewrite forallb_forall in H. specialize (H _ Hb). cbv beta iota in H.
  apply existsb_exists in H. destruct H as [e' [He' Heq]]. destruct e' as [sh w|b'| |b'|t|]; try discriminate.
  apply block_eqb_sound in Heq. subst b'. exact He'.
Qed.

Definition wf_phistory_b (g : block) (h : list pevent) : bool :=
  forallb wf_chain_b (nodes_of [g] h) && powners_before_paid_go [] h && ids_b (g :: pblocks_of_history h)
  && txids_b (g :: pblocks_of_history h) && pannounced_b h.

Theorem wf_phistory_b_sound : forall g h, wf_phistory_b g h = true -> wf_phistory g h.
Proof.
  intros g h H. unfold wf_phistory_b in H. rewrite !andb_true_iff in H. destruct H as ((((H1 & H2) & H3) & H4) & H5).
  constructor.
  - intros n Hn. rewrite forallb_forall in H1. apply wf_chain_b_sound. exact (H1 n Hn).
  - intros h1 sh w h2 Hh b Hb. apply (powners_before_paid_go_sound h [] H2 h1 sh w h2 Hh b). right. exact Hb.
  - apply ids_b_sound. exact H3.
  - apply txids_b_sound. exact H4.
  - apply pannounced_b_sound. exact H5.
Qed.

(* ================================================================ plain [rows_ok] is NOT an invariant *)

(* a coinbase transaction pays a staking script of the wallet; its block is reorganised away: Rollback's
   coinbase branch deletes the credit but never the deposit row, which stays behind without a credit *)
Module CbDeposit.
  Definition p : params := {| p_cbmat := 1; p_bindlock := 4294967294 |}.
  Definition g : block := {| b_id := 0; b_prev := 0; b_height := 0; b_txs := [] |}.
  Definition cbs : tx := {| t_id := 1; t_cb := true; t_ins := []; t_outs := [ {| o_sh := 1; o_val := 5; o_class := CStaking 2 |} ] |}.
  Definition cb : tx := {| t_id := 2; t_cb := true; t_ins := []; t_outs := [ {| o_sh := 1; o_val := 5; o_class := CStd |} ] |}.
  Definition b1 : block := {| b_id := 1; b_prev := 0; b_height := 1; b_txs := [cbs] |}.
  Definition b1' : block := {| b_id := 2; b_prev := 0; b_height := 1; b_txs := [cb] |}.
  Definition evs : list pevent := [PvOwner 1 1; PvAttach b1; PvProcess b1; PvDetach; PvAttach b1'; PvProcess b1'].
End CbDeposit.

Theorem rows_ok_reachable_refuted :
  exists p g evs, wf_phistory g evs /\
    let s := h_store (q_h (prun p true g evs)) in
    ~ rows_ok (credits (ps_w s)) (ps_game s) /\
    (* the row left behind and the only credit *)
    ps_game s = [mk_grow 1 false false 1 1 0] /\ map ckey (credits (ps_w s)) = [(2%N, 1, 0%N)].
Proof.
  exists CbDeposit.p, CbDeposit.g, CbDeposit.evs. split; [apply wf_phistory_b_sound; vm_compute; reflexivity|].
  cbv zeta. set (s := h_store (q_h (prun CbDeposit.p true CbDeposit.g CbDeposit.evs))).
  assert (Eg : ps_game s = [mk_grow 1 false false 1 1 0]) by (vm_compute; reflexivity).
  assert (Ec : map ckey (credits (ps_w s)) = [(2%N, 1, 0%N)]) by (vm_compute; reflexivity).
  split; [|split; assumption].
  intros R. destruct (ro_owned _ _ R (mk_grow 1 false false 1 1 0)) as [c [Hc Hk]]; [rewrite Eg; left; reflexivity|].
  apply same_key_ckey in Hk. cbn in Hk. apply (in_map ckey) in Hc. rewrite Ec, Hk in Hc.
  destruct Hc as [Hc|[]]. discriminate.
Qed.

(* ================================================================ full [rows_ok] when no coinbase transaction makes a deposit *)

Definition no_coinbase_deposit (U : list block) : Prop :=
  forall B t o, In B U -> In t (b_txs B) -> t_cb t = true -> In o (t_outs t) -> game_kind (o_class o) = None.

Lemma no_cb_row : forall U own r, no_coinbase_deposit U -> ~ cb_row U own r.
Proof.
  intros U own r H (B & t & ro & b & HB & Ht & Hcb & Hro & Hk & _).
  destruct (filter_outs_in _ _ _ _ Hro) as (j & _ & Hn & _). apply nth_error_In in Hn.
  rewrite (H B t (ro_out ro) HB Ht Hcb Hn) in Hk. discriminate.
Qed.

Theorem rows_ok_reachable :
  forall p a g h1 h2, wf_phistory g (h1 ++ h2) -> no_coinbase_deposit (g :: pblocks_of_history (h1 ++ h2)) ->
    let s := h_store (q_h (prun p a g h1)) in
    rows_ok (credits (ps_w s)) (ps_game s).
Proof.
  intros p a g h1 h2 Hwf Hno s. destruct (rows_invariant p a g h1 h2 Hwf) as (R & _). cbv zeta in R. fold s in R.
  apply (rows_wk_ok _ _ _ _ R). intros r. apply no_cb_row. exact Hno.
Qed.
