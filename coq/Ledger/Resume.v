(* Ledger/Resume.v — "a crash after any committed batch / round, then a restart, then the continuation"
   on the multi-wallet layer (Ledger/Import.v, Ledger/Remove.v), at commit granularity:
     masswallet/ntfnshandler.go : worker, asyncImport (cursor in the status record), asyncRemove
                                  (phase 1 redone by the restarted task, then the phase 2 rounds),
                                  initTaskChan (the queue rebuilt from the status records).
   Definitions only (proofs: ResumeProofs.v). *)
From Coq Require Import List ZArith NArith Bool.
Import ListNotations.
Open Scope Z_scope.
Require Import MW.Ledger.Model MW.Ledger.Spec MW.Ledger.Run MW.Ledger.Import MW.Ledger.Remove.

(* crash + reopen: the persistent fields survive, the volatile ones are lost
   (= the state [st0] of xstep's XRestart case, before Start's catch-up) *)
Definition xreopen (st : xstate) : xstate :=
  {| x_w := x_w st; x_keys := x_keys st; x_pass := x_pass st; x_status := x_status st; x_brecs := x_brecs st;
     x_balrow := x_balrow st; x_ugame := x_ugame st; x_dead := []; x_p1 := [] |}.

(* same persistent state *)
Definition peq (a b : xstate) : Prop := xreopen a = xreopen b.

(* the steps of the background task of wallet w, at commit granularity *)
Inductive sev :=
| SBatch (n : node)                    (* worker: one asyncImport batch, the node's chain being n *)
| SStep (n : node) (all : list tx)     (* worker: next commit of asyncRemove: phase 1 if not yet done in
                                          this process run, else one phase-2 round *)
| SProc (n : node) (b : block)         (* handler: the announcement of b is processed (live, or by Start's catch-up) *)
| SReopen.                             (* crash + reopen: volatile state lost *)

Definition rm_step (fx : fixes) (cap : Z) (n : node) (all : list tx) (st : xstate) (w : N) : xstate :=
  if memN w (x_p1 st) then fst (remove_round fx cap n (find_tx all) st w) else remove_phase1 st w.

Definition sstep (fx : fixes) (p : params) (B cap : Z) (w : N) (st : xstate) (e : sev) : xstate :=
  match e with
  | SBatch n => fst (import_batch fx p B n st w)
  | SStep n all => rm_step fx cap n all st w
  | SProc n b => match xprocess fx p n st b with XOk st' => st' | _ => st end
  | SReopen => xreopen st
  end.

Definition srun (fx : fixes) (p : params) (B cap : Z) (w : N) (st : xstate) (es : list sev) : xstate :=
  fold_left (sstep fx p B cap w) es st.

(* the run that never crashed: drop the crashes and, for a removal, the phase 1 that the restarted
   task redoes ([fresh] = the process has been reopened and the task has not taken a step since) *)
Fixpoint erase (fresh : bool) (es : list sev) : list sev :=
  match es with
  | [] => []
  | SReopen :: r => erase true r
  | SStep n all :: r => if fresh then erase false r else SStep n all :: erase false r
  | e :: r => e :: erase fresh r
  end.

Definition is_reopen (e : sev) : bool := match e with SReopen => true | _ => false end.
Definition is_batch (e : sev) : bool := match e with SBatch _ => true | _ => false end.
Definition is_step (e : sev) : bool := match e with SStep _ _ => true | _ => false end.
Definition is_proc (e : sev) : bool := match e with SProc _ _ => true | _ => false end.

(* initTaskChan: the queue rebuilt from the status records, in record order; true = removal task *)
Definition rebuild_queue (st : xstate) : list (N * bool) :=
  flat_map (fun e => match snd e with
                     | WRemoving => [(fst e, true)]
                     | WImporting _ => [(fst e, false)]
                     | WReady => []
                     end) (x_status st).

(* number of import batches of wallet w in a history of the event system of Remove.v *)
Definition is_xbatch (w : N) (e : xevent) : bool := match e with XBatch v => (v =? w)%N | _ => false end.
Definition count_batches (w : N) (es : list xevent) : nat := length (filter (is_xbatch w) es).
