(* Ledger/FaultProofs.v — proofs for C18 (Ledger/Fault.v). *)
From Coq Require Import List ZArith NArith Bool Lia.
Import ListNotations.
Open Scope Z_scope.
Require Import MW.Ledger.Model MW.Ledger.Spec MW.Ledger.Run MW.Ledger.Fault.

(* ---------------------------------------------------------------- 1. NewAddress *)

Section KeystoreProofs.
Variable derive : N -> nat -> N.

(* whatever call fails, the operation reports the failure and the store is unchanged *)
Lemma new_address_fault_store : forall repaired f k w,
  f <> FNone -> k_store (fst (new_address derive repaired f k w)) = k_store k /\
                snd (new_address derive repaired f k w) = None.
Proof. intros repaired f k w Hf. destruct f; [contradiction| |]; cbn; [|destruct repaired]; split; reflexivity. Qed.

(* as repaired, a failed NewAddress leaves no trace *)
Lemma new_address_fault_no_trace : forall f k w,
  k_coherent k -> f <> FNone ->
  let k' := fst (new_address derive true f k w) in
  k_store k' = k_store k /\ same_set (k_cache k') (k_cache k) /\ k_coherent k'.
Proof.
  intros f k w Hco Hf. destruct f; [contradiction| |]; cbn.
  - split; [reflexivity|split; [intros e; tauto|exact Hco]].
  - split; [reflexivity|split].
    + intros e. split; intros H; apply Hco; exact H.
    + intros e. tauto.
Qed.

(* the repeated call returns the address the fault-free call returns and ends in the same state *)
Lemma new_address_retry : forall f k w,
  k_coherent k -> f <> FNone ->
  let k1 := fst (new_address derive true f k w) in
  snd (new_address derive true FNone k1 w) = snd (new_address derive true FNone k w) /\
  k_store (fst (new_address derive true FNone k1 w)) = k_store (fst (new_address derive true FNone k w)) /\
  same_set (k_cache (fst (new_address derive true FNone k1 w))) (k_cache (fst (new_address derive true FNone k w))).
Proof.
  intros f k w Hco Hf k1.
  destruct (new_address_fault_no_trace f k w Hco Hf) as [Hs [Hc _]]. fold k1 in Hs, Hc.
  cbn. rewrite Hs. split; [reflexivity|split; [reflexivity|]].
  intros e. cbn [In]. split; intros [H|H]; [left; exact H|right; apply Hc; exact H|left; exact H|right; apply Hc; exact H].
Qed.

(* the code as found: the retry also returns the same address and reaches the same state ... *)
Lemma new_address_retry_as_found : forall f k w,
  f <> FNone ->
  let k1 := fst (new_address derive false f k w) in
  snd (new_address derive false FNone k1 w) = snd (new_address derive false FNone k w) /\
  k_store (fst (new_address derive false FNone k1 w)) = k_store (fst (new_address derive false FNone k w)) /\
  same_set (k_cache (fst (new_address derive false FNone k1 w))) (k_cache (fst (new_address derive false FNone k w))).
Proof.
  intros f k w Hf k1. destruct f; [contradiction| |]; subst k1; cbn.
  - split; [reflexivity|split; [reflexivity|intros e; tauto]].
  - split; [reflexivity|split; [reflexivity|]].
    intros e. cbn [In]. tauto.
Qed.

(* ... but between the failure and the retry the never-returned address is in the in-memory table *)
Lemma new_address_cached_trace : exists k w,
  k_coherent k /\
  let k' := fst (new_address derive false FAfterCache k w) in
  k_store k' = k_store k /\ ~ same_set (k_cache k') (k_cache k) /\
  own_of (k_cache k') (derive w 0) = Some w /\ own_of (k_cache k) (derive w 0) = None.
Proof.
  exists {| k_store := []; k_cache := [] |}, 1%N. split; [intros e; tauto|]. cbn.
  split; [reflexivity|split; [|split; [|reflexivity]]].
  - intros H. destruct (proj1 (H (derive 1%N 0%nat, 1%N)) (or_introl eq_refl)).
  - unfold own_of. cbn. rewrite N.eqb_refl. reflexivity.
Qed.

(* no skipped or duplicated address index: whatever fails and however often, the addresses
   returned are numbers i, i+1, ... of the wallet, i = the number recorded in the store *)
Lemma next_index_cons : forall st sh w, next_index ((sh, w) :: st) w = S (next_index st w).
Proof. intros st sh w. unfold next_index. cbn [filter snd]. rewrite N.eqb_refl. reflexivity. Qed.

Lemma attempts_indices : forall repaired fs k w,
  snd (attempts derive repaired fs k w) = map (derive w) (seq (next_index (k_store k) w) (successes fs)) /\
  next_index (k_store (fst (attempts derive repaired fs k w))) w = (next_index (k_store k) w + successes fs)%nat.
Proof.
  intros repaired fs. induction fs as [|f r IH]; intros k w.
  - cbn. split; [reflexivity|lia].
  - cbn [attempts].
    destruct (new_address derive repaired f k w) as [k1 res] eqn:Hna.
    destruct (attempts derive repaired r k1 w) as [k2 l] eqn:Hat.
    pose proof (IH k1 w) as [IH1 IH2]. rewrite Hat in IH1, IH2. cbn [fst snd] in *.
    destruct f.
    + cbn in Hna. inversion Hna. subst k1 res. cbn [k_store] in IH1, IH2.
      rewrite next_index_cons in IH1, IH2.
      unfold successes in *. cbn [filter length]. cbn [seq map]. rewrite IH1. split; [reflexivity|lia].
    + cbn in Hna. inversion Hna. subst k1 res. unfold successes in *. cbn [filter]. split; assumption.
    + assert (Hs : k_store k1 = k_store k /\ res = None).
      { cbn in Hna. destruct repaired; inversion Hna; split; reflexivity. }
      destruct Hs as [Hs Hr]. subst res. rewrite Hs in IH1, IH2. unfold successes in *. cbn [filter]. split; assumption.
Qed.

End KeystoreProofs.

(* ---------------------------------------------------------------- 2. block processing *)

(* as repaired: whatever call fails the store is unchanged and the repeated announcement gives
   what the announcement without fault gives *)
Lemma process_fault_keeps : forall p own n st b f,
  f <> BNone -> keep st (process_fault true p own n st b f) = st.
Proof. intros p own n st b f Hf. destruct f; [contradiction|reflexivity|reflexivity]. Qed.

Lemma announce_retry_equiv : forall p own n st b f,
  f <> BNone -> announce_retry true p own n st b f = keep st (process p true own n st b).
Proof. intros p own n st b f Hf. unfold announce_retry. rewrite (process_fault_keeps p own n st b f Hf). reflexivity. Qed.

(* ---------------------------------------------------------------- 3. removal, last round *)

Definition r0 : rstate := {| r_store := true; r_cache := true |}.

(* single faults are retried correctly by the code as found and as repaired *)
Lemma remove_single_fault : forall repaired c l,
  (c = false \/ l = false) ->
  remove_attempts repaired [(c, l); (false, false)] r0 = ({| r_store := false; r_cache := false |}, true).
Proof. intros [|] [|] [|] [H|H]; try discriminate; reflexivity. Qed.

(* the commit and the reload both fail, then storage works: as repaired the removal completes *)
Lemma remove_double_fault_repaired :
  remove_attempts true [(true, true); (false, false)] r0 = ({| r_store := false; r_cache := false |}, true).
Proof. reflexivity. Qed.

(* the code as it stands (96d76da): ANY sequence of storage failures (Commit and/or reload, any number in a
   row) followed by working storage completes the removal *)
Lemma remove_any_faults_undo : forall fs,
  remove_attempts_undo (fs ++ [(false, false)]) r0 = ({| r_store := false; r_cache := false |}, true).
Proof.
  unfold r0. induction fs as [|[c l] r IH]; [reflexivity|].
  cbn [app remove_attempts_undo]. destruct c; [|reflexivity].
  cbn. exact IH.
Qed.
