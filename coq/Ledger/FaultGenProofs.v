(* Ledger/FaultGenProofs.v — C18: the generic fault theorem over Ledger/FaultGen.v. *)
From Coq Require Import List Bool Arith Lia.
Import ListNotations.
Require Import MW.Ledger.FaultGen.

Section GenericProofs.
Variables St Vm X R E : Type.
Variable efault : E.
Notation prog := (prog St Vm X R E).
Notation oper := (oper St Vm X R E).

(* ---------------------------------------------------------------- the closure *)

Lemma exec_none_left : forall (p : prog) t m, snd (exec p None t m) = None.
Proof.
  induction p as [r|e|act k IHk h IHh|w k IHk|k IHk]; intros t m; cbn [exec predo].
  - reflexivity.
  - reflexivity.
  - destruct (act t) as [e|[t' x]]; [reflexivity|apply IHk].
  - apply IHk.
  - apply IHk.
Qed.

(* a fault inside the closure strikes exactly when the closure gets that far; a propagating closure
   then returns the injected error; a fault further on leaves the run of the closure as it is *)
Lemma exec_spec : forall p : prog, propagates efault p -> forall j t m,
  (j < calls p t m -> exists m', exec p (Some j) t m = (inl efault, m', None)) /\
  (calls p t m <= j ->
   exec p (Some j) t m = (fst (fst (exec p None t m)), snd (fst (exec p None t m)), Some (j - calls p t m))).
Proof.
  intros p Hp. induction Hp as [r|e|act k Hk IHk|w k Hk IHk|k Hk IHk]; intros j t m.
  - cbn. split; [lia|intros _; rewrite Nat.sub_0_r; reflexivity].
  - cbn. split; [lia|intros _; rewrite Nat.sub_0_r; reflexivity].
  - cbn [calls]. destruct j as [|j].
    + split; [intros _; exists m; reflexivity|lia].
    + cbn [exec predo]. destruct (act t) as [e|[t' x]].
      * split; [lia|intros _; cbn; rewrite Nat.sub_0_r; reflexivity].
      * destruct (IHk x j t' m) as [IH1 IH2]. split.
        -- intros H. apply IH1. lia.
        -- intros H. rewrite IH2 by lia. reflexivity.
  - cbn [calls exec]. apply IHk.
  - cbn [calls exec]. apply IHk.
Qed.

Lemma exec_clean_mem : forall p : prog, clean p -> forall f t m, snd (fst (exec p f t m)) = m.
Proof.
  intros p Hp. induction Hp as [r|e|act k h Hk IHk Hh IHh|k Hk IHk]; intros f t m; cbn [exec].
  - reflexivity.
  - reflexivity.
  - destruct f as [[|j]|].
    + apply IHh.
    + destruct (act t) as [e|[t' x]]; [reflexivity|apply IHk].
    + destruct (act t) as [e|[t' x]]; [reflexivity|apply IHk].
  - apply IHk.
Qed.

(* ---------------------------------------------------------------- one attempt *)

(* the attempt in which no call fails, with the flag of its repair *)
Definition quiet (o : oper) (u : bool) (s : St) (m : Vm) : St * Vm * (E + R) :=
  match fst (fst (exec (body o) None s m)) with
  | inl e => (s, undo o u s (snd (fst (exec (body o) None s m))), inl e)
  | inr (t, r) => (t, post o r (snd (fst (exec (body o) None s m))), inr r)
  end.

Lemma attempt_nofault : forall (o : oper) s m, attempt efault o NoFault s m = quiet o false s m.
Proof.
  intros o s m. unfold attempt, quiet. pose proof (exec_none_left (body o) s m) as Hl.
  destruct (exec (body o) None s m) as [[out m1] lf]. cbn [fst snd] in *. subst lf.
  destruct out as [e|[t r]]; reflexivity.
Qed.

(* a fault at one of the calls the attempt makes: failure reported, store unchanged *)
Lemma attempt_struck : forall o : oper, propagates efault (body o) -> forall k u s m,
  k < ncalls o s m -> exists m', attempt efault o (Fault k u) s m = (s, undo o u s m', inl efault).
Proof.
  intros o Hp k u s m Hk. destruct k as [|k].
  - exists m. reflexivity.
  - unfold attempt. cbn [Nat.pred fundo].
    destruct (exec_spec (body o) Hp k s m) as [H1 H2].
    destruct (Nat.lt_ge_cases k (calls (body o) s m)) as [Hlt|Hge].
    + destruct (H1 Hlt) as [m' Hm']. rewrite Hm'. exists m'. reflexivity.
    + rewrite (H2 Hge). unfold ncalls in Hk.
      destruct (fst (fst (exec (body o) None s m))) as [e|[t r]].
      * lia.
      * assert (Hz : k - calls (body o) s m = 0) by lia. rewrite Hz.
        exists (snd (fst (exec (body o) None s m))). reflexivity.
Qed.

(* a fault beyond the calls the attempt makes strikes nothing *)
Lemma attempt_missed : forall o : oper, propagates efault (body o) -> forall k u s m,
  ncalls o s m <= k -> attempt efault o (Fault k u) s m = quiet o u s m.
Proof.
  intros o Hp k u s m Hk. destruct k as [|k].
  - unfold ncalls in Hk. lia.
  - unfold attempt, quiet. cbn [Nat.pred fundo].
    destruct (exec_spec (body o) Hp k s m) as [_ H2]. unfold ncalls in Hk.
    rewrite H2 by lia.
    destruct (fst (fst (exec (body o) None s m))) as [e|[t r]] eqn:Ho.
    + reflexivity.
    + assert (Hz : exists j, k - calls (body o) s m = Datatypes.S j).
      { exists (k - calls (body o) s m - 1). lia. }
      destruct Hz as [j Hj]. rewrite Hj. reflexivity.
Qed.

(* the three possible courses of an attempt *)
Lemma attempt_cases : forall o : oper, propagates efault (body o) -> forall f s m,
  (exists m', attempt efault o f s m = (s, m', inl efault)) \/
  (exists t r m1, attempt efault o f s m = (t, post o r m1, inr r) /\
                  attempt efault o NoFault s m = (t, post o r m1, inr r)) \/
  (exists e m1, attempt efault o f s m = (s, undo o (fundo f) s m1, inl e) /\
                attempt efault o NoFault s m = (s, undo o false s m1, inl e)).
Proof.
  intros o Hp f s m.
  assert (Hq : forall u, attempt efault o f s m = quiet o u s m -> fundo f = u ->
               (exists t r m1, attempt efault o f s m = (t, post o r m1, inr r) /\
                               attempt efault o NoFault s m = (t, post o r m1, inr r)) \/
               (exists e m1, attempt efault o f s m = (s, undo o (fundo f) s m1, inl e) /\
                             attempt efault o NoFault s m = (s, undo o false s m1, inl e))).
  { intros u Hq Hu. rewrite attempt_nofault, Hq, Hu. unfold quiet.
    destruct (fst (fst (exec (body o) None s m))) as [e|[t r]].
    - right. eexists _, _. split; reflexivity.
    - left. eexists _, _, _. split; reflexivity. }
  destruct f as [|k u].
  - right. apply (Hq false); [apply attempt_nofault|reflexivity].
  - destruct (Nat.lt_ge_cases k (ncalls o s m)) as [Hlt|Hge].
    + left. destruct (attempt_struck o Hp k u s m Hlt) as [m' Hm']. eexists. exact Hm'.
    + right. apply (Hq u); [apply attempt_missed; assumption|reflexivity].
Qed.

(* ---------------------------------------------------------------- the generic theorem *)

(* For ANY operation of that shape whose closure returns every injected error, ANY state, and ANY
   fault after which the in-memory state is as before ([undone]):
   (1) a fault at one of the calls the attempt makes (BeginTx, a call of the closure, Commit) makes the
       attempt report the injected error and leaves store and memory exactly as they were;
   (2) whatever the fault, the attempt is the attempt without fault, or it failed without a trace;
   and for ANY sequence of such faults over repeated attempts
   (3) the attempts up to and including the first one that does not fail end in exactly the state,
       and return exactly the result, of the single attempt without fault. *)
Theorem fault_generic : forall (o : oper) s m, propagates efault (body o) ->
  (forall f, undone efault o s m f ->
     (forall k u, f = Fault k u -> k < ncalls o s m -> attempt efault o f s m = (s, m, inl efault)) /\
     (attempt efault o f s m = attempt efault o NoFault s m \/ exists e, attempt efault o f s m = (s, m, inl e))) /\
  (forall fs, Forall (undone efault o s m) fs -> retry efault o fs s m = attempt efault o NoFault s m).
Proof.
  intros o s m Hp.
  assert (H2 : forall f, undone efault o s m f ->
            attempt efault o f s m = attempt efault o NoFault s m \/ exists e, attempt efault o f s m = (s, m, inl e)).
  { intros f Hu. destruct (attempt_cases o Hp f s m) as [[m' H]|[[t [r [m1 [H H0]]]]|[e [m1 [H H0]]]]].
    - right. exists efault. rewrite H. rewrite (Hu _ _ _ H). reflexivity.
    - left. rewrite H, H0. reflexivity.
    - right. exists e. rewrite H. rewrite (Hu _ _ _ H). reflexivity. }
  split.
  - intros f Hu. split; [|apply H2; exact Hu].
    intros k u Hf Hk. subst f. destruct (attempt_struck o Hp k u s m Hk) as [m' Hm'].
    rewrite Hm'. rewrite (Hu _ _ _ Hm'). reflexivity.
  - intros fs Hfs. induction Hfs as [|f fs Hf _ IH].
    + reflexivity.
    + cbn [retry]. destruct (H2 f Hf) as [H|[e H]].
      * rewrite H. destruct (attempt efault o NoFault s m) as [[s1 m1] [e|r]] eqn:Ha.
        -- (* the attempt without fault fails as well: it left no trace either, by [undone f] *)
           assert (Hm : m1 = m) by (apply (Hf s1 m1 e); exact H).
           assert (Hs : s1 = s).
           { destruct (attempt_cases o Hp NoFault s m) as [[m' H']|[[t [r [m2 [H' _]]]]|[e' [m2 [H' _]]]]];
               rewrite Ha in H'; inversion H'; reflexivity. }
           subst s1 m1. rewrite IH. reflexivity.
        -- reflexivity.
      * rewrite H. exact IH.
Qed.

(* ---------------------------------------------------------------- when is a failure undone *)

(* (a) the closure does not touch memory and the repair leaves a good memory alone *)
Lemma undone_clean : forall (o : oper) s m, clean (body o) -> (forall u, undo o u s m = m) ->
  forall f, undone efault o s m f.
Proof.
  intros o s m Hc Hu f s' m' e Ha. unfold attempt in Ha.
  destruct f as [|[|k] u].
  - pose proof (exec_clean_mem (body o) Hc None s m) as Hm.
    destruct (exec (body o) None s m) as [[out m1] lf]. cbn [fst snd] in Hm. subst m1.
    destruct out as [e0|[t r]].
    + inversion Ha; subst; apply Hu.
    + destruct lf as [[|j]|]; inversion Ha; subst; apply Hu.
  - inversion Ha; subst; apply Hu.
  - cbn [Nat.pred] in Ha.
    pose proof (exec_clean_mem (body o) Hc (Some k) s m) as Hm.
    destruct (exec (body o) (Some k) s m) as [[out m1] lf]. cbn [fst snd] in Hm. subst m1.
    destruct out as [e0|[t r]].
    + inversion Ha; subst; apply Hu.
    + destruct lf as [[|j]|]; inversion Ha; subst; apply Hu.
Qed.

(* (b) the repair rebuilds the memory from the store, whatever the closure did to it: undone as
   long as the repair's own read does not fail *)
Lemma undone_reload : forall (o : oper) s m, (forall m', undo o false s m' = m) ->
  forall f, fundo f = false -> undone efault o s m f.
Proof.
  intros o s m Hr f Hf s' m' e Ha. unfold attempt in Ha.
  destruct f as [|[|k] u]; cbn [fundo] in *; try subst u.
  - destruct (exec (body o) None s m) as [[out m1] lf].
    destruct out as [e0|[t r]].
    + inversion Ha; subst; apply Hr.
    + destruct lf as [[|j]|]; inversion Ha; subst; apply Hr.
  - inversion Ha; subst; apply Hr.
  - destruct (exec (body o) (Some (Nat.pred (Datatypes.S k))) s m) as [[out m1] lf].
    destruct out as [e0|[t r]].
    + inversion Ha; subst; apply Hr.
    + destruct lf as [[|j]|]; inversion Ha; subst; apply Hr.
Qed.

(* (c) in general: the repair restores m from every memory a failing attempt can reach *)
Lemma undone_reach : forall (o : oper) s m f,
  (forall j, undo o (fundo f) s (snd (fst (exec (body o) j s m))) = m) -> undo o (fundo f) s m = m ->
  undone efault o s m f.
Proof.
  intros o s m f Hr H0 s' m' e Ha. unfold attempt in Ha.
  destruct f as [|[|k] u]; cbn [fundo] in *.
  - pose proof (Hr None) as Hm. destruct (exec (body o) None s m) as [[out m1] lf]. cbn [fst snd] in Hm.
    destruct out as [e0|[t r]].
    + inversion Ha. subst. reflexivity.
    + destruct lf as [[|j]|]; inversion Ha. subst. reflexivity.
  - inversion Ha; subst; exact H0.
  - pose proof (Hr (Some (Nat.pred (Datatypes.S k)))) as Hm.
    destruct (exec (body o) (Some (Nat.pred (Datatypes.S k))) s m) as [[out m1] lf]. cbn [fst snd] in Hm.
    destruct out as [e0|[t r]].
    + inversion Ha. subst. reflexivity.
    + destruct lf as [[|j]|]; inversion Ha; subst; reflexivity.
Qed.

(* (d) by an invariant of the memory: P holds of m, every update the closure can make preserves it, and
   the repair restores m from every memory of which P holds *)
Lemma exec_mem_inv : forall (Q : (Vm -> Vm) -> Prop) (P : Vm -> Prop) (p : prog),
  writes Q p -> (forall w m, Q w -> P m -> P (w m)) -> forall f t m, P m -> P (snd (fst (exec p f t m))).
Proof.
  intros Q P p Hw HQ. induction Hw as [r|e|act k h Hk IHk Hh IHh|w k Hq Hk IHk|k Hk IHk]; intros f t m Hm; cbn [exec].
  - exact Hm.
  - exact Hm.
  - destruct f as [[|j]|].
    + apply IHh. exact Hm.
    + destruct (act t) as [e|[t' x]]; [exact Hm|apply IHk; exact Hm].
    + destruct (act t) as [e|[t' x]]; [exact Hm|apply IHk; exact Hm].
  - apply IHk. apply HQ; assumption.
  - apply IHk. exact Hm.
Qed.

Lemma undone_inv : forall (Q : (Vm -> Vm) -> Prop) (P : Vm -> Prop) (o : oper) s m f,
  writes Q (body o) -> (forall w m', Q w -> P m' -> P (w m')) -> P m ->
  (forall m', P m' -> undo o (fundo f) s m' = m) -> undone efault o s m f.
Proof.
  intros Q P o s m f Hw HQ Hm Hu. apply undone_reach.
  - intros j. apply Hu. apply (exec_mem_inv Q P); assumption.
  - apply Hu. exact Hm.
Qed.

(* the usual case in one statement: a closure that does not touch memory, an idle repair *)
Corollary fault_generic_clean : forall (o : oper) s m,
  propagates efault (body o) -> clean (body o) -> (forall u, undo o u s m = m) ->
  (forall k u, k < ncalls o s m -> attempt efault o (Fault k u) s m = (s, m, inl efault)) /\
  (forall fs, retry efault o fs s m = attempt efault o NoFault s m).
Proof.
  intros o s m Hp Hc Hu. destruct (fault_generic o s m Hp) as [H1 H2]. split.
  - intros k u Hk. destruct (H1 (Fault k u) (undone_clean o s m Hc Hu _)) as [H _]. apply (H k u eq_refl Hk).
  - intros fs. apply H2. apply Forall_forall. intros f _. apply undone_clean; assumption.
Qed.

End GenericProofs.

(* ---------------------------------------------------------------- the usual calls *)

Section CallsProofs.
Variables St Vm X R E : Type.
Variable efault : E.

Lemma propagates_Call : forall act (k : X -> prog St Vm X R E),
  (forall x, propagates efault (k x)) -> propagates efault (Call efault act k).
Proof. intros act k H. apply PDb. exact H. Qed.
Lemma propagates_Read : forall q (k : X -> prog St Vm X R E),
  (forall x, propagates efault (k x)) -> propagates efault (Read efault q k).
Proof. intros q k H. apply PDb. exact H. Qed.
Lemma propagates_Write : forall w x0 (k : prog St Vm X R E),
  propagates efault k -> propagates efault (Write efault w x0 k).
Proof. intros w x0 k H. apply PDb. intros _. exact H. Qed.

Lemma clean_Call : forall act (k : X -> prog St Vm X R E), (forall x, clean (k x)) -> clean (Call efault act k).
Proof. intros act k H. apply CDb; [exact H|apply CRaise]. Qed.
Lemma clean_Read : forall q (k : X -> prog St Vm X R E), (forall x, clean (k x)) -> clean (Read efault q k).
Proof. intros q k H. apply clean_Call. exact H. Qed.
Lemma clean_Write : forall w x0 (k : prog St Vm X R E), clean k -> clean (Write efault w x0 k).
Proof. intros w x0 k H. apply clean_Call. intros _. exact H. Qed.

(* the run without fault *)
Lemma exec_Call : forall act (k : X -> prog St Vm X R E) t m,
  exec (Call efault act k) None t m =
  match act t with inl e => (inl e, m, None) | inr (t', x) => exec (k x) None t' m end.
Proof. reflexivity. Qed.
Lemma exec_Read : forall q (k : X -> prog St Vm X R E) t m,
  exec (Read efault q k) None t m =
  match q t with inl e => (inl e, m, None) | inr x => exec (k x) None t m end.
Proof. intros q k t m. unfold Read. rewrite exec_Call. destruct (q t); reflexivity. Qed.
Lemma exec_Write : forall w x0 (k : prog St Vm X R E) t m,
  exec (Write efault w x0 k) None t m =
  match w t with inl e => (inl e, m, None) | inr t' => exec k None t' m end.
Proof. intros w x0 k t m. unfold Write. rewrite exec_Call. destruct (w t); reflexivity. Qed.

End CallsProofs.

(* ---------------------------------------------------------------- histories *)

(* a run of ANY history of operations (of any kinds) and environment steps in which any attempt of
   any operation may fail at any call, any number of times, ends in the state of the run without
   faults, provided every operation is of the above shape in the states it is run in ([inv]: a
   property of the state the fault-free steps preserve) *)
Definition hev_ok {St Vm : Type} (inv : St -> Vm -> Prop) (e : hev St Vm) : Prop :=
  match e with
  | HEnv g => forall s m, inv s m -> inv (fst (g s m)) (snd (g s m))
  | HOp X R E efault o fs =>
      propagates efault (body o) /\
      forall s m, inv s m -> Forall (undone efault o s m) fs /\
                             inv (fst (fst (attempt efault o NoFault s m))) (snd (fst (attempt efault o NoFault s m)))
  end.

Theorem fault_history_generic : forall (St Vm : Type) (inv : St -> Vm -> Prop) (h : list (hev St Vm)),
  (forall e, In e h -> hev_ok inv e) ->
  forall s m, inv s m -> hrun h s m = hrun (map strip h) s m.
Proof.
  intros St Vm inv h. unfold hrun.
  induction h as [|e h IH]; intros Hall s m Hinv.
  - reflexivity.
  - cbn [map fold_left].
    assert (He := Hall e (or_introl eq_refl)).
    assert (Hall' : forall e0, In e0 h -> hev_ok inv e0).
    { intros e0 H0. apply Hall. right. exact H0. }
    destruct e as [g|X R E efault o fs].
    + cbn [hstep strip fst snd]. cbn [hev_ok] in He. specialize (He s m Hinv).
      destruct (g s m) as [s1 m1]. apply IH; assumption.
    + cbn [hstep strip fst snd]. cbn [hev_ok] in He. destruct He as [Hp He]. destruct (He s m Hinv) as [Hu Hi].
      destruct (fault_generic St Vm X R E efault o s m Hp) as [_ Hr]. rewrite (Hr fs Hu). cbn [retry].
      destruct (attempt efault o NoFault s m) as [[s1 m1] r]. cbn [fst snd] in *. apply IH; assumption.
Qed.
