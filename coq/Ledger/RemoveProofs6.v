(* Ledger/RemoveProofs6.v — C08, part 6: histories.  [XInv] holds after every event of a well-formed
   multi-wallet history (wallets created and followed live, any number of removals at any moments,
   removal rounds interleaved with blocks and reorganisations):
   the node's chain is well formed; the store satisfies [StInv]; the ready wallets' credits represent
   ([XRep]) a chain [c1 ++ c2] where [c1] is a prefix of the node's best chain and [c2] consists of
   blocks the node has disconnected.
   Environment assumptions ([wf_xhistory]): the node's chain is well formed after every event; a block
   is connected to the best chain at most once (a disconnected block never comes back — see
   Properties/C08.v for the history that shows this is needed); a transaction id names one
   transaction; no block's id is the genesis block's previous-hash field; a script hash is issued once,
   before any block pays it; only connected blocks are announced; no keystore import runs (C07).
   Restarts (volatile state lost, catch-up with the node) are events like the others. *)
From Coq Require Import List ZArith NArith Bool Lia.
Import ListNotations.
Open Scope Z_scope.
Require Import MW.Ledger.Model MW.Ledger.Spec MW.Ledger.Run MW.Ledger.WF MW.Ledger.Import MW.Ledger.Remove.
Require Import MW.Ledger.Proofs MW.Ledger.Proofs2 MW.Ledger.Proofs3 MW.Ledger.Proofs4 MW.Ledger.Proofs6.
Require Import MW.Ledger.RemoveProofs MW.Ledger.RemoveProofs2 MW.Ledger.RemoveProofs3 MW.Ledger.RemoveProofs4
               MW.Ledger.RemoveProofs5.

(* ---------------------------------------------------------------- well-formed histories *)

Fixpoint xsims (fx : fixes) (p : params) (B cap : Z) (s : xsim) (h : list xevent) : list xsim :=
  match h with
  | [] => [s]
  | e :: r => s :: xsims fx p B cap (xstep fx p B cap s e) r
  end.

(* [A]: the blocks attached so far (without the genesis [g]); [S]: the script hashes issued so far *)
Fixpoint xfresh (g : block) (A : list block) (S : list N) (h : list xevent) : Prop :=
  match h with
  | [] => True
  | XAttach b :: r =>
      ~ In (b_id b) (map b_id (g :: A)) /\ b_id b <> b_prev g /\
      (forall t t', In t (b_txs b) -> In t' (chain_txs (g :: A)) -> t_id t = t_id t' -> t = t') /\
      xfresh g (A ++ [b]) S r
  | XProcess b :: r => In b A /\ xfresh g A S r
  | XNewAddr sh w :: r => ~ In sh S /\ (forall b, In b A -> ~ pays b sh) /\ xfresh g A (S ++ [sh]) r
  | XImportStart _ _ _ :: _ => False
  | XBatch _ :: _ => False
  | _ :: r => xfresh g A S r
  end.

Record wf_xhistory (fx : fixes) (p : params) (B cap : Z) (g : block) (h : list xevent) : Prop := {
  wx_chain : forall s, In s (xsims fx p B cap (xinit_sim [g]) h) -> wf_chain (xs_node s);
  wx_fresh : xfresh g [] [] h
}.

Lemma xsims_head : forall fx p B cap s h, In s (xsims fx p B cap s h).
Proof. intros. destruct h; left; reflexivity. Qed.

(* ---------------------------------------------------------------- the invariant *)

Section XHistory.
Variable fx : fixes.
Hypothesis Hfx_rm : f_removable fx = true.
Hypothesis Hfx_rb : f_rollback fx = true.
Hypothesis Hfx_ro : f_rollback_order fx = true.
Variable p : params.
Variables B cap : Z.
Variable g : block.

(* the part of the invariant that speaks about the store *)
Definition Good (n D U : list block) (S : list N) (st : xstate) : Prop :=
  StInv U S st /\
  exists c1 c2 n2 f, n = c1 ++ n2 /\ c1 <> [] /\ incl c2 D /\ wf_chain (c1 ++ c2) /\ incl (c1 ++ c2) U /\
                     XRep p st c1 c2 f.

Record XInv (A D : list block) (S : list N) (s : xsim) : Prop := {
  xi_nocrash : xs_crashed s = false;
  xi_all : xs_all s = chain_txs (g :: A);
  xi_ids : NoDup (map b_id (g :: A));
  xi_txs : GU (g :: A);
  xi_g : b_txs g = [];
  xi_gprev : forall b, In b A -> b_id b <> b_prev g;
  xi_wfn : wf_chain (xs_node s);
  xi_gn : from_g g (xs_node s);
  xi_nU : incl (xs_node s) (g :: A);
  xi_DU : incl D (g :: A);
  xi_nD : forall z, In z (xs_node s) -> ~ In z D;
  xi_good : Good (xs_node s) D (g :: A) S (xs_st s)
}.

Lemma ids_inj : forall U, NoDup (map b_id U) -> forall b1 b2, In b1 U -> In b2 U -> b_id b1 = b_id b2 -> b1 = b2.
Proof. intros U H b1 b2 H1 H2 Hid. apply (NoDup_map_inj_in _ _ b_id U); assumption. Qed.

Lemma StInv_mono : forall U U' S st, incl U U' -> StInv U S st -> StInv U' S st.
Proof.
  intros U U' S st HU [H1 H2 H3 H4 H5 H6]. constructor; try assumption.
  intros cr Hcr. apply (credit_sound_mono U U'); [assumption|apply H3; assumption].
Qed.

Lemma NoDup_snoc : forall (A : Type) (l : list A) x, NoDup l -> ~ In x l -> NoDup (l ++ [x]).
Proof.
  intros A l x Hnd Hx. apply NoDup_app_intro; [assumption|constructor; [intros []|constructor]|].
  intros y Hy [Hy'|[]]. subst y. contradiction.
Qed.

Lemma Good_process : forall n D U S st b st',
  NoDup (map b_id U) -> GU U -> wf_chain n -> from_g g n -> incl n U -> (forall z, In z n -> ~ In z D) ->
  Good n D U S st -> In b U -> b <> g -> xprocess fx p n st b = XOk st' -> Good n D U S st'.
Proof.
  intros n D U S st b st' Hids Htxs Hwfn Hgn HnU HnD [HS [c1 [c2 [n2 [f [Hn [Hc1 [Hc2 [Hwfc [HcU HR]]]]]]]]]] HbU Hbg Hp.
  destruct (xprocess_ok_inv fx Hfx_rb Hfx_ro p g U S (ids_inj U Hids) Htxs n D st c1 c2 n2 f b st'
              HS Hwfn Hgn HnU HnD Hn Hc1 Hc2 Hwfc HcU HR HbU Hbg Hp)
    as [c1' [c2' [n2' [f' [H1 [H2 [H3 [H4 [H5 [H6 [H7 _]]]]]]]]]]].
  split; [assumption|]. exists c1', c2', n2', f'. tauto.
Qed.

Lemma in_attached_not_g : forall A b, NoDup (map b_id (g :: A)) -> In b A -> b <> g.
Proof.
  intros A b Hnd Hb Heq. subst b. cbn [map] in Hnd. inversion Hnd as [|? ? Hnotin _]. apply Hnotin. apply in_map. assumption.
Qed.

(* ------------------------------------------------------------ restart: catch-up with the node *)

Lemma Good_tip_height : forall n D U S st, Good n D U S st -> 0 <= fst (tip (x_w st)).
Proof.
  intros n D U S st [_ [c1 [c2 [n2 [f [_ [_ [_ [Hwfc [_ [Hsy _]]]]]]]]]]].
  rewrite (tip_synced (x_w st) (L p (fun _ => None) (c1 ++ c2)) Hsy).
  rewrite (tip_height_L p _ _ Hwfc). unfold chain_height.
  pose proof (wf_nonempty _ Hwfc). destruct (c1 ++ c2); [contradiction|]. cbn [length]. lia.
Qed.

Lemma genesis_height : forall n, wf_chain n -> from_g g n -> b_height g = 0.
Proof.
  intros n Hwf [n' Hn]. destruct (wf_genesis _ Hwf) as [g' [rest [Hc [Hh _]]]]. rewrite Hn in Hc. inversion Hc. subst. assumption.
Qed.

Lemma catchup_good : forall n D U S fuel st st',
  NoDup (map b_id U) -> GU U -> wf_chain n -> from_g g n -> incl n U -> (forall z, In z n -> ~ In z D) ->
  Good n D U S st -> catchup fx p n st fuel = XOk st' -> Good n D U S st'.
Proof.
  intros n D U S fuel. induction fuel as [|k IH]; intros st st' Hids Htxs Hwfn Hgn HnU HnD HG H.
  - inversion H. subst. assumption.
  - cbn [catchup] in H. destruct (node_at n (fst (tip (x_w st)) + 1)) as [b|] eqn:Hat; [|inversion H; subst; assumption].
    destruct (xprocess fx p n st b) as [st1| |] eqn:Hp; try discriminate.
    apply (IH st1 st'); try assumption.
    unfold node_at in Hat. apply find_some in Hat. destruct Hat as [Hbn Hbh]. apply Z.eqb_eq in Hbh.
    apply (Good_process n D U S st b st1); try assumption.
    + apply HnU. assumption.
    + intros Heq. subst b. rewrite (genesis_height n Hwfn Hgn) in Hbh. pose proof (Good_tip_height _ _ _ _ _ HG). lia.
Qed.

(* the genesis block goes through processConnectedBlock (a node whose chain has shrunk to the
   genesis): the store is rolled back to it *)
Lemma Good_process_genesis : forall n D U S st st',
  NoDup (map b_id U) -> GU U -> wf_chain n -> from_g g n -> incl n U ->
  (forall b, In b U -> b <> g -> b_id b <> b_prev g) ->
  Good n D U S st -> snd (tip (x_w st)) <> b_id g -> xprocess fx p n st g = XOk st' -> Good n D U S st'.
Proof.
  intros n D U S st st' Hids Htxs Hwfn Hgn HnU Hgprev [HS [c1 [c2 [n2 [f [Hn [Hc1 [Hc2 [Hwfc [HcU HR]]]]]]]]]] Htip Hp.
  set (c := c1 ++ c2) in *. set (own0 := fun _ : N => @None N).
  assert (Hsy : synced (x_w st) = synced (L p own0 c)) by (destruct HR as [Hsy _]; exact Hsy).
  destruct (wf_linked _ Hwfc) as [pvc Hlc].
  assert (Hc1g : exists r1, c1 = g :: r1).
  { destruct Hgn as [n' Hgn]. destruct c1 as [|z r1]; [contradiction|]. rewrite Hgn in Hn. inversion Hn. exists r1. reflexivity. }
  destruct Hc1g as [r1 Hc1g].
  assert (Hgc : In g c). { unfold c. rewrite Hc1g. left. reflexivity. }
  (* the tip of the store is a block other than the genesis *)
  destruct (exists_last (wf_nonempty _ Hwfc)) as [cpre [y Hc]].
  assert (Hty : snd (tip (x_w st)) = b_id y).
  { rewrite (tip_synced _ _ Hsy). rewrite Hc, tip_L_snoc. reflexivity. }
  assert (Hyc : In y c). { rewrite Hc. apply in_or_app. right. left. reflexivity. }
  assert (Hyg : y <> g). { intros ->. apply Htip. assumption. }
  unfold xprocess in Hp. rewrite Hty in Hp.
  destruct (b_id y =? b_prev g)%N eqn:E.
  { exfalso. apply N.eqb_eq in E. apply (Hgprev y (HcU y Hyc) Hyg E). }
  rewrite (collect_synced n _ _ _ _ _ Hsy) in Hp. cbn [collect] in Hp.
  fold (matched (L p own0 c) g) in Hp. rewrite (in_matched p own0 c g pvc 0 Hlc Hgc) in Hp.
  destruct (xrollback fx st (b_height g + 1)) as [st1| |] eqn:Hrb; try discriminate.
  cbn [xconnect_all] in Hp. inversion Hp. subst st1. clear Hp.
  assert (Hcs : c1 ++ c2 = [g] ++ (r1 ++ c2)). { rewrite Hc1g. reflexivity. }
  assert (Hh : (forall z, In z [g] -> b_height z < b_height g + 1) /\ (forall z, In z (r1 ++ c2) -> b_height g + 1 <= b_height z)).
  { fold c in Hcs. rewrite Hcs in Hlc. destruct (linked_heights_split _ _ _ Hlc) as [Ha Hb]. cbn [length] in Ha, Hb.
    pose proof (genesis_height n Hwfn Hgn) as Hg0. rewrite Hg0. split; assumption. }
  destruct Hh as [Hh1 Hh2].
  destruct (xrollback_ok fx Hfx_rb Hfx_ro p U S st c1 c2 f [g] (r1 ++ c2) (b_height g + 1) [g] [] r1 HS HR Hcs Hh1 Hh2)
    as [st1 [Hrb1 [HR1 [HS1 _]]]]; [reflexivity|rewrite Hc1g; reflexivity|].
  rewrite Hrb in Hrb1. inversion Hrb1. subst st1.
  split; [assumption|]. exists [g], [], (r1 ++ n2), (rb_marks (x_brecs st) (b_height g + 1) f).
  split; [rewrite Hn, Hc1g; reflexivity|]. split; [discriminate|]. split; [intros z []|].
  split; [fold c in Hcs; rewrite Hcs in Hwfc; apply (wf_chain_prefix _ _ Hwfc); discriminate|].
  split; [intros z [Hz|[]]; subst z; apply HcU; assumption|exact HR1].
Qed.

Lemma catchup_no_panic : forall n fuel st, catchup fx p n st fuel <> XPanic.
Proof.
  intros n fuel. induction fuel as [|k IH]; intros st; [discriminate|].
  cbn [catchup]. destruct (node_at n (fst (tip (x_w st)) + 1)) as [b|]; [|discriminate].
  destruct (xprocess fx p n st b) as [st1| |] eqn:Hp; [apply IH|discriminate|].
  exfalso. destruct (xprocess_repaired_safe fx p n st b Hfx_rb) as [Hnp _]. contradiction.
Qed.

Lemma start_sync_good : forall n D U S st,
  NoDup (map b_id U) -> GU U -> wf_chain n -> from_g g n -> incl n U -> (forall z, In z n -> ~ In z D) ->
  (forall b, In b U -> b <> g -> b_id b <> b_prev g) ->
  Good n D U S st ->
  start_sync fx p n st <> XPanic /\ forall st', start_sync fx p n st = XOk st' -> Good n D U S st'.
Proof.
  intros n D U S st Hids Htxs Hwfn Hgn HnU HnD Hgprev HG. unfold start_sync.
  destruct (catchup fx p n st (length n)) as [st1| |] eqn:Hc.
  - pose proof (catchup_good n D U S _ st st1 Hids Htxs Hwfn Hgn HnU HnD HG Hc) as HG1.
    destruct (f_start_reorg fx && (Z.of_nat (length n) - 1 <=? fst (tip (x_w st)))); [|split; [discriminate|intros st' H; inversion H; subst; assumption]].
    destruct (node_at n (Z.of_nat (length n) - 1)) as [b|] eqn:Hat; [|split; [discriminate|intros st' H; inversion H; subst; assumption]].
    destruct (b_id b =? snd (tip (x_w st1)))%N eqn:E; [split; [discriminate|intros st' H; inversion H; subst; assumption]|].
    split; [destruct (xprocess_repaired_safe fx p n st1 b Hfx_rb) as [Hnp _]; exact Hnp|].
    intros st' Hp. unfold node_at in Hat. apply find_some in Hat. destruct Hat as [Hbn _].
    destruct (N.eq_dec (b_id b) (b_id g)) as [Hid|Hid].
    + assert (b = g). { apply (ids_inj U Hids); [apply HnU; assumption| |assumption]. apply HnU. destruct Hgn as [n' Hgn]. rewrite Hgn. left. reflexivity. }
      subst b. apply (Good_process_genesis n D U S st1 st'); try assumption.
      apply N.eqb_neq in E. congruence.
    + apply (Good_process n D U S st1 b st'); try assumption; [apply HnU; assumption|congruence].
  - split; [discriminate|intros; discriminate].
  - exfalso. apply (catchup_no_panic _ _ _ Hc).
Qed.

(* one event *)
Lemma XInv_step : forall A D S s e r,
  XInv A D S s -> xfresh g A S (e :: r) -> wf_chain (xs_node (xstep fx p B cap s e)) ->
  exists A' D' S', XInv A' D' S' (xstep fx p B cap s e) /\ xfresh g A' S' r.
Proof.
  intros A D S s e r HI Hfr Hwf'.
  destruct HI as [Hnc Hall Hids Htxs Hgt Hgp Hwfn Hgn HnU HDU HnD Hgood].
  set (U := g :: A) in *.
  destruct e as [b| |b|w pass|sh w|w pass shs|w|w pass|w|w|]; cbn [xfresh] in Hfr; try contradiction.
  - (* attach *)
    destruct Hfr as [Hnew [Hbgp [Hcross Hfr]]]. exists (A ++ [b]), D, S. split; [|assumption].
    cbn [xstep xs_node] in Hwf'.
    assert (HU' : g :: A ++ [b] = U ++ [b]) by reflexivity.
    assert (HbU : ~ In b U). { intros Hin. apply Hnew. apply in_map. assumption. }
    constructor; cbn [xstep xs_node xs_st xs_all xs_crashed]; rewrite ?HU'.
    + assumption.
    + rewrite Hall, chain_txs_app. cbn. rewrite app_nil_r. reflexivity.
    + rewrite map_app. cbn [map]. apply NoDup_snoc; assumption.
    + assert (Hbnd : NoDup (map t_id (b_txs b))).
      { pose proof (wf_txids _ Hwf') as H. rewrite chain_txs_app, map_app in H. apply NoDup_app_inv in H.
        destruct H as [_ [H _]]. cbn in H. rewrite app_nil_r in H. exact H. }
      intros t t' Ht Ht' Hid. rewrite chain_txs_app in Ht, Ht'. cbn in Ht, Ht'. rewrite app_nil_r in Ht, Ht'.
      apply in_app_or in Ht. apply in_app_or in Ht'. destruct Ht as [Ht|Ht]; destruct Ht' as [Ht'|Ht'].
      * apply Htxs; assumption.
      * symmetry. apply Hcross; [assumption|assumption|symmetry; assumption].
      * apply Hcross; assumption.
      * apply (NoDup_map_inj_in _ _ t_id (b_txs b)); assumption.
    + assumption.
    + intros b' Hb'. apply in_app_or in Hb'. destruct Hb' as [Hb'|[Hb'|[]]]; [apply Hgp; assumption|subst b'; assumption].
    + assumption.
    + destruct Hgn as [n' Hn]. exists (n' ++ [b]). rewrite Hn. reflexivity.
    + apply incl_app; [apply incl_appl; assumption|apply incl_appr; apply incl_refl].
    + apply incl_appl. assumption.
    + intros z Hz Hd. apply in_app_or in Hz. destruct Hz as [Hz|[Hz|[]]]; [apply (HnD z Hz Hd)|].
      subst z. apply HbU. apply HDU. assumption.
    + destruct Hgood as [HS [c1 [c2 [n2 [f [Hn [Hc1 [Hc2 [Hwfc [HcU HR]]]]]]]]]]. split.
      * apply (StInv_mono U (U ++ [b])); [apply incl_appl; apply incl_refl|assumption].
      * exists c1, c2, (n2 ++ [b]), f. split; [rewrite Hn, <- app_assoc; reflexivity|].
        split; [assumption|split; [assumption|split; [assumption|split; [apply incl_appl; assumption|assumption]]]].
  - (* detach *)
    cbn [xstep xs_node] in Hwf'.
    set (n := xs_node s) in *.
    assert (Hnne : n <> []) by (apply wf_nonempty; assumption).
    assert (Hn'ne : removelast n <> []) by (apply wf_nonempty; assumption).
    set (x := last n g).
    assert (Hnx : n = removelast n ++ [x]) by (apply app_removelast_last; assumption).
    exists A, (x :: D), S. split; [|assumption].
    assert (Hxn : In x n). { rewrite Hnx. apply in_or_app. right. left. reflexivity. }
    assert (Hx_notin : ~ In x (removelast n)).
    { pose proof (wf_chain_nodup _ Hwfn) as Hnd. rewrite Hnx in Hnd. apply NoDup_app_inv in Hnd.
      destruct Hnd as [_ [_ Hd]]. intros Hin. apply (Hd x Hin). left. reflexivity. }
    constructor; cbn [xstep xs_node xs_st xs_all xs_crashed]; fold n; try assumption.
    + destruct Hgn as [n' Hn]. fold n in Hn. rewrite Hn in *. destruct n' as [|z n'].
      * exfalso. apply Hn'ne. reflexivity.
      * exists (removelast (z :: n')). reflexivity.
    + intros z Hz. apply HnU. apply removelast_in. assumption.
    + intros z [Hz|Hz]; [subst z; apply HnU; assumption|apply HDU; assumption].
    + intros z Hz [Hd|Hd]; [subst z; contradiction|]. apply (HnD z (removelast_in _ _ _ Hz) Hd).
    + destruct Hgood as [HS [c1 [c2 [n2 [f [Hn [Hc1 [Hc2 [Hwfc [HcU HR]]]]]]]]]]. split; [assumption|].
      destruct (exists_last Hn'ne) as [m [y Hm]].
      destruct n2 as [|z n2'] using rev_ind.
      * (* the disconnected block was the last one the wallet shares with the node *)
        rewrite app_nil_r in Hn. exists (removelast n), (x :: c2), [], f.
        assert (Hc1x : c1 = removelast n ++ [x]) by (rewrite <- Hn; exact Hnx).
        split; [rewrite app_nil_r; reflexivity|]. split; [assumption|].
        split; [intros z [Hz|Hz]; [left; assumption|right; apply Hc2; assumption]|].
        assert (Heq : removelast n ++ x :: c2 = c1 ++ c2). { rewrite Hc1x, <- app_assoc. reflexivity. }
        rewrite Heq. split; [assumption|split; [assumption|]].
        destruct HR as [Hsy HR]. split; [rewrite Heq; assumption|].
        rewrite Hc1x in HR. apply (Rep_shrink p _ _ _ _ _ [x] c2 f HR).
      * clear IHn2'. exists c1, c2, n2', f.
        assert (Heq : removelast n = c1 ++ n2').
        { rewrite app_assoc in Hn. rewrite Hnx in Hn. apply app_inj_tail in Hn. tauto. }
        split; [assumption|split; [assumption|]].
        split; [intros z' Hz'; right; apply Hc2; assumption|tauto].
  - (* process *)
    destruct Hfr as [HbA Hfr]. exists A, D, S. split; [|assumption].
    cbn [xstep]. rewrite Hnc.
    destruct (xprocess fx p (xs_node s) (xs_st s) b) as [st'| |] eqn:Hp.
    + constructor; cbn [with_st xs_node xs_st xs_all xs_crashed]; try assumption.
      apply (Good_process (xs_node s) D U S (xs_st s) b st'); try assumption.
      * right. assumption.
      * apply (in_attached_not_g A); assumption.
    + constructor; assumption.
    + exfalso. destruct (xprocess_repaired_safe fx p (xs_node s) (xs_st s) b Hfx_rb) as [Hnp _]. contradiction.
  - (* create wallet *)
    exists A, D, S. split; [|assumption]. cbn [xstep].
    destruct (new_wallet (xs_st s) w pass) as [st'|] eqn:Hnw; [|constructor; assumption].
    destruct Hgood as [HS [c1 [c2 [n2 [f [Hn [Hc1 [Hc2 [Hwfc [HcU HR]]]]]]]]]].
    destruct (new_wallet_keeps p U S _ _ _ _ c1 c2 f HS HR Hnw) as [HS' HR'].
    constructor; cbn [with_st xs_node xs_st xs_all xs_crashed]; try assumption.
    split; [assumption|]. exists c1, c2, n2, f. tauto.
  - (* new address *)
    destruct Hfr as [Hsh [Hunpaid Hfr]]. exists A, D, (S ++ [sh]). split; [|assumption]. cbn [xstep].
    destruct Hgood as [HS [c1 [c2 [n2 [f [Hn [Hc1 [Hc2 [Hwfc [HcU HR]]]]]]]]]].
    destruct (new_address_keeps p U S (xs_st s) sh w c1 c2 f HS HR HcU Hsh) as [HS' HR'].
    { intros b [Hb|Hb]; [|apply Hunpaid; assumption]. subst b. intros [t [o [Ht _]]]. rewrite Hgt in Ht. destruct Ht. }
    constructor; cbn [with_st xs_node xs_st xs_all xs_crashed]; try assumption.
    split; [assumption|]. exists c1, c2, n2, f. tauto.
  - (* removal request *)
    exists A, D, S. split; [|assumption]. cbn [xstep].
    destruct Hgood as [HS [c1 [c2 [n2 [f [Hn [Hc1 [Hc2 [Hwfc [HcU HR]]]]]]]]]].
    destruct (request_keeps p U S (xs_st s) w pass c1 c2 f HS HR) as [HS' HR'].
    constructor; cbn [with_st xs_node xs_st xs_all xs_crashed]; try assumption.
    split; [assumption|]. exists c1, c2, n2, f. tauto.
  - (* phase 1 *)
    exists A, D, S. split; [|assumption]. cbn [xstep].
    destruct Hgood as [HS [c1 [c2 [n2 [f [Hn [Hc1 [Hc2 [Hwfc [HcU HR]]]]]]]]]].
    destruct (phase1_keeps p U S (xs_st s) w c1 c2 f HS HR) as [HS' HR'].
    constructor; cbn [with_st xs_node xs_st xs_all xs_crashed]; try assumption.
    split; [assumption|]. exists c1, c2, n2, f. tauto.
  - (* a phase 2 round *)
    exists A, D, S. split; [|assumption]. cbn [xstep].
    destruct Hgood as [HS [c1 [c2 [n2 [f [Hn [Hc1 [Hc2 [Hwfc [HcU HR]]]]]]]]]].
    rewrite Hall. fold U.
    destruct (round_keeps fx Hfx_rm p U S Htxs cap (xs_node s) (xs_st s) w c1 c2 n2 f HS HR Hwfn HnU Hn HcU) as [HS' HR'].
    constructor; cbn [with_st xs_node xs_st xs_all xs_crashed]; try assumption.
    split; [assumption|]. exists c1, c2, n2, f. tauto.
  - (* restart *)
    exists A, D, S. split; [|assumption]. cbn [xstep].
    set (st0 := {| x_w := x_w (xs_st s); x_keys := x_keys (xs_st s); x_pass := x_pass (xs_st s);
                   x_status := x_status (xs_st s); x_brecs := x_brecs (xs_st s); x_balrow := x_balrow (xs_st s);
                   x_ugame := x_ugame (xs_st s); x_dead := []; x_p1 := [] |}).
    assert (HG0 : Good (xs_node s) D U S st0).
    { destruct Hgood as [HS [c1 [c2 [n2 [f [Hn [Hc1 [Hc2 [Hwfc [HcU HR]]]]]]]]]]. split.
      - destruct HS as [K1 K2 K3 K4 K5 K6]. constructor; try assumption. intros w Hw. discriminate.
      - exists c1, c2, n2, f. split; [assumption|split; [assumption|split; [assumption|split; [assumption|split; [assumption|]]]]].
        destruct HR as [Hsy HR]. split; [exact Hsy|].
        rewrite (ready_own_eq (xs_st s) st0 eq_refl eq_refl), (is_ready_eq (xs_st s) st0 eq_refl). exact HR. }
    assert (Hgprev : forall b, In b U -> b <> g -> b_id b <> b_prev g).
    { intros b [Hb|Hb] Hne; [congruence|apply Hgp; assumption]. }
    destruct (start_sync_good (xs_node s) D U S st0 Hids Htxs Hwfn Hgn HnU HnD Hgprev HG0) as [Hnp Hok].
    destruct (start_sync fx p (xs_node s) st0) as [st'| |] eqn:Hss.
    + constructor; cbn [xs_node xs_st xs_all xs_crashed]; try assumption; [reflexivity|apply Hok; reflexivity].
    + constructor; cbn [xs_node xs_st xs_all xs_crashed]; try assumption. reflexivity.
    + contradiction.
Qed.

(* every prefix of a well-formed history *)
Lemma XInv_run : forall h r A D S s,
  XInv A D S s -> xfresh g A S (h ++ r) ->
  (forall s', In s' (xsims fx p B cap s h) -> wf_chain (xs_node s')) ->
  exists A' D' S', XInv A' D' S' (fold_left (xstep fx p B cap) h s) /\ xfresh g A' S' r.
Proof.
  induction h as [|e h IH]; intros r A D S s HI Hfr Hsims.
  - exists A, D, S. split; assumption.
  - cbn [fold_left]. cbn [app] in Hfr.
    destruct (XInv_step A D S s e (h ++ r) HI Hfr) as [A1 [D1 [S1 [HI1 Hfr1]]]].
    + apply Hsims. cbn [xsims]. right. apply xsims_head.
    + apply (IH r A1 D1 S1 _ HI1 Hfr1). intros s' Hs'. apply Hsims. cbn [xsims]. right. assumption.
Qed.

Lemma XInv_init : wf_chain [g] -> XInv [] [] [] (xinit_sim [g]).
Proof.
  intros Hwf. destruct (wf_genesis _ Hwf) as [g' [rest [Hc [Hh [Htx _]]]]]. inversion Hc. subst g' rest. clear Hc.
  assert (Hct : chain_txs [g] = []). { unfold chain_txs. cbn. rewrite Htx. reflexivity. }
  constructor; cbn [xinit_sim xs_node xs_st xs_all xs_crashed].
  - reflexivity.
  - reflexivity.
  - cbn. constructor; [intros []|constructor].
  - intros t t' Ht. rewrite Hct in Ht. destruct Ht.
  - assumption.
  - intros b [].
  - assumption.
  - exists []. reflexivity.
  - apply incl_refl.
  - apply incl_nil_l.
  - intros z _ [].
  - split.
    + constructor; cbn [xinit x_w credits x_keys x_status x_p1].
      * intros cr [].
      * constructor.
      * intros cr [].
      * intros w k [].
      * intros w Hw. discriminate.
      * apply incl_nil_l.
    + exists [g], [], [], (fun _ => None). rewrite app_nil_r.
      split; [reflexivity|split; [discriminate|split; [apply incl_nil_l|split; [assumption|split; [apply incl_refl|]]]]].
      split; [reflexivity|].
      assert (Hcoins : forall own, coins_l own (ptxs [g]) = []).
      { intros own. unfold ptxs, ptxs_of_block. cbn. rewrite Htx. reflexivity. }
      constructor; rewrite ?app_nil_r, ?Hcoins; cbn [xinit x_w credits x_brecs].
      * reflexivity.
      * intros k [].
      * intros k [].
      * intros k a i hs [].
Qed.

(* ------------------------------------------------------------ reports at quiescent points *)

Lemma proj_kept : forall keepw v cs, keepw v = true -> proj v (kept keepw cs) = proj v cs.
Proof.
  intros keepw v cs Hv. unfold proj, kept. apply filter_filter_sub. intros c _ Hc. apply N.eqb_eq in Hc.
  unfold keepc. rewrite Hc. assumption.
Qed.

Lemma exact_report : forall st n f v,
  wf_chain n -> XRep p st n [] f -> status_of st v = Some WReady ->
  xreport st v = spec_report p (key_owner st) n v.
Proof.
  intros st n f v Hwf [Hsy HR] Hv. rewrite app_nil_r in Hsy.
  assert (Hrd : is_ready st v = true). { unfold is_ready. rewrite Hv. reflexivity. }
  pose proof (Rep_exact p _ _ _ _ _ _ HR) as Hex.
  unfold xreport.
  rewrite (report_depends_on_proj (x_w st) (L p (ready_own st) n) v).
  - rewrite (report_L p (ready_own st) n v Hwf). apply spec_report_wallet_ext.
    intros sh. split; intros H.
    + apply ready_own_some in H. tauto.
    + apply ready_own_intro; assumption.
  - cbn [L credits]. rewrite <- Hex. symmetry. apply proj_kept. assumption.
  - exact Hsy.
Qed.

(* the wallet's tip is the node's tip: the represented chain is the node's chain *)
Lemma XInv_quiescent : forall A D S s,
  XInv A D S s -> snd (tip (x_w (xs_st s))) = b_id (last (xs_node s) g) ->
  exists f, XRep p (xs_st s) (xs_node s) [] f.
Proof.
  intros A D S s HI Htip.
  destruct HI as [Hnc Hall Hids Htxs Hgt Hgp Hwfn Hgn HnU HDU HnD [HS [c1 [c2 [n2 [f [Hn [Hc1 [Hc2 [Hwfc [HcU HR]]]]]]]]]]].
  set (n := xs_node s) in *.
  assert (Hnne : n <> []) by (apply wf_nonempty; assumption).
  set (x := last n g) in *.
  assert (Hnx : n = removelast n ++ [x]) by (apply app_removelast_last; assumption).
  assert (Hxn : In x n). { rewrite Hnx. apply in_or_app. right. left. reflexivity. }
  (* the last block of the represented chain is x *)
  destruct (exists_last (wf_nonempty _ Hwfc)) as [cpre [y Hc]].
  assert (Hty : snd (tip (x_w (xs_st s))) = b_id y).
  { destruct HR as [Hsy _]. rewrite (tip_synced (x_w (xs_st s)) (L p (fun _ => None) (c1 ++ c2)) Hsy).
    rewrite Hc, tip_L_snoc. reflexivity. }
  assert (Hyx : y = x).
  { apply (ids_inj _ Hids); [apply HcU; rewrite Hc; apply in_or_app; right; left; reflexivity|apply HnU; assumption|congruence]. }
  subst y.
  (* hence c2 is empty *)
  assert (Hc2nil : c2 = []).
  { destruct c2 as [|z c2'] using rev_ind; [reflexivity|]. exfalso.
    rewrite app_assoc in Hc. apply app_inj_tail in Hc. destruct Hc as [_ Hz]. subst z.
    apply (HnD x Hxn). apply Hc2. apply in_or_app. right. left. reflexivity. }
  subst c2. rewrite app_nil_r in Hc.
  (* and c1 is the whole node chain *)
  assert (Hn2nil : n2 = []).
  { destruct n2 as [|z n2'] using rev_ind; [reflexivity|]. exfalso.
    rewrite app_assoc in Hn. rewrite Hnx in Hn. apply app_inj_tail in Hn. destruct Hn as [Hpre Hz]. subst z.
    pose proof (wf_chain_nodup _ Hwfn) as Hnd. rewrite Hnx in Hnd. apply NoDup_app_inv in Hnd.
    destruct Hnd as [_ [_ Hd]]. apply (Hd x); [|left; reflexivity].
    rewrite Hpre. apply in_or_app. left. rewrite Hc. apply in_or_app. right. left. reflexivity. }
  subst n2. rewrite app_nil_r in Hn. exists f. rewrite Hn. exact HR.
Qed.

End XHistory.

(* ---------------------------------------------------------------- the theorems *)

Lemma xsims_prefix_in : forall fx p B cap h1 h2 s s',
  In s' (xsims fx p B cap s h1) -> In s' (xsims fx p B cap s (h1 ++ h2)).
Proof.
  intros fx p B cap h1. induction h1 as [|e h1 IH]; intros h2 s s' H.
  - cbn in H. destruct H as [H|[]]. subst s'. apply xsims_head.
  - cbn [app xsims] in *. destruct H as [H|H]; [left; assumption|right; apply IH; assumption].
Qed.

Lemma xsims_app_in : forall fx p B cap h1 h2 s s',
  In s' (xsims fx p B cap (fold_left (xstep fx p B cap) h1 s) h2) -> In s' (xsims fx p B cap s (h1 ++ h2)).
Proof.
  intros fx p B cap h1. induction h1 as [|e h1 IH]; intros h2 s s' H; [exact H|].
  cbn [app xsims]. right. apply IH. exact H.
Qed.

(* the invariant after any prefix of a well-formed history *)
Lemma wf_xhistory_inv : forall fx p B cap g h r,
  f_removable fx = true -> f_rollback fx = true -> f_rollback_order fx = true ->
  wf_xhistory fx p B cap g (h ++ r) ->
  exists A D S, XInv p g A D S (xrun fx p B cap [g] h) /\ xfresh g A S r.
Proof.
  intros fx p B cap g h r H1 H2 H3 [Hsims Hfr].
  assert (Hwfg : wf_chain [g]). { apply (Hsims (xinit_sim [g])). apply xsims_head. }
  unfold xrun. apply (XInv_run fx H1 H2 H3 p B cap g h r [] [] [] (xinit_sim [g])).
  - apply XInv_init. assumption.
  - assumption.
  - intros s' Hs'. apply Hsims. apply xsims_prefix_in. assumption.
Qed.

(* A: at every point of a well-formed history the handler has not died, and whenever its tip is the
   node's tip every ready wallet reports exactly what the node's chain pays to its addresses *)
Theorem survivors_correct_quiescent : forall fx p B cap g h,
  f_removable fx = true -> f_rollback fx = true -> f_rollback_order fx = true ->
  wf_xhistory fx p B cap g h ->
  let s := xrun fx p B cap [g] h in
  xs_crashed s = false /\
  (snd (tip (x_w (xs_st s))) = b_id (last (xs_node s) g) ->
   forall v, status_of (xs_st s) v = Some WReady ->
     xreport (xs_st s) v = spec_report p (key_owner (xs_st s)) (xs_node s) v).
Proof.
  intros fx p B cap g h H1 H2 H3 Hwf s.
  rewrite <- (app_nil_r h) in Hwf.
  destruct (wf_xhistory_inv fx p B cap g h [] H1 H2 H3 Hwf) as [A [D [S [HI _]]]]. fold s in HI.
  split; [exact (xi_nocrash _ _ _ _ _ _ HI)|].
  intros Htip v Hv. destruct (XInv_quiescent p g A D S s HI Htip) as [f HR].
  apply (exact_report p _ _ f v (xi_wfn _ _ _ _ _ _ HI) HR Hv).
Qed.

(* B: processing the announcement of the node's tip succeeds and puts the handler on that tip *)
Theorem survivors_correct_after : forall fx p B cap g h b,
  f_removable fx = true -> f_rollback fx = true -> f_rollback_order fx = true ->
  wf_xhistory fx p B cap g (h ++ [XProcess b]) ->
  last (xs_node (xrun fx p B cap [g] h)) g = b ->
  let s := xrun fx p B cap [g] (h ++ [XProcess b]) in
  xs_crashed s = false /\ snd (tip (x_w (xs_st s))) = b_id b /\
  forall v, status_of (xs_st s) v = Some WReady ->
    xreport (xs_st s) v = spec_report p (key_owner (xs_st s)) (xs_node s) v.
Proof.
  intros fx p B cap g h b H1 H2 H3 Hwf Hlast s.
  destruct (wf_xhistory_inv fx p B cap g h [XProcess b] H1 H2 H3 Hwf) as [A [D [S [HI Hfr]]]].
  cbn [xfresh] in Hfr. destruct Hfr as [HbA _].
  set (s1 := xrun fx p B cap [g] h) in *.
  destruct HI as [Hnc Hall Hids Htxs Hgt Hgp Hwfn Hgn HnU HDU HnD [HS [c1 [c2 [n2 [f [Hn [Hc1 [Hc2 [Hwfc [HcU HR]]]]]]]]]]].
  set (n := xs_node s1) in *.
  assert (Hbg : b <> g) by (apply (in_attached_not_g g A); assumption).
  assert (Hnne : n <> []) by (apply wf_nonempty; assumption).
  assert (Hnb : n = removelast n ++ [b]). { rewrite <- Hlast. apply app_removelast_last. assumption. }
  assert (Hn1 : removelast n <> []).
  { intros Hnil. rewrite Hnil in Hnb. destruct Hgn as [n' Hgn]. fold n in Hgn. rewrite Hgn in Hnb. cbn [app] in Hnb.
    inversion Hnb. congruence. }
  destruct (xprocess_on_node fx H2 H3 p g (g :: A) S (ids_inj _ Hids) Htxs n D (xs_st s1) c1 c2 n2 f b (removelast n) []
              HS Hwfn Hgn HnU HnD Hn Hc1 Hc2 Hwfc HcU HR Hnb Hn1) as [st' [f' [Hp [HR' _]]]].
  rewrite <- Hnb in HR'.
  assert (Hs : s = with_st s1 st').
  { unfold s, xrun. rewrite fold_left_app. cbn [fold_left xstep]. fold (xrun fx p B cap [g] h). fold s1.
    rewrite Hnc. fold n. rewrite Hp. reflexivity. }
  rewrite Hs. cbn [with_st xs_crashed xs_st xs_node]. fold n.
  split; [assumption|split].
  - destruct HR' as [Hsy _]. rewrite app_nil_r in Hsy.
    rewrite (tip_synced (x_w st') (L p (fun _ => None) n) Hsy). rewrite Hnb, tip_L_snoc. reflexivity.
  - intros v Hv. apply (exact_report p st' n f' v Hwfn HR' Hv).
Qed.
