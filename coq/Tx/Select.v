(* Tx/Select.v — coin selection of masswallet (definitions only; proofs in Tx/Proofs.v).

   Go sources modelled, line by line:
     masswallet/utxo_selector.go   topKSelector {k, base, guard, requireAmt}: submit / adjust / Items
     masswallet/tx.go              optOutputs (sort.Slice descending + greedy + "last unselected" repair),
                                   getUtxosExcludeBindingAndStaking (the eligibility filter)
   Amounts are Z (massutil.Amount is an unsigned 128-bit value bounded by MaxAmount; every
   Add is checked against MaxAmount, which the model keeps as an explicit failure).
   The functions are generic in the coin type [A] with its amount projection [amt], so that the
   same code runs on bare amounts (isolated correspondence runs) and on wallet coins. *)
From Coq Require Import List ZArith Bool Arith.
Import ListNotations.
Open Scope Z_scope.

Section Select.
Variable A : Type.
Variable amt : A -> Z.

Definition sum_amt (l : list A) : Z := fold_right (fun x s => amt x + s) 0 l.

(* ------------------------------------------------------------------ slices as lists *)

(* s[i] = x *)
Fixpoint upd (l : list A) (i : nat) (x : A) : list A :=
  match l, i with
  | [], _ => []
  | _ :: t, O => x :: t
  | h :: t, S j => h :: upd t j x
  end.

(* s[i], s[j] = s[j], s[i]  (indices in range at every call site, see Proofs.adjust_in_range) *)
Definition swap (l : list A) (i j : nat) : list A :=
  match nth_error l i, nth_error l j with
  | Some a, Some b => upd (upd l i b) j a
  | _, _ => l
  end.

(* ------------------------------------------------------------------ topKSelector *)

(* func (s *topKSelector) adjust(i int): sift-down in a min-heap of capacity k.
     cur := i; child := 2*cur+1
     for cur < s.k/2 {
        if child+1 < s.k && base[child] > base[child+1] { child++ }
        if base[cur] > base[child] { swap; cur = child; child = 2*cur+1 } else { break } }
   [fuel] bounds the loop; Proofs.adjust_fuel shows that k/2 - cur + 1 iterations suffice
   (cur strictly increases), so with fuel = k the out-of-fuel branch is never taken. *)
Fixpoint adjust (fuel : nat) (k : nat) (base : list A) (cur : nat) : list A :=
  match fuel with
  | O => base
  | S f =>
    if (cur <? k / 2)%nat then
      let c0 := (2 * cur + 1)%nat in
      match nth_error base cur, nth_error base c0 with
      | Some vcur, Some v0 =>
        let child :=
          match nth_error base (c0 + 1) with
          | Some v1 => if ((c0 + 1 <? k)%nat && (amt v1 <? amt v0))%bool then (c0 + 1)%nat else c0
          | None => c0
          end in
        match nth_error base child with
        | Some vch =>
          if amt vch <? amt vcur then adjust f k (swap base cur child) child else base
        | None => base
        end
      | _, _ => base
      end
    else base
  end.

(* for i := s.k/2 - 1; i >= 0; i-- { s.adjust(i) } *)
Definition heapify (k : nat) (base : list A) : list A :=
  fold_left (fun b i => adjust k k b i) (rev (seq 0 (k / 2))) base.

Record tk := mkTk { tk_base : list A; tk_guard : option A }.

(* func (s *topKSelector) submit(item) *)
Definition submit (k : nat) (req : Z) (s : tk) (x : A) : tk :=
  if req <? amt x then
    match tk_guard s with
    | None => mkTk (tk_base s) (Some x)
    | Some g => if amt x <? amt g then mkTk (tk_base s) (Some x) else s
    end
  else if (length (tk_base s) <? k)%nat then
    let b := tk_base s ++ [x] in
    if (length b =? k)%nat then mkTk (heapify k b) (tk_guard s) else mkTk b (tk_guard s)
  else
    match tk_base s with
    | r :: t =>
      if ((0 <? k)%nat && (amt r <? amt x))%bool then mkTk (adjust k k (x :: t) 0) (tk_guard s) else s
    | [] => s
    end.

Definition tk_run (k : nat) (req : Z) (l : list A) : tk :=
  fold_left (submit k req) l (mkTk [] None).

(* func (s *topKSelector) Items() *)
Definition tk_items (s : tk) : list A :=
  tk_base s ++ match tk_guard s with Some g => [g] | None => [] end.

Definition top_k (k : nat) (req : Z) (l : list A) : list A := tk_items (tk_run k req l).

(* Abstract characterisation (what the heap is for), as an executable function used by the
   correspondence run and by Proofs.top_k_spec: the k largest coins not above [req] plus the
   smallest coin above [req]. *)
Fixpoint ins_desc (x : A) (l : list A) : list A :=
  match l with
  | [] => [x]
  | y :: t => if amt y <? amt x then x :: l else y :: ins_desc x t
  end.
Definition sort_desc (l : list A) : list A := fold_right ins_desc [] l.

Fixpoint min_above (req : Z) (l : list A) (acc : option A) : option A :=
  match l with
  | [] => acc
  | x :: t =>
    if req <? amt x then
      match acc with
      | None => min_above req t (Some x)
      | Some g => if amt x <? amt g then min_above req t (Some x) else min_above req t acc
      end
    else min_above req t acc
  end.

Definition top_k_spec (k : nat) (req : Z) (l : list A) : list A :=
  firstn k (sort_desc (filter (fun x => negb (req <? amt x)) l))
  ++ match min_above req l None with Some g => [g] | None => [] end.

(* ------------------------------------------------------------------ optOutputs *)

(* The loop of optOutputs over the descending list. State: [sel] the selected coins in order,
   [snap] = Some (selected coins before the last unselected index, the last unselected coin),
   [opt] = optAmount, [res] = sumReserve. None = a checked Amount addition exceeded MaxAmount.

     for index, u := range utxos {
        sumReserve += u ; optAmount += u
        if index == len-1 { selected += index
                            if optAmount < amount && len(unSelected) > 0 {
                               selected = {i in selected | i < lastUnsel} ++ [lastUnsel] }
                            break }
        if optAmount > amount { unSelected += index; optAmount -= u; continue }
        selected += index
        if optAmount == amount { break } } *)
Fixpoint greedy (max_amount amount : Z) (l : list A) (sel : list A) (snap : option (list A * A)) (opt res : Z)
  : option (list A) :=
  match l with
  | [] => Some sel
  | x :: rest =>
    let res' := res + amt x in
    let opt' := opt + amt x in
    if max_amount <? res' then None
    else
      match rest with
      | [] =>
        let sel' := sel ++ [x] in
        if opt' <? amount then
          match snap with
          | Some (s, u) => Some (s ++ [u])
          | None => Some sel'
          end
        else Some sel'
      | _ :: _ =>
        if amount <? opt' then greedy max_amount amount rest sel (Some (sel, x)) opt res'
        else if opt' =? amount then Some (sel ++ [x])
        else greedy max_amount amount rest (sel ++ [x]) snap opt' res'
      end
  end.

(* optOutputs(amount, utxos): the selection (sumSelection is its sum). *)
Definition opt_outputs (max_amount amount : Z) (l : list A) : option (list A) :=
  if amount =? 0 then Some []
  else greedy max_amount amount (sort_desc l) [] None 0 0.

End Select.

Arguments sum_amt {A}.
Arguments upd {A}.
Arguments swap {A}.
Arguments adjust {A}.
Arguments heapify {A}.
Arguments mkTk {A}.
Arguments tk_base {A}.
Arguments tk_guard {A}.
Arguments submit {A}.
Arguments tk_run {A}.
Arguments tk_items {A}.
Arguments top_k {A}.
Arguments ins_desc {A}.
Arguments sort_desc {A}.
Arguments min_above {A}.
Arguments top_k_spec {A}.
Arguments greedy {A}.
Arguments opt_outputs {A}.

(* ------------------------------------------------------------------ wallet coins and eligibility *)

(* One row of the current wallet's unspent bucket as ScriptAddressUnspents presents it
   (txmgr.Credit): outpoint (an opaque id), amount, script hash (address id), confirmations
   (= syncHeight - height + 1), maturity, class (0 standard, 1 staking, 2 binding),
   Flags.Spent, Flags.SpentByUnmined. *)
Record utxo := mkU {
  u_id : Z; u_amt : Z; u_sh : Z; u_confs : Z; u_mat : Z; u_class : Z;
  u_spent : bool; u_su : bool }.

Definition memZ (x : Z) (l : list Z) : bool := existsb (Z.eqb x) l.

(* ScriptAddressUnspents skips zero amounts and script hashes outside the requested set; the
   filter of getUtxosExcludeBindingAndStaking:
     Confirmations >= Maturity && !SpentByUnmined && !Spent && Class != Binding && Class != Staking
     && !UTXOUsed(outpoint) && !TxMemPool().CheckPoolOutPointSpend(outpoint) *)
Definition eligible_b (addrs reserved pool : list Z) (u : utxo) : bool :=
  (0 <? u_amt u) && memZ (u_sh u) addrs &&
  (u_mat u <=? u_confs u) && negb (u_su u) && negb (u_spent u) &&
  negb (u_class u =? 2) && negb (u_class u =? 1) &&
  negb (memZ (u_id u) reserved) && negb (memZ (u_id u) pool).

Definition eligible (addrs reserved pool : list Z) (l : list utxo) : list utxo :=
  filter (eligible_b addrs reserved pool) l.

(* capacity of the selector: blockchain.GetMaxStandardTxSize() / 154 *)
Definition max_standard_tx_size : Z := 100000.
Definition input_size : Z := 154.
Definition sel_k : nat := Z.to_nat (max_standard_tx_size / input_size).
